SPECIFICATION Spec
CONSTANTS W = 2
 N = 4
 Mode = "reduce"
INVARIANT RedCanon
INVARIANT RedNew
CHECK_DEADLOCK FALSE
