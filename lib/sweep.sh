#!/bin/sh
# usage: sweep.sh <seed>: all 20 quick checks at that seed in a private copy of /verif (recorders built against /repo)
s=$1; d=/tmp/sweep/s$s
mkdir -p $d; rsync -a --delete --exclude .git --exclude seeded --exclude experiments --exclude 'work/C*' --exclude work/replay --exclude work/seedeval --exclude work/automut /verif/ $d/
cd $d; : > sweep.log
for i in 01 02 03 04 05 06 07 08 09 10 11 12 13 14 15 16 17 18 19 20; do
  VERIF_SEED=$s VERIF_TIER=quick ./check C$i quick > out_C$i.log 2>&1; rc=$?
  echo "seed=$s C$i exit=$rc viol=$(grep -c '^VIOLATION' out_C$i.log) tool=$(grep -c 'TOOL-ERROR' out_C$i.log)" >> sweep.log
done
echo finished >> sweep.log
