---------------------------- MODULE ModLemmas256 ----------------------------
(***************************************************************************)
(* Modular add/sub/neg/double/halve at the REAL width (N = 2^256, one limb *)
(* B = 2^64), for ALL operand values, discharged by Apalache (SMT over     *)
(* unbounded integers).  Every formula below is the integer meaning of the *)
(* limb code (adc/sbb chains are exact by WordLemmas64 and algo/Words.tla),*)
(* so the obligations are linear.  algo/ModArith.tla checks the same       *)
(* transcription exhaustively at W in {2,3}; here the word size is 64 and  *)
(* the values are unrestricted.  Preconditions are the documented ones     *)
(* ("assumes self + rhs < 2p", "self - rhs in [-p, p)", "self in [0,p)").  *)
(*   src/uint/add_mod.rs 9-50, sub_mod.rs 9-50, neg_mod.rs 8-27,           *)
(*   src/modular/div_by_2.rs 5-42                                          *)
(* Run: apalache-mc check --init=Init --inv=Inv --length=0 ModLemmas256.tla*)
(***************************************************************************)
EXTENDS Integers
VARIABLES
  \* @type: Int;
  a,
  \* @type: Int;
  b,
  \* @type: Int;
  p,
  \* @type: Int;
  c,
  \* @type: Int;
  cy
B == 18446744073709551616
N == 115792089237316195423570985008687907853269984665640564039457584007913129639936
Init == /\ a \in Int /\ b \in Int /\ p \in Int /\ c \in Int /\ cy \in Int
        /\ 0 <= a /\ a < N /\ 0 <= b /\ b < N /\ 0 < p /\ p < N
        /\ 0 < c /\ c < B /\ 0 <= cy /\ cy <= 1
Next == UNCHANGED <<a, b, p, c, cy>>

ModP(x) == x % p                                \* x >= 0 where used
Mask(cond) == IF cond THEN B - 1 ELSE 0

(* add_mod: (w, carry) = a.adc(b); (w, borrow) = w.sbb(p); (_, mask) = carry.sbb(0, borrow) *)
AddW == (a + b) % N
AddC == (a + b) \div N
AddT == AddW - p
AddBorrow == AddT < 0
AddW2 == IF AddBorrow THEN AddT + N ELSE AddT
AddMask == Mask(AddC - (IF AddBorrow THEN 1 ELSE 0) < 0)       \* borrow-out of carry - 0 - borrow
AddRes == (AddW2 + (IF AddMask = B - 1 THEN p ELSE 0)) % N
AddModOK == (a + b < 2 * p) => (AddRes = ModP(a + b) /\ AddRes < p)

(* double_mod: overflowing_shl1, then as add_mod *)
DblW == (2 * a) % N
DblC == (2 * a) \div N
DblT == DblW - p
DblBorrow == DblT < 0
DblW2 == IF DblBorrow THEN DblT + N ELSE DblT
DblMask == Mask(DblC - (IF DblBorrow THEN 1 ELSE 0) < 0)
DblRes == (DblW2 + (IF DblMask = B - 1 THEN p ELSE 0)) % N
DoubleModOK == (a < p) => (DblRes = ModP(2 * a) /\ DblRes < p)

(* add_mod_special: p = N - c; (out, carry) = a.adc(b, c); l = (carry - 1) & c; out - l *)
SpP == N - c
SpOut == (a + b + c) % N
SpCarry == (a + b + c) \div N
SpL == IF SpCarry = 0 THEN c ELSE 0                             \* (0 - 1) & c = c, (1 - 1) & c = 0
SpRes == (SpOut - SpL + N) % N
AddSpecialOK == (a + b < 2 * SpP) => (SpCarry <= 1 /\ SpRes = (a + b) % SpP /\ SpRes < SpP)

(* sub_mod: (out, mask) = a.sbb(b); out + (p & mask) *)
SubBorrow == a - b < 0
SubOut == IF SubBorrow THEN a - b + N ELSE a - b
SubRes == (SubOut + (IF SubBorrow THEN p ELSE 0)) % N
SubModOK == (a - b >= 0 - p /\ a - b < p) => (SubRes = (a - b + p) % p /\ SubRes < p)

(* sub_mod_with_carry: value (a + cy*N) - b; mask = (cy = 0) /\ borrow *)
SwcMask == cy = 0 /\ SubBorrow
SwcRes == (SubOut + (IF SwcMask THEN p ELSE 0)) % N
SubWithCarryOK ==
  LET v == a + cy * N - b
  IN (v >= 0 - p /\ v < p) => (SwcRes = (v + p) % p /\ SwcRes < p)

(* sub_mod_special: out - (borrow & c) *)
SsRes == (SubOut - (IF SubBorrow THEN c ELSE 0) + N) % N
SubSpecialOK == (a - b >= 0 - SpP /\ a - b < SpP) => (SsRes = (a - b + SpP) % SpP /\ SsRes < SpP)

(* neg_mod: p.sbb(a) zeroed when a = 0 *)
NegRes == IF a = 0 THEN 0 ELSE (p - a + N) % N
NegModOK == (a < p) => (NegRes = (p - a) % p /\ NegRes < p)

(* div_by_2 (p odd): select(a, a + p, odd) >> 1 with the carry as the top bit *)
HalfOdd == a % 2 = 1
HalfSum == a + p
HalfLow == IF HalfOdd THEN HalfSum % N ELSE a
HalfCarry == IF HalfOdd THEN HalfSum \div N ELSE 0
HalfRes == HalfLow \div 2 + HalfCarry * (N \div 2)
DivBy2OK == (a < p /\ p % 2 = 1) => (HalfRes < p /\ (2 * HalfRes) % p = a)

(* vacuity guards: without the documented precondition the claims are false and must be refuted *)
AddNoPre == AddRes = ModP(a + b)
HalfNoPre == (a < p) => (2 * HalfRes) % p = a                   \* even modulus

Inv == /\ AddModOK /\ DoubleModOK /\ AddSpecialOK /\ SubModOK /\ SubWithCarryOK
       /\ SubSpecialOK /\ NegModOK /\ DivBy2OK
=============================================================================
