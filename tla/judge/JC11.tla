-------------------------------- MODULE JC11 --------------------------------
(* C11 — totality.  A "tot" event is one call with hostile arguments;       *)
(* exp is the documented expectation for exactly this call (PanicSpec):     *)
(*   "nopanic"  the operation is total or reports failure through its       *)
(*              option/result type: it must return (no panic, no hang)      *)
(*   "panic"    the doc comment promises a panic for this argument          *)
(*   "any"      the documentation is silent for this argument               *)
EXTENDS BigNat

JudgeC11(e, rg) ==
  CASE e.op = "tot" ->
         CASE e.exp = "nopanic" -> e.k = "ok"
           [] e.exp = "panic"   -> e.k = "panic"
           [] e.exp = "any"     -> e.k \in {"ok", "panic"}      \* never a hang
           [] OTHER -> FALSE
    [] OTHER -> FALSE
=============================================================================
