-------------------------------- MODULE Bytes --------------------------------
(***************************************************************************)
(* Byte-string codecs of boxed and fixed integers (C16), transcribed from  *)
(* src/uint/boxed/encoding.rs 9-110 and src/limb/encoding.rs 38-61 with    *)
(* scaled-down units: an "octet" has Q bits, a limb LB octets (W = Q*LB    *)
(* bits).  For ALL octet strings up to MaxLen and ALL precisions up to     *)
(* MaxPrec:                                                                *)
(*   from_be_slice / from_le_slice(bytes, bits_precision):                 *)
(*     empty input and precision 0 -> zero (one limb);                     *)
(*     len > ceil(precision / Q) -> InputSize;                             *)
(*     limbs = ceil(precision / W), filled from limb-sized chunks taken    *)
(*     from the least significant end (rchunks / chunks), a short chunk is *)
(*     the most significant one and is zero-extended by Limb::from_*_slice;*)
(*     value needs more than `precision` bits -> Precision error.          *)
(*   to_be_bytes / to_le_bytes: every limb, most / least significant first.*)
(* Contract: ok(v) iff the string is not longer than the precision in      *)
(* octets and its value is below 2^precision; then v is that value, the    *)
(* result has ceil(precision / W) limbs and to_*_bytes(from_*_slice(s))    *)
(* is s zero-extended to whole limbs.                                      *)
(***************************************************************************)
EXTENDS Integers, Sequences, TLC
CONSTANTS Q, LB, MaxLen, MaxPrec, Mut      \* Mut = 1: chunks taken from the wrong end (must be refuted)
O == 2 ^ Q                                 \* octet values 0..O-1
W == Q * LB
B == 2 ^ W
CeilDiv(a, b) == (a + b - 1) \div b

RECURSIVE ValBE(_)
ValBE(s) == IF s = <<>> THEN 0 ELSE ValBE(SubSeq(s, 1, Len(s) - 1)) * O + s[Len(s)]
RECURSIVE ValLE(_)
ValLE(s) == IF s = <<>> THEN 0 ELSE s[1] + O * ValLE(Tail(s))
RECURSIVE BitLen(_)
BitLen(v) == IF v = 0 THEN 0 ELSE 1 + BitLen(v \div 2)
RECURSIVE ValLimbs(_)
ValLimbs(l) == IF l = <<>> THEN 0 ELSE l[1] + B * ValLimbs(Tail(l))

(* Limb::from_be_slice / from_le_slice of a chunk of at most LB octets: zero-extended *)
LimbFromBE(c) == ValBE(c)
LimbFromLE(c) == ValLE(c)

(* rchunks(LB): chunk k (k = 1 is the LAST LB octets); chunks(LB): chunk k from the front *)
RChunk(s, k) == LET hi == Len(s) - (k - 1) * LB   lo == IF hi - LB + 1 < 1 THEN 1 ELSE hi - LB + 1 IN SubSeq(s, lo, hi)
Chunk(s, k)  == LET lo == (k - 1) * LB + 1   hi == IF lo + LB - 1 > Len(s) THEN Len(s) ELSE lo + LB - 1 IN SubSeq(s, lo, hi)
NChunks(s) == CeilDiv(Len(s), LB)

Ok(limbs) == <<"ok", limbs>>
FromBE(s, prec) ==
  IF s = <<>> /\ prec = 0 THEN Ok(<<0>>)
  ELSE IF Len(s) > CeilDiv(prec, Q) THEN <<"InputSize", <<>>>>
  ELSE LET n == CeilDiv(prec, W)
           limbs == [k \in 1..n |-> IF k <= NChunks(s) THEN LimbFromBE(IF Mut = 1 THEN Chunk(s, k) ELSE RChunk(s, k)) ELSE 0]
       IN IF prec < BitLen(ValLimbs(limbs)) THEN <<"Precision", <<>>>> ELSE Ok(limbs)
FromLE(s, prec) ==
  IF s = <<>> /\ prec = 0 THEN Ok(<<0>>)
  ELSE IF Len(s) > CeilDiv(prec, Q) THEN <<"InputSize", <<>>>>
  ELSE LET n == CeilDiv(prec, W)
           limbs == [k \in 1..n |-> IF k <= NChunks(s) THEN LimbFromLE(Chunk(s, k)) ELSE 0]
       IN IF prec < BitLen(ValLimbs(limbs)) THEN <<"Precision", <<>>>> ELSE Ok(limbs)

(* to_be_bytes / to_le_bytes: each limb as LB octets *)
RECURSIVE LimbBE(_, _)
LimbBE(l, k) == IF k = 0 THEN <<>> ELSE LimbBE(l \div O, k - 1) \o <<l % O>>
RECURSIVE LimbLE(_, _)
LimbLE(l, k) == IF k = 0 THEN <<>> ELSE <<l % O>> \o LimbLE(l \div O, k - 1)
RECURSIVE ToBE(_)
ToBE(limbs) == IF limbs = <<>> THEN <<>> ELSE ToBE(Tail(limbs)) \o LimbBE(limbs[1], LB)
RECURSIVE ToLE(_)
ToLE(limbs) == IF limbs = <<>> THEN <<>> ELSE LimbLE(limbs[1], LB) \o ToLE(Tail(limbs))
RECURSIVE Zeros(_)
Zeros(n) == IF n <= 0 THEN <<>> ELSE <<0>> \o Zeros(n - 1)

VARIABLES s, prec
Strings == UNION {[1..n -> 0..(O - 1)] : n \in 0..MaxLen}
Init == s \in Strings /\ prec \in 0..MaxPrec
Next == UNCHANGED <<s, prec>>
Spec == Init /\ [][Next]_<<s, prec>>

Contract(r, v) ==
  IF s = <<>> /\ prec = 0 THEN r = Ok(<<0>>)
  ELSE IF Len(s) > CeilDiv(prec, Q) THEN r[1] = "InputSize"
  ELSE IF v >= 2 ^ prec THEN r[1] = "Precision"
  ELSE /\ r[1] = "ok" /\ ValLimbs(r[2]) = v /\ Len(r[2]) = CeilDiv(prec, W)
BEOK == Contract(FromBE(s, prec), ValBE(s))
LEOK == Contract(FromLE(s, prec), ValLE(s))
RoundTripOK ==
  /\ LET r == FromBE(s, prec) IN r[1] = "ok" /\ ~(s = <<>> /\ prec = 0) => ToBE(r[2]) = Zeros(Len(r[2]) * LB - Len(s)) \o s
  /\ LET r == FromLE(s, prec) IN r[1] = "ok" /\ ~(s = <<>> /\ prec = 0) => ToLE(r[2]) = s \o Zeros(Len(r[2]) * LB - Len(s))
=============================================================================
