SPECIFICATION Spec
CONSTANTS W = 4
 WIN = 2
 EL = 2
 MMAX = 9
 NB = 1
INVARIANT Exact
CHECK_DEADLOCK FALSE
