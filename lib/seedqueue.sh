#!/bin/sh
# evaluation lane for one round of seeded changes: usage seedqueue.sh <round> <props in the order this lane prefers>; touch work/seedeval/R<round>C<nn>.agentdone when the sub-agent has finished; a tag is claimed atomically by mkdir
cd /verif
round=$1; shift
while :; do
  pending=0
  for p in "$@"; do
    tag=R${round}C$p
    [ -f work/seedeval/$tag.fin ] && continue
    [ -d work/seedeval/$tag.lock ] && { [ -f work/seedeval/$tag.fin ] || pending=1; continue; }
    pending=1
    if [ -f /tmp/mut/$tag/OUT/m3/meta.json ] && [ -f /tmp/mut/$tag/OUT/m1/meta.json ] && [ -f /tmp/mut/$tag/OUT/m2/meta.json ] && [ -f work/seedeval/$tag.agentdone ]; then
      mkdir work/seedeval/$tag.lock 2>/dev/null || continue
      case $p in 11) also=C09,C02,C05;; 15) also=C02,C09,C04,C10;; 14) also=C02;; *) also=;; esac
      ALSO=$also python3 lib/seedeval.py $tag > work/seedeval/$tag.log 2>&1
      touch work/seedeval/$tag.fin
    fi
  done
  [ $pending = 0 ] && break
  sleep 20
done
