# exhaustive check of the boxed window ladder's final "two conditional subtractions" at toy size
import sys
def run(RB, EXPB, WIN):
    R = 1 << RB
    worst = 0; bad = []
    for m in range(1, R, 2):
        minv = pow(m, -1, R); nm = (-minv) % R
        def amm(x, y):
            p = x*y; q = (p * nm) % R; z = (p + q*m) >> RB
            if z >= R: z -= m
            return z
        one = R % m
        for x in range(m):
            xm = (x * R) % m
            powers = [one, xm]
            for i in range(2, 1 << WIN): powers.append(amm(powers[-1], xm))
            for k in range(1, EXPB+1):
                for e in range(1 << k):
                    # process k bits of e in windows from the top, as the code does
                    nwin = (k + WIN - 1)//WIN
                    z = one
                    for wi in range(nwin-1, -1, -1):
                        if wi != nwin-1:
                            for _ in range(WIN): z = amm(z, z)
                        idx = (e >> (wi*WIN)) & ((1<<WIN)-1)
                        if wi == nwin-1:
                            idx &= (1 << ((k-1) % WIN + 1)) - 1
                        z = amm(z, powers[idx])
                    f = z // m
                    if f > worst: worst = f
                    zz = z
                    if zz >= m: zz -= m
                    if zz >= m: zz -= m
                    if zz != (pow(x, e, m) * R) % m:
                        bad.append((m, x, e, k, z)); 
                        if len(bad) > 5: return worst, bad
    return worst, bad
for (RB, EXPB, WIN) in [(6,6,2),(8,8,2),(8,8,4)]:
    w,b = run(RB, EXPB, WIN)
    print("R=2^%d exp<=%d bits window=%d: worst floor(z/m) before final subtractions = %d; failures: %s" % (RB, EXPB, WIN, w, b[:3]))
