SPECIFICATION Spec
CONSTANTS W = 2
 N = 2
 T = 2
INVARIANT Exact
CHECK_DEADLOCK FALSE
