-------------------------------- MODULE JC14 --------------------------------
(* C14 — contract of the recorded events of this property (stub).           *)
EXTENDS BigNat

JudgeC14(e, rg) == FALSE
=============================================================================
