SPECIFICATION Spec
CONSTANTS Moduli = {15}
 RBits = 4
 MaxLen = 64
 Window = 3
 EmitFor = 15
INVARIANT MontyCanonical
INVARIANT MontyTracksZm
INVARIANT HalveIsHalf
INVARIANT Emit
CHECK_DEADLOCK FALSE
