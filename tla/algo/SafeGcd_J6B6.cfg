SPECIFICATION Spec
CONSTANTS J = 6
 BITS = 6
 HEAD = 8
INVARIANT Converges
INVARIANT NoOverflow
INVARIANT DRange
INVARIANT SomeIffCoprime
INVARIANT InverseOK
CHECK_DEADLOCK FALSE
