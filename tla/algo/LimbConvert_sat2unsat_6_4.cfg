SPECIFICATION Spec
CONSTANTS IB = 6
 OB = 4
 TB = 6
 NI = 3
 NO = 5
 Mut = 0
INVARIANT ConvertOK
CHECK_DEADLOCK FALSE
