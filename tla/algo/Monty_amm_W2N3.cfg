SPECIFICATION Spec
CONSTANTS W = 2
 N = 3
 Mode = "amm"
INVARIANT AmmCongruent
INVARIANT AmmRawBound
INVARIANT AmmClaim1
INVARIANT CanonOneSub
INVARIANT RetrieveCanon
INVARIANT SquareBigMod
CHECK_DEADLOCK FALSE
