SPECIFICATION Spec
CONSTANTS W = 3
 N = 2
 T = 1
INVARIANT Exact
CHECK_DEADLOCK FALSE
