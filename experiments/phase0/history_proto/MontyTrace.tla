---- MODULE MontyTrace ----
\* R2 prototype for C08: every prefix of every generated history is validated against ghost state in Z/mZ.
EXTENDS BigNat, Naturals, Sequences, TLC, Json, IOUtils
Rec == ndJsonDeserialize("trace.ndjson")
VARIABLES l, ghost, bad     \* position; ghost[i] = value of register i in Z/mZ; rejected event indices
Bits(ty) == IF ty = "MontyForm<4>" THEN 256 ELSE 128      \* BoxedUint::from(u128) has 128-bit precision
R(e) == Shl(One, Bits(e.ty))
\* contract: value of the expression in Z/mZ
Two == <<2>>
Half(g, m) == IF Mod(g, Two) = Zero THEN Div(g, Two) ELSE Div(g \oplus m, Two)   \* (g + m)/2 for odd g, m odd
Eval(e, gs) == LET m == e.m IN
  CASE e.op = "new"    -> Mod(e.val, m)
    [] e.op = "neg"    -> Mod(m \ominus gs[e.a], m)
    [] e.op = "double" -> Mod(gs[e.a] \oplus gs[e.a], m)
    [] e.op = "square" -> Mod(gs[e.a] \otimes gs[e.a], m)
    [] e.op = "halve"  -> Mod(Half(gs[e.a], m), m)
    [] e.op = "add"    -> Mod(gs[e.a] \oplus gs[e.b], m)
    [] e.op = "sub"    -> Mod((gs[e.a] \oplus m) \ominus gs[e.b], m)
    [] e.op = "mul"    -> Mod(gs[e.a] \otimes gs[e.b], m)
ToMonty(g, e) == Mod(g \otimes R(e), e.m)
Init == l = 1 /\ ghost = <<>> /\ bad = <<>>
Step == /\ l <= Len(Rec)
        /\ LET e  == Rec[l]
               gs == IF e.first THEN <<>> ELSE ghost
               g  == Eval(e, gs)
               ok == /\ e.retr = g                        \* retrieve tracks Z/mZ
                     /\ e.mform = ToMonty(g, e)           \* stored form is THE canonical representative
                     /\ Lt(e.mform, e.m)                  \* canonical: < m
           IN /\ ghost' = Append(gs, g)
              /\ bad' = IF ok THEN bad ELSE Append(bad, l)
              /\ (~ok) => PrintT(<<"REJECT", l, e.ty, e.op, e.m, "retr", e.retr, "want", g, "mform", e.mform, "want", ToMonty(g, e)>>)
        /\ l' = l + 1
Spec == Init /\ [][Step]_<<l, ghost, bad>>
Accepted == /\ TLCGet("stats").diameter - 1 = Len(Rec)

====
