------------------------------ MODULE CodecOps --------------------------------
(***************************************************************************)
(* DER INTEGER and RLP codecs of Uint<N> (C18), transcribed end to end —   *)
(* the crate's glue (src/uint/encoding/der.rs 9-62, rlp.rs 6-46) together  *)
(* with the parts of the `der` 0.8 and `rlp` 0.6 crates it runs through    *)
(* (Length::decode, Header, read_nested, UintRef::decode_value,            *)
(* decode_to_slice, strip_leading_zeroes, encoded_len; PayloadInfo::from,  *)
(* calculate_payload_info, BasicDecoder::decode_value, decode_usize,       *)
(* RlpStream::encode_iter) — with scaled-down units: an "octet" has Q bits *)
(* (values 0..O-1, "top bit" H = O/2), a Uint has NB octets.  The scaling  *)
(* moves the boundaries that real widths reach only at U1024 and above     *)
(* (long-form DER length at content >= H octets; RLP long strings above T  *)
(* octets) inside the explored range.                                      *)
(*                                                                         *)
(* Checked for ALL octet strings up to MaxLen (mode "s") and ALL values    *)
(* below O^NB (mode "y"):                                                   *)
(*   DecSound   Dec(s) = ok(y)  =>  y < O^NB  and  s = Enc(y)  (for RLP:   *)
(*              Enc(y) is the item at the front of s, see JC18)            *)
(*   RoundTrip  Dec(Enc(y)) = ok(y)                                        *)
(*   *EncCanon  Enc(y) is the abstract canonical form (stated on numbers,  *)
(*              independently of the transcription: minimal two's-         *)
(*              complement content / minimal magnitude, minimal length)    *)
(* DecSound + RoundTrip give: Dec(s) is ok exactly for the canonical       *)
(* encodings of fitting values — canonical and failing closed; and the     *)
(* judge's shortcut (tla/judge/JC18.tla: decode the one candidate body and *)
(* re-encode it) is checked against the transcription by JudgeAgrees.      *)
(* Mut = 1: RLP decode without the payload_info check (the defect repaired *)
(* by 6f1e8d7); Mut = 2: DER pad octet decided by > H instead of >= H;     *)
(* both must be refuted.                                                   *)
(***************************************************************************)
EXTENDS Integers, Sequences, TLC
CONSTANTS Q, NB, T, LS, Mut                \* T: longest RLP short string; LS: number of long-string prefixes
O == 2 ^ Q
H == O \div 2
LL == IF H - 1 < 4 THEN H - 1 ELSE 4       \* DER: at most LL length octets after the initial one (real: 4)
INTEGER == 2                               \* the tag octet

RECURSIVE ValBE(_)
ValBE(s) == IF s = <<>> THEN 0 ELSE ValBE(SubSeq(s, 1, Len(s) - 1)) * O + s[Len(s)]
RECURSIVE ToBE(_, _)
ToBE(v, n) == IF n = 0 THEN <<>> ELSE ToBE(v \div O, n - 1) \o <<v % O>>      \* exactly n octets
RECURSIVE MinBE(_)
MinBE(v) == IF v = 0 THEN <<>> ELSE MinBE(v \div O) \o <<v % O>>              \* minimal magnitude, <<>> for 0
IsPrefix(p, s) == Len(p) <= Len(s) /\ SubSeq(s, 1, Len(p)) = p
Drop(s, n) == SubSeq(s, n + 1, Len(s))
Ok(y) == <<"ok", y>>
Err(r) == <<"err", r>>

--------------------------------------------------------------------------
(* der crate *)
RECURSIVE StripLeadingZeroes(_)
StripLeadingZeroes(b) == IF Len(b) >= 2 /\ b[1] = 0 THEN StripLeadingZeroes(Tail(b)) ELSE b
NeedsLeadingZero(b) == b # <<>> /\ (IF Mut = 2 THEN b[1] > H ELSE b[1] >= H)
EncodedLen(b) == LET c == StripLeadingZeroes(b) IN Len(c) + (IF NeedsLeadingZero(c) THEN 1 ELSE 0)

(* Length::initial_octet and Length::encode: minimal number of octets *)
LenOctets(n) == Len(MinBE(n))
InitialOctet(n) == IF n < H THEN 0 ELSE H + LenOctets(n)                       \* 0 = None
EncLength(n) == IF n < H THEN <<n>> ELSE <<H + LenOctets(n)>> \o MinBE(n)

(* Length::decode on the octets after the tag: <<"ok", length, octets consumed>> *)
DecLength(r) ==
  IF r = <<>> THEN Err("eof")
  ELSE IF r[1] < H THEN <<"ok", r[1], 1>>
  ELSE IF r[1] = H THEN Err("indefinite")
  ELSE IF r[1] <= H + LL THEN
         LET nb == r[1] - H IN
         IF Len(r) < 1 + nb THEN Err("eof")
         ELSE IF nb = 4 /\ Q >= 4 /\ r[2] >= O \div 16 THEN Err("overflow")      \* Length::try_from(u32): Length::MAX = 2^28 - 1
         ELSE LET n == ValBE(SubSeq(r, 2, 1 + nb)) IN
              IF InitialOctet(n) = r[1] THEN <<"ok", n, 1 + nb>> ELSE Err("overlength")
  ELSE Err("overlength")

DecodeToSlice(b) ==
  IF b = <<>> THEN Err("noncanonical")
  ELSE IF b = <<0>> THEN Ok(b)
  ELSE IF b[1] = 0 /\ b[2] < H THEN Err("noncanonical")
  ELSE IF b[1] = 0 THEN Ok(Tail(b))
  ELSE IF b[1] >= H THEN Err("value")
  ELSE Ok(b)

(* UintRef::decode_value on the content octets, then TryFrom<UintRef> for Uint (der.rs 26-34) *)
DerDecodeValue(content) ==
  LET d == DecodeToSlice(content) IN
  IF d[1] = "err" THEN d
  ELSE LET u == StripLeadingZeroes(d[2]) IN                                    \* UintRef::new
       IF EncodedLen(u) # Len(content) THEN Err("noncanonical")
       ELSE IF NB - Len(u) < 0 THEN Err("length")                             \* checked_sub
       ELSE Ok(u)                                                              \* copied behind NB - Len(u) zero octets

(* Decode::from_der: header, tag check, read_nested (exact length), no trailing octets *)
DerDecO(s) ==
  IF s = <<>> THEN Err("eof")
  ELSE IF s[1] # INTEGER THEN Err("tag")
  ELSE LET l == DecLength(Tail(s)) IN
       IF l[1] = "err" THEN l
       ELSE LET rest == Drop(s, 1 + l[3]) IN
            IF Len(rest) < l[2] THEN Err("incomplete")
            ELSE IF Len(rest) > l[2] THEN Err("trailing")
            ELSE DerDecodeValue(rest)

(* Encode: to_be_byte_array, UintRef::new (strips), value_len, header, pad octet, magnitude *)
DerEncO(b) ==
  LET u == StripLeadingZeroes(b)
      vl == EncodedLen(u)
  IN <<INTEGER>> \o EncLength(vl) \o (IF vl > Len(u) THEN <<0>> ELSE <<>>) \o u

DerDec(s) == LET r == DerDecO(s) IN IF r[1] = "ok" THEN Ok(ValBE(r[2])) ELSE r       \* on numbers
DerEnc(y) == DerEncO(ToBE(y, NB))

(* the abstract canonical form, on numbers *)
DerContentAbs(y) == IF y = 0 THEN <<0>> ELSE LET m == MinBE(y) IN IF m[1] >= H THEN <<0>> \o m ELSE m
DerCanonAbs(y) == LET c == DerContentAbs(y) IN <<INTEGER>> \o (IF Len(c) < H THEN <<Len(c)>> ELSE <<H + Len(MinBE(Len(c)))>> \o MinBE(Len(c))) \o c

(* the judge's decision procedure (JC18 DerBody / DerValid), generalised to LL length octets *)
DerBodyJ(s) == IF Len(s) < 2 THEN <<>>
               ELSE IF s[2] < H THEN Drop(s, 2)
               ELSE IF s[2] > H /\ s[2] <= H + LL /\ Len(s) >= 2 + (s[2] - H) THEN Drop(s, 2 + (s[2] - H))
               ELSE <<>>
DerValidJ(s) == LET v == ValBE(DerBodyJ(s)) IN v < O ^ NB /\ DerCanonAbs(v) = s

--------------------------------------------------------------------------
(* rlp crate: prefixes  [0,H) single octet | [H, H+T] short string | (H+T, H+T+LS] long string | above: lists *)
SS == H + T
LG == H + T + LS
Huge == 2 ^ 30                              \* stands for any length that needs more than 24 bits: longer than every explored string
DecodeUsize(b) == IF b[1] = 0 THEN Err("indirection") ELSE IF Len(b) * Q > 24 THEN Ok(Huge) ELSE Ok(ValBE(b))
CalcPayloadInfo(s, lol) ==
  IF Len(s) < 2 THEN Err("short")
  ELSE IF s[2] = 0 THEN Err("zeroprefix")
  ELSE IF Len(s) < 1 + lol THEN Err("short")
  ELSE LET v == DecodeUsize(SubSeq(s, 2, 1 + lol)) IN
       IF v[1] = "err" THEN v
       ELSE IF v[2] <= T THEN Err("indirection")
       ELSE <<"ok", 1 + lol, v[2]>>
PayloadInfo(s) ==
  IF s = <<>> THEN Err("short")
  ELSE LET l == s[1]
           pi == IF l < H THEN <<"ok", 0, 1>>
                 ELSE IF l <= SS THEN <<"ok", 1, l - H>>
                 ELSE IF l <= LG THEN CalcPayloadInfo(s, l - SS)
                 ELSE <<"ok", 1, 0>>                                           \* a list: rejected later as not data
       IN IF pi[1] = "err" THEN pi
          ELSE IF pi[2] + pi[3] <= Len(s) THEN pi ELSE Err("short")

(* the closure handed to decode_value (rlp.rs 31-44) *)
RlpF(b) == IF b # <<>> /\ b[1] = 0 THEN Err("indirection")
           ELSE IF NB - Len(b) < 0 THEN Err("toobig")
           ELSE Ok(b)
RlpDecodeValue(s) ==
  IF s = <<>> THEN Err("short")
  ELSE LET l == s[1] IN
       IF l < H THEN RlpF(<<l>>)
       ELSE IF l <= SS THEN
              LET last == 1 + l - H IN
              IF Len(s) < last THEN Err("inconsistent")
              ELSE LET d == SubSeq(s, 2, last) IN
                   IF l = H + 1 /\ d[1] < H THEN Err("indirection") ELSE RlpF(d)
       ELSE IF l <= LG THEN
              LET lol == l - SS
                  begin == 1 + lol
              IN IF Len(s) < begin THEN Err("inconsistent")
                 ELSE LET n == DecodeUsize(SubSeq(s, 2, begin)) IN
                      IF n[1] = "err" THEN n
                      ELSE IF Len(s) < begin + n[2] THEN Err("inconsistent")
                      ELSE RlpF(SubSeq(s, begin + 1, begin + n[2]))
       ELSE Err("notdata")
RlpDecO(s) ==
  LET pi == IF Mut = 1 THEN <<"ok">> ELSE PayloadInfo(s) IN
  IF pi[1] = "err" THEN pi ELSE RlpDecodeValue(s)

(* rlp_append: to_be_bytes, strip every leading zero, RlpStream::encode_iter *)
RECURSIVE StripAllZeroes(_)
StripAllZeroes(b) == IF b # <<>> /\ b[1] = 0 THEN StripAllZeroes(Tail(b)) ELSE b
RlpEncO(bytes) ==
  LET b == StripAllZeroes(bytes)
      n == Len(b)
  IN IF n = 0 THEN <<H>>
     ELSE IF n <= T THEN (IF n = 1 /\ b[1] < H THEN b ELSE <<H + n>> \o b)
     ELSE <<SS + Len(MinBE(n))>> \o MinBE(n) \o b

RlpDec(s) == LET r == RlpDecO(s) IN IF r[1] = "ok" THEN Ok(ValBE(r[2])) ELSE r
RlpEnc(y) == RlpEncO(ToBE(y, NB))

(* abstract canonical form: shortest of the three forms that is allowed for this length *)
RlpCanonAbs(y) ==
  IF y < H THEN (IF y = 0 THEN <<H>> ELSE <<y>>)
  ELSE LET m == MinBE(y) IN IF Len(m) <= T THEN <<H + Len(m)>> \o m ELSE <<SS + Len(MinBE(Len(m)))>> \o MinBE(Len(m)) \o m

RlpBodyJ(s) == IF s = <<>> THEN <<>>
               ELSE IF s[1] < H THEN <<s[1]>>
               ELSE IF s[1] <= SS THEN Drop(s, 1)
               ELSE IF s[1] <= LG /\ Len(s) >= 1 + (s[1] - SS) THEN Drop(s, 1 + (s[1] - SS))
               ELSE <<>>
RlpValidJ(s) == LET v == ValBE(RlpBodyJ(s)) IN v < O ^ NB /\ RlpCanonAbs(v) = s
=============================================================================
