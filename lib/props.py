"""Per-property configuration of ./check (the one table tying a property id to its recorder binary
and to the small-W model checks run with it).  r1 entries: (spec, cfg, workers, timeout_s, tiers)."""
COMMON_ASSUMPTIONS = [
    "TLC 1.8 and the JDK's BigInteger (BigNat overrides, self-tested against the TLA+ reference definitions)",
    "the recorder logs the arguments it passed and the outcome it received (generic serialisation code, exercised by the corruption self-test)",
    "x86_64 / 64-bit limbs only; no 32-bit target is installed",
    "R1 (small word size) establishes the transcribed algorithm at W in {2,3,4}; word-size independence is an argument, not a theorem",
]
PROPS = {
    "C%02d" % i: dict(bin="c%02d" % i, r1=[], assumptions=COMMON_ASSUMPTIONS) for i in range(2, 21)
}
