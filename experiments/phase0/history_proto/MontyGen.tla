---- MODULE MontyGen ----
\* R3 prototype: abstract programs over Montgomery-form registers. No arithmetic here: the
\* generator enumerates operation sequences with operand *roles*; values are chosen by the harness.
EXTENDS Naturals, Sequences, TLC, Json
CONSTANTS MaxLen
Roles == {"zero", "one", "m-1", "half+", "half-", "rand"}
Un == {"neg", "double", "square", "halve"}
Bin == {"add", "sub", "mul"}
VARIABLES prog, nregs
Init == prog = <<>> /\ nregs = 0
New(r)      == /\ prog' = Append(prog, [op |-> "new", role |-> r]) /\ nregs' = nregs + 1
Unary(o,a)  == /\ prog' = Append(prog, [op |-> o, a |-> a]) /\ nregs' = nregs + 1
Binary(o,a,b) == /\ prog' = Append(prog, [op |-> o, a |-> a, b |-> b]) /\ nregs' = nregs + 1
Next == /\ Len(prog) < MaxLen
        /\ \/ \E r \in Roles : New(r)
           \/ \E o \in Un : \E a \in 1..nregs : Unary(o, a)
           \/ \E o \in Bin : \E a \in 1..nregs : \E b \in 1..nregs : Binary(o, a, b)
Spec == Init /\ [][Next]_<<prog, nregs>>
\* emit each complete program once (programs that end in an arithmetic op and use every register are the interesting ones)
Emit == (Len(prog) = MaxLen /\ prog[MaxLen].op # "new") => PrintT(<<"PROG", ToJson(prog)>>)
====
