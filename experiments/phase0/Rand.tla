---- MODULE Rand ----
EXTENDS Naturals, Sequences, FiniteSets, TLC
CONSTANTS W, NL      \* bits per word, limbs of the integer type
B == 2^W
R == B^NL
BitLen(x) == IF x = 0 THEN 0 ELSE CHOOSE k \in 1..(W*NL) : 2^(k-1) <= x /\ x < 2^k
LZ(w) == W - BitLen(w)                       \* leading zeros of a word
\* ---- random_mod_core as a function of the stream (uint/rand.rs:122-168) ----
\* returns <<value, words consumed>> or <<Neg1, _>> if the stream is exhausted
RECURSIVE Core(_,_,_,_)
Neg1 == 0 - 1
NLimbs(m) == (BitLen(m) + W - 1) \div W
HiMod(m) == (m \div B^(NLimbs(m)-1)) % B
Mask(m) == 2^(W - LZ(HiMod(m))) - 1
\* state: pos in stream (1-based, next unread), hi = current masked high word
Core(s, m, pos, hi) ==
  IF hi > HiMod(m)                                              \* early rejection loop
  THEN IF pos > Len(s) THEN <<Neg1, pos>> ELSE Core(s, m, pos+1, s[pos] % (Mask(m)+1))
  ELSE LET k == NLimbs(m) - 1 IN
       IF pos + k - 1 > Len(s) THEN <<Neg1, pos>>
       ELSE LET low == [i \in 1..k |-> s[pos+i-1]]
                RECURSIVE LV(_) LV(i) == IF i = 0 THEN 0 ELSE low[i]*B^(i-1) + LV(i-1)
                n == hi * B^k + LV(k)
            IN IF n < m THEN <<n, pos + k - 1>>
               ELSE IF pos + k > Len(s) THEN <<Neg1, pos+k>> ELSE Core(s, m, pos+k+1, s[pos+k] % (Mask(m)+1))
RandomMod(s, m) == IF Len(s) = 0 THEN <<Neg1, 1>> ELSE Core(s, m, 2, s[1] % (Mask(m)+1))
\* ---- properties over ALL moduli and ALL streams of length K ----
Words == 0..B-1
Streams(K) == [1..K -> Words]
Range(K) == \A m \in 1..R-1 : \A s \in Streams(K) : LET o == RandomMod(s, m) IN o[1] >= 0 => o[1] < m
\* uniformity: among streams of exactly the minimal length (one round, NLimbs(m) words), the number
\* of streams producing v is the same for every v < m  (so a uniform stream gives a uniform output)
FirstRound(m) == { s \in Streams(NLimbs(m)) : RandomMod(s, m)[1] >= 0 }
Uniform == \A m \in 1..R-1 :
   LET acc == FirstRound(m)
       cnt(v) == Cardinality({ s \in acc : RandomMod(s, m)[1] = v })
   IN \A v \in 0..m-1 : cnt(v) = cnt(0) /\ cnt(0) > 0
ASSUME PrintT(<<"Range", Range(3)>>)
ASSUME PrintT(<<"Uniform", Uniform>>)
====
