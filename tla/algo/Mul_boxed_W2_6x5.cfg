SPECIFICATION Spec
CONSTANTS W = 2
 Mode = "boxed"
 SIZE = 4
 BASE = 1
 LL = 6
 RL = 5
 MAXRED = 2
 Pinned = FALSE
INVARIANT Exact
CHECK_DEADLOCK FALSE
