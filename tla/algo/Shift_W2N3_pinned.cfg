SPECIFICATION Spec
CONSTANTS W = 2
 N = 3
 ZeroFix = FALSE
INVARIANT VartimeOK
INVARIANT LadderOK
INVARIANT WideOK
CHECK_DEADLOCK FALSE
