-------------------------------- MODULE JC13 --------------------------------
(* C13 — contract of the recorded events of this property (stub).           *)
EXTENDS BigNat

JudgeC13(e, rg) == FALSE
=============================================================================
