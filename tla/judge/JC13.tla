-------------------------------- MODULE JC13 --------------------------------
(* C13 — signed integers behave as two's-complement mathematical integers.  *)
(*                                                                          *)
(* Signed operands are logged as bit patterns (a, b, r) with their widths   *)
(* in bits (ab, bb, rb) and read with SVal; bu = 1 marks an unsigned right  *)
(* operand.  m is the reporting mode the documentation gives the form:      *)
(*   "wrap"   r = true result mod 2^rb (two's complement)                   *)
(*   "ovf"    wrapped r and flag o = 1 iff the true result is not in        *)
(*            [MIN, MAX] at rb bits                                         *)
(*   "chk"    none iff not in [MIN, MAX], otherwise the exact r             *)
(*   "op"     operator: panic iff not in [MIN, MAX], otherwise the exact r  *)
(*   "exact"  widening forms: the result always fits and is exact           *)
(*   "split"  (lo, hi, neg): lo + hi*2^lb = |a|*|b|, neg = sign(a)#sign(b)  *)
(*   "sat"    squares only: min(a^2, 2^ab - 1)                              *)
(*   "wrapif" conditional wrapping negation, input flag c                   *)
(* Event classes: add sub neg mul square fromabs abssign pred resize        *)
(* fromprim.  an / bn = 1: that Checked operand was already none.           *)
EXTENDS BigNat

LOCAL Has(e, f) == f \in DOMAIN e
LOCAL Flag(b) == IF b THEN 1 ELSE 0

LOCAL OpA(e) == SVal(e.a, e.ab)
LOCAL OpB(e) == IF Has(e, "bu") /\ e.bu = 1 THEN [neg |-> FALSE, mag |-> e.b] ELSE SVal(e.b, e.bb)

(* the recorded outcome against the true (mathematical) result z, reported at rb bits *)
LOCAL Outcome(e, z, rb) ==
  IF Has(e, "an") \/ Has(e, "bn") THEN e.k = "none"          \* a none Checked operand stays none
  ELSE CASE e.m = "wrap"  -> e.k = "ok" /\ e.r = SEnc(z, rb)
         [] e.m = "ovf"   -> e.k = "ok" /\ e.r = SEnc(z, rb) /\ e.o = Flag(~SFits(z, rb))
         [] e.m = "chk"   -> IF SFits(z, rb) THEN e.k = "ok" /\ e.r = SEnc(z, rb) ELSE e.k = "none"
         [] e.m = "op"    -> IF SFits(z, rb) THEN e.k = "ok" /\ e.r = SEnc(z, rb) ELSE e.k = "panic"
         [] e.m = "exact" -> e.k = "ok" /\ SFits(z, rb) /\ e.r = SEnc(z, rb)
         [] OTHER -> FALSE

LOCAL JudgeAdd(e) == Outcome(e, SAdd(OpA(e), OpB(e)), e.rb)
LOCAL JudgeSub(e) == Outcome(e, SSub(OpA(e), OpB(e)), e.rb)

LOCAL JudgeNeg(e) ==
  IF e.m = "wrapif"
    THEN e.k = "ok" /\ e.r = SEnc(IF e.c = 1 THEN SNegate(OpA(e)) ELSE OpA(e), e.rb)
    ELSE Outcome(e, SNegate(OpA(e)), e.rb)

LOCAL JudgeMul(e) ==
  LET x == OpA(e)
      y == OpB(e)
      z == SMul(x, y)
  IN IF e.m = "split"
       THEN /\ e.k = "ok"
            /\ Fits(e.lo, e.lb) /\ Fits(e.hi, e.hb)
            /\ Add(e.lo, Shl(e.hi, e.lb)) = z.mag
            \* "negate" = the signs oppose; for a zero magnitude the doc allows a truthy flag, and a
            \* falsy one denotes the same value
            /\ (e.neg = Flag(x.neg # y.neg) \/ (z.mag = Zero /\ e.neg = 0))
       ELSE Outcome(e, z, e.rb)

(* squares are returned as unsigned integers: the range is [0, 2^ab) *)
LOCAL JudgeSquare(e) ==
  LET s == Mul(OpA(e).mag, OpA(e).mag)
  IN CASE e.m = "exact" -> e.k = "ok" /\ Fits(s, e.rb) /\ e.r = s
       [] e.m = "chk"   -> IF Fits(s, e.ab) THEN e.k = "ok" /\ e.r = s ELSE e.k = "none"
       [] e.m = "wrap"  -> e.k = "ok" /\ e.r = Mod2k(s, e.ab)
       [] e.m = "sat"   -> e.k = "ok" /\ e.r = (IF Fits(s, e.ab) THEN s ELSE Max2k(e.ab))
       [] OTHER -> FALSE

(* reconstruction from (magnitude, sign); negative zero is zero *)
LOCAL JudgeFromAbs(e) == Outcome(e, SMk(e.sg = 1, e.mag), e.rb)

LOCAL JudgeAbsSign(e) ==
  /\ e.k = "ok"
  /\ e.am = OpA(e).mag
  /\ Has(e, "as") => e.as = Flag(OpA(e).neg)

LOCAL JudgePred(e) ==
  LET x == OpA(e)
  IN /\ e.k = "ok"
     /\ e.v = CASE e.w = "neg" -> Flag(x.neg)
                [] e.w = "pos" -> Flag(~x.neg /\ x.mag # Zero)
                [] e.w = "min" -> Flag(x.neg /\ x.mag = Pow2(e.ab - 1))
                [] e.w = "max" -> Flag(~x.neg /\ x.mag = Max2k(e.ab - 1))
                [] OTHER -> 2

(* widening keeps the value (sign extension); narrowing keeps the low rb bits *)
LOCAL JudgeResize(e) ==
  /\ e.k = "ok"
  /\ e.r = (IF e.rb >= e.ab THEN SEnc(OpA(e), e.rb) ELSE Mod2k(e.a, e.rb))

(* From<primitive>: exact when the target is at least as wide as the primitive.  A narrower target *)
(* (Int<1> from i128) is undocumented: the trait form debug_asserts, the const form truncates —     *)
(* tolerated: a panic, or the value modulo 2^rb (exact whenever it fits).                          *)
LOCAL JudgeFromPrim(e) ==
  LET z == SVal(e.v, e.pb)
  IN IF e.rb >= e.pb THEN e.k = "ok" /\ e.r = SEnc(z, e.rb)
     ELSE e.k = "panic" \/ (e.k = "ok" /\ e.r = SEnc(z, e.rb))

JudgeC13(e, rg) ==
  CASE e.op = "add"      -> JudgeAdd(e)
    [] e.op = "sub"      -> JudgeSub(e)
    [] e.op = "neg"      -> JudgeNeg(e)
    [] e.op = "mul"      -> JudgeMul(e)
    [] e.op = "square"   -> JudgeSquare(e)
    [] e.op = "fromabs"  -> JudgeFromAbs(e)
    [] e.op = "abssign"  -> JudgeAbsSign(e)
    [] e.op = "pred"     -> JudgePred(e)
    [] e.op = "resize"   -> JudgeResize(e)
    [] e.op = "fromprim" -> JudgeFromPrim(e)
    [] OTHER -> FALSE
=============================================================================
