SPECIFICATION Spec
CONSTANTS IB = 4
 OB = 3
 TB = 4
 NI = 3
 NO = 5
 Mut = 1
INVARIANT ConvertOK
CHECK_DEADLOCK FALSE
