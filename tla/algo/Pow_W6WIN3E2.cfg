SPECIFICATION Spec
CONSTANTS W = 6
 WIN = 3
 EL = 2
 MMAX = 7
 NB = 1
INVARIANT Exact
CHECK_DEADLOCK FALSE
