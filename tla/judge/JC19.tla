-------------------------------- MODULE JC19 --------------------------------
(* C19 — random sampling under scripted RNG streams.                        *)
(*  rmod   v < m (and the RNG error exactly when a failing stream ends)     *)
(*  rbits  ok iff bl <= precision (and precision = type bits for fixed      *)
(*         types), then v < 2^bl; the documented error class otherwise;     *)
(*         the panicking wrappers panic exactly on error                    *)
(*  rand   plain types read the stream little-endian, 8 bytes per limb;     *)
(*         Odd forces the low bit; NonZero skips all-zero samples           *)
(*  pair   fixed and boxed samplers of the same width: same value, same     *)
(*         consumption                                                      *)
(*  unif / ubits  uniformity as a counting statement on the real code: over *)
(*         ALL 2^kb patterns of a kb-bit field of the first candidate (the  *)
(*         rest of the stream fixed), the draws accepted in the first round *)
(*         produce every admissible value of the slice, each equally often  *)
(*  stat   frequency counts of N ChaCha draws within 8 sigma                *)
EXTENDS BigNat, Sequences, FiniteSets

LOCAL C19Has(e, f) == f \in DOMAIN e

LOCAL C19Rmod(e) ==
  IF C19Has(e, "fail")
  THEN \/ e.k = "err"                                  \* stream ended: the RNG error is reported
       \/ (e.k = "ok" /\ Lt(e.v, e.m))                     \* or it was never needed
  ELSE /\ e.k = "ok"
       /\ Lt(e.v, e.m)
       /\ (C19Has(e, "vp") => e.vp = e.bits)

LOCAL C19Take(st, from, n) == FromLE([i \in 1..n |-> IF from + i <= Len(st) THEN st[from + i] ELSE 0])

LOCAL C19Rbits(e) ==
  LET fixed  == e.ty = "fixed"
      tb     == FromInt(e.tb)
      precok == ~fixed \/ e.prec = tb
      lenok  == Le(e.bl, e.prec)
      panicking == e.form \in {"uint.random_bits", "int.random_bits"}
  IN IF ~precok THEN e.k = "err" /\ e.e = "PrecisionMismatch"
     ELSE IF ~lenok THEN (IF panicking THEN e.k = "panic" ELSE e.k = "err" /\ e.e = "BitLengthTooLarge")
     ELSE LET bl  == ToInt(e.bl)
              nl  == (bl + 63) \div 64
              par == bl % 64
              c   == IF bl = 0 THEN 0 ELSE 8 * (nl - 1) + (IF par > 0 /\ par <= 32 THEN 4 ELSE 8)   \* the 4-byte tail rule
          IN
          /\ e.k = "ok"
          /\ Fits(e.v, bl)
          /\ e.c = c                                              \* documented, platform-independent consumption
          /\ e.v = Mod2k(C19Take(e.st, 0, c), bl)                 \* little-endian read of the stream, masked
          /\ (C19Has(e, "vp") => (e.vp >= ToInt(e.prec) /\ e.vp < ToInt(e.prec) + 64 /\ e.vp % 64 = 0) \/ (e.prec = Zero /\ e.vp \in {0, 64}))

LOCAL C19Rand(e) ==
  LET nb == e.bits \div 8
      first == C19Take(e.st, 0, nb)
  IN /\ e.k = "ok"
     /\ CASE e.w = "plain" -> e.v = first /\ e.c = nb
          [] e.w = "odd"   -> e.v = Or(first, One) /\ e.c = nb
          [] e.w = "nz"    -> e.v = C19Take(e.st, nb * e.zs, nb) /\ e.v # Zero /\ e.c = nb * (e.zs + 1)
          [] OTHER -> FALSE

LOCAL C19Pair(e) == /\ e.k = "ok" /\ e.v1 = e.v2 /\ e.c1 = e.c2 /\ e.p2 = e.bits
                    /\ (C19Has(e, "m") => Lt(e.v1, e.m))
                    /\ (C19Has(e, "bl") => Fits(e.v1, ToInt(e.bl)))

(* ---- uniformity by counting ------------------------------------------- *)
LOCAL C19Min(s) == CHOOSE x \in {s[i] : i \in 1..Len(s)} : \A j \in 1..Len(s) : Le(x, s[j])
LOCAL C19Count(outs, idx, v) == Cardinality({i \in idx : outs[i] = v})

LOCAL C19Unif(e) ==
  LET n    == Len(e.outs)
      acc  == {i \in 1..n : Le(e.cs[i], FromInt(e.sl))}            \* accepted within the scripted first candidate
      cand(i) == Add(e.lowfix, Shl(FromInt(i - 1), e.sh))          \* the candidate of pattern i-1
      adm  == {i \in 1..n : Lt(cand(i), e.m)}                      \* admissible candidates of the slice
      vals == {e.outs[i] : i \in acc}
  IN /\ e.k = "ok"
     /\ n = 2 ^ e.kb /\ Len(e.cs) = n
     /\ \A i \in 1..n : Lt(e.outs[i], e.m)                         \* range, always
     /\ Cardinality(acc) = Cardinality(adm)                        \* acceptance rate = admissible fraction
     /\ Cardinality(vals) = Cardinality(adm)                       \* every admissible value is produced ...
     /\ \A v \in vals : C19Count(e.outs, acc, v) = 1               \* ... equally often (once)

LOCAL C19Ubits(e) ==
  LET n    == Len(e.outs)
      vals == {e.outs[i] : i \in 1..n}
  IN /\ e.k = "ok"
     /\ n = 2 ^ e.kb /\ Len(e.cs) = n
     /\ \A i \in 1..n : Fits(e.outs[i], e.bl)
     /\ Cardinality(vals) = n                                       \* the field maps bijectively into the output
     /\ \A i \in 1..n : e.cs[i] = e.cs[1]                           \* consumption does not depend on the bits

(* each count within 8 standard deviations of N/m: (m*c - N)^2 <= 64 * N * (m - 1)  *)
LOCAL C19Stat(e) ==
  LET N == FromInt(e.n)
      m == e.m
      k == ToInt(m)
      dev(c) == IF Ge(Mul(m, c), N) THEN Sub(Mul(m, c), N) ELSE Sub(N, Mul(m, c))
      RECURSIVE Sum(_)
      Sum(i) == IF i = 0 THEN Zero ELSE Add(e.counts[i], Sum(i - 1))
  IN /\ e.k = "ok"
     /\ Len(e.counts) = k
     /\ Sum(k) = N
     /\ \A i \in 1..k : Le(Mul(dev(e.counts[i]), dev(e.counts[i])), Mul(FromInt(64), Mul(N, Sub(m, One))))

JudgeC19(e, rg) ==
  CASE e.op = "rmod"  -> C19Rmod(e)
    [] e.op = "rbits" -> C19Rbits(e)
    [] e.op = "rand"  -> C19Rand(e)
    [] e.op = "pair"  -> C19Pair(e)
    [] e.op = "unif"  -> C19Unif(e)
    [] e.op = "ubits" -> C19Ubits(e)
    [] e.op = "stat"  -> C19Stat(e)
    [] OTHER -> FALSE
=============================================================================
