SPECIFICATION Spec
CONSTANTS W = 3
 N = 2
 Mode = "special"
 WidenCarry = TRUE
INVARIANT AddOK
INVARIANT DoubleOK
INVARIANT SubOK
INVARIANT NegOK
INVARIANT HalveOK
INVARIANT AddSpecialOK
INVARIANT SubSpecialOK
INVARIANT MulSpecialOK
CHECK_DEADLOCK FALSE
