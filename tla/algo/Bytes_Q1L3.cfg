SPECIFICATION Spec
CONSTANTS Q = 1
 LB = 3
 MaxLen = 8
 MaxPrec = 10
 Mut = 0
INVARIANT BEOK
INVARIANT LEOK
INVARIANT RoundTripOK
CHECK_DEADLOCK FALSE
