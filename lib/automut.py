#!/usr/bin/env python3
"""Systematic syntactic mutants of the anchored source files, as a complement to the sub-agent seeded changes.

usage: automut.py <worker-id> <n-workers> <count> [seed]

Each worker owns a scratch worktree /tmp/amut/w<id> of /repo (removed by `automut.py clean`) and a private
copy of /verif in /tmp/amut/v<id>; /repo itself is never touched.  For every mutant:
  1. apply one operator at one site of a file anchored by some property (code before `#[cfg(test)]` only);
  2. `cargo test --workspace --no-fail-fast --offline` in the worktree: a mutant that fails to build or fails
     a test is of no interest (the repository's suite already catches it);
  3. a *surviving* mutant is checked with the quick check of each property anchoring that file (at most 4).
Results go to /verif/work/automut/w<id>.jsonl; `automut.py report` prints the table used in DESIGN.md.
A surviving, undetected mutant is either equivalent (the change does not alter observable behaviour) or a gap;
these are examined by hand.
"""
import json, os, random, re, shutil, subprocess, sys, time

VERIF = os.path.dirname(os.path.dirname(os.path.abspath(__file__)))
ROOT = "/tmp/amut"
OUT = os.path.join(VERIF, "work", "automut")

OPS = [
    (r"\bwrapping_add\b", "wrapping_sub"), (r"\bwrapping_sub\b", "wrapping_add"),
    (r" <= ", " < "), (r" >= ", " > "), (r" < ", " <= "), (r" > ", " >= "), (r" == ", " != "), (r" != ", " == "),
    (r" \+ 1\b", " + 0"), (r" - 1\b", " - 0"), (r" \+ 1\b", " + 2"), (r" - 1\b", " - 2"),
    (r" \| ", " & "), (r" & ", " | "), (r" \^ ", " | "), (r" << ", " >> "), (r" >> ", " << "),
    (r"\.not\(\)", ""), (r"\bLimb::ZERO\b", "Limb::ONE"), (r"\bLimb::ONE\b", "Limb::ZERO"), (r"\bLimb::MAX\b", "Limb::ZERO"),
    (r"\bshl\b", "shr"), (r"\bshr\b", "shl"), (r"\bct_lt\b", "ct_gt"), (r"\bct_gt\b", "ct_lt"),
    (r"\bfrom_word_lt\b", "from_word_le"), (r"\bfrom_word_le\b", "from_word_lt"), (r"\bfrom_u32_lt\b", "from_u32_le"), (r"\bfrom_u32_le\b", "from_u32_lt"),
    (r"\bis_nonzero\b", "is_zero"), (r"\bor\(", "and("), (r"\band\(", "or("), (r"\bxor\(", "or("),
    (r"\bleading_zeros\b", "trailing_zeros"), (r"\bcarry\b", "Limb::ZERO"), (r"\bborrow\b", "Limb::ZERO"),
    (r"\bLIMBS\b", "(LIMBS - 1)"), (r"\bWord::BITS\b", "(Word::BITS - 1)"), (r"\bLimb::BITS\b", "(Limb::BITS - 1)"),
    (r"\bselect\(&([a-z_0-9.]+), &([a-z_0-9.]+),", r"select(&\2, &\1,"),
    (r"\bi \+= 1;", "i += 2;"), (r"\bwhile (\w+) < ", r"while \1 + 1 < "), (r"\bwhile (\w+) > 0", r"while \1 > 1"),
]
SKIP_LINE = re.compile(r"^\s*(//|#\[|use |pub use |impl\b|impl<|where\b|fn |pub fn |pub const fn |pub\(crate\)|const fn |type |mod |pub mod |\}|\{|debug_assert|assert)")


def sh(cmd, cwd=None, timeout=3600, env=None):
    p = subprocess.run(cmd, cwd=cwd, shell=True, stdout=subprocess.PIPE, stderr=subprocess.STDOUT, text=True, timeout=timeout, env=env)
    return p.returncode, p.stdout


def anchored():
    files = {}
    for l in open(os.path.join(VERIF, "properties.jsonl")):
        d = json.loads(l)
        for f in d["anchors"]["files"]:
            if f.startswith("src/") and f.endswith(".rs"):
                files.setdefault(f, []).append(d["id"])
    return files


def sites(path):
    """(line index, operator index, occurrence) candidates in the non-test part of a file"""
    out = []
    lines = open(path).read().split("\n")
    for i, line in enumerate(lines):
        if "#[cfg(test)]" in line:
            break
        if SKIP_LINE.match(line) or "///" in line or line.strip().startswith("//"):
            continue
        code = line.split("//")[0]
        for k, (pat, rep) in enumerate(OPS):
            for m in re.finditer(pat, code):
                out.append((i, k, m.start()))
    return out, lines


def main():
    if sys.argv[1] == "report":
        return report()
    if sys.argv[1] == "recheck":
        return recheck()
    if sys.argv[1] == "clean":
        for d in sorted(os.listdir(ROOT)) if os.path.isdir(ROOT) else []:
            if d.startswith("w"):
                sh("git -C /repo worktree remove --force %s" % os.path.join(ROOT, d))
        shutil.rmtree(ROOT, ignore_errors=True)
        sh("git -C /repo worktree prune")
        return
    wid, nw, count = int(sys.argv[1]), int(sys.argv[2]), int(sys.argv[3])
    seed = int(sys.argv[4]) if len(sys.argv) > 4 else 1
    rnd = random.Random(seed * 1000 + wid)
    wt, vv = os.path.join(ROOT, "w%d" % wid), os.path.join(ROOT, "v%d" % wid)
    os.makedirs(ROOT, exist_ok=True)
    os.makedirs(OUT, exist_ok=True)
    if not os.path.isdir(wt):
        rc, o = sh("git -C /repo worktree add --detach %s HEAD" % wt)
        assert rc == 0, o
    env = dict(os.environ, CARGO_NET_OFFLINE="true")
    files = anchored()
    names = sorted(files)
    log = open(os.path.join(OUT, "w%d.jsonl" % wid), "a")
    sh("git checkout -- .", cwd=wt)
    sh("cargo test --workspace --no-fail-fast --offline 2>&1 | tail -1", cwd=wt, env=env)      # warm build
    done = 0
    while done < count:
        f = rnd.choice(names)
        path = os.path.join(wt, f)
        if not os.path.exists(path):
            continue
        cand, lines = sites(path)
        if not cand:
            continue
        i, k, pos = rnd.choice(cand)
        pat, rep = OPS[k]
        code = lines[i]
        m = re.compile(pat).search(code, pos)
        if not m or m.start() != pos:
            continue
        new = code[:pos] + re.sub(pat, rep, code[pos:], count=1)
        if new == code:
            continue
        lines2 = list(lines)
        lines2[i] = new
        open(path, "w").write("\n".join(lines2))
        rec = dict(file=f, line=i + 1, op="%s -> %s" % (pat, rep), before=code.strip(), after=new.strip(), props=files[f], t=time.strftime("%H:%M:%S"))
        rc, o = sh("cargo test --workspace --no-fail-fast --offline 2>&1 | grep -E '^test result|^error|FAILED|failed' | head -40", cwd=wt, env=env, timeout=2400)
        results = [l for l in o.splitlines() if l.startswith("test result")]
        builds = len(results) > 0 and "error" not in o.split("test result")[0]
        survives = builds and len(results) >= 5 and all(" 0 failed" in l for l in results) and "FAILED" not in o
        rec["baseline"] = "survives" if survives else ("no-build" if not results else "killed")
        if survives:
            rcb, ob = sh("cargo build --offline --all-features 2>&1 | grep -cE '^error'", cwd=wt, env=env, timeout=2400)
            if ob.strip() not in ("0", ""):
                survives = False
                rec["baseline"] = "no-build"
        if survives:
            det = {}
            for cp in files[f][:4]:
                sh("rsync -a --delete --exclude work --exclude .git --exclude evidence --exclude seeded --exclude experiments %s/ %s/" % (VERIF, vv))
                os.makedirs(os.path.join(vv, "evidence"), exist_ok=True)
                sh("sed -i 's#path = \"/repo\"#path = \"%s\"#' harness/Cargo.toml leak/Cargo.toml" % wt, cwd=vv)
                t0 = time.time()
                rc2, o2 = sh("./check %s quick 2>&1 | cut -c1-300" % cp, cwd=vv, env=env, timeout=5400)
                viol = [l for l in o2.splitlines() if l.startswith("VIOLATION")]
                det[cp] = dict(violations=len(viol), tool_error="TOOL-ERROR" in o2, wall=round(time.time() - t0),
                               first=(o2.splitlines()[o2.splitlines().index(viol[0]) + 1][:200] if viol and o2.splitlines().index(viol[0]) + 1 < len(o2.splitlines()) else ""))
            rec["checks"] = det
            rec["detected_by"] = [cp for cp in det if det[cp]["violations"] > 0]
        log.write(json.dumps(rec) + "\n")
        log.flush()
        sh("git checkout -- .", cwd=wt)
        done += 1


def recheck():
    """second chance for survivors that the anchoring properties' checks missed: the mutated helper may be used by
    code that other properties anchor; run the remaining checks (same directory first) until one reports a violation"""
    rows, srcs = [], {}
    for fn in sorted(os.listdir(OUT)):
        if fn.endswith(".jsonl") and fn.startswith("w"):
            for l in open(os.path.join(OUT, fn)):
                rows.append(json.loads(l))
    files = anchored()
    wt, vv = os.path.join(ROOT, "w9"), os.path.join(ROOT, "v9")
    os.makedirs(ROOT, exist_ok=True)
    if not os.path.isdir(wt):
        rc, o = sh("git -C /repo worktree add --detach %s HEAD" % wt)
        assert rc == 0, o
    env = dict(os.environ, CARGO_NET_OFFLINE="true")
    done = set()
    rp = os.path.join(OUT, "recheck.jsonl")
    if os.path.exists(rp):
        done = {(r["file"], r["line"], r["after"]) for r in map(json.loads, open(rp))}
    log = open(rp, "a")
    allp = ["C%02d" % i for i in range(2, 21) if i not in (11, 15)]
    for r in rows:
        if r["baseline"] != "survives" or r.get("detected_by") or (r["file"], r["line"], r["after"]) in done:
            continue
        if r.get("checks") and all(c.get("tool_error") and not c.get("violations") for c in r["checks"].values()):
            continue
        sh("git checkout -- .", cwd=wt)
        path = os.path.join(wt, r["file"])
        lines = open(path).read().split("\n")
        if lines[r["line"] - 1].strip() != r["before"]:
            continue
        lines[r["line"] - 1] = lines[r["line"] - 1].replace(r["before"], r["after"])
        open(path, "w").write("\n".join(lines))
        d = os.path.dirname(r["file"])
        order = sorted([p for p in allp if p not in r["props"][:4]], key=lambda p: (0 if any(os.path.dirname(f) == d and p in ps for f, ps in files.items()) else 1, p))
        found, tried = None, []
        for cp in order:
            sh("rsync -a --delete --exclude work --exclude .git --exclude evidence --exclude seeded --exclude experiments %s/ %s/" % (VERIF, vv))
            os.makedirs(os.path.join(vv, "evidence"), exist_ok=True)
            sh("sed -i 's#path = \"/repo\"#path = \"%s\"#' harness/Cargo.toml leak/Cargo.toml" % wt, cwd=vv)
            rc2, o2 = sh("./check %s quick 2>&1 | cut -c1-300" % cp, cwd=vv, env=env, timeout=5400)
            tried.append(cp)
            if any(l.startswith("VIOLATION") for l in o2.splitlines()):
                found = cp
                break
        log.write(json.dumps(dict(file=r["file"], line=r["line"], before=r["before"], after=r["after"], detected_by=found, tried=tried)) + "\n")
        log.flush()
        sh("git checkout -- .", cwd=wt)


def report():
    rows = []
    for fn in sorted(os.listdir(OUT)):
        if fn.endswith(".jsonl") and fn.startswith("w"):
            rows += [json.loads(l) for l in open(os.path.join(OUT, fn))]
    n = len(rows)
    # a mutant in feature-gated code can pass the default-feature suite without ever being compiled: if every check
    # then fails to build the recorder (tool error), it is a non-building mutant, not a survivor
    for r in rows:
        if r["baseline"] == "survives" and r.get("checks") and all(c.get("tool_error") and not c.get("violations") for c in r["checks"].values()):
            r["baseline"] = "no-build"
    surv = [r for r in rows if r["baseline"] == "survives"]
    det = [r for r in surv if r.get("detected_by")]
    print("%d mutants: %d do not build, %d killed by the repository's suite, %d survive it; of those %d detected by the checks, %d not" % (
        n, sum(r["baseline"] == "no-build" for r in rows), sum(r["baseline"] == "killed" for r in rows), len(surv), len(det), len(surv) - len(det)))
    for r in surv:
        if not r.get("detected_by"):
            print("MISSED %s:%d  %s  =>  %s   [%s]" % (r["file"], r["line"], r["before"][:90], r["after"][:90], ",".join(r["props"][:4])))


if __name__ == "__main__":
    main()
