------------------------------- MODULE BigNat -------------------------------
(***************************************************************************)
(* Arbitrary-precision naturals for TLC (whose integers are 32-bit).       *)
(*                                                                         *)
(* A natural is a finite sequence of bytes (0..255), little-endian, with   *)
(* no most-significant zero byte; zero is <<>>.  This is Rust's            *)
(* to_le_bytes() with the padding stripped.                                *)
(*                                                                         *)
(* Every operator Op has a reference definition Ref_Op written in TLA+     *)
(* (schoolbook algorithms on byte sequences).  The exported name Op has    *)
(* that definition as its body, and TLC evaluates it through the Java      *)
(* override tla/overrides/BigNatOverrides.java (java.math.BigInteger).     *)
(* BigNatSelfTest.tla makes TLC check Op = Ref_Op.                         *)
(***************************************************************************)
EXTENDS Integers, Sequences

Zero == <<>>
One  == <<1>>
Two  == <<2>>

IsNat(s) == /\ \A i \in 1..Len(s) : s[i] \in 0..255
            /\ (Len(s) > 0 => s[Len(s)] # 0)

Byte(s, i) == IF i <= Len(s) THEN s[i] ELSE 0        \* 1-based, zero beyond the end

RECURSIVE Norm(_)
Norm(s) == IF s = <<>> THEN s
           ELSE IF s[Len(s)] = 0 THEN Norm(SubSeq(s, 1, Len(s) - 1)) ELSE s

--------------------------------------------------------------------------
(* Reference definitions                                                   *)

Ref_FromInt(n) ==                                   \* n in 0..2^31-1
  Norm(<< n % 256, (n \div 256) % 256, (n \div 65536) % 256, (n \div 16777216) % 256 >>)

RECURSIVE AddFrom(_, _, _, _)
AddFrom(a, b, i, c) ==
  IF i > Len(a) /\ i > Len(b) THEN (IF c = 0 THEN <<>> ELSE <<c>>)
  ELSE LET t == Byte(a, i) + Byte(b, i) + c
       IN <<t % 256>> \o AddFrom(a, b, i + 1, t \div 256)
Ref_Add(a, b) == AddFrom(a, b, 1, 0)

RECURSIVE CmpFrom(_, _, _)
CmpFrom(a, b, i) == IF i = 0 THEN 0
                    ELSE IF a[i] < b[i] THEN -1
                    ELSE IF a[i] > b[i] THEN 1
                    ELSE CmpFrom(a, b, i - 1)
Ref_Cmp(a, b) == IF Len(a) < Len(b) THEN -1
                 ELSE IF Len(a) > Len(b) THEN 1
                 ELSE CmpFrom(a, b, Len(a))

RECURSIVE SubFrom(_, _, _, _)
SubFrom(a, b, i, bw) ==                             \* requires a >= b
  IF i > Len(a) THEN <<>>
  ELSE LET t == a[i] - Byte(b, i) - bw
       IN IF t < 0 THEN <<t + 256>> \o SubFrom(a, b, i + 1, 1)
                   ELSE <<t>> \o SubFrom(a, b, i + 1, 0)
Ref_Sub(a, b) == Norm(SubFrom(a, b, 1, 0))          \* partial: a >= b

RECURSIVE MulByteFrom(_, _, _, _)
MulByteFrom(a, d, i, c) ==                          \* a * d for a small multiplier d (d <= 2^16)
  IF i > Len(a) THEN (IF c = 0 THEN <<>> ELSE <<c % 256>> \o MulByteFrom(a, d, i, c \div 256))
  ELSE LET t == a[i] * d + c
       IN <<t % 256>> \o MulByteFrom(a, d, i + 1, t \div 256)
MulSmall(a, d) == Norm(MulByteFrom(a, d, 1, 0))

ShiftBytes(x, n) == IF x = <<>> \/ n = 0 THEN x ELSE [i \in 1..n |-> 0] \o x

RECURSIVE MulFrom(_, _, _)
MulFrom(a, b, j) == IF j > Len(b) THEN <<>>
                    ELSE Ref_Add(MulSmall(a, b[j]), ShiftBytes(MulFrom(a, b, j + 1), 1))
Ref_Mul(a, b) == MulFrom(a, b, 1)

Ref_Shl(a, s) == ShiftBytes(MulSmall(a, 2 ^ (s % 8)), s \div 8)

Ref_Shr(a, s) ==
  LET nb == s \div 8
      k  == s % 8
      x  == IF nb >= Len(a) THEN <<>> ELSE SubSeq(a, nb + 1, Len(a))
  IN Norm([i \in 1..Len(x) |-> (x[i] \div (2 ^ k)) + (Byte(x, i + 1) % (2 ^ k)) * (2 ^ (8 - k))])

Ref_Bit(a, i) == (Byte(a, (i \div 8) + 1) \div (2 ^ (i % 8))) % 2      \* bit i (0-based) as 0/1

RECURSIVE TopBit(_)
TopBit(b) == IF b = 0 THEN 0 ELSE 1 + TopBit(b \div 2)                 \* bit length of a byte
Ref_BitLen(a) == IF a = <<>> THEN 0 ELSE 8 * (Len(a) - 1) + TopBit(a[Len(a)])

RECURSIVE DivStep(_, _, _, _, _)
DivStep(a, b, i, q, r) ==                           \* restoring bitwise division, i counts down
  IF i < 0 THEN <<q, r>>
  ELSE LET r2 == Ref_Add(Ref_Add(r, r), IF Ref_Bit(a, i) = 1 THEN One ELSE Zero)
           ge == Ref_Cmp(r2, b) >= 0
       IN DivStep(a, b, i - 1,
                  Ref_Add(Ref_Add(q, q), IF ge THEN One ELSE Zero),
                  IF ge THEN Ref_Sub(r2, b) ELSE r2)
Ref_DivMod(a, b) == DivStep(a, b, Ref_BitLen(a) - 1, Zero, Zero)       \* partial: b # 0
Ref_Div(a, b) == Ref_DivMod(a, b)[1]
Ref_Mod(a, b) == Ref_DivMod(a, b)[2]

Ref_Mod2k(a, k) ==
  LET nb == k \div 8
      r  == k % 8
  IN IF Len(a) <= nb THEN a
     ELSE Norm(SubSeq(a, 1, nb) \o (IF r = 0 THEN <<>> ELSE <<a[nb + 1] % (2 ^ r)>>))

Ref_Pow2(k) == Ref_Shl(One, k)

RECURSIVE TzFrom(_, _)
TzFrom(a, i) == IF Ref_Bit(a, i) = 1 THEN i ELSE TzFrom(a, i + 1)
Ref_TrailingZeros(a) == IF a = <<>> THEN 0 ELSE TzFrom(a, 0)           \* 0 for zero (callers special-case)

AndByte(x, y) == LET RECURSIVE F(_, _, _)
                     F(p, q, w) == IF w = 256 THEN 0
                                   ELSE (IF (p % 2 = 1) /\ (q % 2 = 1) THEN w ELSE 0) + F(p \div 2, q \div 2, 2 * w)
                 IN F(x, y, 1)
Ref_And(a, b) == Norm([i \in 1..(IF Len(a) < Len(b) THEN Len(a) ELSE Len(b)) |-> AndByte(a[i], b[i])])
MaxLen(a, b) == IF Len(a) > Len(b) THEN Len(a) ELSE Len(b)
Ref_Or(a, b)  == Norm([i \in 1..MaxLen(a, b) |-> Byte(a, i) + Byte(b, i) - AndByte(Byte(a, i), Byte(b, i))])
Ref_Xor(a, b) == Norm([i \in 1..MaxLen(a, b) |-> Byte(a, i) + Byte(b, i) - 2 * AndByte(Byte(a, i), Byte(b, i))])

RECURSIVE Ref_Gcd(_, _)
Ref_Gcd(a, b) == IF b = <<>> THEN a ELSE Ref_Gcd(b, Ref_Mod(a, b))

RECURSIVE PowFrom(_, _, _, _)
PowFrom(b, e, m, i) ==                              \* left-to-right square and multiply
  IF i < 0 THEN Ref_Mod(One, m)
  ELSE LET RECURSIVE G(_, _)
           G(acc, j) == IF j < 0 THEN acc
                        ELSE LET sq == Ref_Mod(Ref_Mul(acc, acc), m)
                             IN G(IF Ref_Bit(e, j) = 1 THEN Ref_Mod(Ref_Mul(sq, b), m) ELSE sq, j - 1)
       IN G(Ref_Mod(One, m), i)
Ref_ModPow(b, e, m) == PowFrom(b, e, m, Ref_BitLen(e) - 1)             \* partial: m # 0

(* Extended Euclid with coefficients kept in [0, m).  Result <<ok, x>>:   *)
(* ok iff gcd(a, m) = 1, and then a*x = 1 (mod m), x < m (x = 0 for m=1). *)
RECURSIVE InvFrom(_, _, _, _, _)
InvFrom(r0, r1, t0, t1, m) ==
  IF r1 = <<>> THEN <<r0 = One, t0>>
  ELSE LET qr == Ref_DivMod(r0, r1)
           qt == Ref_Mod(Ref_Mul(qr[1], t1), m)
           t2 == Ref_Mod(Ref_Add(t0, Ref_Sub(m, qt)), m)
       IN InvFrom(r1, qr[2], t1, t2, m)
Ref_ModInv(a, m) == LET r == InvFrom(m, Ref_Mod(a, m), Zero, Ref_Mod(One, m), m)
                    IN IF r[1] THEN r ELSE <<FALSE, Zero>>             \* partial: m # 0

RECURSIVE SqrtFrom(_, _, _)
SqrtFrom(x, s, i) ==                                \* bit-by-bit: largest s with s*s <= x
  IF i < 0 THEN s
  ELSE LET c == Ref_Add(s, Ref_Pow2(i))
       IN SqrtFrom(x, IF Ref_Cmp(Ref_Mul(c, c), x) <= 0 THEN c ELSE s, i - 1)
Ref_ISqrt(x) == SqrtFrom(x, Zero, (Ref_BitLen(x) + 1) \div 2)

(* Positional numerals: digits most-significant first, each in 0..radix-1. *)
RECURSIVE DigitsFrom(_, _, _, _)
DigitsFrom(ds, radix, i, acc) ==
  IF i > Len(ds) THEN acc
  ELSE DigitsFrom(ds, radix, i + 1, Ref_Add(MulSmall(acc, radix), Ref_FromInt(ds[i])))
Ref_FromDigits(ds, radix) == DigitsFrom(ds, radix, 1, Zero)

ToSmall(a) == Byte(a, 1) + 256 * Byte(a, 2)         \* value of a natural known to be < 65536
RECURSIVE Ref_ToDigits(_, _)
Ref_ToDigits(x, radix) ==                           \* canonical: <<>> for zero, no leading zero digit
  IF x = <<>> THEN <<>>
  ELSE LET qr == Ref_DivMod(x, Ref_FromInt(radix))
       IN Append(Ref_ToDigits(qr[1], radix), ToSmall(qr[2]))

Ref_ToInt(a) == Byte(a, 1) + 256 * Byte(a, 2) + 65536 * Byte(a, 3) + 16777216 * Byte(a, 4)  \* partial: a < 2^31

--------------------------------------------------------------------------
(* Exported operators (overridden in TLC by BigNatOverrides.java)          *)

FromInt(n)      == Ref_FromInt(n)
ToInt(a)        == Ref_ToInt(a)
Add(a, b)       == Ref_Add(a, b)
Sub(a, b)       == Ref_Sub(a, b)
Mul(a, b)       == Ref_Mul(a, b)
Div(a, b)       == Ref_Div(a, b)
Mod(a, b)       == Ref_Mod(a, b)
Cmp(a, b)       == Ref_Cmp(a, b)
Shl(a, s)       == Ref_Shl(a, s)
Shr(a, s)       == Ref_Shr(a, s)
Mod2k(a, k)     == Ref_Mod2k(a, k)
Pow2(k)         == Ref_Pow2(k)
BitLen(a)       == Ref_BitLen(a)
Bit(a, i)       == Ref_Bit(a, i)
TrailingZeros(a) == Ref_TrailingZeros(a)
And(a, b)       == Ref_And(a, b)
Or(a, b)        == Ref_Or(a, b)
Xor(a, b)       == Ref_Xor(a, b)
Gcd(a, b)       == Ref_Gcd(a, b)
ModPow(b, e, m) == Ref_ModPow(b, e, m)
ModInv(a, m)    == Ref_ModInv(a, m)
ISqrt(x)        == Ref_ISqrt(x)
FromDigits(ds, radix) == Ref_FromDigits(ds, radix)
ToDigits(x, radix)    == Ref_ToDigits(x, radix)

--------------------------------------------------------------------------
(* Derived notions (plain TLA+, no override)                               *)

Lt(a, b) == Cmp(a, b) < 0
Le(a, b) == Cmp(a, b) <= 0
Gt(a, b) == Cmp(a, b) > 0
Ge(a, b) == Cmp(a, b) >= 0
a \oplus b  == Add(a, b)
a \ominus b == Sub(a, b)
a \otimes b == Mul(a, b)
Max2k(k)    == Sub(Pow2(k), One)                    \* 2^k - 1
Fits(a, k)  == BitLen(a) <= k                       \* a < 2^k
IsOdd(a)    == Bit(a, 0) = 1
Min(a, b)   == IF Le(a, b) THEN a ELSE b
SubMod2k(a, b, k) == Mod2k(Sub(Add(a, Pow2(k)), Mod2k(b, k)), k)   \* (a - b) mod 2^k for a < 2^k
NegMod2k(a, k)    == SubMod2k(Zero, a, k)
NotW(a, k)        == Sub(Max2k(k), a)               \* bitwise complement within k bits, a < 2^k

(* Byte views *)
PadLE(a, n)     == a \o [i \in 1..(n - Len(a)) |-> 0]               \* n-byte little-endian, needs Len(a) <= n
Reverse(s)      == [i \in 1..Len(s) |-> s[Len(s) + 1 - i]]
BytesLE(a, n)   == PadLE(a, n)
BytesBE(a, n)   == Reverse(PadLE(a, n))
FromLE(s)       == Norm(s)
FromBE(s)       == Norm(Reverse(s))

(* Signed view: a two's-complement pattern x < 2^k denotes SVal(x, k), a    *)
(* record [neg, mag] with mag # 0 when neg.                                 *)
SNeg(x, k)   == k > 0 /\ Bit(x, k - 1) = 1
SVal(x, k)   == IF SNeg(x, k) THEN [neg |-> TRUE, mag |-> Sub(Pow2(k), x)] ELSE [neg |-> FALSE, mag |-> x]
SMk(neg, mag) == [neg |-> neg /\ mag # Zero, mag |-> mag]
SFits(z, k)  == IF z.neg THEN Le(z.mag, Pow2(k - 1)) ELSE Lt(z.mag, Pow2(k - 1))     \* MIN..MAX at k bits
SEnc(z, k)   == IF z.neg THEN NegMod2k(Mod2k(z.mag, k), k) ELSE Mod2k(z.mag, k)      \* wrap to k bits
SAdd(y, z)   == IF y.neg = z.neg THEN SMk(y.neg, Add(y.mag, z.mag))
                ELSE IF Ge(y.mag, z.mag) THEN SMk(y.neg, Sub(y.mag, z.mag))
                ELSE SMk(z.neg, Sub(z.mag, y.mag))
SNegate(z)   == SMk(~z.neg, z.mag)
SSub(y, z)   == SAdd(y, SNegate(z))
SMul(y, z)   == SMk(y.neg # z.neg, Mul(y.mag, z.mag))
SCmp(y, z)   == IF y.neg /\ ~z.neg THEN -1 ELSE IF ~y.neg /\ z.neg THEN 1
                ELSE IF y.neg THEN Cmp(z.mag, y.mag) ELSE Cmp(y.mag, z.mag)
=============================================================================
