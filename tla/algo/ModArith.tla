------------------------------ MODULE ModArith ------------------------------
(***************************************************************************)
(* Transcription of the crate's modular add / sub / neg / double / halve   *)
(* and of the special-modulus forms (p = 2^BITS - c, HAC 14.47) at word    *)
(* size W with N limbs; whole integers are numbers < R = 2^(W*N) and the   *)
(* carry/borrow words of the limb chains are modelled exactly (a borrow is *)
(* the all-ones mask, a carry-in may be any word).                         *)
(*   src/uint/add_mod.rs 9-53   sub_mod.rs 9-45   neg_mod.rs 8-26          *)
(*   src/uint/mul_mod.rs 44-72 (mul_mod_special)   src/modular/div_by_2.rs *)
(* TLC explores ALL moduli and ALL operands inside the documented          *)
(* preconditions.  WidenCarry = FALSE reproduces the pinned tree's         *)
(* `(carry + 1)` in word arithmetic (the defect repaired in §11.1): the     *)
(* invariant MulSpecialOK is then violated exactly for c = B - 1.          *)
(***************************************************************************)
EXTENDS Integers, TLC
CONSTANTS W, N, Mode, WidenCarry
B == 2 ^ W
R == B ^ N
MAXW == B - 1

Adc(a, b, cin) == LET t == a + b + cin IN <<t % R, t \div R>>            \* Uint::adc, carry-in any word
Sbb(a, b)      == IF a >= b THEN <<a - b, 0>> ELSE <<a - b + R, MAXW>>    \* Uint::sbb(.., ZERO): borrow mask
WSubW(x, y)    == (x - y + B) % B                                        \* wrapping_sub on words
MaskAnd(p, m)  == IF m = 0 THEN 0 ELSE p                                 \* p.bitand_limb(mask), mask in {0, MAXW}

(* add_mod: assumes a + b < 2p *)
AddMod(a, b, p) ==
  LET s  == Adc(a, b, 0)
      d  == Sbb(s[1], p)
      \* (_, mask) = carry.sbb(ZERO, borrow): mask = MAXW iff carry = 0 and a borrow occurred
      mask == IF s[2] = 0 /\ d[2] # 0 THEN MAXW ELSE 0
  IN (d[1] + MaskAnd(p, mask)) % R
DoubleMod(a, p) == AddMod(a, a, p)                                       \* shl1 + the same correction
(* sub_mod: assumes -p <= a - b < p *)
SubMod(a, b, p) == LET d == Sbb(a, b) IN (d[1] + MaskAnd(p, d[2])) % R
(* neg_mod: assumes a < p *)
NegMod(a, p) == IF a = 0 THEN 0 ELSE Sbb(p, a)[1]
(* div_by_2 for odd p *)
Halve(a, p) == LET odd == a % 2 = 1
                   s   == Adc(a, p, 0)
                   v   == IF odd THEN s[1] ELSE a
                   c   == IF odd THEN s[2] ELSE 0
               IN (v \div 2) + c * (R \div 2)

(* special modulus p = R - c, 1 <= c <= MAXW *)
AddModSpecial(a, b, c) ==
  LET s == Adc(a, b, c)
      l == IF s[2] = 0 THEN c ELSE 0                                     \* carry.wrapping_sub(1) & c
  IN (s[1] - l + R) % R
SubModSpecial(a, b, c) == LET d == Sbb(a, b) IN (d[1] - (IF d[2] # 0 THEN c ELSE 0) + R) % R
MulModSpecial(a, b, c) ==
  LET prod == a * b
      lo   == prod % R
      hi   == prod \div R
      m1   == lo + hi * c                                                \* mac_by_limb(lo, hi, c, 0)
      lo1  == m1 % R
      car  == m1 \div R                                                  \* a word
      rhs  == IF WidenCarry THEN (car + 1) * c ELSE ((car + 1) % B) * c  \* (carry + 1) as WideWord * c
      s    == Adc(lo1, rhs % R, 0)
      l    == IF s[2] = 0 THEN c ELSE 0
  IN (s[1] - l + R) % R

VARIABLES p, a, b
Init == /\ p \in 1..R - 1 /\ a \in 0..R - 1 /\ b \in 0..R - 1
Next == UNCHANGED <<p, a, b>>
Spec == Init /\ [][Next]_<<p, a, b>>

Special == p > R - B                    \* p = R - c with c = R - p a non-zero word
c == R - p

AddOK      == (Mode = "plain" /\ a + b < 2 * p) => AddMod(a, b, p) = (a + b) % p
DoubleOK   == (Mode = "plain" /\ a < p) => DoubleMod(a, p) = (2 * a) % p
SubOK      == (Mode = "plain" /\ a - b < p /\ b - a <= p) => SubMod(a, b, p) = (a - b) % p
NegOK      == (Mode = "plain" /\ a < p) => NegMod(a, p) = (p - a) % p
HalveOK    == (Mode = "plain" /\ a < p /\ p % 2 = 1) => LET h == Halve(a, p) IN h < p /\ (2 * h) % p = a
AddSpecialOK == (Mode = "special" /\ Special /\ a + b < 2 * p) => AddModSpecial(a, b, c) = (a + b) % p
SubSpecialOK == (Mode = "special" /\ Special /\ a - b < p /\ b - a <= p) => SubModSpecial(a, b, c) = (a - b) % p
MulSpecialOK == (Mode = "special" /\ Special /\ N >= 2) => MulModSpecial(a, b, c) = (a * b) % p
=============================================================================
