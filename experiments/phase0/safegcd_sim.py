# Phase-0 probe: scaled transcription of modular/safegcd.rs (divsteps with K-step jumps on J-bit
# unsaturated limbs, K = J; code has K = J = 62 and 64 bits of headroom, here J and HEAD are parameters).
import sys, math
def run(J, BITS, HEAD):
    NL = -(-(BITS + HEAD)//J)          # safegcd_nlimbs: ceil((bits+64)/62)
    TOT = J*NL; MOD = 1 << TOT; MASK = (1 << J) - 1
    def wrap(v): return v % MOD
    def sval(v): return v - MOD if v >> (TOT-1) else v      # two's complement view
    def isneg(v): return (v >> (TOT-1)) & 1
    def shr(v): return wrap(sval(v) >> J)                   # arithmetic shift by J
    def inv_mod_2J(x):                                      # Hurchalla in code; spec: x^-1 mod 2^J
        return pow(x, -1, 1 << J)
    def iterations(fb, gb):
        d = max(fb, gb); addend = 57 if d < 46 else 80
        return (49*d + addend)//17
    def jump(f0, g0, delta):
        steps, f, g = J, f0, g0                              # f0,g0: lowest limbs (non-negative < 2^J)
        t = [[1,0],[0,1]]
        while True:
            tz = (g & -g).bit_length()-1 if g != 0 else 10**9
            zeros = min(steps, tz)
            steps, delta, g = steps - zeros, delta + zeros, g >> zeros
            t[0] = [t[0][0] << zeros, t[0][1] << zeros]
            if steps == 0: break
            if delta > 0:
                delta, f, g = -delta, g, -f
                t[0], t[1] = t[1], [-t[0][0], -t[0][1]]
            mask = (1 << min(min(steps, 1 - delta), 5)) - 1
            w = (g * ((f*3) ^ 28)) & mask
            t[1] = [t[0][0]*w + t[1][0], t[0][1]*w + t[1][1]]
            g += w*f
        return delta, t
    def fg(f, g, t):
        return shr(wrap(sval(f)*t[0][0] + sval(g)*t[0][1])), shr(wrap(sval(f)*t[1][0] + sval(g)*t[1][1]))
    def de(mod, inverse, t, d, e):
        md = t[0][0]*isneg(d) + t[0][1]*isneg(e)
        me = t[1][0]*isneg(d) + t[1][1]*isneg(e)
        cd = (t[0][0]*(d & MASK) + t[0][1]*(e & MASK)) & MASK
        ce = (t[1][0]*(d & MASK) + t[1][1]*(e & MASK)) & MASK
        md -= (inverse*cd + md) & MASK
        me -= (inverse*ce + me) & MASK
        cd = wrap(sval(d)*t[0][0] + sval(e)*t[0][1] + mod*md)
        ce = wrap(sval(d)*t[1][0] + sval(e)*t[1][1] + mod*me)
        return shr(cd), shr(ce)
    def divsteps(e, f0, g, inverse):
        d, f, delta = 0, f0, 1
        m = iterations(f0.bit_length(), g.bit_length())
        for _ in range(m):
            delta, t = jump(f & MASK, g & MASK, delta)
            f, g = fg(f, g, t)
            d, e = de(f0, inverse, t, d, e)
        return d, f, g
    def norm(mod, v, negate):
        if isneg(v): v = wrap(v + mod)
        if negate: v = wrap(-v)
        if isneg(v): v = wrap(v + mod)
        return v
    bad = 0; cases = 0; worst_d = 0
    for m in range(1, 1 << BITS, 2):
        inverse = inv_mod_2J(m & MASK)
        for a in range(0, 1 << BITS):
            d, f, g = divsteps(1, m, a, inverse)
            cases += 1
            gcd = math.gcd(a, m)
            if g != 0 or abs(sval(f)) != gcd: bad += 1; print("gcd/g fail", J, BITS, m, a, sval(f), g); 
            sd = sval(d)
            if not (-2*m < sd < m): bad += 1; print("d range fail", m, a, sd)
            antiunit = (sval(f) == -1)
            issome = (sval(f) == 1) or antiunit
            if issome != (gcd == 1): bad += 1; print("is_some fail", m, a)
            if issome:
                x = norm(m, d, antiunit)
                if (x*a) % m != 1 % m or not (0 <= x < max(m,1)) : bad += 1; print("inverse fail", m, a, x)
            if bad > 5: return cases, bad
    return cases, bad
for (J, BITS, HEAD) in [(6, 6, 8), (8, 7, 10), (5, 6, 7), (8, 9, 10)]:
    print("J=K=%d BITS=%d HEAD=%d ->" % (J, BITS, HEAD), run(J, BITS, HEAD))
