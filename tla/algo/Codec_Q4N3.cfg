SPECIFICATION Spec
CONSTANTS Q = 4
 NB = 3
 MaxLen = 6
 T = 1
 LS = 2
 Mut = 0
INVARIANT DerDecSound
INVARIANT DerRoundTrip
INVARIANT DerEncCanon
INVARIANT DerJudgeAgrees
INVARIANT RlpDecSound
INVARIANT RlpExact
INVARIANT RlpRoundTrip
INVARIANT RlpEncCanon
INVARIANT RlpJudgeAgrees
CHECK_DEADLOCK FALSE
