"""Driver library for ./check: build, record, validate with TLC, model-check, report, write evidence.

Exit codes: 0 = property held on everything explored (known findings are printed, not raised);
1 = at least one VIOLATION line; 2 = tool error (cargo, javac, TLC crash, timeout) — never a verdict.
"""
import threading, json, os, re, subprocess, sys, time, hashlib, shutil, concurrent.futures as cf

VERIF = os.path.dirname(os.path.dirname(os.path.abspath(__file__)))
WORK = os.path.join(VERIF, "work")
TLA = os.path.join(VERIF, "tla")
HARNESS = os.path.join(VERIF, "harness")
CLASSES = os.path.join(WORK, "classes")
JAR = "/opt/veriftools/tla/tla2tools.jar"
DEPS = "/opt/veriftools/tla/CommunityModules-deps.jar"
TARGET = os.path.join(WORK, "target")
SHARD = 20000


class ToolError(Exception):
    pass


def log(*a):
    print(*a, flush=True)


def run(cmd, cwd=None, env=None, timeout=None, check=True):
    t0 = time.time()
    try:
        p = subprocess.run(cmd, cwd=cwd, env=env, timeout=timeout, stdout=subprocess.PIPE, stderr=subprocess.STDOUT, text=True)
    except subprocess.TimeoutExpired as e:
        raise ToolError("timeout after %ss: %s" % (timeout, " ".join(cmd[:6])))
    if check and p.returncode != 0:
        raise ToolError("command failed (%d): %s\n%s" % (p.returncode, " ".join(cmd[:8]), p.stdout[-4000:]))
    return p.stdout, time.time() - t0


def ensure_classes():
    src = os.path.join(TLA, "overrides", "BigNatOverrides.java")
    cls = os.path.join(CLASSES, "BigNatOverrides.class")
    if not os.path.exists(cls) or os.path.getmtime(cls) < os.path.getmtime(src):
        os.makedirs(CLASSES, exist_ok=True)
        run(["javac", "-cp", JAR, "-d", CLASSES, src])


def tlc_cmd(workers, metadir, args, heap="4g"):
    return ["java", "-Xss1g", "-Xmx" + heap, "-XX:+UseParallelGC",
            "-Dtlc2.tool.queue.IStateQueue=StateDeque",
            "-Dtlc2.overrides.TLCOverrides=tlc2.overrides.TLCOverrides:BigNatOverrides",
            "-DTLA-Library=%s:%s:%s" % (TLA, os.path.join(TLA, "judge"), os.path.join(TLA, "algo")),
            "-cp", "%s:%s:%s" % (JAR, DEPS, CLASSES), "tlc2.TLC",
            "-workers", str(workers), "-metadir", metadir, "-cleanup", "-noGenerateSpecTE"] + args


STATES_RE = re.compile(r"(\d[\d,]*) states generated, (\d[\d,]*) distinct states found")


def parse_states(out):
    m = None
    for m in STATES_RE.finditer(out):
        pass
    if not m:
        return 0, 0
    return int(m.group(1).replace(",", "")), int(m.group(2).replace(",", ""))


def cargo_build(binname, profile):
    """Rebuild the recorder against /repo's working tree (cargo fingerprints make this a no-op when unchanged)."""
    env = dict(os.environ, CARGO_NET_OFFLINE="true")
    prof_args = ["--release"] if profile == "release" else ["--profile", profile]
    out, dt = run(["cargo", "build", "--offline", "--bin", binname] + prof_args, cwd=HARNESS, env=env, timeout=3000)
    return os.path.join(TARGET, profile, binname), dt


def record(binpath, tier, seed, outfile, extra=None, timeout=1800, env=None, crash_ok=None):
    cmd = [binpath, "--tier", tier, "--seed", str(seed), "--out", outfile] + (extra or [])
    t0 = time.time()
    try:
        p = subprocess.run(cmd, timeout=timeout, env=dict(os.environ, **(env or {})), stdout=subprocess.PIPE, stderr=subprocess.STDOUT, text=True)
    except subprocess.TimeoutExpired:
        raise ToolError("recorder timed out after %ss" % timeout)
    out, dt = p.stdout, time.time() - t0
    if p.returncode != 0 or not os.path.exists(outfile):
        # a crash of the recorder itself (outside a recorded call) is a tool error, never a verdict; but the events it
        # had written are still judged (crash_ok: a list that receives the description), so that a change which makes
        # the recorder die in one place cannot hide the rejected events it produced elsewhere
        msg = "recorder failed (exit %s): %s" % (p.returncode, out[-2000:])
        if crash_ok is None or not os.path.exists(outfile):
            raise ToolError(msg)
        data = open(outfile, "rb").read()
        cut = data.rfind(b"\n") + 1
        open(outfile, "wb").write(data[:cut])
        crash_ok.append(msg)
    return dt


def shard_file(path, outdir, tag):
    os.makedirs(outdir, exist_ok=True)
    shards = []
    with open(path) as f:
        n = 0
        cur = None
        for line in f:
            # a history event (it defines register "dst") may not start a shard unless it starts a history
            if (cur is None or shards[-1][2] >= SHARD) and ('"dst":' not in line or '"reset":1' in line):
                if cur:
                    cur.close()
                p = os.path.join(outdir, "%s_%03d.ndjson" % (tag, len(shards)))
                cur = open(p, "w")
                shards.append([p, n, 0])
            cur.write(line)
            shards[-1][2] += 1
            n += 1
        if cur:
            cur.close()
    return shards, n


REJECT_RE = re.compile(r'<<"REJECT", (\d+)>>')


def restricted_spec(wdir, props):
    """tla/ApiTrace.tla dispatches to the judge modules of all properties.  A check only needs its own:
    generate a copy restricted to `props` (same text otherwise), so that one property's judge module
    cannot break the validation of another."""
    src = open(os.path.join(TLA, "ApiTrace.tla")).read()
    name = "ApiTrace_" + "_".join(props)
    out = []
    for line in src.splitlines():
        m = re.match(r"\s+JC01, JC02.*", line)
        if m:
            out.append("        " + ", ".join("J" + p for p in props))
            continue
        if re.match(r"\s+JC\d\d, ", line):
            continue
        m = re.match(r'\s+(CASE|\[\]) e\.p = "(C\d+)" -> (.*)', line)
        if m:
            if m.group(1) == "CASE":
                out.append("  CASE FALSE -> FALSE")
            if m.group(2) in props:
                out.append("    [] e.p = \"%s\" -> %s" % (m.group(2), m.group(3)))
            continue
        out.append(line.replace("MODULE ApiTrace ", "MODULE %s " % name))
    spec = os.path.join(wdir, name + ".tla")
    text = "\n".join(out) + "\n"
    # shards are validated concurrently: never truncate a file another TLC may be reading
    for dst, body in ((spec, text), (os.path.join(wdir, name + ".cfg"), open(os.path.join(TLA, "ApiTrace.cfg")).read())):
        if not (os.path.exists(dst) and open(dst).read() == body):
            tmp = "%s.%d.%d.tmp" % (dst, os.getpid(), threading.get_ident())
            open(tmp, "w").write(body)
            os.replace(tmp, dst)
    return spec, os.path.join(wdir, name + ".cfg")


def validate_shard(shard, idx, wdir, timeout, props):
    path, base, count = shard
    meta = os.path.join(wdir, "meta_%d" % idx)
    env = dict(os.environ, TRACE=path)
    spec, cfg = restricted_spec(wdir, props)
    cmd = tlc_cmd(1, meta, ["-config", cfg, spec], heap="3g")
    out, dt = run(cmd, cwd=wdir, env=env, timeout=timeout, check=False)
    shutil.rmtree(meta, ignore_errors=True)
    gen, dist = parse_states(out)
    if "Model checking completed. No error has been found." not in out or dist != count + 1:
        raise ToolError("TLC did not consume shard %s (%d/%d states)\n%s" % (path, dist, count + 1, out[-3000:]))
    rejects = [int(m.group(1)) for m in REJECT_RE.finditer(out)]
    labels = {}
    m = re.search(r'<<"LABELS", "(.*)">>', out)
    if m:
        try:
            labels = json.loads(m.group(1).replace('\\"', '"'))
        except Exception:
            labels = {}
        if not isinstance(labels, dict):          # the empty function is rendered as an empty array
            labels = {}
    return dict(path=path, base=base, count=count, rejects=rejects, states=dist, transitions=gen, wall=dt, labels=labels)


def validate_trace(path, wdir, tag, props, par=6, timeout=1800):
    shards, n = shard_file(path, os.path.join(wdir, "shards"), tag)
    res = []
    with cf.ThreadPoolExecutor(max_workers=par) as ex:
        futs = [ex.submit(validate_shard, s, i, wdir, timeout, props) for i, s in enumerate(shards)]
        for f in futs:
            res.append(f.result())
    return res, n


def read_lines(path, wanted):
    """fetch 1-based line numbers from a file"""
    wanted = set(wanted)
    out = {}
    if not wanted:
        return out
    with open(path) as f:
        for i, line in enumerate(f, 1):
            if i in wanted:
                out[i] = line.rstrip("\n")
    return out


# ------------------------------------------------------------------------------------------------
# known findings

def load_findings():
    p = os.path.join(VERIF, "known_findings.json")
    if not os.path.exists(p):
        return []
    return json.load(open(p))


def _decode(ev):
    d = {}
    for k, v in ev.items():
        if isinstance(v, list) and all(isinstance(x, int) for x in v):
            d[k] = int.from_bytes(bytes(v), "little")
            d[k + "_raw"] = v
        else:
            d[k] = v
    return d


def match_finding(ev, findings, prop):
    d = _decode(ev)
    for f in findings:
        if f.get("status") != "open" or f.get("property") != prop:
            continue
        m = f.get("match", {})
        if "op" in m and ev.get("op") != m["op"]:
            continue
        if "form_re" in m and not re.search(m["form_re"], ev.get("form", "")):
            continue
        if "when" in m:
            try:
                # one namespace (comprehensions inside eval cannot see a separate locals mapping)
                ns = dict(d, e=d, len=len, int=int, abs=abs, min=min, max=max, all=all, any=any, zip=zip, enumerate=enumerate,
                          nat=lambda b: int.from_bytes(bytes(b), "little"))
                ns["__builtins__"] = {}
                if not eval(m["when"], ns):
                    continue
            except Exception:
                continue
        return f
    return None


# ------------------------------------------------------------------------------------------------
# R1: small-W exhaustive model checks

def run_model(spec, cfg, workers, timeout, wdir, heap="8g", extra=None):
    meta = os.path.join(wdir, "meta_r1_" + os.path.basename(cfg))
    cmd = tlc_cmd(workers, meta, ["-config", cfg] + (extra or []) + [spec], heap=heap)
    out, dt = run(cmd, cwd=os.path.dirname(spec), timeout=timeout, check=False)
    shutil.rmtree(meta, ignore_errors=True)
    gen, dist = parse_states(out)
    ok = "Model checking completed. No error has been found." in out
    return dict(spec=os.path.relpath(spec, VERIF), cfg=os.path.relpath(cfg, VERIF), ok=ok, states=dist, transitions=gen, wall=round(dt, 1), out=out)


# ------------------------------------------------------------------------------------------------

def write_evidence(prop, tier, seed, level, coverage, assumptions, wall, violations):
    os.makedirs(os.path.join(VERIF, "evidence"), exist_ok=True)
    ev = dict(property_id=prop, tier=tier, seed=seed, level=level, coverage=coverage,
              assumptions=assumptions, wall_s=round(wall, 1), violations=violations)
    with open(os.path.join(VERIF, "evidence", prop + ".json"), "w") as f:
        json.dump(ev, f, indent=1)
        f.write("\n")


def short_event(line, limit=400):
    return line if len(line) <= limit else line[:limit] + "...(%d chars)" % len(line)


def check_r2(prop, tier, seed, spec):
    """Generic check for a property decided by trace validation + small-W model checks.

    spec: dict(bin=..., r1=[(tlafile, cfgfile, workers, timeout_s, tiers)], assumptions=[...],
               record_args={'quick': [...], 'thorough': [...]})
    """
    t0 = time.time()
    wdir = os.path.join(WORK, prop)
    shutil.rmtree(wdir, ignore_errors=True)
    os.makedirs(wdir, exist_ok=True)
    ensure_classes()
    findings = load_findings()
    violations = []      # (profile, line_no, event_line)
    known = {}           # finding id -> count
    totals = dict(states=0, transitions=0, events=0, shards=0)
    samples = []
    forms = set()
    nontrivial = 0
    distinct = set()
    r1_results = []

    # R1 in the background while the harness builds
    r1_specs = [r for r in spec.get("r1", []) if tier in r.get("tiers", ("quick", "thorough"))]
    pool = cf.ThreadPoolExecutor(max_workers=2)
    r1_futs = [(r, pool.submit(run_model, os.path.join(TLA, r["spec"]), os.path.join(TLA, r["cfg"]), r.get("workers", 6), r.get("timeout", 900), wdir, r.get("heap", "8g"))) for r in r1_specs]

    outcome_counts = {}
    rec_env = {}
    input_classes = {}
    crashes = []
    if "pre" in spec:
        # scenario generation from the specification (R3): TLC enumerates/simulates the state machine
        pre = spec["pre"](prop, tier, seed, wdir)
        rec_env = pre.get("env", {})
        for r in pre.get("models", []):
            r1_results.append(r)
            totals["states"] += r["states"]
            totals["transitions"] += r["transitions"]
            log("[%s] R3 %s/%s: %d distinct states, %s scenario(s), %.0fs" % (prop, r["spec"], r["cfg"], r["states"], r.get("scenarios", "-"), r["wall"]))
    for profile, label in (("release", "rel"), ("chk", "chk")):
        binpath, bdt = cargo_build(spec["bin"], profile)
        trace = os.path.join(wdir, "trace_%s.ndjson" % label)
        rdt = record(binpath, tier, seed, trace, extra=spec.get("record_args", {}).get(tier), env=rec_env, crash_ok=crashes)
        res, n = validate_trace(trace, wdir, label, spec.get("judges", [prop]))
        totals["events"] += n
        totals["shards"] += len(res)
        rej_lines = []
        for r in res:
            for k, v in r.get("labels", {}).items():
                input_classes[k] = input_classes.get(k, 0) + v
            totals["states"] += r["states"]
            totals["transitions"] += r["transitions"]
            rej_lines += [r["base"] + i for i in r["rejects"]]
        # statistics over the trace
        with open(trace) as f:
            for i, line in enumerate(f, 1):
                try:
                    e = json.loads(line)
                except Exception:
                    raise ToolError("malformed trace line %d in %s" % (i, trace))
                forms.add(e.get("form"))
                k = e.get("k")
                outcome_counts[k] = outcome_counts.get(k, 0) + 1
                h = hashlib.blake2b(re.sub(r'"(form|prof)":"[^"]*",', "", line).encode(), digest_size=8).digest()
                if h not in distinct:
                    distinct.add(h)
                    if nontriv(e):
                        nontrivial += 1
                if len(samples) < 6 and i % max(1, n // 6) == 1:
                    samples.append(json.loads(short_event(line, 100000)) if len(line) < 1500 else {"event_prefix": line[:600]})
        lines = read_lines(trace, rej_lines)
        for ln in rej_lines:
            e = json.loads(lines[ln])
            f = match_finding(e, findings, prop)
            if f:
                known[f["id"]] = known.get(f["id"], 0) + 1
            else:
                violations.append((label, ln, lines[ln]))
        log("[%s] %s: build %.0fs, recorded %d events in %.1fs, validated by TLC in %d shard(s), %d rejected" % (prop, label, bdt, n, rdt, len(res), len(rej_lines)))

    path_cov = None
    if spec.get("paths") and spec["paths"].get("module") == "CodecTrace":
        # the codec transcription (tla/algo/CodecOps.tla, explored exhaustively at small octets) evaluated at Q = 8 on the recorded calls
        meta = os.path.join(wdir, "meta_paths")
        env = dict(os.environ, TRACE=os.path.join(wdir, "trace_rel.ndjson"), STRIDE=str(spec["paths"].get(tier, 1)))
        cmd = tlc_cmd(1, meta, ["-config", os.path.join(TLA, "CodecTrace.cfg"), os.path.join(TLA, "CodecTrace.tla")], heap="6g")
        out, dt = run(cmd, cwd=TLA, env=env, timeout=1800, check=False)
        shutil.rmtree(meta, ignore_errors=True)
        m = re.search(r'<<"CODEC", "(.*)">>', out)
        if not m:
            raise ToolError("CodecTrace did not finish:\n" + out[-2000:])
        branches = json.loads(m.group(1).replace('\\"', '"'))
        drift = branches.pop("spec_drift", 0)
        path_cov = dict(model="tla/algo/CodecOps.tla at Q=8 (tla/CodecTrace.tla)", events_evaluated=sum(branches.values()), spec_drift=drift,
                        branches_of_the_transcription_taken=branches, wall=round(dt, 1))
        log("[%s] codec transcription at Q=8: %d recorded calls re-evaluated, %d branch classes, %d SPEC-DRIFT" % (prop, sum(branches.values()), len(branches), drift))
        g, d_ = parse_states(out)
        totals["states"] += d_; totals["transitions"] += g
    elif spec.get("paths"):
        # spec-side path labels: the R1 algorithm model evaluated at W = 64 on the recorded inputs
        meta = os.path.join(wdir, "meta_paths")
        env = dict(os.environ, TRACE=os.path.join(wdir, "trace_rel.ndjson"), STRIDE=str(spec["paths"].get(tier, 1)))
        cmd = tlc_cmd(1, meta, ["-config", os.path.join(TLA, "PathTrace.cfg"), os.path.join(TLA, "PathTrace.tla")], heap="4g")
        out, dt = run(cmd, cwd=TLA, env=env, timeout=1800, check=False)
        shutil.rmtree(meta, ignore_errors=True)
        m = re.search(r'<<"PATHS", (\d+), (\d+), (\d+), (\d+), (\d+), (\d+)>>', out)
        if not m:
            raise ToolError("PathTrace did not finish:\n" + out[-2000:])
        ev_, ab, qm, co, drift, ct = map(int, m.groups())
        path_cov = dict(model="tla/algo/KnuthD.tla at W=64 (tla/PathTrace.tla)", events_evaluated=ev_, constant_time_form=ct, vartime_form=ev_ - ct,
                        took_add_back=ab, quotient_estimate_maxed=qm, needed_3by2_correction=co, spec_drift=drift, wall=round(dt, 1))
        ml = re.search(r'<<"LIMBPATHS", (\d+), (\d+), (\d+)>>', out)
        if ml:
            lb, c1, c2 = map(int, ml.groups())
            path_cov.update(limb_divisions_evaluated=lb, with_first_2by1_correction=c1, with_second_2by1_correction=c2)
        mt = re.search(r'<<"TOPONLY", (\d+)>>', out)
        if mt:
            path_cov.update(add_back_visible_in_top_limb_only=int(mt.group(1)))
        mw = re.search(r'<<"REMWIDE", (\d+), (\d+), (\d+)>>', out)
        if mw:
            path_cov.update(wide_remainders_evaluated=int(mw.group(1)), wide_remainders_with_add_back=int(mw.group(2)), wide_remainders_single_word_divisor=int(mw.group(3)))
        log("[%s] path labels at W=64: %d recorded divisions re-evaluated by the KnuthD model, %d take add-back, %d have a maxed estimate, %d a 3-by-2 correction, %d SPEC-DRIFT" % (prop, ev_, ab, qm, co, drift)
            + ("; %d limb divisions: %d with a first, %d with the second 2-by-1 correction" % (lb, c1, c2) if ml else "")
            + ("; %s add-backs visible in the top limb only" % mt.group(1) if mt else "")
            + ("; %s wide remainders (%s with add-back, %s single-word divisors)" % mw.groups() if mw else ""))
        g, d_ = parse_states(out)
        totals["states"] += d_; totals["transitions"] += g
    for rspec, fut in r1_futs:
        r = fut.result()
        if "expect_violation" in rspec:
            # vacuity guard: the named invariant says "the rare path is never taken"; TLC must refute it
            r["ok"] = ("Invariant %s is violated" % rspec["expect_violation"]) in r["out"]
            r["vacuity_guard"] = rspec["expect_violation"]
        r1_results.append({k: v for k, v in r.items() if k != "out"})
        if not r["ok"]:
            # a failed design-level run is a defect of the model or a tool problem, never a verdict on the code
            open(os.path.join(wdir, "r1_fail_" + os.path.basename(r["cfg"]) + ".log"), "w").write(r["out"])
            raise ToolError("R1 model check did not pass: %s %s\n%s" % (r["spec"], r["cfg"], r["out"][-3000:]))
        totals["states"] += r["states"]
        totals["transitions"] += r["transitions"]
        log("[%s] R1 %s/%s: %d distinct states, %.0fs" % (prop, r["spec"], r["cfg"], r["states"], r["wall"]))

    lemmas = []
    for lm in spec.get("apalache", []):
        if tier not in lm.get("tiers", ("quick", "thorough")):
            continue
        odir = os.path.join(wdir, "apalache")
        out, dt = run(["apalache-mc", "check", "--init=Init", "--inv=" + lm["inv"], "--length=0", "--out-dir=" + odir, os.path.join(TLA, lm["spec"])],
                      cwd=os.path.dirname(os.path.join(TLA, lm["spec"])), timeout=lm.get("timeout", 900), check=False)
        shutil.rmtree(odir, ignore_errors=True)
        if lm.get("expect_error"):
            # vacuity guard: a deliberately false variant of a lemma must be refuted
            ok = "The outcome is: Error" in out
            lemmas.append(dict(spec="tla/" + lm["spec"], invariant=lm["inv"], refuted_as_expected=ok, tool="Apalache 0.58", wall=round(dt, 1)))
            if not ok:
                raise ToolError("Apalache did not refute the guard %s of %s:\n%s" % (lm["inv"], lm["spec"], out[-2000:]))
            log("[%s] Apalache: guard %s of tla/%s refuted, as it must be (%.0fs)" % (prop, lm["inv"], lm["spec"], dt))
            continue
        ok = "The outcome is: NoError" in out
        lemmas.append(dict(spec="tla/" + lm["spec"], invariant=lm["inv"], discharged=ok, tool="Apalache 0.58 (SMT, unbounded integers, word size 2^64)", wall=round(dt, 1)))
        if not ok:
            raise ToolError("Apalache did not discharge %s of %s:\n%s" % (lm["inv"], lm["spec"], out[-2000:]))
        log("[%s] Apalache: %s of tla/%s holds for all values at the real width (%.0fs)" % (prop, lm["inv"], lm["spec"], dt))
    for pf in spec.get("tlaps", []):
        if tier not in pf.get("tiers", ("thorough",)):
            continue
        pdir = os.path.join(wdir, "tlaps")
        shutil.rmtree(pdir, ignore_errors=True)
        os.makedirs(pdir)
        shutil.copy(os.path.join(TLA, pf["spec"]), pdir)
        out, dt = run(["tlapm", "--threads", "8", "--stretch", "4", "--cleanfp", os.path.basename(pf["spec"])], cwd=pdir, timeout=pf.get("timeout", 1800), check=False)
        m = re.search(r"All (\d+) obligations? proved", out)
        lemmas.append(dict(spec="tla/" + pf["spec"], proved=bool(m), obligations=int(m.group(1)) if m else 0, tool="TLAPS (tlapm 1.6, SMT/Zenon/Isabelle back ends), arbitrary width", wall=round(dt, 1)))
        shutil.rmtree(pdir, ignore_errors=True)
        if not m:
            raise ToolError("tlapm did not prove tla/%s:\n%s" % (pf["spec"], out[-2000:]))
        log("[%s] TLAPS: all %s obligations of tla/%s proved (any width) (%.0fs)" % (prop, m.group(1), pf["spec"], dt))
    # report
    for fid, cnt in sorted(known.items()):
        f = [x for x in findings if x["id"] == fid][0]
        log("KNOWN-FINDING: property=%s %s [%s, %d event(s)]" % (prop, f["what"], fid, cnt))
    rdir = os.path.join(WORK, "replay", prop)
    shutil.rmtree(rdir, ignore_errors=True)
    if violations:
        os.makedirs(rdir, exist_ok=True)
    by_form = {}
    for label, ln, line in violations:
        e = json.loads(line)
        key = (e.get("form"), e.get("k"))
        by_form.setdefault(key, []).append((label, ln, line))
    shown = 0
    for key, items in sorted(by_form.items(), key=lambda kv: str(kv[0])):
        label, ln, line = items[0]
        rp = os.path.join(rdir, "%s_%s_%d.json" % (prop, label, ln))
        json.dump(dict(property=prop, tier=tier, seed=seed, profile=label, line=ln, event=json.loads(line), same_class=len(items)), open(rp, "w"), indent=1)
        log("VIOLATION property=%s replay=%s" % (prop, rp))
        log("  form=%s outcome=%s (%d event(s) of this class); first: %s" % (key[0], key[1], len(items), short_event(line, 300)))
        shown += 1
    coverage = dict(
        states=max(1, totals["states"]), transitions=max(1, totals["transitions"]),
        traces_validated_against_impl=totals["shards"],
        events_validated=totals["events"], evaluations=totals["events"], distinct_nontrivial=nontrivial,
        rule="every public call recorded by the harness (structured limbs, constructive families, exhaustive small parameters; two build profiles) is one trace event validated by TLC against the TLA+ contract; distinct = distinct (inputs, outcome) after removing the form label; non-trivial = " + NONTRIV_RULE,
        forms_exercised=len(forms), outcomes=outcome_counts, samples=samples, r1_models=r1_results,
        input_classes=dict(sorted(input_classes.items())),
        rejected_events=len(violations) + sum(known.values()), known_findings_matched=known, path_coverage=path_cov, word_lemmas_at_W64=lemmas,
        exhaustive=False)
    write_evidence(prop, tier, seed, "model_checking", coverage, spec.get("assumptions", []), time.time() - t0, len(violations))
    missing = [c for c in spec.get("required_classes", []) if input_classes.get(c, 0) == 0]
    if input_classes:
        log("[%s] input classes (tla/Labels.tla): %s" % (prop, ", ".join("%s=%d" % (k.split(".", 1)[1], v) for k, v in sorted(input_classes.items()))))
    if missing and not violations:
        # the recorder no longer produces a boundary class the contracts are meant to be evaluated on: vacuity, a tool error
        raise ToolError("required input classes without a single recorded event: %s" % ", ".join(missing))
    if crashes:
        for c in crashes:
            log("[%s] NOTE: %s" % (prop, c.split("\n")[0][:300]))
        if not violations:
            raise ToolError("; ".join(c[:500] for c in crashes))
    return 1 if violations else 0


NONTRIV_RULE = "some operand has more than one significant byte or the outcome is not ok"


def nontriv(e):
    if e.get("k") != "ok":
        return True
    for k, v in e.items():
        if isinstance(v, list) and len(v) > 1:
            return True
    return False
