//! C02 recorder: unsigned division and remainder, every form, fixed and boxed.
//! Event class `divrem`: inputs n, d, widths nb/db (bits), `z` = documented behaviour for a zero
//! divisor of this form ("none", "panic", or "na" when the type rules it out); outputs q and/or r.
//! Event class `rem2k`: n, k -> r.
use vh::cb::{BoxedUint, CheckedDiv, DivRemLimb, DivVartime, Reciprocal, RemLimb, RemMixed, Uint, Wrapping};
use vh::*;

fn ev(form: &str, nb: usize, db: usize, n: &[u64], d: &[u64], z: &str) -> Ev {
    Ev::new("divrem", form).i("nb", 64 * nb as i64).i("db", 64 * db as i64).n("n", n).n("d", d).s("z", z)
}

/// (n, d) of nl and dl limbs, d possibly zero only when `allow_zero`
fn div_case(r: &mut Rng, nl: usize, dl: usize, allow_zero: bool) -> (Vec<u64>, Vec<u64>) {
    let sig = nl.min(dl);
    match r.below(100) {
        0..=1 if allow_zero => (nat(r, nl), vec![0; dl]),
        0..=24 => {
            // structured n, structured d (often short inside the wide type)
            let d = if r.chance(1, 3) { let k = r.range(1, dl); fit(nat_nonzero(r, k), dl) } else { nat_nonzero(r, dl) };
            (nat(r, nl), d)
        }
        25..=79 => {
            // constructive: n = q*d + r with structured q, d and r in {0, 1, d-1, structured}
            let k = r.range(1, sig);
            let mut d = nat_nonzero(r, k);
            if r.chance(1, 2) {
                // normalisation-relevant top limb, extreme second limb
                d[k - 1] = r.pick(&[TOP, TOP + 1, MAX, 1, TOP - 1, MAX - 1]);
                if k >= 2 && r.coin() { d[k - 2] = r.pick(&[0, MAX, 1]); }
            }
            let dt = trim(d.clone());
            let ql = nl + 1 - dt.len().max(1);
            let qk = r.range(1, ql.max(1));
            let q = nat(r, qk);
            let rem = match r.below(5) {
                0 => vec![0],
                1 => if vcmp(&dt, &[1]).is_gt() { vec![1] } else { vec![0] },
                2 | 3 => vsub(&dt, &[1]),
                _ => below(r, &dt),
            };
            let mut n = vadd(&vmul(&q, &dt), &rem);
            if !fits(&n, nl) {
                // too large: fall back to q*d + r truncated quotient
                n = vadd(&vmul(&q[..q.len().saturating_sub(1).max(1)], &dt), &rem);
            }
            if !fits(&n, nl) { n = nat(r, nl); }
            (fit(trim(n), nl), fit(d, dl))
        }
        80..=89 => {
            // n just around a multiple: q*d - 1 (quotient estimate one too large candidates)
            let k = r.range(1, sig);
            let mut d = nat_nonzero(r, k);
            d[k - 1] = r.pick(&[TOP, TOP + 1, MAX, 1, 2, TOP - 1]);
            if k >= 3 { d[k - 2] = 0; }
            let dt = trim(d.clone());
            let qk = r.range(1, (nl + 1 - dt.len()).max(1));
            let q = nat_nonzero(r, qk);
            let p = vmul(&q, &dt);
            let n = if fits(&p, nl) { vsub(&p, &[1]) } else { nat(r, nl) };
            (fit(trim(n), nl), fit(d, dl))
        }
        90..=94 => {
            // powers of two and d = 1
            let d = if r.coin() { fit(vec![1], dl) } else { fit(trim(vpow2(r.below(64 * sig))), dl) };
            (nat(r, nl), d)
        }
        _ => {
            // n < d, n = d, n = d +- 1
            let d = nat_nonzero(r, sig);
            let n = match r.below(4) {
                0 => d.clone(),
                1 => vsub(&d, &[1]),
                2 => { let t = vadd(&d, &[1]); if fits(&t, nl) { t } else { d.clone() } }
                _ => below(r, &d),
            };
            (fit(trim(n), nl), fit(d, dl))
        }
    }
}

fn out_qr(q: &[u64], r: &[u64]) -> O {
    O::ok().n("q", q).n("r", r)
}

fn same_width<const N: usize>(cx: &mut Cx, iters: usize) {
    for it in 0..iters {
        let (n, d) = div_case(&mut cx.rng, N, N, true);
        let a = u::<N>(&n);
        let b = u::<N>(&d);
        let zero = is_zero(&d);
        // forms taking the raw divisor
        cx.call(ev("uint.checked_div", N, N, &n, &d, "none"), || match Option::<Uint<N>>::from(a.checked_div(&b)) { Some(q) => O::ok().n("q", &w(&q)), None => O::none() });
        cx.call(ev("uint.checked_rem", N, N, &n, &d, "none"), || match Option::<Uint<N>>::from(a.checked_rem(&b)) { Some(r) => O::ok().n("r", &w(&r)), None => O::none() });
        cx.call(ev("uint.CheckedDiv", N, N, &n, &d, "none"), || match Option::<Uint<N>>::from(CheckedDiv::checked_div(&a, &b)) { Some(q) => O::ok().n("q", &w(&q)), None => O::none() });
        cx.call(ev("uint.wrapping_rem_vartime", N, N, &n, &d, "panic"), || O::ok().n("r", &w(&a.wrapping_rem_vartime(&b))));
        if it % 4 == 0 || zero {
            cx.call(ev("uint.op_div_uint", N, N, &n, &d, "panic"), || O::ok().n("q", &w(&(a / b))));
            cx.call(ev("uint.op_div_uint_ref", N, N, &n, &d, "panic"), || O::ok().n("q", &w(&(&a / b))));
            cx.call(ev("uint.op_rem_uint", N, N, &n, &d, "panic"), || O::ok().n("r", &w(&(a % b))));
            cx.call(ev("uint.op_rem_uint_ref", N, N, &n, &d, "panic"), || O::ok().n("r", &w(&(&a % b))));
        }
        if zero { continue; }
        let nzd = nz::<N>(&d).unwrap();
        cx.call(ev("uint.div_rem", N, N, &n, &d, "na"), || { let (q, r) = a.div_rem(&nzd); out_qr(&w(&q), &w(&r)) });
        cx.call(ev("uint.div_rem_vartime", N, N, &n, &d, "na"), || { let (q, r) = a.div_rem_vartime(&nzd); out_qr(&w(&q), &w(&r)) });
        cx.call(ev("uint.rem", N, N, &n, &d, "na"), || O::ok().n("r", &w(&a.rem(&nzd))));
        cx.call(ev("uint.rem_vartime", N, N, &n, &d, "na"), || O::ok().n("r", &w(&a.rem_vartime(&nzd))));
        if it % 3 == 0 {
            cx.call(ev("uint.wrapping_div", N, N, &n, &d, "na"), || O::ok().n("q", &w(&a.wrapping_div(&nzd))));
            cx.call(ev("uint.wrapping_div_vartime", N, N, &n, &d, "na"), || O::ok().n("q", &w(&a.wrapping_div_vartime(&nzd))));
            cx.call(ev("uint.DivVartime", N, N, &n, &d, "na"), || O::ok().n("q", &w(&DivVartime::div_vartime(&a, &nzd))));
        }
        if it % 5 == 0 {
            // operator forest: by value, by reference, assigning, Wrapping
            cx.call(ev("uint.op_div_nz_vv", N, N, &n, &d, "na"), || O::ok().n("q", &w(&(a / nzd))));
            cx.call(ev("uint.op_div_nz_rv", N, N, &n, &d, "na"), || O::ok().n("q", &w(&(&a / nzd))));
            cx.call(ev("uint.op_div_nz_vr", N, N, &n, &d, "na"), || O::ok().n("q", &w(&(a / &nzd))));
            cx.call(ev("uint.op_div_nz_rr", N, N, &n, &d, "na"), || O::ok().n("q", &w(&(&a / &nzd))));
            cx.call(ev("uint.op_div_assign_v", N, N, &n, &d, "na"), || { let mut t = a; t /= nzd; O::ok().n("q", &w(&t)) });
            cx.call(ev("uint.op_div_assign_r", N, N, &n, &d, "na"), || { let mut t = a; t /= &nzd; O::ok().n("q", &w(&t)) });
            cx.call(ev("uint.op_rem_nz_vv", N, N, &n, &d, "na"), || O::ok().n("r", &w(&(a % nzd))));
            cx.call(ev("uint.op_rem_nz_rv", N, N, &n, &d, "na"), || O::ok().n("r", &w(&(&a % nzd))));
            cx.call(ev("uint.op_rem_nz_vr", N, N, &n, &d, "na"), || O::ok().n("r", &w(&(a % &nzd))));
            cx.call(ev("uint.op_rem_nz_rr", N, N, &n, &d, "na"), || O::ok().n("r", &w(&(&a % &nzd))));
            cx.call(ev("uint.op_rem_assign_v", N, N, &n, &d, "na"), || { let mut t = a; t %= nzd; O::ok().n("r", &w(&t)) });
            cx.call(ev("uint.op_rem_assign_r", N, N, &n, &d, "na"), || { let mut t = a; t %= &nzd; O::ok().n("r", &w(&t)) });
            let wa = Wrapping(a);
            cx.call(ev("wrapping.op_div_vv", N, N, &n, &d, "na"), || O::ok().n("q", &w(&(wa / nzd).0)));
            cx.call(ev("wrapping.op_div_rv", N, N, &n, &d, "na"), || O::ok().n("q", &w(&(&wa / nzd).0)));
            cx.call(ev("wrapping.op_div_rr", N, N, &n, &d, "na"), || O::ok().n("q", &w(&(&wa / &nzd).0)));
            cx.call(ev("wrapping.op_div_vr", N, N, &n, &d, "na"), || O::ok().n("q", &w(&(wa / &nzd).0)));
            cx.call(ev("wrapping.op_div_assign_v", N, N, &n, &d, "na"), || { let mut t = wa; t /= nzd; O::ok().n("q", &w(&t.0)) });
            cx.call(ev("wrapping.op_div_assign_r", N, N, &n, &d, "na"), || { let mut t = wa; t /= &nzd; O::ok().n("q", &w(&t.0)) });
            cx.call(ev("wrapping.op_rem_vv", N, N, &n, &d, "na"), || O::ok().n("r", &w(&(wa % nzd).0)));
            cx.call(ev("wrapping.op_rem_rv", N, N, &n, &d, "na"), || O::ok().n("r", &w(&(&wa % nzd).0)));
            cx.call(ev("wrapping.op_rem_rr", N, N, &n, &d, "na"), || O::ok().n("r", &w(&(&wa % &nzd).0)));
            cx.call(ev("wrapping.op_rem_vr", N, N, &n, &d, "na"), || O::ok().n("r", &w(&(wa % &nzd).0)));
            cx.call(ev("wrapping.op_rem_assign_v", N, N, &n, &d, "na"), || { let mut t = wa; t %= nzd; O::ok().n("r", &w(&t.0)) });
            cx.call(ev("wrapping.op_rem_assign_r", N, N, &n, &d, "na"), || { let mut t = wa; t %= &nzd; O::ok().n("r", &w(&t.0)) });
        }
    }
}

/// double-width dividend (lo, hi) reduced by an N-limb divisor
fn wide<const N: usize>(cx: &mut Cx, iters: usize) {
    for _ in 0..iters {
        let (n, d) = div_case(&mut cx.rng, 2 * N, N, false);
        let (lo, hi) = (u::<N>(&n[..N]), u::<N>(&n[N..]));
        let nzd = nz::<N>(&d).unwrap();
        cx.call(ev("uint.rem_wide_vartime", 2 * N, N, &n, &d, "na"), || O::ok().n("r", &w(&Uint::<N>::rem_wide_vartime((lo, hi), &nzd))));
    }
}

/// dividend of N limbs, divisor of R limbs (vartime forms take any divisor width)
fn mixed<const N: usize, const R: usize>(cx: &mut Cx, iters: usize) {
    for _ in 0..iters {
        let (n, d) = div_case(&mut cx.rng, N, R, false);
        let a = u::<N>(&n);
        let nzd = nz::<R>(&d).unwrap();
        cx.call(ev("uint.div_rem_vartime_mixed", N, R, &n, &d, "na"), || { let (q, r) = a.div_rem_vartime(&nzd); out_qr(&w(&q), &w(&r)) });
        cx.call(ev("uint.wrapping_div_vartime_mixed", N, R, &n, &d, "na"), || O::ok().n("q", &w(&a.wrapping_div_vartime(&nzd))));
    }
}

macro_rules! rem_mixed_case {
    ($cx:expr, $N:literal, $R:literal, $iters:expr) => {
        for _ in 0..$iters {
            let (n, d) = div_case(&mut $cx.rng, $N, $R, false);
            let a = u::<$N>(&n);
            let nzd = nz::<$R>(&d).unwrap();
            $cx.call(ev("uint.RemMixed", $N, $R, &n, &d, "na"), || O::ok().n("r", &w(&RemMixed::rem_mixed(&a, &nzd))));
        }
    };
}

fn limb_case(r: &mut Rng) -> u64 {
    loop {
        let d = match r.below(10) {
            0 => MAX,
            1 => TOP,
            2 => TOP + 1,
            3 => 1,
            4 => 2,
            5 => 1u64 << r.below(64),
            6 => MAX - 1,
            _ => limb(r),
        };
        if d != 0 { return d; }
    }
}

fn by_limb<const N: usize>(cx: &mut Cx, iters: usize) {
    for it in 0..iters {
        let d = if it % 5 == 4 { TOP + (cx.rng.next() >> 30) } else { limb_case(&mut cx.rng) };
        let n = if it % 5 == 4 {
            // exact multiples of a divisor just above 2^63 with all quotient limbs near MAX: the reciprocal estimate of the
            // 2-by-1 step is then one too small about a quarter of the time, and the remainder before the last
            // correction equals the divisor exactly
            let q: Vec<u64> = (0..N.saturating_sub(1).max(1)).map(|_| MAX - (cx.rng.next() >> 30)).collect();
            let p = vmul(&q, &[d]);
            if fits(&p, N) { fit(trim(p), N) } else { vec![d] }
        } else if cx.rng.coin() {
            // q*d + r
            let q = nat(&mut cx.rng, N);
            let rr = match cx.rng.below(3) { 0 => 0, 1 => d - 1, _ => cx.rng.next() % d };
            let p = vadd(&vmul(&q, &[d]), &[rr]);
            if fits(&p, N) { fit(trim(p), N) } else { nat(&mut cx.rng, N) }
        } else { nat(&mut cx.rng, N) };
        let a = u::<N>(&n);
        let nzd = nzl(d).unwrap();
        let rc = Reciprocal::new(nzd);
        let dv = [d];
        cx.call(ev("uint.div_rem_limb", N, 1, &n, &dv, "na"), || { let (q, r) = a.div_rem_limb(nzd); out_qr(&w(&q), &[r.0]) });
        cx.call(ev("uint.div_rem_limb_with_reciprocal", N, 1, &n, &dv, "na"), || { let (q, r) = a.div_rem_limb_with_reciprocal(&rc); out_qr(&w(&q), &[r.0]) });
        cx.call(ev("uint.rem_limb", N, 1, &n, &dv, "na"), || O::ok().n("r", &[a.rem_limb(nzd).0]));
        cx.call(ev("uint.rem_limb_with_reciprocal", N, 1, &n, &dv, "na"), || O::ok().n("r", &[a.rem_limb_with_reciprocal(&rc).0]));
        if it % 3 == 0 {
            cx.call(ev("uint.DivRemLimb.div_rem_limb", N, 1, &n, &dv, "na"), || { let (q, r) = DivRemLimb::div_rem_limb(&a, nzd); out_qr(&w(&q), &[r.0]) });
            cx.call(ev("uint.DivRemLimb.with_reciprocal", N, 1, &n, &dv, "na"), || { let (q, r) = DivRemLimb::div_rem_limb_with_reciprocal(&a, &rc); out_qr(&w(&q), &[r.0]) });
            cx.call(ev("uint.RemLimb.rem_limb", N, 1, &n, &dv, "na"), || O::ok().n("r", &[RemLimb::rem_limb(&a, nzd).0]));
            cx.call(ev("uint.RemLimb.with_reciprocal", N, 1, &n, &dv, "na"), || O::ok().n("r", &[RemLimb::rem_limb_with_reciprocal(&a, &rc).0]));
            cx.call(ev("uint.op_div_limb_vv", N, 1, &n, &dv, "na"), || O::ok().n("q", &w(&(a / nzd))));
            cx.call(ev("uint.op_div_limb_rr", N, 1, &n, &dv, "na"), || O::ok().n("q", &w(&(&a / &nzd))));
            cx.call(ev("uint.op_div_limb_rv", N, 1, &n, &dv, "na"), || O::ok().n("q", &w(&(&a / nzd))));
            cx.call(ev("uint.op_div_limb_vr", N, 1, &n, &dv, "na"), || O::ok().n("q", &w(&(a / &nzd))));
            cx.call(ev("uint.op_div_limb_assign", N, 1, &n, &dv, "na"), || { let mut t = a; t /= nzd; O::ok().n("q", &w(&t)) });
            cx.call(ev("uint.op_div_limb_assign_r", N, 1, &n, &dv, "na"), || { let mut t = a; t /= &nzd; O::ok().n("q", &w(&t)) });
            cx.call(ev("uint.op_rem_limb_vv", N, 1, &n, &dv, "na"), || O::ok().n("r", &[(a % nzd).0]));
            cx.call(ev("uint.op_rem_limb_rr", N, 1, &n, &dv, "na"), || O::ok().n("r", &[(&a % &nzd).0]));
            cx.call(ev("uint.op_rem_limb_rv", N, 1, &n, &dv, "na"), || O::ok().n("r", &[(&a % nzd).0]));
            cx.call(ev("uint.op_rem_limb_vr", N, 1, &n, &dv, "na"), || O::ok().n("r", &[(a % &nzd).0]));
            cx.call(ev("uint.op_rem_limb_assign", N, 1, &n, &dv, "na"), || { let mut t = a; t %= nzd; O::ok().n("r", &w(&t)) });
            cx.call(ev("uint.op_rem_limb_assign_r", N, 1, &n, &dv, "na"), || { let mut t = a; t %= &nzd; O::ok().n("r", &w(&t)) });
            let wa = Wrapping(a);
            cx.call(ev("wrapping.op_div_limb_vv", N, 1, &n, &dv, "na"), || O::ok().n("q", &w(&(wa / nzd).0)));
            cx.call(ev("wrapping.op_div_limb_rr", N, 1, &n, &dv, "na"), || O::ok().n("q", &w(&(&wa / &nzd).0)));
            cx.call(ev("wrapping.op_div_limb_assign", N, 1, &n, &dv, "na"), || { let mut t = wa; t /= nzd; O::ok().n("q", &w(&t.0)) });
            cx.call(ev("wrapping.op_rem_limb_vv", N, 1, &n, &dv, "na"), || O::ok().n("r", &[(wa % nzd).0.0]));
            cx.call(ev("wrapping.op_rem_limb_rr", N, 1, &n, &dv, "na"), || O::ok().n("r", &[(&wa % &nzd).0.0]));
            cx.call(ev("wrapping.op_rem_limb_assign", N, 1, &n, &dv, "na"), || { let mut t = wa; t %= nzd; O::ok().n("r", &w(&t.0)) });
        }
    }
}

fn rem2k<const N: usize>(cx: &mut Cx, iters: usize) {
    // every k in 0..=64N+1 once per pass, plus u32::MAX
    for _ in 0..iters.max(1) {
        for k in (0..=(64 * N + 1) as u64).chain([u32::MAX as u64, (1u64 << 31), 64 * N as u64 + 64]) {
            let n = nat(&mut cx.rng, N);
            let a = u::<N>(&n);
            cx.call(Ev::new("rem2k", "uint.rem2k_vartime").i("nb", 64 * N as i64).n("n", &n).nu("kk", k as u128), || O::ok().n("r", &w(&a.rem2k_vartime(k as u32))));
        }
    }
}

fn boxed(cx: &mut Cx, iters: usize, maxl: usize) {
    for it in 0..iters {
        let nl = if cx.rng.chance(1, 4) { cx.rng.pick(&[1usize, 2, 3, 31, 32, 33, 64, 65, 70]).min(maxl) } else { cx.rng.range(1, maxl.min(12)) };
        let dl = if cx.rng.chance(2, 3) { nl } else { cx.rng.range(1, maxl.min(nl + 3)) };
        let (n, d) = div_case(&mut cx.rng, nl, dl, true);
        let a = bx(&n);
        let b = bx(&d);
        let zero = is_zero(&d);
        // precision rule logged as data: which operand's precision the doc gives the result
        cx.call(ev("boxed.checked_div", nl, dl, &n, &d, "none").s("pm", "any"), || match Option::<BoxedUint>::from(a.checked_div(&b)) { Some(q) => O::ok().n("q", &wb(&q)).i("qp", q.bits_precision() as i64), None => O::none() });
        cx.call(ev("boxed.CheckedDiv", nl, dl, &n, &d, "none").s("pm", "any"), || match Option::<BoxedUint>::from(CheckedDiv::checked_div(&a, &b)) { Some(q) => O::ok().n("q", &wb(&q)).i("qp", q.bits_precision() as i64), None => O::none() });
        if zero { continue; }
        let nzd = nzb(&d).unwrap();
        cx.call(ev("boxed.div_rem", nl, dl, &n, &d, "na").s("pm", "any"), || { let (q, r) = a.div_rem(&nzd); out_qr(&wb(&q), &wb(&r)).i("qp", q.bits_precision() as i64).i("rp", r.bits_precision() as i64) });
        cx.call(ev("boxed.div_rem_vartime", nl, dl, &n, &d, "na"), || { let (q, r) = a.div_rem_vartime(&nzd); out_qr(&wb(&q), &wb(&r)).i("qp", q.bits_precision() as i64).i("rp", r.bits_precision() as i64) });
        cx.call(ev("boxed.rem", nl, dl, &n, &d, "na").s("pm", "any"), || { let r = a.rem(&nzd); O::ok().n("r", &wb(&r)).i("rp", r.bits_precision() as i64) });
        cx.call(ev("boxed.rem_vartime", nl, dl, &n, &d, "na"), || { let r = a.rem_vartime(&nzd); O::ok().n("r", &wb(&r)).i("rp", r.bits_precision() as i64) });
        cx.call(ev("boxed.RemMixed", nl, dl, &n, &d, "na"), || { let r = RemMixed::rem_mixed(&a, &nzd); O::ok().n("r", &wb(&r)).i("rp", r.bits_precision() as i64) });
        if it % 3 == 0 {
            cx.call(ev("boxed.wrapping_div", nl, dl, &n, &d, "na").s("pm", "any"), || O::ok().n("q", &wb(&a.wrapping_div(&nzd))));
            cx.call(ev("boxed.wrapping_div_vartime", nl, dl, &n, &d, "na"), || O::ok().n("q", &wb(&a.wrapping_div_vartime(&nzd))));
            cx.call(ev("boxed.DivVartime", nl, dl, &n, &d, "na"), || O::ok().n("q", &wb(&DivVartime::div_vartime(&a, &nzd))));
            cx.call(ev("boxed.op_div_rr", nl, dl, &n, &d, "na").s("pm", "any"), || O::ok().n("q", &wb(&(&a / &nzd))));
            cx.call(ev("boxed.op_div_vr", nl, dl, &n, &d, "na").s("pm", "any"), || O::ok().n("q", &wb(&(a.clone() / &nzd))));
            cx.call(ev("boxed.op_div_rv", nl, dl, &n, &d, "na").s("pm", "any"), || O::ok().n("q", &wb(&(&a / nzd.clone()))));
            cx.call(ev("boxed.op_div_vv", nl, dl, &n, &d, "na").s("pm", "any"), || O::ok().n("q", &wb(&(a.clone() / nzd.clone()))));
            cx.call(ev("boxed.op_div_assign_r", nl, dl, &n, &d, "na").s("pm", "any"), || { let mut t = a.clone(); t /= &nzd; O::ok().n("q", &wb(&t)) });
            cx.call(ev("boxed.op_div_assign_v", nl, dl, &n, &d, "na").s("pm", "any"), || { let mut t = a.clone(); t /= nzd.clone(); O::ok().n("q", &wb(&t)) });
            cx.call(ev("boxed.op_rem_rr", nl, dl, &n, &d, "na").s("pm", "any"), || O::ok().n("r", &wb(&(&a % &nzd))));
            cx.call(ev("boxed.op_rem_vr", nl, dl, &n, &d, "na").s("pm", "any"), || O::ok().n("r", &wb(&(a.clone() % &nzd))));
            cx.call(ev("boxed.op_rem_rv", nl, dl, &n, &d, "na").s("pm", "any"), || O::ok().n("r", &wb(&(&a % nzd.clone()))));
            cx.call(ev("boxed.op_rem_vv", nl, dl, &n, &d, "na").s("pm", "any"), || O::ok().n("r", &wb(&(a.clone() % nzd.clone()))));
            cx.call(ev("boxed.op_rem_assign_r", nl, dl, &n, &d, "na").s("pm", "any"), || { let mut t = a.clone(); t %= &nzd; O::ok().n("r", &wb(&t)) });
            cx.call(ev("boxed.op_rem_assign_v", nl, dl, &n, &d, "na").s("pm", "any"), || { let mut t = a.clone(); t %= nzd.clone(); O::ok().n("r", &wb(&t)) });
            let wa = Wrapping(a.clone());
            cx.call(ev("boxed.wrapping.op_div_vv", nl, dl, &n, &d, "na").s("pm", "any"), || O::ok().n("q", &wb(&(wa.clone() / nzd.clone()).0)));
            cx.call(ev("boxed.wrapping.op_div_rr", nl, dl, &n, &d, "na").s("pm", "any"), || O::ok().n("q", &wb(&(&wa / &nzd).0)));
            cx.call(ev("boxed.wrapping.op_div_rv", nl, dl, &n, &d, "na").s("pm", "any"), || O::ok().n("q", &wb(&(&wa / nzd.clone()).0)));
            cx.call(ev("boxed.wrapping.op_div_vr", nl, dl, &n, &d, "na").s("pm", "any"), || O::ok().n("q", &wb(&(wa.clone() / &nzd).0)));
            cx.call(ev("boxed.wrapping.op_div_assign_r", nl, dl, &n, &d, "na").s("pm", "any"), || { let mut t = wa.clone(); t /= &nzd; O::ok().n("q", &wb(&t.0)) });
            cx.call(ev("boxed.wrapping.op_div_assign_v", nl, dl, &n, &d, "na").s("pm", "any"), || { let mut t = wa.clone(); t /= nzd.clone(); O::ok().n("q", &wb(&t.0)) });
        }
        // by a limb
        let dlimb = limb_case(&mut cx.rng);
        let nzl_ = nzl(dlimb).unwrap();
        let rc = Reciprocal::new(nzl_);
        let dv = [dlimb];
        cx.call(ev("boxed.div_rem_limb", nl, 1, &n, &dv, "na"), || { let (q, r) = a.div_rem_limb(nzl_); out_qr(&wb(&q), &[r.0]).i("qp", q.bits_precision() as i64) });
        cx.call(ev("boxed.div_rem_limb_with_reciprocal", nl, 1, &n, &dv, "na"), || { let (q, r) = a.div_rem_limb_with_reciprocal(&rc); out_qr(&wb(&q), &[r.0]) });
        cx.call(ev("boxed.rem_limb", nl, 1, &n, &dv, "na"), || O::ok().n("r", &[a.rem_limb(nzl_).0]));
        cx.call(ev("boxed.rem_limb_with_reciprocal", nl, 1, &n, &dv, "na"), || O::ok().n("r", &[a.rem_limb_with_reciprocal(&rc).0]));
        if it % 3 == 0 {
            cx.call(ev("boxed.DivRemLimb.div_rem_limb", nl, 1, &n, &dv, "na"), || { let (q, r) = DivRemLimb::div_rem_limb(&a, nzl_); out_qr(&wb(&q), &[r.0]) });
            cx.call(ev("boxed.RemLimb.rem_limb", nl, 1, &n, &dv, "na"), || O::ok().n("r", &[RemLimb::rem_limb(&a, nzl_).0]));
        }
    }
}

/// Add-back detected ONLY through the top limb.  The multiply-subtract of one quotient digit ends with
/// `x_hi - carry - borrow`; an over-estimated digit normally shows as a borrow rippling up from the low limbs, but
/// when the product quo*d has a zero limb right below its top limb the low limbs do not borrow at all and the
/// over-estimate is visible only because x_hi is exactly one less than the top limb of quo*d.  Construction (3-limb
/// divisor d = (d2, d1, d0), digit quo odd): choose quo, d1, d0 with lo(quo*d1) + hi(quo*d0) wrapping, solve d2 from
/// quo*d2 = -(limb 2 of quo*(d1,d0)) mod 2^64 so that limb 2 of quo*d is zero, require d2 normalised; then
/// x = top(quo*d) * B^3 - 1 - t has top limbs (p3 - 1, MAX, MAX), its 3-by-2 estimate is quo and the true digit quo - 1.
fn top_limb_only_add_back(r: &mut Rng) -> Option<(Vec<u64>, Vec<u64>)> {
    for _ in 0..4000 {
        let quo = r.next() | 1 | TOP;
        let (d1, d0) = (r.next(), r.next());
        let c0 = ((quo as u128 * d0 as u128) >> 64) as u64;
        let lo1 = (quo as u128 * d1 as u128) as u64;
        if lo1.checked_add(c0).is_some() { continue; }                  // p1 = lo1 + c0 must wrap
        let low = vmul(&[quo], &[d0, d1]);                              // quo * (d1 B + d0): up to three limbs
        let h2 = if low.len() > 2 { low[2] } else { 0 };
        let mut inv = quo;                                              // inverse of quo modulo 2^64 (Newton)
        for _ in 0..6 { inv = inv.wrapping_mul(2u64.wrapping_sub(quo.wrapping_mul(inv))); }
        let d2 = h2.wrapping_neg().wrapping_mul(inv);
        if d2 < TOP { continue; }
        let d = vec![d0, d1, d2];
        let p = fit(vmul(&[quo], &d), 4);
        if p[2] != 0 { continue; }
        // x = p3 * B^3 - 1 - t, then one more low limb so that the digit above is a second digit of the division
        let t = r.below(1 << 16) as u64;
        let x = vsub(&vec![0, 0, 0, p[3]], &[1 + t]);
        let mut n = vec![r.next()];
        n.extend(fit(x, 4));
        return Some((n, d));
    }
    None
}

fn top_limb_only<const N: usize>(cx: &mut Cx, iters: usize) {
    for _ in 0..iters {
        let Some((n0, d0)) = top_limb_only_add_back(&mut cx.rng) else { continue };
        let (n, d) = (fit(n0, N), fit(d0, N));
        let (a, nzd) = (u::<N>(&n), nz::<N>(&d).unwrap());
        cx.call(ev("uint.div_rem", N, N, &n, &d, "na"), || { let (q, r) = a.div_rem(&nzd); out_qr(&w(&q), &w(&r)) });
        cx.call(ev("uint.div_rem_vartime", N, N, &n, &d, "na"), || { let (q, r) = a.div_rem_vartime(&nzd); out_qr(&w(&q), &w(&r)) });
        cx.call(ev("uint.rem", N, N, &n, &d, "na"), || O::ok().n("r", &w(&a.rem(&nzd))));
        cx.call(ev("uint.rem_vartime", N, N, &n, &d, "na"), || O::ok().n("r", &w(&a.rem_vartime(&nzd))));
        cx.call(ev("uint.wrapping_div_vartime", N, N, &n, &d, "na"), || O::ok().n("q", &w(&a.wrapping_div_vartime(&nzd))));
        let (ba, bd) = (bx(&n), nzb(&d).unwrap());
        cx.call(ev("boxed.div_rem", N, N, &n, &d, "na").s("pm", "any"), || { let (q, r) = ba.div_rem(&bd); out_qr(&wb(&q), &wb(&r)).i("qp", q.bits_precision() as i64).i("rp", r.bits_precision() as i64) });
        cx.call(ev("boxed.div_rem_vartime", N, N, &n, &d, "na"), || { let (q, r) = ba.div_rem_vartime(&bd); out_qr(&wb(&q), &wb(&r)).i("qp", q.bits_precision() as i64).i("rp", r.bits_precision() as i64) });
        cx.call(ev("boxed.rem_vartime", N, N, &n, &d, "na"), || { let r = ba.rem_vartime(&bd); O::ok().n("r", &wb(&r)).i("rp", r.bits_precision() as i64) });
    }
}

fn main() {
    let mut cx = Cx::from_args("C02");
    let s = cx.scale;
    if cx.want("same") {
        top_limb_only::<5>(&mut cx, 12 * s); top_limb_only::<6>(&mut cx, 6 * s); top_limb_only::<8>(&mut cx, 6 * s);
        same_width::<1>(&mut cx, 300 * s);
        same_width::<2>(&mut cx, 300 * s);
        same_width::<3>(&mut cx, 300 * s);
        same_width::<4>(&mut cx, 400 * s);
        same_width::<6>(&mut cx, 200 * s);
        same_width::<8>(&mut cx, 150 * s);
        same_width::<16>(&mut cx, 60 * s);
        same_width::<32>(&mut cx, 20 * s);
        same_width::<64>(&mut cx, 6 * s);
    }
    if cx.want("wide") {
        wide::<1>(&mut cx, 150 * s);
        wide::<2>(&mut cx, 150 * s);
        wide::<3>(&mut cx, 150 * s);
        wide::<4>(&mut cx, 150 * s);
        wide::<8>(&mut cx, 60 * s);
        wide::<16>(&mut cx, 20 * s);
    }
    if cx.want("mixed") {
        mixed::<4, 2>(&mut cx, 150 * s);
        mixed::<4, 1>(&mut cx, 100 * s);
        mixed::<2, 4>(&mut cx, 100 * s);
        mixed::<3, 2>(&mut cx, 100 * s);
        mixed::<8, 3>(&mut cx, 100 * s);
        mixed::<3, 8>(&mut cx, 60 * s);
        mixed::<6, 4>(&mut cx, 100 * s);
        mixed::<16, 6>(&mut cx, 40 * s);
        mixed::<32, 16>(&mut cx, 10 * s);
        mixed::<64, 8>(&mut cx, 4 * s);
        rem_mixed_case!(cx, 4, 1, 60 * s);
        rem_mixed_case!(cx, 4, 3, 60 * s);
        rem_mixed_case!(cx, 3, 2, 60 * s);
        rem_mixed_case!(cx, 8, 3, 40 * s);
        rem_mixed_case!(cx, 6, 4, 40 * s);
    }
    if cx.want("limb") {
        by_limb::<1>(&mut cx, 150 * s);
        by_limb::<2>(&mut cx, 150 * s);
        by_limb::<3>(&mut cx, 100 * s);
        by_limb::<4>(&mut cx, 150 * s);
        by_limb::<8>(&mut cx, 60 * s);
        by_limb::<16>(&mut cx, 30 * s);
        by_limb::<32>(&mut cx, 10 * s);
    }
    if cx.want("rem2k") {
        rem2k::<1>(&mut cx, 2 * s);
        rem2k::<2>(&mut cx, 2 * s);
        rem2k::<3>(&mut cx, s);
        rem2k::<4>(&mut cx, s);
        rem2k::<7>(&mut cx, s);
    }
    if cx.want("boxed") {
        boxed(&mut cx, 500 * s, 70);
    }
    cx.finish();
}
