//! C17 recorder: radix strings (format and parse), every radix 2..=36, fixed and boxed.
//!
//! Event classes
//!   `fmt`      x (value), bits (width of the integer), radix              -> str (the numeral, raw bytes)
//!   `parse`    s (the string, raw bytes), radix, tk (target kind), bits   -> v | err(code)
//!              tk = "fixed"  Uint<bits/64>                       (size error documented: InputSize)
//!              tk = "unb"    BoxedUint::from_str_radix_vartime   (no bound; precision of the result undocumented, not logged)
//!              tk = "prec"   BoxedUint::from_str_radix_with_precision_vartime(.., bits)  -> also vp (precision of the result)
//!   `parsefmt` s, radix, tk, bits, r2: parse s in `radix`, format the parsed integer in `r2`  -> str | err(code)
//! Strings travel as byte codes; the recorder's own numeral builder (`to_radix`) is used for *building inputs* only.
use vh::cb::{BoxedUint, DecodeError, Uint};
use vh::*;

const ALPHA: &[u8] = b"0123456789abcdefghijklmnopqrstuvwxyzABCDEFGHIJKLMNOPQRSTUVWXYZ_+";

fn code(e: DecodeError) -> &'static str {
    match e {
        DecodeError::Empty => "Empty",
        DecodeError::InvalidDigit => "InvalidDigit",
        DecodeError::InputSize => "InputSize",
        DecodeError::Precision => "Precision",
    }
}

fn digit_char(d: u64) -> u8 {
    if d < 10 { b'0' + d as u8 } else { b'a' + (d as u8 - 10) }
}

/// canonical lowercase numeral of a word vector (input builder, never used to judge)
fn to_radix(v: &[u64], radix: u32) -> Vec<u8> {
    let mut x = trim(v.to_vec());
    if x.is_empty() {
        return b"0".to_vec();
    }
    let r = radix as u64;
    let (mut p, mut k) = (1u64, 0usize);
    while let Some(q) = p.checked_mul(r) {
        p = q;
        k += 1;
    }
    let mut out = Vec::new();
    while !x.is_empty() {
        let mut rem: u128 = 0;
        for i in (0..x.len()).rev() {
            let cur = (rem << 64) | x[i] as u128;
            x[i] = (cur / p as u128) as u64;
            rem = cur % p as u128;
        }
        x = trim(x);
        let mut d = rem as u64;
        for _ in 0..k {
            out.push(digit_char(d % r));
            d /= r;
        }
    }
    while out.len() > 1 && out.last() == Some(&b'0') {
        out.pop();
    }
    out.reverse();
    out
}

/// radix^j as a trimmed word vector
fn vpow(radix: u32, j: usize) -> Vec<u64> {
    let mut acc = vec![1u64];
    let mut base = vec![radix as u64];
    let mut e = j;
    while e > 0 {
        if e & 1 == 1 {
            acc = trim(vmul(&acc, &base));
        }
        e >>= 1;
        if e > 0 {
            base = trim(vmul(&base, &base));
        }
    }
    acc
}

/// largest j with radix^j < 2^(64 nl)
fn jmax(radix: u32, nl: usize) -> usize {
    let b = 64.0 * nl as f64;
    let mut j = (b / (radix as f64).log2()).floor() as usize;
    while j > 0 && !fits(&vpow(radix, j), nl) {
        j -= 1;
    }
    while fits(&vpow(radix, j + 1), nl) {
        j += 1;
    }
    j
}

/// digits of one limb batch of the decoder / encoder: ilog_radix(2^64 - 1)
fn digits_limb(radix: u32) -> usize {
    u64::MAX.ilog(radix as u64) as usize
}

/// the values the quantifier names, all fitting nl limbs (returned trimmed): `fixed` always-first ones and the rest
fn special_values(r: &mut Rng, radix: u32, nl: usize, nstruct: usize) -> (Vec<Vec<u64>>, Vec<Vec<u64>>) {
    let first = vec![vec![], vec![1], vec![MAX; nl]];
    let mut rest: Vec<Vec<u64>> = vec![vec![radix as u64 - 1], vec![radix as u64], trim(vpow2(64 * nl - 1))];
    if nl > 1 {
        rest.push(vec![MAX]);
        rest.push(vec![0, 1]);
    }
    let jm = jmax(radix, nl);
    let dl = digits_limb(radix);
    let j32 = jmax(radix, 32);
    let mut js = vec![1, 2, dl.saturating_sub(1), dl, dl + 1, 2 * dl - 1, 2 * dl, 2 * dl + 1, 3 * dl, jm, jm.saturating_sub(1), r.range(1, jm.max(1)), r.range(1, jm.max(1))];
    if nl > 32 {
        js.extend([j32, j32 + 1, j32 - 1, 2 * j32, 2 * j32 + 1, 3 * j32, 4 * j32, j32 + dl]);
    }
    js.sort();
    js.dedup();
    for j in js {
        if j >= 1 && j <= jm {
            let p = vpow(radix, j);
            rest.push(trim(vsub(&p, &[1])));
            rest.push(p);
        }
    }
    for _ in 0..nstruct {
        rest.push(trim(nat(r, nl)));
    }
    (first, rest)
}

/// pick `n` of the items (all when n >= len), order preserved
fn sample<T: Clone>(r: &mut Rng, items: &[T], n: usize) -> Vec<T> {
    if n >= items.len() {
        return items.to_vec();
    }
    let mut idx: Vec<usize> = (0..items.len()).collect();
    for i in 0..n {
        let j = i + r.below(items.len() - i);
        idx.swap(i, j);
    }
    let mut pick = idx[..n].to_vec();
    pick.sort();
    pick.into_iter().map(|i| items[i].clone()).collect()
}

// ---------------------------------------------------------------------------------------------
// string builders

fn cat(parts: &[&[u8]]) -> Vec<u8> {
    parts.concat()
}

/// interior underscores only, never doubled
fn underscored(r: &mut Rng, c: &[u8]) -> Vec<u8> {
    let mut out = Vec::with_capacity(c.len() * 2);
    let every = r.pick(&[0usize, 0, 1, 3, 4, 8]);
    for (i, ch) in c.iter().enumerate() {
        if i > 0 {
            let from_right = c.len() - i;
            let put = if every == 0 { r.chance(1, 5) } else { from_right % every == 0 };
            if put {
                out.push(b'_');
            }
        }
        out.push(*ch);
    }
    out
}

fn mixed_case(r: &mut Rng, c: &[u8], all: bool) -> Vec<u8> {
    c.iter().map(|ch| if all || r.coin() { ch.to_ascii_uppercase() } else { *ch }).collect()
}

/// a conforming decoration of a canonical numeral: optional '+', leading zeros, interior underscores, either case
fn decorate(r: &mut Rng, c: &[u8], radix: u32) -> Vec<u8> {
    let dl = digits_limb(radix);
    let mut body = c.to_vec();
    let style = r.below(8);
    if style & 1 == 1 || style == 6 {
        let all = r.coin();
        body = mixed_case(r, &body, all);
    }
    let nz = match r.below(6) {
        0 | 1 => 0,
        2 => 1,
        3 => r.range(1, 3),
        4 => dl - (c.len() % dl), // fills the first batch exactly
        _ => r.range(dl, 2 * dl + 2),
    };
    let mut s = vec![b'0'; nz];
    s.extend_from_slice(&body);
    if style & 2 == 2 || style == 5 {
        s = underscored(r, &s);
    }
    if r.chance(1, 3) {
        s.insert(0, b'+');
    }
    s
}

/// strings that are not numerals (or are borderline), built around a canonical numeral `c` and a long
/// overflowing digit string `big`
fn malformed(r: &mut Rng, c: &[u8], big: &[u8], radix: u32) -> Vec<Vec<u8>> {
    let mut v: Vec<Vec<u8>> = vec![
        vec![],
        b"+".to_vec(),
        b"_".to_vec(),
        b"+_".to_vec(),
        b"__".to_vec(),
        b"++".to_vec(),
        b"-".to_vec(),
        b" ".to_vec(),
        b"_0".to_vec(),
        b"0_".to_vec(),
        b"0__0".to_vec(),
        b"+0".to_vec(),
        b"00".to_vec(),
        b"0_0".to_vec(),
        b"+00_0".to_vec(),
        cat(&[b"_", c]),
        cat(&[c, b"_"]),
        cat(&[b"+_", c]),
        cat(&[b"_+", c]),
        cat(&[b"++", c]),
        cat(&[b"-", c]),
        cat(&[b"+-", c]),
        cat(&[b" ", c]),
        cat(&[c, b" "]),
        cat(&[c, b"\n"]),
        cat(&[c, b"+"]),
        cat(&[b"0x", c]),
        cat(&[c, b".0"]),
        cat(&[c, "\u{e9}".as_bytes()]),
        cat(&[c, b"\0"]),
        cat(&[b"\0", c]),
        cat(&[c, "\u{ff11}".as_bytes()]), // full-width digit one
        cat(&[c, b"__", c]),
        cat(&[c, b"_", c, b"__", c]),
        cat(&[b"0__", c]),
        cat(&[b"+0_0__0_", c]),
        cat(&[c, b"+", c]),
    ];
    // a digit >= radix, and the neighbours of the three ASCII ranges, at the front / middle / end
    let mut bad: Vec<u8> = vec![b'/', b':', b'@', b'[', b'`', b'{', b'~', 0x7f];
    if radix < 36 {
        bad.push(digit_char(radix as u64));
        bad.push(digit_char(radix as u64).to_ascii_uppercase());
        bad.push(b'z');
        bad.push(b'Z');
        if radix < 35 {
            bad.push(digit_char(r.range(radix as usize, 35) as u64));
        }
    }
    for b in bad {
        let pos = r.below(c.len() + 1);
        let mut s = c.to_vec();
        if r.chance(1, 3) && pos < s.len() { s[pos] = b } else { s.insert(pos, b) }
        v.push(s);
    }
    let b1 = r.pick(&[b'?', b'z' + 1, b'-', b' ']);
    v.push(cat(&[&[b1], big]));
    v.push(cat(&[big, &[b1]]));
    let mid = big.len() / 2;
    v.push(cat(&[&big[..mid], &[b1], &big[mid..]]));
    v.push(cat(&[big, b"_"]));
    v.push(cat(&[b"_", big]));
    v
}

/// a random string over the alphabet [0-9a-zA-Z_+], biased towards valid digits of the radix
fn random_alpha(r: &mut Rng, radix: u32, maxlen: usize) -> Vec<u8> {
    let len = if r.chance(2, 3) { r.range(maxlen.saturating_sub(3).max(1), maxlen + 2) } else { r.range(1, maxlen + 2) };
    let mut s = Vec::with_capacity(len + 1);
    if r.chance(1, 6) {
        s.push(b'+');
    }
    for i in 0..len {
        let ch = match r.below(100) {
            0..=79 => {
                let d = digit_char(r.below(radix as usize) as u64);
                if r.chance(1, 4) { d.to_ascii_uppercase() } else { d }
            }
            80..=86 => b'_',
            87..=88 => b'+',
            89..=93 if i == 0 => b'0',
            _ => r.pick(ALPHA),
        };
        s.push(ch);
    }
    s
}

fn random_bytes(r: &mut Rng) -> String {
    let len = r.below(13);
    let b: Vec<u8> = (0..len).map(|_| if r.chance(1, 3) { r.pick(b"0123456789_+azAZ") } else { r.next() as u8 }).collect();
    String::from_utf8_lossy(&b).into_owned()
}

fn st(b: &[u8]) -> String {
    String::from_utf8_lossy(b).into_owned()
}

// ---------------------------------------------------------------------------------------------
// events

fn ev_parse(op: &str, form: &str, radix: u32, tk: &str, bits: usize, s: &str) -> Ev {
    Ev::new(op, form).i("radix", radix as i64).s("tk", tk).i("bits", bits as i64).b("s", s.as_bytes())
}

fn fmt_fixed<const N: usize>(cx: &mut Cx, radix: u32, v: &[u64]) {
    let x = u::<N>(v);
    cx.call(Ev::new("fmt", "uint.to_string_radix_vartime").i("radix", radix as i64).i("bits", 64 * N as i64).n("x", v), || {
        O::ok().b("str", x.to_string_radix_vartime(radix).as_bytes())
    });
}

fn fmt_boxed(cx: &mut Cx, radix: u32, nl: usize, v: &[u64]) {
    let x = bx(&fit(v.to_vec(), nl));
    cx.call(Ev::new("fmt", "boxed.to_string_radix_vartime").i("radix", radix as i64).i("bits", 64 * nl as i64).n("x", v), || {
        O::ok().b("str", x.to_string_radix_vartime(radix).as_bytes())
    });
}

fn parse_fixed<const N: usize>(cx: &mut Cx, radix: u32, s: &str, also_trait: bool) {
    cx.call(ev_parse("parse", "uint.from_str_radix_vartime", radix, "fixed", 64 * N, s), || match Uint::<N>::from_str_radix_vartime(s, radix) {
        Ok(v) => O::ok().n("v", &w(&v)),
        Err(e) => O::err(code(e)),
    });
    if also_trait {
        cx.call(ev_parse("parse", "uint.Num.from_str_radix", radix, "fixed", 64 * N, s), || match <Uint<N> as num_traits::Num>::from_str_radix(s, radix) {
            Ok(v) => O::ok().n("v", &w(&v)),
            Err(e) => O::err(code(e)),
        });
    }
}

fn parsefmt_fixed<const N: usize>(cx: &mut Cx, radix: u32, r2: u32, s: &str) {
    cx.call(ev_parse("parsefmt", "uint.from_str_radix_vartime+to_string_radix_vartime", radix, "fixed", 64 * N, s).i("r2", r2 as i64), || match Uint::<N>::from_str_radix_vartime(s, radix) {
        Ok(v) => O::ok().b("str", v.to_string_radix_vartime(r2).as_bytes()),
        Err(e) => O::err(code(e)),
    });
}

fn parse_unb(cx: &mut Cx, radix: u32, s: &str) {
    cx.call(ev_parse("parse", "boxed.from_str_radix_vartime", radix, "unb", 0, s), || match BoxedUint::from_str_radix_vartime(s, radix) {
        Ok(v) => O::ok().n("v", &wb(&v)),
        Err(e) => O::err(code(e)),
    });
}

fn parse_prec(cx: &mut Cx, radix: u32, prec: u32, s: &str) {
    cx.call(ev_parse("parse", "boxed.from_str_radix_with_precision_vartime", radix, "prec", prec as usize, s), || match BoxedUint::from_str_radix_with_precision_vartime(s, radix, prec) {
        Ok(v) => O::ok().n("v", &wb(&v)).i("vp", v.bits_precision() as i64),
        Err(e) => O::err(code(e)),
    });
}

fn parsefmt_unb(cx: &mut Cx, radix: u32, r2: u32, s: &str) {
    cx.call(ev_parse("parsefmt", "boxed.from_str_radix_vartime+to_string_radix_vartime", radix, "unb", 0, s).i("r2", r2 as i64), || match BoxedUint::from_str_radix_vartime(s, radix) {
        Ok(v) => O::ok().b("str", v.to_string_radix_vartime(r2).as_bytes()),
        Err(e) => O::err(code(e)),
    });
}

fn parsefmt_prec(cx: &mut Cx, radix: u32, r2: u32, prec: u32, s: &str) {
    cx.call(ev_parse("parsefmt", "boxed.from_str_radix_with_precision_vartime+to_string_radix_vartime", radix, "prec", prec as usize, s).i("r2", r2 as i64), || match BoxedUint::from_str_radix_with_precision_vartime(s, radix, prec) {
        Ok(v) => O::ok().b("str", v.to_string_radix_vartime(r2).as_bytes()),
        Err(e) => O::err(code(e)),
    });
}

/// numerals of values that do not fit 64*nl bits (and the last ones that do)
fn boundary_numerals(r: &mut Rng, radix: u32, nl: usize) -> Vec<Vec<u8>> {
    let b = 64 * nl;
    let p = trim(vpow2(b)); // 2^BITS exactly
    let max = vec![MAX; nl];
    let jm = jmax(radix, nl);
    let mut vals = vec![
        p.clone(),
        trim(vadd(&p, &[1])),
        trim(vadd(&p, &vpow(radix, r.range(1, jm.max(1))))),
        trim(vsub(&vpow2(b + 1), &[1])),
        trim(vpow2(b + 63)),
        trim(vpow2(b + 64)),
        trim(vpow2(b + 64 + r.below(130))),
        vpow(radix, jm + 1),
        trim(vsub(&vpow(radix, jm + 1), &[1])),
        vpow(radix, jm + 2),
        vpow(radix, jm + digits_limb(radix)),
        trim(vmul(&max, &[radix as u64])),
        trim(vadd(&vmul(&max, &[radix as u64]), &[radix as u64 - 1])),
        trim(vadd(&p, &nat(r, nl))),
    ];
    vals.push(trim(vsub(&p, &[2])));
    let mut out: Vec<Vec<u8>> = vals.iter().map(|v| to_radix(v, radix)).collect();
    // the maximum with one more leading digit
    out.push(cat(&[b"1", &to_radix(&max, radix)]));
    out
}

struct Budget {
    vals: usize,   // special values formatted (beyond the three fixed ones)
    decor: usize,  // decorated numerals parsed
    over: usize,   // boundary numerals (canonical) parsed; the same number again decorated
    mal: bool,     // malformed family
    rand: usize,   // random alphabet strings
    bytes: usize,  // arbitrary byte strings
    rt: usize,     // parse -> format round trips
}

fn fixed<const N: usize>(cx: &mut Cx, radix: u32, bu: &Budget) {
    // thorough tier: full multiplier for the small widths, a capped one for the long numerals
    let s = if N >= 16 { cx.scale.min(4) } else { cx.scale };
    let (first, rest) = special_values(&mut cx.rng, radix, N, 3 * s);
    let mut vals = first;
    vals.extend(sample(&mut cx.rng, &rest, bu.vals * s));
    let max_c = to_radix(&[MAX; N], radix);
    // format, and parse the canonical numeral back
    for (i, v) in vals.iter().enumerate() {
        fmt_fixed::<N>(cx, radix, v);
        let c = to_radix(v, radix);
        parse_fixed::<N>(cx, radix, &st(&c), i % 3 == 0);
    }
    // conforming decorations ('+', leading zeros, underscores, case), the maximum always among them
    for i in 0..bu.decor * s {
        let v = if i < 3 { vec![MAX; N] } else { cx.rng.pick(&vals) };
        let d = decorate(&mut cx.rng, &to_radix(&v, radix), radix);
        parse_fixed::<N>(cx, radix, &st(&d), i % 4 == 0);
    }
    // overflow boundary
    let bn = boundary_numerals(&mut cx.rng, radix, N);
    let bn = if bu.over >= bn.len() { bn } else { let mut t = bn[..2].to_vec(); t.extend(sample(&mut cx.rng, &bn[2..], bu.over.saturating_sub(2))); t };
    for (i, c) in bn.iter().enumerate() {
        parse_fixed::<N>(cx, radix, &st(c), i % 4 == 1);
        let d = decorate(&mut cx.rng, c, radix);
        parse_fixed::<N>(cx, radix, &st(&d), false);
    }
    if bu.mal {
        let v = cx.rng.pick(&vals);
        let c = if cx.rng.coin() { to_radix(&v, radix) } else { max_c.clone() };
        let big = cat(&[&max_c, &max_c, b"0"]);
        for (i, m) in malformed(&mut cx.rng, &c, &big, radix).iter().enumerate() {
            parse_fixed::<N>(cx, radix, &st(m), i % 5 == 0);
        }
    }
    for i in 0..bu.rand * s {
        let m = random_alpha(&mut cx.rng, radix, max_c.len());
        parse_fixed::<N>(cx, radix, &st(&m), i % 4 == 0);
    }
    for _ in 0..bu.bytes * s {
        let m = random_bytes(&mut cx.rng);
        parse_fixed::<N>(cx, radix, &m, false);
    }
    for i in 0..bu.rt * s {
        let v = if i == 0 { vec![] } else { cx.rng.pick(&vals) };
        let d = if i % 2 == 0 { to_radix(&v, radix) } else { decorate(&mut cx.rng, &to_radix(&v, radix), radix) };
        let r2 = if i % 3 == 2 { cx.rng.range(2, 36) as u32 } else { radix };
        parsefmt_fixed::<N>(cx, radix, r2, &st(&d));
    }
}

fn boxed(cx: &mut Cx, radix: u32, nl: usize, bu: &Budget) {
    let s = if nl >= 16 { cx.scale.min(4) } else { cx.scale };
    let (first, rest) = special_values(&mut cx.rng, radix, nl, 2 * s);
    let mut vals = first;
    vals.extend(sample(&mut cx.rng, &rest, bu.vals * s));
    let max_c = to_radix(&vec![MAX; nl], radix);
    for (i, v) in vals.iter().enumerate() {
        fmt_boxed(cx, radix, nl, v);
        let c = st(&to_radix(v, radix));
        if i % 2 == 0 { parse_unb(cx, radix, &c) } else { parse_prec(cx, radix, 64 * nl as u32, &c) }
    }
    for i in 0..bu.decor * s {
        let v = if i < 2 { vec![MAX; nl] } else { cx.rng.pick(&vals) };
        let d = st(&decorate(&mut cx.rng, &to_radix(&v, radix), radix));
        parse_unb(cx, radix, &d);
        parse_prec(cx, radix, 64 * nl as u32, &d);
    }
    // precision boundary: exact-limb precisions and precisions that are not a multiple of 64 (and 0)
    let bn = boundary_numerals(&mut cx.rng, radix, nl);
    let bn = if bu.over >= bn.len() { bn } else { let mut t = bn[..2].to_vec(); t.extend(sample(&mut cx.rng, &bn[2..], bu.over.saturating_sub(2))); t };
    for (i, c) in bn.iter().enumerate() {
        let c2 = if i % 2 == 0 { c.clone() } else { decorate(&mut cx.rng, c, radix) };
        parse_prec(cx, radix, 64 * nl as u32, &st(&c2));
        if i % 3 == 0 {
            parse_unb(cx, radix, &st(&c2));
        }
    }
    for i in 0..bu.over {
        // p bits requested, not a multiple of the limb size: 2^p - 1 fits, 2^p does not (Precision), 2^roundup(p) does not (InputSize)
        let p = match i % 4 { 0 => 64 * nl - 1, 1 => 64 * (nl - 1) + 1, 2 => 64 * (nl - 1) + cx.rng.range(1, 63), _ => cx.rng.range(1, 64 * nl) };
        let cands = [trim(vsub(&vpow2(p), &[1])), trim(vpow2(p)), trim(vpow2(p - 1)), trim(vpow2(64 * p.div_ceil(64))), trim(vsub(&vpow2(64 * p.div_ceil(64)), &[1])), trim(vmask(&nat(&mut cx.rng, nl), p))];
        let v = cx.rng.pick(&cands);
        let c = to_radix(&v, radix);
        let c = if cx.rng.coin() { c } else { decorate(&mut cx.rng, &c, radix) };
        parse_prec(cx, radix, p as u32, &st(&c));
    }
    if bu.mal {
        let v = cx.rng.pick(&vals);
        let c = if cx.rng.coin() { to_radix(&v, radix) } else { max_c.clone() };
        let big = cat(&[&max_c, &max_c, b"0"]);
        for (i, m) in malformed(&mut cx.rng, &c, &big, radix).iter().enumerate() {
            let m = st(m);
            if i % 2 == 0 { parse_unb(cx, radix, &m) } else { parse_prec(cx, radix, 64 * nl as u32, &m) }
            if i % 7 == 0 { parse_prec(cx, radix, 0, &m) }
        }
    }
    for i in 0..bu.rand * s {
        let m = st(&random_alpha(&mut cx.rng, radix, max_c.len()));
        if i % 2 == 0 { parse_unb(cx, radix, &m) } else { parse_prec(cx, radix, 64 * nl as u32, &m) }
    }
    for i in 0..bu.bytes * s {
        let m = random_bytes(&mut cx.rng);
        if i % 2 == 0 { parse_unb(cx, radix, &m) } else { parse_prec(cx, radix, 64 * nl as u32, &m) }
    }
    for i in 0..bu.rt * s {
        let v = if i == 0 && nl == 1 { vec![] } else { cx.rng.pick(&vals) };
        let d = if i % 2 == 0 { to_radix(&v, radix) } else { decorate(&mut cx.rng, &to_radix(&v, radix), radix) };
        let r2 = if i % 3 == 2 { cx.rng.range(2, 36) as u32 } else { radix };
        if i % 3 == 1 { parsefmt_prec(cx, radix, r2, 64 * nl as u32, &st(&d)) } else { parsefmt_unb(cx, radix, r2, &st(&d)) }
    }
}

/// The in-place encoder keeps the running quotient as `hi : limbs[..count]`, where a top quotient limb `t` is moved into
/// `hi` when `t << shift < div_limb` (shift = leading zeros of div_limb = radix^digits_limb). Values that drive the
/// quotient to the largest admissible `hi` followed by a limb >= 2^(64 - shift) make the next top quotient limb reach
/// 2^(64 - shift): x = (hi*2^64 + l) * 2^(64 j) * div_limb^k + r. Formatted as boxed values of exactly that many limbs, as
/// 32- and 40-limb fixed values, and as the 32-limb remainder of a division by the large divisor (more than 32 limbs).
fn hi_limit(cx: &mut Cx, radix: u32) {
    if radix.is_power_of_two() {
        return;
    }
    let dl = digits_limb(radix);
    let d = (radix as u64).pow(dl as u32);
    let ls = d.leading_zeros();
    let hi_max = (d - 1) >> ls;
    let l_min = if ls == 0 { 0u64 } else { (((1u128 + ((d - 1) as u128 % (1u128 << ls))) << 64) >> ls).min(u64::MAX as u128) as u64 };
    // large divisor as radix_large_divisor computes it
    let mut large = vec![d];
    while large.len() < 32 {
        large = trim(vmul(&large, &[d]));
    }
    loop {
        let q = trim(vmul(&large, &[radix as u64]));
        if q.len() > 32 {
            break;
        }
        large = q;
    }
    // quotient limbs exactly equal to div_limb: every power of div_limb up to 32 limbs, at its own limb count and one more
    let mut p = vec![1u64];
    for _ in 1..=40 {
        p = trim(vmul(&p, &[d]));
        if p.len() > 32 { break; }
        for x in [p.clone(), trim(vsub(&p, &[1])), trim(vadd(&p, &[1]))] {
            fmt_boxed(cx, radix, x.len().max(1), &x);
            fmt_boxed(cx, radix, x.len() + 1, &x);
        }
    }
    let mut done = 0;
    for (hi, l) in [(hi_max, l_min), (hi_max, MAX), (hi_max, l_min.wrapping_sub(1)), (hi_max - 1, MAX), (hi_max + 1, l_min), (hi_max, l_min | cx.rng.next() >> 3)] {
        let head = vec![l, hi];
        for k in 1..=31usize {
            // smallest k with head * d^k < 2^(64 (k + 1)), and the next one
            let x0 = trim(vmul(&head, &vpow_u64(d, k)));
            if x0.len() > k + 1 {
                continue;
            }
            done += 1;
            let r = if k > 1 { below(&mut cx.rng, &vpow_u64(d, k)) } else { vec![] };
            let x = trim(vadd(&x0, &r));
            if x.len() <= k + 1 {
                fmt_boxed(cx, radix, k + 1, &x);
            }
            fmt_boxed(cx, radix, k + 1, &x0);
            for j in [1usize, 31usize.saturating_sub(k + 1), 32usize.saturating_sub(k + 1), 39usize.saturating_sub(k + 1)] {
                if j == 0 {
                    continue;
                }
                let xs = vshl(&x0, 64 * j);
                let nl = k + 1 + j;
                if nl == 32 {
                    fmt_fixed::<32>(cx, radix, &xs);
                } else if nl == 40 {
                    fmt_fixed::<40>(cx, radix, &xs);
                } else {
                    fmt_boxed(cx, radix, nl, &xs);
                }
                if nl == 31 {
                    // remainder of the large-divisor phase (top limb of the 32-limb remainder buffer is zero)
                    for q in [vec![1u64], vec![radix as u64 + 1, 5], vpow(radix, 3 * dl + 1)] {
                        let z = trim(vadd(&vmul(&q, &large), &xs));
                        fmt_boxed(cx, radix, z.len().max(33), &z);
                    }
                }
            }
            if done % 2 == 0 {
                break;
            }
        }
    }
}

fn vpow_u64(d: u64, k: usize) -> Vec<u64> {
    let mut acc = vec![1u64];
    for _ in 0..k {
        acc = trim(vmul(&acc, &[d]));
    }
    acc
}

/// radix outside 2..=36: the documented panic
fn bad_radix(cx: &mut Cx) {
    for radix in [0u32, 1, 37, 38, 64, 256, 1000] {
        fmt_fixed::<2>(cx, radix, &[12345, 7]);
        fmt_boxed(cx, radix, 3, &[12345, 7]);
        parse_fixed::<2>(cx, radix, "101", true);
        parse_unb(cx, radix, "101");
        parse_prec(cx, radix, 128, "101");
    }
}

fn main() {
    let mut cx = Cx::from_args("C17");
    let small = Budget { vals: 26, decor: 18, over: 16, mal: true, rand: 10, bytes: 4, rt: 5 };
    let mid = Budget { vals: 14, decor: 8, over: 8, mal: false, rand: 3, bytes: 0, rt: 2 };
    let large = Budget { vals: 6, decor: 3, over: 4, mal: false, rand: 1, bytes: 0, rt: 1 };
    let huge = Budget { vals: 3, decor: 1, over: 2, mal: false, rand: 0, bytes: 0, rt: 1 };
    let bsmall = Budget { vals: 8, decor: 4, over: 6, mal: true, rand: 4, bytes: 2, rt: 4 };
    let bmid = Budget { vals: 3, decor: 1, over: 3, mal: false, rand: 1, bytes: 0, rt: 2 };
    let bbig = Budget { vals: 1, decor: 1, over: 2, mal: false, rand: 0, bytes: 0, rt: 1 };
    if cx.want("badradix") {
        bad_radix(&mut cx);
    }
    for radix in 2..=36u32 {
        if cx.want("fixed") {
            fixed::<1>(&mut cx, radix, &small);
            fixed::<2>(&mut cx, radix, &small);
            fixed::<3>(&mut cx, radix, &small);
            fixed::<4>(&mut cx, radix, &small);
            fixed::<8>(&mut cx, radix, &mid);
            fixed::<16>(&mut cx, radix, &large);
            fixed::<40>(&mut cx, radix, &huge);
        }
        if cx.want("hilimit") {
            hi_limit(&mut cx, radix);
        }
        if cx.want("boxed") {
            for nl in [1usize, 2, 3] {
                boxed(&mut cx, radix, nl, &bsmall);
            }
            for nl in [4usize, 8, 31, 32, 33] {
                boxed(&mut cx, radix, nl, &bmid);
            }
            // every limb count 1..=140 once over the 35 radices, plus the extremes for a few radices
            let k = (radix as usize - 2) * 4;
            let mut nls: Vec<usize> = (1..=4).map(|i| (k + i * 37) % 140 + 1).collect();
            if [2, 3, 7, 10, 16, 32, 36].contains(&radix) {
                nls.extend([64, 65, 128, 129, 140]);
            }
            for nl in nls {
                boxed(&mut cx, radix, nl, if nl <= 40 { &bmid } else { &bbig });
            }
        }
    }
    cx.finish();
}
