SPECIFICATION Spec
CONSTANTS LB = 6
 RB = 4
INVARIANT CheckedOK
INVARIANT WideningOK
INVARIANT SplitOK
INVARIANT UintOK
INVARIANT UintRightOK
INVARIANT WideningUintOK
CHECK_DEADLOCK FALSE
