#!/usr/bin/env python3
"""API coverage accounting: which public functions of the crate do the recorders exercise?

The denominator is the crate's rustdoc JSON (cargo +nightly rustdoc, offline): every function of every
non-synthetic impl block, reduced to distinct (type family, trait-or-inherent, method) triples.  The numerator is
name based: a method counts as exercised when its name occurs as a call (`.name(`, `::name(`, or as an operator the
trait stands for) in a recorder source.  This over-approximates (same name on another type), so the list of
UNexercised names is the reliable output; it is what drives the growth of the recorders.

usage: apicov.py [--rebuild]     -> prints a per-family table and the unexercised methods; writes work/apicov.json
"""
import json, os, re, subprocess, sys
V = os.path.dirname(os.path.dirname(os.path.abspath(__file__)))
sys.path.insert(0, os.path.join(V, "experiments", "phase0", "api_inventory"))
DOC = os.path.join(V, "work", "target-doc", "doc", "crypto_bigint.json")
FAMILIES = ["BoxedMontyForm", "BoxedMontyParams", "ConstMontyForm", "MontyForm", "MontyParams", "BoxedUint", "Uint", "Int", "Limb", "NonZero", "Odd",
            "Checked", "Wrapping", "ConstChoice", "ConstCtOption", "Reciprocal", "SafeGcdInverter", "BoxedSafeGcdInverter", "DecodeError", "RandomBitsError"]
OPERATOR_TRAITS = {"Add": "+", "Sub": "-", "Mul": "*", "Div": "/", "Rem": "%", "Neg": "-", "Not": "!", "BitAnd": "&", "BitOr": "|", "BitXor": "^", "Shl": "<<", "Shr": ">>",
                   "AddAssign": "+=", "SubAssign": "-=", "MulAssign": "*=", "DivAssign": "/=", "RemAssign": "%=", "BitAndAssign": "&=", "BitOrAssign": "|=", "BitXorAssign": "^=",
                   "ShlAssign": "<<=", "ShrAssign": ">>=", "PartialEq": "==", "PartialOrd": "<", "Sum": ".sum", "Product": ".product"}
IGNORE_TRAITS = {"Clone", "Copy", "Debug", "Eq", "StructuralPartialEq", "Zeroize", "DefaultIsZeroes", "Arbitrary", "Display", "LowerHex", "UpperHex", "Binary", "Error"}


def family(t):
    t = re.sub(r"\b(?:crate|super|self)::(?:[a-z_]+::)*", "", t.lstrip("&"))
    t = re.sub(r"^U\d+$", "Uint<N>", t)
    for f in FAMILIES:
        if t == f or t.startswith(f + "<"):
            inner = t[len(f) + 1:-1] if "<" in t else ""
            for g in ("BoxedUint", "Uint", "Int", "Limb"):
                if f in ("NonZero", "Odd", "Checked", "Wrapping") and inner.startswith(g):
                    return "%s<%s>" % (f, g)
            return f
    return None


def main():
    if "--rebuild" in sys.argv or not os.path.exists(DOC):
        subprocess.run("cd /repo && CARGO_TARGET_DIR=%s cargo +nightly rustdoc --offline --features alloc,rand,serde,der,rlp,hybrid-array,zeroize,extra-sizes -- -Z unstable-options --output-format json"
                       % os.path.join(V, "work", "target-doc"), shell=True, check=True, stdout=subprocess.DEVNULL, stderr=subprocess.DEVNULL)
    import extract_api
    tmp = os.path.join(V, "work", "api_fns.json")
    extract_api.main(DOC, tmp)
    fns = json.load(open(tmp))
    src = ""
    for d in ("harness/src", "harness/src/bin", "leak/src"):
        for fn in sorted(os.listdir(os.path.join(V, d))):
            if fn.endswith(".rs"):
                src += open(os.path.join(V, d, fn)).read()
    triples = {}
    for f in fns:
        fam = family(f["self"])
        if not fam:
            continue
        tr = f["trait"].split("::")[-1] if f["trait"] else None
        if tr in IGNORE_TRAITS:
            continue
        triples.setdefault((fam, tr, f["name"]), f)
    rows, missing = {}, []
    for (fam, tr, name), f in sorted(triples.items(), key=lambda kv: (kv[0][0], kv[0][1] or "", kv[0][2])):
        # a call, or the name handed to one of the recorders' form macros (`fixed_bitwise!(.., wrapping_and, ..)`)
        called = re.search(r"(\.|::)%s\s*(::<[^>]*>)?\(" % re.escape(name), src) is not None or (len(name) > 3 and re.search(r"[,;(]\s*%s\s*[,;)]" % re.escape(name), src) is not None)
        if not called and tr in OPERATOR_TRAITS:
            called = OPERATOR_TRAITS[tr] in src          # operators are exercised per type in c04/c03/c05/c13/c15; name-level only
        if not called and tr in ("From", "TryFrom", "Into"):
            called = ".into()" in src or "::from(" in src or "try_from(" in src
        if not called and tr in ("Default",):
            called = "::default()" in src
        if not called and tr in ("Hash", "Ord", "ConstantTimeEq", "ConditionallySelectable", "ConstantTimeGreater", "ConstantTimeLess", "Serialize", "Deserialize",
                                 "Encodable", "Decodable", "EncodeValue", "DecodeValue", "FixedTag", "AsRef", "AsMut", "Distribution", "Random", "Iterator", "FromStr"):
            called = re.search(r"\b%s\b" % re.escape(name), src) is not None or tr in src
        r = rows.setdefault(fam, [0, 0])
        r[1] += 1
        if called:
            r[0] += 1
        else:
            missing.append(dict(family=fam, trait=tr, name=name, file=f["file"]))
    tot = [sum(r[0] for r in rows.values()), sum(r[1] for r in rows.values())]
    print("%-22s %s" % ("type family", "exercised / public (type family, trait, method) triples"))
    for fam, r in sorted(rows.items()):
        print("%-22s %d / %d" % (fam, r[0], r[1]))
    print("%-22s %d / %d" % ("TOTAL", tot[0], tot[1]))
    for m in missing:
        print("UNEXERCISED %-18s %-22s %-28s %s" % (m["family"], m["trait"] or "(inherent)", m["name"], m["file"]))
    json.dump(dict(total=tot, per_family=rows, unexercised=missing), open(os.path.join(V, "work", "apicov.json"), "w"), indent=1)


if __name__ == "__main__":
    main()
