------------------------------- MODULE KnuthD -------------------------------
(***************************************************************************)
(* Transcription of the crate's division algorithms with the word size W   *)
(* as a constant: the same operators are model-checked exhaustively at     *)
(* W in {2,3,4} (KnuthD_MC) and evaluated at W = 64 on recorded inputs     *)
(* (ApiTrace path labels).  Words are BigNat values < 2^W; multi-word      *)
(* numbers are sequences of words, least significant first.                *)
(*                                                                         *)
(* Code mirrored (pinned tree):                                            *)
(*   src/uint/div_limb.rs  reciprocal (by its specification), div2by1,     *)
(*                         div3by2, div_rem_limb_with_reciprocal           *)
(*   src/uint/div.rs       div_rem (constant-time, 43-139),                *)
(*                         div_rem_vartime (195-301),                      *)
(*                         rem_wide_vartime (322-417)                      *)
(*   src/uint/div_limb.rs  rem_limb_with_reciprocal_wide (305-327)         *)
(* Every operator returns the result and a path record (branch outcomes).  *)
(***************************************************************************)
EXTENDS BigNat, Sequences
CONSTANT W                                   \* bits per word

Pow2W == Pow2(W)
MAXW  == Sub(Pow2W, One)
Lo(x) == Mod2k(x, W)
Hi(x) == Shr(x, W)

RECURSIVE ValR(_, _)
ValR(x, i) == IF i = 0 THEN Zero ELSE Add(Shl(x[i], W * (i - 1)), ValR(x, i - 1))
Val(x) == ValR(x, Len(x))                                   \* value of a word sequence
Words(v, n) == [i \in 1..n |-> Lo(Shr(v, W * (i - 1)))]      \* n low words of a value

(* primitives.rs *)
Mac(a, b, c, carry) == LET r == Add(Add(a, Mul(b, c)), carry) IN <<Lo(r), Hi(r)>>
Adc(a, b, c)        == LET r == Add(Add(a, b), c) IN <<Lo(r), Hi(r)>>
\* borrow is Zero or MAXW (all-ones mask encoding); only its top bit is consumed
Sbb(a, b, borrow) ==
  LET sub == Add(b, IF borrow = Zero THEN Zero ELSE One)
  IN IF Lt(a, sub) THEN <<Sub(Add(a, Pow2W), sub), MAXW>> ELSE <<Sub(a, sub), Zero>>
WSub(a, b)   == Lo(Sub(Add(a, Pow2W), b))                   \* wrapping_sub
WAdd(a, b)   == Lo(Add(a, b))                               \* wrapping_add
SatDec(a)    == IF a = Zero THEN Zero ELSE Sub(a, One)       \* saturating_sub(1)

(* div_limb.rs: reciprocal(d) = floor((B^2 - 1) / d) - B for normalised d.  *)
(* (The concrete Newton constants of the 64-bit routine are exercised only  *)
(* through recorded calls; here the reciprocal is its specification.)       *)
Recip(d) == Sub(Div(Sub(Pow2(2 * W), One), d), Pow2W)

(* div2by1 (div_limb.rs:122-146): requires d normalised and u1 < d.         *)
Div2by1(u1, u0, d, v) ==
  LET q10 == Add(Mul(v, u1), Add(Shl(u1, W), u0))           \* mulhilo(v,u1) + (u1,u0)
      q1a == Lo(Add(Hi(q10), One))
      q0  == Lo(q10)
      r0  == WSub(u0, Lo(Mul(q1a, d)))
      gt  == Lt(q0, r0)                                     \* r > q0 : first correction
      q1b == IF gt THEN WSub(q1a, One) ELSE q1a
      r1  == IF gt THEN WAdd(r0, d) ELSE r0
      ge  == Le(d, r1)                                      \* second correction
  IN [q |-> IF ge THEN WAdd(q1b, One) ELSE q1b,
      r |-> IF ge THEN Sub(r1, d) ELSE r1,
      pre |-> Lt(u1, d),                                    \* the code's debug_assert!(d >= 2^(W-1) && u1 < d)
      path |-> <<gt, ge>>]

(* div3by2 (div_limb.rs:154-187): quotient estimate from three dividend     *)
(* words and two divisor words; exactly two correction rounds.              *)
Div3by2(u2, u1, u0, v1, v0, rv) ==
  LET qm   == (u2 = v1)                                     \* q_maxed
      d21  == Div2by1(IF qm THEN Zero ELSE u2, u1, v1, rv)
      quo0 == IF qm THEN MAXW ELSE d21.q
      rem0 == IF qm THEN Add(u2, u1) ELSE d21.r             \* may exceed a word (kept wide)
      Step(qr) == LET done == (Hi(qr[2]) # Zero) \/ Le(Mul(qr[1], v0), Add(Shl(qr[2], W), u0))
                  IN IF done THEN qr ELSE <<WSub(qr[1], One), Add(qr[2], v1), qr[3] + 1>>
      r2   == Step(Step(<<quo0, rem0, 0>>))
  IN [q |-> r2[1], qmaxed |-> qm, corr |-> r2[3], pre |-> d21.pre]

(* shl_limb: shift a word sequence left by 0 <= s < W, returning carry      *)
ShlLimbs(x, s) == [i \in 1..Len(x) |-> Add(Lo(Shl(x[i], s)), IF i > 1 THEN Shr(x[i - 1], W - s) ELSE Zero)]
ShlCarry(x, s) == IF s = 0 THEN Zero ELSE Shr(x[Len(x)], W - s)

(* div_rem_limb_with_reciprocal (div_limb.rs:267-285)                       *)
RECURSIVE LimbLoop(_, _, _, _, _, _, _)
LimbLoop(u, j, r, dn, rv, q, c) ==                             \* c = <<steps with the first, with the second correction>>
  IF j = 0 THEN <<q, r, c>>
  ELSE LET s == Div2by1(r, u[j], dn, rv)
       IN LimbLoop(u, j - 1, s.r, dn, rv, [q EXCEPT ![j] = s.q],
                   <<c[1] + (IF s.path[1] THEN 1 ELSE 0), c[2] + (IF s.path[2] THEN 1 ELSE 0)>>)
DivRemLimb(n, d) ==                                           \* n word sequence, d non-zero word
  LET shift == W - BitLen(d)
      dn    == Shl(d, shift)
      rv    == Recip(dn)
      us    == ShlLimbs(n, shift)
      lp    == LimbLoop(us, Len(n), ShlCarry(n, shift), dn, rv, [i \in 1..Len(n) |-> Zero], <<0, 0>>)
  IN [q |-> Val(lp[1]), r |-> Shr(lp[2], shift), corr |-> lp[3]]

--------------------------------------------------------------------------
(* div_rem_vartime (div.rs:195-301): dividend n of ll words, divisor whose  *)
(* yc low words are significant (d[yc] # 0, yc >= 2).                       *)

RECURSIVE SubMul(_, _, _, _, _, _, _)
SubMul(x, y, quo, xi, yc, i, cb) ==                          \* mac + sbb chain over the divisor words
  IF i >= yc THEN <<x, cb[1], cb[2]>>
  ELSE LET m == Mac(Zero, y[i + 1], quo, cb[1])
           k == xi + i + 1 - yc + 1
           s == Sbb(x[k], m[1], cb[2])
       IN SubMul([x EXCEPT ![k] = s[1]], y, quo, xi, yc, i + 1, <<m[2], s[2]>>)

RECURSIVE AddBack(_, _, _, _, _, _, _)
AddBack(x, y, on, xi, yc, i, carry) ==                       \* masked adc chain
  IF i >= yc THEN x
  ELSE LET k == xi + i + 1 - yc + 1
           a == Adc(x[k], IF on THEN y[i + 1] ELSE Zero, carry)
       IN AddBack([x EXCEPT ![k] = a[1]], y, on, xi, yc, i + 1, a[2])

RECURSIVE VLoop(_, _, _, _, _, _, _)
VLoop(x, xhi, y, rv, xi, yc, path) ==                        \* one quotient digit per call
  LET d3   == Div3by2(xhi, x[xi + 1], x[xi], y[yc], y[yc - 1], rv)
      sm   == SubMul(x, y, d3.q, xi, yc, 0, <<Zero, Zero>>)
      ab   == Sbb(xhi, sm[2], sm[3])[2] # Zero               \* final borrow: add-back needed
      x2   == AddBack(sm[1], y, ab, xi, yc, 0, Zero)
      quo2 == IF ab THEN WSub(d3.q, One) ELSE d3.q           \* vartime code: wrapping_sub
      xhi2 == x2[xi + 1]
      x3   == [x2 EXCEPT ![xi + 1] = quo2]
      toponly == ab /\ sm[3] = Zero                          \* add-back although the low limbs did not borrow: visible in x_hi - carry alone
      p2   == Append(path, <<d3.qmaxed, d3.corr, ab, d3.pre, toponly>>)
  IN IF xi = yc - 1 THEN <<x3, xhi2, p2>> ELSE VLoop(x3, xhi2, y, rv, xi - 1, yc, p2)

DivRemVartime(n, d, ll, yc) ==
  IF yc = 1 THEN LET o == DivRemLimb(n, d[1]) IN [q |-> o.q, r |-> o.r, path |-> <<>>]
  ELSE IF yc > ll THEN [q |-> Zero, r |-> Val(n), path |-> <<>>]
  ELSE
  LET shift == W - BitLen(d[yc])
      x     == ShlLimbs(n, shift)
      xhi   == ShlCarry(n, shift)
      y     == ShlLimbs(SubSeq(d, 1, yc), shift)
      rv    == Recip(y[yc])
      lp    == VLoop(x, xhi, y, rv, ll - 1, yc, <<>>)
      xs    == lp[1]
      remsh == [i \in 1..yc |-> IF i < yc THEN xs[i] ELSE lp[2]]
      q     == [i \in 1..ll |-> IF i - 1 <= ll - yc THEN xs[i + yc - 1] ELSE Zero]
  IN [q |-> Val(q), r |-> Shr(Val(remsh), shift), path |-> lp[3]]

--------------------------------------------------------------------------
(* rem_wide_vartime (div.rs:322-417): remainder of the double-width dividend *)
(* (lo, hi), each of ll words, by a divisor of yc significant words.  The     *)
(* algorithm of div_rem_vartime runs on a window held in x (initially the     *)
(* high half): after each quotient digit the window is moved one word up and  *)
(* the next word of the shifted low half is fed in at the bottom (`extra`     *)
(* words remain), then xi walks down as in div_rem_vartime.  Single-word      *)
(* divisors go through rem_limb_with_reciprocal_wide (div_limb.rs:305-327):   *)
(* the div2by1 chain over the high, then the low half.                        *)

RECURSIVE RWLoop(_, _, _, _, _, _, _, _, _)
RWLoop(x, xhi, xlo, y, rv, xi, yc, extra, path) ==           \* xi 0-based as in the code; x, xlo, y 1-based sequences
  LET ll   == Len(x)
      d3   == Div3by2(xhi, x[xi + 1], x[xi], y[yc], y[yc - 1], rv)
      sm   == SubMul(x, y, d3.q, xi, yc, 0, <<Zero, Zero>>)
      ab   == Sbb(xhi, sm[2], sm[3])[2] # Zero
      x2   == AddBack(sm[1], y, ab, xi, yc, 0, Zero)
      xhi2 == x2[xi + 1]
      p2   == Append(path, <<d3.qmaxed, d3.corr, ab, d3.pre, FALSE>>)
  IN IF extra > 0
     THEN RWLoop([i \in 1..ll |-> IF i = 1 THEN xlo[extra] ELSE x2[i - 1]], xhi2, xlo, y, rv, xi, yc, extra - 1, p2)   \* x[0] = x_lo.limbs[extra - 1]
     ELSE IF xi = yc - 1 THEN <<x2, p2>>
     ELSE RWLoop([x2 EXCEPT ![xi + 1] = Zero], xhi2, xlo, y, rv, xi - 1, yc, 0, p2)

RemWideVartime(lo, hi, d, ll) ==                             \* lo, hi, d sequences of ll words, Val(d) # 0, ll >= 2
  LET dbits == BitLen(Val(d))
      yc    == (dbits + W - 1) \div W
  IN IF yc = 1
     THEN LET shift == W - BitLen(d[1])
              dn    == Shl(d[1], shift)
              rv    == Recip(dn)
              los   == ShlLimbs(lo, shift)
              his0  == ShlLimbs(hi, shift)
              his   == [his0 EXCEPT ![1] = Add(his0[1], ShlCarry(lo, shift))]
              l1    == LimbLoop(his, ll, ShlCarry(hi, shift), dn, rv, [i \in 1..ll |-> Zero], <<0, 0>>)
              l2    == LimbLoop(los, ll, l1[2], dn, rv, [i \in 1..ll |-> Zero], <<0, 0>>)
          IN [r |-> Shr(l2[2], shift), path |-> <<>>]
     ELSE LET shift == (W - (dbits % W)) % W
              y     == ShlLimbs(SubSeq(d, 1, yc), shift)
              xlo   == ShlLimbs(lo, shift)
              x0    == ShlLimbs(hi, shift)
              x     == [x0 EXCEPT ![1] = Add(x0[1], ShlCarry(lo, shift))]
              rv    == Recip(y[yc])
              lp    == RWLoop(x, ShlCarry(hi, shift), xlo, y, rv, ll - 1, yc, ll, <<>>)
          IN [r |-> Shr(Val(SubSeq(lp[1], 1, yc)), shift), path |-> lp[2]]

--------------------------------------------------------------------------
(* div_rem, constant-time (div.rs:43-139): fixed trip count, `done` mask,   *)
(* masked add-back, saturating decrement, single-limb tail.                 *)

RECURSIVE CtSubMul(_, _, _, _, _, _, _)
CtSubMul(x, y, quo, xi, L, i, cb) ==                         \* i = 0..xi (0-based as in the code)
  IF i > xi THEN <<x, cb[1], cb[2]>>
  ELSE LET m == Mac(Zero, y[L - xi + i], quo, cb[1])         \* y[LIMBS - xi + i - 1], 1-based here
           s == Sbb(x[i + 1], m[1], cb[2])
       IN CtSubMul([x EXCEPT ![i + 1] = s[1]], y, quo, xi, L, i + 1, <<m[2], s[2]>>)

RECURSIVE CtAddBack(_, _, _, _, _, _, _)
CtAddBack(x, y, on, xi, L, i, carry) ==
  IF i > xi THEN x
  ELSE LET a == Adc(x[i + 1], IF on THEN y[L - xi + i] ELSE Zero, carry)
       IN CtAddBack([x EXCEPT ![i + 1] = a[1]], y, on, xi, L, i + 1, a[2])

RECURSIVE CtLoop(_, _, _, _, _, _, _, _, _)
CtLoop(x, xhi, xlo, y, rv, xi, L, dwords, path) ==           \* xi = L-1 down to 1 (0-based)
  IF xi = 0 THEN <<x, xhi, xlo, path>>
  ELSE
  LET d3   == Div3by2(xhi, xlo, x[xi], y[L], y[L - 1], rv)   \* x[xi-1] 0-based = x[xi] 1-based
      done == xi < dwords - 1
      quo  == IF done THEN Zero ELSE d3.q
      sm   == CtSubMul(x, y, quo, xi, L, 0, <<Zero, Zero>>)
      ab   == Sbb(xhi, sm[2], sm[3])[2] # Zero
      x2   == CtAddBack(sm[1], y, ab, xi, L, 0, Zero)
      quo2 == IF ab THEN SatDec(quo) ELSE quo                \* ct code: saturating_sub(1)
      xhi2 == IF done THEN xhi ELSE x2[xi + 1]
      x3   == IF done THEN x2 ELSE [x2 EXCEPT ![xi + 1] = quo2]
      xlo2 == IF done THEN xlo ELSE x3[xi]
      p2   == Append(path, <<d3.qmaxed, d3.corr, ab, d3.pre, done>>)
  IN CtLoop(x3, xhi2, xlo2, y, rv, xi - 1, L, dwords, p2)

DivRemCT(n, d, L) ==                                         \* n, d sequences of L words, Val(d) # 0
  IF L = 1 THEN LET o == DivRemLimb(n, d[1]) IN [q |-> o.q, r |-> o.r, path |-> <<>>, tailpre |-> TRUE]
  ELSE
  LET dv     == Val(d)
      dbits  == BitLen(dv)
      dwords == (dbits + W - 1) \div W
      lshift == (W - (dbits % W)) % W
      y      == Words(Shl(dv, L * W - dbits), L)
      x0     == ShlLimbs(n, lshift)
      rv     == Recip(y[L])
      lp     == CtLoop(x0, ShlCarry(n, lshift), x0[L], y, rv, L - 1, L, dwords, <<>>)
      x      == lp[1]
      xhi    == lp[2]
      xlo    == lp[3]
      ldiv   == dwords = 1
      xhia   == IF ldiv THEN xhi ELSE Zero                   \* discarded-branch protection
      t      == Div2by1(xhia, xlo, y[L], rv)
      x1     == [x EXCEPT ![1] = IF ldiv THEN t.q ELSE x[1]]
      yy     == [i \in 1..L |->
                   IF i = 1 THEN (IF ldiv THEN t.r ELSE x1[1])
                   ELSE IF i - 1 = dwords - 1 THEN xhi
                   ELSE IF i - 1 < dwords THEN x1[i] ELSE Zero]
  IN [q |-> Shr(Val(x1), (dwords - 1) * W),
      r |-> Shr(Val(yy), lshift),
      path |-> lp[4],
      tailpre |-> t.pre]                                     \* div2by1's debug_assert on the tail call
=============================================================================
