-------------------------------- MODULE JC03 --------------------------------
(* C03 — multiplication and squaring return the exact product in the        *)
(* documented shape, on limbs, fixed (Uint, Int) and boxed integers.        *)
(*                                                                          *)
(* Event classes (field op); ab, bb are the operand widths in bits:         *)
(*  "mul"  a, b      the product is p = a * b                               *)
(*  "sq"   a         the product is p = a * a   (bb = ab)                   *)
(*  "isq"  a         a is a two's-complement pattern at ab bits; the result *)
(*                   is the unsigned p = |a|^2                              *)
(*    with the shape tag sh of the form that was called:                    *)
(*      "split"   -> lo, hi     lo = p mod 2^ab, hi = p div 2^ab (< 2^bb):  *)
(*                              every limb of the product                   *)
(*      "wide"    -> r          r = p          (boxed: precision rp = ab+bb)*)
(*      "wrap"    -> r          r = p mod 2^ab (boxed: rp = ab)             *)
(*      "checked" -> some(r) exactly when p < 2^ab, and then r = p          *)
(*      "sat"     -> r          r = p, or 2^ab - 1 exactly when p >= 2^ab   *)
(*      "panic"   -> r = p when p < 2^ab; a panic exactly when p >= 2^ab    *)
(*      "op"      -> BoxedUint operators consuming an operand (a * b,       *)
(*                   a * &b, &a * b, a *= b): they carry no documentation;  *)
(*                   in the tree they widen whereas &a * &b checks.  Either *)
(*                   shape is accepted, but the value must be the exact     *)
(*                   product in that shape (never a wrapped one).           *)
(*  "mac"  a, b, c, cy -> lo, hi   a + b*c + cy = lo + 2^64 hi, lo, hi < 2^64*)
(*  "imul" a, b two's-complement patterns at ab, bb bits (bu = 1: b is an   *)
(*         unsigned Uint), z = the signed product:                          *)
(*      "isplit"   -> lo (lb bits), hi, neg: lo + 2^lb hi = |z|; neg = 1    *)
(*                    iff the operands have opposing signs; when the        *)
(*                    magnitude is zero and the sign bits oppose, the doc   *)
(*                    note allows either value of neg                       *)
(*      "iwide"    -> r = z as a pattern at ab + bb bits                    *)
(*      "ichecked" -> some(r) exactly when z is in [MIN, MAX] at rb bits    *)
(*      "ipanic"   -> r, or a panic exactly when z is out of that range     *)
EXTENDS BigNat

LOCAL C03_Has(e, f) == f \in DOMAIN e

\* precision of a boxed result, when logged
LOCAL C03_Prec(e, bits) == C03_Has(e, "rp") => e.rp = bits

LOCAL C03_OkR(e, v, bits) ==
  /\ e.k = "ok"
  /\ C03_Has(e, "r")
  /\ e.r = v
  /\ C03_Prec(e, bits)

\* unsigned shapes over the exact product p
LOCAL C03_Shape(e, p, ab, bb) ==
  LET fits == Fits(p, ab) IN
  CASE e.sh = "split" ->
         /\ e.k = "ok"
         /\ C03_Has(e, "lo") /\ C03_Has(e, "hi")
         /\ e.lo = Mod2k(p, ab)
         /\ e.hi = Shr(p, ab)
         /\ Fits(e.hi, bb)
         /\ Add(e.lo, Shl(e.hi, ab)) = p
    [] e.sh = "wide"    -> C03_OkR(e, p, ab + bb)
    [] e.sh = "wrap"    -> C03_OkR(e, Mod2k(p, ab), ab)
    [] e.sh = "checked" -> IF fits THEN C03_OkR(e, p, ab) ELSE e.k = "none"
    [] e.sh = "sat"     -> C03_OkR(e, IF fits THEN p ELSE Max2k(ab), ab)
    [] e.sh = "panic"   -> IF fits THEN C03_OkR(e, p, ab) ELSE e.k = "panic"
    [] e.sh = "op"      -> \/ C03_OkR(e, p, ab + bb)                    \* widening operator
                           \/ (fits /\ C03_OkR(e, p, ab))               \* checking operator, no overflow
                           \/ (~fits /\ e.k = "panic")                  \* checking operator, overflow
    [] OTHER -> FALSE

LOCAL C03_Mac(e) ==
  LET t == Add(Add(e.a, Mul(e.b, e.c)), e.cy) IN
  /\ e.k = "ok"
  /\ C03_Has(e, "lo") /\ C03_Has(e, "hi")
  /\ e.lo = Mod2k(t, 64)
  /\ e.hi = Shr(t, 64)
  /\ Fits(e.hi, 64)

\* signed product
LOCAL C03_Rhs(e) == IF e.bu = 1 THEN [neg |-> FALSE, mag |-> e.b] ELSE SVal(e.b, e.bb)

LOCAL C03_OkI(e, z, bits) ==
  /\ e.k = "ok"
  /\ C03_Has(e, "r")
  /\ e.r = SEnc(z, bits)
  /\ Fits(e.r, bits)

LOCAL C03_IMul(e) ==
  LET x == SVal(e.a, e.ab)
      y == C03_Rhs(e)
      z == SMul(x, y)
  IN
  CASE e.sh = "isplit" ->
         /\ e.k = "ok"
         /\ C03_Has(e, "lo") /\ C03_Has(e, "hi") /\ C03_Has(e, "neg")
         /\ e.lo = Mod2k(z.mag, e.lb)
         /\ e.hi = Shr(z.mag, e.lb)
         /\ e.neg \in {0, 1}
         /\ (e.neg = 1) => (x.neg # y.neg)                 \* never "negate" a product of like signs
         /\ (z.mag # Zero) => ((e.neg = 1) <=> (x.neg # y.neg))
    [] e.sh = "iwide"    -> C03_OkI(e, z, e.ab + e.bb)
    [] e.sh = "ichecked" -> IF SFits(z, e.rb) THEN C03_OkI(e, z, e.rb) ELSE e.k = "none"
    [] e.sh = "ipanic"   -> IF SFits(z, e.rb) THEN C03_OkI(e, z, e.rb) ELSE e.k = "panic"
    [] OTHER -> FALSE

JudgeC03(e, rg) ==
  CASE e.op = "mul"  -> C03_Shape(e, Mul(e.a, e.b), e.ab, e.bb)
    [] e.op = "sq"   -> C03_Shape(e, Mul(e.a, e.a), e.ab, e.ab)
    [] e.op = "isq"  -> LET m == SVal(e.a, e.ab).mag IN C03_Shape(e, Mul(m, m), e.ab, e.ab)
    [] e.op = "mac"  -> C03_Mac(e)
    [] e.op = "imul" -> C03_IMul(e)
    [] OTHER -> FALSE
=============================================================================
