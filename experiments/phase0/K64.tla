---- MODULE K64 ----
EXTENDS KnuthBN, Json, IOUtils
VARIABLE i
Rec == ndJsonDeserialize("k64.ndjson")
I0 == i = 1 /\ n = <<>> /\ d = <<>> /\ out = <<>>
Run(e) == DivRemVartime(e.n, e.d, Len(e.n), Len(e.d))
N0 == /\ i <= Len(Rec)
      /\ LET o == Run(Rec[i]) IN /\ o[1] = Rec[i].q /\ o[2] = Rec[i].r
                                 /\ (\E k \in 1..Len(o[3]) : o[3][k][3]) => PrintT(<<"ADDBACK at event", i, o[3]>>)
      /\ i' = i + 1 /\ UNCHANGED <<n,d,out>>
S0 == I0 /\ [][N0]_<<i,n,d,out>>
Post == TLCGet("stats").diameter = Len(Rec) + 1
====
