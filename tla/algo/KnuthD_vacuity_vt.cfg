SPECIFICATION Spec
CONSTANTS W = 2
 L = 4
 YC = 3
 Mode = "vartime"
INVARIANT NoAddBack
CHECK_DEADLOCK FALSE
