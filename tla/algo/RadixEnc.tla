------------------------------ MODULE RadixEnc ------------------------------
(***************************************************************************)
(* The radix string ENCODER of src/uint/encoding.rs 508-800 at limb size W *)
(* (the code: 64) and large-divisor threshold LARGE (the code: 32):        *)
(*   radix_encode_limbs_mut_to_string: buffer size, power-of-two radices   *)
(*       by shifting, other radices by division, leading zeros skipped     *)
(*       (one digit always kept);                                          *)
(*   radix_encode_limbs_by_shifting: a double-width accumulator of pending *)
(*       bits, digits_bits bookkeeping across limbs for radix widths that  *)
(*       do not divide W (radix 8, 32), one extra zero limb to flush;      *)
(*   RadixDivisionParams: digits_limb = floor(log_radix(2^W - 1)),         *)
(*       div_limb = radix^digits_limb, its normalising shift, and          *)
(*       radix_large_divisor (largest power of div_limb that reaches LARGE *)
(*       limbs, then times radix while it fits);                           *)
(*   encode_limbs: for more than LARGE limbs divide by the large divisor   *)
(*       and encode each remainder into exactly digits_large characters;   *)
(*       then the in-place loop: shift the buffer left by the normalising  *)
(*       shift (overflow joins `hi`), divide limb by limb from the top     *)
(*       (div2by1, precondition carry < normalised divisor), move a small  *)
(*       top quotient limb into `hi`, emit digits_limb digits of the       *)
(*       remainder, until the buffer is full.                              *)
(* Multi-limb division by the large divisor and div2by1 are exact here     *)
(* (their algorithms are algo/KnuthD.tla); everything around them is       *)
(* transcribed step by step on limb sequences with W-bit truncation.       *)
(* For ALL limb sequences of 1..N limbs (leading zero limbs included) and  *)
(* ALL radices: the result is the canonical numeral of the value — no      *)
(* leading zero, "0" for zero, digits below the radix — the div2by1        *)
(* precondition holds at every call, and the buffer is never too small.    *)
(* Mut = 1: the top quotient limb is moved to `hi` without any test;       *)
(* Mut = 2: with the test `limb << lshift < div_limb` of the pinned tree,  *)
(* whose truncating shift lets a quotient limb >= 2^(W - lshift) pass for  *)
(* small (repaired by cbf5802 after this model refuted it; at W = 64 it    *)
(* takes 13+ limbs, at W = 3..4 two).  Both must be refuted.               *)
(***************************************************************************)
EXTENDS Integers, Sequences, TLC
CONSTANTS W, LARGE, N, Radices, Mut
B == 2 ^ W
RECURSIVE ILog(_, _)
ILog(v, r) == IF v < r THEN 0 ELSE 1 + ILog(v \div r, r)
RECURSIVE Val(_)
Val(l) == IF l = <<>> THEN 0 ELSE l[1] + B * Val(Tail(l))               \* least significant limb first
RECURSIVE ToLimbs(_, _)
ToLimbs(v, n) == IF n = 0 THEN <<>> ELSE <<v % B>> \o ToLimbs(v \div B, n - 1)
RECURSIVE Lz(_, _)
Lz(v, bits) == IF bits = 0 \/ v >= 2 ^ (bits - 1) THEN 0 ELSE 1 + Lz(v, bits - 1)    \* leading zeros of v in `bits` bits
IsPow2(r) == 2 ^ ILog(r, 2) = r
Min(a, b) == IF a < b THEN a ELSE b
SatSub(a, b) == IF a < b THEN 0 ELSE a - b
Shl(x, s) == (x * 2 ^ s) % B                                             \* Limb << s: truncating
Shr(x, s) == x \div 2 ^ s

--------------------------------------------------------------------------
(* power-of-two radices: radix_encode_limbs_by_shifting.  out is written from the end; *)
(* state <<out, out_idx, digits, digits_bits>> threaded through the limbs plus one zero limb *)
RECURSIVE EmitShift(_, _, _, _, _, _)
EmitShift(out, idx, digits, dbits, rb, cnt) ==
  IF cnt = 0 THEN <<out, idx, digits, dbits>>
  ELSE EmitShift([out EXCEPT ![idx] = digits % (2 ^ rb)], idx - 1, digits \div (2 ^ rb), dbits - rb, rb, cnt - 1)
RECURSIVE ShiftLoop(_, _, _, _, _, _)
ShiftLoop(limbs, out, idx, digits, dbits, rb) ==
  IF limbs = <<>> THEN <<out, idx>>
  ELSE LET db == dbits + W
           dg == (digits + limbs[1] * 2 ^ (db % W)) % (B * B)             \* WideWord |= limb << (digits_bits % BITS)
           e  == EmitShift(out, idx, dg, db, rb, Min(db \div rb, idx))
       IN ShiftLoop(Tail(limbs), e[1], e[2], e[3], e[4], rb)
EncodeByShifting(radix, limbs) ==
  LET rb == ILog(radix, 2)
      size == (Len(limbs) * W + rb - 1) \div rb
      r == ShiftLoop(limbs \o <<0>>, [i \in 1..size |-> -1], size, 0, 0, rb)
  IN [i \in 1..size |-> IF i <= r[2] THEN 0 ELSE r[1][i]]               \* out[0..out_idx].fill('0')

--------------------------------------------------------------------------
(* RadixDivisionParams *)
DigitsLimb(radix) == ILog(B - 1, radix)
DivLimb(radix) == radix ^ DigitsLimb(radix)
RShiftOf(radix) == Lz(DivLimb(radix), W)                                 \* reciprocal.shift()
(* radix_large_divisor: <<value, digits>> *)
RECURSIVE LargePow(_, _, _, _)
LargePow(v, digits, dl, dd) == IF v >= B ^ (LARGE - 1) THEN <<v, digits>> ELSE LargePow(v * dl, digits + dd, dl, dd)
RECURSIVE LargeTimesRadix(_, _, _)
LargeTimesRadix(v, digits, radix) == IF v * radix >= B ^ LARGE THEN <<v, digits>> ELSE LargeTimesRadix(v * radix, digits + 1, radix)
LargeDivisor(radix) == LET p == LargePow(DivLimb(radix), DigitsLimb(radix), DivLimb(radix), DigitsLimb(radix))
                       IN LargeTimesRadix(p[1], p[2], radix)

(* one round of the in-place loop on limbs[1..cnt] with the extra top limb hi: *)
(* <<limbs, cnt, hi, digits_word, preok>> *)
RECURSIVE ShlLimbs(_, _, _, _, _)
ShlLimbs(limbs, i, cnt, carry, ls) ==                                    \* ascending: (limb, carry) = ((limb << ls) | carry, limb >> rs)
  IF i > cnt THEN <<limbs, carry>>
  ELSE ShlLimbs([limbs EXCEPT ![i] = Shl(limbs[i], ls) + carry], i + 1, cnt, Shr(limbs[i], W - ls), ls)
RECURSIVE DivLimbs(_, _, _, _, _)
DivLimbs(limbs, i, carry, dn, ok) ==                                     \* descending: (limb, carry) = div2by1(carry, limb, reciprocal)
  IF i = 0 THEN <<limbs, carry, ok>>
  ELSE LET u == carry * B + limbs[i] IN DivLimbs([limbs EXCEPT ![i] = (u \div dn) % B], i - 1, u % dn, dn, ok /\ carry < dn)
Round(limbs, cnt, hi, radix) ==
  LET ls == RShiftOf(radix)
      dl == DivLimb(radix)
      dn == dl * 2 ^ ls
  IN IF cnt > 0 THEN
       LET sh == IF ls > 0 THEN ShlLimbs(limbs, 1, cnt, 0, ls) ELSE <<limbs, 0>>
           carry0 == IF ls > 0 THEN (sh[2] + Shl(hi, ls)) % B ELSE hi       \* carry |= hi << lshift (disjoint bits when hi is small)
           dv == DivLimbs(sh[1], cnt, carry0, dn, TRUE)
           top == dv[1][cnt]
           small == IF Mut = 1 THEN TRUE
                    ELSE IF Mut = 2 THEN Shl(top, ls) < dl                     \* the pinned tree before cbf5802: truncating shift
                    ELSE top <= Shr(dl - 1, ls)                                \* the same test without the shift
       IN <<dv[1], IF small THEN cnt - 1 ELSE cnt, IF small THEN top ELSE 0, Shr(dv[2], ls), dv[3] /\ hi * 2 ^ ls < B>>
     ELSE <<limbs, 0, 0, hi, TRUE>>
RECURSIVE EmitDigits(_, _, _, _, _)
EmitDigits(out, idx, word, radix, cnt) ==
  IF cnt = 0 THEN <<out, idx>> ELSE EmitDigits([out EXCEPT ![idx] = word % radix], idx - 1, word \div radix, radix, cnt - 1)
RECURSIVE MainLoop(_, _, _, _, _, _, _)
MainLoop(limbs, cnt, hi, out, idx, radix, ok) ==                          \* out[1..idx] still to fill; <<out, ok>>
  LET r == Round(limbs, cnt, hi, radix)
      e == EmitDigits(out, idx, r[4], radix, Min(DigitsLimb(radix), idx))
      lost == r[4] \div (radix ^ Min(DigitsLimb(radix), idx)) # 0          \* digits of the word that did not fit the buffer
  IN IF e[2] = 0 THEN <<e[1], ok /\ r[5] /\ ~lost /\ Val(SubSeq(r[1], 1, r[2])) = 0 /\ r[3] = 0>>   \* buffer full: nothing may be left over
     ELSE MainLoop(r[1], r[2], r[3], e[1], e[2], radix, ok /\ r[5] /\ ~lost)

(* the large-divisor phase: <<quotient limbs, cnt, out, idx, ok>>; each remainder is encoded into its own slice *)
RECURSIVE EncodeLimbs(_, _, _)
RECURSIVE LargePhase(_, _, _, _, _, _)
LargePhase(limbs, cnt, out, idx, radix, ok) ==
  IF cnt < LARGE THEN <<limbs, cnt, out, idx, ok>>
  ELSE LET ld == LargeDivisor(radix)
           x == Val(SubSeq(limbs, 1, cnt))
           q == ToLimbs(x \div ld[1], cnt)
           cnt1 == cnt + 1 - LARGE
           cnt2 == IF q[cnt1] = 0 THEN cnt1 - 1 ELSE cnt1
           next == SatSub(idx, ld[2])
           sub == EncodeLimbs(ToLimbs(x % ld[1], LARGE), idx - next, radix)
       IN LargePhase(q, cnt2, [i \in 1..Len(out) |-> IF i > next /\ i <= idx THEN sub[1][i - next] ELSE out[i]], next, radix,
                     ok /\ sub[2] /\ x \div ld[1] < B ^ cnt1)
EncodeLimbs(limbs, size, radix) ==                                        \* fills a buffer of `size` characters: <<out, ok>>
  LET out0 == [i \in 1..size |-> -1]
      lp == IF Len(limbs) > LARGE THEN LargePhase(limbs, Len(limbs), out0, size, radix, TRUE) ELSE <<limbs, Len(limbs), out0, size, TRUE>>
  IN IF lp[4] = 0 THEN <<lp[3], lp[5] /\ Val(SubSeq(lp[1], 1, lp[2])) = 0>>                       \* (cannot happen at the top level: the buffer is pessimistic)
     ELSE MainLoop(lp[1], lp[2], 0, lp[3], lp[4], radix, lp[5])

RECURSIVE SkipZeros(_)
SkipZeros(d) == IF Len(d) > 1 /\ d[1] = 0 THEN SkipZeros(Tail(d)) ELSE d
Encode(radix, limbs) ==                                                    \* <<digits, ok>>
  IF IsPow2(radix) THEN <<SkipZeros(EncodeByShifting(radix, limbs)), TRUE>>
  ELSE LET r == EncodeLimbs(limbs, Len(limbs) * (DigitsLimb(radix) + 1), radix) IN <<SkipZeros(r[1]), r[2]>>

(* what it must be: the canonical numeral *)
RECURSIVE Digits(_, _)
Digits(v, radix) == IF v < radix THEN <<v>> ELSE Digits(v \div radix, radix) \o <<v % radix>>

VARIABLES limbs, radix
(* limb sequences grow one limb per step: every sequence of 1..N limbs is a reachable state *)
Init == radix \in Radices /\ limbs = <<>>
Next == Len(limbs) < N /\ (\E v \in 0..(B - 1) : limbs' = Append(limbs, v)) /\ UNCHANGED radix
Spec == Init /\ [][Next]_<<limbs, radix>>
EncodeOK == limbs # <<>> => LET r == Encode(radix, limbs) IN r[1] = Digits(Val(limbs), radix)
PreOK == limbs # <<>> => Encode(radix, limbs)[2]         \* div2by1 preconditions, no lost digit, nothing left over, quotient fits
LargeShape == \A r \in Radices : ~IsPow2(r) => LET ld == LargeDivisor(r) IN ld[1] = r ^ ld[2] /\ ld[1] < B ^ LARGE /\ ld[1] * r >= B ^ LARGE
ReachLarge == ~(Len(limbs) > LARGE /\ ~IsPow2(radix) /\ Val(limbs) >= B ^ LARGE)       \* vacuity guard, must be refuted
ReachHi == ~(limbs # <<>> /\ ~IsPow2(radix) /\ Round(limbs, Len(limbs), 0, radix)[3] # 0)   \* a non-zero top quotient limb moved to hi
=============================================================================
