SPECIFICATION Spec
CONSTANTS W = 2
 L = 3
 YC = 3
 Mode = "remwide"
INVARIANT NoAddBack
CHECK_DEADLOCK FALSE
