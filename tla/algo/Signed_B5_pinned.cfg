SPECIFICATION Spec
CONSTANTS BITS = 5
 FloorSign = "opposing"
INVARIANT AddOK
INVARIANT SubOK
INVARIANT NegOK
INVARIANT AbsOK
INVARIANT MulOK
INVARIANT TruncOK
INVARIANT FloorOK
CHECK_DEADLOCK FALSE
