#!/bin/sh
# MANIFEST.setup_cmd: build the framework from files on disk only (offline).
set -e
cd "$(dirname "$0")"
export CARGO_NET_OFFLINE=true
mkdir -p work/classes
javac -cp /opt/veriftools/tla/tla2tools.jar -d work/classes tla/overrides/BigNatOverrides.java
# the accelerator is tied to the TLA+ reference definitions before anything relies on it
( cd tla && timeout 600 java -Xss1g -XX:+UseParallelGC \
    -Dtlc2.overrides.TLCOverrides=tlc2.overrides.TLCOverrides:BigNatOverrides \
    -cp /opt/veriftools/tla/tla2tools.jar:/opt/veriftools/tla/CommunityModules-deps.jar:../work/classes tlc2.TLC \
    -workers 8 -metadir ../work/meta_selftest -cleanup -noGenerateSpecTE -config BigNatSelfTest.cfg BigNatSelfTest.tla \
    | grep -E "No error has been found|Error" ) || { echo "BigNat self-test failed"; exit 1; }
# pre-build the recorders in both profiles (checks rebuild incrementally against /repo's working tree)
( cd harness && cargo build --offline --release --bins 2>&1 | tail -2 && cargo build --offline --profile chk --bins 2>&1 | tail -2 )
( cd leak && cargo build --offline --release 2>&1 | tail -2 )
# uninstrumented twin of the leak recorder for the machine-level pass of C01 (valgrind lackey)
( cd leak && RUSTFLAGS="--cfg crypto_bigint_verif --check-cfg cfg(crypto_bigint_verif) -Cforce-frame-pointers=yes -Crelocation-model=static -Ctarget-feature=+crt-static" CARGO_TARGET_DIR=../work/target-leak-plain cargo build --offline --release 2>&1 | tail -1 )
echo "setup ok"
