//! C20 recorder: integer square root, every form, fixed and boxed.
//! Event class `sqrt`:  x (natural), xb (operand width in bits) -> s [, sp = precision of a boxed result].
//! Event class `csqrt`: x, xb -> ok(s [, sp]) | none   (checked forms).
//! Inputs are the families the quantifier names: 0..4, t^2-1, t^2, t^2+1, t^2+t, (t+1)^2-1 for
//! t = 2^j, 2^j +- 1 (every j up to BITS/2), structured and random t <= 2^(BITS/2)-1, powers of two
//! +- 1 at every magnitude, 2^BITS-1, values around 2^(BITS-1).
use vh::cb::{BoxedUint, SquareRoot, Uint};
use vh::*;

/// x values around t^2 (all fit in n limbs when t < 2^(32 n))
fn around_square(t: &[u64], n: usize, out: &mut Vec<Vec<u64>>) {
    let t = trim(t.to_vec());
    let t = if t.is_empty() { vec![0] } else { t };
    let sq = vmul(&t, &t);
    debug_assert!(fits(&sq, n));
    if !is_zero(&sq) {
        out.push(fit(trim(vsub(&sq, &[1])), n)); // t^2 - 1: root t - 1
    }
    out.push(fit(trim(sq.clone()), n)); // t^2
    let p1 = vadd(&sq, &[1]);
    if fits(&p1, n) { out.push(fit(trim(p1), n)); } // t^2 + 1
    let pt = vadd(&sq, &t);
    if fits(&pt, n) { out.push(fit(trim(pt.clone()), n)); } // t (t + 1): the rounding midpoint
    let p2t = vadd(&pt, &t);
    if fits(&p2t, n) { out.push(fit(trim(p2t), n)); } // (t + 1)^2 - 1: the largest x with root t
}

/// t < 2^(32 n), structured or uniform
fn some_t(r: &mut Rng, n: usize) -> Vec<u64> {
    let hb = 32 * n; // bits of t
    let hl = hb.div_ceil(64);
    let t = match r.below(6) {
        0 => uniform(r, hl),
        1 => { // uniform with a random bit length
            let b = r.range(1, hb);
            vmask(&uniform(r, hl), b)
        }
        2 => vec![MAX; hl], // masked below: 2^(BITS/2) - 1
        _ => nat(r, hl),
    };
    vmask(&t, hb)
}

/// the list of x for an n-limb operand; `dense` = every j, otherwise `sample` random values of j
/// plus a fixed set of boundary exponents (a short one when sample < 8)
fn xs(r: &mut Rng, n: usize, dense: bool, sample: usize, randoms: usize) -> Vec<Vec<u64>> {
    let bits = 64 * n;
    let mut out: Vec<Vec<u64>> = Vec::new();
    for v in [0u64, 1, 2, 3, 4, 5, 8, 9, 15, 16, 17, MAX, MAX - 1, TOP, TOP - 1, TOP + 1] {
        out.push(fit(vec![v], n));
    }
    // 2^BITS - 1, 2^BITS - 2, around 2^(BITS-1) and 2^(BITS-2)
    let maxv = vec![MAX; n];
    out.push(maxv.clone());
    out.push(vsub(&maxv, &[1]));
    for k in [bits - 1, bits - 2] {
        let p = fit(trim(vpow2(k)), n);
        out.push(p.clone());
        out.push(fit(trim(vadd(&p, &[1])), n));
        out.push(fit(trim(vadd(&p, &[2])), n));
        out.push(vsub(&p, &[1]));
        out.push(vsub(&p, &[2]));
    }
    // t = 2^j, 2^j +- 1
    let js: Vec<usize> = if dense { (0..=32 * n).collect() } else {
        let h = 32 * n;
        let mut v: Vec<usize> = if sample >= 8 { vec![0, 1, 31, 32, 33, 63, 64, 65, h - 1, h, h.saturating_sub(32), h.saturating_sub(33), h / 2, h / 2 + 1] } else { vec![h - 1, h] };
        v.retain(|j| *j <= h);
        for _ in 0..sample { v.push(r.below(32 * n + 1)); }
        v.sort();
        v.dedup();
        v
    };
    for &j in &js {
        let p = vpow2(j);
        if j < 32 * n {
            around_square(&p, n, &mut out);
            around_square(&vadd(&p, &[1]), n, &mut out);
        }
        if j > 0 {
            around_square(&vsub(&p, &[1]), n, &mut out);
        }
    }
    // x = 2^k, 2^k +- 1 at every magnitude (odd k: the initial guess is farthest from the root)
    let ks: Vec<usize> = if dense { (0..bits).collect() } else {
        let mut v: Vec<usize> = (0..sample).map(|_| r.below(bits)).collect();
        v.extend([bits - 1, bits - 2]);
        if sample >= 8 { v.extend([bits - 3, 63, 64, 65, 127, 128]); }
        v.retain(|k| *k < bits);
        v.sort();
        v.dedup();
        v
    };
    for &k in &ks {
        let p = fit(trim(vpow2(k)), n);
        out.push(p.clone());
        out.push(vsub(&p, &[1]));
        out.push(fit(trim(vadd(&p, &[1])), n));
    }
    // structured and random t
    for _ in 0..randoms {
        let t = some_t(r, n);
        if r.chance(1, 2) {
            around_square(&t, n, &mut out);
        } else {
            // t^2 + d, 0 <= d <= 2t
            let tt = trim(t.clone());
            let tt = if tt.is_empty() { vec![0] } else { tt };
            let d = below(r, &vadd(&vadd(&tt, &tt), &[1]));
            let x = vadd(&vmul(&tt, &tt), &d);
            if fits(&x, n) { out.push(fit(trim(x), n)); }
        }
    }
    // structured x directly
    for _ in 0..randoms {
        out.push(nat(r, n));
    }
    for _ in 0..randoms / 4 + 1 {
        out.push(uniform(r, n));
    }
    out
}

fn ev(op: &str, form: &str, n: usize, x: &[u64]) -> Ev {
    Ev::new(op, form).i("xb", 64 * n as i64).n("x", x)
}

fn fixed<const N: usize>(cx: &mut Cx, dense: bool, sample: usize, randoms: usize) {
    let list = xs(&mut cx.rng, N, dense, sample, randoms);
    for (it, x) in list.iter().enumerate() {
        let a = u::<N>(x);
        cx.call(ev("sqrt", "uint.sqrt", N, x), || O::ok().n("s", &w(&a.sqrt())));
        cx.call(ev("sqrt", "uint.sqrt_vartime", N, x), || O::ok().n("s", &w(&a.sqrt_vartime())));
        cx.call(ev("csqrt", "uint.checked_sqrt", N, x), || match Option::<Uint<N>>::from(a.checked_sqrt()) { Some(s) => O::ok().n("s", &w(&s)), None => O::none() });
        cx.call(ev("csqrt", "uint.checked_sqrt_vartime", N, x), || match Option::<Uint<N>>::from(a.checked_sqrt_vartime()) { Some(s) => O::ok().n("s", &w(&s)), None => O::none() });
        if it % 3 == 0 {
            cx.call(ev("sqrt", "uint.wrapping_sqrt", N, x), || O::ok().n("s", &w(&a.wrapping_sqrt())));
            cx.call(ev("sqrt", "uint.wrapping_sqrt_vartime", N, x), || O::ok().n("s", &w(&a.wrapping_sqrt_vartime())));
            cx.call(ev("sqrt", "uint.SquareRoot.sqrt", N, x), || O::ok().n("s", &w(&SquareRoot::sqrt(&a))));
            cx.call(ev("sqrt", "uint.SquareRoot.sqrt_vartime", N, x), || O::ok().n("s", &w(&SquareRoot::sqrt_vartime(&a))));
        }
    }
}

fn bo(s: &BoxedUint) -> O {
    O::ok().n("s", &wb(s)).i("sp", s.bits_precision() as i64)
}

fn boxed(cx: &mut Cx, n: usize, sample: usize, randoms: usize) {
    let list = xs(&mut cx.rng, n, false, sample, randoms);
    for (it, x) in list.iter().enumerate() {
        let a = bx(x);
        cx.call(ev("sqrt", "boxed.sqrt", n, x), || bo(&a.sqrt()));
        cx.call(ev("sqrt", "boxed.sqrt_vartime", n, x), || bo(&a.sqrt_vartime()));
        cx.call(ev("csqrt", "boxed.checked_sqrt", n, x), || match Option::<BoxedUint>::from(a.checked_sqrt()) { Some(s) => bo(&s), None => O::none() });
        cx.call(ev("csqrt", "boxed.checked_sqrt_vartime", n, x), || match Option::<BoxedUint>::from(a.checked_sqrt_vartime()) { Some(s) => bo(&s), None => O::none() });
        if it % 3 == 0 {
            cx.call(ev("sqrt", "boxed.wrapping_sqrt", n, x), || bo(&a.wrapping_sqrt()));
            cx.call(ev("sqrt", "boxed.wrapping_sqrt_vartime", n, x), || bo(&a.wrapping_sqrt_vartime()));
            cx.call(ev("sqrt", "boxed.SquareRoot.sqrt", n, x), || bo(&SquareRoot::sqrt(&a)));
            cx.call(ev("sqrt", "boxed.SquareRoot.sqrt_vartime", n, x), || bo(&SquareRoot::sqrt_vartime(&a)));
        }
    }
}

fn main() {
    let mut cx = Cx::from_args("C20");
    let s = cx.scale;
    if cx.want("fixed") {
        fixed::<1>(&mut cx, true, 0, 60 * s);
        fixed::<2>(&mut cx, true, 0, 60 * s);
        fixed::<3>(&mut cx, s > 1, 24, 60 * s);
        fixed::<4>(&mut cx, s > 1, 24, 60 * s);
        fixed::<8>(&mut cx, s > 1, 16, 40 * s);
        fixed::<16>(&mut cx, s > 1, 10, 25 * s);
    }
    if cx.want("boxed") {
        for n in 1..=20usize {
            let (sample, randoms) = if n <= 4 { (5, 10) } else { (3, 6) };
            boxed(&mut cx, n, sample * s, randoms * s);
        }
    }
    cx.finish();
}
