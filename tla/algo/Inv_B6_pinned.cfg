SPECIFICATION Spec
CONSTANTS BITS = 6
 ZeroFix = FALSE
INVARIANT Inv2kOK
INVARIANT InvModOK
CHECK_DEADLOCK FALSE
