-------------------------------- MODULE JC20 --------------------------------
(* C20 — the integer square root is the exact floor for every input.        *)
(* Event class "sqrt":  x natural, xb operand width in bits -> s            *)
(*   (sqrt, sqrt_vartime, wrapping_sqrt(_vartime), SquareRoot::*; fixed and *)
(*   boxed).  Contract: k = "ok" and s is the unique natural with           *)
(*   s^2 <= x < (s+1)^2.  A boxed result also logs its precision sp, which  *)
(*   is that of the operand.                                                *)
(* Event class "csqrt": checked_sqrt(_vartime): some(s) with the same s     *)
(*   exactly when x is a perfect square, none otherwise.                    *)
EXTENDS BigNat

LOCAL Has20(e, f) == f \in DOMAIN e

\* the defining property of the floor square root, stated directly (not through ISqrt)
LOCAL C20_IsFloorSqrt(s, x) ==
  /\ Le(Mul(s, s), x)
  /\ Lt(x, Mul(Add(s, One), Add(s, One)))

LOCAL C20_IsPerfectSquare(x) == LET r == ISqrt(x) IN Mul(r, r) = x

LOCAL C20_SqrtOK(e) ==
  /\ e.k = "ok"
  /\ Has20(e, "s")
  /\ C20_IsFloorSqrt(e.s, e.x)
  /\ e.s = ISqrt(e.x)                            \* the same thing through the library operator
  /\ Has20(e, "sp") => e.sp = e.xb               \* boxed: result keeps the operand's precision

LOCAL C20_JudgeSqrt(e) == C20_SqrtOK(e)

LOCAL C20_JudgeCheckedSqrt(e) ==
  IF C20_IsPerfectSquare(e.x) THEN C20_SqrtOK(e) ELSE e.k = "none"

JudgeC20(e, rg) ==
  CASE e.op = "sqrt"  -> C20_JudgeSqrt(e)
    [] e.op = "csqrt" -> C20_JudgeCheckedSqrt(e)
    [] OTHER -> FALSE
=============================================================================
