SPECIFICATION Spec
CONSTANTS W = 2
 L = 3
 YC = 3
 Mode = "remwide"
INVARIANT Exact
INVARIANT PreHoldsEverywhere
CHECK_DEADLOCK FALSE
