SPECIFICATION Spec
CONSTANTS W = 8
 N = 1
 MAXLEN = 4
 Radices = {2, 7, 10, 16}
INVARIANT DecodeOK
CHECK_DEADLOCK FALSE
