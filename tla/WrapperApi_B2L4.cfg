SPECIFICATION Spec
CONSTANTS BITS = 2
 MaxLen = 4
 OddDefault = "one"
INVARIANT CheckedExact
INVARIANT WrappingExact
INVARIANT WrappersValid
INVARIANT DivisorsSafe
CHECK_DEADLOCK FALSE
