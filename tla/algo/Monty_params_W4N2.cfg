SPECIFICATION Spec
CONSTANTS W = 4
 N = 2
 Mode = "params"
INVARIANT ParamsOK
CHECK_DEADLOCK FALSE
