SPECIFICATION Spec
CONSTANTS W = 2
 N = 5
 ZeroFix = TRUE
INVARIANT VartimeOK
INVARIANT LadderOK
INVARIANT WideOK
CHECK_DEADLOCK FALSE
