-------------------------------- MODULE Codec --------------------------------
(***************************************************************************)
(* Exhaustive exploration of the DER / RLP codec transcription             *)
(* (tla/algo/CodecOps.tla): every octet string up to MaxLen (mode "s",     *)
(* grown one octet per step) and every value below O^NB (mode "y").  The   *)
(* same operators are evaluated at Q = 8 on the recorded calls of the real *)
(* crate by tla/CodecTrace.tla.                                            *)
(***************************************************************************)
EXTENDS CodecOps
CONSTANT MaxLen
--------------------------------------------------------------------------
VARIABLES mode, s, y
vars == <<mode, s, y>>
Init == \/ mode = "s" /\ s = <<>> /\ y = 0
        \/ mode = "y" /\ s = <<>> /\ y \in 0..(O ^ NB - 1)
(* strings grow one octet at a time: every string up to MaxLen is a reachable state *)
Next == /\ mode = "s" /\ Len(s) < MaxLen
        /\ \E o \in 0..(O - 1) : s' = Append(s, o)
        /\ UNCHANGED <<mode, y>>
Spec == Init /\ [][Next]_vars

DerDecSound == mode = "s" => LET r == DerDec(s) IN (r[1] = "ok" => (r[2] < O ^ NB /\ DerEnc(r[2]) = s))
RlpDecSound == mode = "s" => LET r == RlpDec(s) IN (r[1] = "ok" => (r[2] < O ^ NB /\ IsPrefix(RlpEnc(r[2]), s)))
RlpExact    == mode = "s" => ((\E v \in {ValBE(RlpBodyJ(s))} : v < O ^ NB /\ RlpEnc(v) = s) => RlpDec(s)[1] = "ok")
DerRoundTrip == mode = "y" => DerDec(DerEnc(y)) = Ok(y)
RlpRoundTrip == mode = "y" => RlpDec(RlpEnc(y)) = Ok(y)
DerEncCanon == mode = "y" => (DerEnc(y) = DerCanonAbs(y) /\ Len(DerEnc(y)) <= MaxLen)   \* the explored strings include every encoding
RlpEncCanon == mode = "y" => (RlpEnc(y) = RlpCanonAbs(y) /\ Len(RlpEnc(y)) <= MaxLen)
(* the judge's procedure agrees with the transcription: err <=> not valid (DER); for RLP valid => ok, err => not valid *)
DerJudgeAgrees == mode = "s" => ((DerDec(s)[1] = "ok") = DerValidJ(s))
RlpJudgeAgrees == mode = "s" => (/\ (RlpValidJ(s) => RlpDec(s)[1] = "ok")
                                 /\ ((RlpDec(s)[1] = "err") => ~RlpValidJ(s)))
(* value mode alone, for widths whose encodings are longer than the explored strings: the two-octet long-form length *)
DerEncCanonV == mode = "y" => DerEnc(y) = DerCanonAbs(y)
RlpEncCanonV == mode = "y" => RlpEnc(y) = RlpCanonAbs(y)
ReachTwoLenOctets == ~(mode = "y" /\ DerEnc(y)[2] = H + 2)
(* vacuity guards: the long forms and the pad octet are inside the explored range *)
ReachLongDer == ~(mode = "y" /\ DerEnc(y)[2] > H)
ReachLongRlp == ~(mode = "y" /\ RlpEnc(y)[1] > SS)
=============================================================================
