SPECIFICATION Spec
CONSTANTS W = 4
 WIN = 4
 EL = 2
 MMAX = 7
 NB = 1
INVARIANT Exact
CHECK_DEADLOCK FALSE
