//! C05 recorder: shifts, bit queries and bitwise operators, every form, fixed (Limb, Uint, Int) and boxed.
//!
//! Event classes (the judge JC05 dispatches on `op`):
//!  * `shl` / `shr`: `w` width in bits, `x` value (two's-complement pattern when `sg` = 1), `s` shift amount,
//!    `sg` signed (arithmetic right shift), `m` = how this form reports `s >= w`, taken from its doc comment:
//!      "panic" (documented panic), "none" (CtOption/Option none), "flag" (boxed `(value, Choice)`: zero and a
//!      truthy flag), "zero" (wrapping forms: zero, or the sign fill for a signed right shift),
//!      "mask" (Limb's `num_traits::Wrapping{Shl,Shr}`: shift amount reduced mod 64, num-traits' documented rule).
//!    outputs `r`, and `ov` for "flag", `rp` (result precision) for boxed results.
//!  * `shlw` / `shrw`: double-width shift of (lo, hi), each `w` bits wide -> (rlo, rhi); none iff s >= 2w.
//!  * `bits`, `lz`, `tz`, `to`: bit length, leading zeros, trailing zeros, trailing ones -> `r` (small int).
//!  * `bit`: `i` index -> `r` 0/1 (0 out of range).  `setbit`: `i`, `v` -> `r` new value.
//!  * `and` / `or` / `xor`: `a`, `b` -> `r`;  `andl`: every limb of `a` AND limb `l`;  `not`: complement in `w` bits.
use vh::cb::subtle::Choice;
use vh::cb::{BitOps, BoxedUint, Int, Limb, ShlVartime, ShrVartime, Uint, Wrapping, WrappingShl, WrappingShr};
use vh::*;

const U32MAX: u64 = u32::MAX as u64;

// ------------------------------------------------------------------------------------------------
// inputs

/// every shift amount the quantifier names for a `bits`-wide type: 0..=2*bits+1, u32::MAX, and a few large ones
fn shifts(bits: usize) -> Vec<u64> {
    let mut v: Vec<u64> = (0..=(2 * bits as u64 + 1)).collect();
    v.extend_from_slice(&[U32MAX, 1 << 31, (1 << 31) - 1, U32MAX - 63, U32MAX - 64, 4 * bits as u64, 1 << 16]);
    v
}

/// shift amounts around every boundary (used where the exhaustive list is too long for the quick tier)
fn special_shifts(bits: usize) -> Vec<u64> {
    let b = bits as u64;
    let mut v: Vec<u64> = vec![0, 1, 2, 7, 8, 31, 32, 33];
    let mut k = 64;
    while k <= b + 64 {
        v.extend_from_slice(&[k - 1, k, k + 1]);
        k += 64;
    }
    v.extend_from_slice(&[b - 2, b + 2, b + 31, b + 32, 2 * b - 1, 2 * b, 2 * b + 1, 4 * b, U32MAX, 1 << 31, U32MAX - 63, 1 << 16]);
    v.sort();
    v.dedup();
    v
}

fn is_special(s: u64, bits: usize) -> bool {
    let b = bits as u64;
    s % 64 == 0 || s % 64 == 1 || s % 64 == 63 || s + 1 >= 2 * b || (s + 2 >= b && s <= b + 2)
}

fn single_bit(n: usize, p: usize) -> Vec<u64> {
    let mut v = vec![0u64; n];
    if p < 64 * n {
        v[p / 64] = 1 << (p % 64);
    }
    v
}
/// 2^p - 1 in n limbs (p <= 64n)
fn low_ones(n: usize, p: usize) -> Vec<u64> {
    let mut v = vec![0u64; n];
    for i in 0..n {
        if 64 * (i + 1) <= p { v[i] = MAX } else if 64 * i < p { v[i] = (1u64 << (p % 64)) - 1 }
    }
    v
}
fn vnot(a: &[u64]) -> Vec<u64> {
    a.iter().map(|x| !x).collect()
}

/// a value for a shift by `s`: the quantifier's families, placed relative to the shift amount
fn shift_val(r: &mut Rng, n: usize, s: u64, left: bool) -> Vec<u64> {
    let bits = 64 * n;
    let sb = if s as usize >= bits || s > (1 << 20) { r.below(bits) } else { s as usize };
    match r.below(12) {
        0 => vec![MAX; n],
        1 => {
            // the single bit that lands exactly on the last surviving position
            if left { single_bit(n, bits - 1 - sb) } else { single_bit(n, sb) }
        }
        2 => {
            // the single bit that just falls off
            if left { single_bit(n, (bits - sb) % bits) } else { single_bit(n, (sb + bits - 1) % bits) }
        }
        3 => low_ones(n, 64 * r.range(1, n)),          // run of ones ending at a limb boundary
        4 => vnot(&low_ones(n, 64 * r.below(n))),      // run of ones starting at a limb boundary
        5 => single_bit(n, r.below(bits)),
        6 => low_ones(n, r.range(0, bits)),
        7 => r.pick(&[fit(vec![1], n), vec![0; n], fit(vec![MAX], n), single_bit(n, bits - 1)]),
        8 => uniform(r, n),
        9 => { let mut v = nat(r, n); v[n - 1] |= TOP; v }    // sign bit set (negative Int)
        _ => nat(r, n),
    }
}

// ------------------------------------------------------------------------------------------------
// shifts of the fixed-width types: one macro for Uint and Int, for both directions

const NF: usize = 20; // forms per direction

/// Calls form number `$f` (0..NF) of a left or right shift of `$a: $T` by `$s` and logs it.
macro_rules! fixed_shift_form {
    ($cx:expr, $f:expr, $T:ty, $wd:ident, $pre:literal, $op:literal, $bits:expr, $sg:expr, $a:expr, $xw:expr, $s:expr;
     $sh:ident, $sh_vt:ident, $ovf:ident, $ovf_vt:ident, $wr:ident, $wr_vt:ident, $WT:ident, $VT:ident, $t_ovf:ident, $t_wr:ident, $o:tt, $oa:tt) => {{
        let a: $T = $a;
        let s: u64 = $s;
        let mut f: usize = $f;
        if s > U32MAX { f = [13usize, 14, 17][f % 3]; }   // only the usize forms can carry it
        if s > i32::MAX as u64 && (f == 11 || f == 12 || f == 16) { f -= 2; if f == 14 { f = 15 } }
        let s32 = s as u32;
        let mk = |form: &str, m: &str| Ev::new($op, form).i("w", $bits as i64).n("x", $xw).nu("s", s as u128).s("m", m).f("sg", $sg);
        let okr = |r: $T| O::ok().n("r", &$wd(&r));
        let opt = |o: Option<$T>| match o { Some(r) => O::ok().n("r", &$wd(&r)), None => O::none() };
        match f {
            0 => $cx.call(mk(concat!($pre, ".", stringify!($ovf)), "none"), || opt(a.$ovf(s32).into())),
            1 => $cx.call(mk(concat!($pre, ".", stringify!($ovf_vt)), "none"), || opt(a.$ovf_vt(s32).into())),
            2 => $cx.call(mk(concat!($pre, ".", stringify!($sh)), "panic"), || okr(a.$sh(s32))),
            3 => $cx.call(mk(concat!($pre, ".", stringify!($sh_vt)), "panic"), || okr(a.$sh_vt(s32))),
            4 => $cx.call(mk(concat!($pre, ".", stringify!($wr)), "zero"), || okr(a.$wr(s32))),
            5 => $cx.call(mk(concat!($pre, ".", stringify!($wr_vt)), "zero"), || okr(a.$wr_vt(s32))),
            6 => $cx.call(mk(concat!($pre, ".", stringify!($WT), ".", stringify!($wr)), "zero"), || okr($WT::$wr(&a, s32))),
            7 => $cx.call(mk(concat!($pre, ".", stringify!($VT), ".", stringify!($t_ovf)), "none"), || opt($VT::$t_ovf(&a, s32).into())),
            8 => $cx.call(mk(concat!($pre, ".", stringify!($VT), ".", stringify!($t_wr)), "zero"), || okr($VT::$t_wr(&a, s32))),
            9 => $cx.call(mk(concat!($pre, ".op_", $op, "_u32_v"), "panic"), || okr(a $o s32)),
            10 => $cx.call(mk(concat!($pre, ".op_", $op, "_u32_r"), "panic"), || okr(&a $o s32)),
            11 => $cx.call(mk(concat!($pre, ".op_", $op, "_i32_v"), "panic"), || okr(a $o (s as i32))),
            12 => $cx.call(mk(concat!($pre, ".op_", $op, "_i32_r"), "panic"), || okr(&a $o (s as i32))),
            13 => $cx.call(mk(concat!($pre, ".op_", $op, "_usize_v"), "panic"), || okr(a $o (s as usize))),
            14 => $cx.call(mk(concat!($pre, ".op_", $op, "_usize_r"), "panic"), || okr(&a $o (s as usize))),
            15 => $cx.call(mk(concat!($pre, ".op_", $op, "_assign_u32"), "panic"), || { let mut t = a; t $oa s32; okr(t) }),
            16 => $cx.call(mk(concat!($pre, ".op_", $op, "_assign_i32"), "panic"), || { let mut t = a; t $oa (s as i32); okr(t) }),
            17 => $cx.call(mk(concat!($pre, ".op_", $op, "_assign_usize"), "panic"), || { let mut t = a; t $oa (s as usize); okr(t) }),
            18 => $cx.call(mk(concat!($pre, ".wrapping.op_", $op, "_v"), "zero"), || okr((Wrapping(a) $o s32).0)),
            _ => $cx.call(mk(concat!($pre, ".wrapping.op_", $op, "_r"), "zero"), || okr((&Wrapping(a) $o s32).0)),
        }
    }};
}

macro_rules! fixed_shl {
    ($cx:expr, $f:expr, $T:ty, $wd:ident, $pre:literal, $bits:expr, $sg:expr, $a:expr, $xw:expr, $s:expr) => {
        fixed_shift_form!($cx, $f, $T, $wd, $pre, "shl", $bits, $sg, $a, $xw, $s;
            shl, shl_vartime, overflowing_shl, overflowing_shl_vartime, wrapping_shl, wrapping_shl_vartime,
            WrappingShl, ShlVartime, overflowing_shl_vartime, wrapping_shl_vartime, <<, <<=)
    };
}
macro_rules! fixed_shr {
    ($cx:expr, $f:expr, $T:ty, $wd:ident, $pre:literal, $bits:expr, $sg:expr, $a:expr, $xw:expr, $s:expr) => {
        fixed_shift_form!($cx, $f, $T, $wd, $pre, "shr", $bits, $sg, $a, $xw, $s;
            shr, shr_vartime, overflowing_shr, overflowing_shr_vartime, wrapping_shr, wrapping_shr_vartime,
            WrappingShr, ShrVartime, overflowing_shr_vartime, wrapping_shr_vartime, >>, >>=)
    };
}

/// Uint<N>: every shift amount; the two implementations (ladder, limb move) on each (or alternating, `core` = 1),
/// plus `extra_q` other forms per four shift amounts, in rotation; `passes` values per shift amount.
fn uint_shifts<const N: usize>(cx: &mut Cx, core: usize, extra_q: usize, passes: usize) {
    let bits = 64 * N;
    let mut rot = 0usize;
    for pass in 0..passes {
        for (si, &s) in shifts(bits).iter().enumerate() {
            for left in [true, false] {
                let x = shift_val(&mut cx.rng, N, s, left);
                let a = u::<N>(&x);
                let mut fs: Vec<usize> = if core >= 2 || is_special(s, bits) { vec![0, 1] } else { vec![(si + pass) % 2] };
                let extra = extra_q / 4 + ((si % 4 < extra_q % 4) as usize);
                for _ in 0..extra { fs.push(2 + rot % (NF - 2)); rot += 1; }
                for f in fs {
                    if left { fixed_shl!(cx, f, Uint<N>, w, "uint", bits, false, a, &x, s) } else { fixed_shr!(cx, f, Uint<N>, w, "uint", bits, false, a, &x, s) }
                }
            }
        }
        // shift amounts that only a usize can carry: must not be truncated to u32
        for s in [(1u64 << 32) + 1, (1u64 << 32) + bits as u64 - 1, 1u64 << 32, (1 << 40) + 3] {
            let x = shift_val(&mut cx.rng, N, 1, true);
            let a = u::<N>(&x);
            for f in 0..3 {
                fixed_shl!(cx, f, Uint<N>, w, "uint", bits, false, a, &x, s);
                fixed_shr!(cx, f, Uint<N>, w, "uint", bits, false, a, &x, s);
            }
        }
    }
}

/// Int<N>: arithmetic right shift (ladder and limb move on every amount), left shift in rotation
fn int_shifts<const N: usize>(cx: &mut Cx, passes: usize) {
    let bits = 64 * N;
    let mut rot = 0usize;
    for _ in 0..passes {
        for &s in shifts(bits).iter() {
            let mut x = shift_val(&mut cx.rng, N, s, false);
            if cx.rng.chance(1, 3) { x[N - 1] |= TOP; }
            let a = si::<N>(&x);
            let fs: Vec<usize> = if rot % 2 == 0 || is_special(s, bits) { vec![0, 1, 2 + rot % (NF - 2)] } else { vec![0, 1] };
            for f in fs {
                fixed_shr!(cx, f, Int<N>, wi, "int", bits, true, a, &x, s);
            }
            rot += 1;
            let x = shift_val(&mut cx.rng, N, s, true);
            let a = si::<N>(&x);
            let f = if is_special(s, bits) { rot % 2 } else { rot % NF };
            fixed_shl!(cx, f, Int<N>, wi, "int", bits, true, a, &x, s);
            if is_special(s, bits) { fixed_shl!(cx, 2 + rot % (NF - 2), Int<N>, wi, "int", bits, true, a, &x, s); }
        }
        for s in [(1u64 << 32) + 1, (1u64 << 32) + bits as u64 - 1] {
            let mut x = shift_val(&mut cx.rng, N, 1, false);
            x[N - 1] |= TOP;
            let a = si::<N>(&x);
            for f in 0..3 {
                fixed_shl!(cx, f, Int<N>, wi, "int", bits, true, a, &x, s);
                fixed_shr!(cx, f, Int<N>, wi, "int", bits, true, a, &x, s);
            }
        }
    }
}

// ------------------------------------------------------------------------------------------------
// double-width shifts

fn wide_shifts<const N: usize>(cx: &mut Cx, passes: usize) {
    let bits = 64 * N;
    for _ in 0..passes {
        for &s in shifts(bits).iter() {
            if s > U32MAX { continue; }
            for left in [true, false] {
                // a 2N-limb value placed relative to the shift, split into halves
                let x = shift_val(&mut cx.rng, 2 * N, s, left);
                let (lo, hi) = (u::<N>(&x[..N]), u::<N>(&x[N..]));
                let ev = Ev::new(if left { "shlw" } else { "shrw" }, if left { "uint.overflowing_shl_vartime_wide" } else { "uint.overflowing_shr_vartime_wide" })
                    .i("w", bits as i64).n("lo", &x[..N]).n("hi", &x[N..]).nu("s", s as u128);
                cx.call(ev, || {
                    let o: Option<(Uint<N>, Uint<N>)> = if left { Uint::<N>::overflowing_shl_vartime_wide((lo, hi), s as u32).into() } else { Uint::<N>::overflowing_shr_vartime_wide((lo, hi), s as u32).into() };
                    match o { Some((l, h)) => O::ok().n("rlo", &w(&l)).n("rhi", &w(&h)), None => O::none() }
                });
            }
        }
    }
}

// ------------------------------------------------------------------------------------------------
// Limb

const NLF: usize = 12;
macro_rules! limb_shift_form {
    ($cx:expr, $f:expr, $op:literal, $x:expr, $s:expr; $sh:ident, $WT:ident, $wr:ident, $o:tt, $oa:tt) => {{
        let a = Limb($x);
        let s: u64 = $s;
        let mut f: usize = $f;
        if s > i32::MAX as u64 && (f == 4 || f == 5 || f == 9) { f -= 2; if f == 7 { f = 8 } }
        let s32 = s as u32;
        let mk = |form: &str, m: &str| Ev::new($op, form).i("w", 64).n("x", &[a.0]).nu("s", s as u128).s("m", m).f("sg", false);
        let okr = |r: Limb| O::ok().n("r", &[r.0]);
        match f {
            0 => $cx.call(mk(concat!("limb.", stringify!($sh)), "panic"), || okr(a.$sh(s32))),
            1 => $cx.call(mk(concat!("limb.", stringify!($WT), ".", stringify!($wr)), "mask"), || okr($WT::$wr(&a, s32))),
            2 => $cx.call(mk(concat!("limb.op_", $op, "_u32_v"), "panic"), || okr(a $o s32)),
            3 => $cx.call(mk(concat!("limb.op_", $op, "_u32_r"), "panic"), || okr(&a $o s32)),
            4 => $cx.call(mk(concat!("limb.op_", $op, "_i32_v"), "panic"), || okr(a $o (s as i32))),
            5 => $cx.call(mk(concat!("limb.op_", $op, "_i32_r"), "panic"), || okr(&a $o (s as i32))),
            6 => $cx.call(mk(concat!("limb.op_", $op, "_usize_v"), "panic"), || okr(a $o (s as usize))),
            7 => $cx.call(mk(concat!("limb.op_", $op, "_usize_r"), "panic"), || okr(&a $o (s as usize))),
            8 => $cx.call(mk(concat!("limb.op_", $op, "_assign_u32"), "panic"), || { let mut t = a; t $oa s32; okr(t) }),
            9 => $cx.call(mk(concat!("limb.op_", $op, "_assign_i32"), "panic"), || { let mut t = a; t $oa (s as i32); okr(t) }),
            10 => $cx.call(mk(concat!("limb.op_", $op, "_assign_usize"), "panic"), || { let mut t = a; t $oa (s as usize); okr(t) }),
            _ => $cx.call(mk(concat!("limb.wrapping.op_", $op, "_v"), "mask"), || okr((Wrapping(a) $o s32).0)),
        }
    }};
}

fn limb_val(r: &mut Rng, s: u64, left: bool) -> u64 {
    shift_val(r, 1, s, left)[0]
}

fn limb_shifts(cx: &mut Cx, passes: usize) {
    let mut rot = 0usize;
    for _ in 0..passes {
        for &s in shifts(64).iter() {
            for left in [true, false] {
                let x = limb_val(&mut cx.rng, s, left);
                for f in [0, 1, 2 + rot % (NLF - 2), 2 + (rot + 5) % (NLF - 2)] {
                    if left { limb_shift_form!(cx, f, "shl", x, s; shl, WrappingShl, wrapping_shl, <<, <<=) } else { limb_shift_form!(cx, f, "shr", x, s; shr, WrappingShr, wrapping_shr, >>, >>=) }
                }
                rot += 1;
            }
        }
        for s in [(1u64 << 32) + 1, (1u64 << 32) + 63] {
            let x = limb_val(&mut cx.rng, 1, true) | 1;
            for f in [6, 7, 10] {
                limb_shift_form!(cx, f, "shl", x, s; shl, WrappingShl, wrapping_shl, <<, <<=);
                limb_shift_form!(cx, f, "shr", x, s; shr, WrappingShr, wrapping_shr, >>, >>=);
            }
        }
    }
}

// ------------------------------------------------------------------------------------------------
// BoxedUint shifts

const NBF: usize = 21;
macro_rules! boxed_shift_form {
    ($cx:expr, $f:expr, $op:literal, $xw:expr, $s:expr;
     $sh:ident, $sh_assign:ident, $ovf:ident, $ovf_assign:ident, $wr:ident, $wr_vt:ident, $sh_vt:ident, $WT:ident, $VT:ident, $t_ovf:ident, $t_wr:ident, $o:tt, $oa:tt) => {{
        let xw: &[u64] = $xw;
        let bits = 64 * xw.len();
        let a = bx(xw);
        let s: u64 = $s;
        let mut f: usize = $f;
        if s > U32MAX { f = [14usize, 15, 18][f % 3]; }
        if s > i32::MAX as u64 && (f == 12 || f == 13 || f == 17) { f -= 2; }
        let s32 = s as u32;
        let mk = |form: &str, m: &str| Ev::new($op, form).i("w", bits as i64).n("x", xw).nu("s", s as u128).s("m", m).f("sg", false);
        let okr = |r: BoxedUint| O::ok().n("r", &wb(&r)).i("rp", r.bits_precision() as i64);
        let opt = |o: Option<BoxedUint>| match o { Some(r) => O::ok().n("r", &wb(&r)).i("rp", r.bits_precision() as i64), None => O::none() };
        match f {
            0 => $cx.call(mk(concat!("boxed.", stringify!($ovf)), "flag"), || { let (r, c) = a.$ovf(s32); okr(r).f("ov", bool::from(c)) }),
            1 => $cx.call(mk(concat!("boxed.", stringify!($sh_vt)), "none"), || opt(a.$sh_vt(s32))),
            2 => $cx.call(mk(concat!("boxed.", stringify!($sh)), "panic"), || okr(a.$sh(s32))),
            3 => $cx.call(mk(concat!("boxed.", stringify!($sh_assign)), "panic"), || { let mut t = a.clone(); BoxedUint::$sh_assign(&mut t, s32); okr(t) }),
            4 => $cx.call(mk(concat!("boxed.", stringify!($ovf_assign)), "flag"), || { let mut t = a.clone(); let c = t.$ovf_assign(s32); okr(t).f("ov", bool::from(c)) }),
            5 => $cx.call(mk(concat!("boxed.", stringify!($wr)), "zero"), || okr(a.$wr(s32))),
            6 => $cx.call(mk(concat!("boxed.", stringify!($wr_vt)), "zero"), || okr(a.$wr_vt(s32))),
            7 => $cx.call(mk(concat!("boxed.", stringify!($WT), ".", stringify!($wr)), "zero"), || okr($WT::$wr(&a, s32))),
            8 => $cx.call(mk(concat!("boxed.", stringify!($VT), ".", stringify!($t_ovf)), "none"), || opt($VT::$t_ovf(&a, s32).into())),
            9 => $cx.call(mk(concat!("boxed.", stringify!($VT), ".", stringify!($t_wr)), "zero"), || okr($VT::$t_wr(&a, s32))),
            10 => $cx.call(mk(concat!("boxed.op_", $op, "_u32_v"), "panic"), || okr(a.clone() $o s32)),
            11 => $cx.call(mk(concat!("boxed.op_", $op, "_u32_r"), "panic"), || okr(&a $o s32)),
            12 => $cx.call(mk(concat!("boxed.op_", $op, "_i32_v"), "panic"), || okr(a.clone() $o (s as i32))),
            13 => $cx.call(mk(concat!("boxed.op_", $op, "_i32_r"), "panic"), || okr(&a $o (s as i32))),
            14 => $cx.call(mk(concat!("boxed.op_", $op, "_usize_v"), "panic"), || okr(a.clone() $o (s as usize))),
            15 => $cx.call(mk(concat!("boxed.op_", $op, "_usize_r"), "panic"), || okr(&a $o (s as usize))),
            16 => $cx.call(mk(concat!("boxed.op_", $op, "_assign_u32"), "panic"), || { let mut t = a.clone(); t $oa s32; okr(t) }),
            17 => $cx.call(mk(concat!("boxed.op_", $op, "_assign_i32"), "panic"), || { let mut t = a.clone(); t $oa (s as i32); okr(t) }),
            18 => $cx.call(mk(concat!("boxed.op_", $op, "_assign_usize"), "panic"), || { let mut t = a.clone(); t $oa (s as usize); okr(t) }),
            19 => $cx.call(mk(concat!("boxed.wrapping.op_", $op, "_v"), "zero"), || okr((Wrapping(a.clone()) $o s32).0)),
            _ => $cx.call(mk(concat!("boxed.wrapping.op_", $op, "_r"), "zero"), || okr((&Wrapping(a.clone()) $o s32).0)),
        }
    }};
}
macro_rules! boxed_shl {
    ($cx:expr, $f:expr, $xw:expr, $s:expr) => {
        boxed_shift_form!($cx, $f, "shl", $xw, $s; shl, shl_assign, overflowing_shl, overflowing_shl_assign, wrapping_shl, wrapping_shl_vartime,
            shl_vartime, WrappingShl, ShlVartime, overflowing_shl_vartime, wrapping_shl_vartime, <<, <<=)
    };
}
macro_rules! boxed_shr {
    ($cx:expr, $f:expr, $xw:expr, $s:expr) => {
        boxed_shift_form!($cx, $f, "shr", $xw, $s; shr, shr_assign, overflowing_shr, overflowing_shr_assign, wrapping_shr, wrapping_shr_vartime,
            shr_vartime, WrappingShr, ShrVartime, overflowing_shr_vartime, wrapping_shr_vartime, >>, >>=)
    };
}

/// sizes 1..=20 limbs; shift amounts exhaustive up to `exh` limbs, boundary amounts above
fn boxed_shifts(cx: &mut Cx, exh: usize, passes: usize) {
    let mut rot = 0usize;
    for _ in 0..passes {
        for n in 1..=20usize {
            let bits = 64 * n;
            let list = if n <= exh { shifts(bits) } else { special_shifts(bits) };
            for (si, &s) in list.iter().enumerate() {
                for left in [true, false] {
                    let x = shift_val(&mut cx.rng, n, s, left);
                    let fs: Vec<usize> = if n <= exh { vec![0, 1, 2 + rot % (NBF - 2)] } else { vec![si % 2, 2 + rot % (NBF - 2)] };
                    rot += 1;
                    for f in fs {
                        if left { boxed_shl!(cx, f, &x, s) } else { boxed_shr!(cx, f, &x, s) }
                    }
                }
            }
            for s in [(1u64 << 32) + 1, (1u64 << 32) + bits as u64 - 1] {
                let x = shift_val(&mut cx.rng, n, 1, true);
                boxed_shl!(cx, rot, &x, s);
                boxed_shr!(cx, rot + 1, &x, s);
                rot += 1;
            }
        }
    }
}

// ------------------------------------------------------------------------------------------------
// bit length and scans

fn q(op: &str, form: &str, bits: usize, x: &[u64]) -> Ev {
    Ev::new(op, form).i("w", bits as i64).n("x", x)
}
fn oi(r: u32) -> O {
    O::ok().i("r", r as i64)
}

const NSF: usize = 16; // scan forms in rotation (two precision queries follow)
fn uint_scan_form<const N: usize>(cx: &mut Cx, f: usize, x: &[u64]) {
    let a = u::<N>(x);
    let b = 64 * N;
    match f {
        0 => cx.call(q("bits", "uint.bits", b, x), || oi(a.bits())),
        1 => cx.call(q("bits", "uint.bits_vartime", b, x), || oi(a.bits_vartime())),
        2 => cx.call(q("lz", "uint.leading_zeros", b, x), || oi(a.leading_zeros())),
        3 => cx.call(q("lz", "uint.leading_zeros_vartime", b, x), || oi(a.leading_zeros_vartime())),
        4 => cx.call(q("tz", "uint.trailing_zeros", b, x), || oi(a.trailing_zeros())),
        5 => cx.call(q("tz", "uint.trailing_zeros_vartime", b, x), || oi(a.trailing_zeros_vartime())),
        6 => cx.call(q("to", "uint.trailing_ones", b, x), || oi(a.trailing_ones())),
        7 => cx.call(q("to", "uint.trailing_ones_vartime", b, x), || oi(a.trailing_ones_vartime())),
        8 => cx.call(q("bits", "uint.BitOps.bits", b, x), || oi(BitOps::bits(&a))),
        9 => cx.call(q("bits", "uint.BitOps.bits_vartime", b, x), || oi(BitOps::bits_vartime(&a))),
        10 => cx.call(q("lz", "uint.BitOps.leading_zeros", b, x), || oi(BitOps::leading_zeros(&a))),
        11 => cx.call(q("lz", "uint.BitOps.leading_zeros_vartime", b, x), || oi(BitOps::leading_zeros_vartime(&a))),
        12 => cx.call(q("tz", "uint.BitOps.trailing_zeros", b, x), || oi(BitOps::trailing_zeros(&a))),
        13 => cx.call(q("tz", "uint.BitOps.trailing_zeros_vartime", b, x), || oi(BitOps::trailing_zeros_vartime(&a))),
        14 => cx.call(q("to", "uint.BitOps.trailing_ones", b, x), || oi(BitOps::trailing_ones(&a))),
        15 => cx.call(q("to", "uint.BitOps.trailing_ones_vartime", b, x), || oi(BitOps::trailing_ones_vartime(&a))),
        16 => cx.call(q("prec", "uint.BitOps.bits_precision", b, x), || oi(BitOps::bits_precision(&a))),
        _ => cx.call(q("prec8", "uint.BitOps.bytes_precision", b, x), || oi(BitOps::bytes_precision(&a) as u32)),
    }
}

fn boxed_scan_form(cx: &mut Cx, f: usize, x: &[u64]) {
    let a = bx(x);
    let b = 64 * x.len();
    match f {
        0 => cx.call(q("bits", "boxed.bits", b, x), || oi(a.bits())),
        1 => cx.call(q("bits", "boxed.bits_vartime", b, x), || oi(a.bits_vartime())),
        2 => cx.call(q("lz", "boxed.leading_zeros", b, x), || oi(a.leading_zeros())),
        3 => cx.call(q("lz", "boxed.BitOps.leading_zeros_vartime", b, x), || oi(BitOps::leading_zeros_vartime(&a))),
        4 => cx.call(q("tz", "boxed.trailing_zeros", b, x), || oi(a.trailing_zeros())),
        5 => cx.call(q("tz", "boxed.trailing_zeros_vartime", b, x), || oi(a.trailing_zeros_vartime())),
        6 => cx.call(q("to", "boxed.trailing_ones", b, x), || oi(a.trailing_ones())),
        7 => cx.call(q("to", "boxed.trailing_ones_vartime", b, x), || oi(a.trailing_ones_vartime())),
        8 => cx.call(q("bits", "boxed.BitOps.bits", b, x), || oi(BitOps::bits(&a))),
        9 => cx.call(q("bits", "boxed.BitOps.bits_vartime", b, x), || oi(BitOps::bits_vartime(&a))),
        10 => cx.call(q("lz", "boxed.BitOps.leading_zeros", b, x), || oi(BitOps::leading_zeros(&a))),
        11 => cx.call(q("lz", "boxed.leading_zeros_b", b, x), || oi(a.leading_zeros())),
        12 => cx.call(q("tz", "boxed.BitOps.trailing_zeros", b, x), || oi(BitOps::trailing_zeros(&a))),
        13 => cx.call(q("tz", "boxed.BitOps.trailing_zeros_vartime", b, x), || oi(BitOps::trailing_zeros_vartime(&a))),
        14 => cx.call(q("to", "boxed.BitOps.trailing_ones", b, x), || oi(BitOps::trailing_ones(&a))),
        15 => cx.call(q("to", "boxed.BitOps.trailing_ones_vartime", b, x), || oi(BitOps::trailing_ones_vartime(&a))),
        16 => cx.call(q("prec", "boxed.BitOps.bits_precision", b, x), || oi(BitOps::bits_precision(&a))),
        17 => cx.call(q("prec", "boxed.bits_precision", b, x), || oi(a.bits_precision())),
        _ => cx.call(q("prec8", "boxed.BitOps.bytes_precision", b, x), || oi(BitOps::bytes_precision(&a) as u32)),
    }
}

fn limb_scan_form(cx: &mut Cx, f: usize, x: u64) {
    let a = Limb(x);
    let xs = [x];
    match f % 4 {
        0 => cx.call(q("bits", "limb.bits", 64, &xs), || oi(a.bits())),
        1 => cx.call(q("lz", "limb.leading_zeros", 64, &xs), || oi(a.leading_zeros())),
        2 => cx.call(q("tz", "limb.trailing_zeros", 64, &xs), || oi(a.trailing_zeros())),
        _ => cx.call(q("to", "limb.trailing_ones", 64, &xs), || oi(a.trailing_ones())),
    }
}

/// the values whose scans have a known, position-dependent answer: for every position p the single bit 2^p,
/// the run 2^p - 1, the high run MAX << p and the single hole !(2^p); plus 0, MAX and structured values.
/// `k` scan forms per value, taken in rotation from the forms that distinguish the value.
fn scan_values(r: &mut Rng, n: usize, p: usize) -> [Vec<u64>; 4] {
    let _ = r;
    [single_bit(n, p), low_ones(n, p), vnot(&low_ones(n, p)), vnot(&single_bit(n, p))]
}

fn uint_scans<const N: usize>(cx: &mut Cx, stride: usize, k: usize) {
    let mut rot = 0usize;
    for p in (0..64 * N).step_by(stride).chain([64 * N - 1]) {
        for x in scan_values(&mut cx.rng, N, p).iter() {
            for _ in 0..k { uint_scan_form::<N>(cx, rot % NSF, x); rot += 7; }   // 7 is coprime to 16: all forms in turn
        }
    }
    for x in [vec![0u64; N], vec![MAX; N], fit(vec![1], N)] {
        for f in 0..NSF + 2 { uint_scan_form::<N>(cx, f, &x); }
    }
    for _ in 0..24 {
        let x = nat(&mut cx.rng, N);
        for _ in 0..2 { uint_scan_form::<N>(cx, rot % NSF, &x); rot += 7; }
    }
}

fn boxed_scans(cx: &mut Cx, exh: usize) {
    let mut rot = 0usize;
    for n in 1..=20usize {
        let stride = if n <= exh { 1 } else { 37 };
        let mut ps: Vec<usize> = (0..64 * n).step_by(stride).collect();
        for k in 1..=n { if k % 3 == n % 3 || k + 1 >= n { ps.extend_from_slice(&[64 * k - 1, 64 * k - 64]); } }
        ps.sort();
        ps.dedup();
        for p in ps {
            for x in scan_values(&mut cx.rng, n, p).iter() {
                boxed_scan_form(cx, rot % NSF, x);
                rot += 7;
            }
        }
        for (j, x) in [vec![0u64; n], vec![MAX; n], fit(vec![1], n)].iter().enumerate() {
            for f in 0..NSF + 3 { if n <= 4 || f % 3 == j || f >= NSF { boxed_scan_form(cx, f, x); } }
        }
        for _ in 0..6 {
            let x = nat(&mut cx.rng, n);
            boxed_scan_form(cx, rot % NSF, &x);
            rot += 7;
        }
    }
}

fn limb_scans(cx: &mut Cx) {
    for p in 0..64 {
        for (j, x) in scan_values(&mut cx.rng, 1, p).iter().enumerate() {
            for f in [j, j + 1 + p % 3] { limb_scan_form(cx, f, x[0]); }
        }
    }
    for x in [0, MAX, 1, TOP] {
        for f in 0..4 { limb_scan_form(cx, f, x); }
    }
    for _ in 0..40 {
        let x = limb(&mut cx.rng);
        for f in 0..4 { limb_scan_form(cx, f, x); }
    }
}

// ------------------------------------------------------------------------------------------------
// bit test and bit set

fn bit_indices(bits: usize) -> Vec<u64> {
    let mut v: Vec<u64> = (0..=(bits as u64 + 1)).collect();
    v.extend_from_slice(&[bits as u64 + 63, bits as u64 + 64, 2 * bits as u64, U32MAX, 1 << 31, U32MAX - 63, U32MAX - 64]);
    v
}

/// a value for a query about bit i: the bit alone, everything but the bit, neighbours, structured
fn bit_val(r: &mut Rng, n: usize, i: u64) -> Vec<u64> {
    let bits = 64 * n;
    let p = (i % bits as u64) as usize;
    match r.below(8) {
        0 => single_bit(n, p),
        1 => vnot(&single_bit(n, p)),
        2 => { let mut v = single_bit(n, (p + 1) % bits); let t = single_bit(n, (p + bits - 1) % bits); for j in 0..n { v[j] |= t[j]; } v }
        3 => single_bit(n, (p + 64) % bits),            // same position in the next limb
        4 => vec![MAX; n],
        5 => low_ones(n, p),
        6 => vec![0; n],
        _ => nat(r, n),
    }
}

fn qi(op: &str, form: &str, bits: usize, x: &[u64], i: u64) -> Ev {
    Ev::new(op, form).i("w", bits as i64).n("x", x).nu("i", i as u128)
}

fn uint_bits<const N: usize>(cx: &mut Cx, stride: usize) {
    let b = 64 * N;
    let mut rot = 0usize;
    for (ii, &i) in bit_indices(b).iter().enumerate() {
        if stride > 1 && ii % stride != 0 && !(i % 64 == 0 || i % 64 == 63 || i + 2 >= b as u64) { continue; }
        let i32_ = i as u32;
        let x = bit_val(&mut cx.rng, N, i);
        let a = u::<N>(&x);
        // bit test: masked scan and direct index on the same input
        cx.call(qi("bit", "uint.bit", b, &x, i), || O::ok().f("r", a.bit(i32_).into()));
        cx.call(qi("bit", "uint.bit_vartime", b, &x, i), || O::ok().f("r", a.bit_vartime(i32_)));
        if rot % 3 == 0 {
            cx.call(qi("bit", "uint.BitOps.bit", b, &x, i), || O::ok().f("r", bool::from(BitOps::bit(&a, i32_))));
            cx.call(qi("bit", "uint.BitOps.bit_vartime", b, &x, i), || O::ok().f("r", BitOps::bit_vartime(&a, i32_)));
        }
        // bit set / clear (only reachable through BitOps)
        let x = bit_val(&mut cx.rng, N, i);
        let a = u::<N>(&x);
        let v = rot % 2 == 0;
        cx.call(qi("setbit", "uint.BitOps.set_bit", b, &x, i).f("v", v), || { let mut t = a; BitOps::set_bit(&mut t, i32_, Choice::from(v as u8)); O::ok().n("r", &w(&t)) });
        cx.call(qi("setbit", "uint.BitOps.set_bit_vartime", b, &x, i).f("v", v), || { let mut t = a; BitOps::set_bit_vartime(&mut t, i32_, v); O::ok().n("r", &w(&t)) });
        if rot % 3 == 1 {
            cx.call(qi("setbit", "uint.BitOps.set_bit", b, &x, i).f("v", !v), || { let mut t = a; BitOps::set_bit(&mut t, i32_, Choice::from(!v as u8)); O::ok().n("r", &w(&t)) });
            cx.call(qi("setbit", "uint.BitOps.set_bit_vartime", b, &x, i).f("v", !v), || { let mut t = a; BitOps::set_bit_vartime(&mut t, i32_, !v); O::ok().n("r", &w(&t)) });
        }
        rot += 1;
    }
}

fn boxed_bits(cx: &mut Cx, exh: usize) {
    let mut rot = 0usize;
    for n in 1..=20usize {
        let b = 64 * n;
        for (ii, &i) in bit_indices(b).iter().enumerate() {
            if n > exh && ii % 23 != 0 && !(i % 64 == 0 || i % 64 == 63 || i + 2 >= b as u64) { continue; }
            let i32_ = i as u32;
            let x = bit_val(&mut cx.rng, n, i);
            let a = bx(&x);
            match rot % 4 {
                0 => cx.call(qi("bit", "boxed.bit", b, &x, i), || O::ok().f("r", bool::from(a.bit(i32_)))),
                1 => cx.call(qi("bit", "boxed.bit_vartime", b, &x, i), || O::ok().f("r", a.bit_vartime(i32_))),
                2 => cx.call(qi("bit", "boxed.BitOps.bit", b, &x, i), || O::ok().f("r", bool::from(BitOps::bit(&a, i32_)))),
                _ => cx.call(qi("bit", "boxed.BitOps.bit_vartime", b, &x, i), || O::ok().f("r", BitOps::bit_vartime(&a, i32_))),
            }
            if n <= exh {
                cx.call(qi("bit", "boxed.bit", b, &x, i), || O::ok().f("r", bool::from(a.bit(i32_))));
                cx.call(qi("bit", "boxed.bit_vartime", b, &x, i), || O::ok().f("r", a.bit_vartime(i32_)));
            }
            let v = (rot / 2) % 2 == 0;
            if rot % 2 == 0 || n <= exh {
                cx.call(qi("setbit", "boxed.BitOps.set_bit", b, &x, i).f("v", v), || { let mut t = a.clone(); BitOps::set_bit(&mut t, i32_, Choice::from(v as u8)); O::ok().n("r", &wb(&t)).i("rp", t.bits_precision() as i64) });
            }
            if rot % 2 == 1 || n <= exh {
                cx.call(qi("setbit", "boxed.BitOps.set_bit_vartime", b, &x, i).f("v", v), || { let mut t = a.clone(); BitOps::set_bit_vartime(&mut t, i32_, v); O::ok().n("r", &wb(&t)).i("rp", t.bits_precision() as i64) });
            }
            rot += 1;
        }
    }
}

// ------------------------------------------------------------------------------------------------
// bitwise operators

fn pair(r: &mut Rng, n: usize) -> (Vec<u64>, Vec<u64>) {
    let a = nat(r, n);
    let b = match r.below(8) {
        0 => a.clone(),
        1 => vnot(&a),
        2 => vec![0; n],
        3 => vec![MAX; n],
        4 => single_bit(n, r.below(64 * n)),
        5 => low_ones(n, 64 * r.range(0, n)),
        _ => nat(r, n),
    };
    if r.coin() { (a, b) } else { (b, a) }
}

fn e2(op: &str, form: &str, bits: usize, a: &[u64], b: &[u64]) -> Ev {
    Ev::new(op, form).i("w", bits as i64).n("a", a).n("b", b)
}

/// and / or / xor in every form, for a Copy fixed-width type ($T = Uint<N> or Int<N>)
macro_rules! fixed_bitwise {
    ($cx:expr, $f:expr, $T:ty, $wd:ident, $pre:literal, $op:literal, $bits:expr, $a:expr, $b:expr, $aw:expr, $bw:expr;
     $m:ident, $wr:ident, $ck:ident, $o:tt, $oa:tt) => {{
        let (a, b): ($T, $T) = ($a, $b);
        let mk = |form: &str| e2($op, form, $bits, $aw, $bw);
        let okr = |r: $T| O::ok().n("r", &$wd(&r));
        match $f % 16 {
            0 => $cx.call(mk(concat!($pre, ".", stringify!($m))), || okr(a.$m(&b))),
            1 => $cx.call(mk(concat!($pre, ".", stringify!($wr))), || okr(a.$wr(&b))),
            2 => $cx.call(mk(concat!($pre, ".", stringify!($ck))), || match Option::<$T>::from(a.$ck(&b)) { Some(r) => okr(r), None => O::none() }),
            3 => $cx.call(mk(concat!($pre, ".op_", $op, "_vv")), || okr(a $o b)),
            4 => $cx.call(mk(concat!($pre, ".op_", $op, "_vr")), || okr(a $o &b)),
            5 => $cx.call(mk(concat!($pre, ".op_", $op, "_rv")), || okr(&a $o b)),
            6 => $cx.call(mk(concat!($pre, ".op_", $op, "_rr")), || okr(&a $o &b)),
            7 => $cx.call(mk(concat!($pre, ".op_", $op, "_assign_v")), || { let mut t = a; t $oa b; okr(t) }),
            8 => $cx.call(mk(concat!($pre, ".op_", $op, "_assign_r")), || { let mut t = a; t $oa &b; okr(t) }),
            9 => $cx.call(mk(concat!($pre, ".wrapping.op_", $op, "_vv")), || okr((Wrapping(a) $o Wrapping(b)).0)),
            10 => $cx.call(mk(concat!($pre, ".wrapping.op_", $op, "_vr")), || okr((Wrapping(a) $o &Wrapping(b)).0)),
            11 => $cx.call(mk(concat!($pre, ".wrapping.op_", $op, "_rv")), || okr((&Wrapping(a) $o Wrapping(b)).0)),
            12 => $cx.call(mk(concat!($pre, ".wrapping.op_", $op, "_rr")), || okr((&Wrapping(a) $o &Wrapping(b)).0)),
            13 => $cx.call(mk(concat!($pre, ".wrapping.op_", $op, "_assign_v")), || { let mut t = Wrapping(a); t $oa Wrapping(b); okr(t.0) }),
            14 => $cx.call(mk(concat!($pre, ".wrapping.op_", $op, "_assign_r")), || { let mut t = Wrapping(a); t $oa &Wrapping(b); okr(t.0) }),
            _ => $cx.call(mk(concat!($pre, ".", stringify!($m), "_b")), || okr(b.$m(&a))),
        }
    }};
}

fn uint_bitwise<const N: usize>(cx: &mut Cx, iters: usize) {
    let bits = 64 * N;
    let mut rot = 0usize;
    for _ in 0..iters {
        let (x, y) = pair(&mut cx.rng, N);
        let (a, b) = (u::<N>(&x), u::<N>(&y));
        for _ in 0..2 {
            fixed_bitwise!(cx, rot, Uint<N>, w, "uint", "and", bits, a, b, &x, &y; bitand, wrapping_and, checked_and, &, &=);
            fixed_bitwise!(cx, rot + 5, Uint<N>, w, "uint", "or", bits, a, b, &x, &y; bitor, wrapping_or, checked_or, |, |=);
            fixed_bitwise!(cx, rot + 10, Uint<N>, w, "uint", "xor", bits, a, b, &x, &y; bitxor, wrapping_xor, checked_xor, ^, ^=);
            rot += 1;
        }
        let l = limb(&mut cx.rng);
        cx.call(Ev::new("andl", "uint.bitand_limb").i("w", bits as i64).n("a", &x).n("l", &[l]), || O::ok().n("r", &w(&a.bitand_limb(Limb(l)))));
        match rot % 3 {
            0 => cx.call(Ev::new("not", "uint.not").i("w", bits as i64).n("a", &x), || O::ok().n("r", &w(&a.not()))),
            1 => cx.call(Ev::new("not", "uint.op_not").i("w", bits as i64).n("a", &x), || O::ok().n("r", &w(&!a))),
            _ => cx.call(Ev::new("not", "uint.wrapping.op_not").i("w", bits as i64).n("a", &x), || O::ok().n("r", &w(&(!Wrapping(a)).0))),
        }
    }
}

fn int_bitwise<const N: usize>(cx: &mut Cx, iters: usize) {
    let bits = 64 * N;
    let mut rot = 0usize;
    for _ in 0..iters {
        let (x, y) = pair(&mut cx.rng, N);
        let (a, b) = (si::<N>(&x), si::<N>(&y));
        fixed_bitwise!(cx, rot, Int<N>, wi, "int", "and", bits, a, b, &x, &y; bitand, wrapping_and, checked_and, &, &=);
        fixed_bitwise!(cx, rot + 5, Int<N>, wi, "int", "or", bits, a, b, &x, &y; bitor, wrapping_or, checked_or, |, |=);
        fixed_bitwise!(cx, rot + 10, Int<N>, wi, "int", "xor", bits, a, b, &x, &y; bitxor, wrapping_xor, checked_xor, ^, ^=);
        rot += 1;
        let l = limb(&mut cx.rng);
        cx.call(Ev::new("andl", "int.bitand_limb").i("w", bits as i64).n("a", &x).n("l", &[l]), || O::ok().n("r", &wi(&a.bitand_limb(Limb(l)))));
        match rot % 3 {
            0 => cx.call(Ev::new("not", "int.not").i("w", bits as i64).n("a", &x), || O::ok().n("r", &wi(&a.not()))),
            1 => cx.call(Ev::new("not", "int.op_not").i("w", bits as i64).n("a", &x), || O::ok().n("r", &wi(&!a))),
            _ => cx.call(Ev::new("not", "int.wrapping.op_not").i("w", bits as i64).n("a", &x), || O::ok().n("r", &wi(&(!Wrapping(a)).0))),
        }
    }
}

macro_rules! boxed_bitwise {
    ($cx:expr, $f:expr, $op:literal, $bits:expr, $a:expr, $b:expr, $aw:expr, $bw:expr, $same:expr; $m:ident, $wr:ident, $ck:ident, $o:tt, $oa:tt) => {{
        let (a, b): (&BoxedUint, &BoxedUint) = ($a, $b);
        let mk = |form: &str| { let e = e2($op, form, $bits, $aw, $bw); if $same { e } else { e.i("aw", 64 * $aw.len() as i64) } };
        // the result precision is only stated (by construction) for equal precisions
        let okr = |r: BoxedUint| { let o = O::ok().n("r", &wb(&r)); if $same { o.i("rp", r.bits_precision() as i64) } else { o } };
        match $f % 15 {
            0 => $cx.call(mk(concat!("boxed.", stringify!($m))), || okr(a.$m(b))),
            1 => $cx.call(mk(concat!("boxed.", stringify!($wr))), || okr(a.$wr(b))),
            2 => $cx.call(mk(concat!("boxed.", stringify!($ck))), || match Option::<BoxedUint>::from(a.$ck(b)) { Some(r) => okr(r), None => O::none() }),
            3 => $cx.call(mk(concat!("boxed.op_", $op, "_vv")), || okr(a.clone() $o b.clone())),
            4 => $cx.call(mk(concat!("boxed.op_", $op, "_vr")), || okr(a.clone() $o b)),
            5 => $cx.call(mk(concat!("boxed.op_", $op, "_rv")), || okr(a $o b.clone())),
            6 => $cx.call(mk(concat!("boxed.op_", $op, "_rr")), || okr(a $o b)),
            7 => $cx.call(mk(concat!("boxed.op_", $op, "_assign_v")), || { let mut t = a.clone(); t $oa b.clone(); okr(t) }),
            8 => $cx.call(mk(concat!("boxed.op_", $op, "_assign_r")), || { let mut t = a.clone(); t $oa b; okr(t) }),
            9 => $cx.call(mk(concat!("boxed.wrapping.op_", $op, "_vv")), || okr((Wrapping(a.clone()) $o Wrapping(b.clone())).0)),
            10 => $cx.call(mk(concat!("boxed.wrapping.op_", $op, "_vr")), || okr((Wrapping(a.clone()) $o &Wrapping(b.clone())).0)),
            11 => $cx.call(mk(concat!("boxed.wrapping.op_", $op, "_rv")), || okr((&Wrapping(a.clone()) $o Wrapping(b.clone())).0)),
            12 => $cx.call(mk(concat!("boxed.wrapping.op_", $op, "_rr")), || okr((&Wrapping(a.clone()) $o &Wrapping(b.clone())).0)),
            13 => $cx.call(mk(concat!("boxed.wrapping.op_", $op, "_assign_v")), || { let mut t = Wrapping(a.clone()); t $oa Wrapping(b.clone()); okr(t.0) }),
            _ => $cx.call(mk(concat!("boxed.wrapping.op_", $op, "_assign_r")), || { let mut t = Wrapping(a.clone()); t $oa &Wrapping(b.clone()); okr(t.0) }),
        }
    }};
}


/// different precisions on the two sides, both operands with significant bits in every limb, every form each time
/// (a narrower right-hand side counts as zero-extended: `a & b` clears the limbs of `a` above it)
fn boxed_bitwise_mixed(cx: &mut Cx, iters: usize) {
    for it in 0..iters {
        let n = 2 + it % 9;
        let m = if it % 2 == 0 { 1 + (it / 2) % (n - 1) } else { n + 1 + it % 3 };
        let full = |r: &mut Rng, k: usize| -> Vec<u64> { let mut v = nat(r, k); for w in v.iter_mut() { *w |= 0x8000_0000_0001_0000; } v };
        let (x, y) = (full(&mut cx.rng, n), full(&mut cx.rng, m));
        let bits = 64 * n.max(m);
        let (a, b) = (bx(&x), bx(&y));
        for f in 0..15usize {
            boxed_bitwise!(cx, f, "and", bits, &a, &b, &x, &y, false; bitand, wrapping_and, checked_and, &, &=);
            boxed_bitwise!(cx, f, "or", bits, &a, &b, &x, &y, false; bitor, wrapping_or, checked_or, |, |=);
            boxed_bitwise!(cx, f, "xor", bits, &a, &b, &x, &y, false; bitxor, wrapping_xor, checked_xor, ^, ^=);
        }
    }
}

fn boxed_bitwise_all(cx: &mut Cx, iters: usize) {
    let mut rot = 0usize;
    for it in 0..iters {
        let n = 1 + it % 20;
        let (x, mut y) = pair(&mut cx.rng, n);
        // one in five with a different precision on the right (undocumented territory: `aw` = left precision)
        let same = !cx.rng.chance(1, 5);
        if !same { let m = cx.rng.range(1, 20); y = nat(&mut cx.rng, m); }
        let bits = 64 * n.max(y.len());
        let (a, b) = (bx(&x), bx(&y));
        boxed_bitwise!(cx, rot, "and", bits, &a, &b, &x, &y, same; bitand, wrapping_and, checked_and, &, &=);
        boxed_bitwise!(cx, rot + 5, "or", bits, &a, &b, &x, &y, same; bitor, wrapping_or, checked_or, |, |=);
        boxed_bitwise!(cx, rot + 10, "xor", bits, &a, &b, &x, &y, same; bitxor, wrapping_xor, checked_xor, ^, ^=);
        rot += 1;
        let l = limb(&mut cx.rng);
        cx.call(Ev::new("andl", "boxed.bitand_limb").i("w", 64 * n as i64).n("a", &x).n("l", &[l]), || { let r = a.bitand_limb(Limb(l)); O::ok().n("r", &wb(&r)).i("rp", r.bits_precision() as i64) });
        match rot % 3 {
            0 => cx.call(Ev::new("not", "boxed.not").i("w", 64 * n as i64).n("a", &x), || { let r = a.not(); O::ok().n("r", &wb(&r)).i("rp", r.bits_precision() as i64) }),
            1 => cx.call(Ev::new("not", "boxed.op_not").i("w", 64 * n as i64).n("a", &x), || { let r = !a.clone(); O::ok().n("r", &wb(&r)).i("rp", r.bits_precision() as i64) }),
            _ => cx.call(Ev::new("not", "boxed.wrapping.op_not").i("w", 64 * n as i64).n("a", &x), || { let r = (!Wrapping(a.clone())).0; O::ok().n("r", &wb(&r)).i("rp", r.bits_precision() as i64) }),
        }
    }
}

fn limb_bitwise(cx: &mut Cx, iters: usize) {
    for it in 0..iters {
        let (x, y) = pair(&mut cx.rng, 1);
        let (a, b) = (Limb(x[0]), Limb(y[0]));
        let okr = |r: Limb| O::ok().n("r", &[r.0]);
        match it % 4 {
            0 => {
                cx.call(e2("and", "limb.bitand", 64, &x, &y), || okr(a.bitand(b)));
                cx.call(e2("or", "limb.bitor", 64, &x, &y), || okr(a.bitor(b)));
                cx.call(e2("xor", "limb.bitxor", 64, &x, &y), || okr(a.bitxor(b)));
                cx.call(Ev::new("not", "limb.not").i("w", 64).n("a", &x), || okr(a.not()));
            }
            1 => {
                cx.call(e2("and", "limb.op_and", 64, &x, &y), || okr(a & b));
                cx.call(e2("or", "limb.op_or", 64, &x, &y), || okr(a | b));
                cx.call(e2("xor", "limb.op_xor", 64, &x, &y), || okr(a ^ b));
                cx.call(Ev::new("not", "limb.op_not").i("w", 64).n("a", &x), || okr(!a));
            }
            2 => {
                cx.call(e2("and", "limb.op_and_assign_v", 64, &x, &y), || { let mut t = a; t &= b; okr(t) });
                cx.call(e2("or", "limb.op_or_assign_v", 64, &x, &y), || { let mut t = a; t |= b; okr(t) });
                cx.call(e2("xor", "limb.op_xor_assign_v", 64, &x, &y), || { let mut t = a; t ^= b; okr(t) });
            }
            _ => {
                cx.call(e2("and", "limb.op_and_assign_r", 64, &x, &y), || { let mut t = a; t &= &b; okr(t) });
                cx.call(e2("or", "limb.op_or_assign_r", 64, &x, &y), || { let mut t = a; t |= &b; okr(t) });
            }
        }
    }
}

// ------------------------------------------------------------------------------------------------

fn main() {
    let mut cx = Cx::from_args("C05");
    let s = cx.scale;
    let thorough = s > 1;
    // passes: each pass draws a fresh value per (shift amount, form)
    let p = if thorough { s / 2 } else { 1 };
    if cx.want("uint_shift") {
        let t = thorough;
        uint_shifts::<1>(&mut cx, 2, if t { 16 } else { 8 }, p);
        uint_shifts::<2>(&mut cx, 2, if t { 16 } else { 8 }, p);
        uint_shifts::<3>(&mut cx, 2, if t { 16 } else { 4 }, p);
        uint_shifts::<4>(&mut cx, 2, if t { 16 } else { 4 }, p);
        uint_shifts::<5>(&mut cx, if t { 2 } else { 1 }, if t { 8 } else { 4 }, p);
        uint_shifts::<6>(&mut cx, if t { 2 } else { 1 }, if t { 8 } else { 4 }, p);
        uint_shifts::<8>(&mut cx, if t { 2 } else { 1 }, if t { 4 } else { 2 }, p);
        uint_shifts::<16>(&mut cx, if t { 2 } else { 1 }, if t { 4 } else { 0 }, p);
    }
    if cx.want("int_shift") {
        int_shifts::<1>(&mut cx, p);
        int_shifts::<2>(&mut cx, p);
        int_shifts::<3>(&mut cx, p);
        int_shifts::<4>(&mut cx, p);
        if thorough { int_shifts::<5>(&mut cx, 1); int_shifts::<8>(&mut cx, 1); }
    }
    if cx.want("wide_shift") {
        wide_shifts::<1>(&mut cx, p);
        wide_shifts::<2>(&mut cx, p);
        wide_shifts::<3>(&mut cx, p);
        wide_shifts::<4>(&mut cx, p);
        if thorough { wide_shifts::<5>(&mut cx, 2); wide_shifts::<6>(&mut cx, 2); wide_shifts::<8>(&mut cx, 1); wide_shifts::<16>(&mut cx, 1); }
    }
    if cx.want("limb_shift") {
        limb_shifts(&mut cx, p);
    }
    if cx.want("boxed_shift") {
        boxed_shifts(&mut cx, if thorough { 20 } else { 2 }, if thorough { 2 } else { 1 });
    }
    if cx.want("scan") {
        // the scanned values are a fixed family (every position): thorough = more forms per value, all positions
        let k = if thorough { 4 } else { 1 };
        uint_scans::<1>(&mut cx, 1, 2 * k);
        uint_scans::<2>(&mut cx, 1, k);
        uint_scans::<3>(&mut cx, 1, k);
        uint_scans::<4>(&mut cx, 1, k);
        uint_scans::<5>(&mut cx, if thorough { 1 } else { 3 }, k);
        uint_scans::<6>(&mut cx, if thorough { 1 } else { 3 }, k);
        uint_scans::<8>(&mut cx, if thorough { 1 } else { 5 }, k);
        uint_scans::<16>(&mut cx, if thorough { 1 } else { 7 }, k);
        boxed_scans(&mut cx, if thorough { 20 } else { 1 });
        for _ in 0..k { limb_scans(&mut cx); }
    }
    if cx.want("bit_index") {
        for _ in 0..(p + 1) / 2 {
            uint_bits::<1>(&mut cx, 1);
            uint_bits::<2>(&mut cx, 1);
            uint_bits::<3>(&mut cx, 1);
            uint_bits::<4>(&mut cx, 1);
            uint_bits::<5>(&mut cx, if thorough { 1 } else { 3 });
            uint_bits::<6>(&mut cx, if thorough { 1 } else { 3 });
            uint_bits::<8>(&mut cx, if thorough { 1 } else { 4 });
            uint_bits::<16>(&mut cx, if thorough { 1 } else { 8 });
        }
        boxed_bits(&mut cx, if thorough { 20 } else { 1 });
    }
    if cx.want("bitwise") {
        uint_bitwise::<1>(&mut cx, 30 * s);
        uint_bitwise::<2>(&mut cx, 30 * s);
        uint_bitwise::<3>(&mut cx, 30 * s);
        uint_bitwise::<4>(&mut cx, 30 * s);
        uint_bitwise::<5>(&mut cx, 20 * s);
        uint_bitwise::<6>(&mut cx, 20 * s);
        uint_bitwise::<8>(&mut cx, 20 * s);
        uint_bitwise::<16>(&mut cx, 16 * s);
        int_bitwise::<1>(&mut cx, 40 * s);
        int_bitwise::<2>(&mut cx, 40 * s);
        int_bitwise::<3>(&mut cx, 40 * s);
        int_bitwise::<4>(&mut cx, 40 * s);
        boxed_bitwise_all(&mut cx, 240 * s);
        boxed_bitwise_mixed(&mut cx, 24 * s);
        limb_bitwise(&mut cx, 120 * s);
    }
    cx.finish();
}
