SPECIFICATION Spec
CONSTANTS W = 2
 WIN = 2
 EL = 3
 MMAX = 9
 NB = 1
INVARIANT Exact
CHECK_DEADLOCK FALSE
