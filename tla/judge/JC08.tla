-------------------------------- MODULE JC08 --------------------------------
(* C08 — Montgomery-form values stay canonical and track Z/mZ over any      *)
(* operation history; parameter sets equal their definitions.               *)
(*                                                                          *)
(* "step" events form histories: rg is the ghost register file (the value   *)
(* of each register in Z/mZ, maintained by GhostC08 with the same semantics *)
(* as tla/MontyApi.tla).  After every step the real object's stored         *)
(* representative mf and retrieved value rt are logged and must satisfy     *)
(*   rt = ghost,  mf = ghost * 2^bits mod m,  mf < m.                       *)
EXTENDS BigNat, Sequences

Has8(e, f) == f \in DOMAIN e
R8(e) == Pow2(e.bits)

Half8(g, m) == IF Bit(g, 0) = 0 THEN Shr(g, 1) ELSE Shr(Add(g, m), 1)     \* the x with 2x = g (m odd)

Eval8(e, rg) ==
  LET m == e.m
      A == rg[e.a]
      B == rg[e.b]
  IN CASE e.sop = "new"    -> Mod(e.val, m)
       [] e.sop = "zero"   -> Zero
       [] e.sop = "one"    -> Mod(One, m)
       [] e.sop = "neg"    -> Mod(Sub(m, A), m)
       [] e.sop = "double" -> Mod(Add(A, A), m)
       [] e.sop \in {"square", "squareobj"} -> Mod(Mul(A, A), m)
       [] e.sop = "halve"  -> Mod(Half8(A, m), m)
       [] e.sop = "add"    -> Mod(Add(A, B), m)
       [] e.sop = "sub"    -> Mod(Sub(Add(A, m), B), m)
       [] e.sop \in {"mul", "mulobj"} -> Mod(Mul(A, B), m)
       [] e.sop = "select" -> IF e.c = 1 THEN B ELSE A

Base8(e, rg) == IF Has8(e, "reset") THEN <<>> ELSE rg
GhostC08(e, rg) == IF e.op = "step" THEN Append(rg, Eval8(e, rg)) ELSE rg    \* rg already reset by ApiTrace

ToMonty8(g, e) == Mod(Mul(g, R8(e)), e.m)

JudgeStep8(e, rg0) ==
  LET rg == Base8(e, rg0)
      g  == Eval8(e, rg)
  IN /\ e.k = "ok"
     /\ e.dst = Len(rg) + 1
     /\ e.rt = g                              \* retrieve tracks Z/mZ
     /\ e.mf = ToMonty8(g, e)                 \* the stored form is THE canonical representative
     /\ Lt(e.mf, e.m)                         \* canonical: < m

(* parameter sets: R mod m, R^2 mod m, R^3 mod m, -m^-1 mod 2^64, min(lz, 63) *)
JudgeParams8(e) ==
  LET m == e.m  R == R8(e)
      inv == ModInv(Mod2k(m, 64), Pow2(64))
      lz == e.bits - BitLen(m)
  IN /\ e.k = "ok"
     /\ e.pm = m
     /\ e.one = Mod(R, m)
     /\ e.r2 = Mod(Mul(R, R), m)
     /\ e.r3 = Mod(Mul(Mul(R, R), R), m)
     /\ inv[1] /\ e.ninv = Mod2k(Sub(Pow2(64), inv[2]), 64)
     /\ e.lz = FromInt(IF lz < 63 THEN lz ELSE 63)

(* conversions keep representative and value *)
JudgeConv8(e) == e.k = "ok" /\ e.mf = e.mf0 /\ e.rt = e.rt0

JudgeC08(e, rg) ==
  CASE e.op = "step"   -> JudgeStep8(e, rg)
    [] e.op = "params" -> JudgeParams8(e)
    [] e.op = "conv"   -> JudgeConv8(e)
    [] OTHER -> FALSE
=============================================================================
