-------------------------------- MODULE JC07 --------------------------------
(* C07 - modular add / sub / neg / double / mul / halve return the canonical *)
(* residue.                                                                 *)
(*                                                                          *)
(* Event fields.  op : "addmod" | "submod" | "mulmod" (operands a, b),      *)
(*   "negmod" | "doublemod" | "halve" (operand a).  bits : operand width.   *)
(*   Modulus: m (explicit), or c for the special-modulus forms, where       *)
(*   p = 2^bits - c with 1 <= c < 2^64 <= 2^bits.                            *)
(*   pre : the assumption the doc comment of the recorded form states:      *)
(*     "ab"    a < p and b < p        (traits; boxed forms assert it)       *)
(*     "sum2p" a + b < 2p             (Uint::add_mod, add_mod_special)      *)
(*     "diff"  -p <= a - b < p        (Uint::sub_mod, sub_mod_special)      *)
(*     "a"     a < p                  (neg, double, halve)                  *)
(*     "none"  nothing assumed        (multiplications)                     *)
(*   par (mulmod) : documented behaviour for an even modulus:               *)
(*     "panic"  the doc comment says "Panics if `p` is even"                *)
(*     "either" the doc restricts the form to odd p without promising a     *)
(*              panic (mul_mod_vartime), or the trait doc and the inherent  *)
(*              doc disagree (boxed MulMod): a panic or the exact value     *)
(*     "exact"  no restriction documented: the exact value                  *)
(* Outputs: r the result; rp (boxed forms) its precision, which is the      *)
(*   operands' precision.                                                   *)
(* Outside the stated assumption the documentation promises nothing and the *)
(* contract accepts every outcome (the recorder does not generate such      *)
(* inputs).                                                                 *)
EXTENDS BigNat

C07Has(e, f) == f \in DOMAIN e

C07P(e) == IF C07Has(e, "c") THEN Sub(Pow2(e.bits), e.c) ELSE e.m

\* (a - b) mod p for naturals a, b and p >= 1
C07SubMod(a, b, p) == Mod(Sub(Add(a, Mul(p, Add(Div(b, p), One))), b), p)

C07Pre(e, p) ==
  CASE e.pre = "ab"    -> Lt(e.a, p) /\ Lt(e.b, p)
    [] e.pre = "sum2p" -> Lt(Add(e.a, e.b), Add(p, p))
    [] e.pre = "diff"  -> Le(e.b, Add(e.a, p)) /\ Lt(e.a, Add(e.b, p))
    [] e.pre = "a"     -> Lt(e.a, p)
    [] e.pre = "none"  -> TRUE
    [] OTHER -> FALSE

C07Expected(e, p) ==
  CASE e.op = "addmod"    -> Mod(Add(e.a, e.b), p)
    [] e.op = "submod"    -> C07SubMod(e.a, e.b, p)
    [] e.op = "negmod"    -> C07SubMod(Zero, e.a, p)
    [] e.op = "doublemod" -> Mod(Add(e.a, e.a), p)
    [] e.op = "mulmod"    -> Mod(Mul(e.a, e.b), p)

\* the unique value in [0, p) congruent to the mathematical result, in the operands' width
C07Exact(e, p) ==
  /\ e.k = "ok"
  /\ C07Has(e, "r")
  /\ Lt(e.r, p)
  /\ Fits(e.r, e.bits)
  /\ e.r = C07Expected(e, p)
  /\ C07Has(e, "rp") => e.rp = e.bits

\* halving: the unique r in [0, p) with r + r = a (mod p), p odd
C07Halve(e, p) ==
  /\ e.k = "ok"
  /\ C07Has(e, "r")
  /\ Lt(e.r, p)
  /\ Mod(Add(e.r, e.r), p) = e.a
  /\ e.r = (IF IsOdd(e.a) THEN Shr(Add(e.a, p), 1) ELSE Shr(e.a, 1))
  /\ C07Has(e, "rp") => e.rp = e.bits

C07WellFormed(e) ==
  /\ C07Has(e, "bits") /\ C07Has(e, "a") /\ C07Has(e, "pre") /\ C07Has(e, "k")
  /\ (C07Has(e, "m") \/ (C07Has(e, "c") /\ e.c # Zero /\ Fits(e.c, 64) /\ e.bits >= 64))
  /\ e.op \in {"addmod", "submod", "mulmod"} => C07Has(e, "b")
  /\ e.op = "mulmod" => C07Has(e, "par")

JudgeC07(e, rg) ==
  IF e.op \notin {"addmod", "submod", "negmod", "doublemod", "mulmod", "halve"} THEN FALSE
  ELSE IF ~C07WellFormed(e) THEN FALSE
  ELSE LET p == C07P(e) IN
    IF p = Zero THEN FALSE                         \* a zero modulus is never recorded (C11)
    ELSE IF ~C07Pre(e, p) THEN TRUE                \* outside the documented assumption
    ELSE IF e.op = "halve" THEN (IF IsOdd(p) THEN C07Halve(e, p) ELSE TRUE)
    ELSE IF e.op = "mulmod" /\ ~IsOdd(p) THEN
      CASE e.par = "panic"  -> e.k = "panic"
        [] e.par = "either" -> e.k = "panic" \/ C07Exact(e, p)
        [] e.par = "exact"  -> C07Exact(e, p)
        [] OTHER -> FALSE
    ELSE C07Exact(e, p)
=============================================================================
