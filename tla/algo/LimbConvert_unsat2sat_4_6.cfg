SPECIFICATION Spec
CONSTANTS IB = 4
 OB = 6
 TB = 6
 NI = 5
 NO = 3
 Mut = 0
INVARIANT ConvertOK
CHECK_DEADLOCK FALSE
