-------------------------------- MODULE JC17 --------------------------------
(* C17 — contract of the recorded events of this property (stub).           *)
EXTENDS BigNat

JudgeC17(e, rg) == FALSE
=============================================================================
