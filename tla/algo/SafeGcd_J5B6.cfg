SPECIFICATION Spec
CONSTANTS J = 5
 BITS = 6
 HEAD = 7
INVARIANT Converges
INVARIANT NoOverflow
INVARIANT DRange
INVARIANT SomeIffCoprime
INVARIANT InverseOK
CHECK_DEADLOCK FALSE
