SPECIFICATION Spec
CONSTANTS W = 2
 L = 3
 YC = 1
 Mode = "remwide"
INVARIANT Exact
INVARIANT PreHoldsEverywhere
CHECK_DEADLOCK FALSE
