SPECIFICATION Spec
CONSTANTS Mut = 0
 W = 2
 N = 3
INVARIANT BitOK
INVARIANT CountOK
INVARIANT SetOK
CHECK_DEADLOCK FALSE
