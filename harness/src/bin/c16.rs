//! C16 recorder: byte, hex, word, primitive and serde conversions; concat / split / resize.
//!
//! Event classes (field `op`; the TLA+ judge JC16 dispatches on it):
//!   enc     x, nb, en            -> bytes          value to nb bytes, en = "be" | "le"
//!   dec     src, nb, en          -> x              exactly nb bytes or panic
//!   bdec    src, prec, en        -> x, xp | err    BoxedUint::from_{be,le}_slice
//!   hexdec  src, nb, en, bad     -> x [, xp]       2*nb hex characters; bad = documented rejection of a
//!                                                  non-hex character ("panic" | "none"); amb/nb2 when the
//!                                                  boxed precision is not a multiple of 64
//!   fmt     x, nb, f, alt        -> str            f = "x" | "X" | "b", alt = `#` flag
//!   id      x [, eb] [, mp]      -> y [, yb]       value-preserving conversion (words, limbs, primitives,
//!                                                  Uint -> BoxedUint ...); mp = 1: a panic is acceptable
//!                                                  because the target type is narrower than the source
//!   sext    x, xb, yb [, mp]     -> y              two's complement pattern x at xb bits to yb bits
//!   trunc   x, xb, yb            -> y              unsigned resize
//!   bresize x, xb, tb, w         -> y, yp          BoxedUint widen / shorten, w = "widen" | "shorten"
//!   concat  lo, lb, hi, hb       -> y
//!   split   x, xb, lb            -> lo, hi
//!   ser     x, nb, sf            -> enc            sf = "bincode" | "json" | "bincode_word" | "bincode_some"
//!   de      src, nb, sf          -> x | err
use serde::{Serialize, de::DeserializeOwned};
use vh::cb::{
    ArrayDecoding, ArrayEncoding, BoxedUint, ByteArray, Checked, Concat, ConcatMixed, Encoding, I64, I128, Int, Limb, NonZero, Split,
    SplitMixed, U64, U128, Uint, WideWord, Word, Wrapping,
};
use vh::*;

// ------------------------------------------------------------------------------------------------
// helpers (input construction only; nothing here judges)

/// raw limbs of a Uint, read through the public limb array
fn raw<const N: usize>(x: &Uint<N>) -> Vec<u64> {
    x.as_limbs().iter().map(|l| l.0).collect()
}
fn rawi<const N: usize>(x: &Int<N>) -> Vec<u64> {
    x.as_limbs().iter().map(|l| l.0).collect()
}
fn rawb(x: &BoxedUint) -> Vec<u64> {
    x.as_limbs().iter().map(|l| l.0).collect()
}
/// Uint built through the limb-array constructor
fn mk<const N: usize>(v: &[u64]) -> Uint<N> {
    let mut l = [Limb::ZERO; N];
    for i in 0..N {
        l[i] = Limb(v[i]);
    }
    Uint::new(l)
}
fn mki<const N: usize>(v: &[u64]) -> Int<N> {
    let mut l = [Limb::ZERO; N];
    for i in 0..N {
        l[i] = Limb(v[i]);
    }
    Int::new(l)
}
fn mkb(v: &[u64]) -> BoxedUint {
    let l: Vec<Limb> = v.iter().map(|w| Limb(*w)).collect();
    BoxedUint::from(l)
}
fn arr<const N: usize>(v: &[u64]) -> [u64; N] {
    let mut a = [0u64; N];
    a.copy_from_slice(&v[..N]);
    a
}

/// a value of n limbs for codec tests: positional patterns first
fn val(r: &mut Rng, n: usize) -> Vec<u64> {
    if n == 0 {
        return vec![];
    }
    match r.below(12) {
        0 => (0..n).map(|i| u64::from_le_bytes(core::array::from_fn(|j| (8 * i + j + 1) as u8))).collect(),
        1 => {
            // a single non-zero byte
            let mut v = vec![0u64; n];
            let p = r.below(8 * n);
            v[p / 8] = (r.range(1, 255) as u64) << (8 * (p % 8));
            v
        }
        2 | 3 => uniform(r, n),
        4 => {
            let mut v = uniform(r, n);
            let top = r.pick(&[0x7fu64, 0x80, 0xff, 0x01, 0x00]);
            v[n - 1] = (v[n - 1] & 0x00ff_ffff_ffff_ffff) | (top << 56);
            v
        }
        5 => vec![0; n],
        6 => vec![MAX; n],
        _ => nat(r, n),
    }
}

/// a byte string of the given length: positional patterns, extremes, random
fn bytes_of(r: &mut Rng, len: usize) -> Vec<u8> {
    match r.below(8) {
        0 => (0..len).map(|i| (i + 1) as u8).collect(),
        1 => vec![0; len],
        2 => vec![0xff; len],
        3 => {
            let mut b = vec![0u8; len];
            if len > 0 {
                let p = r.below(len);
                b[p] = r.range(1, 255) as u8;
            }
            b
        }
        4 => {
            let mut b: Vec<u8> = (0..len).map(|_| r.next() as u8).collect();
            if len > 0 {
                b[0] = r.pick(&[0u8, 1, 0x7f, 0x80, 0xff]);
                b[len - 1] = r.pick(&[0u8, 1, 0x7f, 0x80, 0xff]);
            }
            b
        }
        _ => (0..len).map(|_| r.next() as u8).collect(),
    }
}

const HEXL: &[u8] = b"0123456789abcdef";
const HEXU: &[u8] = b"0123456789ABCDEF";

/// a well-formed hex string of `chars` characters: lower, upper or mixed case
fn hex_ok(r: &mut Rng, chars: usize) -> Vec<u8> {
    let mode = r.below(4);
    let pat = r.below(5);
    (0..chars)
        .map(|i| {
            let d = match pat {
                0 => i % 16,
                1 => 0,
                2 => 15,
                _ => r.below(16),
            };
            match mode {
                0 => HEXL[d],
                1 => HEXU[d],
                _ => if r.coin() { HEXL[d] } else { HEXU[d] },
            }
        })
        .collect()
}

/// characters adjacent to the hex ranges, and other likely confusions
const NASTY: &[u8] = b"/:@G`g ghGHxX+-_.\0\x7f\n\t,;<=>?[\\]^{|}~!\"#$%&'()*";

/// strings that are not hex: one or several non-hex characters inside an otherwise valid string
fn hex_bad(r: &mut Rng, chars: usize) -> Vec<u8> {
    let mut s = hex_ok(r, chars);
    if chars == 0 {
        return s;
    }
    let k = if r.chance(3, 4) { 1 } else { r.range(2, 4) };
    for _ in 0..k {
        let p = r.below(chars);
        s[p] = if r.chance(2, 3) { r.pick(NASTY) } else { loop { let c = (r.next() % 128) as u8; if !c.is_ascii_hexdigit() { break c; } } };
    }
    s
}

/// replace the characters at p.. by one multi-byte UTF-8 scalar so that the byte length is unchanged
fn hex_utf8(r: &mut Rng, chars: usize) -> Option<Vec<u8>> {
    let mut s = hex_ok(r, chars);
    let c = match r.below(4) {
        0 => char::from_u32(r.range(0x80, 0x7ff) as u32)?,
        1 => char::from_u32(r.pick(&[0x800u32, 0xfff, 0x1000, 0x20ac, 0xd7ff, 0xe000, 0xffff, 0xff10, 0xff21, 0xff41]))?,
        2 => char::from_u32(r.pick(&[0x10000u32, 0x1f600, 0x10ffff, 0x40000, 0x100000]))?,
        _ => char::from_u32(0x80 + (r.below(0x780)) as u32)?,
    };
    let mut buf = [0u8; 4];
    let e = c.encode_utf8(&mut buf).as_bytes().to_vec();
    if e.len() > chars {
        return None;
    }
    let p = r.below(chars - e.len() + 1);
    s[p..p + e.len()].copy_from_slice(&e);
    Some(s)
}

fn st(b: &[u8]) -> &str {
    std::str::from_utf8(b).expect("generator produced invalid UTF-8")
}

fn e_enc(form: &str, x: &[u64], nb: usize, en: &str) -> Ev {
    Ev::new("enc", form).n("x", x).i("nb", nb as i64).s("en", en)
}
fn e_dec(form: &str, src: &[u8], nb: usize, en: &str) -> Ev {
    Ev::new("dec", form).b("src", src).i("nb", nb as i64).s("en", en)
}
fn e_hex(form: &str, src: &[u8], nb: usize, en: &str, bad: &str) -> Ev {
    Ev::new("hexdec", form).b("src", src).i("nb", nb as i64).s("en", en).s("bad", bad)
}
fn e_fmt(form: &str, x: &[u64], nb: usize, f: &str, alt: bool) -> Ev {
    Ev::new("fmt", form).n("x", x).i("nb", nb as i64).s("f", f).f("alt", alt)
}
fn e_id(form: &str, x: &[u64]) -> Ev {
    Ev::new("id", form).n("x", x)
}
fn oy(y: &[u64]) -> O {
    O::ok().n("y", y)
}

// ------------------------------------------------------------------------------------------------
// fixed-width byte codecs, formatting, word/limb views

fn codec<const N: usize>(cx: &mut Cx, iters: usize)
where
    Uint<N>: Encoding,
{
    let nb = 8 * N;
    for it in 0..iters {
        let v = val(&mut cx.rng, N);
        let x = mk::<N>(&v);
        cx.call(e_enc("uint.Encoding.to_be_bytes", &v, nb, "be"), || O::ok().b("bytes", Encoding::to_be_bytes(&x).as_ref()));
        cx.call(e_enc("uint.Encoding.to_le_bytes", &v, nb, "le"), || O::ok().b("bytes", Encoding::to_le_bytes(&x).as_ref()));

        let src = bytes_of(&mut cx.rng, nb);
        cx.call(e_dec("uint.from_be_slice", &src, nb, "be"), || oy(&raw(&Uint::<N>::from_be_slice(&src))));
        cx.call(e_dec("uint.from_le_slice", &src, nb, "le"), || oy(&raw(&Uint::<N>::from_le_slice(&src))));
        cx.call(e_dec("uint.Encoding.from_be_bytes", &src, nb, "be"), || {
            let r = <Uint<N> as Encoding>::Repr::try_from(&src[..]).unwrap();
            oy(&raw(&<Uint<N> as Encoding>::from_be_bytes(r)))
        });
        cx.call(e_dec("uint.Encoding.from_le_bytes", &src, nb, "le"), || {
            let r = <Uint<N> as Encoding>::Repr::try_from(&src[..]).unwrap();
            oy(&raw(&<Uint<N> as Encoding>::from_le_bytes(r)))
        });
        // wrong sizes: every length around the required one
        if it % 2 == 0 {
            let len = cx.rng.pick(&[0usize, 1, nb - 1, nb + 1, nb - 8, nb + 8, nb / 2, 2 * nb, nb + 9, 7]);
            if len != nb {
                let s2 = bytes_of(&mut cx.rng, len);
                cx.call(e_dec("uint.from_be_slice", &s2, nb, "be"), || oy(&raw(&Uint::<N>::from_be_slice(&s2))));
                cx.call(e_dec("uint.from_le_slice", &s2, nb, "le"), || oy(&raw(&Uint::<N>::from_le_slice(&s2))));
            }
        }

        // formatting
        for (f, alt) in [("X", false), ("x", false), ("b", false), ("X", true), ("x", true), ("b", true)] {
            if N > 8 && alt && it % 3 != 0 {
                continue;
            }
            let form = match f { "X" => "uint.UpperHex", "x" => "uint.LowerHex", _ => "uint.Binary" };
            cx.call(e_fmt(form, &v, nb, f, alt), || {
                let s = match (f, alt) {
                    ("X", false) => format!("{:X}", x),
                    ("x", false) => format!("{:x}", x),
                    ("b", false) => format!("{:b}", x),
                    ("X", true) => format!("{:#X}", x),
                    ("x", true) => format!("{:#x}", x),
                    _ => format!("{:#b}", x),
                };
                O::ok().b("str", s.as_bytes())
            });
        }
        cx.call(e_fmt("uint.Display", &v, nb, "X", false), || O::ok().b("str", format!("{}", x).as_bytes()));
        cx.call(e_fmt("uint.to_string", &v, nb, "X", false), || O::ok().b("str", x.to_string().as_bytes()));
        if it % 3 == 0 {
            cx.call(e_fmt("uint.Display", &v, nb, "X", true), || O::ok().b("str", format!("{:#}", x).as_bytes()));
            let wx = Wrapping(x);
            cx.call(e_fmt("wrapping.Display", &v, nb, "X", false), || O::ok().b("str", format!("{}", wx).as_bytes()));
            cx.call(e_fmt("wrapping.LowerHex", &v, nb, "x", false), || O::ok().b("str", format!("{:x}", wx).as_bytes()));
            cx.call(e_fmt("wrapping.UpperHex", &v, nb, "X", true), || O::ok().b("str", format!("{:#X}", wx).as_bytes()));
            cx.call(e_fmt("wrapping.Binary", &v, nb, "b", false), || O::ok().b("str", format!("{:b}", wx).as_bytes()));
            let ix = mki::<N>(&v);
            cx.call(e_fmt("int.Display", &v, nb, "X", false), || O::ok().b("str", format!("{}", ix).as_bytes()));
            cx.call(e_fmt("int.LowerHex", &v, nb, "x", true), || O::ok().b("str", format!("{:#x}", ix).as_bytes()));
            cx.call(e_fmt("int.UpperHex", &v, nb, "X", false), || O::ok().b("str", format!("{:X}", ix).as_bytes()));
            cx.call(e_fmt("int.Binary", &v, nb, "b", false), || O::ok().b("str", format!("{:b}", ix).as_bytes()));
        }
    }
}

/// word / limb views and constructors: value-preserving
fn words<const N: usize>(cx: &mut Cx, iters: usize) {
    let eb = 64 * N as i64;
    for _ in 0..iters {
        let v = val(&mut cx.rng, N);
        let a: [Word; N] = arr::<N>(&v);
        let la: [Limb; N] = core::array::from_fn(|i| Limb(v[i]));
        let x = mk::<N>(&v);
        cx.call(e_id("uint.from_words", &v).i("eb", eb), || oy(&raw(&Uint::<N>::from_words(a))).i("yb", Uint::<N>::BITS as i64));
        cx.call(e_id("uint.From<[Word;N]>", &v), || oy(&raw(&Uint::<N>::from(a))));
        cx.call(e_id("uint.From<[Limb;N]>", &v), || oy(&raw(&Uint::<N>::from(la))));
        cx.call(e_id("uint.to_words", &v), || oy(&x.to_words()));
        cx.call(e_id("uint.as_words", &v), || oy(&x.as_words()[..]));
        cx.call(e_id("uint.to_limbs", &v), || oy(&x.to_limbs().iter().map(|l| l.0).collect::<Vec<_>>()));
        cx.call(e_id("[Word;N].From<Uint>", &v), || oy(&<[Word; N]>::from(x)[..]));
        cx.call(e_id("[Limb;N].From<Uint>", &v), || oy(&<[Limb; N]>::from(x).iter().map(|l| l.0).collect::<Vec<_>>()));
        cx.call(e_id("uint.AsRef<[Word;N]>", &v), || oy(&AsRef::<[Word; N]>::as_ref(&x)[..]));
        cx.call(e_id("uint.AsRef<[Limb]>", &v), || oy(&AsRef::<[Limb]>::as_ref(&x).iter().map(|l| l.0).collect::<Vec<_>>()));
        cx.call(e_id("uint.as_words_mut", &v), || { let mut t = Uint::<N>::ZERO; t.as_words_mut().copy_from_slice(&v); oy(&raw(&t)) });
        cx.call(e_id("uint.as_limbs_mut", &v), || { let mut t = Uint::<N>::ZERO; t.as_limbs_mut().copy_from_slice(&la); oy(&raw(&t)) });
        cx.call(e_id("uint.AsMut<[Word;N]>", &v), || { let mut t = Uint::<N>::MAX; AsMut::<[Word; N]>::as_mut(&mut t).copy_from_slice(&v); oy(&raw(&t)) });
        cx.call(e_id("uint.AsMut<[Limb]>", &v), || { let mut t = Uint::<N>::MAX; AsMut::<[Limb]>::as_mut(&mut t).copy_from_slice(&la); oy(&raw(&t)) });
        cx.call(e_id("uint.as_int", &v), || oy(&rawi(&x.as_int())));
        let ix = mki::<N>(&v);
        cx.call(e_id("int.as_uint", &v), || oy(&raw(ix.as_uint())));
        cx.call(e_id("int.from_words", &v), || oy(&rawi(&Int::<N>::from_words(a))));
        cx.call(e_id("int.to_words", &v), || oy(&ix.to_words()));
        cx.call(e_id("int.as_words", &v), || oy(&ix.as_words()[..]));
        cx.call(e_id("int.to_limbs", &v), || oy(&ix.to_limbs().iter().map(|l| l.0).collect::<Vec<_>>()));
        cx.call(e_id("int.as_words_mut", &v), || { let mut t = Int::<N>::ZERO; t.as_words_mut().copy_from_slice(&v); oy(&rawi(&t)) });
        // into the boxed world and back
        cx.call(e_id("boxed.From<Uint>", &v).i("eb", eb), || { let b = BoxedUint::from(x); oy(&rawb(&b)).i("yb", b.bits_precision() as i64) });
        cx.call(e_id("boxed.From<&Uint>", &v).i("eb", eb), || { let b = BoxedUint::from(&x); oy(&rawb(&b)).i("yb", b.bits_precision() as i64) });
    }
}

macro_rules! alias_bytes {
    ($cx:expr, $T:ty, $N:literal, $iters:expr) => {
        for _ in 0..$iters {
            let v = val(&mut $cx.rng, $N);
            let x: $T = mk::<$N>(&v);
            $cx.call(e_enc("uint.to_be_bytes", &v, 8 * $N, "be"), || O::ok().b("bytes", &x.to_be_bytes()[..]));
            $cx.call(e_enc("uint.to_le_bytes", &v, 8 * $N, "le"), || O::ok().b("bytes", &x.to_le_bytes()[..]));
        }
    };
}

fn array_codec<const N: usize>(cx: &mut Cx, iters: usize)
where
    Uint<N>: ArrayEncoding,
    ByteArray<Uint<N>>: ArrayDecoding<Output = Uint<N>> + Clone,
{
    let nb = 8 * N;
    for _ in 0..iters {
        let v = val(&mut cx.rng, N);
        let x = mk::<N>(&v);
        cx.call(e_enc("uint.ArrayEncoding.to_be_byte_array", &v, nb, "be"), || O::ok().b("bytes", &x.to_be_byte_array()[..]));
        cx.call(e_enc("uint.ArrayEncoding.to_le_byte_array", &v, nb, "le"), || O::ok().b("bytes", &x.to_le_byte_array()[..]));
        let src = bytes_of(&mut cx.rng, nb);
        // the array is built inside the recorded call: a byte array type of the wrong size is an outcome, not a recorder crash
        let arr = || ByteArray::<Uint<N>>::try_from(&src[..]).expect("ByteArray<Uint<N>> holds exactly 8 * N octets");
        cx.call(e_dec("uint.ArrayEncoding.from_be_byte_array", &src, nb, "be"), || oy(&raw(&Uint::<N>::from_be_byte_array(arr()))));
        cx.call(e_dec("uint.ArrayEncoding.from_le_byte_array", &src, nb, "le"), || oy(&raw(&Uint::<N>::from_le_byte_array(arr()))));
        cx.call(e_dec("array.ArrayDecoding.into_uint_be", &src, nb, "be"), || oy(&raw(&arr().into_uint_be())));
        cx.call(e_dec("array.ArrayDecoding.into_uint_le", &src, nb, "le"), || oy(&raw(&arr().into_uint_le())));
    }
}

// ------------------------------------------------------------------------------------------------
// hex decoding (fixed)

fn hex_strings(r: &mut Rng, chars: usize, n: usize) -> Vec<Vec<u8>> {
    let mut out = Vec::new();
    for i in 0..n {
        match i % 8 {
            0 | 1 | 2 => out.push(hex_ok(r, chars)),
            3 | 4 => out.push(hex_bad(r, chars)),
            5 => { if let Some(s) = hex_utf8(r, chars) { out.push(s) } }
            6 => {
                // wrong size, otherwise valid
                let c2 = r.pick(&[0usize, chars - 1, chars + 1, chars - 2, chars + 2, chars.saturating_sub(16), chars + 16, chars / 2, 2 * chars, 1]);
                if c2 != chars { out.push(hex_ok(r, c2)); }
            }
            _ => {
                // wrong size and non-hex
                let c2 = r.pick(&[chars - 1, chars + 1, chars + 2, 1, 2]);
                out.push(hex_bad(r, c2));
            }
        }
    }
    out
}

/// every ASCII byte (and a selection of multi-byte scalars) at a high and at a low nibble position
fn hex_alphabet(r: &mut Rng, chars: usize) -> Vec<Vec<u8>> {
    let mut out = Vec::new();
    for c in 0u8..128 {
        for pos in [r.below(chars / 2) * 2, r.below(chars / 2) * 2 + 1] {
            let mut s = hex_ok(r, chars);
            s[pos] = c;
            out.push(s);
        }
    }
    // two-byte scalars: every lead byte 0xc2..=0xdf and every continuation byte 0x80..=0xbf
    for k in 0..64u32 {
        let cp = 0x80 + ((k % 30) << 6) + k; // lead = 0xc2 + k%30, continuation = 0x80 + k
        if let Some(c) = char::from_u32(cp) {
            let mut buf = [0u8; 4];
            let e = c.encode_utf8(&mut buf).as_bytes().to_vec();
            let mut s = hex_ok(r, chars);
            let p = r.below(chars - e.len() + 1);
            s[p..p + e.len()].copy_from_slice(&e);
            out.push(s);
        }
    }
    for cp in [0x800u32, 0x1000, 0x2000, 0x3000, 0x4000, 0x5000, 0x6000, 0x7000, 0x8000, 0x9000, 0xa000, 0xb000, 0xc000, 0xd000, 0xe000, 0xf000, 0x10000, 0x40000, 0x80000, 0xc0000, 0x100000] {
        if let Some(c) = char::from_u32(cp) {
            let mut buf = [0u8; 4];
            let e = c.encode_utf8(&mut buf).as_bytes().to_vec();
            if e.len() <= chars {
                let mut s = hex_ok(r, chars);
                let p = r.below(chars - e.len() + 1);
                s[p..p + e.len()].copy_from_slice(&e);
                out.push(s);
            }
        }
    }
    out
}

/// the characters a general-purpose number parser would accept or skip (sign, separators, prefixes, whitespace) and the
/// neighbours of the hex ranges, at EVERY position of an otherwise valid string: a decoder that parses limb- or
/// byte-sized groups with a library routine accepts some of them at group boundaries only
fn hex_every_position(r: &mut Rng, chars: usize) -> Vec<Vec<u8>> {
    let mut out = Vec::new();
    for &c in b"+-_ xX/:@G`g\0\t" {
        for pos in 0..chars {
            let mut s = hex_ok(r, chars);
            s[pos] = c;
            out.push(s);
        }
    }
    out
}

fn hex_fixed<const N: usize>(cx: &mut Cx, n: usize, alphabet: bool) {
    let nb = 8 * N;
    let mut strs = hex_strings(&mut cx.rng, 2 * nb, n);
    if alphabet {
        strs.extend(hex_alphabet(&mut cx.rng, 2 * nb));
    }
    if N <= 3 {
        strs.extend(hex_every_position(&mut cx.rng, 2 * nb));
    }
    for (i, s) in strs.iter().enumerate() {
        let t = st(s);
        cx.call(e_hex("uint.from_be_hex", s, nb, "be", "panic"), || oy(&raw(&Uint::<N>::from_be_hex(t))));
        cx.call(e_hex("uint.from_le_hex", s, nb, "le", "panic"), || oy(&raw(&Uint::<N>::from_le_hex(t))));
        if i % 3 == 0 || alphabet {
            cx.call(e_hex("int.from_be_hex", s, nb, "be", "panic"), || oy(&rawi(&Int::<N>::from_be_hex(t))));
        }
    }
}

// ------------------------------------------------------------------------------------------------
// primitives

fn prim_values(r: &mut Rng, bits: u32) -> Vec<u128> {
    let max: u128 = if bits == 128 { u128::MAX } else { (1u128 << bits) - 1 };
    let mut v = vec![0, 1, 2, max, max - 1, max >> 1, (max >> 1) + 1, 0x7f & max, 0x80 & max, 0xff & max];
    if bits > 8 {
        v.extend([0x100, 0xff00 & max, 0x0102_0304_0506_0708_090a_0b0c_0d0e_0f10 & max]);
    }
    if bits > 64 {
        v.extend([1u128 << 64, (1u128 << 64) - 1, u64::MAX as u128, (1u128 << 64) + 1, 1u128 << 127]);
    }
    for _ in 0..6 {
        let x = ((r.next() as u128) << 64 | r.next() as u128) & max;
        v.push(x);
        v.push(x >> r.below(bits as usize));
    }
    v
}

fn nu(v: u128) -> [u64; 2] {
    [v as u64, (v >> 64) as u64]
}

fn prims<const N: usize>(cx: &mut Cx) {
    let eb = 64 * N as i64;
    let yb = |x: Uint<N>| oy(&raw(&x)).i("yb", eb);
    for v in prim_values(&mut cx.rng, 8) {
        let p = v as u8;
        cx.call(e_id("uint.from_u8", &nu(v)).i("eb", eb), || yb(Uint::<N>::from_u8(p)));
        cx.call(e_id("uint.From<u8>", &nu(v)).i("eb", eb), || yb(Uint::<N>::from(p)));
    }
    for v in prim_values(&mut cx.rng, 16) {
        let p = v as u16;
        cx.call(e_id("uint.from_u16", &nu(v)).i("eb", eb), || yb(Uint::<N>::from_u16(p)));
        cx.call(e_id("uint.From<u16>", &nu(v)).i("eb", eb), || yb(Uint::<N>::from(p)));
    }
    for v in prim_values(&mut cx.rng, 32) {
        let p = v as u32;
        cx.call(e_id("uint.from_u32", &nu(v)).i("eb", eb), || yb(Uint::<N>::from_u32(p)));
        cx.call(e_id("uint.From<u32>", &nu(v)).i("eb", eb), || yb(Uint::<N>::from(p)));
    }
    for v in prim_values(&mut cx.rng, 64) {
        let p = v as u64;
        cx.call(e_id("uint.from_u64", &nu(v)).i("eb", eb), || yb(Uint::<N>::from_u64(p)));
        cx.call(e_id("uint.From<u64>", &nu(v)).i("eb", eb), || yb(Uint::<N>::from(p)));
        cx.call(e_id("uint.from_word", &nu(v)).i("eb", eb), || yb(Uint::<N>::from_word(p)));
        cx.call(e_id("uint.From<Limb>", &nu(v)).i("eb", eb), || yb(Uint::<N>::from(Limb(p))));
    }
    for v in prim_values(&mut cx.rng, 128) {
        // the target must have at least two limbs (asserted); with one limb a panic is the only lossless answer
        let e = |form: &str| { let e = e_id(form, &nu(v)).i("eb", eb); if N < 2 { e.i("mp", 1) } else { e } };
        cx.call(e("uint.from_u128"), || yb(Uint::<N>::from_u128(v)));
        cx.call(e("uint.From<u128>"), || yb(Uint::<N>::from(v)));
        cx.call(e("uint.from_wide_word"), || yb(Uint::<N>::from_wide_word(v as WideWord)));
    }
}

/// signed primitives into Int<N>: log the two's complement pattern at the primitive's width
fn sprims<const N: usize>(cx: &mut Cx) {
    let yb = 64 * N as i64;
    let ev = |form: &str, pat: u128, xb: i64| {
        let e = Ev::new("sext", form).n("x", &nu(pat)).i("xb", xb).i("yb", yb);
        if xb > yb { e.i("mp", 1) } else { e }
    };
    for v in prim_values(&mut cx.rng, 8) {
        let p = v as u8 as i8;
        cx.call(ev("int.from_i8", v, 8), || oy(&rawi(&Int::<N>::from_i8(p))));
        cx.call(ev("int.From<i8>", v, 8), || oy(&rawi(&Int::<N>::from(p))));
    }
    for v in prim_values(&mut cx.rng, 16) {
        let p = v as u16 as i16;
        cx.call(ev("int.from_i16", v, 16), || oy(&rawi(&Int::<N>::from_i16(p))));
        cx.call(ev("int.From<i16>", v, 16), || oy(&rawi(&Int::<N>::from(p))));
    }
    for v in prim_values(&mut cx.rng, 32) {
        let p = v as u32 as i32;
        cx.call(ev("int.from_i32", v, 32), || oy(&rawi(&Int::<N>::from_i32(p))));
        cx.call(ev("int.From<i32>", v, 32), || oy(&rawi(&Int::<N>::from(p))));
    }
    for v in prim_values(&mut cx.rng, 64) {
        let p = v as u64 as i64;
        cx.call(ev("int.from_i64", v, 64), || oy(&rawi(&Int::<N>::from_i64(p))));
        cx.call(ev("int.From<i64>", v, 64), || oy(&rawi(&Int::<N>::from(p))));
    }
    let mut vs = prim_values(&mut cx.rng, 128);
    // values that fit in 64 bits as signed numbers, and just outside
    vs.extend([u128::MAX, u128::MAX - 1, (-(1i128 << 63)) as u128, (-(1i128 << 63) - 1) as u128, (1u128 << 63) - 1, 1u128 << 63, (-42i128) as u128, i128::MIN as u128, i128::MAX as u128]);
    for v in vs {
        let p = v as i128;
        cx.call(ev("int.from_i128", v, 128), || oy(&rawi(&Int::<N>::from_i128(p))));
        cx.call(ev("int.From<i128>", v, 128), || oy(&rawi(&Int::<N>::from(p))));
    }
}

fn prims_misc(cx: &mut Cx) {
    // Limb
    for v in prim_values(&mut cx.rng, 8) {
        cx.call(e_id("limb.from_u8", &nu(v)), || oy(&[Limb::from_u8(v as u8).0]));
        cx.call(e_id("limb.From<u8>", &nu(v)), || oy(&[Limb::from(v as u8).0]));
    }
    for v in prim_values(&mut cx.rng, 16) {
        cx.call(e_id("limb.from_u16", &nu(v)), || oy(&[Limb::from_u16(v as u16).0]));
        cx.call(e_id("limb.From<u16>", &nu(v)), || oy(&[Limb::from(v as u16).0]));
    }
    for v in prim_values(&mut cx.rng, 32) {
        cx.call(e_id("limb.from_u32", &nu(v)), || oy(&[Limb::from_u32(v as u32).0]));
        cx.call(e_id("limb.From<u32>", &nu(v)), || oy(&[Limb::from(v as u32).0]));
    }
    for v in prim_values(&mut cx.rng, 64) {
        let p = v as u64;
        cx.call(e_id("limb.from_u64", &nu(v)), || oy(&[Limb::from_u64(p).0]));
        cx.call(e_id("limb.From<u64>", &nu(v)), || oy(&[Limb::from(p).0]));
        cx.call(e_id("Word.From<Limb>", &nu(v)), || oy(&[Word::from(Limb(p))]));
        cx.call(e_id("WideWord.From<Limb>", &nu(v)), || oy(&nu(WideWord::from(Limb(p)))));
        cx.call(e_id("u64.From<U64>", &nu(v)), || oy(&[u64::from(mk::<1>(&[p]))]));
        cx.call(e_id("i64.From<I64>", &nu(v)), || oy(&[i64::from(mki::<1>(&[p])) as u64]));
        cx.call(e_enc("limb.Encoding.to_be_bytes", &[p], 8, "be"), || O::ok().b("bytes", &Encoding::to_be_bytes(&Limb(p))[..]));
        cx.call(e_enc("limb.Encoding.to_le_bytes", &[p], 8, "le"), || O::ok().b("bytes", &Encoding::to_le_bytes(&Limb(p))[..]));
        let src = p.to_le_bytes();
        cx.call(e_dec("limb.Encoding.from_be_bytes", &src, 8, "be"), || oy(&[<Limb as Encoding>::from_be_bytes(src).0]));
        cx.call(e_dec("limb.Encoding.from_le_bytes", &src, 8, "le"), || oy(&[<Limb as Encoding>::from_le_bytes(src).0]));
        let l = Limb(p);
        cx.call(e_fmt("limb.Display", &[p], 8, "X", false), || O::ok().b("str", format!("{}", l).as_bytes()));
        cx.call(e_fmt("limb.LowerHex", &[p], 8, "x", false), || O::ok().b("str", format!("{:x}", l).as_bytes()));
        cx.call(e_fmt("limb.LowerHex", &[p], 8, "x", true), || O::ok().b("str", format!("{:#x}", l).as_bytes()));
        cx.call(e_fmt("limb.UpperHex", &[p], 8, "X", false), || O::ok().b("str", format!("{:X}", l).as_bytes()));
        cx.call(e_fmt("limb.UpperHex", &[p], 8, "X", true), || O::ok().b("str", format!("{:#X}", l).as_bytes()));
        cx.call(e_fmt("limb.Binary", &[p], 8, "b", false), || O::ok().b("str", format!("{:b}", l).as_bytes()));
        cx.call(e_fmt("limb.Binary", &[p], 8, "b", true), || O::ok().b("str", format!("{:#b}", l).as_bytes()));
        // boxed
        cx.call(e_id("boxed.From<u64>", &nu(v)), || oy(&rawb(&BoxedUint::from(p))));
        cx.call(e_id("boxed.From<Limb>", &nu(v)), || oy(&rawb(&BoxedUint::from(Limb(p)))));
    }
    for v in prim_values(&mut cx.rng, 128) {
        cx.call(e_id("u128.From<U128>", &nu(v)), || oy(&nu(u128::from(mk::<2>(&nu(v))))));
        cx.call(e_id("i128.From<I128>", &nu(v)), || oy(&nu(i128::from(mki::<2>(&nu(v))) as u128)));
        cx.call(e_id("boxed.From<u128>", &nu(v)), || oy(&rawb(&BoxedUint::from(v))));
    }
    for v in prim_values(&mut cx.rng, 8) {
        cx.call(e_id("boxed.From<u8>", &nu(v)), || oy(&rawb(&BoxedUint::from(v as u8))));
    }
    for v in prim_values(&mut cx.rng, 16) {
        cx.call(e_id("boxed.From<u16>", &nu(v)), || oy(&rawb(&BoxedUint::from(v as u16))));
    }
    for v in prim_values(&mut cx.rng, 32) {
        cx.call(e_id("boxed.From<u32>", &nu(v)), || oy(&rawb(&BoxedUint::from(v as u32))));
    }
    let _ = (U64::ZERO, U128::ZERO, I64::ZERO, I128::ZERO);
}

// ------------------------------------------------------------------------------------------------
// concat / split / resize

fn cs_mixed<const L: usize, const H: usize, const S: usize>(cx: &mut Cx, iters: usize)
where
    Uint<L>: ConcatMixed<Uint<H>, MixedOutput = Uint<S>>,
    Uint<S>: SplitMixed<Uint<L>, Uint<H>>,
{
    for _ in 0..iters {
        let lo = val(&mut cx.rng, L);
        let hi = val(&mut cx.rng, H);
        let (a, b) = (mk::<L>(&lo), mk::<H>(&hi));
        let ev = |form: &str| Ev::new("concat", form).n("lo", &lo).i("lb", 64 * L as i64).n("hi", &hi).i("hb", 64 * H as i64);
        cx.call(ev("uint.concat_mixed"), || { let y: Uint<S> = Uint::concat_mixed(&a, &b); oy(&raw(&y)) });
        cx.call(ev("uint.ConcatMixed.concat_mixed"), || { let y: Uint<S> = ConcatMixed::concat_mixed(&a, &b); oy(&raw(&y)) });
        cx.call(ev("uint.From<(lo,hi)>"), || oy(&raw(&Uint::<S>::from((a, b)))));
        cx.call(ev("uint.From<&(lo,hi)>"), || oy(&raw(&Uint::<S>::from(&(a, b)))));
        let xv = val(&mut cx.rng, S);
        let x = mk::<S>(&xv);
        let ev = |form: &str| Ev::new("split", form).n("x", &xv).i("xb", 64 * S as i64).i("lb", 64 * L as i64);
        cx.call(ev("uint.split_mixed"), || { let (l, h): (Uint<L>, Uint<H>) = x.split_mixed(); O::ok().n("lo", &raw(&l)).n("hi", &raw(&h)) });
        cx.call(ev("uint.SplitMixed.split_mixed"), || { let (l, h): (Uint<L>, Uint<H>) = SplitMixed::split_mixed(&x); O::ok().n("lo", &raw(&l)).n("hi", &raw(&h)) });
        cx.call(ev("(lo,hi).From<Uint>"), || { let (l, h) = <(Uint<L>, Uint<H>)>::from(x); O::ok().n("lo", &raw(&l)).n("hi", &raw(&h)) });
    }
}

fn cs_even<const L: usize, const S: usize>(cx: &mut Cx, iters: usize)
where
    Uint<L>: Concat<Output = Uint<S>> + ConcatMixed<Uint<L>, MixedOutput = Uint<S>>,
    Uint<S>: Split<Output = Uint<L>> + SplitMixed<Uint<L>, Uint<L>>,
{
    cs_mixed::<L, L, S>(cx, iters);
    for _ in 0..iters {
        let lo = val(&mut cx.rng, L);
        let hi = val(&mut cx.rng, L);
        let (a, b) = (mk::<L>(&lo), mk::<L>(&hi));
        let ev = |form: &str| Ev::new("concat", form).n("lo", &lo).i("lb", 64 * L as i64).n("hi", &hi).i("hb", 64 * L as i64);
        cx.call(ev("uint.concat"), || { let y: Uint<S> = a.concat(&b); oy(&raw(&y)) });
        cx.call(ev("uint.Concat.concat"), || { let y: Uint<S> = <Uint<L> as Concat>::concat(&a, &b); oy(&raw(&y)) });
        let xv = val(&mut cx.rng, S);
        let x = mk::<S>(&xv);
        let ev = |form: &str| Ev::new("split", form).n("x", &xv).i("xb", 64 * S as i64).i("lb", 64 * L as i64);
        cx.call(ev("uint.split"), || { let (l, h): (Uint<L>, Uint<L>) = x.split(); O::ok().n("lo", &raw(&l)).n("hi", &raw(&h)) });
        cx.call(ev("uint.Split.split"), || { let (l, h) = <Uint<S> as Split>::split(&x); O::ok().n("lo", &raw(&l)).n("hi", &raw(&h)) });
    }
}

fn resize<const A: usize, const B: usize>(cx: &mut Cx, iters: usize) {
    for _ in 0..iters {
        let v = val(&mut cx.rng, A);
        let x = mk::<A>(&v);
        let ev = |form: &str| Ev::new("trunc", form).n("x", &v).i("xb", 64 * A as i64).i("yb", 64 * B as i64);
        cx.call(ev("uint.resize"), || oy(&raw(&x.resize::<B>())));
        cx.call(ev("uint.From<&Uint>"), || oy(&raw(&Uint::<B>::from(&x))));
        // signed: sign extension / truncation of the pattern
        let mut v2 = v.clone();
        match cx.rng.below(4) {
            0 => v2[A - 1] |= TOP,
            1 => v2[A - 1] &= !TOP,
            2 => { for i in B.min(A)..A { v2[i] = MAX; } if B <= A { v2[B.min(A) - 1] |= TOP; } }
            _ => {}
        }
        let ix = mki::<A>(&v2);
        let ev = |form: &str| Ev::new("sext", form).n("x", &v2).i("xb", 64 * A as i64).i("yb", 64 * B as i64);
        cx.call(ev("int.resize"), || oy(&rawi(&ix.resize::<B>())));
        cx.call(ev("int.From<&Int>"), || oy(&rawi(&Int::<B>::from(&ix))));
    }
}

// ------------------------------------------------------------------------------------------------
// boxed

/// byte string (big endian) for a given precision and length: values at the precision boundary
fn boxed_src(r: &mut Rng, prec: usize, len: usize, variant: usize) -> Vec<u8> {
    // build as big-endian; callers reverse for the little-endian decoder
    let mut b = vec![0u8; len];
    let set_bit = |b: &mut Vec<u8>, bit: usize| { let byte = bit / 8; if byte < b.len() { let l = b.len(); b[l - 1 - byte] |= 1 << (bit % 8); true } else { false } };
    match variant % 8 {
        0 => { // 2^prec - 1
            for i in 0..prec { set_bit(&mut b, i); }
        }
        1 => { // exactly 2^prec (if it can be written in len bytes), low bits sometimes set
            if !set_bit(&mut b, prec) { for i in 0..prec { set_bit(&mut b, i); } }
            if r.coin() { set_bit(&mut b, 0); }
        }
        2 => { // top allowed bit set, random below
            for x in b.iter_mut() { *x = r.next() as u8; }
            let l = b.len();
            for bit in prec..8 * l { b[l - 1 - bit / 8] &= !(1 << (bit % 8)); }
            if prec > 0 { set_bit(&mut b, prec - 1); }
        }
        3 => { for x in b.iter_mut() { *x = 0xff; } }
        4 => {}
        5 => { // leading zero bytes, then a value that fits
            for x in b.iter_mut() { *x = r.next() as u8; }
            let l = b.len();
            for bit in prec..8 * l { b[l - 1 - bit / 8] &= !(1 << (bit % 8)); }
        }
        6 => { // a single bit just above the precision
            let extra = r.range(0, 9);
            if !set_bit(&mut b, prec + extra) { set_bit(&mut b, prec); }
        }
        _ => { for x in b.iter_mut() { *x = r.next() as u8; } }
    }
    b
}

fn derr(e: vh::cb::DecodeError) -> O {
    O::err(match e {
        vh::cb::DecodeError::Empty => "Empty",
        vh::cb::DecodeError::InvalidDigit => "InvalidDigit",
        vh::cb::DecodeError::InputSize => "InputSize",
        vh::cb::DecodeError::Precision => "Precision",
    })
}

fn boxed_decode(cx: &mut Cx, reps: usize) {
    let mut variant = 0usize;
    for rep in 0..reps {
        for prec in (0..=520usize).chain([576, 584, 640, 1000, 1024, 1025, 2048]) {
            let need = prec.div_ceil(8);
            let maxlen = prec / 8 + 9;
            let mut lens = vec![need, need + 1, cx.rng.range(0, maxlen), cx.rng.range(0, need)];
            if need > 0 { lens.push(need - 1); }
            if rep % 2 == 0 { lens.push(0); lens.push(maxlen); } else { lens.push(need + 8); lens.push(cx.rng.range(need, maxlen)); }
            for len in lens {
                variant += 1;
                let be = boxed_src(&mut cx.rng, prec, len, variant);
                let mut le = be.clone();
                le.reverse();
                cx.call(Ev::new("bdec", "boxed.from_be_slice").b("src", &be).i("prec", prec as i64).s("en", "be"), || match BoxedUint::from_be_slice(&be, prec as u32) {
                    Ok(x) => O::ok().n("y", &rawb(&x)).i("yp", x.bits_precision() as i64),
                    Err(e) => derr(e),
                });
                cx.call(Ev::new("bdec", "boxed.from_le_slice").b("src", &le).i("prec", prec as i64).s("en", "le"), || match BoxedUint::from_le_slice(&le, prec as u32) {
                    Ok(x) => O::ok().n("y", &rawb(&x)).i("yp", x.bits_precision() as i64),
                    Err(e) => derr(e),
                });
            }
        }
    }
}

fn boxed_misc(cx: &mut Cx, iters: usize) {
    for it in 0..iters {
        let nl = if it % 7 == 0 { cx.rng.pick(&[16usize, 32, 33]) } else { cx.rng.range(1, 9) };
        let v = val(&mut cx.rng, nl);
        let x = mkb(&v);
        let nb = 8 * nl;
        let eb = 64 * nl as i64;
        cx.call(e_enc("boxed.to_be_bytes", &v, nb, "be"), || O::ok().b("bytes", &x.to_be_bytes()));
        cx.call(e_enc("boxed.to_le_bytes", &v, nb, "le"), || O::ok().b("bytes", &x.to_le_bytes()));
        for (f, alt) in [("X", false), ("x", false), ("b", false), ("X", true), ("x", true), ("b", true)] {
            let form = match f { "X" => "boxed.UpperHex", "x" => "boxed.LowerHex", _ => "boxed.Binary" };
            cx.call(e_fmt(form, &v, nb, f, alt), || {
                let s = match (f, alt) {
                    ("X", false) => format!("{:X}", x),
                    ("x", false) => format!("{:x}", x),
                    ("b", false) => format!("{:b}", x),
                    ("X", true) => format!("{:#X}", x),
                    ("x", true) => format!("{:#x}", x),
                    _ => format!("{:#b}", x),
                };
                O::ok().b("str", s.as_bytes())
            });
        }
        cx.call(e_fmt("boxed.Display", &v, nb, "X", false), || O::ok().b("str", format!("{}", x).as_bytes()));
        // words and limbs
        let lv: Vec<Limb> = v.iter().map(|w| Limb(*w)).collect();
        cx.call(e_id("boxed.from_words", &v).i("eb", eb), || { let b = BoxedUint::from_words(v.iter().copied()); oy(&rawb(&b)).i("yb", b.bits_precision() as i64) });
        cx.call(e_id("boxed.From<Vec<Word>>", &v).i("eb", eb), || { let b = BoxedUint::from(v.clone()); oy(&rawb(&b)).i("yb", b.bits_precision() as i64) });
        cx.call(e_id("boxed.From<Vec<Limb>>", &v).i("eb", eb), || { let b = BoxedUint::from(lv.clone()); oy(&rawb(&b)).i("yb", b.bits_precision() as i64) });
        cx.call(e_id("boxed.From<Box<[Limb]>>", &v).i("eb", eb), || { let b = BoxedUint::from(lv.clone().into_boxed_slice()); oy(&rawb(&b)).i("yb", b.bits_precision() as i64) });
        cx.call(e_id("boxed.From<&[Limb]>", &v).i("eb", eb), || { let b = BoxedUint::from(&lv[..]); oy(&rawb(&b)).i("yb", b.bits_precision() as i64) });
        cx.call(e_id("boxed.to_words", &v), || oy(&x.to_words()));
        cx.call(e_id("boxed.as_words", &v), || oy(x.as_words()));
        cx.call(e_id("boxed.to_limbs", &v), || oy(&x.to_limbs().iter().map(|l| l.0).collect::<Vec<_>>()));
        cx.call(e_id("boxed.into_limbs", &v), || oy(&x.clone().into_limbs().iter().map(|l| l.0).collect::<Vec<_>>()));
        cx.call(e_id("boxed.AsRef<[Word]>", &v), || oy(AsRef::<[Word]>::as_ref(&x)));
        cx.call(e_id("boxed.as_words_mut", &v), || { let mut t = BoxedUint::zero_with_precision(eb as u32); t.as_words_mut().copy_from_slice(&v); oy(&rawb(&t)) });
        cx.call(e_id("boxed.as_limbs_mut", &v), || { let mut t = BoxedUint::max(eb as u32); t.as_limbs_mut().copy_from_slice(&lv); oy(&rawb(&t)) });
        // widen / shorten: requested precisions around the current one, not only multiples of 64
        let xb = 64 * nl;
        for tb in [xb, xb + 1, xb + 63, xb + 64, xb + 65, xb - 1, xb - 63, xb - 64, xb.saturating_sub(65), cx.rng.range(0, xb + 130), 0, 1] {
            let ev = |w: &str, form: &str| Ev::new("bresize", form).n("x", &v).i("xb", xb as i64).i("tb", tb as i64).s("w", w);
            cx.call(ev("widen", "boxed.widen"), || { let y = x.widen(tb as u32); oy(&rawb(&y)).i("yp", y.bits_precision() as i64) });
            cx.call(ev("shorten", "boxed.shorten"), || { let y = x.shorten(tb as u32); oy(&rawb(&y)).i("yp", y.bits_precision() as i64) });
            if let Some(nzx) = Option::<NonZero<BoxedUint>>::from(NonZero::new(x.clone())) {
                if it % 4 == 0 {
                    cx.call(ev("widen", "nonzero_boxed.widen"), || { let y = nzx.widen(tb as u32); oy(&rawb(&y)).i("yp", y.bits_precision() as i64) });
                }
            }
        }
    }
    // empty limb sequences: the value zero
    let e: Vec<u64> = vec![];
    cx.call(e_id("boxed.From<Vec<Limb>>", &e).i("eb", 64), || { let b = BoxedUint::from(Vec::<Limb>::new()); oy(&rawb(&b)).i("yb", b.bits_precision() as i64) });
    cx.call(e_id("boxed.From<Vec<Word>>", &e).i("eb", 64), || { let b = BoxedUint::from(Vec::<Word>::new()); oy(&rawb(&b)).i("yb", b.bits_precision() as i64) });
    cx.call(e_id("boxed.From<Box<[Limb]>>", &e).i("eb", 64), || { let b = BoxedUint::from(Vec::<Limb>::new().into_boxed_slice()); oy(&rawb(&b)).i("yb", b.bits_precision() as i64) });
}

fn boxed_hex(cx: &mut Cx, n: usize) {
    // precisions that are multiples of the limb size: the string must have prec/4 characters
    for nl in [1usize, 2, 3, 4, 5, 8] {
        let nb = 8 * nl;
        let mut strs = hex_strings(&mut cx.rng, 2 * nb, n);
        if nl == 1 {
            strs.extend(hex_alphabet(&mut cx.rng, 2 * nb));
        }
        if nl <= 3 {
            strs.extend(hex_every_position(&mut cx.rng, 2 * nb));
        }
        for s in &strs {
            let t = st(s);
            cx.call(e_hex("boxed.from_be_hex", s, nb, "be", "none").i("prec", 64 * nl as i64), || match Option::<BoxedUint>::from(BoxedUint::from_be_hex(t, 64 * nl as u32)) {
                Some(x) => O::ok().n("y", &rawb(&x)).i("yp", x.bits_precision() as i64),
                None => O::none(),
            });
        }
    }
    // other precisions: the documentation does not say what the expected size is
    for prec in [0usize, 1, 7, 8, 63, 65, 100, 127, 129, 191, 200, 520] {
        let lo = 8 * (prec / 64);
        let hi = 8 * prec.div_ceil(64);
        for chars in [2 * lo, 2 * hi, 2 * lo + 2, 2 * hi + 2, prec.div_ceil(4), 2 * prec.div_ceil(8), 2 * hi + 16, (2 * lo).saturating_sub(2)] {
            let s = hex_ok(&mut cx.rng, chars);
            let t = st(&s);
            cx.call(e_hex("boxed.from_be_hex", &s, lo, "be", "none").i("prec", prec as i64).i("amb", 1).i("nb2", hi as i64), || match Option::<BoxedUint>::from(BoxedUint::from_be_hex(t, prec as u32)) {
                Some(x) => O::ok().n("y", &rawb(&x)),
                None => O::none(),
            });
        }
    }
}

// ------------------------------------------------------------------------------------------------
// serde

fn serde_uint<const N: usize>(cx: &mut Cx, iters: usize)
where
    Uint<N>: Encoding + Serialize + DeserializeOwned,
{
    let nb = 8 * N;
    for it in 0..iters {
        let v = val(&mut cx.rng, N);
        let x = mk::<N>(&v);
        let ev = |form: &str, sf: &str| Ev::new("ser", form).n("x", &v).i("nb", nb as i64).s("sf", sf);
        cx.call(ev("uint.bincode.serialize", "bincode"), || match bincode::serialize(&x) { Ok(b) => O::ok().b("enc", &b), Err(_) => O::err("ser") });
        cx.call(ev("uint.json.to_string", "json"), || match serde_json::to_string(&x) { Ok(s) => O::ok().b("enc", s.as_bytes()), Err(_) => O::err("ser") });
        if it % 3 == 0 {
            cx.call(ev("wrapping.bincode.serialize", "bincode"), || match bincode::serialize(&Wrapping(x)) { Ok(b) => O::ok().b("enc", &b), Err(_) => O::err("ser") });
            cx.call(ev("wrapping.json.to_string", "json"), || match serde_json::to_string(&Wrapping(x)) { Ok(s) => O::ok().b("enc", s.as_bytes()), Err(_) => O::err("ser") });
            cx.call(ev("checked.bincode.serialize", "bincode_some"), || match bincode::serialize(&Checked::new(x)) { Ok(b) => O::ok().b("enc", &b), Err(_) => O::err("ser") });
        }
        // deserialisation: well-formed, wrong length prefix, truncated
        let data = bytes_of(&mut cx.rng, nb);
        let mut srcs: Vec<Vec<u8>> = Vec::new();
        let mut good = (nb as u64).to_le_bytes().to_vec();
        good.extend_from_slice(&data);
        srcs.push(good.clone());
        match it % 6 {
            0 => { let mut s = ((nb - 1) as u64).to_le_bytes().to_vec(); s.extend_from_slice(&data[..nb - 1]); srcs.push(s); }
            1 => { let mut s = ((nb + 1) as u64).to_le_bytes().to_vec(); s.extend_from_slice(&data); s.push(7); srcs.push(s); }
            2 => { srcs.push(good[..good.len() - 1].to_vec()); }
            3 => { srcs.push(good[..cx.rng.below(good.len())].to_vec()); }
            4 => { let mut s = 0u64.to_le_bytes().to_vec(); if cx.rng.coin() { s.extend_from_slice(&data); } srcs.push(s); }
            _ => { let mut s = cx.rng.pick(&[u64::MAX, 1 << 63, (nb as u64) << 8, (nb as u64) | (1 << 32)]).to_le_bytes().to_vec(); s.extend_from_slice(&data); srcs.push(s); }
        }
        for s in &srcs {
            let ev = |form: &str| Ev::new("de", form).b("src", s).i("nb", nb as i64).s("sf", "bincode");
            cx.call(ev("uint.bincode.deserialize"), || match bincode::deserialize::<Uint<N>>(s) { Ok(y) => oy(&raw(&y)), Err(_) => O::err("de") });
            if it % 3 == 0 {
                cx.call(ev("wrapping.bincode.deserialize"), || match bincode::deserialize::<Wrapping<Uint<N>>>(s) { Ok(y) => oy(&raw(&y.0)), Err(_) => O::err("de") });
            }
        }
        // JSON: a quoted string of 2*nb hex characters (either case)
        let mut js: Vec<Vec<u8>> = Vec::new();
        let q = |inner: Vec<u8>| { let mut s = vec![b'"']; s.extend(inner.into_iter().map(|c| if c == b'"' || c == b'\\' || c < 0x20 || c >= 0x7f { b'?' } else { c })); s.push(b'"'); s };
        js.push(q(hex_ok(&mut cx.rng, 2 * nb)));
        match it % 4 {
            0 => js.push(q(hex_bad(&mut cx.rng, 2 * nb))),
            1 => { let c = cx.rng.pick(&[0usize, 2 * nb - 1, 2 * nb + 1, 2 * nb - 2, 2 * nb + 2]); js.push(q(hex_ok(&mut cx.rng, c))); }
            2 => js.push(hex_ok(&mut cx.rng, 2 * nb)), // unquoted
            _ => js.push(q(hex_ok(&mut cx.rng, 2 * nb))),
        }
        for s in &js {
            let ev = |form: &str| Ev::new("de", form).b("src", s).i("nb", nb as i64).s("sf", "json");
            cx.call(ev("uint.json.from_slice"), || match serde_json::from_slice::<Uint<N>>(s) { Ok(y) => oy(&raw(&y)), Err(_) => O::err("de") });
        }
    }
}

fn serde_limb(cx: &mut Cx) {
    for v in prim_values(&mut cx.rng, 64) {
        let p = v as u64;
        cx.call(Ev::new("ser", "limb.bincode.serialize").n("x", &[p]).i("nb", 8).s("sf", "bincode_word"), || match bincode::serialize(&Limb(p)) { Ok(b) => O::ok().b("enc", &b), Err(_) => O::err("ser") });
        let src = p.to_le_bytes();
        cx.call(Ev::new("de", "limb.bincode.deserialize").b("src", &src).i("nb", 8).s("sf", "bincode_word"), || match bincode::deserialize::<Limb>(&src) { Ok(y) => oy(&[y.0]), Err(_) => O::err("de") });
        let short = &src[..(p % 8) as usize];
        cx.call(Ev::new("de", "limb.bincode.deserialize").b("src", short).i("nb", 8).s("sf", "bincode_word"), || match bincode::deserialize::<Limb>(short) { Ok(y) => oy(&[y.0]), Err(_) => O::err("de") });
    }
}


// ------------------------------------------------------------------------------------------------
// every type alias of the crate (core and extra-sizes tables): the alias-specific impls are generated per table
// entry (`impl_uint_aliases!`: inherent to_be_bytes/to_le_bytes with the byte count spelled in the table, `Encoding`),
// so every entry is exercised once with a value that has a distinct octet in every position.
macro_rules! alias_events {
    ($name:ident, $bits:literal, $cx:expr) => {{
        let cx: &mut Cx = $cx;
        const N: usize = $bits / 64;
        let nb = $bits / 8;
        let mut v = vec![0u64; N];
        for (k, x) in v.iter_mut().enumerate() { *x = (0x0102_0304_0506_0708u64).wrapping_mul(2 * k as u64 + 1) ^ cx.rng.next(); }
        v[N - 1] |= 1 << 63;
        let x: vh::cb::$name = mk::<N>(&v);
        let form = |f: &str| format!("{}.{}", stringify!($name), f);
        cx.call(e_id(&form("BITS"), &[$bits as u64]), || oy(&[<vh::cb::$name>::BITS as u64]));
        cx.call(e_id(&form("BYTES"), &[nb as u64]), || oy(&[<vh::cb::$name>::BYTES as u64]));
        cx.call(e_enc(&form("to_be_bytes"), &v, nb, "be"), || O::ok().b("bytes", &x.to_be_bytes()));
        cx.call(e_enc(&form("to_le_bytes"), &v, nb, "le"), || O::ok().b("bytes", &x.to_le_bytes()));
        cx.call(e_enc(&form("Encoding.to_be_bytes"), &v, nb, "be"), || O::ok().b("bytes", Encoding::to_be_bytes(&x).as_ref()));
        cx.call(e_enc(&form("Encoding.to_le_bytes"), &v, nb, "le"), || O::ok().b("bytes", Encoding::to_le_bytes(&x).as_ref()));
        // the octet strings are computed here, not by the crate: a broken table entry then shows inside the recorded calls
        let le: Vec<u8> = v.iter().flat_map(|w| w.to_le_bytes()).collect();
        let be: Vec<u8> = le.iter().rev().copied().collect();
        cx.call(e_dec(&form("Encoding.from_be_bytes"), &be, nb, "be"), || { let r = <vh::cb::$name as Encoding>::Repr::try_from(&be[..]).expect("Repr holds BITS / 8 octets"); oy(&raw(&<vh::cb::$name as Encoding>::from_be_bytes(r))) });
        cx.call(e_dec(&form("Encoding.from_le_bytes"), &le, nb, "le"), || { let r = <vh::cb::$name as Encoding>::Repr::try_from(&le[..]).expect("Repr holds BITS / 8 octets"); oy(&raw(&<vh::cb::$name as Encoding>::from_le_bytes(r))) });
        cx.call(e_dec(&form("from_be_slice"), &be, nb, "be"), || oy(&raw(&<vh::cb::$name>::from_be_slice(&be))));
        cx.call(e_dec(&form("from_le_slice"), &le, nb, "le"), || oy(&raw(&<vh::cb::$name>::from_le_slice(&le))));
    }};
}
fn all_aliases(cx: &mut Cx) {
    vh::for_each_alias!(alias_events, cx);
}

fn main() {
    let mut cx = Cx::from_args("C16");
    let s = cx.scale;
    if cx.want("codec") {
        codec::<1>(&mut cx, 60 * s);
        codec::<2>(&mut cx, 50 * s);
        codec::<3>(&mut cx, 40 * s);
        codec::<4>(&mut cx, 50 * s);
        codec::<5>(&mut cx, 30 * s);
        codec::<6>(&mut cx, 30 * s);
        codec::<7>(&mut cx, 30 * s);
        codec::<8>(&mut cx, 30 * s);
        codec::<16>(&mut cx, 16 * s);
        codec::<32>(&mut cx, 8 * s);
        alias_bytes!(cx, vh::cb::U64, 1, 40 * s);
        alias_bytes!(cx, vh::cb::U128, 2, 30 * s);
        alias_bytes!(cx, vh::cb::U192, 3, 20 * s);
        alias_bytes!(cx, vh::cb::U256, 4, 30 * s);
        alias_bytes!(cx, vh::cb::U320, 5, 20 * s);
        alias_bytes!(cx, vh::cb::U384, 6, 20 * s);
        alias_bytes!(cx, vh::cb::U448, 7, 20 * s);
        alias_bytes!(cx, vh::cb::U512, 8, 20 * s);
        alias_bytes!(cx, vh::cb::U1024, 16, 10 * s);
        alias_bytes!(cx, vh::cb::U2048, 32, 6 * s);
    }
    if cx.want("array") {
        array_codec::<1>(&mut cx, 40 * s);
        array_codec::<2>(&mut cx, 30 * s);
        array_codec::<3>(&mut cx, 20 * s);
        array_codec::<4>(&mut cx, 30 * s);
        array_codec::<6>(&mut cx, 20 * s);
        array_codec::<7>(&mut cx, 20 * s);
        array_codec::<8>(&mut cx, 20 * s);
        array_codec::<16>(&mut cx, 10 * s);
        array_codec::<32>(&mut cx, 6 * s);
        // the remaining entries of the byte-size table (src/uint/array.rs), every one at least twice
        array_codec::<9>(&mut cx, 2); array_codec::<12>(&mut cx, 2); array_codec::<13>(&mut cx, 2); array_codec::<14>(&mut cx, 2);
        array_codec::<24>(&mut cx, 2); array_codec::<28>(&mut cx, 2); array_codec::<48>(&mut cx, 2); array_codec::<56>(&mut cx, 2);
        array_codec::<64>(&mut cx, 2); array_codec::<96>(&mut cx, 2); array_codec::<128>(&mut cx, 2);
    }
    if cx.want("words") {
        words::<1>(&mut cx, 30 * s);
        words::<2>(&mut cx, 25 * s);
        words::<3>(&mut cx, 15 * s);
        words::<4>(&mut cx, 25 * s);
        words::<5>(&mut cx, 10 * s);
        words::<6>(&mut cx, 10 * s);
        words::<7>(&mut cx, 10 * s);
        words::<8>(&mut cx, 15 * s);
        words::<16>(&mut cx, 8 * s);
        words::<32>(&mut cx, 4 * s);
    }
    if cx.want("hex") {
        hex_fixed::<1>(&mut cx, 120 * s, true);
        hex_fixed::<2>(&mut cx, 80 * s, true);
        hex_fixed::<3>(&mut cx, 50 * s, false);
        hex_fixed::<4>(&mut cx, 60 * s, false);
        hex_fixed::<5>(&mut cx, 30 * s, false);
        hex_fixed::<6>(&mut cx, 30 * s, false);
        hex_fixed::<7>(&mut cx, 30 * s, false);
        hex_fixed::<8>(&mut cx, 40 * s, false);
        hex_fixed::<16>(&mut cx, 24 * s, false);
        hex_fixed::<32>(&mut cx, 12 * s, false);
    }
    if cx.want("prims") {
        for _ in 0..s.min(4) {
            prims::<1>(&mut cx);
            prims::<2>(&mut cx);
            prims::<3>(&mut cx);
            prims::<4>(&mut cx);
            prims::<8>(&mut cx);
            sprims::<1>(&mut cx);
            sprims::<2>(&mut cx);
            sprims::<3>(&mut cx);
            sprims::<4>(&mut cx);
            sprims::<8>(&mut cx);
            prims_misc(&mut cx);
        }
    }
    if cx.want("concat") {
        cs_even::<1, 2>(&mut cx, 40 * s);
        cs_even::<2, 4>(&mut cx, 40 * s);
        cs_even::<3, 6>(&mut cx, 20 * s);
        cs_even::<4, 8>(&mut cx, 30 * s);
        cs_even::<8, 16>(&mut cx, 12 * s);
        cs_even::<16, 32>(&mut cx, 6 * s);
        cs_even::<32, 64>(&mut cx, 3 * s);
        cs_mixed::<2, 1, 3>(&mut cx, 30 * s);
        cs_mixed::<1, 2, 3>(&mut cx, 30 * s);
        cs_mixed::<3, 1, 4>(&mut cx, 30 * s);
        cs_mixed::<1, 3, 4>(&mut cx, 30 * s);
        cs_mixed::<2, 3, 5>(&mut cx, 20 * s);
        cs_mixed::<4, 1, 5>(&mut cx, 20 * s);
        cs_mixed::<4, 2, 6>(&mut cx, 20 * s);
        cs_mixed::<1, 5, 6>(&mut cx, 20 * s);
        cs_mixed::<3, 4, 7>(&mut cx, 20 * s);
        cs_mixed::<6, 1, 7>(&mut cx, 20 * s);
        cs_mixed::<1, 7, 8>(&mut cx, 20 * s);
        cs_mixed::<5, 3, 8>(&mut cx, 20 * s);
        cs_mixed::<7, 9, 16>(&mut cx, 10 * s);
        cs_mixed::<15, 1, 16>(&mut cx, 10 * s);
    }
    if cx.want("concat") {
        // every (low, high) split the crate implements up to 1024 bits (impl_uint_concat_split_mixed! table)
        cs_mixed::<1, 2, 3>(&mut cx, 2);
        cs_mixed::<2, 1, 3>(&mut cx, 2);
        cs_mixed::<1, 3, 4>(&mut cx, 2);
        cs_mixed::<3, 1, 4>(&mut cx, 2);
        cs_mixed::<1, 4, 5>(&mut cx, 2);
        cs_mixed::<2, 3, 5>(&mut cx, 2);
        cs_mixed::<3, 2, 5>(&mut cx, 2);
        cs_mixed::<4, 1, 5>(&mut cx, 2);
        cs_mixed::<1, 5, 6>(&mut cx, 2);
        cs_mixed::<2, 4, 6>(&mut cx, 2);
        cs_mixed::<4, 2, 6>(&mut cx, 2);
        cs_mixed::<5, 1, 6>(&mut cx, 2);
        cs_mixed::<1, 6, 7>(&mut cx, 2);
        cs_mixed::<2, 5, 7>(&mut cx, 2);
        cs_mixed::<3, 4, 7>(&mut cx, 2);
        cs_mixed::<4, 3, 7>(&mut cx, 2);
        cs_mixed::<5, 2, 7>(&mut cx, 2);
        cs_mixed::<6, 1, 7>(&mut cx, 2);
        cs_mixed::<1, 7, 8>(&mut cx, 2);
        cs_mixed::<2, 6, 8>(&mut cx, 2);
        cs_mixed::<3, 5, 8>(&mut cx, 2);
        cs_mixed::<5, 3, 8>(&mut cx, 2);
        cs_mixed::<6, 2, 8>(&mut cx, 2);
        cs_mixed::<7, 1, 8>(&mut cx, 2);
        cs_mixed::<1, 8, 9>(&mut cx, 2);
        cs_mixed::<2, 7, 9>(&mut cx, 2);
        cs_mixed::<3, 6, 9>(&mut cx, 2);
        cs_mixed::<4, 5, 9>(&mut cx, 2);
        cs_mixed::<5, 4, 9>(&mut cx, 2);
        cs_mixed::<6, 3, 9>(&mut cx, 2);
        cs_mixed::<7, 2, 9>(&mut cx, 2);
        cs_mixed::<8, 1, 9>(&mut cx, 2);
        cs_mixed::<1, 9, 10>(&mut cx, 2);
        cs_mixed::<2, 8, 10>(&mut cx, 2);
        cs_mixed::<3, 7, 10>(&mut cx, 2);
        cs_mixed::<4, 6, 10>(&mut cx, 2);
        cs_mixed::<6, 4, 10>(&mut cx, 2);
        cs_mixed::<7, 3, 10>(&mut cx, 2);
        cs_mixed::<8, 2, 10>(&mut cx, 2);
        cs_mixed::<9, 1, 10>(&mut cx, 2);
        cs_mixed::<1, 10, 11>(&mut cx, 2);
        cs_mixed::<2, 9, 11>(&mut cx, 2);
        cs_mixed::<3, 8, 11>(&mut cx, 2);
        cs_mixed::<4, 7, 11>(&mut cx, 2);
        cs_mixed::<5, 6, 11>(&mut cx, 2);
        cs_mixed::<6, 5, 11>(&mut cx, 2);
        cs_mixed::<7, 4, 11>(&mut cx, 2);
        cs_mixed::<8, 3, 11>(&mut cx, 2);
        cs_mixed::<9, 2, 11>(&mut cx, 2);
        cs_mixed::<10, 1, 11>(&mut cx, 2);
        cs_mixed::<1, 11, 12>(&mut cx, 2);
        cs_mixed::<2, 10, 12>(&mut cx, 2);
        cs_mixed::<3, 9, 12>(&mut cx, 2);
        cs_mixed::<4, 8, 12>(&mut cx, 2);
        cs_mixed::<5, 7, 12>(&mut cx, 2);
        cs_mixed::<7, 5, 12>(&mut cx, 2);
        cs_mixed::<8, 4, 12>(&mut cx, 2);
        cs_mixed::<9, 3, 12>(&mut cx, 2);
        cs_mixed::<10, 2, 12>(&mut cx, 2);
        cs_mixed::<11, 1, 12>(&mut cx, 2);
        cs_mixed::<1, 12, 13>(&mut cx, 2);
        cs_mixed::<2, 11, 13>(&mut cx, 2);
        cs_mixed::<3, 10, 13>(&mut cx, 2);
        cs_mixed::<4, 9, 13>(&mut cx, 2);
        cs_mixed::<5, 8, 13>(&mut cx, 2);
        cs_mixed::<6, 7, 13>(&mut cx, 2);
        cs_mixed::<7, 6, 13>(&mut cx, 2);
        cs_mixed::<8, 5, 13>(&mut cx, 2);
        cs_mixed::<9, 4, 13>(&mut cx, 2);
        cs_mixed::<10, 3, 13>(&mut cx, 2);
        cs_mixed::<11, 2, 13>(&mut cx, 2);
        cs_mixed::<12, 1, 13>(&mut cx, 2);
        cs_mixed::<1, 13, 14>(&mut cx, 2);
        cs_mixed::<2, 12, 14>(&mut cx, 2);
        cs_mixed::<3, 11, 14>(&mut cx, 2);
        cs_mixed::<4, 10, 14>(&mut cx, 2);
        cs_mixed::<5, 9, 14>(&mut cx, 2);
        cs_mixed::<6, 8, 14>(&mut cx, 2);
        cs_mixed::<8, 6, 14>(&mut cx, 2);
        cs_mixed::<9, 5, 14>(&mut cx, 2);
        cs_mixed::<10, 4, 14>(&mut cx, 2);
        cs_mixed::<11, 3, 14>(&mut cx, 2);
        cs_mixed::<12, 2, 14>(&mut cx, 2);
        cs_mixed::<13, 1, 14>(&mut cx, 2);
        cs_mixed::<1, 14, 15>(&mut cx, 2);
        cs_mixed::<2, 13, 15>(&mut cx, 2);
        cs_mixed::<3, 12, 15>(&mut cx, 2);
        cs_mixed::<4, 11, 15>(&mut cx, 2);
        cs_mixed::<5, 10, 15>(&mut cx, 2);
        cs_mixed::<6, 9, 15>(&mut cx, 2);
        cs_mixed::<7, 8, 15>(&mut cx, 2);
        cs_mixed::<8, 7, 15>(&mut cx, 2);
        cs_mixed::<9, 6, 15>(&mut cx, 2);
        cs_mixed::<10, 5, 15>(&mut cx, 2);
        cs_mixed::<11, 4, 15>(&mut cx, 2);
        cs_mixed::<12, 3, 15>(&mut cx, 2);
        cs_mixed::<13, 2, 15>(&mut cx, 2);
        cs_mixed::<14, 1, 15>(&mut cx, 2);
        cs_mixed::<1, 15, 16>(&mut cx, 2);
        cs_mixed::<2, 14, 16>(&mut cx, 2);
        cs_mixed::<3, 13, 16>(&mut cx, 2);
        cs_mixed::<4, 12, 16>(&mut cx, 2);
        cs_mixed::<5, 11, 16>(&mut cx, 2);
        cs_mixed::<6, 10, 16>(&mut cx, 2);
        cs_mixed::<7, 9, 16>(&mut cx, 2);
        cs_mixed::<9, 7, 16>(&mut cx, 2);
        cs_mixed::<10, 6, 16>(&mut cx, 2);
        cs_mixed::<11, 5, 16>(&mut cx, 2);
        cs_mixed::<12, 4, 16>(&mut cx, 2);
        cs_mixed::<13, 3, 16>(&mut cx, 2);
        cs_mixed::<14, 2, 16>(&mut cx, 2);
        cs_mixed::<15, 1, 16>(&mut cx, 2);
    }
    if cx.want("alias") { all_aliases(&mut cx); }
    if cx.want("resize") {
        resize::<1, 1>(&mut cx, 10 * s);
        resize::<1, 2>(&mut cx, 25 * s);
        resize::<2, 1>(&mut cx, 25 * s);
        resize::<2, 4>(&mut cx, 20 * s);
        resize::<4, 2>(&mut cx, 20 * s);
        resize::<4, 3>(&mut cx, 20 * s);
        resize::<3, 5>(&mut cx, 20 * s);
        resize::<8, 1>(&mut cx, 20 * s);
        resize::<1, 8>(&mut cx, 20 * s);
        resize::<8, 7>(&mut cx, 15 * s);
        resize::<6, 16>(&mut cx, 10 * s);
        resize::<16, 6>(&mut cx, 10 * s);
        resize::<32, 16>(&mut cx, 6 * s);
        resize::<16, 32>(&mut cx, 6 * s);
        resize::<32, 33>(&mut cx, 4 * s);
    }
    if cx.want("boxed_decode") {
        boxed_decode(&mut cx, s);
    }
    if cx.want("boxed_misc") {
        boxed_misc(&mut cx, 120 * s);
    }
    if cx.want("boxed_hex") {
        boxed_hex(&mut cx, 40 * s);
    }
    if cx.want("serde") {
        serde_uint::<1>(&mut cx, 50 * s);
        serde_uint::<2>(&mut cx, 40 * s);
        serde_uint::<3>(&mut cx, 20 * s);
        serde_uint::<4>(&mut cx, 40 * s);
        serde_uint::<5>(&mut cx, 15 * s);
        serde_uint::<6>(&mut cx, 15 * s);
        serde_uint::<7>(&mut cx, 15 * s);
        serde_uint::<8>(&mut cx, 20 * s);
        serde_uint::<16>(&mut cx, 10 * s);
        serde_uint::<32>(&mut cx, 5 * s);
        serde_limb(&mut cx);
    }
    cx.finish();
}
