import random
W=64; B=1<<W; M=B-1
random.seed(7)
def limb():
    r=random.random()
    if r<0.25: return 0
    if r<0.5: return M
    if r<0.56: return 1
    if r<0.62: return M-1
    if r<0.68: return 1<<63
    if r<0.72: return (1<<63)-1
    if r<0.76: return (1<<63)+1
    if r<0.8: return 1<<random.randrange(64)
    if r<0.84: return M ^ (1<<random.randrange(64))
    return random.getrandbits(64)
def num(k): return sum(limb()<<(64*i) for i in range(k))
def knuth_paths(n,d,L):
    # returns (#addback, #qmax, #corr) for dividing L-limb n by d (yc>=2)
    dbits=d.bit_length(); yc=(dbits+63)//64
    if yc<2 or yc>L: return None
    s=(64-dbits%64)%64
    x=n<<s; y=d<<s
    v1=(y>>(64*(yc-1)))&M; v0=(y>>(64*(yc-2)))&M
    addback=qmax=corr=0
    # process quotient digits j = L-yc .. 0 ; remainder r
    r = x >> (64*(L-yc+1))  # top yc-1 limbs + x_hi
    for j in range(L-yc,-1,-1):
        r = (r<<64) | ((x>>(64*j))&M)
        # r has up to yc+1 limbs; top three limbs
        u2=(r>>(64*yc))&M; u1=(r>>(64*(yc-1)))&M; u0=(r>>(64*(yc-2)))&M
        num3=(u2<<128)|(u1<<64)|u0
        qhat=min(num3//((v1<<64)|v0), M)
        # code: div2by1 on (u2,u1)/v1 then up to 2 corrections
        if u2==v1: qmax+=1; q0=M
        else: q0=((u2<<64)|u1)//v1
        corr += max(0, min(2, q0-qhat))
        q=r//y
        if qhat>q: addback+=1
        assert qhat-q in (0,1), (qhat,q)
        r -= q*y
    return addback,qmax,corr
tot=0; ab=0; qm=0; co=0; cases=0
for t in range(200000):
    L=random.choice([2,3,4,6,8])
    n=num(L); yc=random.randint(2,L); d=num(yc)
    if d==0: continue
    res=knuth_paths(n,d,L)
    if res is None: continue
    cases+=1; ab+= 1 if res[0] else 0; qm+= 1 if res[1] else 0; co += 1 if res[2] else 0
print("cases",cases,"with addback",ab,"with qmax",qm,"with corr",co)
# constructive: n = q*d + r with structured q,d,r
ab=0;cases=0
for t in range(200000):
    L=random.choice([2,3,4,6,8]); yc=random.randint(2,L)
    d=num(yc)
    if d.bit_length()<=64*(yc-1): continue
    q=num(L-yc+1); r=num(yc)%d if random.random()<0.7 else random.choice([0,1,d-1,d-2])%d
    n=q*d+r
    if n>=1<<(64*L): continue
    res=knuth_paths(n,d,L); 
    if res is None: continue
    cases+=1; ab+=1 if res[0] else 0
print("constructive cases",cases,"with addback",ab)
