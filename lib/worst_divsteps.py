# worst-case inputs for Bernstein-Yang divsteps (delta starts at 1): run the recurrence backwards from g = 0, f = +-1,
# keeping for every delta the predecessor pairs of least size (beam search), and read off the pairs whose delta is 1
import sys
def steps(f, g):
    d = 1; n = 0
    while g != 0:
        if d > 0 and g & 1: d, f, g = 1 - d, g, (g - f) >> 1
        else: d, g = 1 + d, (g + (g & 1) * f) >> 1
        n += 1
    return n, f
def preds(d, f, g):
    out = [(d - 1, f, 2 * g)]                          # g was even
    if d - 1 <= 0: out.append((d - 1, f, 2 * g - f))    # g was odd, delta <= 0
    if d <= 0: out.append((1 - d, f - 2 * g, f))        # swap step: delta' = 1 - delta, f' = g, g' = (g - f)/2
    return out
def size(s): return max(abs(s[1]), abs(s[2]))
def search(maxbits, beam):
    best = {}
    cur = {}
    for d0 in range(-2, 3):
        for f0 in (1, -1): cur.setdefault(d0, []).append((d0, f0, 0))
    n = 0
    dmax = maxbits // 3 + 6
    while n < 3.2 * maxbits:
        n += 1
        nxt = {}
        for lst in cur.values():
            for s in lst:
                for p in preds(*s):
                    if p[1] % 2 == 0 or abs(p[0]) > dmax: continue
                    nxt.setdefault(p[0], set()).add(p)
        cur = {}
        for d, st in nxt.items():
            lst = [s for s in sorted(st, key=size)[:beam] if size(s).bit_length() <= maxbits]
            if lst: cur[d] = lst
        if not cur: break
        for s in cur.get(1, []):
            f, g = s[1], s[2]
            if f > 0 and g > 0:
                b = max(f.bit_length(), g.bit_length())
                if b not in best or best[b][0] < n: best[b] = (n, f, g)
    return best
if __name__ == '__main__':
    mb = int(sys.argv[1])
    best = search(mb, int(sys.argv[2]))
    for b in sorted(best):
        n, f, g = best[b]
        chk, gf = steps(f, g)
        print(b, n, chk, abs(gf), round(n / b, 3), hex(f), hex(g))
