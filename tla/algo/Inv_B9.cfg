SPECIFICATION Spec
CONSTANTS BITS = 9
 ZeroFix = TRUE
INVARIANT Inv2kOK
INVARIANT InvModOK
CHECK_DEADLOCK FALSE
