SPECIFICATION Spec
CONSTANTS W = 3
 N = 2
INVARIANT Congruent
INVARIANT RawBound
INVARIANT Claim1
INVARIANT RetrieveCanon
INVARIANT Claim3Full
INVARIANT Claim2NonMult
INVARIANT CanonOneSub
CHECK_DEADLOCK FALSE
