SPECIFICATION Spec
CONSTANTS W = 4
 L = 2
 YC = 2
 Mode = "ct"
INVARIANT Exact
INVARIANT PreHolds
INVARIANT PreHoldsEverywhere
CHECK_DEADLOCK FALSE
