----------------------------- MODULE WrapperApi -----------------------------
(***************************************************************************)
(* L3 state machine of the value wrappers at BITS-bit integers (C04, C12): *)
(* a register file of typed values                                          *)
(*     uint        plain integer                                           *)
(*     checked     Checked<T>: a value or none; none is sticky             *)
(*     wrapping    Wrapping<T>: arithmetic modulo 2^BITS, always a value   *)
(*     nonzero/odd NonZero<T> / Odd<T>: only obtainable through the gated  *)
(*                 constructors, constants, Default and selection          *)
(* Every register carries ghost state: the mathematical value of the       *)
(* expression that produced it (unbounded) and whether every intermediate  *)
(* result of that expression fitted.  TLC explores ALL operation histories *)
(* up to MaxLen over ALL operand values and checks                         *)
(*   CheckedExact   some iff every intermediate fitted, and then the value *)
(*                  is the mathematical one (hence: once none, always none)*)
(*   WrappingExact  value = mathematical value mod 2^BITS                  *)
(*   WrappersValid  no NonZero holds 0 and no Odd holds an even number     *)
(*   DivisorsSafe   an operation taking a wrapper never sees 0 / even      *)
(* OddDefault = "derived" reproduces the tree's derived Default for Odd    *)
(* (the open finding K-C12-odd-default-zero): WrappersValid is then        *)
(* violated; "one" is what NonZero's hand-written Default does.            *)
(***************************************************************************)
EXTENDS Integers, Sequences, TLC
CONSTANTS BITS, MaxLen, OddDefault
R == 2 ^ BITS
Val == 0..R - 1
VARIABLE regs            \* sequence of [kind, some, val, ghost, fit]

Reg(k, s, v, g, f) == [kind |-> k, some |-> s, val |-> v, ghost |-> g, fit |-> f]
Push(r) == regs' = Append(regs, r)
Idx == 1..Len(regs)
Of(k) == {i \in Idx : regs[i].kind = k}

NewUint(v) == Push(Reg("uint", TRUE, v, v, TRUE))
MakeChecked(i) == Push(Reg("checked", TRUE, regs[i].val, regs[i].val, TRUE))
MakeWrapping(i) == Push(Reg("wrapping", TRUE, regs[i].val, regs[i].val, TRUE))

Op(o, x, y) == CASE o = "add" -> x + y [] o = "sub" -> x - y [] o = "mul" -> x * y
InRange(v) == v >= 0 /\ v < R
(* Checked<T> op Checked<T>: and_then chain — none if either operand is none or the result does not fit *)
CheckedOp(o, i, j) ==
  LET a == regs[i]  b == regs[j]
      m == Op(o, a.val, b.val)
      s == a.some /\ b.some /\ InRange(m)
  IN Push(Reg("checked", s, IF s THEN m ELSE 0, Op(o, a.ghost, b.ghost), a.fit /\ b.fit /\ InRange(Op(o, a.ghost, b.ghost))))
WrappingOp(o, i, j) ==
  LET a == regs[i]  b == regs[j]
  IN Push(Reg("wrapping", TRUE, Op(o, a.val, b.val) % R, Op(o, a.ghost, b.ghost), TRUE))

(* gated constructors: a register is created only when the CtOption is some *)
NonZeroNew(i) == regs[i].val # 0 /\ Push(Reg("nonzero", TRUE, regs[i].val, regs[i].val, TRUE))
OddNew(i)     == regs[i].val % 2 = 1 /\ Push(Reg("odd", TRUE, regs[i].val, regs[i].val, TRUE))
Consts == \/ Push(Reg("nonzero", TRUE, 1, 1, TRUE)) \/ Push(Reg("nonzero", TRUE, R - 1, R - 1, TRUE))     \* ONE, MAX
          \/ Push(Reg("nonzero", TRUE, 1, 1, TRUE))                                                      \* NonZero::default()
          \/ Push(Reg("odd", TRUE, IF OddDefault = "derived" THEN 0 ELSE 1, 1, TRUE))                    \* Odd::default()
Select(i, j, c) == regs[i].kind = regs[j].kind /\ regs[i].kind \in {"nonzero", "odd"}
                   /\ Push(IF c = 1 THEN regs[j] ELSE regs[i])
OddAsNonZero(i) == Push(Reg("nonzero", TRUE, regs[i].val, regs[i].val, TRUE))                            \* Odd::as_nz_ref
(* consumers: division by a NonZero, Montgomery parameters from an Odd *)
DivBy(i, j) == Push(Reg("uint", TRUE, regs[i].val \div (IF regs[j].val = 0 THEN 1 ELSE regs[j].val), 0, regs[j].val # 0))
ParamsFrom(j) == Push(Reg("uint", TRUE, regs[j].val, 0, regs[j].val % 2 = 1))

Init == regs = <<>>
Next == /\ Len(regs) < MaxLen
        /\ \/ \E v \in Val : NewUint(v)
           \/ \E i \in Of("uint") : MakeChecked(i) \/ MakeWrapping(i) \/ NonZeroNew(i) \/ OddNew(i)
           \/ \E o \in {"add", "sub", "mul"} : \E i \in Of("checked") : \E j \in Of("checked") : CheckedOp(o, i, j)
           \/ \E o \in {"add", "sub", "mul"} : \E i \in Of("wrapping") : \E j \in Of("wrapping") : WrappingOp(o, i, j)
           \/ Consts
           \/ \E i \in Idx : \E j \in Idx : \E c \in {0, 1} : Select(i, j, c)
           \/ \E i \in Of("odd") : OddAsNonZero(i) \/ ParamsFrom(i)
           \/ \E i \in Of("uint") : \E j \in Of("nonzero") : DivBy(i, j)
Spec == Init /\ [][Next]_regs

CheckedExact  == \A i \in Of("checked") : regs[i].some = regs[i].fit /\ (regs[i].some => regs[i].val = regs[i].ghost)
WrappingExact == \A i \in Of("wrapping") : regs[i].val = regs[i].ghost % R
WrappersValid == /\ \A i \in Of("nonzero") : regs[i].val # 0
                 /\ \A i \in Of("odd") : regs[i].val % 2 = 1
DivisorsSafe  == \A i \in Of("uint") : regs[i].fit            \* fit = FALSE marks a consumer that saw 0 / an even modulus
=============================================================================
