------------------------------ MODULE CodecTrace ------------------------------
(***************************************************************************)
(* Binding of the codec transcription (algo/CodecOps.tla), which TLC       *)
(* explored exhaustively at Q-bit octets (algo/Codec.tla), to the real     *)
(* crate: the same operators are evaluated here at Q = 8 on the inputs of  *)
(* the recorded DER / RLP calls, and the transcription's outcome (ok / err *)
(* and the octets) is compared with the recorded one.  A disagreement is   *)
(* SPEC-DRIFT: the code no longer follows the transcription (or the        *)
(* transcription was wrong) — informational, the verdict on the call is    *)
(* the judge's (judge/JC18.tla).  The run also counts which branches of    *)
(* the transcription the recorded inputs took, by error reason and by      *)
(* encoding form, so that "the long-form length / the pad octet / every    *)
(* rejection reason was executed by the real code" is a measured fact.     *)
(***************************************************************************)
EXTENDS TLC, Json, IOUtils, Sequences, Integers
C(nb) == INSTANCE CodecOps WITH Q <- 8, NB <- nb, T <- 55, LS <- 8, Mut <- 0
Rec == ndJsonDeserialize(IOEnv.TRACE)
Stride == atoi(IOEnv.STRIDE)
VARIABLE i

RECURSIVE Rev(_)
Rev(s) == IF s = <<>> THEN <<>> ELSE Rev(Tail(s)) \o <<s[1]>>
RECURSIVE Zeros(_)
Zeros(n) == IF n <= 0 THEN <<>> ELSE <<0>> \o Zeros(n - 1)
Norm(u) == IF u # <<>> /\ u[1] = 0 THEN C(1)!StripAllZeroes(u) ELSE u              \* <<0>> and <<>> both denote zero
Arr(x, nb) == Zeros(nb - Len(x)) \o Rev(x)                                          \* to_be_byte_array of the little-endian digits x

Bump(lbl) == LET old == TLCGet(1) IN TLCSet(1, [k \in (DOMAIN old) \cup {lbl} |-> (IF k \in DOMAIN old THEN old[k] ELSE 0) + (IF k = lbl THEN 1 ELSE 0)])
Drift(n) == Bump("spec_drift") /\ PrintT(<<"SPEC-DRIFT", n>>)

(* outcome of a decoder of the transcription against the recorded one *)
SameDec(e, r) == IF r[1] = "ok" THEN e.k = "ok" /\ Norm(r[2]) = Rev(e.y) ELSE e.k = "err"

Eval(e, n) ==
  LET nb == e.bits \div 8 IN
  CASE e.op = "der_dec" ->
         LET r == C(nb)!DerDecO(e.src) IN
         /\ Bump("der_dec." \o (IF r[1] = "ok" THEN (IF Len(e.src) >= 2 /\ e.src[2] > 128 THEN "ok_long_length" ELSE IF Len(e.src) > 3 /\ e.src[3] = 0 THEN "ok_pad_octet" ELSE "ok") ELSE r[2]))
         /\ IF SameDec(e, r) THEN TRUE ELSE Drift(n)
    [] e.op = "der_val" ->
         LET r == IF e.tag # 2 THEN <<"err", "tag">> ELSE C(nb)!DerDecodeValue(e.src) IN
         /\ Bump("der_val." \o (IF r[1] = "ok" THEN "ok" ELSE r[2]))
         /\ IF SameDec(e, r) THEN TRUE ELSE Drift(n)
    [] e.op = "der_ref" ->
         LET u == C(nb)!StripLeadingZeroes(e.src)
             r == IF nb - Len(u) < 0 THEN <<"err", "length">> ELSE <<"ok", u>> IN
         /\ Bump("der_ref." \o (IF r[1] = "ok" THEN "ok" ELSE r[2]))
         /\ IF SameDec(e, r) THEN TRUE ELSE Drift(n)
    [] e.op = "der_enc" ->
         LET c == C(nb)!DerEncO(Arr(e.x, nb)) IN
         /\ Bump("der_enc." \o (IF e.cap < Len(c) THEN "buffer_too_small" ELSE IF c[2] > 128 THEN "long_length" ELSE IF Len(c) > 3 /\ c[3] = 0 THEN "pad_octet" ELSE "plain"))
         /\ IF (IF e.cap >= Len(c) THEN e.k = "ok" /\ e.bytes = c ELSE e.k = "err") THEN TRUE ELSE Drift(n)
    [] e.op = "der_len" ->
         /\ Bump("der_len")
         /\ IF e.k = "ok" /\ e.n = Len(C(nb)!DerEncO(Arr(e.x, nb))) THEN TRUE ELSE Drift(n)
    [] e.op = "der_vlen" ->
         /\ Bump("der_vlen")
         /\ IF e.k = "ok" /\ e.n = C(nb)!EncodedLen(Arr(e.x, nb)) THEN TRUE ELSE Drift(n)
    [] e.op = "rlp_dec" ->
         LET r == C(nb)!RlpDecO(e.src) IN
         /\ Bump("rlp_dec." \o (IF r[1] = "ok" THEN (IF e.src[1] < 128 THEN "ok_single_octet" ELSE IF e.src[1] > 183 THEN "ok_long_string" ELSE "ok_short_string") ELSE r[2]))
         /\ IF SameDec(e, r) THEN TRUE ELSE Drift(n)
    [] e.op = "rlp_enc" ->
         LET c == C(nb)!RlpEncO(Arr(e.x, nb)) IN
         /\ Bump("rlp_enc." \o (IF c[1] < 128 THEN "single_octet" ELSE IF c[1] > 183 THEN "long_string" ELSE "short_string"))
         /\ IF e.k = "ok" /\ e.bytes = c THEN TRUE ELSE Drift(n)
    [] OTHER -> Bump("not_modelled")

Init == i = 1 /\ TLCSet(1, [k \in {} |-> 0])
Step == /\ i <= Len(Rec)
        /\ Eval(Rec[i], i)
        /\ i' = i + Stride
Spec == Init /\ [][Step]_i
Done == PrintT(<<"CODEC", ToJson(TLCGet(1))>>)
=============================================================================
