-------------------------------- MODULE JC03 --------------------------------
(* C03 — contract of the recorded events of this property (stub).           *)
EXTENDS BigNat

JudgeC03(e, rg) == FALSE
=============================================================================
