use crypto_bigint::*;
use crypto_bigint::modular::*;
use num_bigint::BigUint;
use std::panic::{catch_unwind, AssertUnwindSafe};

struct Rng(u64);
impl Rng { fn next(&mut self) -> u64 { self.0 ^= self.0 << 13; self.0 ^= self.0 >> 7; self.0 ^= self.0 << 17; self.0 }
  fn below(&mut self, n: u64) -> u64 { self.next() % n }
  fn limb(&mut self) -> u64 { match self.below(100) { 0..=24 => 0, 25..=49 => u64::MAX, 50..=55 => 1, 56..=61 => u64::MAX-1, 62..=67 => 1<<63, 68..=71 => (1<<63)-1, 72..=75 => (1<<63)+1, 76..=79 => 1u64 << self.below(64), 80..=83 => !(1u64 << self.below(64)), _ => self.next() } }
  fn limbs(&mut self, n: usize) -> Vec<u64> { (0..n).map(|_| self.limb()).collect() }
}
fn big(l: &[u64]) -> BigUint { let mut b = Vec::new(); for w in l { b.extend_from_slice(&w.to_le_bytes()); } BigUint::from_bytes_le(&b) }
fn bx(l: &[u64]) -> BoxedUint { BoxedUint::from_words(l.iter().copied()) }
fn bbig(x: &BoxedUint) -> BigUint { BigUint::from_bytes_le(&x.to_le_bytes()) }
fn ubig<const L: usize>(x: &Uint<L>) -> BigUint { big(&x.to_words()) }
fn ux<const L: usize>(l: &[u64]) -> Uint<L> { let mut w = [0u64; L]; w.copy_from_slice(l); Uint::from_words(w) }
static FAILS: std::sync::atomic::AtomicU32 = std::sync::atomic::AtomicU32::new(0);
fn fail(what: &str, detail: String) { FAILS.fetch_add(1, std::sync::atomic::Ordering::Relaxed); let mut m = KINDS.lock().unwrap(); let e = m.entry(what.to_string()).or_insert(0u32); *e += 1; if *e <= 3 { let mut d = detail; d.truncate(400); println!("FAIL {}: {}", what, d); } }
static KINDS: std::sync::Mutex<std::collections::BTreeMap<String,u32>> = std::sync::Mutex::new(std::collections::BTreeMap::new());

fn fixed<const L: usize, const WL: usize, const UL: usize>(r: &mut Rng, iters: usize)
where Uint<L>: Concat<Output = Uint<WL>>, Uint<WL>: Split<Output = Uint<L>>, Odd<Uint<L>>: PrecomputeInverter<Inverter = SafeGcdInverter<L, UL>, Output = Uint<L>> {
  let two_bits = BigUint::from(1u8) << (64*L);
  for it in 0..iters {
    let a = r.limbs(L); let mut b = r.limbs(L);
    if it % 3 == 0 { let k = r.below(L as u64) as usize; for i in k+1..L { b[i] = 0; } }
    let (ua, ub) = (ux::<L>(&a), ux::<L>(&b)); let (ba, bb) = (big(&a), big(&b));
    // mul
    let (lo, hi) = ua.split_mul(&ub); if ubig(&lo) + (ubig(&hi) << (64*L)) != &ba * &bb { fail("split_mul", format!("L={} {:?} {:?}", L, a, b)); }
    let (lo, hi) = ua.square_wide(); if ubig(&lo) + (ubig(&hi) << (64*L)) != &ba * &ba { fail("square_wide", format!("L={} {:?}", L, a)); }
    // div
    if let Some(nz) = Option::<NonZero<Uint<L>>>::from(NonZero::new(ub)) {
      let res = catch_unwind(AssertUnwindSafe(|| ua.div_rem(&nz)));
      match res { Ok((q, rm)) => if ubig(&q) != &ba / &bb || ubig(&rm) != &ba % &bb { fail("div_rem", format!("L={} {:?} {:?}", L, a, b)); }, Err(_) => fail("div_rem panic", format!("L={} {:?} {:?}", L, a, b)) }
      let res = catch_unwind(AssertUnwindSafe(|| ua.div_rem_vartime(&nz)));
      match res { Ok((q, rm)) => if ubig(&q) != &ba / &bb || ubig(&rm) != &ba % &bb { fail("div_rem_vartime", format!("L={} {:?} {:?}", L, a, b)); }, Err(_) => fail("div_rem_vartime panic", format!("L={} {:?} {:?}", L, a, b)) }
      let c = r.limbs(L); let uc = ux::<L>(&c);
      let res = catch_unwind(AssertUnwindSafe(|| Uint::rem_wide_vartime((ua, uc), &nz)));
      match res { Ok(rm) => if ubig(&rm) != (&ba + (big(&c) << (64*L))) % &bb { fail("rem_wide_vartime", format!("L={} {:?} {:?} {:?}", L, a, c, b)); }, Err(_) => fail("rem_wide panic", format!("L={} {:?} {:?} {:?}", L, a, c, b)) }
      // constructive n = q*d + r
      let q = r.limbs(L); let prod = big(&q) * &bb + (&ba % &bb);
      if prod < two_bits { let mut bytes = prod.to_bytes_le(); bytes.resize(8*L, 0); let n = Uint::<L>::from_le_slice(&bytes);
        let (q2, r2) = n.div_rem(&nz); let (q3, r3) = n.div_rem_vartime(&nz);
        if ubig(&q2) != &prod / &bb || ubig(&r2) != &prod % &bb || q2 != q3 || r2 != r3 { fail("div_rem constructive", format!("L={} n={} d={:?}", L, prod, b)); } }
      // add_mod etc with p = b
      let x = ux::<L>(&{ let mut bytes = (&ba % &bb).to_bytes_le(); bytes.resize(8*L,0); bytes.chunks(8).map(|c| u64::from_le_bytes(c.try_into().unwrap())).collect::<Vec<_>>() });
      let cc = r.limbs(L); let yv = big(&cc) % &bb; let y = { let mut bytes = yv.to_bytes_le(); bytes.resize(8*L,0); Uint::<L>::from_le_slice(&bytes) };
      let xv = ubig(&x);
      if ubig(&x.add_mod(&y, &ub)) != (&xv + &yv) % &bb { fail("add_mod", format!("L={} x={} y={} p={}", L, xv, yv, bb)); }
      if ubig(&x.sub_mod(&y, &ub)) != (&xv + &bb - &yv) % &bb { fail("sub_mod", format!("L={} x={} y={} p={}", L, xv, yv, bb)); }
      if ubig(&x.neg_mod(&ub)) != (&bb - &xv) % &bb { fail("neg_mod", format!("L={} x={} p={}", L, xv, bb)); }
      if ubig(&x.double_mod(&ub)) != (&xv + &xv) % &bb { fail("double_mod", format!("L={} x={} p={}", L, xv, bb)); }
      if ubig(&x.mul_mod_vartime(&y, &nz)) != (&xv * &yv) % &bb { fail("mul_mod_vartime", format!("L={} x={} y={} p={}", L, xv, yv, bb)); }
      // inv_mod general
      let res = catch_unwind(AssertUnwindSafe(|| ua.inv_mod(&ub)));
      match res { Ok(o) => { let g = num_integer::Integer::gcd(&ba, &bb); let some: bool = o.is_some().into();
            if some != (g == BigUint::from(1u8)) { fail("inv_mod is_some", format!("L={} a={} m={} some={}", L, ba, bb, some)); }
            else if some { let xi = ubig(&o.unwrap_or(Uint::ZERO)); if (&xi * &ba) % &bb != BigUint::from(1u8) % &bb || (bb > BigUint::from(1u8) && xi >= bb) { fail("inv_mod value", format!("L={} a={} m={} x={}", L, ba, bb, xi)); } } },
        Err(_) => fail("inv_mod panic", format!("L={} a={} m={}", L, ba, bb)) }
      if b[0] & 1 == 1 {
        let m = Odd::new(ub).unwrap();
        let params = MontyParams::new(m); let pv = MontyParams::new_vartime(m);
        if params != pv { fail("params ct vs vartime", format!("L={} m={}", L, bb)); }
        let mx = MontyForm::new(&ua, params); let my = MontyForm::new(&uc, params);
        if ubig(&mx.retrieve()) != &ba % &bb { fail("monty new/retrieve", format!("L={} a={} m={}", L, ba, bb)); }
        if ubig(&(mx * my).retrieve()) != (&ba * big(&c)) % &bb { fail("monty mul", format!("L={} a={} c={} m={}", L, ba, big(&c), bb)); }
        if ubig(&(mx + my).retrieve()) != (&ba + big(&c)) % &bb { fail("monty add", format!("L={} m={}", L, bb)); }
        if (mx*my).as_montgomery() >= &ub && bb > BigUint::from(1u8) { fail("monty noncanonical", format!("L={} m={}", L, bb)); }
        let e = r.limbs(L); let ebits = r.below(64*L as u64 + 1) as u32; let ue = ux::<L>(&e);
        let p = mx.pow_bounded_exp(&ue, ebits); let em = big(&e) % (BigUint::from(1u8) << ebits);
        if ubig(&p.retrieve()) != ba.modpow(&em, &bb) { fail("pow_bounded_exp", format!("L={} a={} e={} k={} m={}", L, ba, big(&e), ebits, bb)); }
        let hv = mx.div_by_2(); if ubig(&(hv + hv).retrieve()) != &ba % &bb { fail("div_by_2", format!("L={} a={} m={}", L, ba, bb)); }
        let inv = mx.inv(); let g = num_integer::Integer::gcd(&ba, &bb);
        let some: bool = inv.is_some().into(); if some != (g == BigUint::from(1u8)) { fail("monty inv is_some", format!("L={} a={} m={}", L, ba, bb)); }
      }
    }
    // gcd
    let res = catch_unwind(AssertUnwindSafe(|| ua.gcd(&ub)));
    match res { Ok(g) => if ubig(&g) != num_integer::Integer::gcd(&ba, &bb) { fail("gcd", format!("L={} a={} b={} got={}", L, ba, bb, ubig(&g))); }, Err(_) => fail("gcd panic", format!("L={} a={} b={}", L, ba, bb)) }
    // sqrt
    let s = ubig(&ua.sqrt()); if s != ba.sqrt() { fail("sqrt", format!("L={} a={}", L, ba)); }
    let s = ubig(&ua.sqrt_vartime()); if s != ba.sqrt() { fail("sqrt_vartime", format!("L={} a={}", L, ba)); }
    let t = r.limbs(L); let tv = big(&t) >> (32*L + r.below(8) as usize); for dlt in [0i32, 1, -1] { let sq = &tv * &tv; let v = if dlt == 0 { sq } else if dlt == 1 { sq + 1u8 } else if sq > BigUint::from(0u8) { sq - 1u8 } else { sq };
        if v < two_bits { let mut bytes = v.to_bytes_le(); bytes.resize(8*L,0); let n = Uint::<L>::from_le_slice(&bytes); if ubig(&n.sqrt()) != v.sqrt() || ubig(&n.sqrt_vartime()) != v.sqrt() { fail("sqrt near square", format!("L={} v={}", L, v)); } } }
    // shifts
    let sh = match r.below(6) { 0 => 0, 1 => 64 * r.below(L as u64 + 1) as u32, 2 => 64*L as u32 - 1, 3 => 64*L as u32, _ => r.below(2*64*L as u64 + 2) as u32 };
    let exp_l = if sh as usize >= 64*L { BigUint::from(0u8) } else { (&ba << sh as usize) % &two_bits };
    let exp_r = if sh as usize >= 64*L { BigUint::from(0u8) } else { &ba >> sh as usize };
    if ubig(&ua.wrapping_shl(sh)) != exp_l { fail("wrapping_shl", format!("L={} a={} s={}", L, ba, sh)); }
    if ubig(&ua.wrapping_shr(sh)) != exp_r { fail("wrapping_shr", format!("L={} a={} s={}", L, ba, sh)); }
    if ubig(&ua.wrapping_shl_vartime(sh)) != exp_l { fail("wrapping_shl_vartime", format!("L={} a={} s={}", L, ba, sh)); }
    if ubig(&ua.wrapping_shr_vartime(sh)) != exp_r { fail("wrapping_shr_vartime", format!("L={} a={} s={}", L, ba, sh)); }
    // special modulus
    let c = Limb(r.limb() | 0); if c.0 != 0 { let p = &two_bits - BigUint::from(c.0); let xv = &ba % &p; let yv = &bb % &p;
        let to = |v: &BigUint| { let mut bytes = v.to_bytes_le(); bytes.resize(8*L,0); Uint::<L>::from_le_slice(&bytes) };
        let (x, y) = (to(&xv), to(&yv));
        let res = catch_unwind(AssertUnwindSafe(|| x.mul_mod_special(&y, c)));
        match res { Ok(v) => if ubig(&v) != (&xv * &yv) % &p { fail("mul_mod_special", format!("L={} x={} y={} c={}", L, xv, yv, c.0)); }, Err(_) => fail("mul_mod_special panic", format!("L={} x={} y={} c={}", L, xv, yv, c.0)) }
        if ubig(&x.add_mod_special(&y, c)) != (&xv + &yv) % &p { fail("add_mod_special", format!("L={} x={} y={} c={}", L, xv, yv, c.0)); }
        if ubig(&x.sub_mod_special(&y, c)) != (&xv + &p - &yv) % &p { fail("sub_mod_special", format!("L={} x={} y={} c={}", L, xv, yv, c.0)); }
    }
  }
}

fn boxed(r: &mut Rng, iters: usize) {
  for it in 0..iters {
    let la = 1 + r.below(if it % 10 == 0 { 140 } else { 12 }) as usize; let lb = if it % 2 == 0 { la } else { 1 + r.below(if it % 10 == 1 { 140 } else { 12 }) as usize };
    let a = r.limbs(la); let mut b = r.limbs(lb);
    if it % 3 == 0 { let k = r.below(lb as u64) as usize; for i in k+1..lb { b[i] = 0; } }
    let (xa, xb) = (bx(&a), bx(&b)); let (ba, bb) = (big(&a), big(&b));
    let res = catch_unwind(AssertUnwindSafe(|| xa.mul(&xb)));
    match res { Ok(p) => if bbig(&p) != &ba * &bb || p.nlimbs() != la + lb { fail("boxed mul", format!("la={} lb={}", la, lb)); }, Err(_) => fail("boxed mul panic", format!("la={} lb={}", la, lb)) }
    let res = catch_unwind(AssertUnwindSafe(|| xa.square()));
    match res { Ok(p) => if bbig(&p) != &ba * &ba { fail("boxed square", format!("la={} {:?}", la, a)); }, Err(_) => fail("boxed square panic", format!("la={}", la)) }
    if la == lb { if let Some(nz) = Option::<NonZero<BoxedUint>>::from(NonZero::new(xb.clone())) {
      let res = catch_unwind(AssertUnwindSafe(|| xa.div_rem(&nz)));
      match res { Ok((q, rm)) => if bbig(&q) != &ba / &bb || bbig(&rm) != &ba % &bb { fail("boxed div_rem", format!("{:?} {:?}", a, b)); }, Err(_) => fail("boxed div_rem panic", format!("{:?} {:?}", a, b)) }
      let res = catch_unwind(AssertUnwindSafe(|| xa.div_rem_vartime(&nz)));
      match res { Ok((q, rm)) => if bbig(&q) != &ba / &bb || bbig(&rm) != &ba % &bb { fail("boxed div_rem_vartime", format!("{:?} {:?}", a, b)); }, Err(_) => fail("boxed div_rem_vartime panic", format!("{:?} {:?}", a, b)) }
      let res = catch_unwind(AssertUnwindSafe(|| xa.inv_mod(&xb)));
      match res { Ok(o) => { let g = num_integer::Integer::gcd(&ba, &bb); let some: bool = o.is_some().into(); if some != (g == BigUint::from(1u8)) { fail("boxed inv_mod is_some", format!("a={} m={} some={}", ba, bb, some)); } else if some { let xi = bbig(&o.unwrap()); if (&xi*&ba)%&bb != BigUint::from(1u8)%&bb { fail("boxed inv_mod value", format!("a={} m={}", ba, bb)); } } }, Err(_) => fail("boxed inv_mod panic", format!("a={} m={}", ba, bb)) }
      let res = catch_unwind(AssertUnwindSafe(|| xa.gcd(&xb)));
      match res { Ok(g) => if bbig(&g) != num_integer::Integer::gcd(&ba, &bb) { fail("boxed gcd", format!("a={} b={}", ba, bb)); }, Err(_) => fail("boxed gcd panic", format!("a={} b={}", ba, bb)) }
      if b[0] & 1 == 1 && la <= 12 {
        let m = Odd::new(xb.clone()).unwrap(); let params = BoxedMontyParams::new(m.clone()); let pv = BoxedMontyParams::new_vartime(m);
        if params != pv { fail("boxed params", format!("m={}", bb)); }
        let mx = BoxedMontyForm::new(xa.clone(), params.clone());
        if bbig(&mx.retrieve()) != &ba % &bb { fail("boxed monty retrieve", format!("a={} m={}", ba, bb)); }
        let e = r.limbs(la); let xe = bx(&e); let k = r.below(64*la as u64 + 1) as u32;
        let res = catch_unwind(AssertUnwindSafe(|| mx.pow_bounded_exp(&xe, k)));
        match res { Ok(p) => { let em = big(&e) % (BigUint::from(1u8) << k); if bbig(&p.retrieve()) != ba.modpow(&em, &bb) || (p.as_montgomery() >= &xb && bb > BigUint::from(1u8)) { fail("boxed pow", format!("a={} e={} k={} m={}", ba, big(&e), k, bb)); } }, Err(_) => fail("boxed pow panic", format!("a={} k={} m={}", ba, k, bb)) }
      }
    } }
    let s = bbig(&xa.sqrt()); if s != ba.sqrt() { fail("boxed sqrt", format!("a={}", ba)); }
    let s = bbig(&xa.sqrt_vartime()); if s != ba.sqrt() { fail("boxed sqrt_vartime", format!("a={}", ba)); }
    let radix = 2 + r.below(35) as u32;
    let res = catch_unwind(AssertUnwindSafe(|| xa.to_string_radix_vartime(radix)));
    match res { Ok(s) => { if s != ba.to_str_radix(radix) { fail("boxed to_string_radix", format!("radix={} a={} got={}", radix, ba, s)); }
        let back = catch_unwind(AssertUnwindSafe(|| BoxedUint::from_str_radix_with_precision_vartime(&s, radix, 64*la as u32)));
        match back { Ok(Ok(v)) => if bbig(&v) != ba { fail("boxed radix roundtrip", format!("radix={} a={}", radix, ba)); }, Ok(Err(e)) => fail("boxed radix parse err", format!("radix={} a={} {:?}", radix, ba, e)), Err(_) => fail("boxed radix parse panic", format!("radix={} a={}", radix, ba)) } },
      Err(_) => fail("boxed to_string_radix panic", format!("radix={} a={}", radix, ba)) }
  }
}

fn main() {
  std::panic::set_hook(Box::new(|_| {}));
  let mut r = Rng(0x9E3779B97F4A7C15);
  fixed::<1,2,3>(&mut r, 20000);
  fixed::<2,4,4>(&mut r, 20000);
  fixed::<3,6,5>(&mut r, 20000);
  fixed::<4,8,6>(&mut r, 20000);
  fixed::<8,16,10>(&mut r, 5000);
  fixed::<16,32,18>(&mut r, 2000);
  fixed::<32,64,35>(&mut r, 300);
  boxed(&mut r, 20000);
  println!("done fails={} kinds={:?}", FAILS.load(std::sync::atomic::Ordering::Relaxed), KINDS.lock().unwrap());
}
