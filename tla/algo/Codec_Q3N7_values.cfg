SPECIFICATION Spec
CONSTANTS Q = 3
 NB = 7
 MaxLen = 0
 T = 1
 LS = 1
 Mut = 0
INVARIANT DerRoundTrip
INVARIANT RlpRoundTrip
INVARIANT DerEncCanonV
INVARIANT RlpEncCanonV
CHECK_DEADLOCK FALSE
