SPECIFICATION Spec
CONSTANTS W = 2
 N = 2
 Mode = "amm"
INVARIANT AmmCongruent
INVARIANT AmmRawBound
INVARIANT AmmClaim1
INVARIANT CanonOneSub
INVARIANT RetrieveCanon
INVARIANT SquareBigMod
CHECK_DEADLOCK FALSE
