-------------------------------- MODULE JC01 --------------------------------
(* C01 — secret-independent execution, binary level (LeakTrace monitor).    *)
(* A "leak" event is one run of an operation compiled at opt-level 3 with   *)
(* SanitizerCoverage: dig is the digest of its leakage trace (control-flow  *)
(* edges, addresses read and written, GEP indices, operands of hardware     *)
(* divisions), n its length.  cls identifies the operation together with    *)
(* one assignment of its PUBLIC parameters (widths, shift amounts, moduli,  *)
(* the operands a `_vartime` form is documented to depend on); within a     *)
(* class only the SECRET operands vary.  The monitor keeps the first digest *)
(* of each class (ghost register) and requires every later run of the class *)
(* to show the same trace: a non-interference check by trace equality.      *)
EXTENDS BigNat

C01Base(e, rg) == IF "reset" \in DOMAIN e THEN <<>> ELSE rg

GhostC01(e, rg) ==                      \* rg already reset by ApiTrace at the first event of a class
  IF e.cls \in DOMAIN rg THEN rg
  ELSE [c \in (DOMAIN rg) \cup {e.cls} |-> IF c = e.cls THEN <<e.dig, e.n>> ELSE rg[c]]

JudgeC01(e, rg0) ==
  LET rg == C01Base(e, rg0)
  IN /\ e.op = "leak" /\ e.k = "ok"
     /\ (e.cls \in DOMAIN rg => (e.dig = rg[e.cls][1] /\ e.n = rg[e.cls][2]))
=============================================================================
