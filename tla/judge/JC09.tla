-------------------------------- MODULE JC09 --------------------------------
(* C09 — exponentiation, multi-exponentiation and linear combination.       *)
(*  pow:     b^(e mod 2^kk) mod m, canonical representative                 *)
(*  mexp:    product over i of bs[i]^(es[i] mod 2^kk) mod m                 *)
(*  lincomb: sum over i of xs[i]*ys[i] mod m                                *)
(* b, bs, xs, ys are the integers handed to `new` (not necessarily reduced).*)
EXTENDS BigNat, Sequences

PowSpec9(b, e, k, m) == ModPow(Mod(b, m), Mod2k(e, k), m)      \* = 1 mod m for k = 0 (0 for m = 1)

JudgePow9(e) ==
  LET want == PowSpec9(e.b, e.e, e.kk, e.m)
  IN /\ e.k = "ok"
     /\ e.kk <= e.eb                                           \* recorder stays inside the documented domain
     /\ e.rt = want
     /\ e.mf = Mod(Mul(want, Pow2(e.bits)), e.m)
     /\ Lt(e.mf, e.m)

RECURSIVE ProdPow9(_, _, _, _, _)
ProdPow9(bs, es, k, m, i) ==
  IF i > Len(bs) THEN Mod(One, m)
  ELSE Mod(Mul(PowSpec9(bs[i], es[i], k, m), ProdPow9(bs, es, k, m, i + 1)), m)

JudgeMexp9(e) == /\ e.k = "ok"
                 /\ Len(e.bs) = Len(e.es)
                 /\ e.rt = ProdPow9(e.bs, e.es, e.kk, e.m, 1)

RECURSIVE SumProd9(_, _, _, _)
SumProd9(xs, ys, m, i) ==
  IF i > Len(xs) THEN Zero
  ELSE Mod(Add(Mul(Mod(xs[i], m), Mod(ys[i], m)), SumProd9(xs, ys, m, i + 1)), m)

JudgeLincomb9(e) ==
  LET want == SumProd9(e.xs, e.ys, e.m, 1)
  IN /\ e.k = "ok"
     /\ Len(e.xs) = Len(e.ys) /\ Len(e.xs) >= 1
     /\ e.rt = want
     /\ e.mf = Mod(Mul(want, Pow2(e.bits)), e.m)
     /\ Lt(e.mf, e.m)

JudgeC09(e, rg) ==
  CASE e.op = "pow"     -> JudgePow9(e)
    [] e.op = "mexp"    -> JudgeMexp9(e)
    [] e.op = "lincomb" -> JudgeLincomb9(e)
    [] OTHER -> FALSE
=============================================================================
