SPECIFICATION Spec
CONSTANTS W = 3
 NL = 2
 K = 3
INVARIANT Range
INVARIANT Uniform
INVARIANT AcceptRate
CHECK_DEADLOCK FALSE
