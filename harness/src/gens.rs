//! Input generators.  Uniform operands are useless for the listed properties (rare paths have
//! probability ~2^-64 per limb); these draw structured limbs, whole-operand patterns and
//! constructive families.  Plain word-vector arithmetic is provided for *building inputs only*
//! (n = q*d + r, a + b = p, t^2 +- 1 ...); results are never used to judge anything.

/// splitmix64: small, seedable, no dependency
#[derive(Clone)]
pub struct Rng(pub u64);
impl Rng {
    pub fn new(seed: u64) -> Rng {
        Rng(seed)
    }
    pub fn next(&mut self) -> u64 {
        self.0 = self.0.wrapping_add(0x9e37_79b9_7f4a_7c15);
        let mut z = self.0;
        z = (z ^ (z >> 30)).wrapping_mul(0xbf58_476d_1ce4_e5b9);
        z = (z ^ (z >> 27)).wrapping_mul(0x94d0_49bb_1331_11eb);
        z ^ (z >> 31)
    }
    pub fn below(&mut self, n: usize) -> usize {
        if n == 0 { 0 } else { (self.next() % n as u64) as usize }
    }
    pub fn range(&mut self, lo: usize, hi: usize) -> usize {
        lo + self.below(hi - lo + 1)
    }
    pub fn coin(&mut self) -> bool {
        self.next() & 1 == 1
    }
    /// true with probability num/den
    pub fn chance(&mut self, num: usize, den: usize) -> bool {
        self.below(den) < num
    }
    pub fn pick<T: Clone>(&mut self, xs: &[T]) -> T {
        xs[self.below(xs.len())].clone()
    }
}

pub const MAX: u64 = u64::MAX;
pub const TOP: u64 = 1 << 63;

/// one structured limb: {0, MAX} 40 %, near-boundary values 25 %, single bit / single hole 10 %,
/// small 5 %, uniform 20 %
pub fn limb(r: &mut Rng) -> u64 {
    match r.below(100) {
        0..=19 => 0,
        20..=39 => MAX,
        40..=64 => r.pick(&[1, 2, 3, MAX - 1, MAX - 2, TOP, TOP - 1, TOP + 1, TOP >> 1, (1 << 32) - 1, 1 << 32, (1 << 32) + 1, MAX >> 1, 0x5555_5555_5555_5555, 0xaaaa_aaaa_aaaa_aaaa]),
        65..=69 => 1u64 << r.below(64),
        70..=74 => !(1u64 << r.below(64)),
        75..=79 => r.next() % 256,
        _ => r.next(),
    }
}

pub fn uniform(r: &mut Rng, n: usize) -> Vec<u64> {
    (0..n).map(|_| r.next()).collect()
}

/// an n-limb operand: structured limbs plus whole-operand patterns
pub fn nat(r: &mut Rng, n: usize) -> Vec<u64> {
    if n == 0 {
        return vec![];
    }
    let mut v: Vec<u64> = match r.below(100) {
        0..=2 => vec![0; n],
        3..=5 => vec![MAX; n],
        6..=8 => { let mut v = vec![0; n]; v[0] = r.pick(&[1, 2, 3, MAX, TOP]); v }
        9..=12 => { // single bit anywhere
            let mut v = vec![0; n]; let b = r.below(64 * n); v[b / 64] = 1 << (b % 64); v }
        13..=16 => { // 2^b - 1: run of ones, often ending at a limb boundary
            let b = if r.coin() { 64 * r.range(1, n) } else { r.range(1, 64 * n) };
            let mut v = vec![0; n];
            for i in 0..b { v[i / 64] |= 1 << (i % 64); }
            v }
        17..=20 => (0..n).map(|i| if i % 2 == 0 { 0 } else { MAX }).collect(),
        21..=24 => (0..n).map(|i| if i % 2 == 0 { MAX } else { 0 }).collect(),
        25..=34 => uniform(r, n),
        35..=44 => { // short value inside a wide type
            let k = r.range(1, n); let mut v: Vec<u64> = (0..k).map(|_| limb(r)).collect(); v.resize(n, 0); v }
        _ => (0..n).map(|_| limb(r)).collect(),
    };
    // occasionally force the top limb to a normalisation-relevant value
    if r.chance(1, 6) {
        v[n - 1] = r.pick(&[MAX, TOP, TOP + 1, TOP - 1, 1, MAX - 1]);
    }
    v
}

pub fn nat_nonzero(r: &mut Rng, n: usize) -> Vec<u64> {
    loop {
        let v = nat(r, n);
        if v.iter().any(|x| *x != 0) {
            return v;
        }
    }
}

pub fn nat_odd(r: &mut Rng, n: usize) -> Vec<u64> {
    let mut v = nat(r, n);
    v[0] |= 1;
    v
}

// ------------------------------------------------------------------------------------------
// word-vector arithmetic for building inputs

pub fn trim(mut v: Vec<u64>) -> Vec<u64> {
    while v.last() == Some(&0) {
        v.pop();
    }
    v
}
pub fn fit(mut v: Vec<u64>, n: usize) -> Vec<u64> {
    v.resize(n, 0);
    v
}
/// does the value fit in n limbs?
pub fn fits(v: &[u64], n: usize) -> bool {
    v.iter().skip(n).all(|x| *x == 0)
}
pub fn vcmp(a: &[u64], b: &[u64]) -> std::cmp::Ordering {
    let n = a.len().max(b.len());
    for i in (0..n).rev() {
        let x = a.get(i).copied().unwrap_or(0);
        let y = b.get(i).copied().unwrap_or(0);
        if x != y {
            return x.cmp(&y);
        }
    }
    std::cmp::Ordering::Equal
}
pub fn vadd(a: &[u64], b: &[u64]) -> Vec<u64> {
    let n = a.len().max(b.len());
    let mut out = Vec::with_capacity(n + 1);
    let mut c = 0u128;
    for i in 0..n {
        let t = a.get(i).copied().unwrap_or(0) as u128 + b.get(i).copied().unwrap_or(0) as u128 + c;
        out.push(t as u64);
        c = t >> 64;
    }
    out.push(c as u64);
    out
}
/// a - b, requires a >= b
pub fn vsub(a: &[u64], b: &[u64]) -> Vec<u64> {
    let mut out = Vec::with_capacity(a.len());
    let mut bw = 0i128;
    for i in 0..a.len() {
        let t = a[i] as i128 - b.get(i).copied().unwrap_or(0) as i128 - bw;
        if t < 0 { out.push((t + (1i128 << 64)) as u64); bw = 1; } else { out.push(t as u64); bw = 0; }
    }
    assert!(bw == 0 && b.iter().skip(a.len()).all(|x| *x == 0), "vsub underflow");
    out
}
pub fn vmul(a: &[u64], b: &[u64]) -> Vec<u64> {
    let mut out = vec![0u64; a.len() + b.len()];
    for i in 0..a.len() {
        let mut c = 0u128;
        for j in 0..b.len() {
            let t = a[i] as u128 * b[j] as u128 + out[i + j] as u128 + c;
            out[i + j] = t as u64;
            c = t >> 64;
        }
        out[i + b.len()] = c as u64;
    }
    out
}
pub fn vshl(a: &[u64], s: usize) -> Vec<u64> {
    let mut out = vec![0u64; a.len() + s / 64 + 1];
    for i in 0..a.len() {
        let lo = (a[i] as u128) << (s % 64);
        out[i + s / 64] |= lo as u64;
        out[i + s / 64 + 1] |= (lo >> 64) as u64;
    }
    out
}
pub fn vshr(a: &[u64], s: usize) -> Vec<u64> {
    let k = s / 64;
    let mut out = vec![0u64; a.len().saturating_sub(k).max(1)];
    for i in k..a.len() {
        let hi = a.get(i + 1).copied().unwrap_or(0);
        let t = ((hi as u128) << 64 | a[i] as u128) >> (s % 64);
        out[i - k] = t as u64;
    }
    out
}
pub fn vpow2(k: usize) -> Vec<u64> {
    vshl(&[1], k)
}
pub fn vbits(a: &[u64]) -> usize {
    for i in (0..a.len()).rev() {
        if a[i] != 0 {
            return 64 * i + 64 - a[i].leading_zeros() as usize;
        }
    }
    0
}
/// value mod 2^bits
pub fn vmask(a: &[u64], bits: usize) -> Vec<u64> {
    let mut v = a.to_vec();
    for i in 0..v.len() {
        if 64 * i >= bits { v[i] = 0 } else if 64 * (i + 1) > bits { v[i] &= (1u64 << (bits % 64)) - 1 }
    }
    v
}
/// a value below m (m non-zero): structured, including 0, 1, m-1, m/2
pub fn below(r: &mut Rng, m: &[u64]) -> Vec<u64> {
    let n = m.len();
    match r.below(12) {
        0 => vec![0; n],
        1 => if vcmp(m, &[1]).is_gt() { fit(vec![1], n) } else { vec![0; n] },
        2 | 3 => fit(vsub(m, &[1]), n),
        4 => fit(vshr(m, 1), n),
        5 => { let h = vshr(m, 1); if vcmp(&vadd(&h, &[1]), m).is_lt() { fit(vadd(&h, &[1]), n) } else { fit(h, n) } }
        _ => {
            // structured value reduced by masking and, if needed, subtraction
            let mut v = vmask(&nat(r, n), vbits(m));
            if vcmp(&v, m).is_ge() { v = fit(vsub(&v, m), n); }
            if vcmp(&v, m).is_ge() { v = vec![0; n]; }
            v
        }
    }
}

/// floor(a / d) for a one-word divisor (schoolbook, input construction only)
pub fn vdivsmall(a: &[u64], d: u64) -> Vec<u64> {
    let mut q = vec![0u64; a.len()];
    let mut rem: u128 = 0;
    for i in (0..a.len()).rev() {
        let cur = (rem << 64) | a[i] as u128;
        q[i] = (cur / d as u128) as u64;
        rem = cur % d as u128;
    }
    trim(q)
}

/// floor(a / b) for b != 0, by shift and subtract (generator-side reference arithmetic, not performance critical)
pub fn vdiv(a: &[u64], b: &[u64]) -> Vec<u64> {
    let b = trim(b.to_vec());
    assert!(!b.is_empty());
    let mut q = vec![0u64; a.len().max(1)];
    let mut rem: Vec<u64> = vec![];
    for i in (0..vbits(a)).rev() {
        rem = vshl(&rem, 1);
        if rem.is_empty() { rem = vec![0]; }
        rem[0] |= (a[i / 64] >> (i % 64)) & 1;
        rem = trim(rem);
        if !vcmp(&rem, &b).is_lt() {
            rem = trim(vsub(&rem, &b));
            q[i / 64] |= 1 << (i % 64);
        }
    }
    trim(q)
}

/// a mod b
pub fn vmod(a: &[u64], b: &[u64]) -> Vec<u64> {
    trim(vsub(a, &vmul(&vdiv(a, b), b)))
}

/// Does Knuth's algorithm D, dividing `x` by `d` (d with at least two significant limbs) with the 3-by-2 quotient estimate,
/// take the add-back step for some quotient digit?  Reference simulation on exact integers.
pub fn knuth_needs_addback(x: &[u64], d: &[u64]) -> bool {
    let d = trim(d.to_vec());
    let yc = d.len();
    if yc < 2 { return false; }
    let s = d[yc - 1].leading_zeros() as usize;
    let y = fit(vshl(&d, s), yc);
    let n = x.len();
    let xs = fit(vshl(x, s), n + 1);
    if n < yc { return false; }
    let top2 = vec![y[yc - 2], y[yc - 1]];
    let mut rem: Vec<u64> = xs[n + 1 - yc..].to_vec();          // the top yc limbs (x_hi and yc - 1 below it)
    for xi in (0..=n - yc).rev() {
        // window = rem * B + next limb
        let mut win = vec![xs[xi]];
        win.extend(fit(rem.clone(), yc));
        let win = trim(win);
        let w = fit(win.clone(), yc + 1);
        let top3 = trim(vec![w[yc - 2], w[yc - 1], w[yc]]);
        let mut qh = vdiv(&top3, &top2);
        if qh.len() > 1 { qh = vec![MAX_WORD]; }
        let q = vdiv(&win, &y);
        if vcmp(&qh, &q).is_gt() { return true; }
        rem = trim(vsub(&win, &vmul(&q, &y)));
    }
    false
}
const MAX_WORD: u64 = u64::MAX;
