#!/bin/sh
# evaluate round-3 seeded changes one property at a time, as the sub-agents finish (never two seedevals at once)
cd /verif
while :; do
  pending=0
  for p in 01 02 03 04 05 06 07 08 09 10 11 12 13 14 15 16 17 18 19 20; do
    tag=R3C$p
    [ -f work/seedeval/$tag.done ] && continue
    pending=1
    if [ -f /tmp/mut/$tag/OUT/m3/meta.json ] && [ -f /tmp/mut/$tag/OUT/m1/meta.json ] && [ -f /tmp/mut/$tag/OUT/m2/meta.json ]; then
      sleep 60     # let the agent finish restoring its tree
      case $p in 11) also=C09,C02;; 15) also=C02,C09,C04;; 14) also=C02;; *) also=;; esac
      ALSO=$also python3 lib/seedeval.py $tag > work/seedeval/$tag.log 2>&1
      touch work/seedeval/$tag.done
    fi
  done
  [ $pending = 0 ] && break
  sleep 30
done
