SPECIFICATION Spec
CONSTANTS IB = 4
 OB = 3
 TB = 4
 NI = 3
 NO = 3
 Mut = 0
INVARIANT ConvertOK
CHECK_DEADLOCK FALSE
