//! C06 recorder: comparison, equality, hashing and conditional selection are mutually coherent.
//!
//! Event classes (field `op`):
//!   `cmp`   a, b, ab, bb, sg, q -> r      q in eq ne lt le gt ge (r = 0/1) | cmp (r = 0 Less, 1 Equal, 2 Greater)
//!   `pred`  a, ab, sg, q -> r             q in is_zero is_nonzero is_one is_odd is_even is_negative is_positive is_min is_max
//!   `hash`  a, b, ab, bb -> eq, ha, hb    only recorded for operands of equal value (possibly different precision)
//!   `sel`   a, b, ab, bb, ch, q -> r [, r2, rp, rp2]   q in select assign swap condneg
//!   `opt`   a, ab, q [, def, ng, big] -> sm [, sn, r]  option-like results: is_some / is_none / unwrap_or(def)
//! `sg` = 1: a and b are two's-complement bit patterns of `Int` (width ab).  `pm` = "any": boxed form whose
//! code asserts equal precisions while the documentation is silent.
use std::cmp::Ordering;
use std::collections::hash_map::DefaultHasher;
use std::hash::{Hash, Hasher};
use vh::cb::subtle::{Choice, ConditionallyNegatable, ConditionallySelectable, ConstantTimeEq, ConstantTimeGreater, ConstantTimeLess, CtOption};
use vh::cb::{BoxedUint, Checked, ConstChoice, ConstantTimeSelect, Int, Integer, Limb, NonZero, Odd, Uint, Wrapping, Zero};
use vh::*;

fn hs<T: Hash>(x: &T) -> u64 {
    let mut s = DefaultHasher::new();
    x.hash(&mut s);
    s.finish()
}
fn ob(r: bool) -> O {
    O::ok().f("r", r)
}
fn oc(c: Choice) -> O {
    ob(c.into())
}
fn oo(o: Ordering) -> O {
    O::ok().i("r", match o { Ordering::Less => 0, Ordering::Equal => 1, Ordering::Greater => 2 })
}
fn opo(o: Option<Ordering>) -> O {
    match o { Some(o) => oo(o), None => O::none() }
}
fn cc(b: bool) -> Choice {
    Choice::from(b as u8)
}
fn kc(b: bool) -> ConstChoice {
    if b { ConstChoice::TRUE } else { ConstChoice::FALSE }
}
#[allow(clippy::too_many_arguments)]
fn ec(form: &str, q: &str, ab: usize, bb: usize, sg: bool, a: &[u64], b: &[u64]) -> Ev {
    Ev::new("cmp", form).s("q", q).i("ab", ab as i64).i("bb", bb as i64).f("sg", sg).n("a", a).n("b", b)
}
fn ep(form: &str, q: &str, ab: usize, sg: bool, a: &[u64]) -> Ev {
    Ev::new("pred", form).s("q", q).i("ab", ab as i64).f("sg", sg).n("a", a)
}
#[allow(clippy::too_many_arguments)]
fn es(form: &str, q: &str, ab: usize, bb: usize, ch: bool, a: &[u64], b: &[u64]) -> Ev {
    Ev::new("sel", form).s("q", q).i("ab", ab as i64).i("bb", bb as i64).f("ch", ch).n("a", a).n("b", b)
}
fn eo(form: &str, q: &str, ab: usize, sg: bool, a: &[u64]) -> Ev {
    Ev::new("opt", form).s("q", q).i("ab", ab as i64).f("sg", sg).n("a", a)
}
fn eh(form: &str, ab: usize, bb: usize, a: &[u64], b: &[u64]) -> Ev {
    Ev::new("hash", form).i("ab", ab as i64).i("bb", bb as i64).n("a", a).n("b", b)
}
fn oh(eq: bool, ha: u64, hb: u64) -> O {
    O::ok().f("eq", eq).n("ha", &[ha]).n("hb", &[hb])
}

/// boundary values at k limbs: 0, 1, 2, all-ones (MAX / -1), MIN, MAX_signed, MIN + 1, MAX - 1
fn consts(k: usize) -> Vec<Vec<u64>> {
    let mut min = vec![0; k];
    min[k - 1] = TOP;
    let mut smax = vec![MAX; k];
    smax[k - 1] = TOP - 1;
    let mut min1 = min.clone();
    min1[0] |= 1;
    let mut max1 = vec![MAX; k];
    max1[0] = MAX - 1;
    vec![vec![0; k], fit(vec![1], k), fit(vec![2], k), vec![MAX; k], min, smax, min1, max1]
}

/// pairs (a of n limbs, b of m limbs): the families the property names
fn cpair(r: &mut Rng, n: usize, m: usize) -> (Vec<u64>, Vec<u64>) {
    let k = n.min(m);
    let (mut a, mut b): (Vec<u64>, Vec<u64>) = match r.below(14) {
        0 | 1 => { let v = nat(r, k); (v.clone(), v) }                                                   // a == b
        2 => { let v = nat(r, k); let mut x = v.clone(); x[0] ^= 1 << r.below(64); (v, x) }               // lowest limb only
        3 => { let v = nat(r, k); let mut x = v.clone(); x[0] = x[0].wrapping_add(1); (v, x) }
        4 => { let v = nat(r, k); let mut x = v.clone(); x[k - 1] ^= 1 << r.below(64); (v, x) }           // highest limb only
        5 => { let v = nat(r, k); let mut x = v.clone(); x[k - 1] ^= TOP; (v, x) }                       // sign bit only
        6 | 7 => { let c = consts(k); (r.pick(&c), r.pick(&c)) }                                          // 0 vs MIN / MAX ...
        8 => { let v = nat(r, k); let mut x = v.clone(); let j = r.below(k); x[j] = limb(r); (v, x) }     // equal high limbs
        9 => {
            // limb-wise trap: low limbs MAX vs 0, top limb x vs x + 1
            let t = limb(r);
            let mut v = vec![MAX; k];
            v[k - 1] = t;
            let mut x = vec![0; k];
            x[k - 1] = t.wrapping_add(1);
            (v, x)
        }
        10 => {
            // b = a + 1 with a carry rippling through j limbs
            let j = r.below(k);
            let mut v = nat(r, k);
            for i in 0..j { v[i] = MAX; }
            let x = vadd(&v, &[1]);
            if fits(&x, k) { (v, fit(x, k)) } else { (v.clone(), v) }
        }
        _ => (nat(r, k), nat(r, k)),
    };
    if r.coin() { std::mem::swap(&mut a, &mut b); }
    a = fit(a, n);
    b = fit(b, m);
    if n != m && r.chance(1, 3) {
        // the wider operand really uses its extra limbs
        if n > m { let j = r.range(m, n - 1); a[j] = limb(r) | 1; } else { let j = r.range(n, m - 1); b[j] = limb(r) | 1; }
    }
    (a, b)
}

// ---------------------------------------------------------------------------------------------
// Limb

fn limb_forms(cx: &mut Cx, iters: usize) {
    for it in 0..iters {
        let (av, bv) = cpair(&mut cx.rng, 1, 1);
        let (a, b) = (Limb(av[0]), Limb(bv[0]));
        let e = |form: &str, q: &str| ec(form, q, 64, 64, false, &av, &bv);
        cx.call(e("limb.ct_eq", "eq"), || oc(a.ct_eq(&b)));
        cx.call(e("limb.ct_ne", "ne"), || oc(a.ct_ne(&b)));
        cx.call(e("limb.ct_lt", "lt"), || oc(a.ct_lt(&b)));
        cx.call(e("limb.ct_gt", "gt"), || oc(a.ct_gt(&b)));
        cx.call(e("limb.op_eq", "eq"), || ob(a == b));
        cx.call(e("limb.op_ne", "ne"), || ob(a != b));
        cx.call(e("limb.op_lt", "lt"), || ob(a < b));
        cx.call(e("limb.op_le", "le"), || ob(a <= b));
        cx.call(e("limb.op_gt", "gt"), || ob(a > b));
        cx.call(e("limb.op_ge", "ge"), || ob(a >= b));
        cx.call(e("limb.Ord.cmp", "cmp"), || oo(Ord::cmp(&a, &b)));
        cx.call(e("limb.partial_cmp", "cmp"), || opo(a.partial_cmp(&b)));
        cx.call(e("limb.cmp_vartime", "cmp"), || oo(a.cmp_vartime(&b)));
        cx.call(e("limb.eq_vartime", "eq"), || ob(a.eq_vartime(&b)));
        if it % 3 == 0 {
            let (wa, wb_) = (Wrapping(a), Wrapping(b));
            cx.call(e("limb.wrapping.op_eq", "eq"), || ob(wa == wb_));
            cx.call(e("limb.wrapping.op_lt", "lt"), || ob(wa < wb_));
            cx.call(e("limb.wrapping.Ord.cmp", "cmp"), || oo(Ord::cmp(&wa, &wb_)));
            cx.call(e("limb.wrapping.ct_eq", "eq"), || oc(wa.ct_eq(&wb_)));
        }
        let p = |form: &str, q: &str| ep(form, q, 64, false, &av);
        cx.call(p("limb.Zero.is_zero", "is_zero"), || oc(Zero::is_zero(&a)));
        cx.call(p("limb.num_traits.is_zero", "is_zero"), || ob(num_traits::Zero::is_zero(&a)));
        cx.call(p("limb.num_traits.is_one", "is_one"), || ob(num_traits::One::is_one(&a)));
        cx.call(p("limb.is_odd", "is_odd"), || oc(a.is_odd()));
        if av == bv {
            cx.call(eh("limb.hash", 64, 64, &av, &bv), || oh(a == b, hs(&a), hs(&b)));
        }
        for ch in [false, true] {
            let s = |form: &str, q: &str| es(form, q, 64, 64, ch, &av, &bv);
            cx.call(s("limb.conditional_select", "select"), || O::ok().n("r", &[Limb::conditional_select(&a, &b, cc(ch)).0]));
            cx.call(s("limb.ct_select", "select"), || O::ok().n("r", &[Limb::ct_select(&a, &b, cc(ch)).0]));
            if it % 2 == 0 {
                cx.call(s("limb.conditional_assign", "assign"), || { let mut t = a; t.conditional_assign(&b, cc(ch)); O::ok().n("r", &[t.0]) });
                cx.call(s("limb.ct_assign", "assign"), || { let mut t = a; t.ct_assign(&b, cc(ch)); O::ok().n("r", &[t.0]) });
                cx.call(s("limb.conditional_swap", "swap"), || { let (mut t, mut v) = (a, b); Limb::conditional_swap(&mut t, &mut v, cc(ch)); O::ok().n("r", &[t.0]).n("r2", &[v.0]) });
                cx.call(s("limb.ct_swap", "swap"), || { let (mut t, mut v) = (a, b); Limb::ct_swap(&mut t, &mut v, cc(ch)); O::ok().n("r", &[t.0]).n("r2", &[v.0]) });
                cx.call(s("limb.wrapping.conditional_negate", "condneg"), || { let mut t = Wrapping(a); t.conditional_negate(cc(ch)); O::ok().n("r", &[t.0.0]) });
            }
        }
        let o = |form: &str, q: &str| eo(form, q, 64, false, &av);
        cx.call(o("limb.to_nz.is_some", "nonzero"), || { let t = a.to_nz(); O::ok().f("sm", t.is_some().into()).f("sn", t.is_none().into()) });
        cx.call(o("limb.NonZero.new", "nonzero").n("def", &[MAX]), || {
            let t = NonZero::new(a);
            O::ok().f("sm", t.is_some().into()).f("sn", t.is_none().into()).n("r", &[t.unwrap_or(NonZero::<Limb>::MAX).get().0])
        });
    }
}

// ---------------------------------------------------------------------------------------------
// Uint<N>

fn uint_forms<const N: usize>(cx: &mut Cx, iters: usize) {
    let bits = 64 * N;
    for it in 0..iters {
        let (av, bv) = cpair(&mut cx.rng, N, N);
        let (a, b) = (u::<N>(&av), u::<N>(&bv));
        let e = |form: &str, q: &str| ec(form, q, bits, bits, false, &av, &bv);
        cx.call(e("uint.ct_eq", "eq"), || oc(a.ct_eq(&b)));
        cx.call(e("uint.ct_ne", "ne"), || oc(a.ct_ne(&b)));
        cx.call(e("uint.ct_lt", "lt"), || oc(a.ct_lt(&b)));
        cx.call(e("uint.ct_gt", "gt"), || oc(a.ct_gt(&b)));
        cx.call(e("uint.op_eq", "eq"), || ob(a == b));
        {
            let mut ov = bv.clone(); ov[0] |= 1;
            let ou = odd::<N>(&ov).unwrap();
            let eo = |form: &str, q: &str| ec(form, q, bits, bits, false, &av, &ov);
            cx.call(eo("uint.eq.Odd<Uint>", "eq"), || ob(a == ou));
            cx.call(eo("uint.partial_cmp.Odd<Uint>", "cmp"), || opo(a.partial_cmp(&ou)));
            cx.call(eo("uint.gt.Odd<Uint>", "gt"), || ob(a > ou));
            let es = |form: &str, q: &str| ec(form, q, bits, bits, false, &ov, &ov);
            cx.call(es("uint.eq.Odd<Uint>", "eq"), || ob(ou.get() == ou));
        }
        cx.call(e("uint.op_ne", "ne"), || ob(a != b));
        cx.call(e("uint.op_lt", "lt"), || ob(a < b));
        cx.call(e("uint.op_le", "le"), || ob(a <= b));
        cx.call(e("uint.op_gt", "gt"), || ob(a > b));
        cx.call(e("uint.op_ge", "ge"), || ob(a >= b));
        cx.call(e("uint.Ord.cmp", "cmp"), || oo(Ord::cmp(&a, &b)));
        cx.call(e("uint.partial_cmp", "cmp"), || opo(a.partial_cmp(&b)));
        cx.call(e("uint.cmp_vartime", "cmp"), || oo(a.cmp_vartime(&b)));
        if it % 3 == 0 {
            let (wa, wb_) = (Wrapping(a), Wrapping(b));
            cx.call(e("uint.wrapping.op_eq", "eq"), || ob(wa == wb_));
            cx.call(e("uint.wrapping.op_lt", "lt"), || ob(wa < wb_));
            cx.call(e("uint.wrapping.Ord.cmp", "cmp"), || oo(Ord::cmp(&wa, &wb_)));
            cx.call(e("uint.wrapping.ct_eq", "eq"), || oc(wa.ct_eq(&wb_)));
            cx.call(e("uint.checked.ct_eq", "eq"), || oc(Checked::new(a).ct_eq(&Checked::new(b))));
            if let (Some(na), Some(nb)) = (nz::<N>(&av), nz::<N>(&bv)) {
                cx.call(e("uint.nonzero.op_eq", "eq"), || ob(na == nb));
                cx.call(e("uint.nonzero.op_gt", "gt"), || ob(na > nb));
                cx.call(e("uint.nonzero.Ord.cmp", "cmp"), || oo(Ord::cmp(&na, &nb)));
                cx.call(e("uint.nonzero.ct_eq", "eq"), || oc(na.ct_eq(&nb)));
            }
            if let (Some(oa), Some(ob_)) = (odd::<N>(&av), odd::<N>(&bv)) {
                cx.call(e("uint.odd.op_eq", "eq"), || ob(oa == ob_));
                cx.call(e("uint.odd.op_le", "le"), || ob(oa <= ob_));
                cx.call(e("uint.odd.Ord.cmp", "cmp"), || oo(Ord::cmp(&oa, &ob_)));
                cx.call(e("uint.odd.ct_eq", "eq"), || oc(oa.ct_eq(&ob_)));
            }
        }
        let p = |form: &str, q: &str| ep(form, q, bits, false, &av);
        cx.call(p("uint.Zero.is_zero", "is_zero"), || oc(Zero::is_zero(&a)));
        cx.call(p("uint.num_traits.is_zero", "is_zero"), || ob(num_traits::Zero::is_zero(&a)));
        cx.call(p("uint.num_traits.is_one", "is_one"), || ob(num_traits::One::is_one(&a)));
        cx.call(p("uint.Integer.is_odd", "is_odd"), || oc(Integer::is_odd(&a)));
        cx.call(p("uint.Integer.is_even", "is_even"), || oc(Integer::is_even(&a)));
        if av == bv {
            cx.call(eh("uint.hash", bits, bits, &av, &bv), || oh(a == b, hs(&a), hs(&b)));
            if let (Some(na), Some(nb)) = (nz::<N>(&av), nz::<N>(&bv)) {
                cx.call(eh("uint.nonzero.hash", bits, bits, &av, &bv), || oh(na == nb, hs(&na), hs(&nb)));
            }
            if let (Some(oa), Some(ob_)) = (odd::<N>(&av), odd::<N>(&bv)) {
                cx.call(eh("uint.odd.hash", bits, bits, &av, &bv), || oh(oa == ob_, hs(&oa), hs(&ob_)));
            }
        }
        for ch in [false, true] {
            let s = |form: &str, q: &str| es(form, q, bits, bits, ch, &av, &bv);
            cx.call(s("uint.conditional_select", "select"), || O::ok().n("r", &w(&Uint::conditional_select(&a, &b, cc(ch)))));
            cx.call(s("uint.ct_select", "select"), || O::ok().n("r", &w(&Uint::ct_select(&a, &b, cc(ch)))));
            match it % 3 {
                0 => {
                    cx.call(s("uint.conditional_assign", "assign"), || { let mut t = a; t.conditional_assign(&b, cc(ch)); O::ok().n("r", &w(&t)) });
                    cx.call(s("uint.ct_assign", "assign"), || { let mut t = a; t.ct_assign(&b, cc(ch)); O::ok().n("r", &w(&t)) });
                    cx.call(s("uint.conditional_swap", "swap"), || { let (mut t, mut v) = (a, b); Uint::conditional_swap(&mut t, &mut v, cc(ch)); O::ok().n("r", &w(&t)).n("r2", &w(&v)) });
                    cx.call(s("uint.ct_swap", "swap"), || { let (mut t, mut v) = (a, b); Uint::ct_swap(&mut t, &mut v, cc(ch)); O::ok().n("r", &w(&t)).n("r2", &w(&v)) });
                }
                1 => {
                    cx.call(s("uint.wrapping_neg_if", "condneg"), || O::ok().n("r", &w(&a.wrapping_neg_if(kc(ch)))));
                    cx.call(s("uint.wrapping.conditional_negate", "condneg"), || { let mut t = Wrapping(a); t.conditional_negate(cc(ch)); O::ok().n("r", &w(&t.0)) });
                    cx.call(s("uint.wrapping.conditional_select", "select"), || O::ok().n("r", &w(&Wrapping::conditional_select(&Wrapping(a), &Wrapping(b), cc(ch)).0)));
                    cx.call(s("uint.checked.conditional_select", "select"), || {
                        let t = Checked::conditional_select(&Checked::new(a), &Checked::new(b), cc(ch));
                        match Option::<Uint<N>>::from(t.0) { Some(v) => O::ok().n("r", &w(&v)), None => O::none() }
                    });
                }
                _ => {
                    if let (Some(na), Some(nb)) = (nz::<N>(&av), nz::<N>(&bv)) {
                        cx.call(s("uint.nonzero.conditional_select", "select"), || O::ok().n("r", &w(&NonZero::conditional_select(&na, &nb, cc(ch)).get())));
                        cx.call(s("uint.nonzero.ct_swap", "swap"), || { let (mut t, mut v) = (na, nb); NonZero::ct_swap(&mut t, &mut v, cc(ch)); O::ok().n("r", &w(&t.get())).n("r2", &w(&v.get())) });
                    }
                    if let (Some(oa), Some(ob_)) = (odd::<N>(&av), odd::<N>(&bv)) {
                        cx.call(s("uint.odd.conditional_select", "select"), || O::ok().n("r", &w(&Odd::conditional_select(&oa, &ob_, cc(ch)).get())));
                        cx.call(s("uint.odd.ct_assign", "assign"), || { let mut t = oa; t.ct_assign(&ob_, cc(ch)); O::ok().n("r", &w(&t.get())) });
                    }
                }
            }
        }
        // option-like results
        let o = |form: &str, q: &str| eo(form, q, bits, false, &av);
        match it % 3 {
            0 => {
                cx.call(o("uint.to_nz.is_some", "nonzero"), || { let t = a.to_nz(); O::ok().f("sm", t.is_some().into()).f("sn", t.is_none().into()) });
                cx.call(o("uint.to_nz.into_option", "nonzero"), || { let t: Option<NonZero<Uint<N>>> = a.to_nz().into(); O::ok().f("sm", t.is_some()) });
                cx.call(o("uint.to_nz.into_ctoption", "nonzero").n("def", &[MAX; N]), || {
                    let t: CtOption<NonZero<Uint<N>>> = a.to_nz().into();
                    O::ok().f("sm", t.is_some().into()).f("sn", t.is_none().into()).n("r", &w(&t.unwrap_or(NonZero::<Uint<N>>::MAX).get()))
                });
                cx.call(o("uint.NonZero.new", "nonzero").n("def", &[1]), || {
                    let t = NonZero::new(a);
                    O::ok().f("sm", t.is_some().into()).n("r", &w(&t.unwrap_or(NonZero::<Uint<N>>::ONE).get()))
                });
            }
            1 => {
                cx.call(o("uint.to_odd.is_some", "odd"), || { let t = a.to_odd(); O::ok().f("sm", t.is_some().into()).f("sn", t.is_none().into()) });
                cx.call(o("uint.to_odd.into_option", "odd"), || { let t: Option<Odd<Uint<N>>> = a.to_odd().into(); O::ok().f("sm", t.is_some()) });
                cx.call(o("uint.Odd.new", "odd").n("def", &[MAX; N]), || {
                    let t = Odd::new(a);
                    let dflt = Odd::new(Uint::<N>::MAX).unwrap();
                    O::ok().f("sm", t.is_some().into()).f("sn", t.is_none().into()).n("r", &w(&t.unwrap_or(dflt).get()))
                });
            }
            _ => {
                // ConstCtOption<Uint>: some(a) for a shift of 0, none for a shift of BITS and more
                let big = cx.rng.coin();
                let sh: u32 = if big { cx.rng.pick(&[bits as u32, bits as u32 + 1, u32::MAX]) } else { 0 };
                cx.call(o("uint.ConstCtOption.unwrap_or", "shift0").f("big", big).n("def", &bv), || {
                    let t = a.overflowing_shr(sh);
                    O::ok().f("sm", t.is_some().into()).f("sn", t.is_none().into()).n("r", &w(&t.unwrap_or(b)))
                });
                cx.call(o("uint.ConstCtOption.into_ctoption.unwrap_or", "shift0").f("big", big).n("def", &bv), || {
                    let t: CtOption<Uint<N>> = a.overflowing_shl_vartime(sh).into();
                    O::ok().f("sm", t.is_some().into()).n("r", &w(&t.unwrap_or(b)))
                });
            }
        }
    }
}

// ---------------------------------------------------------------------------------------------
// Int<N>

fn int_forms<const N: usize>(cx: &mut Cx, iters: usize) {
    let bits = 64 * N;
    for it in 0..iters {
        let (av, bv) = cpair(&mut cx.rng, N, N);
        let (a, b) = (si::<N>(&av), si::<N>(&bv));
        let e = |form: &str, q: &str| ec(form, q, bits, bits, true, &av, &bv);
        cx.call(e("int.ct_eq", "eq"), || oc(a.ct_eq(&b)));
        cx.call(e("int.ct_ne", "ne"), || oc(a.ct_ne(&b)));
        cx.call(e("int.ct_lt", "lt"), || oc(a.ct_lt(&b)));
        cx.call(e("int.ct_gt", "gt"), || oc(a.ct_gt(&b)));
        cx.call(e("int.op_eq", "eq"), || ob(a == b));
        cx.call(e("int.op_ne", "ne"), || ob(a != b));
        cx.call(e("int.op_lt", "lt"), || ob(a < b));
        cx.call(e("int.op_le", "le"), || ob(a <= b));
        cx.call(e("int.op_gt", "gt"), || ob(a > b));
        cx.call(e("int.op_ge", "ge"), || ob(a >= b));
        cx.call(e("int.Ord.cmp", "cmp"), || oo(Ord::cmp(&a, &b)));
        cx.call(e("int.partial_cmp", "cmp"), || opo(a.partial_cmp(&b)));
        cx.call(e("int.cmp_vartime", "cmp"), || oo(a.cmp_vartime(&b)));
        let p = |form: &str, q: &str| ep(form, q, bits, true, &av);
        cx.call(p("int.Zero.is_zero", "is_zero"), || oc(Zero::is_zero(&a)));
        cx.call(p("int.num_traits.is_zero", "is_zero"), || ob(num_traits::Zero::is_zero(&a)));
        cx.call(p("int.num_traits.is_one", "is_one"), || ob(num_traits::One::is_one(&a)));
        cx.call(p("int.is_negative", "is_negative"), || ob(a.is_negative().into()));
        cx.call(p("int.is_positive", "is_positive"), || ob(a.is_positive().into()));
        cx.call(p("int.is_min", "is_min"), || ob(a.is_min().into()));
        cx.call(p("int.is_max", "is_max"), || ob(a.is_max().into()));
        if av == bv {
            cx.call(eh("int.hash", bits, bits, &av, &bv), || oh(a == b, hs(&a), hs(&b)));
        }
        for ch in [false, true] {
            let s = |form: &str, q: &str| es(form, q, bits, bits, ch, &av, &bv);
            cx.call(s("int.conditional_select", "select"), || O::ok().n("r", &wi(&Int::conditional_select(&a, &b, cc(ch)))));
            if it % 2 == 0 {
                cx.call(s("int.ct_select", "select"), || O::ok().n("r", &wi(&Int::ct_select(&a, &b, cc(ch)))));
                cx.call(s("int.ct_assign", "assign"), || { let mut t = a; t.ct_assign(&b, cc(ch)); O::ok().n("r", &wi(&t)) });
                cx.call(s("int.ct_swap", "swap"), || { let (mut t, mut v) = (a, b); Int::ct_swap(&mut t, &mut v, cc(ch)); O::ok().n("r", &wi(&t)).n("r2", &wi(&v)) });
            } else {
                cx.call(s("int.wrapping_neg_if", "condneg"), || O::ok().n("r", &wi(&a.wrapping_neg_if(kc(ch)))));
                cx.call(s("int.conditional_swap", "swap"), || { let (mut t, mut v) = (a, b); Int::conditional_swap(&mut t, &mut v, cc(ch)); O::ok().n("r", &wi(&t)).n("r2", &wi(&v)) });
            }
        }
        let o = |form: &str, q: &str| eo(form, q, bits, true, &av);
        cx.call(o("int.to_nz.is_some", "nonzero"), || { let t = a.to_nz(); O::ok().f("sm", t.is_some().into()).f("sn", t.is_none().into()) });
        cx.call(o("int.to_odd.is_some", "odd"), || { let t = a.to_odd(); O::ok().f("sm", t.is_some().into()).f("sn", t.is_none().into()) });
        // new_from_abs_sign: a = magnitude, ng = sign; some iff it fits; unwrap_or(def)
        let ng = cx.rng.coin();
        let mag = u::<N>(&av);
        cx.call(Ev::new("opt", "int.new_from_abs_sign").s("q", "abs_sign").i("ab", bits as i64).f("sg", false).n("a", &av).f("ng", ng).n("def", &bv), || {
            let t = Int::<N>::new_from_abs_sign(mag, kc(ng));
            O::ok().f("sm", t.is_some().into()).f("sn", t.is_none().into()).n("r", &wi(&t.unwrap_or(b)))
        });
    }
}

// ---------------------------------------------------------------------------------------------
// BoxedUint

fn boxed_forms(cx: &mut Cx, iters: usize, maxl: usize) {
    for it in 0..iters {
        let nl = if cx.rng.chance(1, 6) { cx.rng.pick(&[1usize, 16, 31, 32, 33, 40]).min(maxl) } else { cx.rng.range(1, maxl.min(9)) };
        let ml = if cx.rng.chance(1, 2) { nl } else { cx.rng.range(1, (nl + 3).min(maxl)) };
        let (av, bv) = cpair(&mut cx.rng, nl, ml);
        let (a, b) = (bx(&av), bx(&bv));
        let (ab, bb) = (64 * nl, 64 * ml);
        let e = |form: &str, q: &str| ec(form, q, ab, bb, false, &av, &bv);
        cx.call(e("boxed.ct_eq", "eq"), || oc(a.ct_eq(&b)));
        cx.call(e("boxed.ct_ne", "ne"), || oc(a.ct_ne(&b)));
        cx.call(e("boxed.ct_lt", "lt"), || oc(a.ct_lt(&b)));
        cx.call(e("boxed.ct_gt", "gt"), || oc(a.ct_gt(&b)));
        cx.call(e("boxed.op_eq", "eq"), || ob(a == b));
        cx.call(e("boxed.op_ne", "ne"), || ob(a != b));
        cx.call(e("boxed.op_lt", "lt"), || ob(a < b));
        cx.call(e("boxed.op_le", "le"), || ob(a <= b));
        cx.call(e("boxed.op_gt", "gt"), || ob(a > b));
        cx.call(e("boxed.op_ge", "ge"), || ob(a >= b));
        cx.call(e("boxed.Ord.cmp", "cmp"), || oo(Ord::cmp(&a, &b)));
        cx.call(e("boxed.partial_cmp", "cmp"), || opo(a.partial_cmp(&b)));
        cx.call(e("boxed.cmp_vartime", "cmp").s("pm", "any"), || oo(a.cmp_vartime(&b)));
        {
            // comparison of a plain integer with a wrapped one (PartialEq / PartialOrd<Odd<BoxedUint>> for BoxedUint): the
            // right operand is made odd; the same value at a different precision must still compare equal
            let mut ov = bv.clone(); ov[0] |= 1;
            let ob_ = oddb(&ov).unwrap();
            let eo = |form: &str, q: &str| ec(form, q, ab, bb, false, &av, &ov);
            cx.call(eo("boxed.eq.Odd<BoxedUint>", "eq"), || ob(a == ob_));
            cx.call(eo("boxed.partial_cmp.Odd<BoxedUint>", "cmp"), || opo(a.partial_cmp(&ob_)));
            cx.call(eo("boxed.lt.Odd<BoxedUint>", "lt"), || ob(a < ob_));
            if it % 4 == 0 {
                let same = bx(&fit(trim(ov.clone()), nl.max(trim(ov.clone()).len())));          // the odd value itself, at the LEFT operand's precision
                let es = |form: &str, q: &str| ec(form, q, 64 * same.nlimbs(), bb, false, &wb(&same), &ov);
                cx.call(es("boxed.eq.Odd<BoxedUint>", "eq"), || ob(same == ob_));
                cx.call(es("boxed.partial_cmp.Odd<BoxedUint>", "cmp"), || opo(same.partial_cmp(&ob_)));
            }
        }
        if it % 3 == 0 {
            let (wa, wb_) = (Wrapping(a.clone()), Wrapping(b.clone()));
            cx.call(e("boxed.wrapping.op_eq", "eq"), || ob(wa == wb_));
            cx.call(e("boxed.wrapping.op_lt", "lt"), || ob(wa < wb_));
            cx.call(e("boxed.wrapping.Ord.cmp", "cmp"), || oo(Ord::cmp(&wa, &wb_)));
            if let (Some(na), Some(nb)) = (nzb(&av), nzb(&bv)) {
                cx.call(e("boxed.nonzero.op_eq", "eq"), || ob(na == nb));
                cx.call(e("boxed.nonzero.op_ge", "ge"), || ob(na >= nb));
                cx.call(e("boxed.nonzero.Ord.cmp", "cmp"), || oo(Ord::cmp(&na, &nb)));
                cx.call(e("boxed.nonzero.ct_eq", "eq"), || oc(na.ct_eq(&nb)));
            }
        }
        let p = |form: &str, q: &str| ep(form, q, ab, false, &av);
        cx.call(p("boxed.is_zero", "is_zero"), || oc(a.is_zero()));
        cx.call(p("boxed.Zero.is_zero", "is_zero"), || oc(Zero::is_zero(&a)));
        cx.call(p("boxed.num_traits.is_zero", "is_zero"), || ob(num_traits::Zero::is_zero(&a)));
        cx.call(p("boxed.is_nonzero", "is_nonzero"), || oc(a.is_nonzero()));
        cx.call(p("boxed.is_one", "is_one"), || oc(a.is_one()));
        cx.call(p("boxed.num_traits.is_one", "is_one"), || ob(num_traits::One::is_one(&a)));
        cx.call(p("boxed.Integer.is_odd", "is_odd"), || oc(Integer::is_odd(&a)));
        cx.call(p("boxed.Integer.is_even", "is_even"), || oc(Integer::is_even(&a)));
        if vcmp(&av, &bv).is_eq() {
            // equal values, possibly zero-padded to different precisions
            cx.call(eh("boxed.hash", ab, bb, &av, &bv), || oh(a == b, hs(&a), hs(&b)));
            if let (Some(na), Some(nb)) = (nzb(&av), nzb(&bv)) {
                cx.call(eh("boxed.nonzero.hash", ab, bb, &av, &bv), || oh(na == nb, hs(&na), hs(&nb)));
            }
            if let (Some(oa), Some(ob_)) = (oddb(&av), oddb(&bv)) {
                cx.call(eh("boxed.odd.hash", ab, bb, &av, &bv), || oh(oa == ob_, hs(&oa), hs(&ob_)));
            }
        }
        {
            // the same value zero-padded to another precision: equal, so the digests must agree
            let sig = trim(av.clone()).len().max(1);
            let pl = cx.rng.range(sig, (nl + 3).min(maxl));
            let pv = fit(trim(av.clone()), pl);
            let p2 = bx(&pv);
            cx.call(eh("boxed.hash_padded", ab, 64 * pl, &av, &pv), || oh(a == p2, hs(&a), hs(&p2)));
            cx.call(ec("boxed.ct_eq_padded", "eq", ab, 64 * pl, false, &av, &pv), || oc(a.ct_eq(&p2)));
            cx.call(ec("boxed.Ord.cmp_padded", "cmp", ab, 64 * pl, false, &av, &pv), || oo(Ord::cmp(&a, &p2)));
        }
        for ch in [false, true] {
            let s = |form: &str, q: &str| es(form, q, ab, bb, ch, &av, &bv).s("pm", "any");
            cx.call(s("boxed.ct_select", "select"), || { let r = BoxedUint::ct_select(&a, &b, cc(ch)); O::ok().n("r", &wb(&r)).i("rp", r.bits_precision() as i64) });
            cx.call(s("boxed.ct_assign", "assign"), || { let mut t = a.clone(); t.ct_assign(&b, cc(ch)); O::ok().n("r", &wb(&t)).i("rp", t.bits_precision() as i64) });
            cx.call(s("boxed.ct_swap", "swap"), || {
                let (mut t, mut v) = (a.clone(), b.clone());
                BoxedUint::ct_swap(&mut t, &mut v, cc(ch));
                O::ok().n("r", &wb(&t)).n("r2", &wb(&v)).i("rp", t.bits_precision() as i64).i("rp2", v.bits_precision() as i64)
            });
            cx.call(es("boxed.conditional_negate", "condneg", ab, bb, ch, &av, &bv), || { let mut t = a.clone(); t.conditional_negate(cc(ch)); O::ok().n("r", &wb(&t)).i("rp", t.bits_precision() as i64) });
        }
        let o = |form: &str, q: &str| eo(form, q, ab, false, &av);
        cx.call(o("boxed.NonZero.new", "nonzero"), || { let t = NonZero::new(a.clone()); O::ok().f("sm", t.is_some().into()).f("sn", t.is_none().into()) });
        cx.call(o("boxed.Odd.new", "odd"), || { let t = Odd::new(a.clone()); O::ok().f("sm", t.is_some().into()).f("sn", t.is_none().into()) });
        cx.call(o("boxed.to_odd", "odd"), || { let t = a.to_odd(); O::ok().f("sm", t.is_some().into()) });
    }
}

// a downstream type that implements only the required method of `ConstantTimeSelect`: it reaches the trait's DEFAULT
// `ct_assign` and `ct_swap` bodies, which no type of the crate uses (they all override them or go through the blanket impl)
#[derive(Clone)]
struct Probe(Vec<u64>);
impl vh::cb::ConstantTimeSelect for Probe {
    fn ct_select(a: &Self, b: &Self, choice: vh::cb::subtle::Choice) -> Self {
        let m = (choice.unwrap_u8() as u64).wrapping_neg();
        Probe(a.0.iter().zip(b.0.iter()).map(|(x, y)| x ^ (m & (x ^ y))).collect())
    }
}
fn default_trait_forms(cx: &mut Cx, iters: usize) {
    use vh::cb::ConstantTimeSelect;
    for it in 0..iters {
        let n = 1 + it % 4;
        let (av, bv) = (nat(&mut cx.rng, n), nat(&mut cx.rng, n));
        let (a, b) = (Probe(av.clone()), Probe(bv.clone()));
        for ch in [false, true] {
            let s = |form: &str, q: &str| es(form, q, 64 * n, 64 * n, ch, &av, &bv);
            cx.call(s("downstream.ConstantTimeSelect.ct_select", "select"), || O::ok().n("r", &Probe::ct_select(&a, &b, cc(ch)).0));
            cx.call(s("downstream.ConstantTimeSelect.default.ct_assign", "assign"), || { let mut t = a.clone(); t.ct_assign(&b, cc(ch)); O::ok().n("r", &t.0) });
            cx.call(s("downstream.ConstantTimeSelect.default.ct_swap", "swap"), || { let (mut t, mut v) = (a.clone(), b.clone()); Probe::ct_swap(&mut t, &mut v, cc(ch)); O::ok().n("r", &t.0).n("r2", &v.0) });
        }
    }
}

fn main() {
    let mut cx = Cx::from_args("C06");
    let s = cx.scale;
    if cx.want("limb") {
        limb_forms(&mut cx, 160 * s);
    }
    if cx.want("uint") {
        uint_forms::<1>(&mut cx, 110 * s);
        uint_forms::<2>(&mut cx, 110 * s);
        uint_forms::<3>(&mut cx, 80 * s);
        uint_forms::<4>(&mut cx, 110 * s);
        uint_forms::<6>(&mut cx, 60 * s);
        uint_forms::<8>(&mut cx, 60 * s);
        uint_forms::<16>(&mut cx, 30 * s);
    }
    if cx.want("int") {
        int_forms::<1>(&mut cx, 100 * s);
        int_forms::<2>(&mut cx, 100 * s);
        int_forms::<3>(&mut cx, 60 * s);
        int_forms::<4>(&mut cx, 80 * s);
        int_forms::<8>(&mut cx, 40 * s);
    }
    if cx.want("boxed") {
        boxed_forms(&mut cx, 420 * s, 40);
    }
    if cx.want("downstream") { default_trait_forms(&mut cx, 20 * s); }
    cx.finish();
}
