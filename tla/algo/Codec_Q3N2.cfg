SPECIFICATION Spec
CONSTANTS Q = 3
 NB = 2
 MaxLen = 5
 T = 1
 LS = 1
 Mut = 0
INVARIANT DerDecSound
INVARIANT DerRoundTrip
INVARIANT DerEncCanon
INVARIANT DerJudgeAgrees
INVARIANT RlpDecSound
INVARIANT RlpExact
INVARIANT RlpRoundTrip
INVARIANT RlpEncCanon
INVARIANT RlpJudgeAgrees
CHECK_DEADLOCK FALSE
