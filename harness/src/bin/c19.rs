//! C19 recorder: random sampling under scripted RNG streams.
//!
//! The RNG is the environment: `Script` serves bytes from a script (then an all-zero, always accepted
//! tail, or an error for the fallible variant) and counts what was consumed.
//! Event classes
//!   rmod   one modular sampling call: m, bits, st (script) -> v, c (bytes consumed)
//!   rbits  one bit-bounded sampling call: bl, prec, tb (type bits) -> v, c / err
//!   rand   Random::random for plain types: st -> v, c
//!   pair   the same stream through the fixed and the boxed sampler: (v1,c1) vs (v2,c2)
//!   unif   exhaustive slice on the real code: all 2^kb patterns of a kb-bit field of the first
//!          candidate (other bits fixed): outs[i], cs[i]  (uniformity as a counting statement)
//!   ubits  same for random_bits: all patterns of a kb-bit field of the stream
//!   stat   counts of N draws from ChaCha streams for small moduli
use vh::cb::modular::{ConstMontyForm, ConstMontyParams};
use vh::cb::rand_core::{RngCore, SeedableRng, TryRngCore};
use vh::cb::{impl_modulus, BoxedUint, Int, Limb, NonZero, Odd, Random, RandomBits, RandomBitsError, RandomMod, Uint, U256, U64};
use vh::*;

#[derive(Clone)]
struct Script { data: Vec<u8>, pos: usize, fail_at_end: bool }
#[derive(Debug)]
struct Exhausted;
impl core::fmt::Display for Exhausted { fn fmt(&self, f: &mut core::fmt::Formatter<'_>) -> core::fmt::Result { write!(f, "exhausted") } }
impl core::error::Error for Exhausted {}
impl Script {
    fn new(data: Vec<u8>) -> Script { Script { data, pos: 0, fail_at_end: false } }
    fn failing(data: Vec<u8>) -> Script { Script { data, pos: 0, fail_at_end: true } }
    fn take(&mut self, dst: &mut [u8]) -> Result<(), Exhausted> {
        for b in dst.iter_mut() {
            if self.pos < self.data.len() { *b = self.data[self.pos]; } else if self.fail_at_end { return Err(Exhausted); } else { *b = 0; }
            self.pos += 1;
        }
        Ok(())
    }
}
/// infallible view (zero tail)
struct Inf<'a>(&'a mut Script);
impl RngCore for Inf<'_> {
    fn next_u32(&mut self) -> u32 { let mut b = [0u8; 4]; self.0.take(&mut b).unwrap(); u32::from_le_bytes(b) }
    fn next_u64(&mut self) -> u64 { let mut b = [0u8; 8]; self.0.take(&mut b).unwrap(); u64::from_le_bytes(b) }
    fn fill_bytes(&mut self, dst: &mut [u8]) { self.0.take(dst).unwrap() }
}
/// fallible view
struct Fal<'a>(&'a mut Script);
impl TryRngCore for Fal<'_> {
    type Error = Exhausted;
    fn try_next_u32(&mut self) -> Result<u32, Exhausted> { let mut b = [0u8; 4]; self.0.take(&mut b)?; Ok(u32::from_le_bytes(b)) }
    fn try_next_u64(&mut self) -> Result<u64, Exhausted> { let mut b = [0u8; 8]; self.0.take(&mut b)?; Ok(u64::from_le_bytes(b)) }
    fn try_fill_bytes(&mut self, dst: &mut [u8]) -> Result<(), Exhausted> { self.0.take(dst) }
}

fn words_bytes(wd: &[u64]) -> Vec<u8> { wd.iter().flat_map(|x| x.to_le_bytes()).collect() }

/// moduli named by the quantifier: top limb 1, 2^j, 2^j +- 1, MAX; low limbs 0 / MAX / structured
fn modulus(r: &mut Rng, n: usize) -> Vec<u64> {
    let top = match r.below(8) {
        0 => 1, 1 => MAX, 2 => 1u64 << r.below(64), 3 => (1u64 << r.range(1, 63)) + 1, 4 => (1u64 << r.range(2, 63)) - 1,
        5 => TOP, 6 => r.next() | 1, _ => (r.next() >> r.below(64)).max(1),
    };
    let mut m: Vec<u64> = (0..n - 1).map(|_| match r.below(4) { 0 => 0, 1 => MAX, 2 => limb(r), _ => r.next() }).collect();
    m.push(top);
    if is_zero(&m) { m[0] = 1; }
    m
}

/// adversarial stream for modulus m (n_limbs significant): a few rejected candidates then an accepted one
fn stream_for(r: &mut Rng, m: &[u64]) -> Vec<u64> {
    let n = m.len();
    let top = m[n - 1];
    let mask = MAX >> top.leading_zeros();
    let mut s = vec![];
    for _ in 0..r.below(4) {
        match r.below(6) {
            0 => s.push(MAX),                                    // above the top limb within mask? (masked to mask)
            1 => s.push(top.wrapping_add(1) & mask | (r.next() & !mask)), // one above the top limb
            2 => { s.push(top | (r.next() & !mask)); for i in 0..n - 1 { s.push(m[i]); } }      // equal to the modulus: rejected after the low limbs
            3 => { s.push(top | (r.next() & !mask)); for i in 0..n - 1 { s.push(if i == 0 { m[0].wrapping_add(1) } else { m[i] }); } }
            4 => { s.push(top); for _ in 0..n - 1 { s.push(MAX); } }
            _ => s.push(r.next()),
        }
    }
    match r.below(5) {
        0 => { s.push(top | (r.next() & !mask)); let mm = vsub(m, &[1]); for i in 0..n - 1 { s.push(mm[i]); } } // m - 1 (if it keeps the top limb)
        1 => { s.push(0); for _ in 0..n - 1 { s.push(0); } }
        2 => { s.push(r.next()); for _ in 0..n - 1 { s.push(r.next()); } }
        3 => { s.push(top.wrapping_sub(1) & mask); for _ in 0..n - 1 { s.push(MAX); } }
        _ => { s.push(MAX); for _ in 0..n - 1 { s.push(MAX); } }
    }
    s
}

fn rmod_fixed<const N: usize>(cx: &mut Cx, iters: usize) {
    for it in 0..iters {
        let k = cx.rng.range(1, N);
        let m = fit(modulus(&mut cx.rng, k), N);
        let st = words_bytes(&stream_for(&mut cx.rng, &trim(m.clone())));
        let nzm = nz::<N>(&m).unwrap();
        let ev = |form: &str| Ev::new("rmod", form).i("bits", 64 * N as i64).n("m", &m).b("st", &st);
        cx.call(ev("uint.random_mod"), || { let mut s = Script::new(st.clone()); let v = Uint::<N>::random_mod(&mut Inf(&mut s), &nzm); O::ok().n("v", &w(&v)) });
        cx.call(ev("uint.try_random_mod"), || { let mut s = Script::new(st.clone()); match Uint::<N>::try_random_mod(&mut Fal(&mut s), &nzm) { Ok(v) => O::ok().n("v", &w(&v)), Err(_) => O::err("Rng") } });
        if it % 4 == 0 {
            // stream that ends early: the fallible form must report the RNG error, never a value
            let cut = st[..cx.rng.below(st.len().max(1))].to_vec();
            cx.call(Ev::new("rmod", "uint.try_random_mod.exhausted").i("bits", 64 * N as i64).n("m", &m).b("st", &cut).i("fail", 1), || { let mut s = Script::failing(cut.clone()); match Uint::<N>::try_random_mod(&mut Fal(&mut s), &nzm) { Ok(v) => O::ok().n("v", &w(&v)), Err(_) => O::err("Rng") } });
        }
        // the same stream through the boxed sampler of the same width
        let nzb_ = nzb(&m).unwrap();
        cx.call(Ev::new("pair", "random_mod.uint_vs_boxed").i("bits", 64 * N as i64).n("m", &m).b("st", &st), || {
            let mut s1 = Script::new(st.clone()); let v1 = Uint::<N>::random_mod(&mut Inf(&mut s1), &nzm);
            let mut s2 = Script::new(st.clone()); let v2 = BoxedUint::random_mod(&mut Inf(&mut s2), &nzb_);
            O::ok().n("v1", &w(&v1)).i("c1", s1.pos as i64).n("v2", &wb(&v2)).i("c2", s2.pos as i64).i("p2", v2.bits_precision() as i64) });
    }
}

fn rmod_boxed(cx: &mut Cx, iters: usize) {
    for _ in 0..iters {
        let n = cx.rng.range(1, 9);
        let k = cx.rng.range(1, n);
        let m = fit(modulus(&mut cx.rng, k), n);
        let st = words_bytes(&stream_for(&mut cx.rng, &trim(m.clone())));
        let nzm = nzb(&m).unwrap();
        let ev = |form: &str| Ev::new("rmod", form).i("bits", 64 * n as i64).n("m", &m).b("st", &st);
        cx.call(ev("boxed.random_mod"), || { let mut s = Script::new(st.clone()); let v = BoxedUint::random_mod(&mut Inf(&mut s), &nzm); O::ok().n("v", &wb(&v)).i("vp", v.bits_precision() as i64) });
        cx.call(ev("boxed.try_random_mod"), || { let mut s = Script::new(st.clone()); match BoxedUint::try_random_mod(&mut Fal(&mut s), &nzm) { Ok(v) => O::ok().n("v", &wb(&v)).i("vp", v.bits_precision() as i64), Err(_) => O::err("Rng") } });
    }
}

fn rmod_limb(cx: &mut Cx, iters: usize) {
    for _ in 0..iters {
        let m = modulus(&mut cx.rng, 1)[0];
        let nb = ((64 - m.leading_zeros() as usize) + 7) / 8;
        // byte-wise sampler: adversarial byte chunks (rejected then accepted)
        let mut st = vec![];
        for _ in 0..cx.rng.below(3) { let v = match cx.rng.below(3) { 0 => m, 1 => m.wrapping_add(1), _ => MAX }; st.extend_from_slice(&v.to_le_bytes()[..nb]); }
        let last = match cx.rng.below(4) { 0 => m - 1, 1 => 0, 2 => cx.rng.next() % m, _ => cx.rng.next() };
        st.extend_from_slice(&last.to_le_bytes()[..nb]);
        let nzm = nzl(m).unwrap();
        cx.call(Ev::new("rmod", "limb.random_mod").i("bits", 64).n("m", &[m]).b("st", &st), || { let mut s = Script::new(st.clone()); let v = Limb::random_mod(&mut Inf(&mut s), &nzm); O::ok().n("v", &[v.0]) });
        cx.call(Ev::new("rmod", "limb.try_random_mod").i("bits", 64).n("m", &[m]).b("st", &st), || { let mut s = Script::new(st.clone()); match Limb::try_random_mod(&mut Fal(&mut s), &nzm) { Ok(v) => O::ok().n("v", &[v.0]), Err(_) => O::err("Rng") } });
    }
}

fn bits_err<E>(e: RandomBitsError<E>) -> O {
    match e { RandomBitsError::RandCore(_) => O::err("Rng"), RandomBitsError::BitsPrecisionMismatch { .. } => O::err("PrecisionMismatch"), RandomBitsError::BitLengthTooLarge { .. } => O::err("BitLengthTooLarge") }
}

fn rbits_fixed<const N: usize>(cx: &mut Cx, reps: usize) {
    let tb = 64 * N as u32;
    for _ in 0..reps {
        for bl in (0..=tb + 2).chain([u32::MAX, 1 << 31]) {
            let st: Vec<u8> = (0..8 * N + 8).map(|_| match cx.rng.below(4) { 0 => 0xff, 1 => 0, _ => cx.rng.next() as u8 }).collect();
            let ev = |form: &str, prec: u32| Ev::new("rbits", form).i("tb", tb as i64).nu("bl", bl as u128).nu("prec", prec as u128).b("st", &st).s("ty", "fixed");
            cx.call(ev("uint.try_random_bits", tb), || { let mut s = Script::new(st.clone()); match Uint::<N>::try_random_bits(&mut Fal(&mut s), bl) { Ok(v) => O::ok().n("v", &w(&v)).i("c", s.pos as i64), Err(e) => bits_err(e) } });
            if bl % 5 == 0 || bl + 2 > tb {      // every form at the full width and just below it
                cx.call(ev("uint.random_bits", tb), || { let mut s = Script::new(st.clone()); let v = Uint::<N>::random_bits(&mut Inf(&mut s), bl); O::ok().n("v", &w(&v)).i("c", s.pos as i64) });
                cx.call(ev("int.try_random_bits", tb), || { let mut s = Script::new(st.clone()); match Int::<N>::try_random_bits(&mut Fal(&mut s), bl) { Ok(v) => O::ok().n("v", &wi(&v)).i("c", s.pos as i64), Err(e) => bits_err(e) } });
                let prec = cx.rng.pick(&[tb, tb + 64, tb - 1, 0, tb + 1]);
                cx.call(ev("uint.try_random_bits_with_precision", prec), || { let mut s = Script::new(st.clone()); match Uint::<N>::try_random_bits_with_precision(&mut Fal(&mut s), bl, prec) { Ok(v) => O::ok().n("v", &w(&v)).i("c", s.pos as i64), Err(e) => bits_err(e) } });
                cx.call(ev("int.try_random_bits_with_precision", prec), || { let mut s = Script::new(st.clone()); match Int::<N>::try_random_bits_with_precision(&mut Fal(&mut s), bl, prec) { Ok(v) => O::ok().n("v", &wi(&v)).i("c", s.pos as i64), Err(e) => bits_err(e) } });
                cx.call(ev("int.random_bits", tb), || { let mut s = Script::new(st.clone()); let v = Int::<N>::random_bits(&mut Inf(&mut s), bl); O::ok().n("v", &wi(&v)).i("c", s.pos as i64) });
            }
            if bl <= tb && bl % 3 == 0 {
                // same stream, boxed sampler with the same precision
                cx.call(Ev::new("pair", "random_bits.uint_vs_boxed").i("bits", tb as i64).nu("bl", bl as u128).b("st", &st), || {
                    let mut s1 = Script::new(st.clone()); let v1 = Uint::<N>::random_bits(&mut Inf(&mut s1), bl);
                    let mut s2 = Script::new(st.clone()); let v2 = BoxedUint::random_bits_with_precision(&mut Inf(&mut s2), bl, tb);
                    O::ok().n("v1", &w(&v1)).i("c1", s1.pos as i64).n("v2", &wb(&v2)).i("c2", s2.pos as i64).i("p2", v2.bits_precision() as i64) });
            }
        }
    }
}

fn rbits_boxed(cx: &mut Cx, iters: usize) {
    for _ in 0..iters {
        let prec = match cx.rng.below(4) { 0 => 64 * cx.rng.range(1, 9) as u32, 1 => cx.rng.range(1, 600) as u32, 2 => 0, _ => 64 * cx.rng.range(1, 4) as u32 + cx.rng.pick(&[1u32, 31, 32, 33, 63]) };
        let bl = match cx.rng.below(5) { 0 => prec, 1 => prec + 1, 2 => prec.saturating_sub(1), 3 => 0, _ => cx.rng.below(prec as usize + 1) as u32 };
        let st: Vec<u8> = (0..(prec as usize / 8 + 24)).map(|_| match cx.rng.below(4) { 0 => 0xff, _ => cx.rng.next() as u8 }).collect();
        let ev = |form: &str| Ev::new("rbits", form).i("tb", 0).nu("bl", bl as u128).nu("prec", prec as u128).b("st", &st).s("ty", "boxed");
        cx.call(ev("boxed.try_random_bits_with_precision"), || { let mut s = Script::new(st.clone()); match BoxedUint::try_random_bits_with_precision(&mut Fal(&mut s), bl, prec) { Ok(v) => O::ok().n("v", &wb(&v)).i("c", s.pos as i64).i("vp", v.bits_precision() as i64), Err(e) => bits_err(e) } });
        if bl <= prec {
            cx.call(Ev::new("rbits", "boxed.try_random_bits").i("tb", 0).nu("bl", bl as u128).nu("prec", bl as u128).b("st", &st).s("ty", "boxed"), || { let mut s = Script::new(st.clone()); match BoxedUint::try_random_bits(&mut Fal(&mut s), bl) { Ok(v) => O::ok().n("v", &wb(&v)).i("c", s.pos as i64).i("vp", v.bits_precision() as i64), Err(e) => bits_err(e) } });
        }
    }
}

fn rand_plain<const N: usize>(cx: &mut Cx, iters: usize) {
    for it in 0..iters {
        let mut wd: Vec<u64> = nat(&mut cx.rng, N);
        if it % 5 == 0 { wd = vec![0; N]; }
        let st = words_bytes(&wd);
        cx.call(Ev::new("rand", "uint.random").i("bits", 64 * N as i64).b("st", &st).s("w", "plain"), || { let mut s = Script::new(st.clone()); let v = Uint::<N>::random(&mut Inf(&mut s)); O::ok().n("v", &w(&v)).i("c", s.pos as i64) });
        cx.call(Ev::new("rand", "wrapping.random").i("bits", 64 * N as i64).b("st", &st).s("w", "plain"), || { let mut s = Script::new(st.clone()); let v = vh::cb::Wrapping::<Uint<N>>::random(&mut Inf(&mut s)); O::ok().n("v", &w(&v.0)).i("c", s.pos as i64) });
        cx.call(Ev::new("rand", "int.random").i("bits", 64 * N as i64).b("st", &st).s("w", "plain"), || { let mut s = Script::new(st.clone()); let v = Int::<N>::random(&mut Inf(&mut s)); O::ok().n("v", &wi(&v)).i("c", s.pos as i64) });
        cx.call(Ev::new("rand", "odd.random").i("bits", 64 * N as i64).b("st", &st).s("w", "odd"), || { let mut s = Script::new(st.clone()); let v = Odd::<Uint<N>>::random(&mut Inf(&mut s)); O::ok().n("v", &w(&v.get())).i("c", s.pos as i64) });
        // NonZero: leading all-zero samples are rejected
        let zeros = it % 3;
        let mut st2 = vec![0u8; 8 * N * zeros];
        st2.extend_from_slice(&words_bytes(&nat_nonzero(&mut cx.rng, N)));
        cx.call(Ev::new("rand", "nonzero.random").i("bits", 64 * N as i64).b("st", &st2).s("w", "nz").i("zs", zeros as i64), || { let mut s = Script::new(st2.clone()); let v = NonZero::<Uint<N>>::random(&mut Inf(&mut s)); O::ok().n("v", &w(&v.get())).i("c", s.pos as i64) });
    }
}

/// exhaustive slice: all 2^kb patterns of a kb-bit field (bit position `sh` of the top candidate word),
/// every other stream bit fixed; low limbs fixed at a class relative to the modulus
fn unif_fixed<const N: usize>(cx: &mut Cx, iters: usize) {
    for it in 0..iters {
        let k = cx.rng.range(1, N);
        let m = trim(modulus(&mut cx.rng, k));
        let mf = fit(m.clone(), N);
        let n = m.len();
        let top = m[n - 1];
        let tbits = 64 - top.leading_zeros() as usize;           // candidate top word has tbits bits
        let kb = tbits.min(8);
        let sh = if it % 2 == 0 { tbits - kb } else { cx.rng.below(tbits - kb + 1) };
        // fixed part of the top candidate word: agrees with the modulus outside the field half of the time
        let outside = if cx.rng.coin() { top } else { cx.rng.next() } & (MAX >> (64 - tbits)) & !(((1u64 << kb) - 1) << sh);
        let low: Vec<u64> = (0..n - 1).map(|i| match it % 5 { 0 => 0, 1 => m[i], 2 => MAX, 3 => if i == 0 { m[0].wrapping_sub(1) } else { m[i] }, _ => cx.rng.next() }).collect();
        let garbage = cx.rng.next() & !(MAX >> (64 - tbits).min(63)) & if tbits == 64 { 0 } else { MAX };
        let nzm = nz::<N>(&mf).unwrap();
        let nzb_ = nzb(&mf).unwrap();
        let mut lowfix = low.clone(); lowfix.push(outside);
        for boxed in [false, true] {
            cx.call(Ev::new("unif", if boxed { "boxed.random_mod" } else { "uint.random_mod" }).i("bits", 64 * N as i64).n("m", &mf).i("kb", kb as i64).i("sh", (64 * (n - 1) + sh) as i64).n("lowfix", &lowfix).i("sl", 8 * n as i64), || {
                let mut outs = vec![]; let mut cs = vec![];
                for t in 0..(1u64 << kb) {
                    let mut wd = vec![outside | (t << sh) | garbage];
                    wd.extend_from_slice(&low);
                    let mut s = Script::new(words_bytes(&wd));
                    let v = if boxed { wb(&BoxedUint::random_mod(&mut Inf(&mut s), &nzb_)) } else { w(&Uint::<N>::random_mod(&mut Inf(&mut s), &nzm)) };
                    outs.push(v); cs.push(vec![s.pos as u64]);
                }
                O::ok().nl("outs", &outs).nl("cs", &cs) });
        }
    }
}

fn unif_limb(cx: &mut Cx, iters: usize) {
    for it in 0..iters {
        let m = modulus(&mut cx.rng, 1)[0];
        let tbits = 64 - m.leading_zeros() as usize;
        let kb = tbits.min(8);
        let sh = if it % 2 == 0 { tbits - kb } else { cx.rng.below(tbits - kb + 1) };
        let outside = if cx.rng.coin() { m } else { cx.rng.next() } & (MAX >> (64 - tbits)) & !(((1u64 << kb) - 1) << sh);
        let nb = (tbits + 7) / 8;
        let garbage = if tbits % 8 == 0 { 0 } else { (cx.rng.next() << tbits) & (MAX >> (64 - 8 * nb)) };
        let nzm = nzl(m).unwrap();
        cx.call(Ev::new("unif", "limb.random_mod").i("bits", 64).n("m", &[m]).i("kb", kb as i64).i("sh", sh as i64).n("lowfix", &[outside]).i("sl", nb as i64), || {
            let mut outs = vec![]; let mut cs = vec![];
            for t in 0..(1u64 << kb) {
                let cand = outside | (t << sh) | garbage;
                let mut s = Script::new(cand.to_le_bytes()[..nb].to_vec());
                let v = Limb::random_mod(&mut Inf(&mut s), &nzm);
                outs.push(vec![v.0]); cs.push(vec![s.pos as u64]);
            }
            O::ok().nl("outs", &outs).nl("cs", &cs) });
    }
}

/// random_bits: every pattern of a kb-bit field of the stream, the rest fixed
fn ubits<const N: usize>(cx: &mut Cx, reps: usize) {
    for _ in 0..reps {
        for bl in 1..=(64 * N as u32) {
            if bl > 70 && cx.rng.below(4) != 0 { continue; }
            let kb = (bl as usize).min(8);
            let sh = if cx.rng.coin() { bl as usize - kb } else { cx.rng.below(bl as usize - kb + 1) };
            let base: Vec<u8> = (0..8 * N).map(|_| cx.rng.next() as u8).collect();
            for boxed in [false, true] {
                cx.call(Ev::new("ubits", if boxed { "boxed.random_bits" } else { "uint.random_bits" }).i("bits", 64 * N as i64).i("bl", bl as i64).i("kb", kb as i64).i("sh", sh as i64), || {
                    let mut outs = vec![]; let mut cs = vec![];
                    for t in 0..(1u64 << kb) {
                        let mut st = base.clone();
                        for j in 0..kb { let bit = sh + j; let (byte, off) = (bit / 8, bit % 8); st[byte] = (st[byte] & !(1 << off)) | ((((t >> j) & 1) as u8) << off); }
                        let mut s = Script::new(st);
                        let v = if boxed { wb(&BoxedUint::random_bits_with_precision(&mut Inf(&mut s), bl, 64 * N as u32)) } else { w(&Uint::<N>::random_bits(&mut Inf(&mut s), bl)) };
                        outs.push(v); cs.push(vec![s.pos as u64]);
                    }
                    O::ok().nl("outs", &outs).nl("cs", &cs) });
            }
        }
    }
}

/// frequency counts over ChaCha streams (measured here, judged by TLC)
fn stat(cx: &mut Cx, draws: usize) {
    use rand_chacha::ChaCha8Rng;
    for (i, m) in [2u64, 3, 5, 7, 10, 16, 17, 31, 33, 63, 64].iter().enumerate() {
        let seed = cx.seed.wrapping_mul(1000).wrapping_add(i as u64);
        let nzm = nzl(*m).unwrap();
        let nzu = nz::<2>(&[*m, 0]).unwrap();
        cx.call(Ev::new("stat", "limb.random_mod").n("m", &[*m]).i("n", draws as i64).nu("seed", seed as u128), || { let mut rng = ChaCha8Rng::seed_from_u64(seed); let mut c = vec![0u64; *m as usize]; for _ in 0..draws { c[Limb::random_mod(&mut rng, &nzm).0 as usize] += 1; } O::ok().nl("counts", &c.iter().map(|x| vec![*x]).collect::<Vec<_>>()) });
        cx.call(Ev::new("stat", "uint.random_mod").n("m", &[*m]).i("n", draws as i64).nu("seed", seed as u128), || { let mut rng = ChaCha8Rng::seed_from_u64(seed); let mut c = vec![0u64; *m as usize]; for _ in 0..draws { c[Uint::<2>::random_mod(&mut rng, &nzu).to_words()[0] as usize] += 1; } O::ok().nl("counts", &c.iter().map(|x| vec![*x]).collect::<Vec<_>>()) });
        if *m <= 32 {
            let bl = 64 - (m - 1).leading_zeros().min(63);   // values below 2^bl
            let bl = bl.max(1);
            cx.call(Ev::new("stat", "uint.random_bits").n("m", &[1u64 << bl]).i("n", draws as i64).nu("seed", seed as u128), || { let mut rng = ChaCha8Rng::seed_from_u64(seed); let mut c = vec![0u64; 1usize << bl]; for _ in 0..draws { c[Uint::<2>::random_bits(&mut rng, bl).to_words()[0] as usize] += 1; } O::ok().nl("counts", &c.iter().map(|x| vec![*x]).collect::<Vec<_>>()) });
        }
    }
}

impl_modulus!(CM64, U64, "000000000000001d");
impl_modulus!(CM256, U256, "ffffffff00000000ffffffffffffffffbce6faada7179e84f3b9cac2fc632551");
fn const_monty(cx: &mut Cx, iters: usize) {
    for _ in 0..iters {
        let st = words_bytes(&uniform(&mut cx.rng, 12));
        let m1 = w(&<CM64 as ConstMontyParams<1>>::MODULUS.get());
        cx.call(Ev::new("rmod", "ConstMontyForm.random").i("bits", 64).n("m", &m1).b("st", &st), || { let mut s = Script::new(st.clone()); let v = ConstMontyForm::<CM64, 1>::random(&mut Inf(&mut s)); O::ok().n("v", &w(&v.retrieve())) });
        let m4 = w(&<CM256 as ConstMontyParams<4>>::MODULUS.get());
        cx.call(Ev::new("rmod", "ConstMontyForm.random").i("bits", 256).n("m", &m4).b("st", &st), || { let mut s = Script::new(st.clone()); let v = ConstMontyForm::<CM256, 4>::random(&mut Inf(&mut s)); O::ok().n("v", &w(&v.retrieve())) });
    }
}

impl_modulus!(CM64B, U64, "c000000000000001");
impl_modulus!(CM64C, U64, "00000000000000c1");
/// uniformity of `ConstMontyForm::random` by the same counting statement as for `random_mod`: all 2^8 patterns of a
/// field of the candidate word, the rest of the stream fixed
fn unif_const(cx: &mut Cx, iters: usize) {
    macro_rules! one { ($M:ty, $it:expr) => {{
        let m = <$M as ConstMontyParams<1>>::MODULUS.get().to_words()[0];
        let tbits = 64 - m.leading_zeros() as usize;
        let kb = tbits.min(8);
        let sh = if $it % 2 == 0 { tbits - kb } else { cx.rng.below(tbits - kb + 1) };
        let outside = if cx.rng.coin() { m } else { cx.rng.next() } & (MAX >> (64 - tbits)) & !(((1u64 << kb) - 1) << sh);
        let garbage = cx.rng.next() & !(MAX >> (64 - tbits).min(63)) & if tbits == 64 { 0 } else { MAX };
        cx.call(Ev::new("unif", "ConstMontyForm.random").i("bits", 64).n("m", &[m]).i("kb", kb as i64).i("sh", sh as i64).n("lowfix", &[outside]).i("sl", 8), || {
            let mut outs = vec![]; let mut cs = vec![];
            for t in 0..(1u64 << kb) {
                let mut s = Script::new(words_bytes(&[outside | (t << sh) | garbage]));
                let v = ConstMontyForm::<$M, 1>::random(&mut Inf(&mut s));
                outs.push(w(&v.retrieve())); cs.push(vec![s.pos as u64]);
            }
            O::ok().nl("outs", &outs).nl("cs", &cs) });
    }}; }
    for it in 0..iters { one!(CM64B, it); one!(CM64C, it); one!(CM64, it); }
}

fn main() {
    let mut cx = Cx::from_args("C19");
    let s = cx.scale;
    if cx.want("rmod") {
        rmod_fixed::<1>(&mut cx, 400 * s); rmod_fixed::<2>(&mut cx, 400 * s); rmod_fixed::<3>(&mut cx, 300 * s); rmod_fixed::<4>(&mut cx, 400 * s); rmod_fixed::<8>(&mut cx, 200 * s);
        rmod_boxed(&mut cx, 600 * s); rmod_limb(&mut cx, 600 * s); const_monty(&mut cx, 100 * s); unif_const(&mut cx, 12 * s);
    }
    if cx.want("rbits") {
        rbits_fixed::<1>(&mut cx, 4 * s); rbits_fixed::<2>(&mut cx, 3 * s); rbits_fixed::<3>(&mut cx, 2 * s); rbits_fixed::<4>(&mut cx, s); rbits_fixed::<8>(&mut cx, s);
        rbits_boxed(&mut cx, 1500 * s);
    }
    if cx.want("rand") { rand_plain::<1>(&mut cx, 100 * s); rand_plain::<2>(&mut cx, 100 * s); rand_plain::<4>(&mut cx, 100 * s); rand_plain::<16>(&mut cx, 30 * s); }
    if cx.want("unif") {
        unif_fixed::<1>(&mut cx, 150 * s); unif_fixed::<2>(&mut cx, 150 * s); unif_fixed::<3>(&mut cx, 80 * s); unif_fixed::<4>(&mut cx, 80 * s);
        unif_limb(&mut cx, 200 * s);
        ubits::<1>(&mut cx, s); ubits::<2>(&mut cx, s); ubits::<4>(&mut cx, s);
    }
    if cx.want("stat") { let n = if cx.thorough { 1_000_000 } else { 100_000 }; stat(&mut cx, n); }
    cx.finish();
}
