SPECIFICATION Spec
CONSTANTS W = 4
 Mode = "school"
 SIZE = 3
 BASE = 1
 MAXRED = 1
INVARIANT Exact
INVARIANT RefOK
CHECK_DEADLOCK FALSE
