CONSTANT SmallMax = 24
CONSTANT UseBig = FALSE
INIT Init
NEXT Next
INVARIANT Agree
CHECK_DEADLOCK FALSE
