-------------------------------- MODULE JC06 --------------------------------
(* C06 — contract of the recorded events of this property (stub).           *)
EXTENDS BigNat

JudgeC06(e, rg) == FALSE
=============================================================================
