SPECIFICATION Spec
CONSTANTS IB = 3
 OB = 4
 TB = 4
 NI = 5
 NO = 3
 Mut = 0
INVARIANT ConvertOK
CHECK_DEADLOCK FALSE
