#!/usr/bin/env python3
"""Phase-0 probe: enumerate the public API of crypto-bigint from rustdoc JSON.

  cd /repo && CARGO_TARGET_DIR=<scratch> cargo +nightly rustdoc --offline \
     --features alloc,rand,serde,der,rlp,hybrid-array,zeroize,extra-sizes \
     -- -Z unstable-options --output-format json
  python3 extract_api.py <scratch>/doc/crypto_bigint.json out.json

Output: one record per function in every non-synthetic impl block of the crate:
self type, trait (or null), name, return type, file, vartime (name or doc), panics (doc).
Measured 2026-10-03 on the pinned tree: 727 inherent + 2277 trait-impl functions,
457 distinct inherent (type, method) pairs, 100 distinct traits.
"""
import json, sys

def tyname(t):
    if t is None: return "()"
    if isinstance(t, str): return t
    k = list(t.keys())[0]; v = t[k]
    if k == 'resolved_path':
        s = v.get('path') or v.get('name'); args = v.get('args')
        if args and 'angle_bracketed' in args:
            a = []
            for x in args['angle_bracketed']['args']:
                if 'type' in x: a.append(tyname(x['type']))
                elif 'const' in x: a.append(x['const'].get('expr', '_'))
                else: a.append('_')
            if a: s += "<" + ",".join(a) + ">"
        return s
    if k in ('generic', 'primitive'): return v
    if k == 'borrowed_ref': return "&" + tyname(v['type'])
    if k == 'tuple': return "(" + ",".join(tyname(x) for x in v) + ")"
    if k == 'slice': return "[" + tyname(v) + "]"
    if k == 'array': return "[" + tyname(v['type']) + ";" + v['len'] + "]"
    if k == 'qualified_path': return tyname(v['self_type']) + "::" + v['name']
    if k == 'raw_pointer': return "*" + tyname(v['type'])
    return k

def main(src, dst):
    d = json.load(open(src)); idx = d['index']; out = []
    for it in idx.values():
        if it.get('crate_id') != 0 or 'impl' not in it['inner']: continue
        im = it['inner']['impl']
        if im.get('is_synthetic') or im.get('blanket_impl'): continue
        selfty = tyname(im['for']); tr = im['trait']['path'] if im.get('trait') else None
        for cid in im['items']:
            c = idx.get(str(cid)) or idx.get(cid)
            if not c or 'function' not in c['inner']: continue
            if tr is None and c.get('visibility') != 'public': continue
            doc = (c.get('docs') or '').lower()
            out.append(dict(self=selfty, trait=tr, name=c['name'],
                            ret=tyname(c['inner']['function']['sig'].get('output')),
                            file=(c.get('span') or {}).get('filename', ''),
                            vartime=('vartime' in c['name'] or 'variable' in doc),
                            panics=('panic' in doc)))
    json.dump(out, open(dst, 'w'), indent=0)
    print(len(out), "functions")

if __name__ == '__main__':
    main(sys.argv[1], sys.argv[2])
