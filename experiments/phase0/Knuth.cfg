SPECIFICATION Spec
CONSTANTS W = 2
 L = 4
 YC = 3
INVARIANT Exact
INVARIANT NoAddBack
CHECK_DEADLOCK FALSE
