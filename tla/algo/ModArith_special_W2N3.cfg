SPECIFICATION Spec
CONSTANTS W = 2
 N = 3
 Mode = "special"
 WidenCarry = TRUE
INVARIANT AddOK
INVARIANT DoubleOK
INVARIANT SubOK
INVARIANT NegOK
INVARIANT HalveOK
INVARIANT AddSpecialOK
INVARIANT SubSpecialOK
INVARIANT MulSpecialOK
CHECK_DEADLOCK FALSE
