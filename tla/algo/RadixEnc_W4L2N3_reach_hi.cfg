SPECIFICATION Spec
CONSTANTS W = 4
 LARGE = 2
 N = 3
 Radices = {2,3,4,5,6,7,8,9,10,11,12,13,14,15,16}
 Mut = 0
INVARIANT ReachHi
CHECK_DEADLOCK FALSE
