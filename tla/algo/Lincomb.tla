------------------------------- MODULE Lincomb -------------------------------
(***************************************************************************)
(* The coarse interleaved sum of products (Longa, Alg. 2 for B = 1) of     *)
(* src/modular/lincomb.rs 23-73 on limb sequences at word size W with N    *)
(* limbs: per output limb j, every term adds a_i[j] * b_i into the         *)
(* accumulator u with its top carry going into the word `hi` and the       *)
(* overflow of `hi` into `hi_carry` (both added with wrapping_add), then   *)
(* one Montgomery row reduces u; the final carry feeds sub_mod_with_carry. *)
(* The caller accumulates at most 2^leading_zeros(m) terms per call.       *)
(* TLC explores ALL odd moduli and ALL operand pairs below m for T terms:  *)
(* the result is the canonical representative of sum a_i*b_i*R^-1 mod m,   *)
(* and the word-sized accumulators never wrap.                             *)
(***************************************************************************)
EXTENDS Integers, Sequences, TLC
CONSTANTS W, N, T
B == 2 ^ W
R == B ^ N
Limbs(v) == [i \in 1..N |-> (v \div B ^ (i - 1)) % B]
RECURSIVE ValR(_, _)
ValR(s, i) == IF i = 0 THEN 0 ELSE s[i] * B ^ (i - 1) + ValR(s, i - 1)
Val(s) == ValR(s, N)
NegInv(m0) == CHOOSE k \in 0..B - 1 : (k * m0 + 1) % B = 0
RECURSIVE BitLen(_)
BitLen(v) == IF v = 0 THEN 0 ELSE 1 + BitLen(v \div 2)
LeadingZeros(m) == LET lz == W * N - BitLen(m) IN IF lz < W - 1 THEN lz ELSE W - 1      \* clamped as in MontyParams
MaxAccum(m) == 2 ^ LeadingZeros(m)

RECURSIVE MacRow(_, _, _, _, _)
MacRow(u, x, b, k, carry) ==                    \* u += x * b (limb sequence b), returns <<u, carry>>
  IF k > N THEN <<u, carry>>
  ELSE LET t == u[k] + x * b[k] + carry IN MacRow([u EXCEPT ![k] = t % B], x, b, k + 1, t \div B)
RECURSIVE Terms(_, _, _, _, _, _, _, _)
Terms(u, as, bs, j, i, hi, hic, ok) ==          \* inner loop over the terms for output limb j
  IF i > Len(as) THEN <<u, hi, hic, ok>>
  ELSE LET r == MacRow(u, as[i][j], bs[i], 1, 0)
           s == hi + r[2]
       IN Terms(r[1], as, bs, j, i + 1, s % B, (hic + s \div B) % B, ok /\ (hic + s \div B) < B)
RECURSIVE RedRow(_, _, _, _, _)
RedRow(u, q, m, i, carry) ==                    \* u = (u + q*m) / B, returns <<u, carry>>
  IF i > N THEN <<u, carry>>
  ELSE LET t == u[i] + q * m[i] + carry
       IN RedRow(IF i = 1 THEN u ELSE [u EXCEPT ![i - 1] = t % B], q, m, i + 1, t \div B)
RECURSIVE Outer(_, _, _, _, _, _, _, _)
Outer(u, as, bs, m, k, j, hic, ok) ==
  IF j > N THEN <<u, hic, ok>>
  ELSE LET t  == Terms(u, as, bs, j, 1, hic, 0, ok)
           q  == (t[1][1] * k) % B
           r  == RedRow(t[1], q, m, 1, 0)
           s  == t[2] + r[2]
           u2 == [r[1] EXCEPT ![N] = s % B]
       IN Outer(u2, as, bs, m, k, j + 1, (t[3] + s \div B) % B, t[4] /\ (t[3] + s \div B) < B)
Lincomb(avs, bvs, mv) ==
  LET as == [i \in 1..Len(avs) |-> Limbs(avs[i])]
      bs == [i \in 1..Len(bvs) |-> Limbs(bvs[i])]
      m  == Limbs(mv)
      o  == Outer([i \in 1..N |-> 0], as, bs, m, NegInv(m[1]), 1, 0, TRUE)
      wide == Val(o[1]) + o[2] * R
  IN [val |-> IF wide >= mv THEN (wide - mv) % R ELSE Val(o[1]),      \* sub_mod_with_carry(carry, m, m)
      carry |-> o[2], wide |-> wide, nowrap |-> o[3]]

VARIABLES m, av, bv
Init == /\ m \in {x \in 1..R - 1 : x % 2 = 1}
        /\ av \in [1..T -> 0..R - 1] /\ bv \in [1..T -> 0..R - 1]
Next == UNCHANGED <<m, av, bv>>
Spec == Init /\ [][Next]_<<m, av, bv>>
InDomain == (\A i \in 1..T : av[i] < m /\ bv[i] < m) /\ T <= MaxAccum(m)
RECURSIVE Sum(_)
Sum(i) == IF i = 0 THEN 0 ELSE av[i] * bv[i] + Sum(i - 1)
Exact == InDomain =>
  LET r == Lincomb(av, bv, m) IN
  /\ r.nowrap /\ r.carry \in {0, 1}
  /\ r.wide < 2 * m                                         \* one conditional subtraction suffices
  /\ r.val < m /\ (r.val * R) % m = Sum(T) % m
=============================================================================
