---------------------------- MODULE SignedProofs ----------------------------
(***************************************************************************)
(* Width-independent proofs (TLAPS) of the two's-complement rules behind   *)
(* C13 and the signed comparison of C06: the representation has N = 2H     *)
(* patterns for ANY H > 0 (H = 2^(BITS-1) for every limb count); x, y are  *)
(* stored patterns in [0, N), Val their signed meaning.  Same statements as*)
(* tla/apalache/SignedLemmas256.tla (H = 2^255) and tla/algo/Signed.tla    *)
(* (5..9 bits, exhaustive).  Wrapped sums are case splits, so every        *)
(* obligation is linear integer arithmetic.                                *)
(*   src/int/add.rs 18-38, sub.rs 11-29, neg.rs 12-14, sign.rs 19-27,      *)
(*   src/int/cmp.rs 30-50                                                  *)
(* Check: tlapm --threads 8 SignedProofs.tla                               *)
(***************************************************************************)
EXTENDS Integers, TLAPS

Msb(v, h) == v >= h
Val(v, h) == IF v >= h THEN v - 2 * h ELSE v
Wrap(s, m) == IF s >= m THEN s - m ELSE s                 \* s mod m for 0 <= s < 2m
WrapS(s, m) == IF s < 0 THEN s + m ELSE s                 \* s mod m for -m <= s < m
InRange(z, h) == 0 - h <= z /\ z < h

(* overflowing_add: res = x + y mod N; overflow = (x.msb = y.msb) /\ (x.msb # res.msb) *)
THEOREM AddOverflow ==
  ASSUME NEW H \in Int, NEW x \in Int, NEW y \in Int, H > 0, 0 <= x, x < 2 * H, 0 <= y, y < 2 * H
  PROVE  LET res == Wrap(x + y, 2 * H)
             ovf == (Msb(x, H) <=> Msb(y, H)) /\ ~(Msb(x, H) <=> Msb(res, H))
         IN /\ ovf <=> ~InRange(Val(x, H) + Val(y, H), H)
            /\ ~ovf => Val(res, H) = Val(x, H) + Val(y, H)
<1>1. CASE x < H /\ y < H
  BY <1>1 DEF Wrap, Msb, Val, InRange
<1>2. CASE x < H /\ y >= H
  BY <1>2 DEF Wrap, Msb, Val, InRange
<1>3. CASE x >= H /\ y < H
  BY <1>3 DEF Wrap, Msb, Val, InRange
<1>4. CASE x >= H /\ y >= H /\ x + y >= 3 * H
  <2>1. Wrap(x + y, 2 * H) = x + y - 2 * H BY <1>4 DEF Wrap
  <2>2. Msb(x, H) /\ Msb(y, H) /\ Msb(x + y - 2 * H, H) BY <1>4 DEF Msb
  <2>3. Val(x, H) = x - 2 * H /\ Val(y, H) = y - 2 * H /\ Val(x + y - 2 * H, H) = x + y - 4 * H BY <1>4 DEF Val
  <2>4. InRange(x - 2 * H + (y - 2 * H), H) BY <1>4 DEF InRange
  <2> QED BY <2>1, <2>2, <2>3, <2>4
<1>5. CASE x >= H /\ y >= H /\ x + y < 3 * H
  BY <1>5 DEF Wrap, Msb, Val, InRange
<1> QED BY <1>1, <1>2, <1>3, <1>4, <1>5

(* checked_sub: res = x - y mod N; underflow = (x.msb # y.msb) /\ (x.msb # res.msb) *)
THEOREM SubUnderflow ==
  ASSUME NEW H \in Int, NEW x \in Int, NEW y \in Int, H > 0, 0 <= x, x < 2 * H, 0 <= y, y < 2 * H
  PROVE  LET res == WrapS(x - y, 2 * H)
             und == ~(Msb(x, H) <=> Msb(y, H)) /\ ~(Msb(x, H) <=> Msb(res, H))
         IN /\ und <=> ~InRange(Val(x, H) - Val(y, H), H)
            /\ ~und => Val(res, H) = Val(x, H) - Val(y, H)
  BY DEF WrapS, Msb, Val, InRange

(* overflowing_neg: (x ^ MAX) + 1 through the add rule with y = 1; only MIN overflows, and maps to itself *)
THEOREM NegOverflow ==
  ASSUME NEW H \in Int, NEW x \in Int, H > 1, 0 <= x, x < 2 * H
  PROVE  LET cpl == 2 * H - 1 - x
             res == Wrap(cpl + 1, 2 * H)
             ovf == (Msb(cpl, H) <=> Msb(1, H)) /\ ~(Msb(cpl, H) <=> Msb(res, H))
         IN /\ ovf <=> x = H
            /\ ~ovf => Val(res, H) = 0 - Val(x, H)
            /\ x = H => res = H
  BY DEF Wrap, Msb, Val

(* new_from_abs_sign(abs, neg): fits = abs <= MAX \/ (neg /\ abs = |MIN|) *)
THEOREM FromAbsSign ==
  ASSUME NEW H \in Int, NEW x \in Int, NEW neg \in BOOLEAN, H > 0, 0 <= x, x < 2 * H
  PROVE  LET mag == IF neg THEN Wrap(2 * H - x, 2 * H) ELSE x
             fits == x <= H - 1 \/ (neg /\ x = H)
             want == IF neg THEN 0 - x ELSE x
         IN /\ fits <=> InRange(want, H)
            /\ fits => Val(mag, H) = want
<1>1. CASE ~neg
  BY <1>1 DEF Wrap, Val, InRange
<1>2. CASE neg /\ x = 0
  BY <1>2 DEF Wrap, Val, InRange
<1>3. CASE neg /\ x > 0 /\ x <= H
  BY <1>3 DEF Wrap, Val, InRange
<1>4. CASE neg /\ x > H
  BY <1>4 DEF Wrap, Val, InRange
<1> QED BY <1>1, <1>2, <1>3, <1>4

(* Int::lt / gt: unsigned comparison (borrow of the subtraction) of the patterns with the msb inverted *)
Inv1(v, h) == IF v >= h THEN v - h ELSE v + h
THEOREM SignedCompare ==
  ASSUME NEW H \in Int, NEW x \in Int, NEW y \in Int, H > 0, 0 <= x, x < 2 * H, 0 <= y, y < 2 * H
  PROVE  /\ (Inv1(x, H) - Inv1(y, H) < 0) <=> Val(x, H) < Val(y, H)
         /\ (Inv1(y, H) - Inv1(x, H) < 0) <=> Val(x, H) > Val(y, H)
         /\ 0 <= Inv1(x, H) /\ Inv1(x, H) < 2 * H
  BY DEF Inv1, Val
=============================================================================
