//! C13 recorder: signed integers (`Int<N>`) as two's-complement mathematical integers.
//!
//! Signed values are logged as their two's-complement bit pattern (`a`, `b`, `r`) together with the
//! width in bits (`ab`, `bb`, `rb`); the judge reads them with `SVal`.  `bu` = 1 marks an unsigned
//! (`Uint`) right operand.  `m` is the documented reporting mode of the form:
//!   "wrap"  result modulo 2^rb                      "ovf"  wrapped result plus overflow flag `o`
//!   "chk"   none exactly on overflow                "op"   operator: panics exactly on overflow
//!   "exact" result always fits (widening forms)     "sat"  saturating (squares)
//!   "split" (lo, hi, neg) magnitude / sign triple   "wrapif" conditional negation with flag `c`
//! Event classes (`op`): add, sub, neg, mul, square, fromabs, abssign, pred, resize, fromprim.
//! `Int` has no boxed counterpart in the crate, so everything here is on the fixed-width type.
use vh::cb::subtle::{Choice, CtOption};
use vh::cb::{Checked, CheckedAdd, CheckedMul, CheckedSub, ConstChoice, Int, Uint, Wrapping, WrappingAdd, WrappingSub};
use vh::*;

// ------------------------------------------------------------------------------------------------
// two's-complement patterns in n limbs (input construction only)

fn pmin(n: usize) -> Vec<u64> {
    let mut v = vec![0; n];
    v[n - 1] = TOP;
    v
}
fn pmax(n: usize) -> Vec<u64> {
    let mut v = vec![MAX; n];
    v[n - 1] = TOP - 1;
    v
}
fn pneg(a: &[u64]) -> Vec<u64> {
    let inv: Vec<u64> = a.iter().map(|x| !x).collect();
    fit(vadd(&inv, &[1]), a.len())
}
fn padd(a: &[u64], b: &[u64]) -> Vec<u64> {
    fit(vadd(a, b), a.len())
}
fn psub(a: &[u64], b: &[u64]) -> Vec<u64> {
    padd(a, &pneg(&fit(b.to_vec(), a.len())))
}
fn pint(n: usize, v: i64) -> Vec<u64> {
    let mut out = vec![if v < 0 { MAX } else { 0 }; n];
    out[0] = v as u64;
    out
}
fn is_neg(a: &[u64]) -> bool {
    a[a.len() - 1] >> 63 == 1
}
fn ppow2(n: usize, k: usize) -> Vec<u64> {
    fit(vpow2(k), n)
}
/// pattern of the value (-1)^neg * mag in n limbs, if representable
fn smk(mag: &[u64], neg: bool, n: usize) -> Option<Vec<u64>> {
    if !fits(mag, n) {
        return None;
    }
    let m = fit(mag.to_vec(), n);
    if !is_neg(&m) {
        Some(if neg { pneg(&m) } else { m })
    } else if neg && m == pmin(n) {
        Some(m)
    } else {
        None
    }
}
/// sign-extend / truncate a pattern to n limbs
fn sext(a: &[u64], n: usize) -> Vec<u64> {
    let mut v = a.to_vec();
    let f = if is_neg(a) { MAX } else { 0 };
    v.resize(n, f);
    v
}

/// the values the quantifier names: MIN, MIN+1, -1, 0, 1, MAX, MAX-1, +-2^(BITS/2) (+-1), +-2^(BITS-2), +-2^k
fn special(r: &mut Rng, n: usize) -> Vec<u64> {
    let b = 64 * n;
    let h = ppow2(n, b / 2);
    let one = pint(n, 1);
    match r.below(24) {
        0 => pmin(n),
        1 => padd(&pmin(n), &one),
        2 => pint(n, -1),
        3 => vec![0; n],
        4 => one,
        5 => pmax(n),
        6 => psub(&pmax(n), &one),
        7 => h,
        8 => pneg(&h),
        9 => padd(&h, &one),
        10 => psub(&h, &one),
        11 => pneg(&padd(&h, &one)),
        12 => pneg(&psub(&h, &one)),
        13 => ppow2(n, b - 2),
        14 => pneg(&ppow2(n, b - 2)),
        15 => pint(n, 2),
        16 => pint(n, -2),
        17 => padd(&pmin(n), &pint(n, 2)),
        18 => ppow2(n, r.below(b - 1)),
        19 => pneg(&ppow2(n, r.below(b - 1))),
        20 => pint(n, 3),
        21 => pint(n, -3),
        22 => psub(&ppow2(n, r.range(1, b - 1)), &one),
        _ => pneg(&psub(&ppow2(n, r.range(1, b - 1)), &one)),
    }
}

/// a signed operand of n limbs
fn sint(r: &mut Rng, n: usize) -> Vec<u64> {
    match r.below(100) {
        0..=44 => special(r, n),
        45..=64 => {
            // short magnitude, either sign
            let k = r.range(1, n);
            let mut m = fit(nat(r, k), n);
            m[n - 1] &= TOP - 1;
            if r.coin() { pneg(&m) } else { m }
        }
        _ => nat(r, n),
    }
}

/// floor(n / d) by shift-and-subtract (input construction only)
fn vdiv(n: &[u64], d: &[u64]) -> Vec<u64> {
    let d = trim(d.to_vec());
    assert!(!d.is_empty());
    let mut q = vec![0u64; n.len()];
    let mut rem: Vec<u64> = vec![0];
    for i in (0..64 * n.len()).rev() {
        rem = trim(vshl(&rem, 1));
        if rem.is_empty() {
            rem.push(0);
        }
        rem[0] |= (n[i / 64] >> (i % 64)) & 1;
        if vcmp(&rem, &d).is_ge() {
            rem = vsub(&rem, &d);
            q[i / 64] |= 1 << (i % 64);
        }
    }
    q
}

// ------------------------------------------------------------------------------------------------
// outcome helpers

fn cc(b: bool) -> ConstChoice {
    if b { ConstChoice::TRUE } else { ConstChoice::FALSE }
}
fn o_int<const N: usize>(x: &Int<N>) -> O {
    O::ok().n("r", &wi(x))
}
fn o_uint<const N: usize>(x: &Uint<N>) -> O {
    O::ok().n("r", &w(x))
}
fn o_opt<const N: usize>(x: Option<Int<N>>) -> O {
    match x {
        Some(v) => o_int(&v),
        None => O::none(),
    }
}
fn o_optu<const N: usize>(x: Option<Uint<N>>) -> O {
    match x {
        Some(v) => o_uint(&v),
        None => O::none(),
    }
}
fn o_chk<const N: usize>(x: Checked<Int<N>>) -> O {
    o_opt(Option::<Int<N>>::from(x))
}
fn none_chk<const N: usize>(a: Int<N>) -> Checked<Int<N>> {
    Checked(CtOption::new(a, Choice::from(0)))
}

// ------------------------------------------------------------------------------------------------
// add / sub

fn addsub_pair(r: &mut Rng, n: usize, sub: bool) -> (Vec<u64>, Vec<u64>) {
    let one = pint(n, 1);
    match r.below(100) {
        0..=34 => (sint(r, n), sint(r, n)),
        35..=44 => {
            // a = -b (for sub: a = b)
            let a = sint(r, n);
            let b = if sub { a.clone() } else { pneg(&a) };
            (a, b)
        }
        45..=54 => {
            let a = sint(r, n);
            let b = if sub { pneg(&a) } else { a.clone() };
            (a, b)
        }
        _ => {
            // result exactly at MAX, MAX+1, MIN, MIN-1, -1, 0 (as patterns; the true result may be 2^BITS away)
            let a = sint(r, n);
            let t = match r.below(6) {
                0 => pmax(n),
                1 => pmin(n),
                2 => psub(&pmin(n), &one),
                3 => padd(&pmax(n), &one),
                4 => pint(n, -1),
                _ => vec![0; n],
            };
            // add: b = t - a; sub: b = a - t
            let b = if sub { psub(&a, &t) } else { psub(&t, &a) };
            (a, b)
        }
    }
}

fn addsub<const N: usize>(cx: &mut Cx, iters: usize) {
    let bits = 64 * N as i64;
    for it in 0..iters {
        // ---------------- add
        let (av, bv) = addsub_pair(&mut cx.rng, N, false);
        let (a, b) = (si::<N>(&av), si::<N>(&bv));
        let ev = |form: &str, m: &str| Ev::new("add", form).s("m", m).i("ab", bits).i("bb", bits).i("rb", bits).n("a", &av).n("b", &bv);
        cx.call(ev("int.checked_add", "chk"), || o_opt(a.checked_add(&b).into()));
        cx.call(ev("int.overflowing_add", "ovf"), || { let (x, o) = a.overflowing_add(&b); o_int(&x).f("o", o.into()) });
        cx.call(ev("int.wrapping_add", "wrap"), || o_int(&a.wrapping_add(&b)));
        cx.call(ev("int.CheckedAdd", "chk"), || o_opt(CheckedAdd::checked_add(&a, &b).into()));
        cx.call(ev("int.WrappingAdd", "wrap"), || o_int(&WrappingAdd::wrapping_add(&a, &b)));
        if it % 2 == 0 {
            cx.call(ev("int.op_add_vv", "op"), || o_int(&(a + b)));
            cx.call(ev("int.op_add_vr", "op"), || o_int(&(a + &b)));
            cx.call(ev("int.op_add_assign_v", "op"), || { let mut t = a; t += b; o_int(&t) });
            cx.call(ev("int.op_add_assign_r", "op"), || { let mut t = a; t += &b; o_int(&t) });
        }
        if it % 3 == 0 {
            let (wa, wb_) = (Wrapping(a), Wrapping(b));
            cx.call(ev("wrapping.op_add_vv", "wrap"), || o_int(&(wa + wb_).0));
            cx.call(ev("wrapping.op_add_vr", "wrap"), || o_int(&(wa + &wb_).0));
            cx.call(ev("wrapping.op_add_rv", "wrap"), || o_int(&(&wa + wb_).0));
            cx.call(ev("wrapping.op_add_rr", "wrap"), || o_int(&(&wa + &wb_).0));
            cx.call(ev("wrapping.op_add_assign_v", "wrap"), || { let mut t = wa; t += wb_; o_int(&t.0) });
            cx.call(ev("wrapping.op_add_assign_r", "wrap"), || { let mut t = wa; t += &wb_; o_int(&t.0) });
            let (ca, cb_) = (Checked::new(a), Checked::new(b));
            cx.call(ev("checked.op_add_vv", "chk"), || o_chk(ca + cb_));
            cx.call(ev("checked.op_add_vr", "chk"), || o_chk(ca + &cb_));
            cx.call(ev("checked.op_add_rv", "chk"), || o_chk(&ca + cb_));
            cx.call(ev("checked.op_add_rr", "chk"), || o_chk(&ca + &cb_));
            cx.call(ev("checked.op_add_assign_v", "chk"), || { let mut t = ca; t += cb_; o_chk(t) });
            cx.call(ev("checked.op_add_assign_r", "chk"), || { let mut t = ca; t += &cb_; o_chk(t) });
        }
        if it % 10 == 0 {
            // a none operand stays none
            cx.call(ev("checked.op_add_none_lhs", "chk").i("an", 1), || o_chk(none_chk(a) + Checked::new(b)));
            cx.call(ev("checked.op_add_none_lhs_rv", "chk").i("an", 1), || o_chk(&none_chk(a) + Checked::new(b)));
            cx.call(ev("checked.op_add_none_lhs_vr", "chk").i("an", 1), || o_chk(none_chk(a) + &Checked::new(b)));
            cx.call(ev("checked.op_add_none_lhs_rr", "chk").i("an", 1), || o_chk(&none_chk(a) + &Checked::new(b)));
            cx.call(ev("checked.op_add_none_lhs_assign_r", "chk").i("an", 1), || { let mut t = none_chk(a); t += &Checked::new(b); o_chk(t) });
            cx.call(ev("checked.op_add_none_rhs", "chk").i("bn", 1), || o_chk(Checked::new(a) + none_chk(b)));
            cx.call(ev("checked.op_add_none_rhs_rv", "chk").i("bn", 1), || o_chk(&Checked::new(a) + none_chk(b)));
            cx.call(ev("checked.op_add_none_rhs_vr", "chk").i("bn", 1), || o_chk(Checked::new(a) + &none_chk(b)));
            cx.call(ev("checked.op_add_none_rhs_rr", "chk").i("bn", 1), || o_chk(&Checked::new(a) + &none_chk(b)));
            cx.call(ev("checked.op_add_none_rhs_assign_r", "chk").i("bn", 1), || { let mut t = Checked::new(a); t += &none_chk(b); o_chk(t) });
            cx.call(ev("checked.op_add_none_rhs_assign_v", "chk").i("bn", 1), || { let mut t = Checked::new(a); t += none_chk(b); o_chk(t) });
        }
        // ---------------- sub
        let (av, bv) = addsub_pair(&mut cx.rng, N, true);
        let (a, b) = (si::<N>(&av), si::<N>(&bv));
        let ev = |form: &str, m: &str| Ev::new("sub", form).s("m", m).i("ab", bits).i("bb", bits).i("rb", bits).n("a", &av).n("b", &bv);
        cx.call(ev("int.CheckedSub", "chk"), || o_opt(CheckedSub::checked_sub(&a, &b).into()));
        cx.call(ev("int.WrappingSub", "wrap"), || o_int(&WrappingSub::wrapping_sub(&a, &b)));
        if it % 2 == 0 {
            cx.call(ev("int.op_sub_vv", "op"), || o_int(&(a - b)));
            cx.call(ev("int.op_sub_vr", "op"), || o_int(&(a - &b)));
        }
        if it % 3 == 0 {
            let (wa, wb_) = (Wrapping(a), Wrapping(b));
            cx.call(ev("wrapping.op_sub_vv", "wrap"), || o_int(&(wa - wb_).0));
            cx.call(ev("wrapping.op_sub_vr", "wrap"), || o_int(&(wa - &wb_).0));
            cx.call(ev("wrapping.op_sub_rv", "wrap"), || o_int(&(&wa - wb_).0));
            cx.call(ev("wrapping.op_sub_rr", "wrap"), || o_int(&(&wa - &wb_).0));
            cx.call(ev("wrapping.op_sub_assign_v", "wrap"), || { let mut t = wa; t -= wb_; o_int(&t.0) });
            cx.call(ev("wrapping.op_sub_assign_r", "wrap"), || { let mut t = wa; t -= &wb_; o_int(&t.0) });
            let (ca, cb_) = (Checked::new(a), Checked::new(b));
            cx.call(ev("checked.op_sub_vv", "chk"), || o_chk(ca - cb_));
            cx.call(ev("checked.op_sub_vr", "chk"), || o_chk(ca - &cb_));
            cx.call(ev("checked.op_sub_rv", "chk"), || o_chk(&ca - cb_));
            cx.call(ev("checked.op_sub_rr", "chk"), || o_chk(&ca - &cb_));
            cx.call(ev("checked.op_sub_assign_v", "chk"), || { let mut t = ca; t -= cb_; o_chk(t) });
            cx.call(ev("checked.op_sub_assign_r", "chk"), || { let mut t = ca; t -= &cb_; o_chk(t) });
        }
        if it % 10 == 0 {
            cx.call(ev("checked.op_sub_none_lhs", "chk").i("an", 1), || o_chk(none_chk(a) - Checked::new(b)));
            cx.call(ev("checked.op_sub_none_lhs_rv", "chk").i("an", 1), || o_chk(&none_chk(a) - Checked::new(b)));
            cx.call(ev("checked.op_sub_none_lhs_vr", "chk").i("an", 1), || o_chk(none_chk(a) - &Checked::new(b)));
            cx.call(ev("checked.op_sub_none_lhs_rr", "chk").i("an", 1), || o_chk(&none_chk(a) - &Checked::new(b)));
            cx.call(ev("checked.op_sub_none_lhs_assign_r", "chk").i("an", 1), || { let mut t = none_chk(a); t -= &Checked::new(b); o_chk(t) });
            cx.call(ev("checked.op_sub_none_rhs", "chk").i("bn", 1), || o_chk(Checked::new(a) - none_chk(b)));
            cx.call(ev("checked.op_sub_none_rhs_rv", "chk").i("bn", 1), || o_chk(&Checked::new(a) - none_chk(b)));
            cx.call(ev("checked.op_sub_none_rhs_vr", "chk").i("bn", 1), || o_chk(Checked::new(a) - &none_chk(b)));
            cx.call(ev("checked.op_sub_none_rhs_rr", "chk").i("bn", 1), || o_chk(&Checked::new(a) - &none_chk(b)));
            cx.call(ev("checked.op_sub_none_rhs_assign_r", "chk").i("bn", 1), || { let mut t = Checked::new(a); t -= &none_chk(b); o_chk(t) });
            cx.call(ev("checked.op_sub_none_rhs_assign_v", "chk").i("bn", 1), || { let mut t = Checked::new(a); t -= none_chk(b); o_chk(t) });
        }
    }
}

// ------------------------------------------------------------------------------------------------
// neg, abs/sign, predicates, reconstruction

fn unary<const N: usize>(cx: &mut Cx, iters: usize) {
    let bits = 64 * N as i64;
    for it in 0..iters {
        let av = sint(&mut cx.rng, N);
        let a = si::<N>(&av);
        let ev = |form: &str, m: &str| Ev::new("neg", form).s("m", m).i("ab", bits).i("rb", bits).n("a", &av);
        cx.call(ev("int.overflowing_neg", "ovf"), || { let (x, o) = a.overflowing_neg(); o_int(&x).f("o", o.into()) });
        cx.call(ev("int.wrapping_neg", "wrap"), || o_int(&a.wrapping_neg()));
        cx.call(ev("int.checked_neg", "chk"), || o_opt(a.checked_neg().into()));
        let c = it % 2 == 0;
        cx.call(ev("int.wrapping_neg_if", "wrapif").f("c", c), || o_int(&a.wrapping_neg_if(cc(c))));

        let ev = |form: &str| Ev::new("abssign", form).i("ab", bits).n("a", &av);
        cx.call(ev("int.abs_sign"), || { let (m, s) = a.abs_sign(); O::ok().n("am", &w(&m)).f("as", s.into()) });
        cx.call(ev("int.abs"), || O::ok().n("am", &w(&a.abs())));
        if it % 4 == 0 {
            if let Some(nza) = Option::<vh::cb::NonZero<Int<N>>>::from(a.to_nz()) {
                cx.call(ev("nonzero_int.abs_sign"), || { let (m, s) = nza.abs_sign(); O::ok().n("am", &w(&m.get())).f("as", s.into()) });
            }
        }

        let ev = |form: &str, wh: &str| Ev::new("pred", form).s("w", wh).i("ab", bits).n("a", &av);
        cx.call(ev("int.is_negative", "neg"), || O::ok().f("v", a.is_negative().into()));
        cx.call(ev("int.is_positive", "pos"), || O::ok().f("v", a.is_positive().into()));
        cx.call(ev("int.is_min", "min"), || O::ok().f("v", a.is_min().into()));
        cx.call(ev("int.is_max", "max"), || O::ok().f("v", a.is_max().into()));

        // reconstruction from (magnitude, sign): magnitudes around 2^(BITS-1), zero with a negative sign
        let b = 64 * N;
        let mag: Vec<u64> = match cx.rng.below(10) {
            0 => ppow2(N, b - 1),
            1 => psub(&ppow2(N, b - 1), &pint(N, 1)),
            2 => padd(&ppow2(N, b - 1), &pint(N, 1)),
            3 => vec![0; N],
            4 => vec![MAX; N],
            5 => pint(N, 1),
            6 => { let x = sint(&mut cx.rng, N); if is_neg(&x) { pneg(&x) } else { x } }
            _ => nat(&mut cx.rng, N),
        };
        let sg = cx.rng.coin();
        let m = u::<N>(&mag);
        cx.call(Ev::new("fromabs", "int.new_from_abs_sign").s("m", "chk").i("ab", bits).i("rb", bits).n("mag", &mag).f("sg", sg),
                || o_opt(Int::<N>::new_from_abs_sign(m, cc(sg)).into()));
        // round trip through abs_sign of the same value (covers MIN)
        if it % 3 == 0 {
            let (m2, s2) = a.abs_sign();
            let s2b: bool = s2.into();
            cx.call(Ev::new("fromabs", "int.new_from_abs_sign(abs_sign)").s("m", "chk").i("ab", bits).i("rb", bits).n("mag", &w(&m2)).f("sg", s2b),
                    || o_opt(Int::<N>::new_from_abs_sign(m2, s2).into()));
        }
    }
}

// ------------------------------------------------------------------------------------------------
// mul

/// (a pattern of na limbs, b pattern of nb limbs); b is a natural when `bu`
fn mul_pair(r: &mut Rng, na: usize, nb: usize, bu: bool) -> (Vec<u64>, Vec<u64>) {
    let rl = if r.chance(3, 4) { na } else { nb }; // the result width whose boundary is targeted
    let rbits = 64 * rl;
    let mk_b = |mag: &[u64], neg: bool| -> Option<Vec<u64>> {
        if bu { if fits(mag, nb) { Some(fit(mag.to_vec(), nb)) } else { None } } else { smk(mag, neg, nb) }
    };
    let rnd_b = |r: &mut Rng| if bu { nat(r, nb) } else { sint(r, nb) };
    let (am, bm): (Vec<u64>, Vec<u64>) = match r.below(100) {
        0..=19 => return (sint(r, na), rnd_b(r)),
        20..=29 => {
            // one trivial operand
            let t = |r: &mut Rng, n: usize| match r.below(5) { 0 => vec![0; n], 1 => pint(n, 1), 2 => pint(n, -1), 3 => pmin(n), _ => pmax(n) };
            if r.coin() { return (t(r, na), rnd_b(r)); }
            let b = if bu { match r.below(4) { 0 => vec![0; nb], 1 => pint(nb, 1), 2 => vec![MAX; nb], _ => ppow2(nb, 64 * nb - 1) } } else { t(r, nb) };
            return (sint(r, na), b);
        }
        30..=49 => {
            // |a| = 2^k, |b| = 2^(rbits-1-k) + {-1, 0, 1}: products exactly at and next to +-2^(rbits-1)
            let k = r.below(rbits);
            let bm = vpow2(rbits - 1 - k);
            let bm = match r.below(4) { 0 => vadd(&bm, &[1]), 1 => vsub(&bm, &[1]), _ => bm };
            (vpow2(k), bm)
        }
        50..=74 => {
            // |a| structured, |b| = floor(2^(rbits-1) / |a|) + {-1, 0, 1}
            let k = r.range(1, na.min(rl));
            let mut am = nat_nonzero(r, k);
            if k == na { am[k - 1] &= TOP - 1; }
            if is_zero(&am) { am[0] = 3; }
            let t = if r.coin() { vpow2(rbits - 1) } else { vsub(&vpow2(rbits - 1), &[1]) };
            let q = vdiv(&t, &am);
            let bm = match r.below(4) { 0 => vadd(&q, &[1]), 1 => if is_zero(&q) { q } else { vsub(&q, &[1]) }, _ => q };
            (am, bm)
        }
        _ => {
            // short operands whose product fits
            let ka = r.range(1, rl.min(na));
            let kb = (rl + 1 - ka).min(nb).max(1);
            let kb = r.range(1, kb);
            (nat(r, ka), nat(r, kb))
        }
    };
    let (sa, sb) = (r.coin(), r.coin());
    let a = smk(&am, sa, na).or_else(|| smk(&am, true, na));
    let b = mk_b(&bm, sb).or_else(|| mk_b(&bm, true));
    match (a, b) {
        (Some(a), Some(b)) => (a, b),
        (Some(a), None) => (a, rnd_b(r)),
        (None, Some(b)) => (sint(r, na), b),
        _ => (sint(r, na), rnd_b(r)),
    }
}

fn mul_ev(form: &str, m: &str, na: usize, nb: usize, rl: usize, bu: bool, a: &[u64], b: &[u64]) -> Ev {
    Ev::new("mul", form).s("m", m).i("ab", 64 * na as i64).i("bb", 64 * nb as i64).i("rb", 64 * rl as i64).f("bu", bu).n("a", a).n("b", b)
}

/// everything except the widening forms (which need a concrete output width)
fn mul<const A: usize, const B: usize>(cx: &mut Cx, iters: usize) {
    for it in 0..iters {
        // ---- Int x Int
        let (av, bv) = mul_pair(&mut cx.rng, A, B, false);
        let (a, b) = (si::<A>(&av), si::<B>(&bv));
        let ev = |form: &str, m: &str| mul_ev(form, m, A, B, A, false, &av, &bv);
        cx.call(ev("int.split_mul", "split").i("lb", 64 * A as i64).i("hb", 64 * B as i64), || { let (lo, hi, n) = a.split_mul(&b); O::ok().n("lo", &w(&lo)).n("hi", &w(&hi)).f("neg", n.into()) });
        cx.call(ev("int.CheckedMul", "chk"), || o_opt(CheckedMul::checked_mul(&a, &b).into()));
        if it % 2 == 0 {
            cx.call(ev("int.op_mul_vv", "op"), || o_int(&(a * b)));
            cx.call(ev("int.op_mul_vr", "op"), || o_int(&(a * &b)));
            cx.call(ev("int.op_mul_rv", "op"), || o_int(&(&a * b)));
            cx.call(ev("int.op_mul_rr", "op"), || o_int(&(&a * &b)));
        }
        // ---- Int x Uint
        let (av, bv) = mul_pair(&mut cx.rng, A, B, true);
        let (a, b) = (si::<A>(&av), u::<B>(&bv));
        let ev = |form: &str, m: &str| mul_ev(form, m, A, B, A, true, &av, &bv);
        cx.call(ev("int.split_mul_uint", "split").i("lb", 64 * A as i64).i("hb", 64 * B as i64), || { let (lo, hi, n) = a.split_mul_uint(&b); O::ok().n("lo", &w(&lo)).n("hi", &w(&hi)).f("neg", n.into()) });
        cx.call(ev("int.split_mul_uint_right", "split").i("lb", 64 * B as i64).i("hb", 64 * A as i64), || { let (lo, hi, n) = a.split_mul_uint_right(&b); O::ok().n("lo", &w(&lo)).n("hi", &w(&hi)).f("neg", n.into()) });
        cx.call(ev("int.CheckedMul<Uint>", "chk"), || o_opt(CheckedMul::checked_mul(&a, &b).into()));
        cx.call(mul_ev("int.checked_mul_uint_right", "chk", A, B, B, true, &av, &bv), || o_opt(a.checked_mul_uint_right(&b).into()));
        if it % 2 == 0 {
            cx.call(ev("int.op_mul_uint_vv", "op"), || o_int(&(a * b)));
            cx.call(ev("int.op_mul_uint_vr", "op"), || o_int(&(a * &b)));
            cx.call(ev("int.op_mul_uint_rv", "op"), || o_int(&(&a * b)));
            cx.call(ev("int.op_mul_uint_rr", "op"), || o_int(&(&a * &b)));
        }
    }
}

/// Checked<Int> multiplication (equal widths only)
fn mul_checked<const N: usize>(cx: &mut Cx, iters: usize) {
    for it in 0..iters {
        let (av, bv) = mul_pair(&mut cx.rng, N, N, false);
        let (a, b) = (si::<N>(&av), si::<N>(&bv));
        let ev = |form: &str, m: &str| mul_ev(form, m, N, N, N, false, &av, &bv);
        let (ca, cb_) = (Checked::new(a), Checked::new(b));
        cx.call(ev("checked.op_mul_vv", "chk"), || o_chk(ca * cb_));
        cx.call(ev("checked.op_mul_vr", "chk"), || o_chk(ca * &cb_));
        cx.call(ev("checked.op_mul_rv", "chk"), || o_chk(&ca * cb_));
        cx.call(ev("checked.op_mul_rr", "chk"), || o_chk(&ca * &cb_));
        cx.call(ev("checked.op_mul_assign_v", "chk"), || { let mut t = ca; t *= cb_; o_chk(t) });
        cx.call(ev("checked.op_mul_assign_r", "chk"), || { let mut t = ca; t *= &cb_; o_chk(t) });
        if it % 8 == 0 {
            cx.call(ev("checked.op_mul_none_lhs", "chk").i("an", 1), || o_chk(none_chk(a) * Checked::new(b)));
            cx.call(ev("checked.op_mul_none_lhs_rv", "chk").i("an", 1), || o_chk(&none_chk(a) * Checked::new(b)));
            cx.call(ev("checked.op_mul_none_lhs_vr", "chk").i("an", 1), || o_chk(none_chk(a) * &Checked::new(b)));
            cx.call(ev("checked.op_mul_none_lhs_rr", "chk").i("an", 1), || o_chk(&none_chk(a) * &Checked::new(b)));
            cx.call(ev("checked.op_mul_none_lhs_assign_r", "chk").i("an", 1), || { let mut t = none_chk(a); t *= &Checked::new(b); o_chk(t) });
            cx.call(ev("checked.op_mul_none_rhs", "chk").i("bn", 1), || o_chk(Checked::new(a) * none_chk(b)));
            cx.call(ev("checked.op_mul_none_rhs_rv", "chk").i("bn", 1), || o_chk(&Checked::new(a) * none_chk(b)));
            cx.call(ev("checked.op_mul_none_rhs_vr", "chk").i("bn", 1), || o_chk(Checked::new(a) * &none_chk(b)));
            cx.call(ev("checked.op_mul_none_rhs_rr", "chk").i("bn", 1), || o_chk(&Checked::new(a) * &none_chk(b)));
            cx.call(ev("checked.op_mul_none_rhs_assign_r", "chk").i("bn", 1), || { let mut t = Checked::new(a); t *= &none_chk(b); o_chk(t) });
            cx.call(ev("checked.op_mul_none_rhs_assign_v", "chk").i("bn", 1), || { let mut t = Checked::new(a); t *= none_chk(b); o_chk(t) });
        }
    }
}

macro_rules! widening {
    ($cx:expr, $A:literal, $B:literal, $W:literal, $iters:expr) => {
        for _ in 0..$iters {
            let (av, bv) = mul_pair(&mut $cx.rng, $A, $B, false);
            let (a, b) = (si::<$A>(&av), si::<$B>(&bv));
            $cx.call(mul_ev("int.widening_mul", "exact", $A, $B, $W, false, &av, &bv), || { let x: Int<$W> = a.widening_mul(&b); o_int(&x) });
            let (av, bv) = mul_pair(&mut $cx.rng, $A, $B, true);
            let (a, b) = (si::<$A>(&av), u::<$B>(&bv));
            $cx.call(mul_ev("int.widening_mul_uint", "exact", $A, $B, $W, true, &av, &bv), || { let x: Int<$W> = a.widening_mul_uint(&b); o_int(&x) });
        }
    };
}

macro_rules! widening_square {
    ($cx:expr, $A:literal, $W:literal, $iters:expr) => {
        for _ in 0..$iters {
            let av = sint(&mut $cx.rng, $A);
            let a = si::<$A>(&av);
            $cx.call(Ev::new("square", "int.widening_square").s("m", "exact").i("ab", 64 * $A).i("rb", 64 * $W).n("a", &av), || { let x: Uint<$W> = a.widening_square(); o_uint(&x) });
        }
    };
}

fn square<const N: usize>(cx: &mut Cx, iters: usize) {
    let bits = 64 * N as i64;
    for _ in 0..iters {
        let av = if cx.rng.chance(1, 3) {
            // |a| next to 2^(BITS/2), the largest magnitude whose square still fits the Uint
            let h = ppow2(N, 32 * N);
            let m = match cx.rng.below(4) { 0 => h, 1 => psub(&h, &pint(N, 1)), 2 => padd(&h, &pint(N, 1)), _ => psub(&h, &pint(N, 2)) };
            if cx.rng.coin() { pneg(&m) } else { m }
        } else {
            sint(&mut cx.rng, N)
        };
        let a = si::<N>(&av);
        let ev = |form: &str, m: &str| Ev::new("square", form).s("m", m).i("ab", bits).i("rb", bits).n("a", &av);
        cx.call(ev("int.checked_square", "chk"), || o_optu(a.checked_square().into()));
        cx.call(ev("int.wrapping_square", "wrap"), || o_uint(&a.wrapping_square()));
        cx.call(ev("int.saturating_square", "sat"), || o_uint(&a.saturating_square()));
    }
}

// ------------------------------------------------------------------------------------------------
// resize, From<primitive>

fn resize<const A: usize, const T: usize>(cx: &mut Cx, iters: usize) {
    for _ in 0..iters {
        let av = match cx.rng.below(3) {
            0 => sext(&sint(&mut cx.rng, T), A), // a value of the target width (sign-extended or truncated)
            1 => { let k = cx.rng.range(1, A.min(T)); sext(&sint(&mut cx.rng, k), A) }
            _ => sint(&mut cx.rng, A),
        };
        let a = si::<A>(&av);
        let ev = |form: &str| Ev::new("resize", form).i("ab", 64 * A as i64).i("rb", 64 * T as i64).n("a", &av);
        cx.call(ev("int.resize"), || { let x: Int<T> = a.resize(); o_int(&x) });
        cx.call(ev("int.From<&Int>"), || { let x: Int<T> = Int::<T>::from(&a); o_int(&x) });
    }
}

fn prim_value(r: &mut Rng, bits: u32) -> i128 {
    let (min, max) = if bits == 128 { (i128::MIN, i128::MAX) } else { (-(1i128 << (bits - 1)), (1i128 << (bits - 1)) - 1) };
    match r.below(12) {
        0 => min,
        1 => max,
        2 => -1,
        3 => 0,
        4 => 1,
        5 => min + 1,
        6 => max - 1,
        7 => { let k = r.below(bits as usize - 1); 1i128 << k }
        8 => { let k = r.below(bits as usize - 1); -(1i128 << k) }
        _ => {
            let x = ((r.next() as u128) << 64 | r.next() as u128) as i128;
            if bits == 128 { x } else { let sh = 128 - bits; (x << sh) >> sh }
        }
    }
}

fn fromprim<const N: usize>(cx: &mut Cx, iters: usize) {
    let rb = 64 * N as i64;
    for _ in 0..iters {
        macro_rules! one {
            ($t:ty, $bits:literal, $f:ident, $name:literal, $tname:literal) => {{
                let v = prim_value(&mut cx.rng, $bits) as $t;
                let pat = (v as i128 as u128) & (if $bits == 128 { u128::MAX } else { (1u128 << ($bits % 128)) - 1 });
                cx.call(Ev::new("fromprim", $name).i("pb", $bits).i("rb", rb).nu("v", pat), || o_int(&Int::<N>::$f(v)));
                cx.call(Ev::new("fromprim", $tname).i("pb", $bits).i("rb", rb).nu("v", pat), || o_int(&Int::<N>::from(v)));
            }};
        }
        one!(i8, 8, from_i8, "int.from_i8", "int.From<i8>");
        one!(i16, 16, from_i16, "int.from_i16", "int.From<i16>");
        one!(i32, 32, from_i32, "int.from_i32", "int.From<i32>");
        one!(i64, 64, from_i64, "int.from_i64", "int.From<i64>");
        one!(i128, 128, from_i128, "int.from_i128", "int.From<i128>");
    }
}

fn main() {
    let mut cx = Cx::from_args("C13");
    let s = cx.scale;
    if cx.want("addsub") {
        addsub::<1>(&mut cx, 120 * s);
        addsub::<2>(&mut cx, 120 * s);
        addsub::<3>(&mut cx, 90 * s);
        addsub::<4>(&mut cx, 120 * s);
        addsub::<8>(&mut cx, 60 * s);
        addsub::<16>(&mut cx, 30 * s);
    }
    if cx.want("unary") {
        unary::<1>(&mut cx, 150 * s);
        unary::<2>(&mut cx, 150 * s);
        unary::<3>(&mut cx, 100 * s);
        unary::<4>(&mut cx, 150 * s);
        unary::<8>(&mut cx, 80 * s);
        unary::<16>(&mut cx, 40 * s);
    }
    if cx.want("mul") {
        mul::<1, 1>(&mut cx, 150 * s);
        mul::<2, 2>(&mut cx, 150 * s);
        mul::<3, 3>(&mut cx, 100 * s);
        mul::<4, 4>(&mut cx, 150 * s);
        mul::<8, 8>(&mut cx, 60 * s);
        mul::<16, 16>(&mut cx, 25 * s);
        // mixed widths
        mul::<2, 1>(&mut cx, 80 * s);
        mul::<1, 2>(&mut cx, 80 * s);
        mul::<4, 2>(&mut cx, 80 * s);
        mul::<2, 4>(&mut cx, 80 * s);
        mul::<3, 1>(&mut cx, 50 * s);
        mul::<4, 3>(&mut cx, 50 * s);
        mul::<8, 4>(&mut cx, 40 * s);
        mul::<4, 8>(&mut cx, 40 * s);
        mul::<16, 1>(&mut cx, 20 * s);
        mul::<1, 16>(&mut cx, 20 * s);
        mul::<16, 8>(&mut cx, 15 * s);
        // the Karatsuba dispatch widths (16, 32, 64 limbs) as the LEFT operand with a wider / narrower right operand
        mul::<16, 17>(&mut cx, 12 * s);
        mul::<16, 32>(&mut cx, 10 * s);
        mul::<8, 16>(&mut cx, 12 * s);
        mul::<32, 16>(&mut cx, 6 * s);
        mul::<32, 33>(&mut cx, 6 * s);
        mul::<32, 32>(&mut cx, 6 * s);
        mul::<64, 65>(&mut cx, 2 * s);
    }
    if cx.want("mulchecked") {
        mul_checked::<1>(&mut cx, 80 * s);
        mul_checked::<2>(&mut cx, 80 * s);
        mul_checked::<3>(&mut cx, 50 * s);
        mul_checked::<4>(&mut cx, 80 * s);
        mul_checked::<8>(&mut cx, 40 * s);
        mul_checked::<16>(&mut cx, 15 * s);
    }
    if cx.want("widening") {
        widening!(cx, 1, 1, 2, 150 * s);
        widening!(cx, 2, 2, 4, 150 * s);
        widening!(cx, 3, 3, 6, 80 * s);
        widening!(cx, 4, 4, 8, 120 * s);
        widening!(cx, 8, 8, 16, 50 * s);
        widening!(cx, 16, 16, 32, 20 * s);
        widening!(cx, 1, 2, 3, 80 * s);
        widening!(cx, 2, 1, 3, 80 * s);
        widening!(cx, 1, 3, 4, 60 * s);
        widening!(cx, 3, 1, 4, 60 * s);
        widening!(cx, 4, 2, 6, 60 * s);
        widening!(cx, 2, 4, 6, 60 * s);
        widening!(cx, 8, 4, 12, 40 * s);
        widening!(cx, 4, 8, 12, 40 * s);
        widening!(cx, 1, 8, 9, 30 * s);
        widening!(cx, 8, 1, 9, 30 * s);
    }
    if cx.want("square") {
        square::<1>(&mut cx, 150 * s);
        square::<2>(&mut cx, 150 * s);
        square::<3>(&mut cx, 100 * s);
        square::<4>(&mut cx, 150 * s);
        square::<8>(&mut cx, 60 * s);
        square::<16>(&mut cx, 30 * s);
        widening_square!(cx, 1, 2, 150 * s);
        widening_square!(cx, 2, 4, 150 * s);
        widening_square!(cx, 3, 6, 80 * s);
        widening_square!(cx, 4, 8, 120 * s);
        widening_square!(cx, 8, 16, 50 * s);
        widening_square!(cx, 16, 32, 20 * s);
    }
    if cx.want("resize") {
        resize::<1, 1>(&mut cx, 30 * s);
        resize::<1, 2>(&mut cx, 80 * s);
        resize::<2, 1>(&mut cx, 80 * s);
        resize::<1, 4>(&mut cx, 60 * s);
        resize::<4, 1>(&mut cx, 60 * s);
        resize::<2, 3>(&mut cx, 60 * s);
        resize::<3, 2>(&mut cx, 60 * s);
        resize::<2, 4>(&mut cx, 60 * s);
        resize::<4, 2>(&mut cx, 60 * s);
        resize::<4, 4>(&mut cx, 30 * s);
        resize::<4, 8>(&mut cx, 60 * s);
        resize::<8, 4>(&mut cx, 60 * s);
        resize::<3, 8>(&mut cx, 40 * s);
        resize::<8, 3>(&mut cx, 40 * s);
        resize::<8, 16>(&mut cx, 40 * s);
        resize::<16, 8>(&mut cx, 40 * s);
        resize::<1, 16>(&mut cx, 30 * s);
        resize::<16, 1>(&mut cx, 30 * s);
        resize::<16, 3>(&mut cx, 20 * s);
    }
    if cx.want("fromprim") {
        fromprim::<1>(&mut cx, 60 * s);
        fromprim::<2>(&mut cx, 60 * s);
        fromprim::<3>(&mut cx, 40 * s);
        fromprim::<4>(&mut cx, 40 * s);
        fromprim::<8>(&mut cx, 25 * s);
        fromprim::<16>(&mut cx, 15 * s);
    }
    cx.finish();
}
