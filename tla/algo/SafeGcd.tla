------------------------------- MODULE SafeGcd -------------------------------
(***************************************************************************)
(* Scaled transcription of the Bernstein-Yang inverter of the crate        *)
(* (src/modular/safegcd.rs): divsteps in K-step jumps on J-bit unsaturated *)
(* limbs with K = J (the code: 62), the transition matrix, the fg and de   *)
(* updates modulo the modulus, the iteration bound and the final           *)
(* normalisation from (-2m, m).  Here J in {5, 6, 8} with HEAD bits of     *)
(* headroom (the code: 64) and BITS-bit operands; integers are             *)
(* mathematical and the model *asserts* that every intermediate fits the   *)
(* J*NL-bit two's-complement representation.                               *)
(* TLC explores ALL odd moduli and ALL operands below 2^BITS:              *)
(*   g reaches 0 within iterations(bits f, bits g) jumps and |f| = gcd;    *)
(*   d stays in (-2m, m);  some iff gcd = 1;  the normalised result is the *)
(*   inverse and lies in [0, m) (for m = 1 it is 1 = m: the documented     *)
(*   interval collapses — consistent with the property's "for m >= 2").    *)
(***************************************************************************)
EXTENDS Integers, TLC
CONSTANTS J, BITS, HEAD
NL   == (BITS + HEAD + J - 1) \div J            \* safegcd_nlimbs: ceil((bits + head) / J)
TOT  == J * NL
LIM  == 2 ^ (TOT - 1)
MASK == 2 ^ J - 1
RECURSIVE BitLen(_)
BitLen(v) == IF v = 0 THEN 0 ELSE 1 + BitLen(v \div 2)
RECURSIVE Tz(_)
Tz(v) == IF v % 2 = 1 THEN 0 ELSE 1 + Tz(v \div 2)          \* v # 0
RECURSIVE Gcd(_, _)
Gcd(a, b) == IF b = 0 THEN a ELSE Gcd(b, a % b)
Min(a, b) == IF a < b THEN a ELSE b
Abs(v) == IF v < 0 THEN -v ELSE v
RECURSIVE XorB(_, _, _)
XorB(x, y, i) == IF i = 0 THEN 0 ELSE (IF (x % 2) # (y % 2) THEN 1 ELSE 0) + 2 * XorB(x \div 2, y \div 2, i - 1)
Fits(v) == v >= -LIM /\ v < LIM                             \* representable in NL unsaturated limbs
Shr(v) == v \div (2 ^ J)                                    \* arithmetic shift by one limb (floor)
InvMod2J(x) == CHOOSE y \in 0..MASK : (x * y) % (MASK + 1) = 1      \* inv_mod2_62 by its specification
Iterations(fb, gb) == LET d == IF fb < gb THEN gb ELSE fb IN (49 * d + (IF d < 46 THEN 57 ELSE 80)) \div 17

(* jump: K = J basic divsteps on the lowest limbs; returns <<delta, t00, t01, t10, t11>> *)
RECURSIVE JumpLoop(_, _, _, _, _, _, _, _)
JumpLoop(steps, f, g, delta, t00, t01, t10, t11) ==
  LET zeros == IF g = 0 THEN steps ELSE Min(steps, Tz(g))
      s1 == steps - zeros
      d1 == delta + zeros
      g1 == g \div (2 ^ zeros)
      a00 == t00 * 2 ^ zeros   a01 == t01 * 2 ^ zeros
  IN IF s1 = 0 THEN <<d1, a00, a01, t10, t11>>
     ELSE
     LET swap == d1 > 0
         d2 == IF swap THEN -d1 ELSE d1
         f2 == IF swap THEN g1 ELSE f
         g2 == IF swap THEN -f ELSE g1
         b00 == IF swap THEN t10 ELSE a00    b01 == IF swap THEN t11 ELSE a01
         b10 == IF swap THEN -a00 ELSE t10   b11 == IF swap THEN -a01 ELSE t11
         mk  == 2 ^ Min(Min(s1, 1 - d2), 5)
         w   == ((g2 % 32) * XorB((f2 * 3) % 32, 28, 5)) % mk          \* -g/f mod 2^min(..,5)
     IN JumpLoop(s1, f2, g2 + w * f2, d2, b00, b01, b00 * w + b10, b01 * w + b11)
Jump(f0, g0, delta) == JumpLoop(J, f0, g0, delta, 1, 0, 0, 1)

FG(f, g, t) == <<Shr(f * t[2] + g * t[3]), Shr(f * t[4] + g * t[5])>>
DE(m, inverse, t, d, e) ==
  LET nd == IF d < 0 THEN 1 ELSE 0   ne == IF e < 0 THEN 1 ELSE 0
      md0 == t[2] * nd + t[3] * ne
      me0 == t[4] * nd + t[5] * ne
      cd == (t[2] * (d % (MASK + 1)) + t[3] * (e % (MASK + 1))) % (MASK + 1)
      ce == (t[4] * (d % (MASK + 1)) + t[5] * (e % (MASK + 1))) % (MASK + 1)
      md == md0 - ((inverse * cd + md0) % (MASK + 1))
      me == me0 - ((inverse * ce + me0) % (MASK + 1))
      xd == d * t[2] + e * t[3] + m * md
      xe == d * t[4] + e * t[5] + m * me
  IN <<Shr(xd), Shr(xe), Fits(xd) /\ Fits(xe) /\ xd % (MASK + 1) = 0 /\ xe % (MASK + 1) = 0>>

RECURSIVE Divsteps(_, _, _, _, _, _, _, _, _)
Divsteps(i, n, m, inverse, d, e, f, g, st) ==      \* st: <<delta, all intermediates fit, d in range throughout>>
  IF i >= n THEN <<d, f, g, st[2], st[3]>>
  ELSE LET t  == Jump(f % (MASK + 1), g % (MASK + 1), st[1])
           fg == FG(f, g, t)
           de == DE(m, inverse, t, d, e)
       IN Divsteps(i + 1, n, m, inverse, de[1], de[2], fg[1], fg[2],
                   <<t[1], st[2] /\ de[3] /\ Fits(f * t[2] + g * t[3]) /\ Fits(f * t[4] + g * t[5]),
                     st[3] /\ de[1] > -2 * m /\ de[1] < m /\ de[2] > -2 * m /\ de[2] < m>>)
Norm(m, v, negate) ==
  LET v1 == IF v < 0 THEN v + m ELSE v
      v2 == IF negate THEN -v1 ELSE v1
  IN IF v2 < 0 THEN v2 + m ELSE v2

Inv(a, m) ==
  LET r == Divsteps(0, Iterations(BitLen(m), BitLen(a)), m, InvMod2J(m % (MASK + 1)), 0, 1, m, a, <<1, TRUE, TRUE>>)
      anti == r[2] = -1
  IN [d |-> r[1], f |-> r[2], g |-> r[3], fits |-> r[4], drange |-> r[5],
      some |-> (r[2] = 1 \/ anti), val |-> Norm(m, r[1], anti)]

VARIABLES a, m
Init == a \in 0..2 ^ BITS - 1 /\ m \in {x \in 1..2 ^ BITS - 1 : x % 2 = 1}
Next == UNCHANGED <<a, m>>
Spec == Init /\ [][Next]_<<a, m>>

Converges == LET r == Inv(a, m) IN r.g = 0 /\ Abs(r.f) = Gcd(a, m)
NoOverflow == Inv(a, m).fits
DRange == m >= 2 => Inv(a, m).drange      \* for m = 1 the start value e = 1 is already outside (-2m, m)
SomeIffCoprime == Inv(a, m).some = (Gcd(a, m) = 1)
InverseOK == LET r == Inv(a, m) IN r.some => ((r.val * a) % m = 1 % m /\ r.val >= 0 /\ (m >= 2 => r.val < m))
=============================================================================
