----------------------------- MODULE LimbConvert -----------------------------
(***************************************************************************)
(* impl_limb_convert! (src/modular/safegcd/macros.rs 7-35): the bit         *)
(* repacking between saturated limbs (the code: 64 bits) and the            *)
(* unsaturated limbs of the Bernstein-Yang inverter (62 bits in a 64-bit    *)
(* word), in both directions, at scaled sizes: input limbs of IB bits,      *)
(* output limbs of OB bits held in a type of TB >= OB bits.                 *)
(*   while bits < total: (i, o) = (bits % IB, bits % OB);                   *)
(*       output[bits / OB] |= (input[bits / IB] >> i) as Out << o;          *)
(*       bits += min(IB - i, OB - o)                                        *)
(*   then every filled output limb is masked to OB bits.                    *)
(* The shifted chunk may carry more than OB - o bits: the excess is ORed    *)
(* into bit positions >= OB of the output word (dropped above TB) and must  *)
(* be removed by the final mask, and the same input bits are read again     *)
(* for the next output limb.  For ALL inputs: the output limbs are below    *)
(* 2^OB and denote the input value modulo 2^total, total = min(NI*IB,       *)
(* NO*OB) — the value itself whenever it fits.                              *)
(* Mut = 1: no final mask; must be refuted when OB < TB.                    *)
(***************************************************************************)
EXTENDS Integers, Sequences, TLC
CONSTANTS IB, OB, TB, NI, NO, Mut
Min(a, b) == IF a < b THEN a ELSE b
Total == Min(NI * IB, NO * OB)
RECURSIVE Or(_, _, _)
Or(a, b, n) == IF n = 0 THEN 0 ELSE ((IF a % 2 = 1 \/ b % 2 = 1 THEN 1 ELSE 0) + 2 * Or(a \div 2, b \div 2, n - 1))   \* bitwise or on n bits
RECURSIVE Loop(_, _, _)
Loop(inp, out, bits) ==
  IF bits >= Total THEN out
  ELSE LET i == bits % IB
           o == bits % OB
           chunk == ((inp[bits \div IB + 1] \div 2 ^ i) * 2 ^ o) % 2 ^ TB
           k == bits \div OB + 1
       IN Loop(inp, [out EXCEPT ![k] = Or(out[k], chunk, TB)], bits + Min(IB - i, OB - o))
Convert(inp) ==
  LET raw == Loop(inp, [k \in 1..NO |-> 0], 0)
      filled == Total \div OB + (IF Total % OB > 0 THEN 1 ELSE 0)
  IN [k \in 1..NO |-> IF k <= filled /\ Mut = 0 THEN raw[k] % 2 ^ OB ELSE raw[k]]
RECURSIVE ValB(_, _, _)
ValB(s, i, b) == IF i > Len(s) THEN 0 ELSE s[i] + 2 ^ b * ValB(s, i + 1, b)
VARIABLE inp
Init == inp \in [1..NI -> 0..(2 ^ IB - 1)]
Next == UNCHANGED inp
Spec == Init /\ [][Next]_inp
ConvertOK == LET out == Convert(inp) IN
             /\ \A k \in 1..NO : out[k] < 2 ^ OB
             /\ ValB(out, 1, OB) = ValB(inp, 1, IB) % 2 ^ Total
=============================================================================
