-------------------------------- MODULE JC05 --------------------------------
(* C05 — contract of the recorded events of this property (stub).           *)
EXTENDS BigNat

JudgeC05(e, rg) == FALSE
=============================================================================
