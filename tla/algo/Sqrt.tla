--------------------------------- MODULE Sqrt ---------------------------------
(***************************************************************************)
(* Integer square root as the crate computes it (src/uint/sqrt.rs 10-78):  *)
(*  ct: Newton from x0 = 2^ceil(bits(x)/2) for exactly LOG2_BITS + 2 rounds *)
(*      (LOG2_BITS = floor(log2 BITS)), zero-divisor masking, result        *)
(*      min(x_n, x_{n+1});                                                  *)
(*  vartime: iterate until the estimate stops decreasing.                  *)
(* TLC checks, for EVERY x < 2^BITS, that both return floor(sqrt x); the    *)
(* fixed round count rests on a cited bound (Hast) and the source wonders  *)
(* whether LOG2_BITS rounds would do (#378): FewerRoundsEnough states that  *)
(* question, TLC answers it for the explored widths (informational).       *)
(***************************************************************************)
EXTENDS Integers, TLC
CONSTANTS BITS, ROUNDS_DELTA           \* rounds = LOG2_BITS + ROUNDS_DELTA (the code: 2)
R == 2 ^ BITS
RECURSIVE BitLen(_)
BitLen(v) == IF v = 0 THEN 0 ELSE 1 + BitLen(v \div 2)
LOG2_BITS == BitLen(BITS) - 1
RECURSIVE Newton(_, _, _, _)
Newton(n, x, prev, i) ==                \* <<x_prev, x>> after i more rounds
  IF i = 0 THEN <<prev, x>>
  ELSE LET q  == n \div (IF x = 0 THEN 1 ELSE x)           \* divisor masked to 1 when x = 0
           nx == IF x = 0 THEN 0 ELSE ((x + q) % R) \div 2  \* wrapping_add, shr1
       IN Newton(n, nx, x, i - 1)
SqrtCT(n, rounds) ==
  LET x0 == 2 ^ ((BitLen(n) + 1) \div 2)
      r  == Newton(n, x0 % R, x0 % R, rounds)
  IN IF r[1] > r[2] THEN r[2] ELSE r[1]                      \* select(x_prev, x, x_prev > x) = min
RECURSIVE VLoop(_, _, _)
VLoop(n, x, fuel) ==
  IF x = 0 \/ fuel = 0 THEN x
  ELSE LET nx == ((x + n \div x) % R) \div 2
       IN IF ~(x > nx) THEN x ELSE VLoop(n, nx, fuel - 1)
SqrtVartime(n) == IF n = 0 THEN 0 ELSE VLoop(n, (2 ^ ((BitLen(n) + 1) \div 2)) % R, 4 * BITS)

VARIABLE n
Init == n \in 0..R - 1
Next == UNCHANGED n
Spec == Init /\ [][Next]_n
IsFloorSqrt(s) == s * s <= n /\ (s + 1) * (s + 1) > n
CtExact == IsFloorSqrt(SqrtCT(n, LOG2_BITS + ROUNDS_DELTA))
VartimeExact == IsFloorSqrt(SqrtVartime(n))
StartInRange == 2 ^ ((BitLen(n) + 1) \div 2) <= R            \* the overflowing_shl of the initial guess is in range (= R only for... never)
FewerRoundsEnough == IsFloorSqrt(SqrtCT(n, LOG2_BITS))
=============================================================================
