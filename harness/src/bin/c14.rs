//! C14 recorder: every signed division flavour of `Int<N>`.
//!
//! One event class, `sdiv`.  Inputs: dividend pattern `n` (`nb` bits, two's complement), divisor `d`
//! (`db` bits; a two's-complement pattern, or a natural when `du` = 1), `fl` = "trunc" | "floor",
//! `rb` = width of the returned remainder, `ru` = 1 when the remainder is returned as a `Uint`,
//! `oq` / `or` = 1 when the form yields a quotient / a remainder, and the documented behaviour classes
//!   `z`  zero divisor: "none" (forms taking a plain divisor) | "na" (NonZero divisor)
//!   `mo` quotient out of range (MIN / -1): "none" (documented) | "report" (a bare Int is returned: the only way to report is the
//!        panic of the `expect`: DivVartime, `/=`) | "panic" (Wrapping forms: the panic or the wrapped quotient; undocumented `expect` in
//!        the assigning / Wrapping / DivVartime forms) | "na" (unsigned divisor: cannot happen).
//! Outputs: `q` (nb bits), `r` (rb bits), and `qs` (is_some of the quotient) for the forms that
//! return `(ConstCtOption<q>, r)`.  `Int` has no boxed counterpart.
use vh::cb::{Checked, CheckedDiv, DivVartime, Int, NonZero, Wrapping};
use vh::*;

// ------------------------------------------------------------------------------------------------
// two's-complement patterns in n limbs (input construction only)

fn pmin(n: usize) -> Vec<u64> {
    let mut v = vec![0; n];
    v[n - 1] = TOP;
    v
}
fn pmax(n: usize) -> Vec<u64> {
    let mut v = vec![MAX; n];
    v[n - 1] = TOP - 1;
    v
}
fn pneg(a: &[u64]) -> Vec<u64> {
    let inv: Vec<u64> = a.iter().map(|x| !x).collect();
    fit(vadd(&inv, &[1]), a.len())
}
fn pint(n: usize, v: i64) -> Vec<u64> {
    let mut out = vec![if v < 0 { MAX } else { 0 }; n];
    out[0] = v as u64;
    out
}
fn is_neg(a: &[u64]) -> bool {
    a[a.len() - 1] >> 63 == 1
}
/// pattern of (-1)^neg * mag in n limbs, if representable
fn smk(mag: &[u64], neg: bool, n: usize) -> Option<Vec<u64>> {
    if !fits(mag, n) {
        return None;
    }
    let m = fit(mag.to_vec(), n);
    if !is_neg(&m) {
        Some(if neg { pneg(&m) } else { m })
    } else if neg && m == pmin(n) {
        Some(m)
    } else {
        None
    }
}
/// a signed operand of n limbs: boundary values, short magnitudes of either sign, structured patterns
fn sint(r: &mut Rng, n: usize) -> Vec<u64> {
    let b = 64 * n;
    match r.below(100) {
        0..=29 => match r.below(12) {
            0 => pmin(n),
            1 => fit(vadd(&pmin(n), &[1]), n),
            2 => pint(n, -1),
            3 => vec![0; n],
            4 => pint(n, 1),
            5 => pmax(n),
            6 => fit(vsub(&pmax(n), &[1]), n),
            7 => fit(vpow2(b / 2), n),
            8 => pneg(&fit(vpow2(b / 2), n)),
            9 => fit(vpow2(r.below(b - 1)), n),
            10 => pneg(&fit(vpow2(r.below(b - 1)), n)),
            _ => pint(n, r.pick(&[2, -2, 3, -3, 7, -8])),
        },
        30..=54 => {
            let k = r.range(1, n);
            let mut m = fit(nat(r, k), n);
            m[n - 1] &= TOP - 1;
            if r.coin() { pneg(&m) } else { m }
        }
        _ => nat(r, n),
    }
}

/// a non-zero divisor magnitude of at most `dl` limbs: structured, normalisation-relevant top limb
fn dmag(r: &mut Rng, dl: usize, signed: bool) -> Vec<u64> {
    let k = r.range(1, dl);
    let mut d = nat_nonzero(r, k);
    if r.chance(1, 2) {
        d[k - 1] = r.pick(&[TOP, TOP + 1, MAX, 1, 2, 3, TOP - 1, MAX - 1]);
        if k >= 2 && r.coin() { d[k - 2] = r.pick(&[0, MAX, 1]); }
    }
    let mut d = fit(d, dl);
    if signed && is_neg(&d) && r.chance(3, 4) {
        d[dl - 1] &= TOP - 1; // keep it below 2^(BITS-1) (otherwise only -2^(BITS-1) is representable)
        if is_zero(&d) { d[0] = 1; }
    }
    d
}

/// (dividend pattern of nl limbs, divisor of dl limbs: pattern, or natural when `du`)
fn sdiv_case(r: &mut Rng, nl: usize, dl: usize, du: bool, allow_zero: bool) -> (Vec<u64>, Vec<u64>) {
    let mk_d = |mag: &[u64], neg: bool| -> Option<Vec<u64>> {
        if is_zero(mag) { return None; }
        if du { if fits(mag, dl) { Some(fit(mag.to_vec(), dl)) } else { None } } else { smk(mag, neg, dl).or_else(|| smk(mag, true, dl)) }
    };
    let rnd_d = |r: &mut Rng| -> Vec<u64> {
        loop {
            let d = if du { nat_nonzero(r, dl) } else { sint(r, dl) };
            if !is_zero(&d) { return d; }
        }
    };
    let nbits = 64 * nl;
    let (nm, dm): (Vec<u64>, Vec<u64>) = match r.below(100) {
        0..=2 if allow_zero => return (sint(r, nl), vec![0; dl]),
        0..=7 => {
            // n = MIN against the divisors that matter
            let d = match r.below(8) {
                0 | 1 => if du { pint(dl, 1) } else { pint(dl, -1) },
                2 => pint(dl, 1),
                3 => if du { vec![MAX; dl] } else { pmin(dl) },
                4 => if du { fit(vpow2(64 * dl - 1), dl) } else { pmax(dl) },
                5 => pint(dl, 2),
                6 => if du { pint(dl, 3) } else { pint(dl, -2) },
                _ => rnd_d(r),
            };
            return (pmin(nl), d);
        }
        8..=13 => {
            // d = +-1
            let d = if du || r.coin() { pint(dl, 1) } else { pint(dl, -1) };
            return (sint(r, nl), d);
        }
        14..=18 => {
            // extreme divisors: MIN, MAX (signed); 2^(BITS-1), 2^BITS - 1 (unsigned)
            let d = if du { r.pick(&[vec![MAX; dl], fit(vpow2(64 * dl - 1), dl), fit(vadd(&vpow2(64 * dl - 1), &[1]), dl)]) } else { r.pick(&[pmin(dl), pmax(dl), fit(vadd(&pmin(dl), &[1]), dl)]) };
            let n = match r.below(4) { 0 => pmin(nl), 1 => pmax(nl), 2 => pint(nl, -1), _ => sint(r, nl) };
            return (n, d);
        }
        19..=26 => return (sint(r, nl), rnd_d(r)),
        27..=76 => {
            // constructive: |n| = q*|d| + rem with rem in {0, 1, |d|-1, structured}
            let dm = trim(dmag(r, dl.min(nl), !du));
            let ql = (nl + 1 - dm.len()).max(1);
            let qk = r.range(1, ql);
            let q = nat(r, qk);
            let rem = match r.below(6) {
                0 | 1 => vec![0],
                2 => if vcmp(&dm, &[1]).is_gt() { vec![1] } else { vec![0] },
                3 | 4 => vsub(&dm, &[1]),
                _ => below(r, &dm),
            };
            let lim = vpow2(nbits - 1);
            let mut nm = vadd(&vmul(&q, &dm), &rem);
            if vcmp(&nm, &lim).is_gt() {
                let q2 = vshr(&q, 1 + vbits(&nm).saturating_sub(nbits - 1));
                nm = vadd(&vmul(&q2, &dm), &rem);
            }
            if vcmp(&nm, &lim).is_gt() { nm = rem.clone(); }
            (nm, dm)
        }
        77..=86 => {
            // |n| < |d|, |n| = |d|, |n| = |d| +- 1
            let dm = trim(dmag(r, dl, !du));
            let nm = match r.below(4) {
                0 => dm.clone(),
                1 => vsub(&dm, &[1]),
                2 => vadd(&dm, &[1]),
                _ => below(r, &dm),
            };
            (nm, dm)
        }
        _ => {
            // powers of two
            let j = r.below(64 * dl.min(nl));
            let nm = { let x = sint(r, nl); if is_neg(&x) { pneg(&x) } else { x } };
            (nm, vpow2(j))
        }
    };
    let (sn, sd) = (r.coin(), r.coin());
    let n = smk(&nm, sn, nl).or_else(|| smk(&nm, true, nl)).unwrap_or_else(|| sint(r, nl));
    let d = mk_d(&dm, sd).unwrap_or_else(|| rnd_d(r));
    (n, d)
}

// ------------------------------------------------------------------------------------------------

#[allow(clippy::too_many_arguments)]
fn ev(form: &str, fl: &str, nl: usize, dl: usize, rl: usize, du: bool, ru: bool, oq: bool, or: bool, z: &str, mo: &str, n: &[u64], d: &[u64]) -> Ev {
    Ev::new("sdiv", form).s("fl", fl).i("nb", 64 * nl as i64).i("db", 64 * dl as i64).i("rb", 64 * rl as i64)
        .f("du", du).f("ru", ru).f("oq", oq).f("or", or).s("z", z).s("mo", mo).n("n", n).n("d", d)
}

fn o_q<const N: usize>(q: &Int<N>) -> O {
    O::ok().n("q", &wi(q))
}
fn o_r<const N: usize>(r: &Int<N>) -> O {
    O::ok().n("r", &wi(r))
}
fn o_qr<const N: usize, const R: usize>(q: &Int<N>, r: &Int<R>) -> O {
    O::ok().n("q", &wi(q)).n("r", &wi(r))
}
/// (ConstCtOption<q>, r)
fn o_oqr<const N: usize, const R: usize>(q: Option<Int<N>>, r: &Int<R>) -> O {
    match q {
        Some(q) => O::ok().f("qs", true).n("q", &wi(&q)).n("r", &wi(r)),
        None => O::ok().f("qs", false).n("r", &wi(r)),
    }
}
fn o_oq<const N: usize>(q: Option<Int<N>>) -> O {
    match q {
        Some(q) => o_q(&q),
        None => O::none(),
    }
}
fn nzi<const N: usize>(v: &[u64]) -> Option<NonZero<Int<N>>> {
    Option::from(NonZero::new(si::<N>(v)))
}

/// equal widths, signed divisor: every inherent form, trait, operator and wrapper
fn same_signed<const N: usize>(cx: &mut Cx, iters: usize) {
    for it in 0..iters {
        let (nv, dv) = sdiv_case(&mut cx.rng, N, N, false, true);
        let n = si::<N>(&nv);
        let d = si::<N>(&dv);
        let e = |form: &str, fl: &str, oq: bool, or: bool, z: &str, mo: &str| ev(form, fl, N, N, N, false, false, oq, or, z, mo, &nv, &dv);
        // forms taking the plain divisor (zero allowed)
        cx.call(e("int.checked_div", "trunc", true, false, "none", "none"), || o_oq(n.checked_div(&d).into()));
        cx.call(e("int.checked_div_vartime", "trunc", true, false, "none", "none"), || o_oq(n.checked_div_vartime(&d).into()));
        cx.call(e("int.CheckedDiv", "trunc", true, false, "none", "none"), || o_oq(CheckedDiv::checked_div(&n, &d).into()));
        cx.call(e("int.checked_div_floor", "floor", true, false, "none", "none"), || o_oq(n.checked_div_floor(&d).into()));
        cx.call(e("int.checked_div_floor_vartime", "floor", true, false, "none", "none"), || o_oq(n.checked_div_floor_vartime(&d).into()));
        if it % 4 == 0 || is_zero(&dv) {
            let (cn, cd) = (Checked::new(n), Checked::new(d));
            cx.call(e("checked.op_div_vv", "trunc", true, false, "none", "none"), || o_oq((cn / cd).into()));
            cx.call(e("checked.op_div_vr", "trunc", true, false, "none", "none"), || o_oq((cn / &cd).into()));
            cx.call(e("checked.op_div_rv", "trunc", true, false, "none", "none"), || o_oq((&cn / cd).into()));
            cx.call(e("checked.op_div_rr", "trunc", true, false, "none", "none"), || o_oq((&cn / &cd).into()));
        }
        let Some(nzd) = nzi::<N>(&dv) else { continue };
        cx.call(e("int.checked_div_rem", "trunc", true, true, "na", "none"), || { let (q, r) = n.checked_div_rem(&nzd); o_oqr(q.into(), &r) });
        cx.call(e("int.checked_div_rem_vartime", "trunc", true, true, "na", "none"), || { let (q, r) = n.checked_div_rem_vartime(&nzd); o_oqr(q.into(), &r) });
        cx.call(e("int.rem", "trunc", false, true, "na", "none"), || o_r(&n.rem(&nzd)));
        cx.call(e("int.rem_vartime", "trunc", false, true, "na", "none"), || o_r(&n.rem_vartime(&nzd)));
        cx.call(e("int.checked_div_rem_floor", "floor", true, true, "na", "none"), || { let (q, r) = n.checked_div_rem_floor(&nzd); o_oqr(q.into(), &r) });
        cx.call(e("int.checked_div_rem_floor_vartime", "floor", true, true, "na", "none"), || { let (q, r) = n.checked_div_rem_floor_vartime(&nzd); o_oqr(q.into(), &r) });
        cx.call(e("int.DivVartime", "trunc", true, false, "na", "report"), || o_q(&DivVartime::div_vartime(&n, &nzd)));
        let ovf = nv == pmin(N) && dv == pint(N, -1);
        if it % 4 == 0 || ovf {
            // operators: Int / NonZero<Int> is a CtOption; the assigning and Wrapping forms unwrap it
            cx.call(e("int.op_div_vv", "trunc", true, false, "na", "none"), || o_oq(Option::from(n / nzd)));
            cx.call(e("int.op_div_vr", "trunc", true, false, "na", "none"), || o_oq(Option::from(n / &nzd)));
            cx.call(e("int.op_div_rv", "trunc", true, false, "na", "none"), || o_oq(Option::from(&n / nzd)));
            cx.call(e("int.op_div_rr", "trunc", true, false, "na", "none"), || o_oq(Option::from(&n / &nzd)));
            cx.call(e("int.op_div_assign_v", "trunc", true, false, "na", "report"), || { let mut t = n; t /= nzd; o_q(&t) });
            cx.call(e("int.op_div_assign_r", "trunc", true, false, "na", "report"), || { let mut t = n; t /= &nzd; o_q(&t) });
            cx.call(e("int.op_rem_vv", "trunc", false, true, "na", "none"), || o_r(&(n % nzd)));
            cx.call(e("int.op_rem_vr", "trunc", false, true, "na", "none"), || o_r(&(n % &nzd)));
            cx.call(e("int.op_rem_rv", "trunc", false, true, "na", "none"), || o_r(&(&n % nzd)));
            cx.call(e("int.op_rem_rr", "trunc", false, true, "na", "none"), || o_r(&(&n % &nzd)));
            cx.call(e("int.op_rem_assign_v", "trunc", false, true, "na", "none"), || { let mut t = n; t %= nzd; o_r(&t) });
            cx.call(e("int.op_rem_assign_r", "trunc", false, true, "na", "none"), || { let mut t = n; t %= &nzd; o_r(&t) });
            let wn = Wrapping(n);
            cx.call(e("wrapping.op_div_vv", "trunc", true, false, "na", "panic"), || o_q(&(wn / nzd).0));
            cx.call(e("wrapping.op_div_vr", "trunc", true, false, "na", "panic"), || o_q(&(wn / &nzd).0));
            cx.call(e("wrapping.op_div_rv", "trunc", true, false, "na", "panic"), || o_q(&(&wn / nzd).0));
            cx.call(e("wrapping.op_div_rr", "trunc", true, false, "na", "panic"), || o_q(&(&wn / &nzd).0));
            cx.call(e("wrapping.op_div_assign_v", "trunc", true, false, "na", "panic"), || { let mut t = wn; t /= nzd; o_q(&t.0) });
            cx.call(e("wrapping.op_div_assign_r", "trunc", true, false, "na", "panic"), || { let mut t = wn; t /= &nzd; o_q(&t.0) });
            cx.call(e("wrapping.op_rem_vv", "trunc", false, true, "na", "none"), || o_r(&(wn % nzd).0));
            cx.call(e("wrapping.op_rem_vr", "trunc", false, true, "na", "none"), || o_r(&(wn % &nzd).0));
            cx.call(e("wrapping.op_rem_rv", "trunc", false, true, "na", "none"), || o_r(&(&wn % nzd).0));
            cx.call(e("wrapping.op_rem_rr", "trunc", false, true, "na", "none"), || o_r(&(&wn % &nzd).0));
            cx.call(e("wrapping.op_rem_assign_v", "trunc", false, true, "na", "none"), || { let mut t = wn; t %= nzd; o_r(&t.0) });
            cx.call(e("wrapping.op_rem_assign_r", "trunc", false, true, "na", "none"), || { let mut t = wn; t %= &nzd; o_r(&t.0) });
        }
    }
}

/// equal widths, unsigned divisor
fn same_unsigned<const N: usize>(cx: &mut Cx, iters: usize) {
    for it in 0..iters {
        let (nv, dv) = sdiv_case(&mut cx.rng, N, N, true, false);
        let n = si::<N>(&nv);
        let nzd = nz::<N>(&dv).unwrap();
        let e = |form: &str, fl: &str, ru: bool, oq: bool, or: bool| ev(form, fl, N, N, N, true, ru, oq, or, "na", "na", &nv, &dv);
        cx.call(e("int.div_rem_uint", "trunc", false, true, true), || { let (q, r) = n.div_rem_uint(&nzd); o_qr(&q, &r) });
        cx.call(e("int.div_rem_uint_vartime", "trunc", false, true, true), || { let (q, r) = n.div_rem_uint_vartime(&nzd); o_qr(&q, &r) });
        cx.call(e("int.div_uint", "trunc", false, true, false), || o_q(&n.div_uint(&nzd)));
        cx.call(e("int.div_uint_vartime", "trunc", false, true, false), || o_q(&n.div_uint_vartime(&nzd)));
        cx.call(e("int.rem_uint", "trunc", false, false, true), || o_r(&n.rem_uint(&nzd)));
        cx.call(e("int.rem_uint_vartime", "trunc", false, false, true), || o_r(&n.rem_uint_vartime(&nzd)));
        cx.call(e("int.div_rem_floor_uint", "floor", true, true, true), || { let (q, r) = n.div_rem_floor_uint(&nzd); O::ok().n("q", &wi(&q)).n("r", &w(&r)) });
        cx.call(e("int.div_rem_floor_uint_vartime", "floor", true, true, true), || { let (q, r) = n.div_rem_floor_uint_vartime(&nzd); O::ok().n("q", &wi(&q)).n("r", &w(&r)) });
        cx.call(e("int.div_floor_uint", "floor", true, true, false), || o_q(&n.div_floor_uint(&nzd)));
        cx.call(e("int.div_floor_uint_vartime", "floor", true, true, false), || o_q(&n.div_floor_uint_vartime(&nzd)));
        cx.call(e("int.normalized_rem", "floor", true, false, true), || O::ok().n("r", &w(&n.normalized_rem(&nzd))));
        cx.call(e("int.normalized_rem_vartime", "floor", true, false, true), || O::ok().n("r", &w(&n.normalized_rem_vartime(&nzd))));
        if it % 4 == 0 {
            cx.call(e("int.op_div_uint_vv", "trunc", false, true, false), || o_q(&(n / nzd)));
            cx.call(e("int.op_div_uint_vr", "trunc", false, true, false), || o_q(&(n / &nzd)));
            cx.call(e("int.op_div_uint_rv", "trunc", false, true, false), || o_q(&(&n / nzd)));
            cx.call(e("int.op_div_uint_rr", "trunc", false, true, false), || o_q(&(&n / &nzd)));
            cx.call(e("int.op_div_uint_assign_v", "trunc", false, true, false), || { let mut t = n; t /= nzd; o_q(&t) });
            cx.call(e("int.op_div_uint_assign_r", "trunc", false, true, false), || { let mut t = n; t /= &nzd; o_q(&t) });
            cx.call(e("int.op_rem_uint_vv", "trunc", false, false, true), || o_r(&(n % nzd)));
            cx.call(e("int.op_rem_uint_vr", "trunc", false, false, true), || o_r(&(n % &nzd)));
            cx.call(e("int.op_rem_uint_rv", "trunc", false, false, true), || o_r(&(&n % nzd)));
            cx.call(e("int.op_rem_uint_rr", "trunc", false, false, true), || o_r(&(&n % &nzd)));
            cx.call(e("int.op_rem_uint_assign_v", "trunc", false, false, true), || { let mut t = n; t %= nzd; o_r(&t) });
            cx.call(e("int.op_rem_uint_assign_r", "trunc", false, false, true), || { let mut t = n; t %= &nzd; o_r(&t) });
            let wn = Wrapping(n);
            cx.call(e("wrapping.op_div_uint_vv", "trunc", false, true, false), || o_q(&(wn / nzd).0));
            cx.call(e("wrapping.op_div_uint_vr", "trunc", false, true, false), || o_q(&(wn / &nzd).0));
            cx.call(e("wrapping.op_div_uint_rv", "trunc", false, true, false), || o_q(&(&wn / nzd).0));
            cx.call(e("wrapping.op_div_uint_rr", "trunc", false, true, false), || o_q(&(&wn / &nzd).0));
            cx.call(e("wrapping.op_div_uint_assign_v", "trunc", false, true, false), || { let mut t = wn; t /= nzd; o_q(&t.0) });
            cx.call(e("wrapping.op_div_uint_assign_r", "trunc", false, true, false), || { let mut t = wn; t /= &nzd; o_q(&t.0) });
            cx.call(e("wrapping.op_rem_uint_vv", "trunc", false, false, true), || o_r(&(wn % nzd).0));
            cx.call(e("wrapping.op_rem_uint_vr", "trunc", false, false, true), || o_r(&(wn % &nzd).0));
            cx.call(e("wrapping.op_rem_uint_rv", "trunc", false, false, true), || o_r(&(&wn % nzd).0));
            cx.call(e("wrapping.op_rem_uint_rr", "trunc", false, false, true), || o_r(&(&wn % &nzd).0));
            cx.call(e("wrapping.op_rem_uint_assign_v", "trunc", false, false, true), || { let mut t = wn; t %= nzd; o_r(&t.0) });
            cx.call(e("wrapping.op_rem_uint_assign_r", "trunc", false, false, true), || { let mut t = wn; t %= &nzd; o_r(&t.0) });
        }
    }
}

/// mixed widths: the vartime forms accept a divisor of any width; the remainder has the divisor's width
fn mixed<const N: usize, const R: usize>(cx: &mut Cx, iters: usize) {
    for _ in 0..iters {
        // signed divisor
        let (nv, dv) = sdiv_case(&mut cx.rng, N, R, false, true);
        let n = si::<N>(&nv);
        let d = si::<R>(&dv);
        let e = |form: &str, fl: &str, oq: bool, or: bool, z: &str| ev(form, fl, N, R, R, false, false, oq, or, z, "none", &nv, &dv);
        cx.call(e("int.checked_div_vartime_mixed", "trunc", true, false, "none"), || o_oq(n.checked_div_vartime(&d).into()));
        cx.call(e("int.checked_div_floor_vartime_mixed", "floor", true, false, "none"), || o_oq(n.checked_div_floor_vartime(&d).into()));
        if let Some(nzd) = nzi::<R>(&dv) {
            cx.call(e("int.checked_div_rem_vartime_mixed", "trunc", true, true, "na"), || { let (q, r) = n.checked_div_rem_vartime(&nzd); o_oqr(q.into(), &r) });
            cx.call(e("int.rem_vartime_mixed", "trunc", false, true, "na"), || o_r(&n.rem_vartime(&nzd)));
            cx.call(e("int.checked_div_rem_floor_vartime_mixed", "floor", true, true, "na"), || { let (q, r) = n.checked_div_rem_floor_vartime(&nzd); o_oqr(q.into(), &r) });
        }
        // unsigned divisor
        let (nv, dv) = sdiv_case(&mut cx.rng, N, R, true, false);
        let n = si::<N>(&nv);
        let nzd = nz::<R>(&dv).unwrap();
        let e = |form: &str, fl: &str, ru: bool, oq: bool, or: bool| ev(form, fl, N, R, R, true, ru, oq, or, "na", "na", &nv, &dv);
        cx.call(e("int.div_rem_uint_vartime_mixed", "trunc", false, true, true), || { let (q, r) = n.div_rem_uint_vartime(&nzd); o_qr(&q, &r) });
        cx.call(e("int.div_uint_vartime_mixed", "trunc", false, true, false), || o_q(&n.div_uint_vartime(&nzd)));
        cx.call(e("int.rem_uint_vartime_mixed", "trunc", false, false, true), || o_r(&n.rem_uint_vartime(&nzd)));
        cx.call(e("int.div_rem_floor_uint_vartime_mixed", "floor", true, true, true), || { let (q, r) = n.div_rem_floor_uint_vartime(&nzd); O::ok().n("q", &wi(&q)).n("r", &w(&r)) });
        cx.call(e("int.div_floor_uint_vartime_mixed", "floor", true, true, false), || o_q(&n.div_floor_uint_vartime(&nzd)));
        cx.call(e("int.normalized_rem_vartime_mixed", "floor", true, false, true), || O::ok().n("r", &w(&n.normalized_rem_vartime(&nzd))));
    }
}

fn main() {
    let mut cx = Cx::from_args("C14");
    let s = cx.scale;
    if cx.want("signed") {
        same_signed::<1>(&mut cx, 300 * s);
        same_signed::<2>(&mut cx, 300 * s);
        same_signed::<3>(&mut cx, 120 * s);
        same_signed::<4>(&mut cx, 300 * s);
        same_signed::<8>(&mut cx, 120 * s);
    }
    if cx.want("unsigned") {
        same_unsigned::<1>(&mut cx, 200 * s);
        same_unsigned::<2>(&mut cx, 200 * s);
        same_unsigned::<3>(&mut cx, 80 * s);
        same_unsigned::<4>(&mut cx, 200 * s);
        same_unsigned::<8>(&mut cx, 80 * s);
    }
    if cx.want("mixed") {
        mixed::<2, 1>(&mut cx, 150 * s);
        mixed::<1, 2>(&mut cx, 120 * s);
        mixed::<4, 2>(&mut cx, 150 * s);
        mixed::<2, 4>(&mut cx, 120 * s);
        mixed::<4, 1>(&mut cx, 100 * s);
        mixed::<1, 4>(&mut cx, 60 * s);
        mixed::<4, 3>(&mut cx, 80 * s);
        mixed::<3, 4>(&mut cx, 60 * s);
        mixed::<8, 4>(&mut cx, 80 * s);
        mixed::<4, 8>(&mut cx, 60 * s);
        mixed::<8, 1>(&mut cx, 50 * s);
        mixed::<8, 2>(&mut cx, 50 * s);
        mixed::<2, 8>(&mut cx, 40 * s);
    }
    cx.finish();
}
