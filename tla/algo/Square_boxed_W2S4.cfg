SPECIFICATION Spec
CONSTANTS W = 2
 Mode = "boxed"
 SIZE = 4
 BASE = 1
 MAXRED = 1
INVARIANT Exact
INVARIANT RefOK
INVARIANT CarriesSmall
CHECK_DEADLOCK FALSE
