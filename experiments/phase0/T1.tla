---- MODULE T1 ----
EXTENDS BigNat, TLC, Json, IOUtils
VARIABLE i
Rec == ndJsonDeserialize("t.ndjson")
Init == i = 1
Next == i <= Len(Rec) /\ Mul(Rec[i].a, Rec[i].b) = Rec[i].p /\ i' = i+1
Spec == Init /\ [][Next]_i
Post == IF TLCGet("stats").diameter = Len(Rec)+1 THEN TRUE ELSE Print(<<"REJECT at", TLCGet("stats").diameter>>, FALSE)
====
