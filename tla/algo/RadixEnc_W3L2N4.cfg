SPECIFICATION Spec
CONSTANTS W = 3
 LARGE = 2
 N = 4
 Radices = {2,3,4,5,6,7}
 Mut = 0
INVARIANT EncodeOK
INVARIANT PreOK
INVARIANT LargeShape
CHECK_DEADLOCK FALSE
