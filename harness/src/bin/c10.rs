//! C10 recorder: modular inversion and gcd, every form, fixed / boxed / signed / Montgomery.
//!
//! Event classes (field `op`):
//!   inv    inputs a, m (modulus >= 1), bits (width); optional `sg` = 1: a is the two's-complement
//!          pattern of an `Int`; optional `adj`: adjuster A of a `SafeGcdInverter` (result is A/a).
//!          For Montgomery forms a is the integer converted in, x the retrieved inverse.
//!          outcome ok(x) | none.
//!   inv2k  inputs a, kk (0..=bits), bits; outcome ok(x) | none.
//!   gcd    inputs a, b, bits; optional sa / sb = 1: signed patterns; outcome ok(g) (+ gp boxed precision).
use vh::cb::modular::{
    BoxedMontyForm, BoxedMontyParams, BoxedSafeGcdInverter, ConstMontyForm, ConstMontyFormInverter, ConstMontyParams,
    MontyForm, MontyParams, SafeGcdInverter,
};
use vh::cb::subtle::CtOption;
use vh::cb::{BoxedUint, Gcd, Int, InvMod, Invert, Inverter, Odd, PrecomputeInverter, Uint, impl_modulus};
use vh::cb::{U64, U128, U256, U512};
use vh::*;

// ---------------------------------------------------------------------------------------------
// inputs

fn mersenne(k: usize) -> Vec<u64> {
    trim(vsub(&vpow2(k), &[1]))
}

/// odd primes that fit in n limbs (trimmed)
fn primes(n: usize) -> Vec<Vec<u64>> {
    let mut v: Vec<Vec<u64>> = vec![
        vec![3], vec![5], vec![7], vec![11], vec![13], vec![251], vec![65537], vec![4294967291],
        vec![(1u64 << 61) - 1], vec![MAX - 58],
    ];
    if n >= 2 {
        v.push(mersenne(89));
        v.push(mersenne(107));
        v.push(mersenne(127));
    }
    if n >= 4 {
        v.push(trim(vsub(&vpow2(255), &[19])));
        // NIST P-256 field prime
        v.push(vec![0xffff_ffff_ffff_ffff, 0x0000_0000_ffff_ffff, 0, 0xffff_ffff_0000_0001]);
    }
    if n >= 9 {
        v.push(mersenne(521));
    }
    if n >= 10 {
        v.push(mersenne(607));
    }
    if n >= 20 {
        v.push(mersenne(1279));
    }
    v
}

/// a modulus with a known divisor f (f = m when nothing better is known)
struct Md {
    m: Vec<u64>,
    f: Vec<u64>,
}

/// an odd modulus >= 3 (the modulus 1 has its own small family, `m1`)
fn odd_modulus(r: &mut Rng, n: usize) -> Md {
    let md = odd_modulus_any(r, n);
    if vcmp(&md.m, &[1]).is_gt() { md } else { Md { m: fit(vec![3], n), f: vec![3] } }
}

fn odd_modulus_any(r: &mut Rng, n: usize) -> Md {
    let ps = primes(n);
    let big: Vec<&Vec<u64>> = ps.iter().filter(|p| p.len() == n || p.len() + 1 >= n).collect();
    let md = |m: Vec<u64>, f: Vec<u64>| Md { m: fit(trim(m), n), f: trim(f) };
    match r.below(16) {
        0 | 1 | 2 => { // 2^BITS - 1 = (2^32 - 1)(2^32 + 1)... : divisible by 3
            md(vec![MAX; n], vec![3]) }
        3 | 4 => { let p = r.pick(&ps); md(p.clone(), p) }
        5 => { let p = if big.is_empty() { r.pick(&ps) } else { (*r.pick(&big)).clone() }; md(p.clone(), p) }
        6 | 7 | 8 => { // product of two odd numbers
            let u = if r.coin() { r.pick(&ps) } else { let k = r.range(1, n); trim(nat_odd(r, k)) };
            let u = if u.len() > n { vec![3] } else { u };
            let room = n - u.len();
            let v = if room == 0 { vec![1] } else if r.coin() { let k = r.range(1, room); trim(nat_odd(r, k)) } else {
                let c: Vec<Vec<u64>> = ps.iter().filter(|p| p.len() <= room).cloned().collect();
                r.pick(&c)
            };
            let m = vmul(&u, &v);
            if fits(&m, n) && !is_zero(&u) { md(m, u) } else { md(vec![MAX; n], vec![3]) }
        }
        9 => { // prime power
            let p = r.pick(&[3u64, 5, 7, 251, 65537]);
            let mut m = vec![p];
            let lim = r.range(1, 64 * n);
            loop {
                let nx = trim(vmul(&m, &[p]));
                if vbits(&nx) > lim { break; }
                m = nx;
            }
            md(m, vec![p])
        }
        10 => { let k = r.range(1, n); let m = nat_odd(r, k); md(m.clone(), m) } // zero high limbs
        11 => { // 2^(BITS-1) +- 1
            if r.coin() { md(vadd(&vpow2(64 * n - 1), &[1]), vec![3]) } else { let m = vsub(&vpow2(64 * n - 1), &[1]); md(m.clone(), m) } }
        _ => { let m = nat_odd(r, n); md(m.clone(), m) }
    }
}

/// s * 2^k, s odd with at most 64 n - k bits (k < 64 n)
fn even_modulus(r: &mut Rng, n: usize, k: usize) -> Md {
    let bits = 64 * n;
    let sb = bits - k;
    let mut o = odd_modulus(r, n);
    if r.chance(1, 5) && k > 0 {
        o = Md { m: fit(vec![1], n), f: vec![1] }; // m = 2^k
    }
    let (s, f) = if vbits(&o.m) <= sb { (trim(o.m), o.f) } else {
        let mut s = vmask(&o.m, sb);
        s[0] |= 1;
        (trim(s.clone()), trim(s))
    };
    let m = fit(trim(vshl(&s, k)), n);
    let f = if vcmp(&f, &[1]).is_gt() { f } else if k > 0 { vec![2] } else { vec![1] };
    Md { m, f }
}

fn any_modulus(r: &mut Rng, n: usize) -> Md {
    if r.chance(3, 5) { odd_modulus(r, n) } else { let k = r.below(64 * n); even_modulus(r, n, k) }
}

/// the k of the moduli s * 2^k swept at width n: every k in 0..BITS for narrow widths; limb
/// boundaries, extremes and random picks for the wide ones
fn sweep_ks(r: &mut Rng, n: usize) -> Vec<usize> {
    let bits = 64 * n;
    if n <= 4 {
        return (0..bits).collect();
    }
    let mut v = vec![0, 1, 2, 61, 62, 63, 64, 65, 66, bits / 2 - 1, bits / 2, bits / 2 + 1, bits - 66, bits - 65, bits - 64, bits - 63, bits - 62, bits - 3, bits - 2, bits - 1];
    let step = n / 6 + 1;
    let mut i = step;
    while i < n { v.extend_from_slice(&[64 * i - 1, 64 * i, 64 * i + 1]); i += step; }
    for _ in 0..10 { v.push(r.below(bits)); }
    v.sort();
    v.dedup();
    v
}

/// the value to invert, n limbs
fn operand(r: &mut Rng, n: usize, md: &Md) -> Vec<u64> {
    let m = &md.m;
    let bits = 64 * n;
    let t = |v: Vec<u64>| -> Vec<u64> { fit(vmask(&fit(v, n + 1), bits), n) };
    match r.below(20) {
        0 => vec![0; n],
        1 => fit(vec![1], n),
        2 => fit(vsub(m, &[1]), n),
        3 => m.clone(),                                        // a = m
        4 => { let v = vadd(m, &[1]); if fits(&v, n) { fit(v, n) } else { vec![MAX; n] } } // m + 1
        5 => vec![MAX; n],                                     // a >= m
        6 | 7 | 8 => { // a multiple of the known divisor
            let room = n.saturating_sub(md.f.len());
            let tl = if room == 0 { vec![r.pick(&[1u64, 2, 3])] } else { let k = r.range(1, room); nat_nonzero(r, k) };
            let v = vmul(&md.f, &tl);
            if fits(&v, n) { fit(v, n) } else { fit(md.f.clone(), n) }
        }
        9 | 10 => { // odd * 2^j: shares at most the factor 2 with m
            let j = r.range(1, bits - 1);
            let k = r.range(1, n);
            t(vshl(&nat_odd(r, k), j))
        }
        11 => { // many trailing zeros
            let j = bits - 1 - r.below(64.min(bits - 1));
            let x = [r.next() | 1];
            t(vshl(&x, j))
        }
        12 => if vcmp(m, &[2]).is_gt() { fit(vsub(m, &[2]), n) } else { vec![0; n] },
        13 => fit(vec![2], n),
        14 => { let mut v = nat(r, n); v[0] |= 1; v }
        15 => fit(vshr(m, 1), n),
        16 => below(r, m),
        _ => nat(r, n),
    }
}

fn neg_pattern(v: &[u64]) -> Vec<u64> {
    // two's complement negation within v.len() limbs
    let n = v.len();
    let inv: Vec<u64> = v.iter().map(|x| !x).collect();
    fit(vmask(&vadd(&inv, &[1]), 64 * n), n)
}

/// pairs for gcd, n limbs each
fn gcd_pair(r: &mut Rng, n: usize) -> (Vec<u64>, Vec<u64>) {
    let bits = 64 * n;
    let t = |v: Vec<u64>| -> Vec<u64> { fit(vmask(&fit(v, 2 * n + 2), bits), n) };
    let ps = primes(n);
    match r.below(20) {
        0 => (vec![0; n], vec![0; n]),
        1 => (vec![0; n], nat(r, n)),
        2 => (nat(r, n), vec![0; n]),
        3 => { let x = nat(r, n); (x.clone(), x) }
        4 => (fit(vec![1], n), nat(r, n)),
        5 => (t(vpow2(r.below(bits))), t(vpow2(r.below(bits)))),
        6 => (t(vpow2(r.below(bits))), nat(r, n)),
        7 | 8 | 9 | 10 => { // common factor u
            let ul = r.range(1, n);
            let u = if r.coin() { trim(nat_nonzero(r, ul)) } else { let c: Vec<Vec<u64>> = ps.iter().filter(|p| p.len() <= ul).cloned().collect(); r.pick(&c) };
            let room = n - u.len();
            let mk = |r: &mut Rng| -> Vec<u64> {
                let tl = if room == 0 { vec![r.pick(&[1u64, 2, 3, 5])] } else { let k = r.range(1, room); nat_nonzero(r, k) };
                let v = vmul(&u, &tl);
                if fits(&v, n) { fit(v, n) } else { fit(u.clone(), n) }
            };
            (mk(r), mk(r))
        }
        11 | 12 => { // common power of two
            let i = r.below(bits);
            let j = r.below(bits);
            let (k1, k2) = (r.range(1, n), r.range(1, n));
            (t(vshl(&nat_odd(r, k1), i)), t(vshl(&nat_odd(r, k2), j)))
        }
        13 => { let x = nat_nonzero(r, n); let y = vadd(&x, &[1]); (x.clone(), if fits(&y, n) { fit(y, n) } else { x }) }
        14 => (vec![MAX; n], vec![MAX; n]),
        15 => { let p = r.pick(&ps); let q = r.pick(&ps); (fit(p, n), fit(q, n)) }
        16 => { let mut x = nat(r, n); x[0] |= 1; (x, t(vpow2(r.below(bits)))) }
        17 => (nat_odd(r, n), nat(r, n)),
        _ => (nat(r, n), nat(r, n)),
    }
}

// ---------------------------------------------------------------------------------------------
// outcomes

fn out<const N: usize>(x: Option<Uint<N>>) -> O {
    match x { Some(v) => O::ok().n("x", &w(&v)), None => O::none() }
}
fn outb(x: Option<BoxedUint>) -> O {
    match x { Some(v) => O::ok().n("x", &wb(&v)).i("xp", v.bits_precision() as i64), None => O::none() }
}
fn ev_inv(form: &str, n: usize, a: &[u64], m: &[u64]) -> Ev {
    Ev::new("inv", form).i("bits", 64 * n as i64).n("a", a).n("m", m)
}
fn ev_gcd(form: &str, n: usize, a: &[u64], b: &[u64]) -> Ev {
    Ev::new("gcd", form).i("bits", 64 * n as i64).n("a", a).n("b", b)
}
fn ev_2k(form: &str, n: usize, a: &[u64], k: usize) -> Ev {
    Ev::new("inv2k", form).i("bits", 64 * n as i64).n("a", a).i("kk", k as i64)
}

/// k values for inv_mod2k: all of 0..=bits for narrow widths, boundaries otherwise
fn k_values(n: usize, r: &mut Rng) -> Vec<usize> {
    let bits = 64 * n;
    if n <= 4 {
        (0..=bits).collect()
    } else {
        let mut v = vec![0, 1, 2, 3, bits - 1, bits, bits - 2, bits - 63, bits - 64, bits - 65];
        for i in 1..n { v.extend_from_slice(&[64 * i - 1, 64 * i, 64 * i + 1]); }
        for _ in 0..12 { v.push(r.below(bits + 1)); }
        v.sort();
        v.dedup();
        v
    }
}

fn inv2k_operand(r: &mut Rng, n: usize, it: usize) -> Vec<u64> {
    match it % 8 {
        0 => { let mut v = nat(r, n); v[0] &= !1; v }       // even: not invertible for k > 0
        1 => fit(vec![1], n),
        2 => vec![MAX; n],
        3 => { let mut v = vec![0; n]; v[0] = 1; v[n - 1] |= TOP; v }
        4 => vec![0; n],
        _ => nat_odd(r, n),
    }
}

// ---------------------------------------------------------------------------------------------
// fixed widths (concrete types: MontyParams::precompute_inverter needs a crate-private bound)

macro_rules! fixed_width {
    ($modname:ident, $N:literal, $U:literal) => {
        mod $modname {
            use super::*;
            const N: usize = $N;
            type Sg = SafeGcdInverter<$N, $U>;

            fn odd_forms(cx: &mut Cx, it: usize, a: &[u64], md: &Md) {
                let m = &md.m;
                let (ua, om) = (u::<N>(a), odd::<N>(m).unwrap());
                cx.call(ev_inv("uint.inv_odd_mod", N, a, m), || out(ua.inv_odd_mod(&om).into()));
                let inv = om.precompute_inverter();
                cx.call(ev_inv("odd.precompute_inverter.invert", N, a, m), || out(inv.invert(&ua).into()));
                cx.call(ev_inv("odd.precompute_inverter.invert_vartime", N, a, m), || out(inv.invert_vartime(&ua).into()));
                let sg = Sg::new(&om, &Uint::ONE);
                cx.call(ev_inv("safegcd.new.inv", N, a, m), || out(sg.inv(&ua).into()));
                cx.call(ev_inv("safegcd.new.inv_vartime", N, a, m), || out(sg.inv_vartime(&ua).into()));
                // adjusted inverse: x = adj / a (mod m), adj in [0, m)
                let adj = below(&mut cx.rng, m);
                let sga = Sg::new(&om, &u::<N>(&adj));
                cx.call(ev_inv("safegcd.adjusted.inv", N, a, m).n("adj", &adj), || out(sga.inv(&ua).into()));
                cx.call(ev_inv("safegcd.adjusted.Inverter.invert_vartime", N, a, m).n("adj", &adj), || out(Inverter::invert_vartime(&sga, &ua).into()));
                // signed
                let ia = si::<N>(a);
                cx.call(ev_inv("int.inv_odd_mod", N, a, m).i("sg", 1), || out(ia.inv_odd_mod(&om).into()));
                // Montgomery forms: a converted in, inverse retrieved
                let params = if it % 2 == 0 { MontyParams::<N>::new(om) } else { MontyParams::<N>::new_vartime(om) };
                let mf = MontyForm::new(&ua, params);
                if it % 3 == 0 && vcmp(m, &[3]).is_gt() {
                    for rep in [fit(vec![1], N), fit(vec![2], N), fit(vsub(m, &[1]), N), fit(vsub(m, &[2]), N)] {
                        let f = MontyForm::from_montgomery(u::<N>(&rep), params);
                        let av = w(&f.retrieve());
                        cx.call(ev_inv("monty.inv", N, &av, m), || out(Option::<MontyForm<N>>::from(f.inv()).map(|y| y.retrieve())));
                        cx.call(ev_inv("monty.inv_vartime", N, &av, m), || out(Option::<MontyForm<N>>::from(f.inv_vartime()).map(|y| y.retrieve())));
                        cx.call(ev_inv("monty.Invert.invert_vartime", N, &av, m), || out(Option::<MontyForm<N>>::from(Invert::invert_vartime(&f)).map(|y| y.retrieve())));
                    }
                }
                cx.call(ev_inv("monty.inv", N, a, m), || out(Option::<MontyForm<N>>::from(mf.inv()).map(|y| y.retrieve())));
                cx.call(ev_inv("monty.inv_vartime", N, a, m), || out(Option::<MontyForm<N>>::from(mf.inv_vartime()).map(|y| y.retrieve())));
                if it % 2 == 0 {
                    cx.call(ev_inv("monty.Invert.invert", N, a, m), || out(Option::<MontyForm<N>>::from(Invert::invert(&mf)).map(|y| y.retrieve())));
                    cx.call(ev_inv("monty.Invert.invert_vartime", N, a, m), || out(Option::<MontyForm<N>>::from(Invert::invert_vartime(&mf)).map(|y| y.retrieve())));
                    let mi = params.precompute_inverter();
                    cx.call(ev_inv("monty_params.precompute_inverter.invert", N, a, m), || out(Option::<MontyForm<N>>::from(mi.invert(&mf)).map(|y| y.retrieve())));
                    cx.call(ev_inv("monty_params.precompute_inverter.invert_vartime", N, a, m), || out(Option::<MontyForm<N>>::from(mi.invert_vartime(&mf)).map(|y| y.retrieve())));
                }
            }

            fn any_forms(cx: &mut Cx, a: &[u64], md: &Md) {
                let m = &md.m;
                let (ua, um) = (u::<N>(a), u::<N>(m));
                cx.call(ev_inv("uint.inv_mod", N, a, m), || out(ua.inv_mod(&um).into()));
                cx.call(ev_inv("uint.InvMod", N, a, m), || out(InvMod::inv_mod(&ua, &um).into()));
                let ia = si::<N>(a);
                let nzm = nz::<N>(m).unwrap();
                cx.call(ev_inv("int.InvMod", N, a, m).i("sg", 1), || out(InvMod::inv_mod(&ia, &nzm).into()));
            }

            pub fn inv(cx: &mut Cx, iters: usize) {
                for it in 0..iters {
                    let md = any_modulus(&mut cx.rng, N);
                    let mut a = operand(&mut cx.rng, N, &md);
                    // explicit negative signed operands: -a
                    if it % 7 == 3 { a = neg_pattern(&a); }
                    if it % 29 == 5 { a = fit(vpow2(64 * N - 1), N); } // Int::MIN
                    any_forms(cx, &a, &md);
                    if md.m[0] & 1 == 1 { odd_forms(cx, it, &a, &md); }
                }
            }

            /// the modulus 1: everything is invertible; the statement leaves x free, so this family is small
            pub fn m1(cx: &mut Cx, rounds: usize) {
                let md = Md { m: fit(vec![1], N), f: vec![1] };
                for rd in 0..rounds {
                    let a = match (rd + N) % 4 { 0 => vec![0; N], 1 => fit(vec![1], N), 2 => vec![MAX; N], _ => nat(&mut cx.rng, N) };
                    any_forms(cx, &a, &md);
                    if (rd + N) % 3 == 0 { odd_forms(cx, rd, &a, &md); }
                }
            }

            /// moduli s * 2^k for every k in 0..BITS (a subset for the wide types)
            pub fn sweep(cx: &mut Cx) {
                for k in sweep_ks(&mut cx.rng, N) {
                    let md = even_modulus(&mut cx.rng, N, k);
                    for v in 0..3 {
                        let a = match v {
                            0 => { let mut x = nat(&mut cx.rng, N); x[0] |= 1; x }     // odd: invertible mod 2^k
                            1 => operand(&mut cx.rng, N, &md),
                            _ => { let mut x = nat(&mut cx.rng, N); x[0] &= !1; x }    // even
                        };
                        let (ua, um) = (u::<N>(&a), u::<N>(&md.m));
                        cx.call(ev_inv("uint.inv_mod", N, &a, &md.m), || out(ua.inv_mod(&um).into()));
                        if v == 1 {
                            let ia = si::<N>(&a);
                            let nzm = nz::<N>(&md.m).unwrap();
                            cx.call(ev_inv("int.InvMod", N, &a, &md.m).i("sg", 1), || out(InvMod::inv_mod(&ia, &nzm).into()));
                        }
                    }
                }
            }

            pub fn inv2k(cx: &mut Cx, rounds: usize) {
                for rd in 0..rounds {
                    for (j, k) in k_values(N, &mut cx.rng).into_iter().enumerate() {
                        let a = inv2k_operand(&mut cx.rng, N, j + 3 * rd);
                        let ua = u::<N>(&a);
                        cx.call(ev_2k("uint.inv_mod2k", N, &a, k), || out(ua.inv_mod2k(k as u32).into()));
                        cx.call(ev_2k("uint.inv_mod2k_vartime", N, &a, k), || out(ua.inv_mod2k_vartime(k as u32).into()));
                    }
                }
            }

            /// near-worst-case pairs of the divstep iteration (table `vh::worst_divsteps::WORST`): about 2.7 divsteps per
            /// bit, against 2.07 for random operands - an iteration budget that is too small shows only here
            pub fn worst(cx: &mut Cx) {
                for (it, (bits, _, fh, gh)) in vh::worst_divsteps::WORST.iter().enumerate() {
                    if (*bits as usize).div_ceil(64) != N && !(N == 3 && *bits <= 66) { continue; }
                    let (f, g) = (fit(hexv(fh), N), fit(hexv(gh), N));
                    let md = Md { m: f.clone(), f: f.clone() };
                    any_forms(cx, &g, &md);
                    odd_forms(cx, it, &g, &md);
                    for (a, b) in [(&f, &g), (&g, &f)] {
                        let (ua, ub) = (u::<N>(a), u::<N>(b));
                        let gq = |x: Uint<N>| O::ok().n("g", &w(&x));
                        cx.call(ev_gcd("uint.gcd", N, a, b), || gq(ua.gcd(&ub)));
                        cx.call(ev_gcd("uint.Gcd.gcd", N, a, b), || gq(<Uint<N> as Gcd>::gcd(&ua, &ub)));
                        cx.call(ev_gcd("uint.Gcd.gcd_vartime", N, a, b), || gq(<Uint<N> as Gcd>::gcd_vartime(&ua, &ub)));
                        if a[0] & 1 == 1 {
                            let oa = odd::<N>(a).unwrap();
                            cx.call(ev_gcd("odd.gcd_vartime", N, a, b), || gq(oa.gcd_vartime(&ub)));
                        }
                    }
                }
            }

            pub fn gcd(cx: &mut Cx, iters: usize) {
                for it in 0..iters {
                    let (mut a, mut b) = gcd_pair(&mut cx.rng, N);
                    let (ua, ub) = (u::<N>(&a), u::<N>(&b));
                    let g = |x: Uint<N>| O::ok().n("g", &w(&x));
                    cx.call(ev_gcd("uint.gcd", N, &a, &b), || g(ua.gcd(&ub)));
                    cx.call(ev_gcd("uint.Gcd.gcd", N, &a, &b), || g(<Uint<N> as Gcd>::gcd(&ua, &ub)));
                    cx.call(ev_gcd("uint.Gcd.gcd_vartime", N, &a, &b), || g(<Uint<N> as Gcd>::gcd_vartime(&ua, &ub)));
                    if a[0] & 1 == 1 {
                        let oa = odd::<N>(&a).unwrap();
                        cx.call(ev_gcd("odd.gcd_vartime", N, &a, &b), || g(oa.gcd_vartime(&ub)));
                    }
                    // signed: the same patterns read as Int, plus explicit negations and MIN
                    match it % 6 { 1 => a = neg_pattern(&a), 2 => b = neg_pattern(&b), 3 => { a = neg_pattern(&a); b = neg_pattern(&b) } 4 if it % 5 == 0 => a = fit(vpow2(64 * N - 1), N), _ => {} }
                    let (ia, ib) = (si::<N>(&a), si::<N>(&b));
                    let (ua, ub) = (u::<N>(&a), u::<N>(&b));
                    cx.call(ev_gcd("int.Gcd.gcd", N, &a, &b).i("sa", 1).i("sb", 1), || g(<Int<N> as Gcd>::gcd(&ia, &ib)));
                    cx.call(ev_gcd("int.Gcd.gcd_vartime", N, &a, &b).i("sa", 1).i("sb", 1), || g(<Int<N> as Gcd>::gcd_vartime(&ia, &ib)));
                    if it % 2 == 0 {
                        cx.call(ev_gcd("int.Gcd_uint.gcd", N, &a, &b).i("sa", 1), || g(<Int<N> as Gcd<Uint<N>>>::gcd(&ia, &ub)));
                        cx.call(ev_gcd("int.Gcd_uint.gcd_vartime", N, &a, &b).i("sa", 1), || g(<Int<N> as Gcd<Uint<N>>>::gcd_vartime(&ia, &ub)));
                    } else {
                        cx.call(ev_gcd("uint.Gcd_int.gcd", N, &a, &b).i("sb", 1), || g(<Uint<N> as Gcd<Int<N>>>::gcd(&ua, &ib)));
                        cx.call(ev_gcd("uint.Gcd_int.gcd_vartime", N, &a, &b).i("sb", 1), || g(<Uint<N> as Gcd<Int<N>>>::gcd_vartime(&ua, &ib)));
                    }
                }
            }
        }
    };
}

fixed_width!(w1, 1, 3);
fixed_width!(w2, 2, 4);
fixed_width!(w3, 3, 5);
fixed_width!(w4, 4, 6);
fixed_width!(w6, 6, 8);
fixed_width!(w8, 8, 10);
fixed_width!(w16, 16, 18);
fixed_width!(w32, 32, 35);

// ---------------------------------------------------------------------------------------------
// ConstMontyForm: moduli fixed at compile time

impl_modulus!(K1a, U64, "0000000000000001");
impl_modulus!(K1b, U64, "00000000000000ff"); // 3 * 5 * 17
impl_modulus!(K1c, U64, "ffffffffffffffff"); // 3 * 5 * 17 * 257 * 641 * 65537 * 6700417
impl_modulus!(K1d, U64, "ffffffffffffffc5"); // prime 2^64 - 59
impl_modulus!(K2a, U128, "7fffffffffffffffffffffffffffffff"); // prime 2^127 - 1
impl_modulus!(K2b, U128, "0000000000000003fffffffffffffffd"); // 2^66 - 3
impl_modulus!(K4a, U256, "ffffffff00000001000000000000000000000000ffffffffffffffffffffffff"); // P-256 prime
impl_modulus!(K4b, U256, "ffffffffffffffffffffffffffffffffffffffffffffffffffffffffffffffff"); // 2^256 - 1, composite
impl_modulus!(K8a, U512, "ffffffffffffffffffffffffffffffffffffffffffffffffffffffffffffffffffffffffffffffffffffffffffffffffffffffffffffffffffffffffffffffff"); // 2^512 - 1, composite

macro_rules! const_inv {
    ($cx:expr, $M:ident, $N:literal, $f:expr, $iters:expr) => {
        for it in 0..$iters {
            let m = w(&<$M as ConstMontyParams<$N>>::MODULUS.get());
            let md = Md { m: m.clone(), f: vec![$f] };
            let a = operand(&mut $cx.rng, $N, &md);
            let ua = u::<$N>(&a);
            type F = ConstMontyForm<$M, $N>;
            let mf = F::new(&ua);
            $cx.call(ev_inv("const_monty.inv", $N, &a, &m), || out(Option::<F>::from(mf.inv()).map(|y| y.retrieve())));
            $cx.call(ev_inv("const_monty.inv_vartime", $N, &a, &m), || out(Option::<F>::from(mf.inv_vartime()).map(|y| y.retrieve())));
            if it % 2 == 0 {
                $cx.call(ev_inv("const_monty.Invert.invert", $N, &a, &m), || out(Option::<F>::from(Invert::invert(&mf)).map(|y| y.retrieve())));
                $cx.call(ev_inv("const_monty.Invert.invert_vartime", $N, &a, &m), || out(Option::<F>::from(Invert::invert_vartime(&mf)).map(|y| y.retrieve())));
            } else {
                let ci = ConstMontyFormInverter::<$M, $N>::new();
                $cx.call(ev_inv("const_monty_inverter.inv", $N, &a, &m), || out(Option::<F>::from(ci.inv(&mf)).map(|y| y.retrieve())));
                $cx.call(ev_inv("const_monty_inverter.inv_vartime", $N, &a, &m), || out(Option::<F>::from(ci.inv_vartime(&mf)).map(|y| y.retrieve())));
                $cx.call(ev_inv("const_monty_inverter.Inverter.invert", $N, &a, &m), || out(Option::<F>::from(Inverter::invert(&ci, &mf)).map(|y| y.retrieve())));
                $cx.call(ev_inv("const_monty_inverter.Inverter.invert_vartime", $N, &a, &m), || out(Option::<F>::from(Inverter::invert_vartime(&ci, &mf)).map(|y| y.retrieve())));
            }
        }
    };
}

// ---------------------------------------------------------------------------------------------
// boxed

fn boxed_width(cx: &mut Cx, it: usize, maxl: usize) -> usize {
    if it < maxl { 1 + it } else if cx.rng.chance(1, 5) { cx.rng.pick(&[1usize, 2, 31, 32, 33]).min(maxl) } else { cx.rng.range(1, maxl.min(12)) }
}

fn opt_b(x: CtOption<BoxedUint>) -> Option<BoxedUint> {
    Option::from(x)
}

fn boxed_inv(cx: &mut Cx, iters: usize, maxl: usize) {
    for it in 0..iters {
        let n = boxed_width(cx, it, maxl);
        let md = any_modulus(&mut cx.rng, n);
        let a = operand(&mut cx.rng, n, &md);
        boxed_forms(cx, n, &a, &md, it);
    }
}

fn boxed_forms(cx: &mut Cx, n: usize, a: &[u64], md: &Md, it: usize) {
    {
        let m = &md.m;
        let (ba, bm) = (bx(&a), bx(m));
        cx.call(ev_inv("boxed.inv_mod", n, &a, m), || outb(opt_b(ba.inv_mod(&bm))));
        cx.call(ev_inv("boxed.InvMod", n, &a, m), || outb(opt_b(InvMod::inv_mod(&ba, &bm))));
        if m[0] & 1 == 0 { return; }
        let om = oddb(m).unwrap();
        cx.call(ev_inv("boxed.inv_odd_mod", n, &a, m), || outb(opt_b(ba.inv_odd_mod(&om))));
        let inv = om.precompute_inverter();
        cx.call(ev_inv("boxed_odd.precompute_inverter.invert", n, &a, m), || outb(opt_b(inv.invert(&ba))));
        cx.call(ev_inv("boxed_odd.precompute_inverter.invert_vartime", n, &a, m), || outb(opt_b(inv.invert_vartime(&ba))));
        let adj = below(&mut cx.rng, m);
        let sga = BoxedSafeGcdInverter::new(&om, &bx(&adj));
        cx.call(ev_inv("boxed_safegcd.adjusted.invert", n, &a, m).n("adj", &adj), || outb(opt_b(sga.invert(&ba))));
        cx.call(ev_inv("boxed_safegcd.adjusted.invert_vartime", n, &a, m).n("adj", &adj), || outb(opt_b(sga.invert_vartime(&ba))));
        let params = if it % 2 == 0 { BoxedMontyParams::new(om.clone()) } else { BoxedMontyParams::new_vartime(om.clone()) };
        let mf = BoxedMontyForm::new(ba.clone(), params.clone());
        let ret = |y: CtOption<BoxedMontyForm>| -> Option<BoxedUint> { Option::<BoxedMontyForm>::from(y).map(|v| v.retrieve()) };
        // operands whose stored (Montgomery) representative is special: 1, 2, m - 1, m - 2 (the integer is then k * R^-1 mod m)
        if it % 3 == 0 && vcmp(m, &[3]).is_gt() {
            for rep in [fit(vec![1], n), fit(vec![2], n), fit(vsub(m, &[1]), n), fit(vsub(m, &[2]), n)] {
                let f = BoxedMontyForm::from_montgomery(bx(&rep), params.clone());
                let av = wb(&f.retrieve());
                cx.call(ev_inv("boxed_monty.invert", n, &av, m), || outb(ret(f.invert())));
                cx.call(ev_inv("boxed_monty.invert_vartime", n, &av, m), || outb(ret(f.invert_vartime())));
                cx.call(ev_inv("boxed_monty.Invert.invert_vartime", n, &av, m), || outb(ret(Invert::invert_vartime(&f))));
                let mi = params.precompute_inverter();
                cx.call(ev_inv("boxed_monty_params.precompute_inverter.invert_vartime", n, &av, m), || outb(ret(mi.invert_vartime(&f))));
                cx.call(ev_inv("boxed_monty_params.precompute_inverter.invert", n, &av, m), || outb(ret(mi.invert(&f))));
            }
        }
        cx.call(ev_inv("boxed_monty.invert", n, &a, m), || outb(ret(mf.invert())));
        cx.call(ev_inv("boxed_monty.invert_vartime", n, &a, m), || outb(ret(mf.invert_vartime())));
        if it % 2 == 0 {
            cx.call(ev_inv("boxed_monty.Invert.invert", n, &a, m), || outb(ret(Invert::invert(&mf))));
            cx.call(ev_inv("boxed_monty.Invert.invert_vartime", n, &a, m), || outb(ret(Invert::invert_vartime(&mf))));
            let mi = params.precompute_inverter();
            cx.call(ev_inv("boxed_monty_params.precompute_inverter.invert", n, &a, m), || outb(ret(mi.invert(&mf))));
            cx.call(ev_inv("boxed_monty_params.precompute_inverter.invert_vartime", n, &a, m), || outb(ret(mi.invert_vartime(&mf))));
        }
    }
}

/// little-endian words of a hex numeral
fn hexv(h: &str) -> Vec<u64> {
    let b = h.as_bytes();
    let mut v = Vec::new();
    let mut end = b.len();
    while end > 0 {
        let start = end.saturating_sub(16);
        v.push(u64::from_str_radix(std::str::from_utf8(&b[start..end]).unwrap(), 16).unwrap());
        end = start;
    }
    v
}

fn boxed_worst(cx: &mut Cx) {
    for (it, (bits, _, fh, gh)) in vh::worst_divsteps::WORST.iter().enumerate() {
        let n = (*bits as usize).div_ceil(64);
        let (f, g) = (fit(hexv(fh), n), fit(hexv(gh), n));
        let md = Md { m: f.clone(), f: f.clone() };
        boxed_forms(cx, n, &g, &md, it);
        for (a, b) in [(&f, &g), (&g, &f)] {
            let (ba, bb) = (bx(a), bx(b));
            let gq = |x: BoxedUint| O::ok().n("g", &wb(&x)).i("gp", x.bits_precision() as i64);
            cx.call(ev_gcd("boxed.Gcd.gcd", n, a, b), || gq(ba.gcd(&bb)));
            cx.call(ev_gcd("boxed.Gcd.gcd_vartime", n, a, b), || gq(ba.gcd_vartime(&bb)));
            if a[0] & 1 == 1 {
                let oa = oddb(a).unwrap();
                cx.call(ev_gcd("boxed_odd.Gcd.gcd", n, a, b), || gq(<Odd<BoxedUint> as Gcd<BoxedUint>>::gcd(&oa, &bb)));
            }
        }
    }
}

fn boxed_sweep(cx: &mut Cx, n: usize) {
    for k in sweep_ks(&mut cx.rng, n) {
        let md = even_modulus(&mut cx.rng, n, k);
        for v in 0..2 {
            let a = if v == 0 { let mut x = nat(&mut cx.rng, n); x[0] |= 1; x } else { operand(&mut cx.rng, n, &md) };
            let (ba, bm) = (bx(&a), bx(&md.m));
            cx.call(ev_inv("boxed.inv_mod", n, &a, &md.m), || outb(opt_b(ba.inv_mod(&bm))));
        }
    }
}

fn boxed_inv2k(cx: &mut Cx, widths: &[usize]) {
    for &n in widths {
        for (j, k) in k_values(n, &mut cx.rng).into_iter().enumerate() {
            if n > 2 && n <= 4 && j % 3 != 0 && k % 64 > 1 && k % 64 < 63 { continue; }
            let a = inv2k_operand(&mut cx.rng, n, j);
            let ba = bx(&a);
            let o = |(x, c): (BoxedUint, vh::cb::subtle::Choice)| if bool::from(c) { O::ok().n("x", &wb(&x)).i("xp", x.bits_precision() as i64) } else { O::none() };
            cx.call(ev_2k("boxed.inv_mod2k", n, &a, k), || o(ba.inv_mod2k(k as u32)));
            cx.call(ev_2k("boxed.inv_mod2k_vartime", n, &a, k), || o(ba.inv_mod2k_vartime(k as u32)));
        }
    }
}

fn boxed_gcd(cx: &mut Cx, iters: usize, maxl: usize) {
    for it in 0..iters {
        let n = boxed_width(cx, it, maxl);
        let (a, b) = gcd_pair(&mut cx.rng, n);
        let (ba, bb) = (bx(&a), bx(&b));
        let g = |x: BoxedUint| O::ok().n("g", &wb(&x)).i("gp", x.bits_precision() as i64);
        cx.call(ev_gcd("boxed.Gcd.gcd", n, &a, &b), || g(ba.gcd(&bb)));
        cx.call(ev_gcd("boxed.Gcd.gcd_vartime", n, &a, &b), || g(ba.gcd_vartime(&bb)));
        if a[0] & 1 == 1 {
            let oa = oddb(&a).unwrap();
            cx.call(ev_gcd("boxed_odd.Gcd.gcd", n, &a, &b), || g(<Odd<BoxedUint> as Gcd<BoxedUint>>::gcd(&oa, &bb)));
            cx.call(ev_gcd("boxed_odd.Gcd.gcd_vartime", n, &a, &b), || g(<Odd<BoxedUint> as Gcd<BoxedUint>>::gcd_vartime(&oa, &bb)));
        }
    }
}

// every type alias of the crate: `impl_uint_aliases!` generates `PrecomputeInverter for Odd<Uxxx>` per table entry, with
// the number of 62-bit unsaturated limbs computed from the bit count spelled in the table
macro_rules! alias_inverter {
    ($name:ident, $bits:literal, $cx:expr) => {{
        let cx: &mut Cx = $cx;
        const N: usize = $bits / 64;
        let mut m = nat(&mut cx.rng, N); m[0] |= 1; m[N - 1] |= TOP;
        let a = if N % 3 == 0 { let mut v = vec![MAX; N]; v[0] = MAX - 1; v } else { nat(&mut cx.rng, N) };
        let om: Odd<vh::cb::$name> = odd::<N>(&m).unwrap();
        let ua: vh::cb::$name = u::<N>(&a);
        let form = format!("{}.Odd.precompute_inverter.invert", stringify!($name));
        cx.call(ev_inv(&form, N, &a, &m), || { let inv = om.precompute_inverter(); out(inv.invert(&ua).into()) });
        let form = format!("{}.inv_odd_mod", stringify!($name));
        cx.call(ev_inv(&form, N, &a, &m), || out(ua.inv_odd_mod(&om).into()));
    }};
}
fn all_aliases(cx: &mut Cx) {
    vh::for_each_alias!(alias_inverter, cx);
}

fn main() {
    let mut cx = Cx::from_args("C10");
    let s = cx.scale;
    if cx.want("inv_fixed") {
        w1::inv(&mut cx, 110 * s);
        w2::inv(&mut cx, 110 * s);
        w3::inv(&mut cx, 80 * s);
        w4::inv(&mut cx, 110 * s);
        w6::inv(&mut cx, 60 * s);
        w8::inv(&mut cx, 60 * s);
        w16::inv(&mut cx, 24 * s);
        w32::inv(&mut cx, 8 * s);
    }
    if cx.want("alias") { all_aliases(&mut cx); }
    if cx.want("worst") {
        w1::worst(&mut cx); w2::worst(&mut cx); w3::worst(&mut cx); w4::worst(&mut cx); w6::worst(&mut cx); w8::worst(&mut cx);
        w16::worst(&mut cx); w32::worst(&mut cx);
        boxed_worst(&mut cx);
    }
    if cx.want("m1") {
        w1::m1(&mut cx, s);
        w2::m1(&mut cx, s);
        w3::m1(&mut cx, s);
        w4::m1(&mut cx, s);
        w6::m1(&mut cx, s);
        w8::m1(&mut cx, s);
        w16::m1(&mut cx, s);
        w32::m1(&mut cx, s);
        for n in [1usize, 2, 33] {
            let md = Md { m: fit(vec![1], n), f: vec![1] };
            let a = operand(&mut cx.rng, n, &md);
            boxed_forms(&mut cx, n, &a, &md, n);
        }
    }
    if cx.want("sweep") {
        for _ in 0..s {
            w1::sweep(&mut cx);
            w2::sweep(&mut cx);
            w3::sweep(&mut cx);
            w4::sweep(&mut cx);
            w6::sweep(&mut cx);
            w8::sweep(&mut cx);
            w16::sweep(&mut cx);
            w32::sweep(&mut cx);
        }
    }
    if cx.want("inv2k") {
        w1::inv2k(&mut cx, 2 * s);
        w2::inv2k(&mut cx, s);
        w3::inv2k(&mut cx, s);
        w4::inv2k(&mut cx, s);
        w6::inv2k(&mut cx, s);
        w8::inv2k(&mut cx, s);
        w16::inv2k(&mut cx, s);
        w32::inv2k(&mut cx, s);
    }
    if cx.want("gcd_fixed") {
        w1::gcd(&mut cx, 90 * s);
        w2::gcd(&mut cx, 90 * s);
        w3::gcd(&mut cx, 70 * s);
        w4::gcd(&mut cx, 90 * s);
        w6::gcd(&mut cx, 50 * s);
        w8::gcd(&mut cx, 50 * s);
        w16::gcd(&mut cx, 24 * s);
        w32::gcd(&mut cx, 8 * s);
    }
    if cx.want("const_monty") {
        const_inv!(cx, K1a, 1, 1, 2 * s);
        const_inv!(cx, K1b, 1, 17, 20 * s);
        const_inv!(cx, K1c, 1, 641, 20 * s);
        const_inv!(cx, K1d, 1, MAX - 58, 14 * s);
        const_inv!(cx, K2a, 2, 3, 14 * s);
        const_inv!(cx, K2b, 2, 3, 14 * s);
        const_inv!(cx, K4a, 4, 3, 14 * s);
        const_inv!(cx, K4b, 4, 65537, 20 * s);
        const_inv!(cx, K8a, 8, 257, 14 * s);
    }
    if cx.want("boxed_inv") {
        boxed_inv(&mut cx, 260 * s, 33);
    }
    if cx.want("boxed_sweep") {
        for _ in 0..s {
            boxed_sweep(&mut cx, 1);
            boxed_sweep(&mut cx, 2);
            boxed_sweep(&mut cx, 3);
            boxed_sweep(&mut cx, 5);
            boxed_sweep(&mut cx, 17);
            boxed_sweep(&mut cx, 33);
        }
    }
    if cx.want("boxed_inv2k") {
        for _ in 0..s {
            boxed_inv2k(&mut cx, &[1, 2, 3, 4, 5, 7, 12, 20, 33]);
        }
    }
    if cx.want("boxed_gcd") {
        boxed_gcd(&mut cx, 330 * s, 33);
    }
    cx.finish();
}
