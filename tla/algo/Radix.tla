-------------------------------- MODULE Radix --------------------------------
(***************************************************************************)
(* The radix string decoders of src/uint/encoding.rs 340-502 at limb size  *)
(* W (the code: 64) into a fixed target of N limbs:                        *)
(*   radix_preprocess_str: optional '+', empty -> Empty, leading/trailing  *)
(*       '_' -> InvalidDigit, strip leading '0' and '_'                    *)
(*   radix_decode_str_digits (generic radix): batches of                   *)
(*       ilog_radix(2^W - 1) digits, a shorter final batch, multiply the   *)
(*       limbs by radix^batch and add, overflow through push_limb          *)
(*   radix_decode_str_aligned_digits (radix 2, 4, 16): limbs packed from   *)
(*       the least significant end                                        *)
(* Characters are symbols: 0..15 digits, 16 = '_', 17 = '+', 18 = a        *)
(* character that is not a digit in any radix.                            *)
(* TLC explores ALL strings up to MAXLEN over that alphabet and ALL        *)
(* radices 2..16: the decoder returns the value the numeral denotes if it  *)
(* fits N limbs, InputSize if it does not, InvalidDigit / Empty for a      *)
(* non-numeral - never a wrapped or truncated value.                       *)
(***************************************************************************)
EXTENDS Integers, Sequences, TLC
CONSTANTS W, N, MAXLEN, Radices
B == 2 ^ W
US == 16   PLUS == 17   BADCH == 18
Alphabet == (0..15) \cup {US, PLUS, BADCH}
RECURSIVE ILog(_, _)
ILog(v, r) == IF v < r THEN 0 ELSE 1 + ILog(v \div r, r)               \* floor(log_r v)
RECURSIVE StripLead(_)
StripLead(d) == IF d # <<>> /\ (d[1] = 0 \/ d[1] = US) THEN StripLead(Tail(d)) ELSE d
Preprocess(src) ==                                                     \* <<tag, digits>>
  LET d == IF src # <<>> /\ src[1] = PLUS THEN Tail(src) ELSE src
  IN IF d = <<>> THEN <<"Empty", <<>>>>
     ELSE IF d[1] = US \/ d[Len(d)] = US THEN <<"InvalidDigit", <<>>>>
     ELSE <<"ok", StripLead(d)>>

(* target: <<limbs used (least significant first), ...>> as a sequence of at most N limbs *)
RECURSIVE MulAdd(_, _, _, _)
MulAdd(limbs, i, mult, carry) ==                                       \* limbs * mult + carry, in place; <<limbs, carry>>
  IF i > Len(limbs) THEN <<limbs, carry>>
  ELSE LET t == limbs[i] * mult + carry IN MulAdd([limbs EXCEPT ![i] = t % B], i + 1, mult, t \div B)
RECURSIVE Batch(_, _, _, _, _)
Batch(d, pos, radix, n, acc) ==                                        \* read up to n digits: <<tag, pos', count, value>>
  IF pos > Len(d) \/ acc[1] = n THEN <<"ok", pos, acc[1], acc[2]>>
  ELSE IF d[pos] = US THEN Batch(d, pos + 1, radix, n, acc)
  ELSE IF d[pos] >= radix THEN <<"InvalidDigit", pos, 0, 0>>           \* also PLUS and BADCH
  ELSE Batch(d, pos + 1, radix, n, <<acc[1] + 1, acc[2] * radix + d[pos]>>)
RECURSIVE Generic(_, _, _, _)
Generic(d, pos, radix, limbs) ==
  IF pos > Len(d) THEN <<"ok", limbs>>
  ELSE LET ld == ILog(B - 1, radix)
           b  == Batch(d, pos, radix, ld, <<0, 0>>)
       IN IF b[1] # "ok" THEN <<b[1], <<>>>>
          ELSE IF b[3] = 0 THEN <<"ok", limbs>>
          ELSE LET r == MulAdd(limbs, 1, radix ^ b[3], b[4])
               IN IF r[2] # 0 /\ Len(limbs) >= N THEN <<"InputSize", <<>>>>
                  ELSE Generic(d, b[2], radix, IF r[2] # 0 THEN Append(r[1], r[2]) ELSE r[1])
(* note: the code reads the batch with a trailing-underscore quirk: after the last digit of a batch it *)
(* stops, so underscores are consumed at the start of the next batch - same value *)

RECURSIVE AlignedBatch(_, _, _, _, _)
AlignedBatch(d, pos, radix, n, acc) ==                                 \* from the least significant end: pos counts down
  IF acc[1] = n \/ pos = 0 THEN <<"ok", pos, acc[1], acc[2]>>
  ELSE IF d[pos] = US THEN AlignedBatch(d, pos - 1, radix, n, acc)
  ELSE IF d[pos] >= radix THEN <<"InvalidDigit", pos, 0, 0>>
  ELSE AlignedBatch(d, pos - 1, radix, n, <<acc[1] + 1, acc[2] + d[pos] * radix ^ acc[1]>>)
RECURSIVE Aligned(_, _, _, _)
Aligned(d, pos, radix, limbs) ==
  IF pos = 0 THEN <<"ok", limbs>>
  ELSE LET shift == ILog(radix, 2)                                     \* log2 radix
           b == AlignedBatch(d, pos, radix, W \div shift, <<0, 0>>)
       IN IF b[1] # "ok" THEN <<b[1], <<>>>>
          ELSE IF b[3] = 0 THEN Aligned(d, b[2], radix, limbs)
          ELSE IF Len(limbs) >= N THEN <<"InputSize", <<>>>>
          ELSE Aligned(d, b[2], radix, Append(limbs, b[4]))

RECURSIVE ValR(_, _)
ValR(s, i) == IF i = 0 THEN 0 ELSE s[i] * B ^ (i - 1) + ValR(s, i - 1)
Decode(src, radix) ==
  LET p == Preprocess(src)
  IN IF p[1] # "ok" THEN <<p[1], 0>>
     ELSE LET r == IF radix \in {2, 4, 16} /\ W % ILog(radix, 2) = 0 THEN Aligned(p[2], Len(p[2]), radix, <<>>) ELSE Generic(p[2], 1, radix, <<>>)
          IN IF r[1] = "ok" THEN <<"ok", ValR(r[2], Len(r[2]))>> ELSE <<r[1], 0>>

(* ---- what the numeral denotes (independent definition) ------------------ *)
RECURSIVE NumVal(_, _, _, _)
NumVal(d, i, radix, acc) == IF i > Len(d) THEN acc
                            ELSE IF d[i] = US THEN NumVal(d, i + 1, radix, acc)
                            ELSE NumVal(d, i + 1, radix, acc * radix + d[i])
Body(src) == IF src # <<>> /\ src[1] = PLUS THEN Tail(src) ELSE src
WellFormed(src, radix) == LET d == Body(src) IN
  /\ d # <<>> /\ d[1] # US /\ d[Len(d)] # US
  /\ \A i \in 1..Len(d) : d[i] = US \/ d[i] < radix

VARIABLES src, radix
Strings == UNION {[1..n -> Alphabet] : n \in 0..MAXLEN}
Init == src \in Strings /\ radix \in Radices
Next == UNCHANGED <<src, radix>>
Spec == Init /\ [][Next]_<<src, radix>>
DecodeOK ==
  LET r == Decode(src, radix) IN
  IF WellFormed(src, radix)
  THEN LET v == NumVal(Body(src), 1, radix, 0) IN
       IF v < B ^ N THEN r = <<"ok", v>> ELSE r[1] = "InputSize"        \* never wrapped, never truncated
  ELSE LET d == Body(src)
           \* a run of valid digits that alone exceeds the target: the decoder may report the size error before
           \* (generic: left to right) or instead of (aligned: right to left) the invalid character - the
           \* documentation gives no precedence between the two errors
           RunOverflows == \E i \in 1..Len(d) : \E j \in i..Len(d) :
                             /\ \A k \in i..j : d[k] = US \/ d[k] < radix
                             /\ \/ NumVal(SubSeq(d, i, j), 1, radix, 0) >= B ^ N
                                \/ \* aligned radices pack digit positions, zeros included, once stripping has stopped
                                   /\ radix \in {2, 4, 16}
                                   /\ Len(SelectSeq(SubSeq(d, i, j), LAMBDA ch : ch # US)) > N * (W \div ILog(radix, 2))
       IN /\ r[1] \in {"Empty", "InvalidDigit", "InputSize"}
          /\ (d = <<>> <=> r[1] = "Empty")
          /\ (r[1] = "InputSize" => RunOverflows)
=============================================================================
