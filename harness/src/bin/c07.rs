//! C07 recorder: modular add / sub / neg / double / mul / halve return the canonical residue.
//!
//! Event classes (field `op`):
//!   addmod, submod, mulmod     inputs a, b;  negmod, doublemod, halve   input a
//! Modulus: either `p` (explicit) or `c` (special modulus p = 2^bits - c); `bits` = operand width.
//! `pre`  = the precondition the doc comment of this form states (the judge evaluates it):
//!          "ab" (a < p and b < p), "sum2p" (a + b < 2p), "diff" (-p <= a - b < p), "a" (a < p), "none".
//! `par`  (mulmod only) = documented behaviour for an even modulus: "panic" (doc: "Panics if `p` is even"),
//!          "either" (doc restricts to odd p without promising a panic, or trait doc vs inherent doc
//!          disagree), "exact" (no restriction documented).
//! Outputs: `r` the result, `rp` its precision in bits for boxed results.
use vh::cb::modular::{BoxedMontyForm, BoxedMontyParams, ConstMontyForm, ConstMontyParams, MontyForm, MontyParams};
use vh::cb::{AddMod, BoxedUint, Concat, Limb, Monty, MulMod, NegMod, Split, SubMod, Uint, impl_modulus};
use vh::cb::{U64, U128, U192, U256, U512};
use vh::*;

fn ev2(op: &str, form: &str, nl: usize, p: &[u64], a: &[u64], b: &[u64], pre: &str) -> Ev {
    Ev::new(op, form).i("bits", 64 * nl as i64).n("m", p).n("a", a).n("b", b).s("pre", pre)
}
fn ev1(op: &str, form: &str, nl: usize, p: &[u64], a: &[u64], pre: &str) -> Ev {
    Ev::new(op, form).i("bits", 64 * nl as i64).n("m", p).n("a", a).s("pre", pre)
}
fn sv2(op: &str, form: &str, nl: usize, c: u64, a: &[u64], b: &[u64], pre: &str) -> Ev {
    Ev::new(op, form).i("bits", 64 * nl as i64).n("c", &[c]).n("a", a).n("b", b).s("pre", pre)
}
fn sv1(op: &str, form: &str, nl: usize, c: u64, a: &[u64], pre: &str) -> Ev {
    Ev::new(op, form).i("bits", 64 * nl as i64).n("c", &[c]).n("a", a).s("pre", pre)
}
fn ok<const N: usize>(x: &Uint<N>) -> O {
    O::ok().n("r", &w(x))
}
fn okb(x: &BoxedUint) -> O {
    O::ok().n("r", &wb(x)).i("rp", x.bits_precision() as i64)
}

/// 2^(64 n) - c as n limbs (c >= 1)
fn special_p(n: usize, c: u64) -> Vec<u64> {
    fit(vsub(&vpow2(64 * n), &[c]), n)
}

fn special_c(r: &mut Rng) -> u64 {
    loop {
        let c = match r.below(12) {
            0 => 1,
            1 => MAX,
            2 => 2,
            3 => MAX - 1,
            4 => TOP,
            5 => TOP + 1,
            6 => TOP - 1,
            7 => 3,
            8 => r.next() % 1000,
            9 => MAX - r.next() % 1000,
            _ => limb(r),
        };
        if c != 0 {
            return c;
        }
    }
}


/// operands just below 2^BITS (top limbs MAX) and below p = 2^BITS - c: products whose high half is
/// within 2^-64 of 2^BITS, where the HAC 14.47 carry reaches its maximum
fn near_top(r: &mut Rng, n: usize, p: &[u64]) -> Vec<u64> {
    let mut v: Vec<u64> = (0..n).map(|_| if r.chance(3, 4) { MAX } else { limb(r) }).collect();
    v[n - 1] = MAX;
    if n >= 2 && r.chance(1, 2) {
        v[n - 2] = r.pick(&[MAX, MAX - 1, 0, TOP]);
    }
    if vcmp(&v, p).is_ge() {
        v[0] = 0;
    }
    if vcmp(&v, p).is_ge() { fit(vsub(p, &[1]), n) } else { v }
}

/// a modulus of n limbs, the families of the quantifier text
fn modulus(r: &mut Rng, n: usize, want_odd: bool) -> Vec<u64> {
    let mut p = match r.below(20) {
        0 => fit(vec![1], n),
        1 => fit(vec![2], n),
        2 => fit(vec![3], n),
        3 | 4 => vec![MAX; n],                                       // 2^BITS - 1
        5 => fit(vadd(&vpow2(64 * n - 1), &[1]), n),                 // 2^(BITS-1) + 1
        6 => fit(vsub(&vpow2(64 * n - 1), &[1]), n),                 // 2^(BITS-1) - 1
        7 => fit(vpow2(64 * n - 1), n),                              // 2^(BITS-1)
        8 | 9 if n > 1 => { let k = r.range(1, n - 1); fit(nat_nonzero(r, k), n) } // zero high limbs
        10 | 11 | 12 => special_p(n, special_c(r)),                  // 2^BITS - c
        13 => { let mut v = nat_nonzero(r, n); v[n - 1] = MAX; v }   // sums overflow 2^BITS
        14 => { let mut v = nat_nonzero(r, n); v[n - 1] = r.pick(&[TOP, TOP + 1, TOP - 1, 1]); v }
        15 => fit(vec![r.next() % 64 + 1], n),                       // tiny
        _ => nat_nonzero(r, n),
    };
    if want_odd {
        p[0] |= 1;
    }
    p
}

/// operands a, b in [0, p): the families of the quantifier text
fn pair(r: &mut Rng, p: &[u64]) -> (Vec<u64>, Vec<u64>) {
    let n = p.len();
    let pm1 = fit(vsub(p, &[1]), n);
    let half = fit(vshr(p, 1), n);
    let one = if vcmp(p, &[1]).is_gt() { fit(vec![1], n) } else { vec![0; n] };
    let zero = vec![0u64; n];
    let red = |v: Vec<u64>| -> Vec<u64> { if vcmp(&v, p).is_lt() { fit(v, n) } else { vec![0; n] } };
    match r.below(24) {
        0 => (zero.clone(), zero),
        1 => (zero, below(r, p)),
        2 => (below(r, p), zero),
        3 => (one, pm1),
        4 => (pm1.clone(), pm1),
        5 => (pm1, one),
        6 => (half.clone(), half),
        7 => { let h1 = red(vadd(&half, &[1])); (half, h1) }
        8 | 9 => { let a = below(r, p); (a.clone(), a) }
        10 | 11 | 12 => { // a + b = p
            let a = below(r, p);
            let b = red(vsub(p, &a));
            (a, b)
        }
        13 | 14 => { // a + b = p + 1
            let a = below(r, p);
            let b = red(trim(vadd(&fit(vsub(p, &a), n), &[1])));
            if is_zero(&a) { (a, pm1) } else { (a, b) }
        }
        15 | 16 => { // a + b = p - 1
            let a = below(r, p);
            let b = fit(vsub(&pm1, &a), n);
            (a, b)
        }
        17 => { // both just below p
            let d1 = [r.next() % 4];
            let d2 = [r.next() % 4];
            let a = if vcmp(&pm1, &d1).is_ge() { fit(vsub(&pm1, &d1), n) } else { zero.clone() };
            let b = if vcmp(&pm1, &d2).is_ge() { fit(vsub(&pm1, &d2), n) } else { zero };
            (a, b)
        }
        18 => (one.clone(), one),
        19 => { let a = below(r, p); (pm1, a) }
        _ => (below(r, p), below(r, p)),
    }
}

/// operands outside [0, p) that still satisfy the weaker documented assumption of the inherent
/// fixed-width forms (a + b < 2p, resp. -p <= a - b < p); None if the width leaves no room
fn wide_pair(r: &mut Rng, p: &[u64]) -> Option<(Vec<u64>, Vec<u64>, bool)> {
    let n = p.len();
    let room = fit(vsub(&vec![MAX; n], p), n); // 2^BITS - 1 - p
    if is_zero(&room) || vcmp(p, &[2]).is_lt() {
        return None;
    }
    let d = if vcmp(&room, &[8]).is_gt() { vec![1 + r.next() % 8] } else { vec![1] };
    if vcmp(&fit(d.clone(), n), p).is_ge() {
        return None;
    }
    if r.coin() {
        // addition: a = p + d - 1 (>= p), b = p - d  -> a + b = 2p - 1
        let a = fit(trim(vsub(&vadd(p, &d), &[1])), n);
        let b = fit(vsub(p, &d), n);
        Some((a, b, true))
    } else {
        // subtraction: a = p, b = p + d -> a - b = -d in [-p, p)
        let a = p.to_vec();
        let b = fit(trim(vadd(p, &d)), n);
        Some((a, b, false))
    }
}

fn general<const N: usize, const WIDE: usize>(cx: &mut Cx, iters: usize)
where
    Uint<N>: Concat<Output = Uint<WIDE>>,
    Uint<WIDE>: Split<Output = Uint<N>>,
{
    for it in 0..iters {
        let want_odd = cx.rng.below(3) != 0;
        let p = modulus(&mut cx.rng, N, want_odd);
        let (a, b) = pair(&mut cx.rng, &p);
        let (ua, ub, up) = (u::<N>(&a), u::<N>(&b), u::<N>(&p));
        let odd_p = p[0] & 1 == 1;
        cx.call(ev2("addmod", "uint.add_mod", N, &p, &a, &b, "sum2p"), || ok(&ua.add_mod(&ub, &up)));
        cx.call(ev2("addmod", "uint.AddMod", N, &p, &a, &b, "ab"), || ok(&AddMod::add_mod(&ua, &ub, &up)));
        cx.call(ev2("submod", "uint.sub_mod", N, &p, &a, &b, "diff"), || ok(&ua.sub_mod(&ub, &up)));
        cx.call(ev2("submod", "uint.SubMod", N, &p, &a, &b, "ab"), || ok(&SubMod::sub_mod(&ua, &ub, &up)));
        cx.call(ev1("negmod", "uint.neg_mod", N, &p, &a, "a"), || ok(&ua.neg_mod(&up)));
        cx.call(ev1("negmod", "uint.NegMod", N, &p, &a, "a"), || ok(&NegMod::neg_mod(&ua, &up)));
        if it % 2 == 0 {
            cx.call(ev1("negmod", "uint.neg_mod", N, &p, &b, "a"), || ok(&ub.neg_mod(&up)));
            cx.call(ev1("doublemod", "uint.double_mod", N, &p, &b, "a"), || ok(&ub.double_mod(&up)));
        }
        cx.call(ev1("doublemod", "uint.double_mod", N, &p, &a, "a"), || ok(&ua.double_mod(&up)));
        // the inherent forms document the weaker assumptions a + b < 2p and -p <= a - b < p
        if it % 8 == 0 {
            if let Some((wa, wb_, is_add)) = wide_pair(&mut cx.rng, &p) {
                let (xa, xb) = (u::<N>(&wa), u::<N>(&wb_));
                if is_add {
                    cx.call(ev2("addmod", "uint.add_mod", N, &p, &wa, &wb_, "sum2p"), || ok(&xa.add_mod(&xb, &up)));
                } else {
                    cx.call(ev2("submod", "uint.sub_mod", N, &p, &wa, &wb_, "diff"), || ok(&xa.sub_mod(&xb, &up)));
                }
            }
        }
        // multiplication: no operand precondition is documented, so some operands are arbitrary
        let (ma, mb) = if it % 6 == 5 { (nat(&mut cx.rng, N), nat(&mut cx.rng, N)) } else { (a.clone(), b.clone()) };
        let (xa, xb) = (u::<N>(&ma), u::<N>(&mb));
        let nzp = nz::<N>(&p).unwrap();
        cx.call(ev2("mulmod", "uint.mul_mod", N, &p, &ma, &mb, "none").s("par", "panic"), || ok(&xa.mul_mod(&xb, &nzp)));
        cx.call(ev2("mulmod", "uint.mul_mod_vartime", N, &p, &ma, &mb, "none").s("par", "either"), || ok(&xa.mul_mod_vartime(&xb, &nzp)));
        cx.call(ev2("mulmod", "uint.MulMod", N, &p, &ma, &mb, "none").s("par", "exact"), || ok(&MulMod::mul_mod(&xa, &xb, &up)));
        if it % 4 == 0 || N == 1 {
            let (zp, za, zb) = zero_divisors(&mut cx.rng, N, it);
            if vcmp(&za, &zp).is_lt() && vcmp(&zb, &zp).is_lt() {
                let (ya, yb, yp) = (u::<N>(&za), u::<N>(&zb), u::<N>(&zp));
                let nzq = nz::<N>(&zp).unwrap();
                cx.call(ev2("mulmod", "uint.mul_mod", N, &zp, &za, &zb, "none").s("par", "panic"), || ok(&ya.mul_mod(&yb, &nzq)));
                cx.call(ev2("mulmod", "uint.mul_mod_vartime", N, &zp, &za, &zb, "none").s("par", "either"), || ok(&ya.mul_mod_vartime(&yb, &nzq)));
                cx.call(ev2("mulmod", "uint.MulMod", N, &zp, &za, &zb, "none").s("par", "exact"), || ok(&MulMod::mul_mod(&ya, &yb, &yp)));
                // sums and differences that land exactly on 0 / p
                let nb = fit(vsub(&zp, &za), N);
                let ynb = u::<N>(&nb);
                cx.call(ev2("addmod", "uint.add_mod", N, &zp, &za, &nb, "sum2p"), || ok(&ya.add_mod(&ynb, &yp)));
                cx.call(ev2("submod", "uint.sub_mod", N, &zp, &za, &za, "diff"), || ok(&ya.sub_mod(&ya, &yp)));
            }
        }
        // halving lives on the Montgomery forms: the stored representation is halved modulo p
        if odd_p {
            let op = odd::<N>(&p).unwrap();
            let params = if it % 2 == 0 { MontyParams::<N>::new(op) } else { MontyParams::<N>::new_vartime(op) };
            cx.call(ev1("halve", "monty.div_by_2", N, &p, &a, "a"), || ok(&MontyForm::from_montgomery(ua, params).div_by_2().to_montgomery()));
            cx.call(ev1("halve", "monty.Monty.div_by_2", N, &p, &b, "a"), || ok(Monty::div_by_2(&MontyForm::from_montgomery(ub, params)).as_montgomery()));
            if it % 2 == 0 {
                cx.call(ev1("halve", "monty.Monty.div_by_2_assign", N, &p, &a, "a"), || { let mut t = MontyForm::from_montgomery(ua, params); Monty::div_by_2_assign(&mut t); ok(&t.to_montgomery()) });
                // through the conversions: new(a).div_by_2().retrieve() is a/2 mod p as well
                cx.call(ev1("halve", "monty.new.div_by_2.retrieve", N, &p, &b, "a"), || ok(&MontyForm::new(&ub, params).div_by_2().retrieve()));
            }
        }
    }
}

fn special<const N: usize>(cx: &mut Cx, iters: usize) {
    for it in 0..iters {
        let c = if it % 8 == 7 && cx.rng.coin() { MAX } else { special_c(&mut cx.rng) };
        let p = special_p(N, c);
        let (a, b) = pair(&mut cx.rng, &p);
        let (ua, ub) = (u::<N>(&a), u::<N>(&b));
        let lc = Limb(c);
        cx.call(sv2("addmod", "uint.add_mod_special", N, c, &a, &b, "sum2p"), || ok(&ua.add_mod_special(&ub, lc)));
        cx.call(sv2("submod", "uint.sub_mod_special", N, c, &a, &b, "diff"), || ok(&ua.sub_mod_special(&ub, lc)));
        cx.call(sv1("negmod", "uint.neg_mod_special", N, c, &a, "a"), || ok(&ua.neg_mod_special(lc)));
        if it % 2 == 0 {
            cx.call(sv1("negmod", "uint.neg_mod_special", N, c, &b, "a"), || ok(&ub.neg_mod_special(lc)));
        }
        let (ma, mb) = match it % 8 {
            5 => (nat(&mut cx.rng, N), nat(&mut cx.rng, N)),
            6 => (vec![MAX; N], vec![MAX; N]),
            7 => (near_top(&mut cx.rng, N, &p), near_top(&mut cx.rng, N, &p)),
            _ => (a.clone(), b.clone()),
        };
        let (xa, xb) = (u::<N>(&ma), u::<N>(&mb));
        cx.call(sv2("mulmod", "uint.mul_mod_special", N, c, &ma, &mb, "none").s("par", "exact"), || ok(&xa.mul_mod_special(&xb, lc)));
        if it % 3 == 0 {
            // composite special modulus p = 2^BITS - c = q*r with zero divisors a = q*t, b = r*u (a*b is an exact multiple of p)
            let q = ((cx.rng.next() >> 34) | (1 << 29)) | 1;
            let top = vpow2(64 * N);
            let rr = fit(vdivsmall(&top, q), N);
            let prod = vmul(&rr, &[q]);
            let cz = vsub(&top, &prod);                  // 0 <= cz < q
            if cz.len() <= 1 && cz.first().copied().unwrap_or(0) != 0 {
                let czv = cz[0];
                let t = 1 + cx.rng.below(1 << 10) as u64;
                let za = fit(vmul(&[q], &[t]), N);
                let zb = fit(vsub(&rr, &[cx.rng.below(1 << 10) as u64]), N);          // r*1 minus a little is not a multiple; use r itself below
                let zb2 = rr.clone();
                let (ya, yb, yb2) = (u::<N>(&za), u::<N>(&zb), u::<N>(&zb2));
                let lz = Limb(czv);
                cx.call(sv2("mulmod", "uint.mul_mod_special", N, czv, &za, &zb2, "none").s("par", "exact"), || ok(&ya.mul_mod_special(&yb2, lz)));
                cx.call(sv2("mulmod", "uint.mul_mod_special", N, czv, &za, &zb, "none").s("par", "exact"), || ok(&ya.mul_mod_special(&yb, lz)));
            }
        }
        if it % 8 == 0 {
            if let Some((wa, wb_, is_add)) = wide_pair(&mut cx.rng, &p) {
                let (xa, xb) = (u::<N>(&wa), u::<N>(&wb_));
                if is_add {
                    cx.call(sv2("addmod", "uint.add_mod_special", N, c, &wa, &wb_, "sum2p"), || ok(&xa.add_mod_special(&xb, lc)));
                } else {
                    cx.call(sv2("submod", "uint.sub_mod_special", N, c, &wa, &wb_, "diff"), || ok(&xa.sub_mod_special(&xb, lc)));
                }
            }
        }
    }
}

// ConstMontyForm halving: moduli fixed at compile time
impl_modulus!(M1a, U64, "0000000000000001");
impl_modulus!(M1b, U64, "0000000000000003");
impl_modulus!(M1c, U64, "ffffffffffffffff");
impl_modulus!(M1d, U64, "8000000000000001");
impl_modulus!(M2a, U128, "ffffffffffffffffffffffffffffffff");
impl_modulus!(M2b, U128, "00000000000000007fffffffffffffff");
impl_modulus!(M3a, U192, "800000000000000000000000000000000000000000000001");
impl_modulus!(M4a, U256, "ffffffff00000001000000000000000000000000ffffffffffffffffffffffff");
impl_modulus!(M4b, U256, "7fffffffffffffffffffffffffffffffffffffffffffffffffffffffffffffff");
impl_modulus!(M8a, U512, "ffffffffffffffffffffffffffffffffffffffffffffffffffffffffffffffffffffffffffffffffffffffffffffffffffffffffffffffffffffffffffffff43");

macro_rules! const_halve {
    ($cx:expr, $M:ident, $N:literal, $iters:expr) => {
        for _ in 0..$iters {
            let p = w(&<$M as ConstMontyParams<$N>>::MODULUS.get());
            let (a, b) = pair(&mut $cx.rng, &p);
            let (ua, ub) = (u::<$N>(&a), u::<$N>(&b));
            $cx.call(ev1("halve", "const_monty.div_by_2", $N, &p, &a, "a"), || ok(&ConstMontyForm::<$M, $N>::from_montgomery(ua).div_by_2().to_montgomery()));
            $cx.call(ev1("halve", "const_monty.new.div_by_2.retrieve", $N, &p, &b, "a"), || ok(&ConstMontyForm::<$M, $N>::new(&ub).div_by_2().retrieve()));
        }
    };
}

fn boxed_general(cx: &mut Cx, iters: usize, maxl: usize) {
    for it in 0..iters {
        let nl = if it < 2 * maxl { 1 + it % maxl } else { cx.rng.range(1, maxl) };
        let want_odd = cx.rng.below(3) != 0;
        let p = modulus(&mut cx.rng, nl, want_odd);
        let (a, b) = pair(&mut cx.rng, &p);
        let (ba, bb, bp) = (bx(&a), bx(&b), bx(&p));
        let odd_p = p[0] & 1 == 1;
        cx.call(ev2("addmod", "boxed.add_mod", nl, &p, &a, &b, "ab"), || okb(&ba.add_mod(&bb, &bp)));
        cx.call(ev2("addmod", "boxed.add_mod_assign", nl, &p, &a, &b, "ab"), || { let mut t = ba.clone(); t.add_mod_assign(&bb, &bp); okb(&t) });
        cx.call(ev2("addmod", "boxed.AddMod", nl, &p, &a, &b, "ab"), || okb(&AddMod::add_mod(&ba, &bb, &bp)));
        cx.call(ev2("submod", "boxed.sub_mod", nl, &p, &a, &b, "ab"), || okb(&ba.sub_mod(&bb, &bp)));
        cx.call(ev2("submod", "boxed.SubMod", nl, &p, &a, &b, "ab"), || okb(&SubMod::sub_mod(&ba, &bb, &bp)));
        cx.call(ev1("negmod", "boxed.neg_mod", nl, &p, &a, "a"), || okb(&ba.neg_mod(&bp)));
        cx.call(ev1("negmod", "boxed.NegMod", nl, &p, &b, "a"), || okb(&NegMod::neg_mod(&bb, &bp)));
        cx.call(ev1("doublemod", "boxed.double_mod", nl, &p, &a, "a"), || okb(&ba.double_mod(&bp)));
        if it % 2 == 0 {
            cx.call(ev1("doublemod", "boxed.double_mod", nl, &p, &b, "a"), || okb(&bb.double_mod(&bp)));
        }
        let (ma, mb) = if it % 6 == 5 { (nat(&mut cx.rng, nl), nat(&mut cx.rng, nl)) } else { (a.clone(), b.clone()) };
        let (xa, xb) = (bx(&ma), bx(&mb));
        cx.call(ev2("mulmod", "boxed.mul_mod", nl, &p, &ma, &mb, "none").s("par", "panic"), || okb(&xa.mul_mod(&xb, &bp)));
        cx.call(ev2("mulmod", "boxed.MulMod", nl, &p, &ma, &mb, "none").s("par", "either"), || okb(&MulMod::mul_mod(&xa, &xb, &bp)));
        if it % 4 == 0 || nl == 1 {
            let (zp, za, zb) = zero_divisors(&mut cx.rng, nl, it);
            if vcmp(&za, &zp).is_lt() && vcmp(&zb, &zp).is_lt() {
                let (ya, yb, yp) = (bx(&za), bx(&zb), bx(&zp));
                cx.call(ev2("mulmod", "boxed.mul_mod", nl, &zp, &za, &zb, "none").s("par", "panic"), || okb(&ya.mul_mod(&yb, &yp)));
                cx.call(ev2("mulmod", "boxed.MulMod", nl, &zp, &za, &zb, "none").s("par", "either"), || okb(&MulMod::mul_mod(&ya, &yb, &yp)));
                let nb = fit(vsub(&zp, &za), nl);
                let ynb = bx(&nb);
                cx.call(ev2("addmod", "boxed.add_mod", nl, &zp, &za, &nb, "ab"), || okb(&ya.add_mod(&ynb, &yp)));
                cx.call(ev2("submod", "boxed.sub_mod", nl, &zp, &za, &za, "ab"), || okb(&ya.sub_mod(&ya, &yp)));
            }
        }
        if odd_p {
            let op = oddb(&p).unwrap();
            let params = if it % 2 == 0 { BoxedMontyParams::new(op) } else { BoxedMontyParams::new_vartime(op) };
            cx.call(ev1("halve", "boxed_monty.div_by_2", nl, &p, &a, "a"), || okb(&BoxedMontyForm::from_montgomery(ba.clone(), params.clone()).div_by_2().to_montgomery()));
            cx.call(ev1("halve", "boxed_monty.div_by_2_assign", nl, &p, &b, "a"), || { let mut t = BoxedMontyForm::from_montgomery(bb.clone(), params.clone()); t.div_by_2_assign(); okb(&t.to_montgomery()) });
            if it % 2 == 0 {
                cx.call(ev1("halve", "boxed_monty.Monty.div_by_2", nl, &p, &b, "a"), || okb(Monty::div_by_2(&BoxedMontyForm::from_montgomery(bb.clone(), params.clone())).as_montgomery()));
                cx.call(ev1("halve", "boxed_monty.Monty.div_by_2_assign", nl, &p, &a, "a"), || { let mut t = BoxedMontyForm::from_montgomery(ba.clone(), params.clone()); Monty::div_by_2_assign(&mut t); okb(&t.to_montgomery()) });
                cx.call(ev1("halve", "boxed_monty.new.div_by_2.retrieve", nl, &p, &a, "a"), || okb(&BoxedMontyForm::new(ba.clone(), params.clone()).div_by_2().retrieve()));
            }
        }
    }
}

fn boxed_special(cx: &mut Cx, iters: usize, maxl: usize) {
    for it in 0..iters {
        let nl = if it < 2 * maxl { 1 + it % maxl } else { cx.rng.range(1, maxl) };
        let c = if it % 8 == 7 && cx.rng.coin() { MAX } else { special_c(&mut cx.rng) };
        let p = special_p(nl, c);
        let (a, b) = pair(&mut cx.rng, &p);
        let (ba, bb) = (bx(&a), bx(&b));
        let lc = Limb(c);
        cx.call(sv2("submod", "boxed.sub_mod_special", nl, c, &a, &b, "diff"), || okb(&ba.sub_mod_special(&bb, lc)));
        cx.call(sv1("negmod", "boxed.neg_mod_special", nl, c, &a, "a"), || okb(&ba.neg_mod_special(lc)));
        let (ma, mb) = match it % 8 {
            5 => (nat(&mut cx.rng, nl), nat(&mut cx.rng, nl)),
            6 => (vec![MAX; nl], vec![MAX; nl]),
            7 => (near_top(&mut cx.rng, nl, &p), near_top(&mut cx.rng, nl, &p)),
            _ => (a.clone(), b.clone()),
        };
        let (xa, xb) = (bx(&ma), bx(&mb));
        cx.call(sv2("mulmod", "boxed.mul_mod_special", nl, c, &ma, &mb, "none").s("par", "exact"), || okb(&xa.mul_mod_special(&xb, lc)));
    }
}

/// composite odd modulus p = q*r (or q*q) with zero divisors a = q*t, b = r*u: the product is an exact multiple of p,
/// so every final reduction sees exactly p (the boundary between "subtract" and "keep")
fn zero_divisors(r: &mut Rng, n: usize, it: usize) -> (Vec<u64>, Vec<u64>, Vec<u64>) {
    let bits = 64 * n;
    let hb = bits / 2;
    if n == 1 && it % 2 == 1 {
        // single-limb modulus just above 2^63, operands close to it: the 2-by-1 reciprocal estimate is then one too small
        // for a good fraction of the exact multiples
        let q = (1u64 << 30) + (r.next() >> 35) | 1;
        let mut rr = ((1u128 << 63) / q as u128) as u64 + 1; rr |= 1;
        let p = (q as u128) * (rr as u128);
        if p >> 64 == 0 && p >> 63 == 1 {
            let (t, u_) = (rr - 2 * (1 + r.below(1 << 8) as u64), q - 2 * (1 + r.below(1 << 8) as u64));
            return (vec![p as u64], vec![q.wrapping_mul(t)], vec![rr.wrapping_mul(u_)]);
        }
    }
    let half = |r: &mut Rng| -> Vec<u64> { let mut v = nat(r, n); v = vmask(&v, hb); v[0] |= 1; let top = vpow2(hb - 1); vadd(&vmask(&v, hb - 1), &top) };   // odd, exactly hb bits
    let q = half(r);
    let rr = if it % 3 == 0 { q.clone() } else { half(r) };
    let p = fit(vmul(&q, &rr), n);
    // t, u small so that a, b < p
    let t = vec![1 + r.below(1 << 10) as u64];
    let u_ = vec![1 + r.below(1 << 10) as u64];
    let a = fit(vmul(&q, &t), n);
    let b = fit(vmul(&rr, &u_), n);
    (p, a, b)
}

fn main() {
    let mut cx = Cx::from_args("C07");
    let s = cx.scale;
    if cx.want("general") {
        general::<1, 2>(&mut cx, 160 * s);
        general::<2, 4>(&mut cx, 160 * s);
        general::<3, 6>(&mut cx, 140 * s);
        general::<4, 8>(&mut cx, 160 * s);
        general::<6, 12>(&mut cx, 100 * s);
        general::<8, 16>(&mut cx, 100 * s);
        general::<12, 24>(&mut cx, 60 * s);
        general::<16, 32>(&mut cx, 50 * s);
    }
    if cx.want("special") {
        special::<1>(&mut cx, 250 * s);
        special::<2>(&mut cx, 250 * s);
        special::<3>(&mut cx, 250 * s);
        special::<4>(&mut cx, 250 * s);
        special::<6>(&mut cx, 150 * s);
        special::<8>(&mut cx, 150 * s);
        special::<12>(&mut cx, 100 * s);
        special::<16>(&mut cx, 100 * s);
    }
    if cx.want("const_halve") {
        const_halve!(cx, M1a, 1, 10 * s);
        const_halve!(cx, M1b, 1, 20 * s);
        const_halve!(cx, M1c, 1, 40 * s);
        const_halve!(cx, M1d, 1, 40 * s);
        const_halve!(cx, M2a, 2, 40 * s);
        const_halve!(cx, M2b, 2, 40 * s);
        const_halve!(cx, M3a, 3, 40 * s);
        const_halve!(cx, M4a, 4, 40 * s);
        const_halve!(cx, M4b, 4, 40 * s);
        const_halve!(cx, M8a, 8, 30 * s);
    }
    if cx.want("boxed_general") {
        boxed_general(&mut cx, 500 * s, 20);
    }
    if cx.want("boxed_special") {
        boxed_special(&mut cx, 500 * s, 20);
    }
    cx.finish();
}
