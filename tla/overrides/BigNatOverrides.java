import java.math.BigInteger;
import tlc2.overrides.TLAPlusOperator;
import tlc2.overrides.ITLCOverrides;
import tlc2.value.impl.*;

/**
 * TLC overrides for tla/BigNat.tla: each exported operator is evaluated with java.math.BigInteger
 * instead of its TLA+ reference definition (Ref_<Op>).  BigNatSelfTest.tla checks Op = Ref_Op.
 * Load with -Dtlc2.overrides.TLCOverrides=tlc2.overrides.TLCOverrides:BigNatOverrides
 */
public class BigNatOverrides implements ITLCOverrides {
  @Override public Class[] get() { return new Class[]{ BigNatOverrides.class }; }

  static BigInteger dec(Value v) {
    TupleValue t = (TupleValue) v.toTuple();
    if (t == null) throw new RuntimeException("BigNat: not a sequence: " + v);
    int n = t.elems.length;
    if (n == 0) return BigInteger.ZERO;
    byte[] be = new byte[n + 1];
    for (int i = 0; i < n; i++) {
      int b = ((IntValue) t.elems[i]).val;
      if (b < 0 || b > 255) throw new RuntimeException("BigNat: byte out of range: " + b);
      be[n - i] = (byte) b;
    }
    return new BigInteger(be);
  }
  static final Value[] BYTES = new Value[256];
  static { for (int i = 0; i < 256; i++) BYTES[i] = IntValue.gen(i); }
  static Value enc(BigInteger x) {
    if (x.signum() < 0) throw new RuntimeException("BigNat: negative result");
    if (x.signum() == 0) return new TupleValue(new Value[0]);
    byte[] be = x.toByteArray();
    int start = 0; while (start < be.length && be[start] == 0) start++;
    int n = be.length - start;
    Value[] el = new Value[n];
    for (int i = 0; i < n; i++) el[i] = BYTES[be[be.length - 1 - i] & 0xff];
    return new TupleValue(el);
  }
  static int iv(Value v) { return ((IntValue) v).val; }
  static Value bool(boolean b) { return b ? BoolValue.ValTrue : BoolValue.ValFalse; }

  @TLAPlusOperator(identifier="FromInt", module="BigNat", warn=false) public static Value FromInt(Value a) { return enc(BigInteger.valueOf(iv(a))); }
  @TLAPlusOperator(identifier="ToInt", module="BigNat", warn=false) public static Value ToInt(Value a) { return IntValue.gen(dec(a).intValueExact()); }
  @TLAPlusOperator(identifier="Add", module="BigNat", warn=false) public static Value Add(Value a, Value b) { return enc(dec(a).add(dec(b))); }
  @TLAPlusOperator(identifier="Sub", module="BigNat", warn=false) public static Value Sub(Value a, Value b) { return enc(dec(a).subtract(dec(b))); }
  @TLAPlusOperator(identifier="Mul", module="BigNat", warn=false) public static Value Mul(Value a, Value b) { return enc(dec(a).multiply(dec(b))); }
  @TLAPlusOperator(identifier="Div", module="BigNat", warn=false) public static Value Div(Value a, Value b) { return enc(dec(a).divide(dec(b))); }
  @TLAPlusOperator(identifier="Mod", module="BigNat", warn=false) public static Value Mod(Value a, Value b) { return enc(dec(a).mod(dec(b))); }
  @TLAPlusOperator(identifier="Cmp", module="BigNat", warn=false) public static Value Cmp(Value a, Value b) { return IntValue.gen(Integer.signum(dec(a).compareTo(dec(b)))); }
  @TLAPlusOperator(identifier="Shl", module="BigNat", warn=false) public static Value Shl(Value a, Value s) { return enc(dec(a).shiftLeft(iv(s))); }
  @TLAPlusOperator(identifier="Shr", module="BigNat", warn=false) public static Value Shr(Value a, Value s) { return enc(dec(a).shiftRight(iv(s))); }
  @TLAPlusOperator(identifier="Mod2k", module="BigNat", warn=false) public static Value Mod2k(Value a, Value k) { return enc(dec(a).mod(BigInteger.ONE.shiftLeft(iv(k)))); }
  @TLAPlusOperator(identifier="Pow2", module="BigNat", warn=false) public static Value Pow2(Value k) { return enc(BigInteger.ONE.shiftLeft(iv(k))); }
  @TLAPlusOperator(identifier="BitLen", module="BigNat", warn=false) public static Value BitLen(Value a) { return IntValue.gen(dec(a).bitLength()); }
  @TLAPlusOperator(identifier="Bit", module="BigNat", warn=false) public static Value Bit(Value a, Value i) { return IntValue.gen(dec(a).testBit(iv(i)) ? 1 : 0); }
  @TLAPlusOperator(identifier="TrailingZeros", module="BigNat", warn=false) public static Value TrailingZeros(Value a) { BigInteger x = dec(a); return IntValue.gen(x.signum() == 0 ? 0 : x.getLowestSetBit()); }
  @TLAPlusOperator(identifier="And", module="BigNat", warn=false) public static Value And(Value a, Value b) { return enc(dec(a).and(dec(b))); }
  @TLAPlusOperator(identifier="Or", module="BigNat", warn=false) public static Value Or(Value a, Value b) { return enc(dec(a).or(dec(b))); }
  @TLAPlusOperator(identifier="Xor", module="BigNat", warn=false) public static Value Xor(Value a, Value b) { return enc(dec(a).xor(dec(b))); }
  @TLAPlusOperator(identifier="Gcd", module="BigNat", warn=false) public static Value Gcd(Value a, Value b) { return enc(dec(a).gcd(dec(b))); }
  @TLAPlusOperator(identifier="ModPow", module="BigNat", warn=false) public static Value ModPow(Value b, Value e, Value m) { return enc(dec(b).modPow(dec(e), dec(m))); }
  @TLAPlusOperator(identifier="ModInv", module="BigNat", warn=false) public static Value ModInv(Value a, Value m) {
    BigInteger x = dec(a), mm = dec(m);
    if (!x.gcd(mm).equals(BigInteger.ONE)) return new TupleValue(new Value[]{ BoolValue.ValFalse, enc(BigInteger.ZERO) });
    return new TupleValue(new Value[]{ BoolValue.ValTrue, enc(x.modInverse(mm)) });
  }
  @TLAPlusOperator(identifier="ISqrt", module="BigNat", warn=false) public static Value ISqrt(Value a) { return enc(dec(a).sqrt()); }
  @TLAPlusOperator(identifier="FromDigits", module="BigNat", warn=false) public static Value FromDigits(Value ds, Value radix) {
    TupleValue t = (TupleValue) ds.toTuple();
    BigInteger r = BigInteger.valueOf(iv(radix)), acc = BigInteger.ZERO;
    // chunked Horner to stay fast on long numerals
    int n = t.elems.length, i = 0;
    while (i < n) {
      long chunk = 0, scale = 1; int j = i;
      while (j < n && scale < (1L << 40)) { chunk = chunk * iv(radix) + ((IntValue) t.elems[j]).val; scale *= iv(radix); j++; }
      acc = acc.multiply(BigInteger.valueOf(scale)).add(BigInteger.valueOf(chunk));
      i = j;
    }
    return enc(acc);
  }
  @TLAPlusOperator(identifier="ToDigits", module="BigNat", warn=false) public static Value ToDigits(Value a, Value radix) {
    BigInteger x = dec(a);
    if (x.signum() == 0) return new TupleValue(new Value[0]);
    String s = x.toString(iv(radix));
    Value[] el = new Value[s.length()];
    for (int i = 0; i < el.length; i++) el[i] = IntValue.gen(Character.digit(s.charAt(i), iv(radix)));
    return new TupleValue(el);
  }
}
