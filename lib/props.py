"""Per-property configuration of ./check (the one table tying a property id to its recorder binary
and to the small-W model checks run with it).  r1 entries: (spec, cfg, workers, timeout_s, tiers)."""
COMMON_ASSUMPTIONS = [
    "TLC 1.8 and the JDK's BigInteger (BigNat overrides, self-tested against the TLA+ reference definitions)",
    "the recorder logs the arguments it passed and the outcome it received (generic serialisation code, exercised by the corruption self-test)",
    "x86_64 / 64-bit limbs only; no 32-bit target is installed",
    "R1 (small word size) establishes the transcribed algorithm at W in {2,3,4}; word-size independence is an argument, not a theorem",
]
def M(spec, cfg, **kw):
    return dict(spec=spec, cfg=cfg, **kw)


Q = ("quick", "thorough")
T = ("thorough",)
R1 = {
    "C02": [
        M("algo/KnuthD_MC.tla", "algo/KnuthD_ct_W2L3.cfg"),
        M("algo/KnuthD_MC.tla", "algo/KnuthD_ct_W2L4.cfg"),
        M("algo/KnuthD_MC.tla", "algo/KnuthD_vartime_W2L4.cfg"),
        M("algo/KnuthD_MC.tla", "algo/KnuthD_limb_W3L3.cfg"),
        M("algo/KnuthD_MC.tla", "algo/KnuthD_vacuity.cfg", expect_violation="NoAddBack"),
        M("algo/KnuthD_MC.tla", "algo/KnuthD_vacuity_vt.cfg", expect_violation="NoAddBack"),
        M("algo/KnuthD_MC.tla", "algo/KnuthD_vacuity_toponly.cfg", expect_violation="NoTopOnly"),
        M("algo/KnuthD_MC.tla", "algo/KnuthD_remwide_W2L2Y1.cfg"), M("algo/KnuthD_MC.tla", "algo/KnuthD_remwide_W2L2Y2.cfg"),
        M("algo/KnuthD_MC.tla", "algo/KnuthD_remwide_W2L3Y1.cfg"), M("algo/KnuthD_MC.tla", "algo/KnuthD_remwide_W2L3Y2.cfg", workers=8),
        M("algo/KnuthD_MC.tla", "algo/KnuthD_remwide_W2L3Y3.cfg", workers=8),
        M("algo/KnuthD_MC.tla", "algo/KnuthD_remwide_W2L3Y3_vacuity.cfg", expect_violation="NoAddBack"),
        M("algo/KnuthD_MC.tla", "algo/KnuthD_remwide_W3L2Y2.cfg", tiers=T, workers=12), M("algo/KnuthD_MC.tla", "algo/KnuthD_remwide_W2L4Y2.cfg", tiers=T, workers=12),
        M("algo/KnuthD_MC.tla", "algo/KnuthD_remwide_W2L4Y3.cfg", tiers=T, workers=12, timeout=3000), M("algo/KnuthD_MC.tla", "algo/KnuthD_remwide_W2L4Y4.cfg", tiers=T, workers=12, timeout=3000),
        M("algo/KnuthD_MC.tla", "algo/KnuthD_remwide_W3L3Y2.cfg", tiers=T, workers=12, timeout=3000),
        M("algo/KnuthD_MC.tla", "algo/KnuthD_ct_W3L3.cfg", tiers=T, workers=12),
        M("algo/KnuthD_MC.tla", "algo/KnuthD_vartime_W3L4.cfg", tiers=T, workers=12),
        M("algo/KnuthD_MC.tla", "algo/KnuthD_ct_W4L2Y2.cfg", tiers=T),
        M("algo/KnuthD_MC.tla", "algo/KnuthD_vartime_W2L5Y3.cfg", tiers=T, workers=12),
        M("algo/KnuthD_MC.tla", "algo/KnuthD_vartime_W2L5Y4.cfg", tiers=T, workers=12),
        M("algo/KnuthD_MC.tla", "algo/KnuthD_limb_W4L3Y1.cfg", tiers=T),
    ],
    "C03": [
        M("algo/Mul.tla", "algo/Mul_fixed_W2S4B1.cfg", workers=8),
        M("algo/Mul.tla", "algo/Mul_boxed_W2_3x4.cfg"),
        M("algo/Mul.tla", "algo/Mul_boxed_W2_4x3.cfg"),
        M("algo/Mul.tla", "algo/Mul_boxed_W2_3x4_pinned.cfg", expect_violation="Exact"),
        M("algo/Mul.tla", "algo/Mul_fixed_W3S4B2.cfg", tiers=T, workers=14, timeout=3000),
        M("algo/Mul.tla", "algo/Mul_boxed_W3_3x4.cfg", tiers=T, workers=14, timeout=3000),
        M("algo/Mul.tla", "algo/Mul_boxed_W2_5x6.cfg", tiers=T, workers=14, timeout=3000),
        M("algo/Square.tla", "algo/Square_school_W2S5.cfg"), M("algo/Square.tla", "algo/Square_school_W3S4.cfg"), M("algo/Square.tla", "algo/Square_school_W4S3.cfg"),
        M("algo/Square.tla", "algo/Square_fixed_W2S4B1.cfg"), M("algo/Square.tla", "algo/Square_fixed_W3S4B1.cfg"),
        M("algo/Square.tla", "algo/Square_boxed_W2S4.cfg"), M("algo/Square.tla", "algo/Square_boxed_W3S4.cfg"),
        M("algo/Square.tla", "algo/Square_boxed_W2S8_carry2.cfg", expect_violation="NoCarryTwo"),
        M("algo/Square.tla", "algo/Square_school_W2S7.cfg", tiers=T, workers=8), M("algo/Square.tla", "algo/Square_boxed_W2S8.cfg", tiers=T, workers=8),
        M("algo/Square.tla", "algo/Square_boxed_W4S4.cfg", tiers=T, workers=8),
    ],
    "C05": [
        M("algo/Shift.tla", "algo/Shift_W2N3.cfg"),
        M("algo/Shift.tla", "algo/Shift_W4N2.cfg"),
        M("algo/Shift.tla", "algo/Shift_W3N3.cfg"),
        M("algo/Shift.tla", "algo/Shift_W2N3_pinned.cfg", expect_violation="WideOK"),
        M("algo/BitScan.tla", "algo/BitScan_W2N3.cfg"), M("algo/BitScan.tla", "algo/BitScan_W3N2.cfg"),
        M("algo/BitScan.tla", "algo/BitScan_W2N3_mut.cfg", expect_violation="CountOK"),
        M("algo/BitScan.tla", "algo/BitScan_W2N4.cfg", tiers=T), M("algo/BitScan.tla", "algo/BitScan_W4N2.cfg", tiers=T), M("algo/BitScan.tla", "algo/BitScan_W3N3.cfg", tiers=T, workers=12),
        M("algo/Shift.tla", "algo/Shift_W2N5.cfg", tiers=T),
        M("algo/Shift.tla", "algo/Shift_W2N6.cfg", tiers=T, timeout=3000),
    ],
    "C20": [
        M("algo/Sqrt.tla", "algo/Sqrt_B8.cfg"), M("algo/Sqrt.tla", "algo/Sqrt_B9.cfg"),
        M("algo/Sqrt.tla", "algo/Sqrt_B12.cfg"), M("algo/Sqrt.tla", "algo/Sqrt_B14.cfg"),
        M("algo/Sqrt.tla", "algo/Sqrt_B14_fewer.cfg", expect_violation="FewerRoundsEnough"),
        M("algo/Sqrt.tla", "algo/Sqrt_B16.cfg", tiers=T), M("algo/Sqrt.tla", "algo/Sqrt_B18.cfg", tiers=T, workers=12),
        M("algo/Sqrt.tla", "algo/Sqrt_B20.cfg", tiers=T, workers=12, timeout=3000),
    ],
    "C10": [
        M("algo/Inv.tla", "algo/Inv_B6.cfg"), M("algo/Inv.tla", "algo/Inv_B8.cfg", workers=8),
        M("algo/Inv.tla", "algo/Inv_B6_pinned.cfg", expect_violation="InvModOK"),
        M("algo/Inv.tla", "algo/Inv_B9.cfg", tiers=T, workers=12),
        M("algo/LimbConvert.tla", "algo/LimbConvert_sat2unsat_4_3.cfg"), M("algo/LimbConvert.tla", "algo/LimbConvert_sat2unsat_4_3_short.cfg"),
        M("algo/LimbConvert.tla", "algo/LimbConvert_unsat2sat_3_4.cfg"), M("algo/LimbConvert.tla", "algo/LimbConvert_sat2unsat_5_3.cfg"),
        M("algo/LimbConvert.tla", "algo/LimbConvert_sat2unsat_4_3_mut.cfg", expect_violation="ConvertOK"),
        M("algo/LimbConvert.tla", "algo/LimbConvert_sat2unsat_6_4.cfg", tiers=T, workers=8), M("algo/LimbConvert.tla", "algo/LimbConvert_unsat2sat_4_6.cfg", tiers=T, workers=8),
        M("algo/SafeGcd.tla", "algo/SafeGcd_J6B6.cfg", workers=8), M("algo/SafeGcd.tla", "algo/SafeGcd_J5B6.cfg", workers=8),
        M("algo/SafeGcd.tla", "algo/SafeGcd_J8B7.cfg", tiers=T, workers=12), M("algo/SafeGcd.tla", "algo/SafeGcd_J8B9.cfg", tiers=T, workers=12, timeout=3000),
    ],
    "C13": [
        M("algo/Signed.tla", "algo/Signed_B5.cfg"), M("algo/Signed.tla", "algo/Signed_B7.cfg"),
        M("algo/SignedMixed.tla", "algo/SignedMixed_L3R5.cfg"), M("algo/SignedMixed.tla", "algo/SignedMixed_L5R3.cfg"), M("algo/SignedMixed.tla", "algo/SignedMixed_L4R4.cfg"),
        M("algo/SignedMixed.tla", "algo/SignedMixed_L6R4.cfg"), M("algo/SignedMixed.tla", "algo/SignedMixed_L4R7.cfg"), M("algo/SignedMixed.tla", "algo/SignedMixed_L7R7.cfg", tiers=T),
        M("algo/Signed.tla", "algo/Signed_B9.cfg", tiers=T, workers=12),
    ],
    "C14": [
        M("algo/Signed.tla", "algo/Signed_B5.cfg"), M("algo/Signed.tla", "algo/Signed_B7.cfg"),
        M("algo/Signed.tla", "algo/Signed_B5_pinned.cfg", expect_violation="FloorOK"),
        M("algo/Signed.tla", "algo/Signed_B9.cfg", tiers=T, workers=12),
    ],
    "C04": [
        M("algo/Words.tla", "algo/Words_W2N2.cfg"), M("WrapperApi.tla", "WrapperApi_B3L4.cfg"),
        M("algo/Words.tla", "algo/Words_W2N3.cfg", tiers=T, workers=12), M("algo/Words.tla", "algo/Words_W4N1.cfg", tiers=T, workers=12, timeout=3000),
    ],
    "C12": [
        M("WrapperApi.tla", "WrapperApi_B2L4.cfg"), M("WrapperApi.tla", "WrapperApi_B3L4.cfg"),
        M("WrapperApi.tla", "WrapperApi_B2L4_pinned.cfg", expect_violation="WrappersValid"),
        M("WrapperApi.tla", "WrapperApi_B2L5.cfg", tiers=T, workers=12, timeout=3000),
    ],
    "C06": [
        M("algo/Words.tla", "algo/Words_W2N2.cfg"),
        M("algo/Words.tla", "algo/Words_W3N2.cfg", tiers=T, workers=12, timeout=3000),
    ],
    "C17": [
        M("algo/Radix.tla", "algo/Radix_W4N1L4.cfg", workers=8), M("algo/Radix.tla", "algo/Radix_W4N2L4.cfg", workers=8),
        M("algo/Radix.tla", "algo/Radix_W2N2L4.cfg", tiers=T, workers=12), M("algo/Radix.tla", "algo/Radix_W8N1L4.cfg", tiers=T, workers=12),
        M("algo/Radix.tla", "algo/Radix_W4N3L4.cfg", tiers=T, workers=12),
        M("algo/RadixEnc.tla", "algo/RadixEnc_W3L2N4.cfg", workers=8), M("algo/RadixEnc.tla", "algo/RadixEnc_W4L2N3.cfg", workers=8),
        M("algo/RadixEnc.tla", "algo/RadixEnc_W4L2N3_pinned.cfg", expect_violation="EncodeOK"),
        M("algo/RadixEnc.tla", "algo/RadixEnc_W4L2N3_mut.cfg", expect_violation="EncodeOK"),
        M("algo/RadixEnc.tla", "algo/RadixEnc_W4L2N3_reach_large.cfg", expect_violation="ReachLarge"),
        M("algo/RadixEnc.tla", "algo/RadixEnc_W4L2N3_reach_hi.cfg", expect_violation="ReachHi"),
        M("algo/RadixEnc.tla", "algo/RadixEnc_W4L2N4.cfg", tiers=T, workers=12), M("algo/RadixEnc.tla", "algo/RadixEnc_W3L3N5.cfg", tiers=T, workers=12),
        M("algo/RadixEnc.tla", "algo/RadixEnc_W6L1N2.cfg", tiers=T, workers=12), M("algo/RadixEnc.tla", "algo/RadixEnc_W6L2N3.cfg", tiers=T, workers=12, timeout=3000),
    ],
    "C16": [
        M("algo/HexNibble.tla", "algo/HexNibble.cfg", workers=8),
        M("algo/Bytes.tla", "algo/Bytes_Q2L2.cfg"), M("algo/Bytes.tla", "algo/Bytes_Q1L3.cfg"),
        M("algo/Bytes.tla", "algo/Bytes_Q2L2_mut.cfg", expect_violation="BEOK"),
        M("algo/Bytes.tla", "algo/Bytes_Q2L3.cfg", tiers=T, workers=12), M("algo/Bytes.tla", "algo/Bytes_Q3L2.cfg", tiers=T, workers=12),
    ],
    "C18": [
        M("algo/Codec.tla", "algo/Codec_Q2N2der.cfg"), M("algo/Codec.tla", "algo/Codec_Q3N2.cfg"), M("algo/Codec.tla", "algo/Codec_Q3N3.cfg", workers=8),
        M("algo/Codec.tla", "algo/Codec_Q3N2_mut_rlp.cfg", expect_violation="RlpDecSound"),
        M("algo/Codec.tla", "algo/Codec_Q3N2_mut_der.cfg", expect_violation="DerRoundTrip"),
        M("algo/Codec.tla", "algo/Codec_Q3N3_reach_der.cfg", expect_violation="ReachLongDer"),
        M("algo/Codec.tla", "algo/Codec_Q3N2_reach_rlp.cfg", expect_violation="ReachLongRlp"),
        M("algo/Codec.tla", "algo/Codec_Q3N3T2.cfg", tiers=T, workers=12), M("algo/Codec.tla", "algo/Codec_Q4N2.cfg", tiers=T, workers=12),
        M("algo/Codec.tla", "algo/Codec_Q3N7_values.cfg", tiers=T, workers=8, timeout=3000),
        M("algo/Codec.tla", "algo/Codec_Q3N7_reach2.cfg", tiers=T, expect_violation="ReachTwoLenOctets"),
        M("algo/Codec.tla", "algo/Codec_Q3N4.cfg", tiers=T, workers=12, timeout=3000), M("algo/Codec.tla", "algo/Codec_Q4N3.cfg", tiers=T, workers=12, timeout=3000),
    ],
    "C09": [
        M("algo/Pow.tla", "algo/Pow_W4WIN2E2.cfg", workers=8), M("algo/Pow.tla", "algo/Pow_W4WIN4E2.cfg", workers=8),
        M("algo/Pow.tla", "algo/Pow_W2WIN2E3.cfg"), M("algo/Pow.tla", "algo/Pow_W4WIN2E1_2bases.cfg", workers=8),
        M("algo/Pow.tla", "algo/Pow_W6WIN3E2.cfg", workers=12),
        M("algo/Pow.tla", "algo/Pow_W8WIN4E1.cfg", tiers=T, workers=12), M("algo/Pow.tla", "algo/Pow_W4WIN4E3.cfg", tiers=T, workers=12, timeout=3000),
        M("algo/Pow.tla", "algo/Pow_W4WIN2E1_3bases.cfg", tiers=T, workers=12, timeout=3000),
        M("algo/Lincomb.tla", "algo/Lincomb_W2N2T1.cfg"), M("algo/Lincomb.tla", "algo/Lincomb_W2N2T2.cfg", workers=8),
        M("algo/Lincomb.tla", "algo/Lincomb_W3N2T1.cfg", workers=8),
    ],
    "C07": [
        M("algo/ModArith.tla", "algo/ModArith_plain_W3N2.cfg"),
        M("algo/ModArith.tla", "algo/ModArith_plain_W2N3.cfg"),
        M("algo/ModArith.tla", "algo/ModArith_special_W3N2.cfg"),
        M("algo/ModArith.tla", "algo/ModArith_special_W2N3.cfg"),
        M("algo/ModArith.tla", "algo/ModArith_special_W2N3_pinned.cfg", expect_violation="MulSpecialOK"),
    ],
    "C19": [
        M("algo/Rand.tla", "algo/Rand_W3N2.cfg", workers=8),
        M("algo/Rand.tla", "algo/Rand_W2N3.cfg", workers=8),
        M("algo/Rand.tla", "algo/Rand_W4N2.cfg", tiers=T, workers=14, timeout=3000),
    ],
    "C08": [
        M("algo/Monty.tla", "algo/Monty_amm_W3N2.cfg"),
        M("algo/Monty.tla", "algo/Monty_reduce_W3N2.cfg"),
        M("algo/Monty.tla", "algo/Monty_amm_W2N3.cfg"),
        M("algo/Monty.tla", "algo/Monty_reduce_W2N3.cfg"),
        M("algo/Monty.tla", "algo/Monty_params_W2N2.cfg"), M("algo/Monty.tla", "algo/Monty_params_W2N3.cfg"), M("algo/Monty.tla", "algo/Monty_params_W3N2.cfg"),
        M("algo/Monty.tla", "algo/Monty_params_W4N2.cfg", tiers=T, workers=8), M("algo/Monty.tla", "algo/Monty_params_W2N4.cfg", tiers=T, workers=8),
        M("algo/Monty.tla", "algo/Monty_params_W3N3.cfg", tiers=T, workers=8),
        M("algo/Monty.tla", "algo/Monty_amm_W4N2.cfg", tiers=T, workers=12, timeout=3000),
        M("algo/Monty.tla", "algo/Monty_reduce_W4N2.cfg", tiers=T, workers=12, timeout=3000),
        M("algo/Monty.tla", "algo/Monty_amm_W2N4.cfg", tiers=T, workers=12, timeout=3000),
        M("algo/Monty.tla", "algo/Monty_reduce_W2N4.cfg", tiers=T, workers=12, timeout=3000),
    ],
}
PROPS = {
    "C%02d" % i: dict(bin="c%02d" % i, r1=R1.get("C%02d" % i, []), assumptions=COMMON_ASSUMPTIONS) for i in range(1, 21)
}

import gen_c08
PROPS["C08"]["pre"] = gen_c08.pre
PROPS["C11"]["custom"] = "check_c11"
PROPS["C19"]["selftest_skip_ops"] = ["rmod"]   # a single modular draw is only range-constrained (any v < m is admissible)
PROPS["C01"]["custom"] = "check_c01"
PROPS["C02"]["paths"] = {"quick": 1, "thorough": 7}
PROPS["C18"]["paths"] = {"module": "CodecTrace", "quick": 7, "thorough": 1}
PROPS["C04"]["apalache"] = [dict(spec="apalache/WordLemmas64.tla", inv="Inv")]
PROPS["C07"]["apalache"] = [dict(spec="apalache/ModLemmas256.tla", inv="Inv"),
                            dict(spec="apalache/ModLemmas256.tla", inv="AddNoPre", expect_error=True),
                            dict(spec="apalache/ModLemmas256.tla", inv="HalfNoPre", expect_error=True, tiers=("thorough",))]
PROPS["C13"]["apalache"] = [dict(spec="apalache/SignedLemmas256.tla", inv="Inv"),
                            dict(spec="apalache/SignedLemmas256.tla", inv="AddWrongRule", expect_error=True)]
PROPS["C06"]["apalache"] = [dict(spec="apalache/SignedLemmas256.tla", inv="CmpOK"),
                            dict(spec="apalache/SignedLemmas256.tla", inv="RawLtWrong", expect_error=True)]
PROPS["C07"]["tlaps"] = [dict(spec="proofs/ModArithProofs.tla")]
PROPS["C08"]["tlaps"] = [dict(spec="proofs/ModArithProofs.tla")]
PROPS["C13"]["tlaps"] = [dict(spec="proofs/SignedProofs.tla")]
PROPS["C06"]["tlaps"] = [dict(spec="proofs/SignedProofs.tla")]

# input classes (tla/Labels.tla) that every run of the recorder must populate: the recorders' vacuity guard
import re as _re, os as _os
_labels = sorted(set(_re.findall(r'"(C\d\d\.[a-z0-9_]+)"', open(_os.path.join(_os.path.dirname(_os.path.dirname(_os.path.abspath(__file__))), "tla", "Labels.tla")).read())))
for _l in _labels:
    PROPS[_l[:3]].setdefault("required_classes", []).append(_l)
