--------------------------------- MODULE Inv ---------------------------------
(***************************************************************************)
(* Inversion modulo 2^k and modulo an arbitrary modulus as the crate       *)
(* computes them (src/uint/inv_mod.rs), at BITS-bit integers:              *)
(*   Inv2k       bit-serial algorithm (de la Fe, Ferrer, Alg. 3), the      *)
(*               constant-time variant: BITS rounds, the rounds i >= k     *)
(*               are dummies that must not change the result (92-123)      *)
(*   InvMod      modulus m = s * 2^k: inverse mod s (odd part; here by its *)
(*               specification, the safegcd inverter is exercised on the   *)
(*               real code) and mod 2^k, recombined by one Garner step     *)
(*               (138-173), including m = 0 (ZeroFix: see §11.1), m = 1,   *)
(*               m = 2^k and m odd                                         *)
(* TLC explores ALL a and ALL m < 2^BITS (and all k for Inv2k): the result *)
(* is some iff gcd(a, m) = 1, and then a*x = 1 (mod m) with x < m (m >= 2).*)
(***************************************************************************)
EXTENDS Integers, TLC
CONSTANTS BITS, ZeroFix
R == 2 ^ BITS
RECURSIVE Gcd(_, _)
Gcd(a, b) == IF b = 0 THEN a ELSE Gcd(b, a % b)
RECURSIVE Tz(_)
Tz(v) == IF v = 0 THEN BITS ELSE IF v % 2 = 1 THEN 0 ELSE 1 + Tz(v \div 2)
None == -1

RECURSIVE Inv2kLoop(_, _, _, _, _)
Inv2kLoop(a, k, i, b, x) ==                       \* constant-time variant: i runs to BITS, rounds >= k are dummies
  IF i >= BITS THEN x
  ELSE LET xi == b % 2
           b2 == (IF xi = 1 THEN (b - a + R) % R ELSE b) \div 2
           x2 == IF xi = 1 /\ i < k THEN x + 2 ^ i ELSE x
       IN Inv2kLoop(a, k, i + 1, b2, x2)
Inv2k(a, k) == [val |-> Inv2kLoop(a, k, 0, 1, 0), some |-> (k = 0 \/ a % 2 = 1)]

(* specification of the odd-modulus inverter (safegcd): value in [0, s) when gcd = 1; *)
(* for s = 1 the tree returns 1 (documented range (-2m, m) collapses) — either is allowed here *)
InvOddSet(a, s) == IF s % 2 = 0 \/ Gcd(a % s, s) # 1 THEN {None}
                   ELSE IF s = 1 THEN {0, 1}
                   ELSE {x \in 0..s - 1 : (a * x) % s = 1}

InvMod(a, m, ao) ==                               \* ao = what the odd-modulus inverter returned (None or a value)
  LET k   == Tz(m)
      s   == IF k >= BITS THEN 0 ELSE m \div 2 ^ k     \* overflowing_shr(k).unwrap_or(ZERO)
      sodd == s % 2 = 1
      asome == ao # None /\ sodd
      b   == Inv2k(a, k)
      isSome == asome /\ b.some
      av  == IF asome THEN ao ELSE 0
      bv  == IF b.some THEN b.val ELSE 0
      si  == Inv2k(s, k)
      moi == IF si.some THEN si.val ELSE (IF ZeroFix THEN 0 ELSE None)     \* expect("inverse mod 2^k exists") in the pinned tree
      mask == IF k >= BITS THEN R - 1 ELSE 2 ^ k - 1
      t   == IF moi = None THEN 0 ELSE ((((bv - av + R) % R) * moi) % R) % (mask + 1)
  IN [some |-> isSome, val |-> (av + s * t) % R, panics |-> moi = None]

VARIABLES a, m
Init == a \in 0..R - 1 /\ m \in 0..R - 1
Next == UNCHANGED <<a, m>>
Spec == Init /\ [][Next]_<<a, m>>

Inv2kOK == \A k \in 0..BITS :
  LET r == Inv2k(a, k) IN
  /\ r.some = (k = 0 \/ a % 2 = 1)
  /\ r.some => (r.val < 2 ^ k /\ ((a * r.val) % (2 ^ k)) = (1 % (2 ^ k)))
InvModOK == \A ao \in InvOddSet(a, IF Tz(m) >= BITS THEN 0 ELSE m \div 2 ^ Tz(m)) :
  LET r == InvMod(a, m, ao) IN
  /\ ~r.panics
  /\ r.some = (m # 0 /\ Gcd(a % (IF m = 0 THEN 1 ELSE m), m) = 1)
  /\ (r.some /\ m >= 2) => (r.val < m /\ (a * r.val) % m = 1)
=============================================================================
