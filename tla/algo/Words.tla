-------------------------------- MODULE Words --------------------------------
(***************************************************************************)
(* Word-level primitives of the crate at word size W, for ALL word values: *)
(*   adc / sbb / mac (src/primitives.rs 22-73): carry-in may be any word,  *)
(*       a borrow is consumed through its top bit only and produced as the *)
(*       all-ones mask; "hi cannot overflow" in mac                        *)
(*   comparison predicates from Hacker's Delight as bit formulas           *)
(*       (src/const_choice.rs 95-175): nonzero, eq, lt, gt, le             *)
(*   multi-limb eq / lt / gt / three-way cmp of Uint (src/uint/cmp.rs      *)
(*       40-104): xor-accumulate, final borrow, `(borrow & 2) - 1`         *)
(*   signed compare by flipping the sign bit (src/int/cmp.rs 31-55)        *)
(***************************************************************************)
EXTENDS Integers, Sequences, TLC
CONSTANTS W, N
B == 2 ^ W
MAXW == B - 1
RECURSIVE BitOp(_, _, _, _)
BitOp(op, x, y, i) ==                                  \* bitwise op on the low i bits
  IF i = 0 THEN 0
  ELSE LET a == x % 2  b == y % 2
           r == CASE op = "and" -> IF a = 1 /\ b = 1 THEN 1 ELSE 0
                  [] op = "or"  -> IF a = 1 \/ b = 1 THEN 1 ELSE 0
                  [] op = "xor" -> IF a # b THEN 1 ELSE 0
       IN r + 2 * BitOp(op, x \div 2, y \div 2, i - 1)
And(x, y) == BitOp("and", x, y, W)
Or(x, y)  == BitOp("or", x, y, W)
Xor(x, y) == BitOp("xor", x, y, W)
Not(x)    == MAXW - x
WSub(x, y) == (x - y + B) % B
WNeg(x)    == (B - x) % B
Top(x)     == x \div 2 ^ (W - 1)                         \* x >> (W - 1)

Adc(l, r, c) == LET t == l + r + c IN <<t % B, t \div B>>
Sbb(l, r, borrow) ==                                     \* wide wrapping subtraction, borrow = top bit of the word
  LET bb  == Top(borrow)
      ret == (((l - (r + bb)) % (B * B)) + (B * B)) % (B * B)
  IN <<ret % B, ret \div B>>
Mac(a, b, c, carry) ==
  LET ret == a + b * c
      lo0 == ret % B   hi0 == ret \div B
      lo  == (lo0 + carry) % B
      cc  == (lo0 + carry) \div B
  IN <<lo, (hi0 + cc) % B, hi0 + cc>>                     \* third component: the unwrapped hi

Nonzero(v) == Top(Or(v, WNeg(v)))                        \* (v | -v) >> (W-1)
EqW(x, y)  == 1 - Nonzero(Xor(x, y))
LtW(x, y)  == Top(Or(And(Not(x), y), And(Or(Not(x), y), WSub(x, y))))
LeW(x, y)  == Top(And(Or(Not(x), y), Or(Xor(x, y), Not(WSub(y, x)))))

RECURSIVE ValR(_, _)
ValR(s, i) == IF i = 0 THEN 0 ELSE s[i] * B ^ (i - 1) + ValR(s, i - 1)
Val(s) == ValR(s, N)
RECURSIVE SbbChain(_, _, _, _, _)
SbbChain(l, r, i, borrow, diff) ==                       \* l - r limb-wise: <<final borrow, OR of result limbs>>
  IF i > N THEN <<borrow, diff>>
  ELSE LET s == Sbb(l[i], r[i], borrow) IN SbbChain(l, r, i + 1, s[2], Or(diff, s[1]))
RECURSIVE XorAcc(_, _, _)
XorAcc(l, r, i) == IF i = 0 THEN 0 ELSE Or(Xor(l[i], r[i]), XorAcc(l, r, i - 1))
UintEq(l, r) == 1 - Nonzero(XorAcc(l, r, N))
UintLt(l, r) == IF SbbChain(l, r, 1, 0, 0)[1] = MAXW THEN 1 ELSE 0          \* from_word_mask(borrow)
UintGt(l, r) == UintLt(r, l)
UintCmp(l, r) ==                                          \* cmp computes rhs - lhs
  LET c == SbbChain(r, l, 1, 0, 0)
      sgn == And(c[1], 2) - 1
  IN Nonzero(c[2]) * sgn
FlipTop(s) == [s EXCEPT ![N] = Xor(s[N], 2 ^ (W - 1))]
SVal(s) == LET v == Val(s) IN IF v >= (B ^ N) \div 2 THEN v - B ^ N ELSE v
IntLt(l, r) == UintLt(FlipTop(l), FlipTop(r))

VARIABLES x, y, c, l, r
Word == 0..MAXW
Init == x \in Word /\ y \in Word /\ c \in Word /\ l \in [1..N -> Word] /\ r \in [1..N -> Word]
Next == UNCHANGED <<x, y, c, l, r>>
Spec == Init /\ [][Next]_<<x, y, c, l, r>>

AdcOK == LET a == Adc(x, y, c) IN a[1] + a[2] * B = x + y + c /\ a[2] \in {0, 1, 2} /\ a[1] \in Word
SbbOK == LET s == Sbb(x, y, c) bb == IF c >= B \div 2 THEN 1 ELSE 0 IN
         /\ s[1] = (x - y - bb + 2 * B) % B
         /\ s[2] = (IF x < y + bb THEN MAXW ELSE 0)
MacOK == \A k \in {0, 1, MAXW \div 2, MAXW} :
         LET m == Mac(l[1], x, y, k) IN m[1] + m[2] * B = l[1] + x * y + k /\ m[3] < B   \* hi cannot overflow
PredOK == /\ Nonzero(x) = (IF x # 0 THEN 1 ELSE 0)
          /\ EqW(x, y) = (IF x = y THEN 1 ELSE 0)
          /\ LtW(x, y) = (IF x < y THEN 1 ELSE 0)
          /\ LeW(x, y) = (IF x <= y THEN 1 ELSE 0)
CmpOK == /\ UintEq(l, r) = (IF Val(l) = Val(r) THEN 1 ELSE 0)
         /\ UintLt(l, r) = (IF Val(l) < Val(r) THEN 1 ELSE 0)
         /\ UintGt(l, r) = (IF Val(l) > Val(r) THEN 1 ELSE 0)
         /\ UintCmp(l, r) = (IF Val(l) < Val(r) THEN -1 ELSE IF Val(l) > Val(r) THEN 1 ELSE 0)
         /\ IntLt(l, r) = (IF SVal(l) < SVal(r) THEN 1 ELSE 0)
=============================================================================
