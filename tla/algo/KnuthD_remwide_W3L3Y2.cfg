SPECIFICATION Spec
CONSTANTS W = 3
 L = 3
 YC = 2
 Mode = "remwide"
INVARIANT Exact
INVARIANT PreHoldsEverywhere
CHECK_DEADLOCK FALSE
