-------------------------------- MODULE JC12 --------------------------------
(* C12 — NonZero and Odd wrappers can never hold an invalid value.          *)
(* Every event is one public way of producing a NonZero<T> / Odd<T>;        *)
(* w = "nz" | "odd" names the wrapper, bits the width of T; values of Int   *)
(* are two's-complement bit patterns (zero / odd are properties of the      *)
(* pattern).  The invariant  Valid(w, v)  is demanded of every produced     *)
(* value v, together with the value the producer's documentation states.    *)
(*                                                                          *)
(* "mk"     x -> v : from the value x.  Valid x: ok, v = x (vp = bits for   *)
(*          boxed results).  Invalid x: exactly the documented failure z    *)
(*          ("none" for the CtOption constructors, "panic" for new_unwrap / *)
(*          expect / unwrap).                                               *)
(* "mapobs" CtOption<W>::map: the closure observes x when valid, else       *)
(*          W::default() (documented by subtle) — a valid value either way. *)
(* "const"  ONE, MAX, Default.                                              *)
(* "select" conditional selection / assignment / swap between valid values. *)
(* "random" xs = samples of the plain type drawn from the same scripted     *)
(*          stream.  NonZero: rejection sampling (documented): the first    *)
(*          non-zero sample.  Odd: an odd value that is some sample with    *)
(*          its low bit forced.  Stream exhausted first: the failure z      *)
(*          ("err"; "any" = err or panic where the doc is silent).          *)
(* "decode" enc read in the stated byte order en ("be" | "le") as raw bytes *)
(*          ("bytes", "array") or hex digits ("hex"; malformed or wrongly   *)
(*          sized hex panics, as documented).                               *)
(* "serde"  x = what the plain type deserialises to from the same encoding  *)
(*          (absent if it fails): ok v = x iff x exists and is valid, else  *)
(*          an error.                                                       *)
(* "abs"    NonZero<Int>::abs_sign -> non-zero magnitude and sign.          *)
(* "widen"  NonZero<BoxedUint>::widen(pr): value kept, precision pr rounded *)
(*          up; panics (documented) when pr is below the current precision. *)
EXTENDS BigNat

LOCAL Has(e, f) == f \in DOMAIN e

LOCAL Valid(w, v) == IF w = "nz" THEN v # Zero ELSE IsOdd(v)

LOCAL Up64(p) == 64 * ((p + 63) \div 64)

LOCAL JMk(e) ==
  IF Valid(e.w, e.x)
    THEN /\ e.k = "ok"
         /\ e.v = e.x
         /\ Valid(e.w, e.v)
         /\ Has(e, "vp") => e.vp = e.bits
    ELSE /\ e.z \in {"none", "panic"}
         /\ e.k = e.z

(* a constructor from a primitive wider than the type: when the argument does not fit it may refuse *)
(* (panic) but must never produce an invalid wrapped value                                           *)
LOCAL JMkFit(e) ==
  IF Fits(e.x, e.bits) THEN JMk(e)
  ELSE e.k = "panic" \/ (e.k = "ok" /\ Valid(e.w, e.v))

LOCAL JMapObs(e) ==
  /\ e.k = "ok"
  /\ Valid(e.w, e.v)
  /\ IF Valid(e.w, e.x) THEN e.v = e.x /\ e.s = 1
                        ELSE e.v = e.dflt /\ e.s = 0

LOCAL MaxOf(e) == IF e.sg = 1 THEN Max2k(e.bits - 1) ELSE Max2k(e.bits)

LOCAL JConst(e) ==
  /\ e.k = "ok"
  /\ Valid(e.w, e.v)
  /\ CASE e.name = "one"     -> e.v = One
       [] e.name = "max"     -> e.v = MaxOf(e)
       [] e.name = "default" -> IF e.w = "nz" THEN e.v = One            \* hand-written Default = ONE
                                ELSE e.v = One \/ e.v = MaxOf(e)        \* any canonical valid constant
       [] OTHER -> FALSE

LOCAL JSelect(e) ==
  /\ e.k = "ok"
  /\ Valid(e.w, e.a) /\ Valid(e.w, e.b)          \* sanity of the recorder
  /\ e.v = (IF e.c = 1 THEN e.b ELSE e.a)
  /\ Valid(e.w, e.v)
  /\ Has(e, "v2") => /\ e.v2 = (IF e.c = 1 THEN e.a ELSE e.b)
                     /\ Valid(e.w, e.v2)

LOCAL RFail(e) == IF e.z = "any" THEN e.k \in {"err", "panic"} ELSE e.k = e.z

LOCAL JRandom(e) ==
  LET n == Len(e.xs) IN
  IF e.w = "nz"
    THEN LET idx == {i \in 1..n : e.xs[i] # Zero} IN
         IF idx # {}
           THEN /\ e.k = "ok"
                /\ e.v = e.xs[CHOOSE i \in idx : \A j \in idx : i <= j]
                /\ Valid("nz", e.v)
           ELSE RFail(e)
    ELSE IF n > 0
           THEN /\ e.k = "ok"
                /\ Valid("odd", e.v)
                /\ \E i \in 1..n : e.v = Or(e.xs[i], One)
                /\ Has(e, "vp") => e.vp = e.xp
           ELSE RFail(e)

LOCAL HexNib(c) == IF c >= 48 /\ c <= 57 THEN c - 48
                   ELSE IF c >= 97 /\ c <= 102 THEN c - 87
                   ELSE IF c >= 65 /\ c <= 70 THEN c - 55
                   ELSE 99

(* the value an encoding denotes in the stated byte order: [ok, x] *)
LOCAL Decoded(e) ==
  IF e.fmt = "hex"
    THEN LET nb == [i \in 1..Len(e.enc) |-> HexNib(e.enc[i])]
             wf == Len(e.enc) * 4 = e.bits /\ \A i \in 1..Len(e.enc) : nb[i] < 16
         IN IF ~wf THEN [ok |-> FALSE, x |-> Zero]
            ELSE [ok |-> TRUE,
                  x  |-> IF e.en = "be" THEN FromDigits(nb, 16)
                         ELSE FromLE([i \in 1..(Len(e.enc) \div 2) |-> 16 * nb[2 * i - 1] + nb[2 * i]])]
    ELSE [ok |-> Len(e.enc) * 8 = e.bits,
          x  |-> IF e.en = "be" THEN FromBE(e.enc) ELSE FromLE(e.enc)]

LOCAL JDecode(e) ==
  LET d == Decoded(e) IN
  IF ~d.ok THEN e.fmt = "hex" /\ e.k = "panic"   \* malformed / wrongly sized hex (documented panic)
  ELSE IF Valid(e.w, d.x)
    THEN e.k = "ok" /\ e.v = d.x /\ Valid(e.w, e.v)
    ELSE e.z \in {"none", "panic"} /\ e.k = e.z

LOCAL JSerde(e) ==
  IF Has(e, "x") /\ Valid(e.w, e.x)
    THEN e.k = "ok" /\ e.v = e.x /\ Valid(e.w, e.v)
    ELSE e.k = "err"

LOCAL JAbs(e) ==
  LET z == SVal(e.x, e.bits) IN
  /\ e.k = "ok"
  /\ e.v = z.mag
  /\ e.v # Zero
  /\ e.s = (IF z.neg THEN 1 ELSE 0)

LOCAL JWiden(e) ==
  IF e.pr >= e.bits
    THEN e.k = "ok" /\ e.v = e.x /\ e.v # Zero /\ e.vp = Up64(e.pr)
    ELSE e.k = "panic"

JudgeC12(e, rg) ==
  CASE e.op = "mk"     -> JMk(e)
    [] e.op = "mkfit"  -> JMkFit(e)
    [] e.op = "mapobs" -> JMapObs(e)
    [] e.op = "const"  -> JConst(e)
    [] e.op = "select" -> JSelect(e)
    [] e.op = "random" -> JRandom(e)
    [] e.op = "decode" -> JDecode(e)
    [] e.op = "serde"  -> JSerde(e)
    [] e.op = "abs"    -> JAbs(e)
    [] e.op = "widen"  -> JWiden(e)
    [] OTHER -> FALSE
=============================================================================
