SPECIFICATION Spec
INVARIANT NibbleOK
INVARIANT ByteOK
CHECK_DEADLOCK FALSE
