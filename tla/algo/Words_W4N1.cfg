SPECIFICATION Spec
CONSTANTS W = 4
 N = 1
INVARIANT AdcOK
INVARIANT SbbOK
INVARIANT MacOK
INVARIANT PredOK
INVARIANT CmpOK
CHECK_DEADLOCK FALSE
