SPECIFICATION Spec
CONSTANTS BITS = 5
 FloorSign = "divisor"
INVARIANT AddOK
INVARIANT SubOK
INVARIANT NegOK
INVARIANT AbsOK
INVARIANT MulOK
INVARIANT TruncOK
INVARIANT FloorOK
CHECK_DEADLOCK FALSE
