-------------------------------- MODULE JC16 --------------------------------
(* C16 — contract of the recorded events of this property (stub).           *)
EXTENDS BigNat

JudgeC16(e, rg) == FALSE
=============================================================================
