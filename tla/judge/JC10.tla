-------------------------------- MODULE JC10 --------------------------------
(* C10 — contract of the recorded events of this property (stub).           *)
EXTENDS BigNat

JudgeC10(e, rg) == FALSE
=============================================================================
