use crypto_bigint::*;
use crypto_bigint::rand_core::{RngCore, TryRngCore};
use num_bigint::BigUint;
use std::panic::{catch_unwind, AssertUnwindSafe};
static KINDS: std::sync::Mutex<std::collections::BTreeMap<String,u32>> = std::sync::Mutex::new(std::collections::BTreeMap::new());
fn fail(what: &str, detail: String) { let mut m = KINDS.lock().unwrap(); let e = m.entry(what.to_string()).or_insert(0u32); *e += 1; if *e <= 3 { let mut d = detail; d.truncate(260); println!("FAIL {}: {}", what, d); } }
struct Rng(u64);
impl Rng { fn next(&mut self) -> u64 { self.0 ^= self.0 << 13; self.0 ^= self.0 >> 7; self.0 ^= self.0 << 17; self.0 }
  fn below(&mut self, n: u64) -> u64 { self.next() % n }
  fn limb(&mut self) -> u64 { match self.below(100) { 0..=24 => 0, 25..=49 => u64::MAX, 50..=55 => 1, 56..=61 => u64::MAX-1, 62..=67 => 1<<63, 68..=71 => (1<<63)-1, 72..=75 => (1<<63)+1, 76..=79 => 1u64 << self.below(64), 80..=83 => !(1u64 << self.below(64)), _ => self.next() } }
  fn limbs(&mut self, n: usize) -> Vec<u64> { (0..n).map(|_| self.limb()).collect() } }
fn big(l: &[u64]) -> BigUint { let mut b = Vec::new(); for w in l { b.extend_from_slice(&w.to_le_bytes()); } BigUint::from_bytes_le(&b) }
fn bx(l: &[u64]) -> BoxedUint { BoxedUint::from_words(l.iter().copied()) }
fn bb(x: &BoxedUint) -> BigUint { BigUint::from_bytes_le(&x.to_le_bytes()) }
fn pow2(n: usize) -> BigUint { BigUint::from(1u8) << n }
// scripted RNG that records consumption
struct Script { words: Vec<u64>, pos: usize, log: Vec<(usize,usize)> } // byte-level stream
impl Script { fn bytes(&mut self, dst: &mut [u8]) { if self.pos > 4000 { panic!("stream exhausted"); } for b in dst.iter_mut() { let w = self.words[(self.pos / 8) % self.words.len()]; *b = (w >> (8 * (self.pos % 8))) as u8; self.pos += 1; } self.log.push((dst.len(), self.pos)); } }
impl RngCore for Script { fn next_u32(&mut self) -> u32 { let mut b = [0u8;4]; self.bytes(&mut b); u32::from_le_bytes(b) } fn next_u64(&mut self) -> u64 { let mut b = [0u8;8]; self.bytes(&mut b); u64::from_le_bytes(b) } fn fill_bytes(&mut self, dst: &mut [u8]) { self.bytes(dst) } }
fn main() {
  std::panic::set_hook(Box::new(|_| {}));
  let mut r = Rng(0xD1B54A32D192ED03);
  for it in 0..30000 {
    let la = 1 + r.below(6) as usize; let lb = 1 + r.below(6) as usize;
    let a = r.limbs(la); let b = r.limbs(lb); let (xa, xb) = (bx(&a), bx(&b)); let (va, vb) = (big(&a), big(&b));
    let lm = la.max(lb); let modw = pow2(64*lm);
    // adc / sbb / wrapping with mixed precision: documented "widened to the same width as the widest input"
    let (s, c) = xa.adc(&xb, Limb::ZERO); if bb(&s) + BigUint::from(c.0) * &modw != &va + &vb || s.nlimbs() != lm { fail("boxed adc mixed", format!("{:?} {:?}", a, b)); }
    let (d, bo) = xa.sbb(&xb, Limb::ZERO); let exp = if va >= vb { &va - &vb } else { &modw + &va - &vb }; if bb(&d) != exp || (bo.0 != 0) != (va < vb) { fail("boxed sbb mixed", format!("{:?} {:?}", a, b)); }
    if bb(&xa.wrapping_add(&xb)) != (&va + &vb) % &modw { fail("boxed wrapping_add mixed", format!("{:?} {:?}", a, b)); }
    if bb(&xa.wrapping_sub(&xb)) != exp { fail("boxed wrapping_sub mixed", format!("{:?} {:?}", a, b)); }
    let ca: Option<BoxedUint> = xa.checked_add(&xb).into(); if ca.is_some() != (&va + &vb < modw) { fail("boxed checked_add mixed is_some", format!("{:?} {:?}", a, b)); }
    let cs: Option<BoxedUint> = xa.checked_sub(&xb).into(); if cs.is_some() != (va >= vb) { fail("boxed checked_sub mixed is_some", format!("{:?} {:?}", a, b)); }
    // comparisons mixed precision
    if (xa == xb) != (va == vb) || (xa < xb) != (va < vb) || xa.cmp(&xb) != va.cmp(&vb) { fail("boxed cmp mixed", format!("{:?} {:?}", a, b)); }
    // bit ops mixed
    let o = catch_unwind(AssertUnwindSafe(|| xa.bitand(&xb))); if let Ok(o) = o { if bb(&o) != (&va & &vb) { fail("boxed bitand mixed", format!("{:?} {:?}", a, b)); } }
    // operators with primitives
    let p = r.next() as u128 * 3; let res = catch_unwind(AssertUnwindSafe(|| &xa + p)); match res { Ok(v) => if la >= 2 && bb(&v) != (&va + BigUint::from(p)) % pow2(64*la) && bb(&v) != (&va + BigUint::from(p)) { fail("boxed + u128", format!("{:?} {}", a, p)); }, Err(_) => {} }
    // same-precision modular ops
    if la == lb && vb > BigUint::from(0u8) {
      let x = { let v = &va % &vb; let mut by = v.to_bytes_le(); by.resize(8*la, 0); BoxedUint::from_le_slice(&by, 64*la as u32).unwrap() };
      let c2 = r.limbs(la); let y = { let v = big(&c2) % &vb; let mut by = v.to_bytes_le(); by.resize(8*la, 0); BoxedUint::from_le_slice(&by, 64*la as u32).unwrap() };
      let (xv, yv) = (bb(&x), bb(&y));
      if bb(&x.add_mod(&y, &xb)) != (&xv + &yv) % &vb { fail("boxed add_mod", format!("x={} y={} p={}", xv, yv, vb)); }
      if bb(&x.sub_mod(&y, &xb)) != (&xv + &vb - &yv) % &vb { fail("boxed sub_mod", format!("x={} y={} p={}", xv, yv, vb)); }
      if bb(&x.neg_mod(&xb)) != (&vb - &xv) % &vb { fail("boxed neg_mod", format!("x={} p={}", xv, vb)); }
      if bb(&x.double_mod(&xb)) != (&xv + &xv) % &vb { fail("boxed double_mod", format!("x={} p={}", xv, vb)); }
      if b[0] & 1 == 1 { let res = catch_unwind(AssertUnwindSafe(|| x.mul_mod(&y, &xb))); match res { Ok(v) => if bb(&v) != (&xv * &yv) % &vb { fail("boxed mul_mod", format!("x={} y={} p={}", xv, yv, vb)); }, Err(_) => fail("boxed mul_mod panic", format!("p={}", vb)) } }
      let c = Limb(r.limb()); if c.0 != 0 { let pm = pow2(64*la) - BigUint::from(c.0); let to = |v: &BigUint| { let mut by = v.to_bytes_le(); by.resize(8*la,0); BoxedUint::from_le_slice(&by, 64*la as u32).unwrap() };
        let (x2, y2) = (to(&(&va % &pm)), to(&(&vb % &pm))); let (x2v, y2v) = (bb(&x2), bb(&y2));
        let res = catch_unwind(AssertUnwindSafe(|| x2.mul_mod_special(&y2, c))); match res { Ok(v) => if bb(&v) != (&x2v * &y2v) % &pm { fail(if c.0 == u64::MAX { "boxed mul_mod_special c=MAX" } else { "boxed mul_mod_special" }, format!("x={} y={} c={}", x2v, y2v, c.0)); }, Err(_) => fail("boxed mul_mod_special panic", format!("c={}", c.0)) }
        if bb(&x2.sub_mod_special(&y2, c)) != (&x2v + &pm - &y2v) % &pm { fail("boxed sub_mod_special", format!("c={}", c.0)); }
        if bb(&x2.neg_mod_special(c)) != (&pm - &x2v) % &pm { fail("boxed neg_mod_special", format!("c={}", c.0)); }
      }
      // inv_mod2k
      let k = r.below(64*la as u64 + 1) as u32; let (inv, some) = xa.inv_mod2k(k); let ok = k == 0 || a[0] & 1 == 1; if bool::from(some) != ok { fail("boxed inv_mod2k is_some", format!("{:?} k={}", a, k)); } else if ok && k > 0 && (bb(&inv) * &va) % pow2(k as usize) != BigUint::from(1u8) % pow2(k as usize) { fail("boxed inv_mod2k value", format!("{:?} k={}", a, k)); }
      let (inv2, some2) = xa.inv_mod2k_vartime(k); if bool::from(some2) != ok || (ok && inv2 != inv) { fail("boxed inv_mod2k_vartime", format!("{:?} k={}", a, k)); }
    }
    // slices precision matrix
    if it % 10 == 0 { let prec = r.below(200) as u32; let len = r.below(30) as usize; let bytes: Vec<u8> = (0..len).map(|_| match r.below(4) { 0 => 0, 1 => 255, _ => r.next() as u8 }).collect();
      let v_be = BigUint::from_bytes_be(&bytes); let exp_len_ok = len <= (prec as usize + 7) / 8;
      let res = catch_unwind(AssertUnwindSafe(|| BoxedUint::from_be_slice(&bytes, prec)));
      match res { Ok(Ok(v)) => if !(exp_len_ok && v_be.bits() <= prec as u64) || bb(&v) != v_be || v.bits_precision() != prec.max(1).div_ceil(64) * 64 { fail("from_be_slice accepts", format!("prec={} len={} bytes={:?} got prec {}", prec, len, bytes, v.bits_precision())); },
        Ok(Err(e)) => { let want = if !exp_len_ok { DecodeError::InputSize } else { DecodeError::Precision }; if (exp_len_ok && v_be.bits() <= prec as u64) || e != want { fail("from_be_slice error class", format!("prec={} len={} {:?} bits={}", prec, len, e, v_be.bits())); } },
        Err(_) => fail("from_be_slice panic", format!("prec={} len={}", prec, len)) }
      let v_le = BigUint::from_bytes_le(&bytes);
      let res = catch_unwind(AssertUnwindSafe(|| BoxedUint::from_le_slice(&bytes, prec)));
      match res { Ok(Ok(v)) => if !(exp_len_ok && v_le.bits() <= prec as u64) || bb(&v) != v_le { fail("from_le_slice accepts", format!("prec={} len={}", prec, len)); },
        Ok(Err(e)) => { let want = if !exp_len_ok { DecodeError::InputSize } else { DecodeError::Precision }; if (exp_len_ok && v_le.bits() <= prec as u64) || e != want { fail("from_le_slice error class", format!("prec={} len={} {:?}", prec, len, e)); } },
        Err(_) => fail("from_le_slice panic", format!("prec={} len={}", prec, len)) } }
    // RNG: fixed vs boxed consume identically
    if it % 5 == 0 && la <= 4 { let _ = catch_unwind(AssertUnwindSafe(|| {
      let words = r.limbs(6); let m = { let mut m = a.clone(); if m.iter().all(|&w| w == 0) { m[0] = 1; } m };
      macro_rules! fixed { ($n:literal) => {{ let mut w = [0u64; $n]; w.copy_from_slice(&m); let mf = NonZero::new(Uint::<$n>::from_words(w)).unwrap(); let mut s1 = Script { words: words.clone(), pos: 0, log: vec![] }; let vf = Uint::<$n>::random_mod(&mut s1, &mf); (vf.to_words().iter().flat_map(|w| w.to_le_bytes()).collect::<Vec<u8>>(), s1.log, s1.pos) }} }
      let (fb, flog, fpos) = match la { 1 => fixed!(1), 2 => fixed!(2), 3 => fixed!(3), _ => fixed!(4) };
      let mut s2 = Script { words: words.clone(), pos: 0, log: vec![] }; let vb2 = BoxedUint::random_mod(&mut s2, &NonZero::new(bx(&m)).unwrap());
      if fb != vb2.to_le_bytes().to_vec() || flog != s2.log || fpos != s2.pos { fail("random_mod fixed vs boxed", format!("m={:?} words={:?}", m, words)); }
      if BigUint::from_bytes_le(&fb) >= big(&m) { fail("random_mod range", format!("m={:?}", m)); }
      let bits = r.below(64*la as u64 + 1) as u32;
      macro_rules! fbits { ($n:literal) => {{ let mut s1 = Script { words: words.clone(), pos: 0, log: vec![] }; let v = Uint::<$n>::try_random_bits(&mut s1, bits).map(|v| v.to_words().iter().flat_map(|w| w.to_le_bytes()).collect::<Vec<u8>>()); (v.ok(), s1.log) }} }
      let (fv, flog) = match la { 1 => fbits!(1), 2 => fbits!(2), 3 => fbits!(3), _ => fbits!(4) };
      let mut s2 = Script { words: words.clone(), pos: 0, log: vec![] }; let bv = BoxedUint::try_random_bits_with_precision(&mut s2, bits, 64*la as u32).map(|v| v.to_le_bytes().to_vec()).ok();
      if fv != bv || flog != s2.log { fail("random_bits fixed vs boxed", format!("bits={} la={}", bits, la)); }
      if let Some(v) = &fv { if BigUint::from_bytes_le(v).bits() > bits as u64 { fail("random_bits range", format!("bits={}", bits)); } }
    })); }
  }
  println!("kinds={:?}", KINDS.lock().unwrap());
}
