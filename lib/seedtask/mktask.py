import json, os, subprocess, sys
# usage: mktask.py <round>: creates /tmp/mut/R<round>C01..20 (detached worktrees of /repo at HEAD) with OUT/TASK.txt from TEMPLATE.txt + FOCUS_r<round>.txt
V='/verif'
tpl=open(V+'/lib/seedtask/TEMPLATE.txt').read()
special=open(V+'/lib/seedtask/SPECIAL_C01.txt').read()
ROUND=sys.argv[1]
FOCUS='\n'+open(V+'/lib/seedtask/FOCUS_r%s.txt'%ROUND).read()+'\n'
props={}
for l in open(V+'/properties.jsonl'):
    d=json.loads(l); props[d['id']]=d
for i in range(1,21):
    pid='C%02d'%i; d=props[pid]; wt='/tmp/mut/R'+ROUND+pid
    subprocess.run(['git','-C','/repo','worktree','add','--detach',wt,'HEAD'],capture_output=True)
    os.makedirs(wt+'/OUT',exist_ok=True)
    t=tpl.format(wt=wt,id=pid,title=d['title'],statement=d['statement'],quant=d['quantifier']['text'],why=d['why_tests_cant'],anchors=json.dumps(d['anchors']))
    # insert the focus paragraph before the "For each change" paragraph
    k=t.index('For each change i in 1..3')
    t=t[:k]+FOCUS.lstrip('\n')+'\n'+t[k:]
    if pid=='C01': t=t+special.replace('/tmp/mut/C01',wt)
    open(wt+'/OUT/TASK.txt','w').write(t)
print('ok')
