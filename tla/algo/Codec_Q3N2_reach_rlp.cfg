SPECIFICATION Spec
CONSTANTS Q = 3
 NB = 2
 MaxLen = 5
 T = 1
 LS = 1
 Mut = 0
INVARIANT ReachLongRlp
CHECK_DEADLOCK FALSE
