SPECIFICATION Spec
CONSTANTS BITS = 14
 ROUNDS_DELTA = 2
INVARIANT CtExact
INVARIANT VartimeExact
INVARIANT FewerRoundsEnough
CHECK_DEADLOCK FALSE
