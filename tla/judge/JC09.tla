-------------------------------- MODULE JC09 --------------------------------
(* C09 — contract of the recorded events of this property (stub).           *)
EXTENDS BigNat

JudgeC09(e, rg) == FALSE
=============================================================================
