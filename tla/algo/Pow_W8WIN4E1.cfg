SPECIFICATION Spec
CONSTANTS W = 8
 WIN = 4
 EL = 1
 MMAX = 13
 NB = 1
INVARIANT Exact
CHECK_DEADLOCK FALSE
