"""Binding self-test: corrupt one output field of K recorded events and require TLC to reject exactly
those events (and no others); drop nothing else.  Shows that the trace spec constrains every logged
outcome, not only the trace length."""
import json, os, random, shutil, sys
import vcheck


def corrupt(e, rnd):
    keys = list(e.keys())
    if "k" not in keys:
        return None
    outs = keys[keys.index("k") + 1:]
    if e["k"] == "ok" and outs and rnd.random() < 0.85:
        f = rnd.choice(outs)
        v = e[f]
        if isinstance(v, list) and all(isinstance(x, int) for x in v):
            v = list(v)
            if v and rnd.random() < 0.7:
                i = rnd.randrange(len(v))
                v[i] ^= 1 << rnd.randrange(8)
                while v and v[-1] == 0 and f not in ("s", "bytes", "enc", "str"):
                    v.pop()
            else:
                v = v + [1]
            e[f] = v
        elif isinstance(v, int):
            e[f] = v + 1 if v < 2 ** 30 else v - 1
        elif isinstance(v, list):
            e[f] = v + [[1]]
        elif isinstance(v, str):
            e[f] = v + "x"
        else:
            return None
        return "field " + f
    # flip the outcome class
    old = e["k"]
    e["k"] = "none" if old != "none" else "panic"
    return "outcome %s->%s" % (old, e["k"])


def selftest(prop, spec, k=60, seed=7):
    wdir = os.path.join(vcheck.WORK, prop + "_selftest")
    shutil.rmtree(wdir, ignore_errors=True)
    os.makedirs(wdir)
    vcheck.ensure_classes()
    binpath, _ = vcheck.cargo_build(spec["bin"], "release")
    trace = os.path.join(wdir, "trace.ndjson")
    env = spec["pre"](prop, "quick", seed, wdir).get("env", {}) if "pre" in spec else {}
    vcheck.record(binpath, "quick", seed, trace, extra=spec.get("record_args", {}).get("quick"), env=env)
    lines = open(trace).read().splitlines()
    rnd = random.Random(seed)
    n = len(lines)
    # sample across the file so that every event family is hit
    picks = sorted(rnd.sample(range(n), min(k, n)))
    cor = {}
    skip = set(spec.get("selftest_skip_ops", []))
    for i in picks:
        e = json.loads(lines[i])
        if e.get("op") in skip:
            continue          # events whose single outcome the property deliberately leaves open (see DESIGN)
        what = corrupt(e, rnd)
        if what:
            lines[i] = json.dumps(e, separators=(",", ":"))
            cor[i + 1] = what
    ctrace = os.path.join(wdir, "corrupted.ndjson")
    open(ctrace, "w").write("\n".join(lines) + "\n")
    base_res, _ = vcheck.validate_trace(trace, wdir, "base", spec.get("judges", [prop]))
    base_rej = set(r["base"] + i for r in base_res for i in r["rejects"])
    res, _ = vcheck.validate_trace(ctrace, wdir, "cor", spec.get("judges", [prop]))
    rej = set(r["base"] + i for r in res for i in r["rejects"])
    missed = [i for i in cor if i not in rej]
    extra = [i for i in rej if i not in cor and i not in base_rej]
    print("[selftest %s] %d events, %d corrupted, %d rejected by TLC, %d missed, %d unexpected" % (prop, n, len(cor), len(rej & set(cor)), len(missed), len(extra)))
    for i in missed[:20]:
        print("  MISSED line %d (%s): %s" % (i, cor[i], vcheck.short_event(lines[i - 1], 300)))
    for i in extra[:5]:
        print("  UNEXPECTED reject line %d" % i)
    return 0 if not missed and not extra else 1
