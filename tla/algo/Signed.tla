-------------------------------- MODULE Signed --------------------------------
(***************************************************************************)
(* Two's-complement arithmetic as the crate's Int computes it, on BITS-bit *)
(* patterns (numbers in 0..2^BITS-1), checked against the mathematical     *)
(* integers for ALL pairs (C13, C14):                                      *)
(*   overflowing_add / checked_sub: flag from operand/result sign bits     *)
(*       (src/int/add.rs 19-38, sub.rs 12-30)                              *)
(*   overflowing_neg: complement plus one, overflow only for MIN (neg.rs)  *)
(*   abs_sign / new_from_abs_sign: fit test lte(abs, MAX) or (negative and *)
(*       abs = 2^(BITS-1)) (sign.rs 17-27); checked_mul through it         *)
(*   checked_div_rem (truncating) and checked_div_rem_floor: divide        *)
(*       magnitudes, re-sign, floor adjustment (div.rs 12-81, 156-283).    *)
(*       FloorSign = "divisor" is the repaired tree, "opposing" the pinned *)
(*       one (§11.1): FloorOK is then violated.                            *)
(***************************************************************************)
EXTENDS Integers, TLC
CONSTANTS BITS, FloorSign
R == 2 ^ BITS
H == 2 ^ (BITS - 1)
MinV == -H
MaxV == H - 1
Val(p) == IF p >= H THEN p - R ELSE p                \* mathematical value of a pattern
Pat(v) == ((v % R) + R) % R                          \* pattern of v mod 2^BITS
Msb(p) == p >= H
InRange(v) == v >= MinV /\ v <= MaxV

OverflowingAdd(a, b) == LET r == (a + b) % R IN <<r, (Msb(a) = Msb(b)) /\ (Msb(a) # Msb(r))>>
CheckedSub(a, b)     == LET r == (a - b + R) % R IN <<r, (Msb(a) # Msb(b)) /\ (Msb(a) # Msb(r))>>   \* <<value, underflow>>
OverflowingNeg(a)    == OverflowingAdd(R - 1 - a, 1)
AbsSign(a)           == <<IF Msb(a) THEN (R - a) % R ELSE a, Msb(a)>>       \* magnitude as an unsigned pattern
NewFromAbsSign(mag, neg) ==                                                  \* <<pattern, fits>>
  <<IF neg THEN (R - mag) % R ELSE mag, (mag <= MaxV) \/ (neg /\ mag = H)>>
CheckedMul(a, b) ==
  LET x == AbsSign(a) y == AbsSign(b)
      prod == x[1] * y[1]
      lo == prod % R  hi == prod \div R
      r == NewFromAbsSign(lo, x[2] # y[2])
  IN <<r[1], hi = 0 /\ r[2]>>                                                \* <<pattern, is_some>>
DivRemTrunc(a, b) ==                                                         \* b # 0: <<q pattern, q fits, r pattern>>
  LET x == AbsSign(a) y == AbsSign(b)
      q == x[1] \div y[1]  r == x[1] % y[1]
      qq == NewFromAbsSign(q, x[2] # y[2])
  IN <<qq[1], qq[2], IF x[2] THEN (R - r) % R ELSE r>>
DivRemFloor(a, b) ==
  LET x == AbsSign(a) y == AbsSign(b)
      q == x[1] \div y[1]  r == x[1] % y[1]
      opp == x[2] # y[2]
      modify == r # 0 /\ opp
      q2 == IF modify THEN q + 1 ELSE q
      r2 == IF modify THEN y[1] - r ELSE r
      qq == NewFromAbsSign(q2, opp)
      negr == IF FloorSign = "divisor" THEN y[2] ELSE opp
  IN <<qq[1], qq[2], IF negr THEN (R - r2) % R ELSE r2>>

VARIABLES a, b
Init == a \in 0..R - 1 /\ b \in 0..R - 1
Next == UNCHANGED <<a, b>>
Spec == Init /\ [][Next]_<<a, b>>
va == Val(a)
vb == Val(b)
FloorDiv(n, d) == IF d > 0 THEN n \div d ELSE (-n) \div (-d)                \* TLC's \div floors for a positive divisor

AddOK == LET r == OverflowingAdd(a, b) IN r[1] = Pat(va + vb) /\ r[2] = ~InRange(va + vb)
SubOK == LET r == CheckedSub(a, b) IN r[1] = Pat(va - vb) /\ r[2] = ~InRange(va - vb)
NegOK == LET r == OverflowingNeg(a) IN r[1] = Pat(-va) /\ r[2] = (va = MinV)
AbsOK == LET r == AbsSign(a) IN r[1] = (IF va < 0 THEN -va ELSE va) /\ r[2] = (va < 0)
MulOK == LET r == CheckedMul(a, b) IN r[2] = InRange(va * vb) /\ (r[2] => r[1] = Pat(va * vb))
TruncOK == b # 0 =>
  LET r == DivRemTrunc(a, b)
      q == IF (va < 0) = (vb < 0) THEN FloorDiv(IF va < 0 THEN -va ELSE va, IF vb < 0 THEN -vb ELSE vb)
           ELSE -FloorDiv(IF va < 0 THEN -va ELSE va, IF vb < 0 THEN -vb ELSE vb)
      rm == va - q * vb
  IN /\ r[2] = InRange(q)                              \* none exactly for MIN / -1
     /\ (r[2] => r[1] = Pat(q))
     /\ r[3] = Pat(rm) /\ (rm = 0 \/ (rm < 0) = (va < 0))
FloorOK == b # 0 =>
  LET r == DivRemFloor(a, b)
      q == FloorDiv(va, vb)
      rm == va - q * vb
  IN /\ r[2] = InRange(q)
     /\ (r[2] => r[1] = Pat(q))
     /\ r[3] = Pat(rm) /\ (rm = 0 \/ (rm < 0) = (vb < 0))
=============================================================================
