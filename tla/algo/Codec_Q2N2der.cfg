SPECIFICATION Spec
CONSTANTS Q = 2
 NB = 2
 MaxLen = 6
 T = 1
 LS = 0
 Mut = 0
INVARIANT DerDecSound
INVARIANT DerRoundTrip
INVARIANT DerEncCanon
INVARIANT DerJudgeAgrees
CHECK_DEADLOCK FALSE
