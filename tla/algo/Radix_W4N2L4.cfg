SPECIFICATION Spec
CONSTANTS W = 4
 N = 2
 MAXLEN = 4
 Radices = {2, 3, 4, 10, 16}
INVARIANT DecodeOK
CHECK_DEADLOCK FALSE
