"""R3 for C08: TLC explores tla/MontyApi.tla (all histories up to a bound; random long histories in
simulation mode), checking the model-level invariants on the way, and prints one program per history."""
import json, os, re
import vcheck

PROG_RE = re.compile(r'<<"PROG", "(.*)">>')


def pre(prop, tier, seed, wdir):
    vcheck.ensure_classes()
    out_path = os.path.join(wdir, "programs.ndjson")
    models = []
    progs = []
    runs = [("MontyApi_len3.cfg", [], 8)]
    if tier == "thorough":
        runs.append(("MontyApi_len4.cfg", [], 12))
    nsim = 60 if tier == "quick" else 1500
    runs.append(("MontyApi_sim.cfg", ["-simulate", "num=%d" % nsim, "-depth", "70", "-seed", str(seed)], 1 if tier == "quick" else 8))
    for cfg, extra, workers in runs:
        r = vcheck.run_model(os.path.join(vcheck.TLA, "MontyApi.tla"), os.path.join(vcheck.TLA, cfg), workers, 3000, wdir, extra=extra)
        ok = r["ok"] or ("-simulate" in extra and "Error" not in r["out"] and "violated" not in r["out"])
        if not ok:
            raise vcheck.ToolError("MontyApi model run failed (%s):\n%s" % (cfg, r["out"][-3000:]))
        found = [json.loads('"' + m.group(1) + '"') for m in PROG_RE.finditer(r["out"])]
        if "-simulate" in extra:
            m = re.search(r"The number of states generated: (\d+)", r["out"])
            r["states"] = r["transitions"] = int(m.group(1)) if m else len(found)
        # the len-4 enumeration is large: keep a seeded sample of it
        if cfg.endswith("len4.cfg") and len(found) > 60000:
            import random
            found = random.Random(seed).sample(found, 60000)
        progs += found
        models.append(dict(spec=r["spec"], cfg=r["cfg"], ok=True, states=r["states"], transitions=r["transitions"], wall=r["wall"], scenarios=len(found)))
    with open(out_path, "w") as f:
        for p in progs:
            f.write(p + "\n")
    return dict(env={"VH_PROGRAMS": out_path}, models=models)
