use crypto_bigint::*;
#[inline(never)] #[unsafe(no_mangle)] pub extern "C" fn lk_marker_begin() { unsafe { core::arch::asm!("nop") } }
#[inline(never)] #[unsafe(no_mangle)] pub extern "C" fn lk_marker_end() { unsafe { core::arch::asm!("nop", "nop", "nop") } }
static mut A: U256 = U256::ZERO; static mut B: U256 = U256::ZERO; static mut O: U256 = U256::ZERO;
#[inline(never)] fn op_neg_mod(a: &U256, _b: &U256) -> U256 { a.neg_mod(&U256::from_be_hex("ffffffff00000000ffffffffffffffffbce6faada7179e84f3b9cac2fc632551")) }
#[inline(never)] fn op_add_mod(a: &U256, b: &U256) -> U256 { a.add_mod(b, &U256::from_be_hex("ffffffff00000000ffffffffffffffffbce6faada7179e84f3b9cac2fc632551")) }
#[inline(never)] fn op_div_rem(a: &U256, b: &U256) -> U256 { a.div_rem(&NonZero::new(b.bitor(&U256::ONE)).unwrap()).0 }
fn main() {
    let args: Vec<String> = std::env::args().collect();
    // fixed-length args: op a_hex(64) b_hex(64)
    let a = U256::from_be_hex(&args[2]); let b = U256::from_be_hex(&args[3]);
    unsafe { A = a; B = b; }
    let f: fn(&U256,&U256)->U256 = match args[1].as_str() { "neg_mod" => op_neg_mod, "add_mod" => op_add_mod, _ => op_div_rem };
    lk_marker_begin();
    let o = unsafe { f(&*(&raw const A), &*(&raw const B)) };
    lk_marker_end();
    unsafe { O = o; }
    println!("{}", unsafe { O });
}
