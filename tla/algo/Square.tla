------------------------------- MODULE Square -------------------------------
(***************************************************************************)
(* The crate's squaring algorithms at word size W (C03):                   *)
(*  Mode "school": schoolbook_squaring (src/uint/mul.rs:57-130) on limb    *)
(*     sequences — the strictly-lower half of the product grid with the    *)
(*     row carry ASSIGNED to position 2i, the one-bit left shift of the    *)
(*     whole accumulator ("the top word is empty"), the diagonal pass with *)
(*     its carry chain through the odd positions.                          *)
(*  Mode "fixed": UintKaratsubaMul::<SIZE>::square (karatsuba.rs:116-160)  *)
(*     on values: z0 + (z0 + z2) b + z2 b^2 with two carry chains joined   *)
(*     by wrapping_add, minus (x0 - x1)^2 b.                               *)
(*  Mode "boxed": karatsuba_square_limbs (karatsuba.rs:296-373) on limb    *)
(*     sequences with the threshold scaled down (MAXRED instead of 24):    *)
(*     z1 = |x0 - x1|^2 written into the middle of the zeroed output, the  *)
(*     whole output complemented, "+1" supplied as the initial carry of    *)
(*     the z0 addition, three carry accumulators joined by wrapping_add,   *)
(*     the final carry out of the top dropped.                             *)
(* TLC explores ALL operands: the result is x^2, and every carry handed to *)
(* adc stays within a word (wrapping_add never wraps).                     *)
(***************************************************************************)
EXTENDS Integers, Sequences, TLC
CONSTANTS W, Mode, SIZE, BASE, MAXRED
B == 2 ^ W
RECURSIVE ValR(_, _)
ValR(s, i) == IF i = 0 THEN 0 ELSE s[i] * B ^ (i - 1) + ValR(s, i - 1)
Val(s) == ValR(s, Len(s))
Limbs(v, n) == [i \in 1..n |-> (v \div B ^ (i - 1)) % B]

(* ---- schoolbook squaring on one accumulator res[1..2n] (lo ++ hi), 1-based: position k of the code is k+1 here ---- *)
RECURSIVE SqRow(_, _, _, _, _)
SqRow(res, x, i, j, carry) ==                                  \* inner loop: j < i (0-based), k = i + j
  IF j >= i THEN <<res, carry>>
  ELSE LET t == res[i + j + 1] + x[i + 1] * x[j + 1] + carry
       IN SqRow([res EXCEPT ![i + j + 1] = t % B], x, i, j + 1, t \div B)
RECURSIVE SqRows(_, _, _)
SqRows(res, x, i) ==
  IF i >= Len(x) THEN res
  ELSE LET r == SqRow(res, x, i, 0, 0) IN SqRows([r[1] EXCEPT ![2 * i + 1] = r[2]], x, i + 1)   \* lo/hi[2i] = carry (assignment)
RECURSIVE Shl1(_, _, _, _)
Shl1(res, i, last, carry) ==                                    \* positions 1..last shifted left by one bit
  IF i > last THEN <<res, carry>>
  ELSE Shl1([res EXCEPT ![i] = ((res[i] * 2) % B) + carry], i + 1, last, res[i] \div (B \div 2))
RECURSIVE Diag(_, _, _, _)
Diag(res, x, i, carry) ==                                       \* <<res, final carry, ok>>
  IF i >= Len(x) THEN <<res, carry>>
  ELSE LET t == res[2 * i + 1] + x[i + 1] * x[i + 1] + carry
           u == res[2 * i + 2] + t \div B                       \* overflowing_add(carry)
       IN Diag([res EXCEPT ![2 * i + 1] = t % B, ![2 * i + 2] = u % B], x, i + 1, u \div B)
SchoolSq(x) ==                                                  \* <<limbs of the square, carry out of the top, top word before the shift>>
  LET n == Len(x)
      r1 == SqRows([k \in 1..2 * n |-> 0], x, 1)
      s == Shl1(r1, 1, 2 * n - 1, 0)                             \* lo (n limbs) then hi[..n-1]; hi[n-1] = carry
      r2 == [s[1] EXCEPT ![2 * n] = s[2]]
      d == Diag(r2, x, 0, 0)
  IN <<d[1], d[2], r1[2 * n]>>

(* ---- fixed-size Karatsuba squaring on values ---- *)
Adc(a, b, c, H) == <<(a + b + c) % H, (a + b + c) \div H>>
Sbb(a, b, c, H) == <<(a - b - c) % H, IF a - b - c < 0 THEN 1 ELSE 0>>
RECURSIVE KSq(_, _)
KSq(x, size) ==                                                 \* <<lo, hi, carries stayed small>>
  LET F == B ^ size IN
  IF size <= BASE THEN <<(x * x) % F, (x * x) \div F, TRUE>>
  ELSE
  LET h == size \div 2   H == B ^ h
      x0 == x % H   x1 == x \div H
      z0 == KSq(x0, h)   z2 == KSq(x1, h)
      a1 == Adc(z0[2], z0[1], 0, H)                              \* res.1 = z0.1 + z0.0            (carry)
      a2 == Adc(z0[2], z2[1], a1[2], H)                          \* res.2 = z0.1 + z2.0 + carry
      a3 == Adc(a1[1], z2[1], 0, H)                              \* res.1 += z2.0                  (carry2)
      a4 == Adc(a2[1], z2[2], a3[2], H)                          \* res.2 += z2.1 + carry2
      a5 == Adc(z2[2], 0, (a2[2] + a4[2]) % B, H)                \* res.3 = z2.1 + carry.wrapping_add(carry2)
      l0 == IF x0 < x1 THEN x1 - x0 ELSE x0 - x1
      z1 == KSq(l0, h)
      s1 == Sbb(a3[1], z1[1], 0, H)
      s2 == Sbb(a4[1], z1[2], s1[2], H)
      s3 == Sbb(a5[1], 0, s2[2], H)
  IN <<z0[1] + s1[1] * H, s2[1] + s3[1] * H, z0[3] /\ z2[3] /\ z1[3] /\ a2[2] + a4[2] < B>>

(* ---- boxed Karatsuba squaring on limb sequences ---- *)
RECURSIVE AdcRange(_, _, _, _, _, _)
AdcRange(out, off, src, i, last, carry) ==                      \* out[off + i] += src[i] for i in i..last (1-based), carry word in and out
  IF i > last THEN <<out, carry>>
  ELSE LET t == out[off + i] + src[i] + carry
       IN AdcRange([out EXCEPT ![off + i] = t % B], off, src, i + 1, last, t \div B)
RECURSIVE BoxedSq(_)
BoxedSq(x) ==                                                   \* <<out (2n limbs), carries stayed small>>
  LET size == Len(x) IN
  IF size <= 2 * MAXRED \/ size % 2 = 1 THEN <<SchoolSq(x)[1], TRUE, FALSE>>
  ELSE
  LET half == size \div 2
      x0 == SubSeq(x, 1, half)   x1 == SubSeq(x, half + 1, size)
      d == Val(x0) - Val(x1)
      l0 == Limbs(IF d < 0 THEN 0 - d ELSE d, half)              \* sbb chain, conditional wrapping negation
      z1 == BoxedSq(l0)
      o1 == [i \in 1..2 * size |-> IF i > half /\ i <= 3 * half THEN z1[1][i - half] ELSE 0]
      o2 == [i \in 1..2 * size |-> B - 1 - o1[i]]                \* out[i] = !out[i]
      z0 == BoxedSq(x0)
      a1 == AdcRange(o2, 0, z0[1], 1, size, 1)                   \* add z0, carry starts at ONE
      a2 == AdcRange(a1[1], half, z0[1], 1, half, 0)             \* add z0.0 at b        (carry2)
      c3 == (a1[2] + a2[2]) % B                                  \* carry.wrapping_add(carry2)
      a3 == AdcRange(a2[1], half, z0[1], half + 1, size, c3)     \* add z0.1 at b
      z2 == BoxedSq(x1)
      a4 == AdcRange(a3[1], half, z2[1], 1, size, 0)             \* add z2 at b          (carry2)
      c5 == (a3[2] + a4[2]) % B
      a5 == AdcRange(a4[1], size, z2[1], 1, half, 0)             \* add z2.0 at b^2      (carry2)
      c6 == (c5 + a5[2]) % B
      a6 == AdcRange(a5[1], size, z2[1], half + 1, size, c6)     \* add z2.1 at b^2; final carry dropped
  IN <<a6[1], z1[2] /\ z0[2] /\ z2[2] /\ a1[2] + a2[2] < B /\ a3[2] + a4[2] < B /\ c5 + a5[2] < B,
       z1[3] \/ z0[3] \/ z2[3] \/ c3 >= 2 \/ c5 >= 2 \/ c6 >= 2>>

(* reference: the square by column sums on limb sequences (every intermediate number is small) *)
RECURSIVE ColSum(_, _, _)
ColSum(s, k, i) == IF i > Len(s) \/ i >= k THEN 0 ELSE (IF k - i <= Len(s) THEN s[i] * s[k - i] ELSE 0) + ColSum(s, k, i + 1)
RECURSIVE RefCols(_, _, _)
RefCols(s, k, carry) == IF k > 2 * Len(s) THEN <<>> ELSE LET c == ColSum(s, k + 1, 1) + carry IN <<c % B>> \o RefCols(s, k + 1, c \div B)
RefSq(s) == RefCols(s, 1, 0)

VARIABLES x
Word == 0..B - 1
Init == IF Mode = "fixed" THEN x \in 0..B ^ SIZE - 1 ELSE x \in [1..SIZE -> Word]
Next == UNCHANGED x
Spec == Init /\ [][Next]_x

Exact == CASE Mode = "fixed"  -> LET r == KSq(x, SIZE) IN r[1] + r[2] * B ^ SIZE = x * x
           [] Mode = "school" -> LET r == SchoolSq(x) IN r[1] = RefSq(x) /\ r[2] = 0 /\ r[3] = 0
           [] Mode = "boxed"  -> BoxedSq(x)[1] = RefSq(x)
RefOK == Mode # "fixed" /\ Len(x) * W <= 14 => Val(RefSq(x)) = Val(x) * Val(x)          \* the reference itself, where numbers fit
CarriesSmall == CASE Mode = "fixed"  -> KSq(x, SIZE)[3]
                  [] Mode = "boxed"  -> BoxedSq(x)[2]
                  [] OTHER -> TRUE
NoCarryTwo == Mode = "boxed" => ~BoxedSq(x)[3]          \* vacuity guard, must be refuted: a joined carry of 2 is handed to adc
=============================================================================
