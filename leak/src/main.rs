//! C01 leakage recorder.  The crate under test is compiled at opt-level 3 with LLVM SanitizerCoverage
//! (edges, loads, stores, GEP indices, division operands).  For every operation of the registry and every
//! assignment of its PUBLIC parameters (a "class"), the operation is run on many SECRET operand values;
//! the leakage trace of each run (sequence of control-flow edges, addresses read and written, GEP
//! indices, operands of hardware divisions) is folded into a digest.  One ndjson event per run; TLC's
//! monitor (tla/judge/JC01.tla) requires all digests of a class to be equal.  On a mismatch the first
//! diverging event and the return address of its callback are logged so that the driver can symbolise
//! the site.
#![allow(static_mut_refs)]
use crypto_bigint::modular::{BoxedMontyForm, BoxedMontyParams, ConstMontyForm, MontyForm, MontyParams};
crypto_bigint::impl_modulus!(P256N, U256, "ffffffff00000000ffffffffffffffffbce6faada7179e84f3b9cac2fc632551");
use crypto_bigint::subtle::{ConditionallySelectable, ConstantTimeEq, ConstantTimeGreater, ConstantTimeLess, CtOption};
use crypto_bigint::*;
use std::alloc::{GlobalAlloc, Layout, System};
use std::io::Write;
use std::sync::atomic::{AtomicBool, AtomicUsize, Ordering::Relaxed};

// ---- instrumentation callbacks ---------------------------------------------------------------------
const CAP: usize = 6_000_000;
static mut BUF: [(u8, u64, u64); CAP] = [(0, 0, 0); CAP];
static mut LEN: usize = 0;
static mut DIG: u64 = 0;
static ON: AtomicBool = AtomicBool::new(false);

macro_rules! ra { () => {{ let r: u64; unsafe { core::arch::asm!("mov {}, [rbp+8]", out(reg) r); } r }} }
#[inline(always)]
fn ev(kind: u8, v: u64, r: u64) {
    if ON.load(Relaxed) {
        unsafe {
            DIG = (DIG ^ (kind as u64).wrapping_mul(0x9E37_79B9_7F4A_7C15) ^ v).wrapping_mul(0x0000_0100_0000_01b3);
            if LEN < CAP { BUF[LEN] = (kind, v, r); }
            LEN += 1;
        }
    }
}
#[unsafe(no_mangle)] pub extern "C" fn __sanitizer_cov_trace_pc_guard_init(start: *mut u32, stop: *mut u32) { let mut p = start; let mut i = 1u32; unsafe { while p < stop { *p = i; i += 1; p = p.add(1); } } }
#[unsafe(no_mangle)] #[inline(never)] pub extern "C" fn __sanitizer_cov_trace_pc_guard(g: *mut u32) { let r = ra!(); ev(1, unsafe { *g } as u64, r); }
macro_rules! ld { ($($n:ident),*) => { $( #[unsafe(no_mangle)] #[inline(never)] pub extern "C" fn $n(a: *const u8) { let r = ra!(); ev(2, a as u64, r); } )* } }
ld!(__sanitizer_cov_load1, __sanitizer_cov_load2, __sanitizer_cov_load4, __sanitizer_cov_load8, __sanitizer_cov_load16);
macro_rules! st { ($($n:ident),*) => { $( #[unsafe(no_mangle)] #[inline(never)] pub extern "C" fn $n(a: *const u8) { let r = ra!(); ev(3, a as u64, r); } )* } }
st!(__sanitizer_cov_store1, __sanitizer_cov_store2, __sanitizer_cov_store4, __sanitizer_cov_store8, __sanitizer_cov_store16);
#[unsafe(no_mangle)] #[inline(never)] pub extern "C" fn __sanitizer_cov_trace_div4(a: u32) { let r = ra!(); ev(4, a as u64, r); }
#[unsafe(no_mangle)] #[inline(never)] pub extern "C" fn __sanitizer_cov_trace_div8(a: u64) { let r = ra!(); ev(4, a, r); }
#[unsafe(no_mangle)] #[inline(never)] pub extern "C" fn __sanitizer_cov_trace_gep(a: usize) { let r = ra!(); ev(5, a as u64, r); }

// ---- markers for the machine-level cross-check (valgrind lackey on the uninstrumented build) ------------
#[inline(never)] #[unsafe(no_mangle)] pub extern "C" fn lk_marker_begin() { unsafe { core::arch::asm!("nop") } }
#[inline(never)] #[unsafe(no_mangle)] pub extern "C" fn lk_marker_end() { unsafe { core::arch::asm!("nop", "nop", "nop") } }

// ---- bump arena: heap addresses inside a run depend only on the (public) allocation sizes -------------
const ARENA: usize = 64 << 20;
static mut ARENA_MEM: [u8; ARENA] = [0; ARENA];
static ARENA_ON: AtomicBool = AtomicBool::new(false);
static ARENA_OFF: AtomicUsize = AtomicUsize::new(0);
struct Bump;
unsafe impl GlobalAlloc for Bump {
    unsafe fn alloc(&self, l: Layout) -> *mut u8 {
        if ARENA_ON.load(Relaxed) {
            let base = unsafe { ARENA_MEM.as_mut_ptr() } as usize;
            let off = (base + ARENA_OFF.load(Relaxed) + l.align() - 1) / l.align() * l.align() - base;
            if off + l.size() <= ARENA { ARENA_OFF.store(off + l.size(), Relaxed); return (base + off) as *mut u8; }
        }
        unsafe { System.alloc(l) }
    }
    unsafe fn dealloc(&self, p: *mut u8, l: Layout) {
        let base = unsafe { ARENA_MEM.as_ptr() } as usize;
        if (p as usize) >= base && (p as usize) < base + ARENA { return; }
        unsafe { System.dealloc(p, l) }
    }
}
#[global_allocator]
static GLOBAL: Bump = Bump;

// ---- inputs ------------------------------------------------------------------------------------------
type U = U256;
const NL: usize = 4;
#[derive(Clone)]
struct In {
    a: U, b: U,            // operands (secret unless the operation's documentation names them)
    m: U,                  // public odd modulus
    s: u32,                // public shift amount / bit count
    ba: BoxedUint, bb: BoxedUint, bm: BoxedUint, // boxed twins (precision 256)
    wa: U1024, wb: U1024,  // wide operands built from a and b (halves ordered by the secrets: Karatsuba sign cases)
    bwa: BoxedUint, bwb: BoxedUint, // 2048-bit boxed operands, and a 33- and 34-limb pair
    b33: BoxedUint, b34: BoxedUint,
    m1: BoxedUint,         // public one-limb modulus with its top bit clear (R/4 < m < R/2)
}
static mut INP: Option<In> = None;
static mut SINK: u64 = 0;

fn fold(x: &U) -> u64 { let w = x.as_words(); w[0] ^ w[1].rotate_left(7) ^ w[2].rotate_left(13) ^ w[3].rotate_left(29) }
fn foldb(x: &BoxedUint) -> u64 { x.as_words().iter().fold(0u64, |h, w| h.rotate_left(9) ^ *w) }
fn foldc(c: Choice) -> u64 { c.unwrap_u8() as u64 }
use crypto_bigint::subtle::Choice;

struct Op { name: &'static str, secret_a: bool, secret_b: bool, more: usize, f: fn(&In) -> u64 }
macro_rules! op {
    ($n:expr, $sa:expr, $sb:expr, |$i:ident| $body:expr) => { Op { name: $n, secret_a: $sa, secret_b: $sb, more: 0, f: { fn g($i: &In) -> u64 { $body } g } } };
    ($n:expr, $sa:expr, $sb:expr, more $m:expr, |$i:ident| $body:expr) => { Op { name: $n, secret_a: $sa, secret_b: $sb, more: $m, f: { fn g($i: &In) -> u64 { $body } g } } };
}
fn foldw<const N: usize>(x: &Uint<N>) -> u64 { x.as_words().iter().fold(0u64, |h, w| h.rotate_left(9) ^ *w) }

fn nzm(i: &In) -> NonZero<U> { NonZero::new(i.m).unwrap() }
fn oddm(i: &In) -> Odd<U> { Odd::new(i.m).unwrap() }
fn nzbm(i: &In) -> NonZero<BoxedUint> { NonZero::new(i.bm.clone()).unwrap() }
fn oddbm(i: &In) -> Odd<BoxedUint> { Odd::new(i.bm.clone()).unwrap() }
fn sh(i: &In) -> u32 { i.s % 256 }


/// an N-limb operand cut from the two 1024-bit secrets (words taken cyclically), for the per-width operation sets
fn un<const N: usize>(x: &U1024, y: &U1024, rot: usize) -> Uint<N> {
    let (xw, yw) = (x.as_words(), y.as_words());
    let mut w = [0u64; N];
    for k in 0..N { let j = (k + rot) % 32; w[k] = if j < 16 { xw[j] } else { yw[j - 16] }; }
    Uint::from_words(w)
}
/// a public odd modulus of N limbs just below 2^BITS
fn pubmod<const N: usize>() -> Odd<Uint<N>> { Odd::new(Uint::<N>::MAX.wrapping_sub(&Uint::<N>::from_u64(188))).unwrap() }

/// the core operation set at one more width (the registry above is U256; the optimiser specialises every width separately)
macro_rules! width_ops {
    ($v:ident, $N:literal, $tag:literal) => {
        $v.push(op!(concat!("uint", $tag, ".add_sub_neg"), true, true, |i| { let (a, b) = (un::<$N>(&i.wa, &i.wb, 0), un::<$N>(&i.wb, &i.wa, 5));
            let (r, c) = a.adc(&b, Limb::ONE); let (d, bw) = a.sbb(&b, Limb::ZERO);
            foldw(&a.wrapping_add(&b)) ^ foldw(&r) ^ c.0 ^ foldw(&d) ^ bw.0 ^ foldw(&CheckedAdd::checked_add(&a, &b).unwrap_or(Uint::ZERO)) ^ foldw(&CheckedSub::checked_sub(&a, &b).unwrap_or(Uint::ZERO))
                ^ foldw(&a.saturating_add(&b)) ^ foldw(&a.saturating_sub(&b)) ^ foldw(&a.wrapping_neg()) }));
        $v.push(op!(concat!("uint", $tag, ".mul"), true, true, |i| { let (a, b) = (un::<$N>(&i.wa, &i.wb, 0), un::<$N>(&i.wb, &i.wa, 5));
            let (l, h) = a.split_mul(&b); let (sl, sh_) = a.square_wide();
            foldw(&l) ^ foldw(&h) ^ foldw(&sl) ^ foldw(&sh_) ^ foldw(&a.wrapping_mul(&b)) ^ foldw(&CheckedMul::checked_mul(&a, &b).unwrap_or(Uint::ZERO)) ^ foldw(&a.saturating_mul(&b)) }));
        $v.push(op!(concat!("uint", $tag, ".cmp"), true, true, |i| { let (a, b) = (un::<$N>(&i.wa, &i.wb, 0), un::<$N>(&i.wb, &i.wa, 5));
            foldc(a.ct_eq(&b)) ^ foldc(a.ct_lt(&b)) << 1 ^ foldc(a.ct_gt(&b)) << 2 ^ ((a.cmp(&b) as i8 as u64) << 3) ^ foldc(!Zero::is_zero(&a)) << 12 ^ foldc(a.is_odd().into()) << 13 ^ ((a == b) as u64) << 14 }));
        $v.push(op!(concat!("uint", $tag, ".bits"), true, true, |i| { let (a, b) = (un::<$N>(&i.wa, &i.wb, 0), un::<$N>(&i.wb, &i.wa, 5));
            let idx = (b.as_words()[0] % (64 * $N)) as u32;
            (a.bits() ^ a.leading_zeros() << 8 ^ a.trailing_zeros() << 16 ^ a.trailing_ones() << 24) as u64 ^ foldc(a.bit(idx).into()) << 40 }));
        $v.push(op!(concat!("uint", $tag, ".shift(secret amount)"), true, true, |i| { let (a, b) = (un::<$N>(&i.wa, &i.wb, 0), un::<$N>(&i.wb, &i.wa, 5));
            let s = (b.as_words()[0] % (64 * $N)) as u32; let s2 = (b.as_words()[0] % (160 * $N)) as u32;
            foldw(&a.shl(s)) ^ foldw(&a.shr(s)) ^ foldw(&a.wrapping_shl(s2)) ^ foldw(&a.wrapping_shr(s2)) ^ foldw(&a.overflowing_shl(s2).unwrap_or(Uint::ZERO)) ^ foldw(&a.overflowing_shr(s2).unwrap_or(Uint::ZERO)) }));
        $v.push(op!(concat!("uint", $tag, ".select_swap"), true, true, |i| { let (mut a, mut b) = (un::<$N>(&i.wa, &i.wb, 0), un::<$N>(&i.wb, &i.wa, 5));
            let c = a.ct_lt(&b); let r = Uint::<$N>::conditional_select(&a, &b, c); Uint::<$N>::conditional_swap(&mut a, &mut b, c); foldw(&r) ^ foldw(&a) ^ foldw(&b).rotate_left(3) }));
        $v.push(op!(concat!("uint", $tag, ".mod_arith(public modulus)"), true, true, |i| { let (a, b) = (un::<$N>(&i.wa, &i.wb, 0), un::<$N>(&i.wb, &i.wa, 5)); let p = pubmod::<$N>();
            foldw(&a.add_mod(&b, &p)) ^ foldw(&a.sub_mod(&b, &p)) ^ foldw(&a.double_mod(&p)) ^ foldw(&a.mul_mod(&b, p.as_nz_ref())) }));
        $v.push(op!(concat!("uint", $tag, ".rem(public modulus)"), true, true, |i| { let a = un::<$N>(&i.wa, &i.wb, 0); let p = pubmod::<$N>(); foldw(&a.rem(p.as_nz_ref())) }));
        $v.push(op!(concat!("monty", $tag, ".mul_square(public modulus)"), true, true, |i| { let (a, b) = (un::<$N>(&i.wa, &i.wb, 0), un::<$N>(&i.wb, &i.wa, 5)); let params = MontyParams::new_vartime(pubmod::<$N>());
            let (x, y) = (MontyForm::new(&a, params), MontyForm::new(&b, params));
            foldw((x * y).as_montgomery()) ^ foldw(x.square().as_montgomery()) }));
        $v.push(op!(concat!("monty", $tag, ".retrieve(public modulus)"), true, true, |i| { let a = un::<$N>(&i.wa, &i.wb, 0); let params = MontyParams::new_vartime(pubmod::<$N>());
            foldw(&MontyForm::new(&a, params).retrieve()) }));
        $v.push(op!(concat!("monty", $tag, ".add_sub_double_halve(public modulus)"), true, true, |i| { let (a, b) = (un::<$N>(&i.wa, &i.wb, 0), un::<$N>(&i.wb, &i.wa, 5)); let params = MontyParams::new_vartime(pubmod::<$N>());
            let (x, y) = (MontyForm::from_montgomery(a.shr_vartime(1), params), MontyForm::from_montgomery(b.shr_vartime(1), params));
            foldw((x + y).as_montgomery()) ^ foldw((x - y).as_montgomery()) ^ foldw(x.double().as_montgomery()) ^ foldw(x.div_by_2().as_montgomery()) }));
        $v.push(op!(concat!("monty", $tag, ".pow(secret exponent, public modulus)"), true, true, |i| { let (a, b) = (un::<$N>(&i.wa, &i.wb, 0), un::<$N>(&i.wb, &i.wa, 5)); let params = MontyParams::new_vartime(pubmod::<$N>());
            let x = MontyForm::from_montgomery(a.shr_vartime(1), params);
            foldw(x.pow_bounded_exp(&b, 12).as_montgomery()) }));
    };
}

/// boxed operand of n limbs cut from the wide boxed secrets (2048 bits each)
fn bn(x: &BoxedUint, n: usize, rot: usize) -> BoxedUint { let w = x.as_words(); BoxedUint::from_words((0..n).map(|k| w[(k + rot) % w.len()])) }
fn bpubmod(n: usize) -> Odd<BoxedUint> { let mut w = vec![u64::MAX; n]; w[0] -= 188; Odd::new(BoxedUint::from_words(w)).unwrap() }

/// the core boxed operation set at one more precision (the registry above is 256 bits)
macro_rules! boxed_width_ops {
    ($v:ident, $N:literal, $tag:literal) => {
        $v.push(op!(concat!("boxed", $tag, ".add_sub_mul"), true, true, |i| { let (a, b) = (bn(&i.bwa, $N, 0), bn(&i.bwb, $N, 3));
            let (r, c) = a.adc(&b, Limb::ONE); let (d, bw) = a.sbb(&b, Limb::ZERO);
            foldb(&a.wrapping_add(&b)) ^ foldb(&r) ^ c.0 ^ foldb(&d) ^ bw.0 ^ foldb(&a.wrapping_sub(&b)) ^ foldb(&a.mul(&b)) ^ foldb(&a.wrapping_mul(&b)) ^ foldb(&a.square()) ^ foldb(&a.wrapping_neg())
                ^ foldc(a.checked_add(&b).is_some()) ^ foldc(a.checked_sub(&b).is_some()) ^ foldc(a.checked_mul(&b).is_some()) }));
        $v.push(op!(concat!("boxed", $tag, ".cmp_select"), true, true, |i| { let (a, b) = (bn(&i.bwa, $N, 0), bn(&i.bwb, $N, 3));
            let c = a.ct_lt(&b); let mut t = a.clone(); t.ct_assign(&b, c); let (mut u1, mut u2) = (a.clone(), b.clone()); BoxedUint::ct_swap(&mut u1, &mut u2, c);
            foldc(a.ct_eq(&b)) ^ foldc(c) << 1 ^ foldc(a.ct_gt(&b)) << 2 ^ ((a.cmp(&b) as i8 as u64) << 3) ^ foldc(a.is_zero()) << 12 ^ foldb(&BoxedUint::ct_select(&a, &b, c)) ^ foldb(&t) ^ foldb(&u1) ^ foldb(&u2).rotate_left(7) }));
        $v.push(op!(concat!("boxed", $tag, ".shift_bits(secret amount)"), true, true, |i| { let (a, b) = (bn(&i.bwa, $N, 0), bn(&i.bwb, $N, 3));
            let s = (b.as_words()[0] % (64 * $N)) as u32; let s2 = (b.as_words()[0] % (160 * $N)) as u32;
            foldb(&a.overflowing_shl(s2).0) ^ foldb(&a.overflowing_shr(s2).0) ^ foldb(&a.wrapping_shl(s2)) ^ foldb(&a.wrapping_shr(s2)) ^ foldb(&(&a << s)) ^ foldb(&(&a >> s))
                ^ (a.bits() ^ a.leading_zeros() << 8 ^ a.trailing_zeros() << 16 ^ a.trailing_ones() << 24) as u64 ^ foldc(a.bit(s)) << 40 }));
        $v.push(op!(concat!("boxed", $tag, ".mod_arith(public modulus)"), true, true, |i| { let (a, b) = (bn(&i.bwa, $N, 0).shr_vartime(1).unwrap(), bn(&i.bwb, $N, 3).shr_vartime(1).unwrap()); let p = bpubmod($N);
            foldb(&a.add_mod(&b, &p)) ^ foldb(&a.sub_mod(&b, &p)) ^ foldb(&a.double_mod(&p)) ^ foldb(&a.mul_mod(&b, p.as_nz_ref())) ^ foldb(&a.rem(p.as_nz_ref())) }));
        $v.push(op!(concat!("boxedmonty", $tag, ".mul_square_addsub(public modulus)"), true, true, |i| { let (a, b) = (bn(&i.bwa, $N, 0).shr_vartime(1).unwrap(), bn(&i.bwb, $N, 3).shr_vartime(1).unwrap()); let params = BoxedMontyParams::new_vartime(bpubmod($N));
            let (x, y) = (BoxedMontyForm::from_montgomery(a, params.clone()), BoxedMontyForm::from_montgomery(b, params));
            foldb((&x * &y).as_montgomery()) ^ foldb(x.square().as_montgomery()) ^ foldb((&x + &y).as_montgomery()) ^ foldb((&x - &y).as_montgomery()) ^ foldb(x.double().as_montgomery()) ^ foldb(x.div_by_2().as_montgomery()) ^ foldb(&x.retrieve()) }));
        $v.push(op!(concat!("boxedmonty", $tag, ".pow(secret exponent, public modulus)"), true, true, |i| { let (a, b) = (bn(&i.bwa, $N, 0).shr_vartime(1).unwrap(), bn(&i.bwb, 1, 3)); let params = BoxedMontyParams::new_vartime(bpubmod($N));
            let x = BoxedMontyForm::from_montgomery(a, params);
            foldb(x.pow_bounded_exp(&b, 12).as_montgomery()) }));
    };
}

/// exponentiation with a secret exponent at one more width (the window lookup is specialised per width by the optimiser)
macro_rules! pow_width {
    ($v:ident, $N:literal, $tag:literal) => {
        $v.push(op!(concat!("monty", $tag, ".pow(secret exponent, public modulus)"), true, true, |i| { let (a, b) = (un::<$N>(&i.wa, &i.wb, 0), un::<$N>(&i.wb, &i.wa, 5)); let params = MontyParams::new_vartime(pubmod::<$N>());
            let x = MontyForm::from_montgomery(a.shr_vartime(1), params);
            foldw(x.pow_bounded_exp(&b, 12).as_montgomery()) }));
    };
}

fn registry() -> Vec<Op> {
    let mut v = vec![
        // --- arithmetic
        op!("uint.wrapping_add", true, true, |i| fold(&i.a.wrapping_add(&i.b))),
        op!("uint.adc", true, true, |i| { let (r, c) = i.a.adc(&i.b, Limb::ONE); fold(&r) ^ c.0 }),
        op!("uint.checked_add", true, true, |i| fold(&CheckedAdd::checked_add(&i.a, &i.b).unwrap_or(U::ZERO))),
        op!("uint.saturating_add", true, true, |i| fold(&i.a.saturating_add(&i.b))),
        op!("uint.wrapping_sub", true, true, |i| fold(&i.a.wrapping_sub(&i.b))),
        op!("uint.checked_sub", true, true, |i| fold(&CheckedSub::checked_sub(&i.a, &i.b).unwrap_or(U::ZERO))),
        op!("uint.saturating_sub", true, true, |i| fold(&i.a.saturating_sub(&i.b))),
        op!("uint.wrapping_neg", true, true, |i| fold(&i.a.wrapping_neg())),
        op!("uint.carrying_neg", true, true, |i| { let (r, c) = i.a.carrying_neg(); fold(&r) ^ foldc(c.into()) }),
        op!("uint.split_mul", true, true, |i| { let (l, h) = i.a.split_mul(&i.b); fold(&l) ^ fold(&h) }),
        op!("uint.wrapping_mul", true, true, |i| fold(&i.a.wrapping_mul(&i.b))),
        op!("uint.checked_mul", true, true, |i| fold(&CheckedMul::checked_mul(&i.a, &i.b).unwrap_or(U::ZERO))),
        op!("uint.saturating_mul", true, true, |i| fold(&i.a.saturating_mul(&i.b))),
        op!("uint.square_wide", true, true, |i| { let (l, h) = i.a.square_wide(); fold(&l) ^ fold(&h) }),
        op!("uint.checked_square", true, true, |i| fold(&i.a.checked_square().unwrap_or(U::ZERO))),
        // --- division
        op!("uint.div_rem", true, true, |i| { let d = NonZero::new(i.b.bitor(&U::ONE)).unwrap(); let (q, r) = i.a.div_rem(&d); fold(&q) ^ fold(&r) }),
        op!("uint.rem", true, true, |i| { let d = NonZero::new(i.b.bitor(&U::ONE)).unwrap(); fold(&i.a.rem(&d)) }),
        op!("uint.rem(public modulus)", true, true, |i| fold(&i.a.rem(&nzm(i)))),
        op!("uint.checked_div", true, true, |i| fold(&i.a.checked_div(&i.b).unwrap_or(U::ZERO))),
        op!("uint.div_rem_vartime", true, false, |i| { let d = NonZero::new(i.b.bitor(&U::ONE)).unwrap(); let (q, r) = i.a.div_rem_vartime(&d); fold(&q) ^ fold(&r) }),
        op!("uint.rem_vartime", true, false, |i| { let d = NonZero::new(i.b.bitor(&U::ONE)).unwrap(); fold(&i.a.rem_vartime(&d)) }),
        op!("uint.rem_wide_vartime", true, false, |i| { let d = NonZero::new(i.b.bitor(&U::ONE)).unwrap(); fold(&U::rem_wide_vartime((i.a, i.a), &d)) }),
        op!("uint.div_rem_limb", true, true, |i| { let d = NonZero::new(Limb(i.b.as_words()[0] | 1)).unwrap(); let (q, r) = i.a.div_rem_limb(d); fold(&q) ^ r.0 }),
        op!("uint.rem_limb", true, true, |i| { let d = NonZero::new(Limb(i.b.as_words()[0] | 1)).unwrap(); i.a.rem_limb(d).0 }),
        op!("uint.div_rem_limb_with_reciprocal", true, false, |i| { let d = NonZero::new(Limb(i.b.as_words()[0] | 1)).unwrap(); let rc = Reciprocal::new(d); let (q, r) = i.a.div_rem_limb_with_reciprocal(&rc); fold(&q) ^ r.0 }),
        op!("reciprocal.new", true, true, |i| { let d = NonZero::new(Limb(i.a.as_words()[0] | 1)).unwrap(); Reciprocal::new(d).shift() as u64 }),
        op!("uint.rem2k_vartime", true, true, |i| fold(&i.a.rem2k_vartime(sh(i)))),
        // --- shifts and bits
        op!("uint.shl(secret amount)", true, true, |i| fold(&i.a.shl((i.b.as_words()[0] % 256) as u32))),
        op!("uint.shr(secret amount)", true, true, |i| fold(&i.a.shr((i.b.as_words()[0] % 256) as u32))),
        op!("uint.overflowing_shl(secret amount)", true, true, |i| fold(&i.a.overflowing_shl((i.b.as_words()[0] % 600) as u32).unwrap_or(U::ZERO))),
        op!("uint.overflowing_shr(secret amount)", true, true, |i| fold(&i.a.overflowing_shr((i.b.as_words()[0] % 600) as u32).unwrap_or(U::ZERO))),
        op!("uint.wrapping_shl(secret amount)", true, true, |i| fold(&i.a.wrapping_shl((i.b.as_words()[0] % 600) as u32))),
        op!("uint.shl_vartime(public amount)", true, true, |i| fold(&i.a.shl_vartime(sh(i)))),
        op!("uint.shr_vartime(public amount)", true, true, |i| fold(&i.a.shr_vartime(sh(i)))),
        op!("uint.overflowing_shl_vartime(public amount)", true, true, |i| fold(&i.a.overflowing_shl_vartime(i.s % 600).unwrap_or(U::ZERO))),
        op!("int.shr(secret amount)", true, true, |i| fold(i.a.as_int().shr((i.b.as_words()[0] % 256) as u32).as_uint())),
        op!("int.wrapping_shr(secret amount)", true, true, |i| fold(i.a.as_int().wrapping_shr((i.b.as_words()[0] % 600) as u32).as_uint())),
        op!("uint.bits", true, true, |i| i.a.bits() as u64),
        op!("uint.leading_zeros", true, true, |i| i.a.leading_zeros() as u64),
        op!("uint.trailing_zeros", true, true, |i| i.a.trailing_zeros() as u64),
        op!("uint.trailing_ones", true, true, |i| i.a.trailing_ones() as u64),
        op!("uint.bit(secret index)", true, true, |i| foldc(i.a.bit((i.b.as_words()[0] % 300) as u32).into())),
        op!("uint.bit_vartime(public index)", true, true, |i| i.a.bit_vartime(i.s % 300) as u64),
        op!("uint.set_bit(secret index)", true, true, |i| { let mut t = i.a; BitOps::set_bit(&mut t, (i.b.as_words()[0] % 256) as u32, Choice::from(1u8)); fold(&t) }),
        op!("uint.bitops", true, true, |i| fold(&i.a.bitand(&i.b).bitor(&i.a.bitxor(&i.b)).not())),
        // --- comparison and selection
        op!("uint.ct_eq", true, true, |i| foldc(i.a.ct_eq(&i.b))),
        op!("uint.ct_lt", true, true, |i| foldc(i.a.ct_lt(&i.b))),
        op!("uint.ct_gt", true, true, |i| foldc(i.a.ct_gt(&i.b))),
        op!("uint.cmp", true, true, |i| i.a.cmp(&i.b) as i8 as u64),
        op!("uint.eq", true, true, |i| (i.a == i.b) as u64),
        op!("uint.is_zero", true, true, |i| foldc(i.a.is_zero()) ^ foldc(i.a.is_odd().into())),
        op!("uint.conditional_select", true, true, |i| fold(&U::conditional_select(&i.a, &i.b, i.a.ct_lt(&i.b)))),
        op!("uint.conditional_swap", true, true, |i| { let (mut x, mut y) = (i.a, i.b); U::conditional_swap(&mut x, &mut y, i.a.ct_gt(&i.b)); fold(&x) ^ fold(&y).rotate_left(1) }),
        op!("uint.wrapping_neg_if", true, true, |i| fold(&i.a.wrapping_neg_if(Integer::is_odd(&i.b).into()))),
        op!("int.ct_lt", true, true, |i| foldc(i.a.as_int().ct_lt(&i.b.as_int()))),
        op!("int.cmp", true, true, |i| i.a.as_int().cmp(&i.b.as_int()) as i8 as u64),
        op!("int.abs_sign", true, true, |i| { let (m, s) = i.a.as_int().abs_sign(); fold(&m) ^ foldc(s.into()) }),
        op!("uint.to_nz", true, true, |i| fold(&CtOption::from(i.a.to_nz()).unwrap_or(NonZero::<U>::ONE).get())),
        op!("uint.to_odd", true, true, |i| fold(&CtOption::from(i.a.to_odd()).unwrap_or(Odd::new(U::ONE).unwrap()).get())),
        op!("uint.cmp_vartime(documented vartime)", false, false, |i| i.a.cmp_vartime(&i.b) as i8 as u64),
        // --- modular arithmetic (public modulus, secret operands reduced by the caller)
        op!("uint.add_mod", true, true, |i| fold(&i.a.add_mod(&i.b, &i.m))),
        op!("uint.sub_mod", true, true, |i| fold(&i.a.sub_mod(&i.b, &i.m))),
        op!("uint.neg_mod", true, true, |i| fold(&i.a.neg_mod(&i.m))),
        op!("uint.double_mod", true, true, |i| fold(&i.a.double_mod(&i.m))),
        op!("uint.mul_mod", true, true, |i| fold(&i.a.mul_mod(&i.b, &nzm(i)))),
        op!("uint.add_mod_special", true, true, |i| fold(&i.a.add_mod_special(&i.b, Limb(189)))),
        op!("uint.sub_mod_special", true, true, |i| fold(&i.a.sub_mod_special(&i.b, Limb(189)))),
        op!("uint.mul_mod_special", true, true, |i| fold(&i.a.mul_mod_special(&i.b, Limb(189)))),
        op!("uint.mul_mod_vartime(documented vartime in the modulus)", true, true, |i| fold(&i.a.mul_mod_vartime(&i.b, &nzm(i)))),
        // --- Montgomery forms (public modulus)
        op!("monty.new+retrieve", true, true, |i| { let p = MontyParams::new_vartime(oddm(i)); fold(&MontyForm::new(&i.a, p).retrieve()) }),
        op!("monty.add", true, true, |i| { let p = MontyParams::new_vartime(oddm(i)); fold((MontyForm::new(&i.a, p) + MontyForm::new(&i.b, p)).as_montgomery()) }),
        op!("monty.sub", true, true, |i| { let p = MontyParams::new_vartime(oddm(i)); fold((MontyForm::new(&i.a, p) - MontyForm::new(&i.b, p)).as_montgomery()) }),
        op!("monty.neg", true, true, |i| { let p = MontyParams::new_vartime(oddm(i)); fold((-MontyForm::new(&i.a, p)).as_montgomery()) }),
        op!("monty.mul", true, true, |i| { let p = MontyParams::new_vartime(oddm(i)); fold((MontyForm::new(&i.a, p) * MontyForm::new(&i.b, p)).as_montgomery()) }),
        op!("monty.square", true, true, |i| { let p = MontyParams::new_vartime(oddm(i)); fold(MontyForm::new(&i.a, p).square().as_montgomery()) }),
        op!("monty.div_by_2", true, true, |i| { let p = MontyParams::new_vartime(oddm(i)); fold(MontyForm::new(&i.a, p).div_by_2().as_montgomery()) }),
        op!("monty.pow(secret exponent)", true, true, |i| { let p = MontyParams::new_vartime(oddm(i)); fold(MontyForm::new(&i.a, p).pow(&i.b).as_montgomery()) }),
        op!("monty.pow_bounded_exp(public bound)", true, true, |i| { let p = MontyParams::new_vartime(oddm(i)); fold(MontyForm::new(&i.a, p).pow_bounded_exp(&i.b, i.s % 257).as_montgomery()) }),
        op!("monty.inv", true, true, |i| { let p = MontyParams::new_vartime(oddm(i)); let c: CtOption<MontyForm<NL>> = MontyForm::new(&i.a, p).inv().into(); fold(c.unwrap_or(MontyForm::zero(p)).as_montgomery()) }),
        op!("monty.params.new(secret modulus)", true, true, |i| { let p = MontyParams::new(Odd::new(i.a.bitor(&U::ONE)).unwrap()); fold(MontyForm::one(p).as_montgomery()) }),
        // --- inversion / gcd / sqrt
        op!("uint.inv_odd_mod", true, true, |i| fold(&i.a.inv_odd_mod(&oddm(i)).unwrap_or(U::ZERO))),
        op!("uint.inv_mod(public modulus)", true, true, |i| fold(&i.a.inv_mod(&i.m).unwrap_or(U::ZERO))),
        op!("uint.inv_mod2k(public k)", true, true, |i| fold(&i.a.inv_mod2k(i.s % 257).unwrap_or(U::ZERO))),
        op!("uint.inv_mod2k_vartime(public k)", true, true, |i| fold(&i.a.inv_mod2k_vartime(i.s % 257).unwrap_or(U::ZERO))),
        op!("uint.gcd", true, true, |i| fold(&i.a.gcd(&i.b))),
        op!("uint.sqrt", true, true, |i| fold(&i.a.sqrt())),
        op!("uint.checked_sqrt", true, true, |i| fold(&i.a.checked_sqrt().unwrap_or(U::ZERO))),
        op!("uint.sqrt_vartime(documented vartime)", false, false, |i| fold(&i.a.sqrt_vartime())),
        // --- encodings
        op!("uint.to_be_bytes", true, true, |i| { let b = i.a.to_be_bytes(); fold(&U::from_be_bytes(b)) }),
        op!("uint.to_le_bytes", true, true, |i| { let b = i.a.to_le_bytes(); fold(&U::from_le_bytes(b)) }),
        op!("uint.concat_split", true, true, |i| { let w = i.a.concat(&i.b); let (l, h) = w.split(); fold(&l) ^ fold(&h) }),
        op!("uint.resize", true, true, |i| { let w: U512 = i.a.resize(); let n: U128 = i.b.resize(); w.as_words()[3] ^ n.as_words()[1] }),
        // --- limb
        op!("limb.mac", true, true, |i| { let (l, h) = Limb(i.a.as_words()[0]).mac(Limb(i.b.as_words()[0]), Limb(i.a.as_words()[1]), Limb(i.b.as_words()[1])); l.0 ^ h.0 }),
        op!("limb.ct_lt", true, true, |i| foldc(Limb(i.a.as_words()[0]).ct_lt(&Limb(i.b.as_words()[0])))),
        // --- boxed twins (precision 256 bits)
        op!("boxed.wrapping_add", true, true, |i| foldb(&i.ba.wrapping_add(&i.bb))),
        op!("boxed.checked_sub", true, true, |i| foldc(i.ba.checked_sub(&i.bb).is_some())),
        op!("boxed.mul", true, true, |i| foldb(&i.ba.mul(&i.bb))),
        op!("boxed.wrapping_mul", true, true, |i| foldb(&i.ba.wrapping_mul(&i.bb))),
        op!("boxed.square", true, true, |i| foldb(&i.ba.square())),
        op!("boxed.div_rem", true, true, |i| { let d = NonZero::new(i.bb.bitor(&BoxedUint::one_with_precision(256))).unwrap(); let (q, r) = i.ba.div_rem(&d); foldb(&q) ^ foldb(&r) }),
        op!("boxed.rem(public modulus)", true, true, |i| foldb(&i.ba.rem(&nzbm(i)))),
        op!("boxed.div_rem_vartime", true, false, |i| { let d = NonZero::new(i.bb.bitor(&BoxedUint::one_with_precision(256))).unwrap(); let (q, r) = i.ba.div_rem_vartime(&d); foldb(&q) ^ foldb(&r) }),
        op!("boxed.shl(secret amount)", true, true, |i| foldb(&i.ba.overflowing_shl((i.b.as_words()[0] % 300) as u32).0)),
        op!("boxed.shr(secret amount)", true, true, |i| foldb(&i.ba.overflowing_shr((i.b.as_words()[0] % 300) as u32).0)),
        op!("boxed.shl_vartime(public amount)", true, true, |i| foldb(&i.ba.shl_vartime(sh(i)).unwrap_or(BoxedUint::zero_with_precision(256)))),
        op!("boxed.bits", true, true, |i| i.ba.bits() as u64 ^ i.ba.leading_zeros() as u64 ^ i.ba.trailing_zeros() as u64),
        op!("boxed.ct_eq", true, true, |i| foldc(i.ba.ct_eq(&i.bb)) ^ foldc(i.ba.ct_lt(&i.bb)) ^ foldc(i.ba.ct_gt(&i.bb))),
        op!("boxed.cmp", true, true, |i| i.ba.cmp(&i.bb) as i8 as u64),
        op!("boxed.ct_select", true, true, |i| foldb(&BoxedUint::ct_select(&i.ba, &i.bb, i.ba.ct_lt(&i.bb)))),
        op!("boxed.add_mod", true, true, |i| foldb(&i.ba.add_mod(&i.bb, &i.bm))),
        op!("boxed.sub_mod", true, true, |i| foldb(&i.ba.sub_mod(&i.bb, &i.bm))),
        op!("boxed.neg_mod", true, true, |i| foldb(&i.ba.neg_mod(&i.bm))),
        op!("boxed.mul_mod", true, true, |i| foldb(&i.ba.mul_mod(&i.bb, &nzbm(i)))),
        op!("boxed.inv_odd_mod", true, true, |i| foldc(i.ba.inv_odd_mod(&oddbm(i)).is_some())),
        op!("boxed.inv_mod2k(public k)", true, true, |i| foldb(&i.ba.inv_mod2k(i.s % 257).0)),
        op!("boxed.gcd", true, true, |i| foldb(&i.ba.gcd(&i.bb))),
        op!("boxed.sqrt", true, true, |i| foldb(&i.ba.sqrt())),
        op!("boxed.to_be_bytes", true, true, |i| i.ba.to_be_bytes().iter().fold(0u64, |h, b| h.rotate_left(5) ^ *b as u64)),
        op!("boxedmonty.mul", true, true, |i| { let p = BoxedMontyParams::new_vartime(oddbm(i)); foldb((BoxedMontyForm::new(i.ba.clone(), p.clone()) * BoxedMontyForm::new(i.bb.clone(), p)).as_montgomery()) }),
        op!("boxedmonty.add_sub_neg", true, true, |i| { let p = BoxedMontyParams::new_vartime(oddbm(i)); let (x, y) = (BoxedMontyForm::new(i.ba.clone(), p.clone()), BoxedMontyForm::new(i.bb.clone(), p)); foldb((-(&x + &y) - &y).as_montgomery()) }),
        op!("boxedmonty.pow(secret exponent)", true, true, |i| { let p = BoxedMontyParams::new_vartime(oddbm(i)); foldb(BoxedMontyForm::new(i.ba.clone(), p).pow(&i.bb).as_montgomery()) }),
        // --- signed integers (two's-complement view of the same operands)
        op!("int.checked_add", true, true, |i| fold(CtOption::from(i.a.as_int().checked_add(&i.b.as_int())).unwrap_or(I256::ZERO).as_uint())),
        op!("int.checked_sub", true, true, |i| fold(CtOption::from(i.a.as_int().checked_sub(&i.b.as_int())).unwrap_or(I256::ZERO).as_uint())),
        op!("int.checked_mul", true, true, |i| fold(CtOption::from(i.a.as_int().checked_mul(&i.b.as_int())).unwrap_or(I256::ZERO).as_uint())),
        op!("int.widening_mul", true, true, |i| { let w: I512 = i.a.as_int().widening_mul(&i.b.as_int()); foldw(w.as_uint()) }),
        op!("int.checked_neg", true, true, |i| fold(CtOption::from(i.a.as_int().checked_neg()).unwrap_or(I256::ZERO).as_uint())),
        op!("int.checked_div", true, true, |i| fold(i.a.as_int().checked_div(&i.b.as_int()).unwrap_or(I256::ZERO).as_uint())),
        op!("int.checked_div_rem", true, true, |i| { let d = CtOption::from(i.b.bitor(&U::ONE).as_int().to_nz()).unwrap_or(NonZero::<I256>::ONE); let (q, r) = i.a.as_int().checked_div_rem(&d); fold(CtOption::from(q).unwrap_or(I256::ZERO).as_uint()) ^ fold(r.as_uint()) }),
        op!("int.checked_div_rem_floor", true, true, |i| { let d = CtOption::from(i.b.bitor(&U::ONE).as_int().to_nz()).unwrap_or(NonZero::<I256>::ONE); let (q, r) = i.a.as_int().checked_div_rem_floor(&d); fold(CtOption::from(q).unwrap_or(I256::ZERO).as_uint()) ^ fold(r.as_uint()) }),
        // the `_vartime` signed divisions are documented variable-time in the DIVISOR only: secret dividend, public divisor
        op!("int.checked_div_rem_vartime(public divisor)", true, false, |i| { let d = CtOption::from(i.b.bitor(&U::ONE).as_int().to_nz()).unwrap_or(NonZero::<I256>::ONE); let (q, r) = i.a.as_int().checked_div_rem_vartime(&d); fold(CtOption::from(q).unwrap_or(I256::ZERO).as_uint()) ^ fold(r.as_uint()) ^ fold(i.a.as_int().rem_vartime(&d).as_uint()) }),
        op!("int.checked_div_rem_floor_vartime(public divisor)", true, false, |i| { let d = CtOption::from(i.b.bitor(&U::ONE).as_int().to_nz()).unwrap_or(NonZero::<I256>::ONE); let (q, r) = i.a.as_int().checked_div_rem_floor_vartime(&d); fold(CtOption::from(q).unwrap_or(I256::ZERO).as_uint()) ^ fold(r.as_uint()) }),
        op!("int.div_rem_uint_vartime(public divisor)", true, false, |i| { let d = NonZero::new(i.b.bitor(&U::ONE)).unwrap(); let (q, r) = i.a.as_int().div_rem_uint_vartime(&d); fold(q.as_uint()) ^ fold(r.as_uint()) }),
        op!("int.div_rem_floor_uint_vartime(public divisor)", true, false, |i| { let d = NonZero::new(i.b.bitor(&U::ONE)).unwrap(); let (q, r) = i.a.as_int().div_rem_floor_uint_vartime(&d); fold(q.as_uint()) ^ fold(&r) ^ fold(&i.a.as_int().normalized_rem_vartime(&d)) }),
        op!("int.div_rem_uint", true, true, |i| { let d = NonZero::new(i.b.bitor(&U::ONE)).unwrap(); let (q, r) = i.a.as_int().div_rem_uint(&d); fold(q.as_uint()) ^ fold(r.as_uint()) }),
        op!("int.new_from_abs_sign", true, true, |i| fold(CtOption::from(I256::new_from_abs_sign(i.a, Integer::is_odd(&i.b).into())).unwrap_or(I256::ZERO).as_uint())),
        op!("int.resize", true, true, |i| { let w: I512 = i.a.as_int().resize(); let n: I128 = i.b.as_int().resize(); w.as_uint().as_words()[7] ^ n.as_uint().as_words()[1] }),
        op!("int.is_min_max", true, true, |i| foldc(i.a.as_int().is_min().into()) ^ foldc(i.a.as_int().is_max().into()) ^ foldc(i.a.as_int().is_negative().into())),
        // --- one- and two-limb widths (code that special-cases LIMBS == 1 or runs without Karatsuba)
        op!("u64.div_rem", true, true, |i| { let (x, y) = (U64::from_u64(i.a.as_words()[0]), U64::from_u64(i.b.as_words()[0] | 1)); let (q, r) = x.div_rem(&NonZero::new(y).unwrap()); q.as_words()[0] ^ r.as_words()[0] }),
        op!("u64.mul_mod_special", true, true, |i| { let (x, y) = (U64::from_u64(i.a.as_words()[0]), U64::from_u64(i.b.as_words()[0])); x.mul_mod_special(&y, Limb(59)).as_words()[0] }),
        op!("u64.sqrt", true, true, |i| U64::from_u64(i.a.as_words()[0]).sqrt().as_words()[0] & 0xffff_ffff_ffff_fffe),
        op!("u128.split_mul", true, true, |i| { let (x, y) = (U128::from_words([i.a.as_words()[0], i.a.as_words()[1]]), U128::from_words([i.b.as_words()[0], i.b.as_words()[1]])); let (l, h) = x.split_mul(&y); foldw(&l) ^ foldw(&h) }),
        op!("u128.div_rem", true, true, |i| { let (x, y) = (U128::from_words([i.a.as_words()[0], i.a.as_words()[1]]), U128::from_words([i.b.as_words()[0] | 1, i.b.as_words()[1]])); let (q, r) = x.div_rem(&NonZero::new(y).unwrap()); foldw(&q) ^ foldw(&r) }),
        op!("u128.add_mod_sub_mod", true, true, |i| { let m = U128::from_words([i.m.as_words()[0], i.m.as_words()[1] | (1 << 63)]); let nz = NonZero::new(m).unwrap(); let (x, y) = (U128::from_words([i.a.as_words()[0], i.a.as_words()[1]]).rem_vartime(&nz), U128::from_words([i.b.as_words()[0], i.b.as_words()[1]]).rem_vartime(&nz)); foldw(&x.add_mod(&y, &m)) ^ foldw(&x.sub_mod(&y, &m)) }),
        op!("u128.shl_shr(secret amount)", true, true, |i| { let x = U128::from_words([i.a.as_words()[0], i.a.as_words()[1]]); let s = (i.b.as_words()[0] % 128) as u32; foldw(&x.shl(s)) ^ foldw(&x.shr(s)) }),
        // --- compile-time Montgomery form (NIST P-256 order)
        op!("constmonty.new+retrieve", true, true, |i| fold(&ConstMontyForm::<P256N, 4>::new(&i.a).retrieve())),
        op!("constmonty.add_sub_neg", true, true, |i| { let (x, y) = (ConstMontyForm::<P256N, 4>::new(&i.a), ConstMontyForm::<P256N, 4>::new(&i.b)); fold((-(x + y) - y).as_montgomery()) }),
        op!("constmonty.mul_square", true, true, |i| { let (x, y) = (ConstMontyForm::<P256N, 4>::new(&i.a), ConstMontyForm::<P256N, 4>::new(&i.b)); fold((x * y).square().as_montgomery()) }),
        op!("constmonty.pow(secret exponent)", true, true, |i| fold(ConstMontyForm::<P256N, 4>::new(&i.a).pow(&i.b).as_montgomery())),
        op!("constmonty.div_by_2", true, true, |i| fold(ConstMontyForm::<P256N, 4>::new(&i.a).div_by_2().as_montgomery())),
        // --- more boxed operations
        op!("boxed.bitops", true, true, |i| foldb(&i.ba.bitand(&i.bb).bitor(&i.ba.bitxor(&i.bb)).not())),
        op!("boxed.wrapping_neg", true, true, |i| foldb(&i.ba.wrapping_neg())),
        op!("boxed.widen_shorten", true, true, |i| foldb(&i.ba.widen(512)) ^ foldb(&i.bb.shorten(128))),
        op!("boxed.is_zero_is_odd", true, true, |i| foldc(i.ba.is_zero()) ^ foldc(Integer::is_odd(&i.bb)) ^ foldc(i.ba.is_one())),
        op!("boxed.mul_mod_special", true, true, |i| foldb(&i.ba.mul_mod_special(&i.bb, Limb(189)))),
        op!("boxed.sub_mod_special", true, true, |i| foldb(&i.ba.sub_mod_special(&i.bb, Limb(189)))),
        op!("boxed.double_mod", true, true, |i| foldb(&i.ba.double_mod(&i.bm))),
        op!("boxed.adc_sbb", true, true, |i| { let (x, c) = i.ba.adc(&i.bb, Limb::ONE); let (y, d) = i.ba.sbb(&i.bb, Limb::ZERO); foldb(&x) ^ foldb(&y) ^ c.0 ^ d.0 }),
        op!("boxed.checked_add_mul", true, true, |i| foldc(i.ba.checked_add(&i.bb).is_some()) ^ foldc(i.ba.checked_mul(&i.bb).is_some())),
        op!("boxed.rem_vartime(public modulus)", true, true, |i| foldb(&i.ba.rem_vartime(&nzbm(i)))),
        op!("boxed.rem_limb", true, true, |i| { let d = NonZero::new(Limb(i.b.as_words()[0] | 1)).unwrap(); i.ba.rem_limb(d).0 }),
        op!("boxed.from_to_le_bytes", true, true, |i| { let b = i.ba.to_le_bytes(); b.iter().fold(0u64, |h, x| h.rotate_left(3) ^ *x as u64) }),
        op!("boxedmonty.square_div_by_2", true, true, |i| { let p = BoxedMontyParams::new_vartime(oddbm(i)); let x = BoxedMontyForm::new(i.ba.clone(), p); foldb(x.square().div_by_2().as_montgomery()) }),
        op!("boxedmonty.retrieve", true, true, |i| { let p = BoxedMontyParams::new_vartime(oddbm(i)); foldb(&BoxedMontyForm::new(i.ba.clone(), p).retrieve()) }),
        // --- trait and operator routes with a SECRET shift amount (the inherent methods are covered above)
        op!("uint.wrapping_shr(secret amount)", true, true, |i| fold(&i.a.wrapping_shr((i.b.as_words()[0] % 600) as u32))),
        op!("uint.WrappingShl(secret amount)", true, true, |i| fold(&num_traits::WrappingShl::wrapping_shl(&i.a, (i.b.as_words()[0] % 600) as u32))),
        op!("uint.WrappingShr(secret amount)", true, true, |i| fold(&num_traits::WrappingShr::wrapping_shr(&i.a, (i.b.as_words()[0] % 600) as u32))),
        op!("uint.op_shl(secret amount)", true, true, |i| { let s = (i.b.as_words()[0] % 256) as u32; let mut t = i.a; t <<= s; fold(&(i.a << s)) ^ fold(&(&i.a << s)) ^ fold(&t) ^ fold(&(i.a << (s as usize))) ^ fold(&(i.a << (s as i32))) }),
        op!("uint.op_shr(secret amount)", true, true, |i| { let s = (i.b.as_words()[0] % 256) as u32; let mut t = i.a; t >>= s; fold(&(i.a >> s)) ^ fold(&(&i.a >> s)) ^ fold(&t) ^ fold(&(i.a >> (s as usize))) ^ fold(&(i.a >> (s as i32))) }),
        op!("uint1024.shl_shr(secret amount)", true, true, |i| { let s = (i.b.as_words()[0] % 1024) as u32; foldw(&i.wa.shl(s)) ^ foldw(&i.wa.shr(s)) ^ foldw(&num_traits::WrappingShr::wrapping_shr(&i.wa, s)) ^ foldw(&num_traits::WrappingShl::wrapping_shl(&i.wa, s)) }),
        op!("int.op_shr(secret amount)", true, true, |i| { let s = (i.b.as_words()[0] % 256) as u32; fold((i.a.as_int() >> s).as_uint()) ^ fold((i.a.as_int() << s).as_uint()) }),
        op!("boxed.op_shl_shr(secret amount)", true, true, |i| { let s = (i.b.as_words()[0] % 256) as u32; let mut t = i.ba.clone(); t <<= s; let mut v = i.ba.clone(); v >>= s; foldb(&(&i.ba << s)) ^ foldb(&(&i.ba >> s)) ^ foldb(&t) ^ foldb(&v) }),
        op!("boxed.WrappingShl_Shr(secret amount)", true, true, |i| { let s = (i.b.as_words()[0] % 600) as u32; foldb(&num_traits::WrappingShl::wrapping_shl(&i.ba, s)) ^ foldb(&num_traits::WrappingShr::wrapping_shr(&i.ba, s)) ^ foldb(&i.ba.wrapping_shl(s)) ^ foldb(&i.ba.wrapping_shr(s)) }),
        op!("limb.op_shl_shr(secret amount)", true, true, |i| { let s = (i.b.as_words()[0] % 64) as u32; let x = Limb(i.a.as_words()[0]); (x << s).0 ^ (x >> s).0 ^ x.shl(s).0 ^ x.shr(s).0 }),
        // --- trait routes of arithmetic and comparison
        op!("uint.trait_arith", true, true, |i| fold(&num_traits::WrappingAdd::wrapping_add(&i.a, &i.b)) ^ fold(&num_traits::WrappingSub::wrapping_sub(&i.a, &i.b)) ^ fold(&num_traits::WrappingMul::wrapping_mul(&i.a, &i.b)) ^ fold(&num_traits::WrappingNeg::wrapping_neg(&i.a))
            ^ fold(&CheckedAdd::checked_add(&i.a, &i.b).unwrap_or(U::ZERO)) ^ fold(&CheckedSub::checked_sub(&i.a, &i.b).unwrap_or(U::ZERO)) ^ fold(&CheckedMul::checked_mul(&i.a, &i.b).unwrap_or(U::ZERO))),
        op!("uint.trait_cmp", true, true, |i| (i.a == i.b) as u64 ^ ((i.a < i.b) as u64) << 1 ^ ((i.a >= i.b) as u64) << 2 ^ (Ord::max(i.a, i.b).as_words()[0]) ^ (i.a.partial_cmp(&i.b).unwrap() as i8 as u64)),
        op!("boxed.trait_arith", true, true, |i| foldb(&num_traits::WrappingAdd::wrapping_add(&i.ba, &i.bb)) ^ foldb(&num_traits::WrappingSub::wrapping_sub(&i.ba, &i.bb)) ^ foldb(&num_traits::WrappingMul::wrapping_mul(&i.ba, &i.bb)) ^ foldb(&num_traits::WrappingNeg::wrapping_neg(&i.ba))
            ^ foldc(CheckedAdd::checked_add(&i.ba, &i.bb).is_some()) ^ foldc(CheckedSub::checked_sub(&i.ba, &i.bb).is_some())),
        op!("boxed.trait_cmp", true, true, |i| (i.ba == i.bb) as u64 ^ ((i.ba < i.bb) as u64) << 1 ^ ((i.ba >= i.bb) as u64) << 2 ^ (i.ba.partial_cmp(&i.bb).unwrap() as i8 as u64)),
        // --- the Checked wrapper: every operand form of + - *, and two-step chains whose first step overflows or not
        //     depending on the secrets (a poisoned operand must take the same path as a good one)
        op!("checked.wrapper.mul_chain", true, true, |i| { let (a, b) = (Checked::new(i.a), Checked::new(i.b)); let p = &a * &b;
            fold(&(&p * &b).0.unwrap_or(U::ZERO)) ^ fold(&(&b * &p).0.unwrap_or(U::ZERO)) ^ fold(&(p * b).0.unwrap_or(U::ZERO)) ^ fold(&(a * p).0.unwrap_or(U::ZERO))
            ^ fold(&(p * &a).0.unwrap_or(U::ZERO)) ^ fold(&(&a * p).0.unwrap_or(U::ZERO)) ^ fold(&(&p * &p).0.unwrap_or(U::ZERO)) }),
        op!("checked.wrapper.addsub_chain", true, true, |i| { let (a, b) = (Checked::new(i.a), Checked::new(i.b)); let p = &a + &b; let q = &a - &b;
            fold(&(&p + &b).0.unwrap_or(U::ZERO)) ^ fold(&(&b + &q).0.unwrap_or(U::ZERO)) ^ fold(&(p + q).0.unwrap_or(U::ZERO)) ^ fold(&(&q - &a).0.unwrap_or(U::ZERO))
            ^ fold(&(a - p).0.unwrap_or(U::ZERO)) ^ fold(&(p - &b).0.unwrap_or(U::ZERO)) ^ fold(&(&q + p).0.unwrap_or(U::ZERO)) ^ fold(&(q * &p).0.unwrap_or(U::ZERO)) ^ fold(&(&p * q).0.unwrap_or(U::ZERO)) }),
        op!("checked.wrapper.assign_chain", true, true, |i| { let (a, b) = (Checked::new(i.a), Checked::new(i.b)); let mut x = a; x *= b; x += a; x -= &b; x *= &a; x += &b; x -= a;
            fold(&x.0.unwrap_or(U::ZERO)) ^ foldc(x.0.is_some()) }),
        // --- boxed operands of DIFFERENT precision (256-bit against 2048-bit, both orders)
        op!("boxed.mixed.ct_eq", true, true, |i| foldc(i.ba.ct_eq(&i.bwa)) ^ foldc(i.bwa.ct_eq(&i.ba)) ^ ((i.ba == i.bwb) as u64) << 1),
        op!("boxed.mixed.ct_lt_gt", true, true, |i| foldc(i.ba.ct_lt(&i.bwa)) ^ foldc(i.bwa.ct_lt(&i.ba)) ^ foldc(i.ba.ct_gt(&i.bwb)) ^ foldc(i.bwb.ct_gt(&i.ba))),
        op!("boxed.mixed.cmp", true, true, |i| (i.ba.cmp(&i.bwa) as i8 as u64) ^ ((i.bwb.cmp(&i.bb) as i8 as u64) << 8) ^ ((i.bwa.partial_cmp(&i.ba).unwrap() as i8 as u64) << 16)),
        op!("boxed.mixed.add_sub(narrow rhs)", true, true, |i| foldb(&i.bwa.adc(&i.ba, Limb::ZERO).0) ^ foldb(&i.bwa.sbb(&i.bb, Limb::ZERO).0) ^ foldb(&i.bwa.wrapping_add(&i.ba)) ^ foldb(&i.bwa.wrapping_sub(&i.bb))
            ^ foldc(i.bwb.checked_add(&i.ba).is_some()) ^ foldc(i.bwb.checked_sub(&i.bb).is_some())),
        op!("boxed.mixed.add_sub(wide rhs)", true, true, |i| foldb(&i.ba.wrapping_add(&i.bwa)) ^ foldb(&i.ba.wrapping_sub(&i.bwb)) ^ foldc(i.ba.checked_add(&i.bwa).is_some())),
        op!("boxed.mixed.mul", true, true, |i| foldb(&i.ba.mul(&i.bwa)) ^ foldb(&i.bwb.mul(&i.bb)) ^ foldb(&i.ba.wrapping_mul(&i.bwa))),
        op!("boxed.mixed.bitops", true, true, |i| foldb(&i.bwa.bitand(&i.bwb)) ^ foldb(&i.bwa.bitor(&i.bwb)) ^ foldb(&i.bwa.bitxor(&i.bwb)) ^ foldb(&i.bwa.clone().not())),
        op!("boxed.resize", true, true, |i| foldb(&i.ba.widen(2048)) ^ foldb(&i.bwa.shorten(256)) ^ foldb(&i.ba.clone().widen(320))),
        // --- wrappers built from secrets
        op!("wrappers.new", true, true, |i| foldc(NonZero::new(i.a).is_some()) ^ foldc(Odd::new(i.b).is_some()) ^ foldc(NonZero::new(i.ba.clone()).is_some()) ^ foldc(Odd::new(i.bb.clone()).is_some())
            ^ foldc(i.a.to_nz().is_some().into()) ^ foldc(i.b.to_odd().is_some().into()) ^ foldc(NonZero::new(Limb(i.a.as_words()[0])).is_some())),
        // --- decoding of secret byte strings (precisions that are and are not a multiple of the limb size)
        op!("boxed.from_be_slice(precision 256)", true, true, |i| { let b = i.a.to_be_bytes(); foldb(&BoxedUint::from_be_slice(&b, 256).unwrap()) }),
        op!("boxed.from_le_slice(precision 256)", true, true, |i| { let b = i.a.to_le_bytes(); foldb(&BoxedUint::from_le_slice(&b, 256).unwrap()) }),
        op!("boxed.from_be_slice(precision 255)", true, true, |i| { let mut b = i.a.to_be_bytes(); b[0] &= 0x7f; foldb(&BoxedUint::from_be_slice(&b, 255).unwrap()) }),
        op!("boxed.from_le_slice(precision 255)", true, true, |i| { let mut b = i.a.to_le_bytes(); b[31] &= 0x7f; foldb(&BoxedUint::from_le_slice(&b, 255).unwrap()) }),
        op!("boxed.from_be_slice(precision 521)", true, true, |i| { let mut b = [0u8; 66]; b[1..33].copy_from_slice(&i.a.to_be_bytes()); b[33..65].copy_from_slice(&i.b.to_be_bytes()); b[65] = i.a.as_words()[0] as u8; b[0] = i.b.as_words()[0] as u8 & 1; foldb(&BoxedUint::from_be_slice(&b, 521).unwrap()) }),
        op!("boxed.from_le_slice(precision 521)", true, true, |i| { let mut b = [0u8; 66]; b[0..32].copy_from_slice(&i.a.to_le_bytes()); b[32..64].copy_from_slice(&i.b.to_le_bytes()); b[64] = i.a.as_words()[0] as u8; b[65] = i.b.as_words()[0] as u8 & 1; foldb(&BoxedUint::from_le_slice(&b, 521).unwrap()) }),
        op!("boxed.from_be_slice(short input, precision 2048)", true, true, |i| { let b = i.a.to_be_bytes(); foldb(&BoxedUint::from_be_slice(&b, 2048).unwrap()) }),
        op!("uint.from_be_slice", true, true, |i| { let b = i.a.to_be_bytes(); fold(&U::from_be_slice(&b)) ^ fold(&U::from_le_slice(&b)) }),
        op!("uint.from_be_hex(secret digits)", true, true, |i| { let b = i.a.to_be_bytes(); let mut h = [0u8; 64]; for (k, x) in b.iter().enumerate() { let (hi, lo) = ((x >> 4) as i16, (x & 15) as i16); h[2 * k] = (48 + hi + (((9 - hi) >> 15) & 39)) as u8; h[2 * k + 1] = (48 + lo + (((9 - lo) >> 15) & 7)) as u8; }   /* branch-free, table-free: the encoder is part of the traced region */ fold(&U::from_be_hex(core::str::from_utf8(&h).unwrap())) }),
        // --- trait default bodies and comparisons with wrapped operands
        op!("uint.BitOps.trait_routes", true, true, |i| { let idx = (i.b.as_words()[0] % 256) as u32; (BitOps::bits(&i.a) ^ BitOps::leading_zeros(&i.a) << 8 ^ BitOps::trailing_zeros(&i.a) << 16 ^ BitOps::trailing_ones(&i.a) << 24) as u64 ^ foldc(BitOps::bit(&i.a, idx)) << 40 }),
        op!("uint2048.BitOps.bits", true, true, |i| { let x: U2048 = i.wa.concat(&i.wb); (BitOps::bits(&x) ^ BitOps::leading_zeros(&x) << 12) as u64 }),
        op!("boxed.BitOps.trait_routes", true, true, |i| (BitOps::bits(&i.bwa) ^ BitOps::leading_zeros(&i.bwa) << 12) as u64 ^ (BitOps::trailing_zeros(&i.bwb) as u64) << 32),
        op!("boxed2048.CheckedMul", true, true, |i| foldc(CheckedMul::checked_mul(&i.bwa, &i.bwb).is_some()) ^ foldc(CheckedMul::checked_mul(&i.ba, &i.bb).is_some()) << 1),
        op!("boxed.CheckedMul(small product)", true, true, |i| { let x = BoxedUint::from(i.a.as_words()[0]).widen(512); let y = BoxedUint::from(i.b.as_words()[0]).widen(512); foldc(CheckedMul::checked_mul(&x, &y).is_some()) ^ foldb(&(&x * &y)) }),
        op!("uint.cmp_with_Odd(public modulus)", true, true, |i| { let o = oddm(i); ((i.a < o) as u64) ^ ((i.a == o) as u64) << 1 ^ ((i.a.partial_cmp(&o).unwrap() as i8 as u64) << 2) }),
        op!("uint2048.cmp_with_Odd", true, true, |i| { let x: U2048 = i.wa.concat(&i.wb); let o = Odd::new(i.wb.concat(&i.wa).bitor(&U2048::ONE)).unwrap(); ((x < o) as u64) ^ ((x == o) as u64) << 1 }),
        op!("boxed.cmp_with_Odd(public modulus)", true, true, |i| { let o = oddbm(i); ((i.ba < o) as u64) ^ ((i.ba == o) as u64) << 1 }),
        op!("uint.cmp_with_NonZero_traits", true, true, |i| { let (x, y) = (NonZero::new(i.a.bitor(&U::ONE)).unwrap(), NonZero::new(i.b.bitor(&U::ONE)).unwrap()); ((x == y) as u64) ^ ((x < y) as u64) << 1 ^ foldc(x.ct_eq(&y)) << 2 }),
        // --- limb level
        op!("limb.arith", true, true, |i| { let (x, y) = (Limb(i.a.as_words()[0]), Limb(i.b.as_words()[0])); x.wrapping_add(y).0 ^ x.wrapping_sub(y).0 ^ x.wrapping_mul(y).0 ^ x.saturating_add(y).0 ^ x.saturating_mul(y).0 }),
        op!("limb.adc_sbb", true, true, |i| { let (x, y) = (Limb(i.a.as_words()[0]), Limb(i.b.as_words()[0])); let (s, c) = x.adc(y, Limb(i.a.as_words()[1])); let (d, bw) = x.sbb(y, Limb(i.b.as_words()[1])); s.0 ^ c.0 ^ d.0 ^ bw.0 }),
        op!("limb.ct_cmp", true, true, |i| { let (x, y) = (Limb(i.a.as_words()[0]), Limb(i.b.as_words()[0])); foldc(x.ct_eq(&y)) ^ foldc(x.ct_gt(&y)) ^ (x.cmp(&y) as i8 as u64) ^ foldc(x.is_zero()) }),
        op!("limb.bits", true, true, |i| { let x = Limb(i.a.as_words()[0]); (x.bits() ^ x.leading_zeros() ^ x.trailing_zeros()) as u64 }),
        // --- wide operands: every Karatsuba level of the fixed dispatch, boxed Karatsuba with trailing limbs
        op!("uint1024.split_mul", true, true, |i| { let (l, h) = i.wa.split_mul(&i.wb); foldw(&l) ^ foldw(&h) }),
        op!("uint1024.wrapping_mul", true, true, |i| foldw(&i.wa.wrapping_mul(&i.wb))),
        op!("uint1024.square_wide", true, true, |i| { let (l, h) = i.wa.square_wide(); foldw(&l) ^ foldw(&h) }),
        op!("uint2048.split_mul", true, true, |i| { let x: U2048 = i.wa.concat(&i.wb); let y: U2048 = i.wb.concat(&i.wa); let (l, h) = x.split_mul(&y); foldw(&l) ^ foldw(&h) }),
        op!("uint4096.square_wide", true, true, |i| { let x: U2048 = i.wa.concat(&i.wb); let y: U4096 = x.concat(&i.wb.concat(&i.wa)); let (l, h) = y.square_wide(); foldw(&l) ^ foldw(&h) }),
        op!("boxed2048.mul", true, true, |i| foldb(&i.bwa.mul(&i.bwb))),
        op!("boxed2048.square", true, true, |i| foldb(&i.bwa.square())),
        op!("boxed(33x34).mul", true, true, |i| foldb(&i.b33.mul(&i.b34))),
        op!("boxed(34x33).mul", true, true, |i| foldb(&i.b34.mul(&i.b33))),
        // --- one-limb Montgomery exponentiation with a modulus one bit shorter than the precision, many secrets
        op!("boxedmonty64.pow(secret exponent)", true, true, more 6000, |i| { let p = BoxedMontyParams::new_vartime(Odd::new(i.m1.clone()).unwrap()); let x = BoxedMontyForm::new(BoxedUint::from_words([i.a.as_words()[0]]), p); foldb(x.pow(&BoxedUint::from_words([i.b.as_words()[0]])).as_montgomery()) }),
        op!("monty64.pow(secret exponent)", true, true, more 2000, |i| { let p = MontyParams::new_vartime(Odd::new(U64::from_u64(i.m1.as_words()[0])).unwrap()); fold(&MontyForm::new(&U64::from_u64(i.a.as_words()[0]), p).pow(&U64::from_u64(i.b.as_words()[0])).as_montgomery().resize()) }),
        op!("boxedmonty.invert", true, true, |i| { let p = BoxedMontyParams::new_vartime(oddbm(i)); let x = BoxedMontyForm::new(i.ba.clone(), p.clone()); { let _ = &p; foldc(x.invert().is_some()) } }),
    ];
    width_ops!(v, 1, "64"); width_ops!(v, 2, "128"); width_ops!(v, 3, "192"); width_ops!(v, 6, "384"); width_ops!(v, 8, "512"); width_ops!(v, 16, "1024w");
    pow_width!(v, 4, "256"); pow_width!(v, 5, "320"); pow_width!(v, 7, "448"); pow_width!(v, 9, "576"); pow_width!(v, 10, "640"); pow_width!(v, 12, "768"); pow_width!(v, 32, "2048");
    boxed_width_ops!(v, 1, "64"); boxed_width_ops!(v, 2, "128"); boxed_width_ops!(v, 3, "192"); boxed_width_ops!(v, 6, "384"); boxed_width_ops!(v, 8, "512"); boxed_width_ops!(v, 17, "1088");
    v
}

// ---- driver ------------------------------------------------------------------------------------------
struct Rng(u64);
impl Rng { fn next(&mut self) -> u64 { self.0 = self.0.wrapping_add(0x9e37_79b9_7f4a_7c15); let mut z = self.0; z = (z ^ (z >> 30)).wrapping_mul(0xbf58_476d_1ce4_e5b9); z = (z ^ (z >> 27)).wrapping_mul(0x94d0_49bb_1331_11eb); z ^ (z >> 31) } }
fn rnd(r: &mut Rng) -> U { U::from_words([r.next(), r.next(), r.next(), r.next()]) }

fn moduli() -> Vec<U> {
    vec![
        U::from_be_hex("ffffffff00000000ffffffffffffffffbce6faada7179e84f3b9cac2fc632551"),
        U::MAX,
        U::from_be_hex("8000000000000000000000000000000000000000000000000000000000000001"),
        U::from_be_hex("0000000000000000000000000000000000000000000000010000000000000fff"),
        U::from_be_hex("5555555555555555555555555555555555555555555555555555555555555555"),
        U::from_be_hex("0000000000000000000000000000000000000000000000000000000000000003"),
    ]
}
fn secrets(r: &mut Rng, m: &U, n: usize) -> Vec<(U, U)> {
    let one = U::ONE;
    let base = vec![U::ZERO, one, U::MAX, one.shl(255), one.shl(64), one.shl(64).wrapping_sub(&one), one.shl(128), one.shl(128).wrapping_sub(&one), one.shl(192),
                    U::MAX.shr(1), m.wrapping_sub(&one), m.shr(1), *m, U::from_u64(2), U::from_u64(0xdead_beef), one.shl(63), one.shl(191).wrapping_add(&one)];
    let mut v = vec![];
    for (k, x) in base.iter().enumerate() { v.push((*x, base[(k * 7 + 3) % base.len()])); }
    for x in base.iter().take(8) { v.push((*x, *x)); }                     // equal operands
    while v.len() < n { v.push((rnd(r), rnd(r))); }
    v
}

fn hexu64(x: u64) -> String { let b = x.to_le_bytes(); format!("[{}]", b.iter().map(|v| v.to_string()).collect::<Vec<_>>().join(",")) }

#[inline(never)]
fn run_once(f: fn(&In) -> u64, a: U, b: U, m: U, s: u32) -> (u64, usize) {
    // inputs are built inside the arena so that heap addresses depend only on public sizes
    ARENA_OFF.store(0, Relaxed);
    ARENA_ON.store(true, Relaxed);
    let (aw, bw) = (a.to_words(), b.to_words());
    let cat = |parts: [&[u64; 4]; 4]| -> [u64; 16] { let mut o = [0u64; 16]; for (k, p) in parts.iter().enumerate() { o[4 * k..4 * k + 4].copy_from_slice(&p[..]); } o };
    let (wa, wb) = (cat([&aw, &bw, &bw, &aw]), cat([&bw, &aw, &aw, &aw]));
    let wide = |x: &[u64; 16], y: &[u64; 16], n: usize| -> BoxedUint { BoxedUint::from_words(x.iter().chain(y.iter()).chain(x.iter()).copied().take(n).collect::<Vec<u64>>()) };
    let m1w = (m.as_words()[0] >> 1) | (1u64 << 62) | 1;           // public: derived from the public modulus only
    let inp = In { a, b, m, s, ba: BoxedUint::from_words(aw), bb: BoxedUint::from_words(bw), bm: BoxedUint::from_words(m.to_words()),
                   wa: U1024::from_words(wa), wb: U1024::from_words(wb), bwa: wide(&wa, &wb, 32), bwb: wide(&wb, &wa, 32), b33: wide(&wa, &wb, 33), b34: wide(&wb, &wa, 34),
                   m1: BoxedUint::from_words([m1w]) };
    unsafe { INP = Some(inp); DIG = 0xcbf2_9ce4_8422_2325; LEN = 0; }
    ON.store(true, Relaxed);
    lk_marker_begin();
    let r = f(unsafe { INP.as_ref().unwrap() });
    lk_marker_end();
    ON.store(false, Relaxed);
    unsafe { SINK ^= r; INP = None; }
    ARENA_ON.store(false, Relaxed);
    unsafe { (DIG, LEN) }
}

fn main() {
    let args: Vec<String> = std::env::args().collect();
    let mut out_path = String::new(); let mut seed = 1u64; let mut nsec = 28usize; let mut only: Option<String> = None;
    let mut one: Option<(String, Vec<usize>)> = None;  // --one <class> <i,j,..>: run exactly these secrets of that class (machine-level cross-check)
    let mut i = 1;
    while i < args.len() { match args[i].as_str() { "--out" => { out_path = args[i + 1].clone(); i += 1 } "--seed" => { seed = args[i + 1].parse().unwrap(); i += 1 } "--secrets" => { nsec = args[i + 1].parse().unwrap(); i += 1 } "--only" => { only = Some(args[i + 1].clone()); i += 1 } "--one" => { one = Some((args[i + 1].clone(), args[i + 2].split(',').map(|x| x.parse().unwrap()).collect())); i += 2 } "--tier" => { i += 1 } _ => {} } i += 1; }
    if one.is_some() && out_path.is_empty() { out_path = "/dev/null".to_string(); }
    let mut out = std::io::BufWriter::new(std::fs::File::create(&out_path).expect("out"));
    let mut r = Rng(seed ^ 0x1234_5678);
    let ops = registry();
    let ms = moduli();
    let main_addr = main as usize as u64;
    let mut nev = 0u64;
    for (oi, op) in ops.iter().enumerate() {
        if let Some(o) = &only { if !op.name.contains(o.as_str()) { continue; } }
        if let Some((c1, _)) = &one { if !c1.starts_with(op.name) { continue; } }
        for (ci, m) in ms.iter().enumerate() {
            let s = [0u32, 1, 64, 77, 255, 256][ci % 6] + (seed as u32 % 3);
            // every class draws from its own stream, so that a single class can be re-run in isolation (--one)
            r = Rng(seed ^ 0x1234_5678 ^ ((oi as u64) << 32) ^ ((ci as u64) << 24));
            let secs = secrets(&mut r, m, nsec + if ci == 0 { op.more } else { 0 });
            // operands that the documentation names as public stay fixed within the class
            let (pa, pb) = secs[(ci * 5 + 1) % secs.len()];
            let cls = format!("{}#{}", op.name, ci);
            let mut first: Option<(u64, usize, Vec<(u8, u64, u64)>)> = None;
            if let Some((c1, _)) = &one { if *c1 != cls { continue; } }
            for (si, (sa, sb)) in secs.iter().enumerate() {
                if let Some((_, s1)) = &one { if !s1.contains(&si) { continue; } }
                let mut a = if op.secret_a { *sa } else { pa };
                let mut b = if op.secret_b { *sb } else { pb };
                // operations on residues get residues: reduce in a way that does not touch the recorded region
                if op.name.contains("_mod") || op.name.starts_with("monty") || op.name.starts_with("boxedmonty") || op.name.contains("inv_") {
                    if !op.name.contains("mod2k") && !op.name.contains("special") { a = a.rem_vartime(&NonZero::new(*m).unwrap()); b = b.rem_vartime(&NonZero::new(*m).unwrap()); }
                }
                let (dig, len) = run_once(op.f, a, b, *m, s);
                let mut extra = String::new();
                match &first {
                    None => { let n = len.min(CAP); first = Some((dig, len, unsafe { BUF[..n].to_vec() })); }
                    Some((d0, l0, t0)) => if *d0 != dig {
                        // locate the first diverging event and report the return addresses of both callbacks
                        let n = len.min(CAP).min(t0.len());
                        let mut k = 0; while k < n && unsafe { (BUF[k].0, BUF[k].1) } == (t0[k].0, t0[k].1) { k += 1; }
                        let (ra0, ra1) = if k < n { (t0[k].2, unsafe { BUF[k].2 }) } else if k > 0 { (t0[k - 1].2, unsafe { BUF[k - 1].2 }) } else { (0, 0) };
                        let kind = if k < n { unsafe { BUF[k].0 } } else { 0 };
                        extra = format!(",\"dv\":{},\"dkind\":{},\"ra0\":{},\"ra1\":{},\"n0\":{}", k.min(1 << 30), kind, hexu64(ra0), hexu64(ra1), (*l0).min(1 << 30));
                    }
                }
                let _ = writeln!(out, "{{\"p\":\"C01\",\"prof\":\"leak\",\"op\":\"leak\",\"form\":\"{}\",\"cls\":\"{}\",\"vt\":{},\"si\":{}{},\"dig\":{},\"n\":{},\"main\":{}{},\"k\":\"ok\"}}",
                    op.name, cls, (!(op.secret_a && op.secret_b)) as u8, si, if si == 0 { ",\"reset\":1" } else { ",\"dst\":1" }, hexu64(dig), len.min(1 << 30), hexu64(main_addr), extra);
                nev += 1;
            }
        }
    }
    out.flush().unwrap();
    eprintln!("recorded {} leakage observations ({} operations x {} public classes x {} secrets)", nev, ops.len(), ms.len(), nsec);
    std::hint::black_box(unsafe { SINK });
}
