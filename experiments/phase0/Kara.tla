---- MODULE Kara ----
\* Phase-0 probe: fixed-size Karatsuba "reduce" step of uint/mul/karatsuba.rs:37-114 on VALUES
\* (an h-limb Uint is a value below H = B^h). Native ints, exhaustive at small W.
EXTENDS Naturals, TLC
CONSTANTS W, SIZE, BASE        \* SIZE limbs per operand (power of two), schoolbook at <= BASE limbs
B == 2^W
Adc(a, b, c, H) == <<(a + b + c) % H, (a + b + c) \div H>>
Not(a, H) == H - 1 - a
RECURSIVE Mul(_,_,_)
\* returns <<lo, hi>> each of `size` limbs
Mul(x, y, size) ==
  LET F == B^size IN
  IF size <= BASE THEN <<(x*y) % F, (x*y) \div F>>
  ELSE
  LET h == size \div 2   H == B^h
      x0 == x % H   x1 == x \div H   y0 == y % H   y1 == y \div H
      l0b == x0 < x1   l1b == y1 < y0
      l0 == IF l0b THEN x1 - x0 ELSE x0 - x1          \* select(l0, wrapping_neg(l0), borrow)
      l1 == IF l1b THEN y0 - y1 ELSE y1 - y0
      z1 == Mul(l0, l1, h)
      neg == (l0b /\ ~l1b) \/ (~l0b /\ l1b)
      r0i == IF neg THEN Not(0, H) ELSE 0
      r1i == IF neg THEN Not(z1[1], H) ELSE z1[1]
      r2i == IF neg THEN Not(z1[2], H) ELSE z1[2]
      r3i == IF neg THEN Not(0, H) ELSE 0
      z0 == Mul(x0, y0, h)   z2 == Mul(x1, y1, h)
      a1 == Adc(r0i, z0[1], IF neg THEN 1 ELSE 0, H)        \* res.0 += z0.0 + carry
      a2 == Adc(r1i, z0[2], a1[2], H)                        \* res.1 += z0.1
      a3 == Adc(a2[1], z0[1], 0, H)                          \* res.1 += z0.0        (carry2)
      a4 == Adc(r2i, z0[2], a2[2] + a3[2], H)                \* res.2 += z0.1 + (carry+carry2)
      a5 == Adc(a3[1], z2[1], 0, H)                          \* res.1 += z2.0        (carry2)
      a6 == Adc(a4[1], z2[2], a5[2], H)                      \* res.2 += z2.1 + carry2
      c7 == a4[2] + a6[2]
      a8 == Adc(a6[1], z2[1], 0, H)                          \* res.2 += z2.0        (carry2)
      a9 == Adc(r3i, z2[2], c7 + a8[2], H)                   \* res.3 += z2.1 + carries, final carry dropped
  IN <<a1[1] + a5[1]*H, a8[1] + a9[1]*H>>
VARIABLES x, y, out
F == B^SIZE
Init == x \in 0..F-1 /\ y \in 0..F-1 /\ out = <<>>
Next == out = <<>> /\ out' = Mul(x, y, SIZE) /\ UNCHANGED <<x, y>>
Spec == Init /\ [][Next]_<<x, y, out>>
Exact == out # <<>> => out[1] + out[2]*F = x*y
====
