-------------------------------- MODULE JC05 --------------------------------
(* C05 — shifts and bit queries agree with the binary expansion, for every  *)
(* shift amount.                                                            *)
(*                                                                          *)
(* Event classes (field "op"):                                              *)
(*  "shl" / "shr"   w (width in bits), x (value; two's-complement pattern   *)
(*                  when sg = 1), s (shift amount, a natural), m = how this *)
(*                  form reports s >= w, from its doc comment:              *)
(*                    "panic"  documented panic                             *)
(*                    "none"   CtOption / Option is none                    *)
(*                    "flag"   boxed (value, Choice): zero and ov = 1       *)
(*                    "zero"   wrapping forms: zero (sign fill for the      *)
(*                             arithmetic right shift of a negative Int)    *)
(*                    "mask"   Limb's num_traits::Wrapping{Shl,Shr}: the    *)
(*                             amount is reduced mod w (num-traits' rule)   *)
(*                  outputs r [, ov] [, rp = result precision, boxed]       *)
(*  "shlw" / "shrw" double-width (lo, hi), each w bits -> (rlo, rhi);       *)
(*                  none iff s >= 2w                                        *)
(*  "bits" "lz" "tz" "to" "prec" "prec8"   x, w -> r (small integer)        *)
(*  "bit"           x, w, i -> r in {0,1};  0 for i >= w (documented)       *)
(*  "setbit"        x, w, i, v -> r; i >= w is outside the documentation:   *)
(*                  a panic or the unchanged value                          *)
(*  "and" "or" "xor" a, b -> r;  "andl" a, l (limb) -> r;  "not" a, w -> r  *)
(*                  (aw: left precision, only for mixed boxed precisions)   *)
(* Every operator of this module carries the prefix C05 (all judge modules  *)
(* are extended into one ApiTrace module).                                  *)
EXTENDS BigNat

C05Has(e, f) == f \in DOMAIN e

(* shift amount as a TLC integer, capped at cap (cap < 2^31) *)
C05Cap(s, cap) == IF Ge(s, FromInt(cap)) THEN cap ELSE ToInt(s)

C05Ovf(e) == Ge(e.s, FromInt(e.w))

(* floor(v / 2^t) for the signed value v denoted by pattern x at width w,   *)
(* re-encoded at width w; 0 <= t <= w.  For v = -m: -ceil(m / 2^t).         *)
C05Asr(x, w, t) ==
  LET v == SVal(x, w)
  IN IF v.neg THEN SEnc(SMk(TRUE, Shr(Add(v.mag, Max2k(t)), t)), w)
     ELSE Shr(x, t)

(* the mathematical result truncated to the width, shift amount t <= w *)
C05ShVal(e, t) ==
  IF e.op = "shl" THEN Mod2k(Shl(e.x, t), e.w)
  ELSE IF e.sg = 1 THEN C05Asr(e.x, e.w, t)
  ELSE Shr(e.x, t)

(* what a wrapping form returns for any s: t = min(s, w) gives zero / the sign fill *)
C05Exact(e)  == C05ShVal(e, C05Cap(e.s, e.w))

C05OkR(e, r) == /\ e.k = "ok"
                /\ e.r = r
                /\ C05Has(e, "rp") => e.rp = e.w

JudgeC05Shift(e) ==
  /\ Fits(e.x, e.w)
  /\ CASE e.m = "panic" -> IF C05Ovf(e) THEN e.k = "panic" ELSE C05OkR(e, C05Exact(e))
       [] e.m = "none"  -> IF C05Ovf(e) THEN e.k = "none"  ELSE C05OkR(e, C05Exact(e))
       [] e.m = "flag"  -> /\ C05Has(e, "ov")
                           /\ IF C05Ovf(e) THEN C05OkR(e, Zero) /\ e.ov = 1
                              ELSE C05OkR(e, C05Exact(e)) /\ e.ov = 0
       [] e.m = "zero"  -> C05OkR(e, C05Exact(e))
       [] e.m = "mask"  -> C05OkR(e, C05ShVal(e, ToInt(Mod(e.s, FromInt(e.w)))))
       [] OTHER -> FALSE

JudgeC05Wide(e) ==
  LET X  == Add(e.lo, Shl(e.hi, e.w))
      W2 == 2 * e.w
  IN /\ Fits(e.lo, e.w) /\ Fits(e.hi, e.w)
     /\ IF Ge(e.s, FromInt(W2)) THEN e.k = "none"
        ELSE LET t == ToInt(e.s)
                 R == IF e.op = "shlw" THEN Mod2k(Shl(X, t), W2) ELSE Shr(X, t)
             IN /\ e.k = "ok"
                /\ e.rlo = Mod2k(R, e.w)
                /\ e.rhi = Shr(R, e.w)

(* scans *)
C05Tz(x, w) == IF x = Zero THEN w ELSE TrailingZeros(x)

JudgeC05Scan(e) ==
  /\ e.k = "ok"
  /\ Fits(e.x, e.w)
  /\ e.r = CASE e.op = "bits"  -> BitLen(e.x)
             [] e.op = "lz"    -> e.w - BitLen(e.x)
             [] e.op = "tz"    -> C05Tz(e.x, e.w)
             [] e.op = "to"    -> C05Tz(NotW(e.x, e.w), e.w)
             [] e.op = "prec"  -> e.w
             [] e.op = "prec8" -> e.w \div 8

JudgeC05Bit(e) ==
  /\ e.k = "ok"
  /\ e.r = IF Ge(e.i, FromInt(e.w)) THEN 0 ELSE Bit(e.x, ToInt(e.i))

C05SetBit(x, i, v) ==
  IF Bit(x, i) = v THEN x
  ELSE IF v = 1 THEN Add(x, Pow2(i)) ELSE Sub(x, Pow2(i))

JudgeC05SetBit(e) ==
  IF Ge(e.i, FromInt(e.w))
    THEN e.k = "panic" \/ C05OkR(e, e.x)          \* index out of range: the documentation is silent
    ELSE C05OkR(e, C05SetBit(e.x, ToInt(e.i), e.v))

(* limb l repeated over n limbs *)
RECURSIVE C05Rep(_, _)
C05Rep(l, n) == IF n = 0 THEN Zero ELSE Add(l, Shl(C05Rep(l, n - 1), 64))

(* Boxed operands of different precisions ("aw" = precision of the left operand is    *)
(* logged only then): forms that return a new value must return the exact value (the  *)
(* binary expansion of a | b includes the high limbs of a wider b); the assigning      *)
(* forms update the receiver in place, whose precision they may keep: there the value  *)
(* truncated to the receiver's precision passes as well.                               *)
C05IsAssign(e) == \E i \in 1..(Len(e.form) - 7) : SubSeq(e.form, i, i + 7) = "_assign_"
C05Bw(e, v) ==
  IF C05Has(e, "aw") /\ C05IsAssign(e) THEN C05OkR(e, v) \/ C05OkR(e, Mod2k(v, e.aw))
  ELSE C05OkR(e, v)

JudgeC05Bitwise(e) ==
  /\ Fits(e.a, e.w)
  /\ CASE e.op = "and"  -> Fits(e.b, e.w) /\ C05Bw(e, And(e.a, e.b))
       [] e.op = "or"   -> Fits(e.b, e.w) /\ C05Bw(e, Or(e.a, e.b))
       [] e.op = "xor"  -> Fits(e.b, e.w) /\ C05Bw(e, Xor(e.a, e.b))
       [] e.op = "andl" -> Fits(e.l, 64) /\ C05OkR(e, And(e.a, C05Rep(e.l, e.w \div 64)))
       [] e.op = "not"  -> C05OkR(e, NotW(e.a, e.w))

JudgeC05(e, rg) ==
  CASE e.op \in {"shl", "shr"}   -> JudgeC05Shift(e)
    [] e.op \in {"shlw", "shrw"} -> JudgeC05Wide(e)
    [] e.op \in {"bits", "lz", "tz", "to", "prec", "prec8"} -> JudgeC05Scan(e)
    [] e.op = "bit"              -> JudgeC05Bit(e)
    [] e.op = "setbit"           -> JudgeC05SetBit(e)
    [] e.op \in {"and", "or", "xor", "andl", "not"} -> JudgeC05Bitwise(e)
    [] OTHER -> FALSE
=============================================================================
