SPECIFICATION Spec
CONSTANTS W = 3
 Mode = "fixed"
 SIZE = 4
 BASE = 1
 MAXRED = 1
INVARIANT Exact
INVARIANT CarriesSmall
CHECK_DEADLOCK FALSE
