SPECIFICATION Spec
CONSTANTS W = 2
 Mode = "school"
 SIZE = 7
 BASE = 1
 MAXRED = 1
INVARIANT Exact
INVARIANT RefOK
CHECK_DEADLOCK FALSE
