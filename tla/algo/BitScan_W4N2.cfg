SPECIFICATION Spec
CONSTANTS Mut = 0
 W = 4
 N = 2
INVARIANT BitOK
INVARIANT CountOK
INVARIANT SetOK
CHECK_DEADLOCK FALSE
