-------------------------------- MODULE JC17 --------------------------------
(* C17 — radix strings: canonical output, exact parse, overflow always      *)
(* reported.  Strings travel as sequences of byte codes.                    *)
(*                                                                          *)
(* "fmt"      x, bits, radix -> str : the canonical lowercase numeral of x  *)
(*            (no leading zeros, "0" for zero).                             *)
(* "parse"    s, radix, tk, bits -> v | err(e)                              *)
(*            tk = "fixed": Uint of `bits` bits, size error = InputSize     *)
(*            tk = "prec" : BoxedUint with `bits` bits of precision         *)
(*                          requested, size error = InputSize or Precision, *)
(*                          vp = precision of the result (rounded up to a   *)
(*                          multiple of 64)                                 *)
(*            tk = "unb"  : BoxedUint without bound, never a size error     *)
(* "parsefmt" parse s in `radix`, format the parsed integer in radix r2     *)
(*            -> str = canonical numeral of the value s denotes.            *)
(* A radix outside 2..36 panics (documented) in every operation.            *)
(*                                                                          *)
(* What is a numeral (doc comments of from_str_radix_vartime + property     *)
(* text): an optional '+', then digits of the radix in either letter case,  *)
(* with single underscores allowed between digits; leading zeros allowed.   *)
(* Permissive where the documentation is silent:                            *)
(*  - doubled interior underscores: the value or InvalidDigit;              *)
(*  - a lone "+" : Empty or InvalidDigit; only underscores: likewise;       *)
(*  - a string that has an invalid character AND a run of digits before the *)
(*    first / after the last invalid character so long that no numeral of   *)
(*    that length fits the limbs of the target: InvalidDigit or InputSize   *)
(*    (both documented conditions hold, the documentation gives no          *)
(*    precedence); never Precision, which is documented for a decoded       *)
(*    integer only.                                                         *)
EXTENDS BigNat

LOCAL Has(e, f) == f \in DOMAIN e

LOCAL Plus == 43
LOCAL Us   == 95
LOCAL NoDigit == 99

LOCAL DigVal(c) == IF c >= 48 /\ c <= 57 THEN c - 48
                   ELSE IF c >= 97 /\ c <= 122 THEN c - 87
                   ELSE IF c >= 65 /\ c <= 90 THEN c - 55
                   ELSE NoDigit
LOCAL DigChr(d) == IF d < 10 THEN 48 + d ELSE 87 + d
LOCAL NotUs(c)  == c # Us

(* canonical numeral of a natural *)
LOCAL Canon(x, radix) ==
  IF x = Zero THEN <<48>>
  ELSE LET ds == ToDigits(x, radix) IN [i \in 1..Len(ds) |-> DigChr(ds[i])]

LOCAL RadixOK(r) == r >= 2 /\ r <= 36

LOCAL Up64(p) == 64 * ((p + 63) \div 64)

(* radix^n - 1 : the largest numeral of n digits *)
LOCAL MaxOfLen(radix, n) == FromDigits([i \in 1..n |-> radix - 1], radix)

(* Classification of a string.  cls:                                        *)
(*   "empty"   nothing (after the optional sign)                            *)
(*   "blank"   only underscores                                             *)
(*   "invalid" leading / trailing underscore, or a character that is not a  *)
(*             digit of the radix; run = longest digit run before the first *)
(*             or after the last such character (0 if none)                 *)
(*   "num"     a numeral, val its value; dbl = it has a doubled underscore  *)
LOCAL Analyse(s, radix) ==
  LET signed == Len(s) > 0 /\ s[1] = Plus
      t    == IF signed THEN SubSeq(s, 2, Len(s)) ELSE s
      core == SelectSeq(t, NotUs)
      dv   == [i \in 1..Len(core) |-> DigVal(core[i])]
      bad  == {i \in 1..Len(core) : dv[i] >= radix}
      edge == Len(t) > 0 /\ (t[1] = Us \/ t[Len(t)] = Us)
      dbl  == \E i \in 1..(Len(t) - 1) : t[i] = Us /\ t[i + 1] = Us
  IN IF t = <<>> THEN [cls |-> "empty", signed |-> signed]
     ELSE IF core = <<>> THEN [cls |-> "blank"]
     ELSE IF bad # {} THEN
            LET lo == CHOOSE i \in bad : \A j \in bad : i <= j
                hi == CHOOSE i \in bad : \A j \in bad : i >= j
                a  == lo - 1
                b  == Len(core) - hi
            IN [cls |-> "invalid", run |-> IF a > b THEN a ELSE b]
     ELSE IF edge THEN [cls |-> "invalid", run |-> 0]
     ELSE [cls |-> "num", val |-> FromDigits(dv, radix), dbl |-> dbl]

LOCAL FitsTarget(v, tk, bits) == tk = "unb" \/ Fits(v, bits)

(* The documented size errors (doc comment of from_str_radix_with_precision_vartime): InputSize when the     *)
(* numeral does not fit the limbs of the target (the precision rounded up to whole limbs, at least one),   *)
(* Precision when it fits the limbs but not the requested precision.  Fixed targets only have InputSize.   *)
LOCAL Cap(e) == IF e.tk = "prec" THEN (IF e.bits = 0 THEN 64 ELSE Up64(e.bits)) ELSE e.bits
LOCAL SizeErr(e, val) == /\ e.k = "err"
                         /\ e.tk # "unb"
                         /\ IF Fits(val, Cap(e)) THEN e.tk = "prec" /\ e.e = "Precision" ELSE e.e = "InputSize"

LOCAL IsErr(e, c) == e.k = "err" /\ e.e = c

LOCAL JudgeFmt(e) ==
  IF ~RadixOK(e.radix) THEN e.k = "panic"
  ELSE /\ e.k = "ok"
       /\ Fits(e.x, e.bits)                      \* sanity of the recorder
       /\ e.str = Canon(e.x, e.radix)

(* what a parse must return; Good(val) states the success outcome *)
LOCAL ParseOutcome(e, Good(_)) ==
  IF ~RadixOK(e.radix) THEN e.k = "panic"
  ELSE LET a == Analyse(e.s, e.radix) IN
    CASE a.cls = "empty"   -> IsErr(e, "Empty") \/ (a.signed /\ IsErr(e, "InvalidDigit"))
      [] a.cls = "blank"   -> IsErr(e, "InvalidDigit") \/ IsErr(e, "Empty")
      [] a.cls = "invalid" -> \/ IsErr(e, "InvalidDigit")
                              \/ /\ IsErr(e, "InputSize")              \* never Precision: no integer was decoded
                                 /\ e.tk # "unb"
                                 /\ a.run > 0
                                 /\ ~Fits(MaxOfLen(e.radix, a.run), Cap(e))
      [] a.cls = "num"     -> \/ a.dbl /\ IsErr(e, "InvalidDigit")
                              \/ IF FitsTarget(a.val, e.tk, e.bits)
                                   THEN e.k = "ok" /\ Good(a.val)
                                   ELSE SizeErr(e, a.val)

LOCAL JudgeParse(e) ==
  LET Good(val) == /\ e.v = val
                   /\ (e.tk = "prec") => /\ Has(e, "vp")
                                          /\ \/ e.vp = Up64(e.bits)
                                             \/ e.bits = 0 /\ e.vp = 64   \* a BoxedUint has at least one limb
  IN ParseOutcome(e, Good)

LOCAL JudgeParseFmt(e) ==
  IF ~RadixOK(e.r2) THEN e.k = "panic" \/ e.k = "err"
  ELSE LET Good(val) == e.str = Canon(val, e.r2)
       IN ParseOutcome(e, Good)

JudgeC17(e, rg) ==
  CASE e.op = "fmt"      -> JudgeFmt(e)
    [] e.op = "parse"    -> JudgeParse(e)
    [] e.op = "parsefmt" -> JudgeParseFmt(e)
    [] OTHER -> FALSE
=============================================================================
