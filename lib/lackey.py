"""Machine-level cross-check for C01 divergences.

The SanitizerCoverage recorder observes the *optimised IR*; the x86 back end may still turn an IR branch
into a conditional move (or the reverse).  Before a C01 divergence is reported, the two runs are repeated in
the same crate built with the same options but WITHOUT instrumentation, under `valgrind --tool=lackey
--trace-mem=yes`, and the sequences of executed instruction addresses and data addresses between the two
marker functions are compared.  Only a divergence that also exists there is reported; one that does not is
logged as IR-only and recorded in the evidence (it is not a violation of the property on this target).
"""
import hashlib, os, subprocess
import vcheck

LEAK = os.path.join(vcheck.VERIF, "leak")
PLAIN_DIR = os.path.join(vcheck.WORK, "target-leak-plain")
PLAIN = os.path.join(PLAIN_DIR, "x86_64-unknown-linux-gnu", "release", "vleak")
PLAIN_FLAGS = "--cfg crypto_bigint_verif --check-cfg cfg(crypto_bigint_verif) -Cforce-frame-pointers=yes -Crelocation-model=static -Ctarget-feature=+crt-static"


def build_plain():
    env = dict(os.environ, CARGO_NET_OFFLINE="true", RUSTFLAGS=PLAIN_FLAGS, CARGO_TARGET_DIR=PLAIN_DIR)
    vcheck.run(["cargo", "build", "--offline", "--release"], cwd=LEAK, env=env, timeout=3000)
    nm = subprocess.run(["nm", PLAIN], capture_output=True, text=True).stdout
    sym = {l.split()[2]: int(l.split()[0], 16) for l in nm.splitlines() if len(l.split()) == 3}
    return sym["lk_marker_begin"], sym["lk_marker_end"]


def machine_trace(cls, si, seed, nsec, markers, cap=4_000_000):
    """(digest, n_instr, n_data, entries[:cap]) of the region between the markers for one run"""
    begin, end = markers
    rfd, wfd = os.pipe()
    p = subprocess.Popen(["valgrind", "--tool=lackey", "--trace-mem=yes", "--log-fd=%d" % wfd, PLAIN,
                          "--one", cls, "%06d" % si, "--seed", "%012d" % seed, "--secrets", "%06d" % nsec],
                         pass_fds=(wfd,), stdout=subprocess.DEVNULL, stderr=subprocess.DEVNULL,
                         env={"PATH": os.environ.get("PATH", "/usr/bin:/bin")})
    os.close(wfd)
    h = hashlib.sha256()
    on, ni, nd, ent = False, 0, 0, []
    bpre, epre = "I  %08x," % begin, "I  %08x," % end
    with os.fdopen(rfd, "r", errors="replace") as fh:
        for line in fh:
            if not on:
                if line.startswith(bpre):
                    on = True
                continue
            if line.startswith(epre):
                on = False
                break
            c = line[:2]
            if c == "I ":
                ni += 1
            elif c in (" L", " S", " M"):
                nd += 1
            else:
                continue
            key = line.split(",")[0]
            h.update(key.encode())
            if len(ent) < cap:
                ent.append(key)
        for _ in fh:      # drain
            pass
    p.wait()
    return h.hexdigest(), ni, nd, ent


def compare(cls, si_a, si_b, seed, nsec, markers):
    """-> dict(differs, n_instr=[a,b], first=(index, a_entry, b_entry) | None)"""
    a = machine_trace(cls, si_a, seed, nsec, markers)
    b = machine_trace(cls, si_b, seed, nsec, markers)
    if a[1] == 0 or b[1] == 0:
        raise vcheck.ToolError("lackey: marker region not found for %s (%d/%d instructions)" % (cls, a[1], b[1]))
    first = None
    if a[0] != b[0]:
        k = 0
        n = min(len(a[3]), len(b[3]))
        while k < n and a[3][k] == b[3][k]:
            k += 1
        first = (k, a[3][k].strip() if k < len(a[3]) else "<end>", b[3][k].strip() if k < len(b[3]) else "<end>")
    return dict(differs=a[0] != b[0], n_instr=[a[1], b[1]], n_data=[a[2], b[2]], first=first)
