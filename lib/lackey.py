"""Machine-level leakage traces for C01 (valgrind lackey on the uninstrumented optimised build).

The SanitizerCoverage recorder observes the *optimised IR*; the x86 back end may still turn an IR branch into a
conditional move, or an IR select into a branch.  This module runs the same crate, built with the same options
but WITHOUT instrumentation, under `valgrind --tool=lackey --trace-mem=yes` and extracts, for each run of an
operation, the sequence of executed instruction addresses and of data addresses read/written between two
marker functions.  One process executes several secrets of one class (operation + public parameters), so the
compared regions share the process image, stack and arena layout.
  * cross-check: an IR-level divergence is reported only if the machine-level traces differ as well;
  * sweep: machine-level traces of every class are compared directly (covers back-end select-to-branch
    conversions the IR does not show).
"""
import hashlib, os, subprocess
import vcheck

LEAK = os.path.join(vcheck.VERIF, "leak")
PLAIN_DIR = os.path.join(vcheck.WORK, "target-leak-plain")
PLAIN = os.path.join(PLAIN_DIR, "x86_64-unknown-linux-gnu", "release", "vleak")
PLAIN_FLAGS = "--cfg crypto_bigint_verif --check-cfg cfg(crypto_bigint_verif) -Cforce-frame-pointers=yes -Crelocation-model=static -Ctarget-feature=+crt-static"
CAP = 300_000          # entries kept per region for locating the first difference (the digest covers everything)


def build_plain():
    env = dict(os.environ, CARGO_NET_OFFLINE="true", RUSTFLAGS=PLAIN_FLAGS, CARGO_TARGET_DIR=PLAIN_DIR)
    vcheck.run(["cargo", "build", "--offline", "--release"], cwd=LEAK, env=env, timeout=3000)
    nm = subprocess.run(["nm", PLAIN], capture_output=True, text=True).stdout
    sym = {l.split()[2]: int(l.split()[0], 16) for l in nm.splitlines() if len(l.split()) == 3}
    return sym["lk_marker_begin"], sym["lk_marker_end"]


_BT = None


def bt_register_forms():
    """addresses of bt/btr/bts/btc instructions with a REGISTER destination: valgrind's VEX emulates them through a
    scratch slot below the stack pointer whose byte offset is bit_index/8, i.e. it reports data accesses the
    hardware does not make; those entries are dropped."""
    global _BT
    if _BT is None:
        out = subprocess.run(["objdump", "-d", "--no-show-raw-insn", PLAIN], capture_output=True, text=True).stdout
        _BT = set()
        for line in out.splitlines():
            parts = line.split("\t")
            if len(parts) >= 2 and parts[1].split(" ")[0] in ("bt", "btr", "bts", "btc") and "(" not in parts[1]:
                try:
                    _BT.add(int(parts[0].strip().rstrip(":"), 16))
                except ValueError:
                    pass
    return _BT


def machine_traces(cls, sis, seed, nsec, markers):
    """one process, the secrets `sis` (ascending) of class `cls`: -> {si: (digest, n_instr, n_data, entries[:CAP])}"""
    begin, end = markers
    sis = sorted(set(sis))
    rfd, wfd = os.pipe()
    p = subprocess.Popen(["valgrind", "--tool=lackey", "--trace-mem=yes", "--log-fd=%d" % wfd, PLAIN,
                          "--one", cls, ",".join(str(x) for x in sis), "--seed", str(seed), "--secrets", str(nsec)],
                         pass_fds=(wfd,), stdout=subprocess.DEVNULL, stderr=subprocess.DEVNULL,
                         env={"PATH": os.environ.get("PATH", "/usr/bin:/bin")})
    os.close(wfd)
    bpre, epre = "I  %08x," % begin, "I  %08x," % end
    regions = []
    on = False
    bt = bt_register_forms()
    skip = False
    with os.fdopen(rfd, "r", errors="replace") as fh:
        for line in fh:
            if not on:
                if line.startswith(bpre):
                    on, h, ni, nd, ent = True, hashlib.sha256(), 0, 0, []
                continue
            if line.startswith(epre):
                on = False
                regions.append((h.hexdigest(), ni, nd, ent))
                continue
            c = line[:2]
            if c == "I ":
                ni += 1
                key = line[:line.index(",")]
                skip = int(key[3:], 16) in bt
            elif c in (" L", " S", " M"):
                if skip:
                    continue
                nd += 1
                key = line[:line.index(",")]
            else:
                continue
            h.update(key.encode())
            if len(ent) < CAP:
                ent.append(key)
    p.wait()
    if len(regions) != len(sis):
        raise vcheck.ToolError("lackey: %d marker regions for %d secrets of %s" % (len(regions), len(sis), cls))
    return dict(zip(sis, regions))


def first_diff(a, b):
    if a[0] == b[0]:
        return None
    k, n = 0, min(len(a[3]), len(b[3]))
    while k < n and a[3][k] == b[3][k]:
        k += 1
    ea = a[3][k].strip() if k < len(a[3]) else "<end or beyond %d entries>" % CAP
    eb = b[3][k].strip() if k < len(b[3]) else "<end or beyond %d entries>" % CAP

    def instr(ent, j):              # the instruction executing at entry j (a data entry belongs to the instruction before it)
        j = min(j, len(ent) - 1)
        while j >= 0 and not ent[j].startswith("I"):
            j -= 1
        return int(ent[j].split()[1], 16) if j >= 0 else 0
    return (k, ea, eb, instr(a[3], k - 1), instr(b[3], k))       # [3]: the last common instruction (the branch / the accessing instruction); [4]: where the second run went


def compare(cls, si_a, si_b, seed, nsec, markers):
    """-> dict(differs, n_instr=[a,b], n_data=[a,b], first=(index, a_entry, b_entry) | None)"""
    t = machine_traces(cls, [si_a, si_b], seed, nsec, markers)
    a, b = t[si_a], t[si_b]
    return dict(differs=a[0] != b[0], n_instr=[a[1], b[1]], n_data=[a[2], b[2]], first=first_diff(a, b))


def sweep_class(cls, sis, seed, nsec, markers):
    """compare every secret of `sis` with the first: -> dict(cls, n, n_instr, divergent=[(si, first_diff)])"""
    t = machine_traces(cls, sis, seed, nsec, markers)
    sis = sorted(t)
    base = t[sis[0]]
    div = []
    for si in sis[1:]:
        d = first_diff(base, t[si])
        if d:
            div.append(dict(si=si, first=d, n_instr=[base[1], t[si][1]]))
    return dict(cls=cls, secrets=len(sis), n_instr=base[1], n_data=base[2], divergent=div)


def symbolise(addrs):
    """addresses in the uninstrumented binary -> inline stacks [(function, location)] (innermost first)"""
    if not addrs:
        return {}
    out = subprocess.run(["llvm-symbolizer-14", "--obj=" + PLAIN, "--inlines", "--functions=short"] + [hex(a) for a in addrs],
                         capture_output=True, text=True).stdout
    res, cur, blocks = {}, [], []
    for line in out.split("\n"):
        if line.strip() == "":
            if cur:
                blocks.append(cur)
            cur = []
        else:
            cur.append(line)
    if cur:
        blocks.append(cur)
    for a, b in zip(addrs, blocks):
        res[a] = [(b[i], b[i + 1]) for i in range(0, len(b) - 1, 2)]
    return res
