SPECIFICATION Spec
CONSTANTS W = 2
 NL = 3
 K = 4
INVARIANT Range
INVARIANT Uniform
INVARIANT AcceptRate
CHECK_DEADLOCK FALSE
