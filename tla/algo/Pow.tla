--------------------------------- MODULE Pow ---------------------------------
(***************************************************************************)
(* The fixed-window exponentiation ladder of src/modular/pow.rs 117-194     *)
(* (multi_exponentiate_montgomery_form_internal), with the window size     *)
(* WIN and the limb size W as constants (the code: 4 and 64): the starting *)
(* limb, starting window and the mask of the partial top window are        *)
(* derived from exponent_bits; every window squares WIN times and          *)
(* multiplies by the table entry of each base.  Values are residues (the   *)
(* Montgomery representation is a ring isomorphism checked in Monty.tla).  *)
(* TLC explores ALL moduli, bases, exponents and ALL bounds k: the result  *)
(* is prod_i b_i^(e_i mod 2^k) mod m — in particular 1 for k = 0 and the   *)
(* bits above k never leak into the result.                                *)
(***************************************************************************)
EXTENDS Integers, Sequences, TLC
CONSTANTS W, WIN, EL, MMAX, NB              \* limb bits, window bits, exponent limbs, largest modulus, number of bases
B == 2 ^ W
EBITS == W * EL
Limb(e, i) == (e \div B ^ i) % B              \* i-th limb (0-based)
RECURSIVE PowMod(_, _, _)
PowMod(b, e, m) == IF e = 0 THEN 1 % m                       \* reference: binary method, independent of the window ladder
                   ELSE IF e % 2 = 0 THEN PowMod((b * b) % m, e \div 2, m)
                   ELSE (b * PowMod(b, e - 1, m)) % m
RECURSIVE SqN(_, _, _)
SqN(z, n, m) == IF n = 0 THEN z ELSE SqN((z * z) % m, n - 1, m)

Ladder(bs, es, k, m) ==
  IF k = 0 THEN 1 % m
  ELSE
  LET sl   == (k - 1) \div W                     \* starting_limb
      sbl  == (k - 1) % W                        \* starting_bit_in_limb
      sw   == sbl \div WIN                       \* starting_window
      smask == 2 ^ ((sbl % WIN) + 1) - 1         \* starting_window_mask
      RECURSIVE Win(_, _, _)
      Win(z, limb, win) ==                        \* windows from (sl, sw) down to (0, 0)
        LET first == limb = sl /\ win = sw
            z1 == IF first THEN z ELSE SqN(z, WIN, m)
            RECURSIVE MB(_, _)
            MB(zz, i) == IF i > Len(bs) THEN zz
                         ELSE LET w == Limb(es[i], limb)
                                  idx0 == (w \div 2 ^ (win * WIN)) % 2 ^ WIN
                                  idx == IF first THEN idx0 % (smask + 1) ELSE idx0
                              IN MB((zz * PowMod(bs[i], idx, m)) % m, i + 1)
            z2 == MB(z1, 1)
        IN IF limb = 0 /\ win = 0 THEN z2
           ELSE IF win = 0 THEN Win(z2, limb - 1, (W \div WIN) - 1)
           ELSE Win(z2, limb, win - 1)
  IN Win(1 % m, sl, sw)

RECURSIVE Want(_, _, _, _, _)
Want(bs, es, k, m, i) == IF i > Len(bs) THEN 1 % m ELSE (PowMod(bs[i], es[i] % 2 ^ k, m) * Want(bs, es, k, m, i + 1)) % m

VARIABLES m, bs, es, k, st
(* two phases: TLC generates initial states on one thread; the large choice (bases x exponents) is a transition, *)
(* so that the workers share it                                                                                *)
Init == /\ m \in {x \in 1..MMAX : x % 2 = 1} /\ k \in 0..EBITS
        /\ bs = <<>> /\ es = <<>> /\ st = 0
Next == /\ st = 0 /\ st' = 1
        /\ bs' \in [1..NB -> 0..MMAX - 1] /\ es' \in [1..NB -> 0..2 ^ EBITS - 1]
        /\ UNCHANGED <<m, k>>
Spec == Init /\ [][Next]_<<m, bs, es, k, st>>
Exact == (st = 1 /\ \A i \in 1..NB : bs[i] < m) => Ladder(bs, es, k, m) = Want(bs, es, k, m, 1)
=============================================================================
