"""C01 (secret-independent execution).  The leak recorder (/verif/leak) is the crate under test compiled at
opt-level 3 with LLVM SanitizerCoverage; each of its runs is one trace event carrying the digest of the
leakage trace.  TLC's monitor (JC01) requires equal traces within a class (operation + public parameters).
For a rejected event the first diverging callback is symbolised (llvm-symbolizer) to a *site* — the
innermost function of the crate at the divergence — and known findings are keyed by site, because one
leaking helper surfaces through many operations."""
import json, os, shutil, subprocess, time
from concurrent.futures import ThreadPoolExecutor
import vcheck, lackey

LEAK = os.path.join(vcheck.VERIF, "leak")
BIN = os.path.join(vcheck.WORK, "target-leak", "x86_64-unknown-linux-gnu", "release", "vleak")


def symbolise(addrs):
    if not addrs:
        return {}
    out = subprocess.run(["llvm-symbolizer-14", "--obj=" + BIN, "--inlines", "--functions=short"] + [hex(a) for a in addrs],
                         capture_output=True, text=True).stdout
    res, cur, blocks = {}, [], []
    for line in out.split("\n"):
        if line.strip() == "":
            if cur:
                blocks.append(cur)
            cur = []
        else:
            cur.append(line)
    if cur:
        blocks.append(cur)
    for a, b in zip(addrs, blocks):
        frames = [(b[i], b[i + 1]) for i in range(0, len(b) - 1, 2)]
        res[a] = frames
    return res


def site_of(frames):
    """innermost frame that lies in the crate under test (not in the harness)"""
    for fn, loc in frames:
        if "/leak/src/" in loc:
            continue
        fn = fn.split("<")[0]
        return fn, loc
    return ("?", "?")


def check(prop, tier, seed, spec):
    t0 = time.time()
    wdir = os.path.join(vcheck.WORK, prop)
    shutil.rmtree(wdir, ignore_errors=True)
    os.makedirs(wdir)
    vcheck.ensure_classes()
    env = dict(os.environ, CARGO_NET_OFFLINE="true")
    out, bdt = vcheck.run(["cargo", "build", "--offline", "--release"], cwd=LEAK, env=env, timeout=3000)
    trace = os.path.join(wdir, "trace_leak.ndjson")
    nsec = 28 if tier == "quick" else 120
    out, rdt = vcheck.run([BIN, "--out", trace, "--seed", str(seed), "--secrets", str(nsec)], timeout=3000)
    res, n = vcheck.validate_trace(trace, wdir, "leak", ["C01"])
    states = sum(r["states"] for r in res)
    rej = [r["base"] + i for r in res for i in r["rejects"]]
    lines = vcheck.read_lines(trace, rej)
    events = {ln: json.loads(lines[ln]) for ln in rej}
    f = lambda b: int.from_bytes(bytes(b), "little")
    addrs = sorted({f(e["ra0"]) - 1 for e in events.values() if "ra0" in e} | {f(e["ra1"]) - 1 for e in events.values() if "ra1" in e})
    sym = symbolise(addrs)
    findings = vcheck.load_findings()
    known, violations, known_rep = {}, {}, {}
    for ln, e in sorted(events.items()):
        s0 = site_of(sym.get(f(e["ra0"]) - 1, [])) if "ra0" in e else ("?", "?")
        s1 = site_of(sym.get(f(e["ra1"]) - 1, [])) if "ra1" in e else ("?", "?")
        e["site"] = s1[0] if s1[0] != "?" else s0[0]      # post-processing label, used only to identify findings
        e["site_loc"] = [s0[1], s1[1]]
        e["sites"] = sorted({s0[0], s1[0]})
        fd = vcheck.match_finding(e, findings, "C01")
        if fd:
            known.setdefault(fd["id"], set()).add(e["form"])
            known_rep.setdefault(fd["id"], e)
        else:
            violations.setdefault((e["form"], e["site"]), []).append((ln, e))
    # machine-level cross-check (lib/lackey.py): a candidate is reported only if the uninstrumented optimised
    # build shows the divergence as well; known findings are re-confirmed the same way in the thorough tier
    todo = [("cand", k, items[0][1]) for k, items in sorted(violations.items())]
    if tier == "thorough":
        todo += [("known", fid, e) for fid, e in sorted(known_rep.items())]
    machine, ir_only = {}, []
    if todo:
        markers = lackey.build_plain()
        with ThreadPoolExecutor(max_workers=6) as ex:
            futs = [(kind, key, e, ex.submit(lackey.compare, e["cls"], 0, e["si"], seed, nsec, markers)) for kind, key, e in todo]
            for kind, key, e, fu in futs:
                r = fu.result()
                machine[str(key)] = dict(kind=kind, cls=e["cls"], si=e["si"], **r)
                if kind == "cand" and not r["differs"]:
                    ir_only.append(dict(form=key[0], site=key[1], locations=e["site_loc"], runs=len(violations[key])))
                    vcheck.log("[C01] IR-only divergence (not reported): operation=%s site=%s (%s): the uninstrumented build executes identical instruction and data address sequences (%d instructions)"
                               % (key[0], key[1], " / ".join(e["site_loc"]), r["n_instr"][0]))
                    del violations[key]
                elif kind == "known":
                    vcheck.log("[C01] known finding %s %s at machine level (%s, secrets 0 vs %d: %d vs %d instructions)" % (key, "confirmed" if r["differs"] else "NOT reproduced", e["cls"], e["si"], r["n_instr"][0], r["n_instr"][1]))
    # machine-level sweep: the uninstrumented build, every operation (quick: public class #0; thorough: all classes)
    per_class = {}
    with open(trace) as fh:
        for line in fh:
            e = json.loads(line)
            if e["cls"] not in per_class:
                per_class[e["cls"]] = (e["form"], e["n"], e["vt"])
    markers = lackey.build_plain()
    sel = [c for c in per_class if tier == "thorough" or c.endswith("#0")]
    def secrets_for(c):
        n = max(1, per_class[c][1])
        k = max(2, min(12 if tier == "quick" else 40, (400_000 if tier == "quick" else 3_000_000) // n))
        return list(range(k))
    sweep = []
    t1 = time.time()
    with ThreadPoolExecutor(max_workers=12) as ex:
        futs = [ex.submit(lackey.sweep_class, c, secrets_for(c), seed, nsec, markers) for c in sel]
        sweep = [fu.result() for fu in futs]
    mdiv = [r for r in sweep if r["divergent"]]
    maddrs = sorted({d["first"][3] for r in mdiv for d in r["divergent"][:1]} | {d["first"][4] for r in mdiv for d in r["divergent"][:1]})
    msym = lackey.symbolise(maddrs)
    m_known = {}
    for r in mdiv:
        d = r["divergent"][0]
        # the last common instruction (the conditional branch, or the instruction making the differing access) and
        # its inline stack; the site is the innermost frame that is not one of the generic mask helpers
        fb = [(fn.split("<")[0], loc) for fn, loc in msym.get(d["first"][3], []) if "/leak/src/" not in loc]
        fw = [(fn.split("<")[0], loc) for fn, loc in msym.get(d["first"][4], []) if "/leak/src/" not in loc]
        crate = [(fn, loc) for fn, loc in fb if "/src/const_choice.rs" not in loc and "/src/limb/cmp.rs" not in loc and "/src/uint/cmp.rs" not in loc and "/src/limb/bit_" not in loc and "/rustc/" not in loc and "/subtle" not in loc]
        site = crate[0][0] if crate else (fb[0][0] if fb else "?")
        e = dict(p="C01", op="leak", form=per_class[r["cls"]][0], cls=r["cls"], si=d["si"], k="ok", level="machine",
                 site=site, site_loc=[loc for _, loc in fb] + [loc for _, loc in fw[:1]], sites=[fn for fn, _ in fb],
                 branch_stack=["%s (%s)" % (fn, loc) for fn, loc in fb],
                 instructions="%d vs %d" % tuple(d["n_instr"]), first_entry="#%d: %s | %s" % tuple(d["first"][:3]), divergent_secrets=len(r["divergent"]))
        fd = vcheck.match_finding(e, findings, "C01")
        if fd:
            known.setdefault(fd["id"], set()).add(e["form"])
            m_known.setdefault(fd["id"], set()).add(e["form"])
        else:
            key = (e["form"], e["site"])
            if key not in violations:
                violations[key] = [(900000 + len(violations), e)]
                machine[str(key)] = dict(kind="sweep", cls=r["cls"], si=d["si"], differs=True, n_instr=d["n_instr"], first=list(d["first"][:3]))
    vcheck.log("[C01] machine level (valgrind lackey, uninstrumented build): %d classes x up to %d secrets compared in %.0fs; %d class(es) diverge, %d of them at known-finding sites"
               % (len(sel), max(len(secrets_for(c)) for c in sel), time.time() - t1, len(mdiv), sum(1 for r in mdiv if any(per_class[r["cls"]][0] in v for v in m_known.values()))))
    # statistics
    classes, ops, vt_ops, lens = set(), set(), set(), 0
    samples = []
    with open(trace) as fh:
        for i, line in enumerate(fh):
            e = json.loads(line)
            classes.add(e["cls"]); ops.add(e["form"])
            if e["vt"]:
                vt_ops.add(e["form"])
            lens += e["n"]
            if len(samples) < 4 and i % 4000 == 5:
                samples.append({k: v for k, v in e.items() if k != "main"})
    vcheck.log("[C01] build %.0fs; %d runs of %d operations in %d public classes recorded in %.1fs (%d leakage events); %d run(s) diverge from their class" % (bdt, n, len(ops), len(classes), rdt, lens, len(rej)))
    for fid, forms in sorted(known.items()):
        fd = [x for x in findings if x["id"] == fid][0]
        vcheck.log("KNOWN-FINDING: property=C01 %s [%s; surfaces through: %s]" % (fd["what"], fid, ", ".join(sorted(forms))))
    rdir = os.path.join(vcheck.WORK, "replay", "C01")
    shutil.rmtree(rdir, ignore_errors=True)
    if violations:
        os.makedirs(rdir, exist_ok=True)
    for (form, site), items in sorted(violations.items()):
        ln, e = items[0]
        path = os.path.join(rdir, "C01_leak_%d.json" % ln)
        json.dump(dict(property="C01", tier=tier, seed=seed, profile="leak", line=ln, event=e, same_class=len(items),
                       machine_level=machine.get(str((form, site))),
                       first_divergence=dict(event_index=e.get("dv"), kind={1: "edge", 2: "load", 3: "store", 4: "div", 5: "gep"}.get(e.get("dkind"), "?"), site=e["site"], locations=e["site_loc"])), open(path, "w"), indent=1)
        vcheck.log("VIOLATION property=C01 replay=%s" % path)
        ml = machine.get(str((form, site)), {})
        vcheck.log("  operation=%s: leakage trace depends on a secret operand; first divergence in `%s` (%s) [%d run(s)]; confirmed on the uninstrumented build: %s vs %s instructions, first differing entry %s" % (form, site, " / ".join(e["site_loc"][:3]), len(items), ml.get("n_instr", ["?"])[0], ml.get("n_instr", ["?", "?"])[1], ml.get("first")))
    cov = dict(states=max(1, states), transitions=max(1, states), traces_validated_against_impl=n, evaluations=n,
               distinct_nontrivial=len(classes), operations=len(ops), documented_vartime_operations=len(vt_ops), public_classes=len(classes), secrets_per_class=nsec,
               leakage_events_observed=lens, divergent_runs=len(rej), machine_level_cross_checks=machine, ir_only_divergences=ir_only,
               machine_level_sweep=dict(classes=len(sel), instructions_compared=sum(r["n_instr"] * r["secrets"] for r in sweep), divergent_classes=sorted(r["cls"] for r in mdiv),
                                        known_findings_matched={k: sorted(v) for k, v in m_known.items()}), known_findings_matched={k: sorted(v) for k, v in known.items()},
               rule="one event per run of an operation of the optimised, SanitizerCoverage-instrumented crate; a class = operation + public parameters; secrets from the adversarial pool (0, 1, MAX, 2^k, bit lengths multiple of the limb size, equal operands, modulus-1, random); non-trivial = a class (its runs must all show the same trace)",
               samples=samples, exhaustive=False)
    vcheck.write_evidence("C01", tier, seed, "exploration", cov, [
        "LLVM SanitizerCoverage observes edges, loads, stores, GEP indices and division operands of the optimised IR; a divergence is reported only when valgrind/lackey on the uninstrumented build shows it too; back-end select-to-branch conversions that the IR does not show, and micro-architectural leakage, are out of scope",
        "secrets are sampled from an adversarial pool, not enumerated; x86_64 only",
        "TLC's part is a trivial trace-equality monitor per class; the substance is the instrumentation (DESIGN section 7 C01)"], time.time() - t0, sum(len(v) for v in violations.values()))
    return 1 if violations else 0


def selftest(prop, spec, k=60, seed=7):
    """binding self-test: alter the trace digest of K recorded runs (never the first run of a class) and require TLC's
    monitor to reject exactly those runs, and the machine-level comparison to tell two different regions apart"""
    import random
    wdir = os.path.join(vcheck.WORK, prop + "_selftest")
    shutil.rmtree(wdir, ignore_errors=True)
    os.makedirs(wdir)
    vcheck.ensure_classes()
    vcheck.run(["cargo", "build", "--offline", "--release"], cwd=LEAK, env=dict(os.environ, CARGO_NET_OFFLINE="true"), timeout=3000)
    trace = os.path.join(wdir, "trace.ndjson")
    vcheck.run([BIN, "--out", trace, "--seed", str(seed), "--secrets", "8"], timeout=3000)
    lines = open(trace).read().splitlines()
    rnd = random.Random(seed)
    cand = [i for i, l in enumerate(lines) if '"dst":1' in l]
    picks = sorted(rnd.sample(cand, k))
    for i in picks:
        e = json.loads(lines[i])
        e["dig"][rnd.randrange(len(e["dig"]))] ^= 1 << rnd.randrange(8)
        lines[i] = json.dumps(e, separators=(",", ":"))
    ctrace = os.path.join(wdir, "corrupted.ndjson")
    open(ctrace, "w").write("\n".join(lines) + "\n")
    base, _ = vcheck.validate_trace(trace, wdir, "base", ["C01"])
    base_rej = set(r["base"] + i for r in base for i in r["rejects"])
    res, _ = vcheck.validate_trace(ctrace, wdir, "cor", ["C01"])
    rej = set(r["base"] + i for r in res for i in r["rejects"])
    want = set(i + 1 for i in picks)
    missed = sorted(want - rej)
    extra = sorted(rej - want - base_rej)
    # machine level: two different operations' regions must differ, the same secret twice must not
    markers = lackey.build_plain()
    same = lackey.machine_traces("uint.wrapping_add#0", [0, 1, 2], seed, 8, markers)
    diff = lackey.machine_traces("uint.neg_mod#0", [0, 1], seed, 8, markers)       # secret 0 is zero: the known branch
    ml_ok = same[0][0] == same[1][0] == same[2][0] and diff[0][0] != diff[1][0] and same[0][1] > 0
    print("[selftest %s] %d runs, %d digests altered, %d rejected by TLC, %d missed, %d unexpected; machine level: equal regions equal, different regions different: %s"
          % (prop, len(lines), len(picks), len(rej & want), len(missed), len(extra), ml_ok))
    return 0 if not missed and not extra and ml_ok else 1


def replay(prop, path, spec):
    """./check C01 --replay <file>: run the two secrets of the recorded divergence again on the current tree, at the
    level it was found (machine level for sweep findings; IR level + machine-level confirmation otherwise)"""
    r = json.load(open(path))
    e = r["event"]
    nsec = 28 if r.get("tier", "quick") == "quick" else 120
    vcheck.run(["cargo", "build", "--offline", "--release"], cwd=LEAK, env=dict(os.environ, CARGO_NET_OFFLINE="true"), timeout=3000)
    markers = lackey.build_plain()
    m = lackey.compare(e["cls"], 0, e["si"], r["seed"], nsec, markers)
    ir = None
    if e.get("level") != "machine":
        wdir = os.path.join(vcheck.WORK, prop + "_replay")
        shutil.rmtree(wdir, ignore_errors=True)
        os.makedirs(wdir)
        trace = os.path.join(wdir, "trace.ndjson")
        vcheck.run([BIN, "--out", trace, "--seed", str(r["seed"]), "--secrets", str(nsec), "--only", e["form"]], timeout=3000)
        ir = any(json.loads(l).get("cls") == e["cls"] and json.loads(l).get("si") == e["si"] and "dv" in json.loads(l) for l in open(trace))
        print("REPLAY: IR-level traces of secrets 0 and %d of %s %s" % (e["si"], e["cls"], "differ" if ir else "are equal"))
    print("REPLAY: machine-level traces of secrets 0 and %d of %s %s (%d vs %d instructions%s)"
          % (e["si"], e["cls"], "differ" if m["differs"] else "are equal", m["n_instr"][0], m["n_instr"][1], ", first differing entry %s" % (m["first"][:3],) if m["first"] else ""))
    if m["differs"] and ir is not False:
        print("VIOLATION property=%s replay=%s" % (prop, path))
        return 1
    print("REPLAY: not reproduced on the current tree")
    return 0
