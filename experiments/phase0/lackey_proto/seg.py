import sys,hashlib
name,beg,end=sys.argv[1],int(sys.argv[2],16),int(sys.argv[3],16)
seg=[];on=False
for line in open('/tmp/lk/%s.log'%name):
    if not line or line[0] not in 'I LSM': continue
    parts=line.split()
    if len(parts)<2: continue
    kind=parts[0]; addr=int(parts[1].split(',')[0],16)
    if kind=='I':
        if addr==0x108000+beg: on=True; continue
        if addr==0x108000+end and on: break
    if on: seg.append((kind,addr))
ih=hashlib.sha256(repr([a for k,a in seg if k=='I']).encode()).hexdigest()[:12]
h=hashlib.sha256(repr(seg).encode()).hexdigest()[:12]
print("%-6s events %6d instr %6d  instr-digest %s  full-digest %s"%(name,len(seg),sum(1 for k,_ in seg if k=='I'),ih,h))
