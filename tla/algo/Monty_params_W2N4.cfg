SPECIFICATION Spec
CONSTANTS W = 2
 N = 4
 Mode = "params"
INVARIANT ParamsOK
CHECK_DEADLOCK FALSE
