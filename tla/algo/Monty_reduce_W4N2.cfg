SPECIFICATION Spec
CONSTANTS W = 4
 N = 2
 Mode = "reduce"
INVARIANT RedCanon
INVARIANT RedNew
CHECK_DEADLOCK FALSE
