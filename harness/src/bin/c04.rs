//! C04 recorder: addition, subtraction, negation — exact result and exact carry / overflow report.
//!
//! Event classes (field `op`):
//!   `add`   a, b [, c = carry-in]            t = a + b + c
//!   `sub`   a, b [, bin = borrow-in mask]    t = a - b - (bin = MAX ? 1 : 0)
//!   `neg`   a [, ch = choice]                t = -a
//!   `mac`   a, b, c, carry                   t = a + b*c + carry  -> lo, hi
//!   `chain` xs, os                           Checked<T> history x0 os[0] x1 os[1] x2 ...
//! Common inputs: `ab`/`bb` = precision in bits of the receiver / of the right-hand side,
//!   `m`    = how the form reports an out-of-range result:
//!            "carry" (res + carry/borrow word), "wrap" (res only), "checked" (none), "sat" (clamped),
//!            "panic" (operator forms), "cneg" (res + carry flag of carrying_neg), "negif" (conditional);
//!   `rule` = which precision the documentation gives the result: "recv" (the receiver's: fixed types
//!            and the boxed assigning forms, which iterate the receiver's limbs only) or "max" (boxed
//!            non-assigning forms: `fold_limbs` widens to the widest input);
//!   `an`/`bn` = 1 when that `Checked` operand already is none (sticky none).
//! Outputs: `res`, `carry` (natural: carry word, or borrow mask), `cf` (flag), `rp` (boxed result precision).
use vh::cb::subtle::{Choice, CtOption};
use vh::cb::{BoxedUint, Checked, CheckedAdd, CheckedSub, ConstChoice, Limb, Uint, Wrapping, WrappingAdd, WrappingNeg, WrappingSub};
use vh::*;

#[allow(clippy::too_many_arguments)]
fn ev(op: &str, form: &str, m: &str, rule: &str, ab: usize, bb: usize, a: &[u64], b: &[u64]) -> Ev {
    Ev::new(op, form).s("m", m).s("rule", rule).i("ab", ab as i64).i("bb", bb as i64).n("a", a).n("b", b)
}
fn evn(form: &str, m: &str, ab: usize, a: &[u64]) -> Ev {
    Ev::new("neg", form).s("m", m).i("ab", ab as i64).n("a", a)
}
fn ores(v: &[u64]) -> O {
    O::ok().n("res", v)
}
fn oopt(v: Option<Vec<u64>>) -> O {
    match v {
        Some(x) => ores(&x),
        None => O::none(),
    }
}
fn obx(r: &BoxedUint) -> O {
    O::ok().n("res", &wb(r)).i("rp", r.bits_precision() as i64)
}
fn obxc(r: &BoxedUint, c: Limb) -> O {
    obx(r).n("carry", &[c.0])
}

fn carry_in(r: &mut Rng) -> u64 {
    if r.chance(4, 5) { r.pick(&[0, 1, 2, MAX]) } else { limb(r) }
}
fn borrow_in(r: &mut Rng) -> u64 {
    // the crate's borrow is a mask: all-zeros or all-ones
    if r.coin() { MAX } else { 0 }
}

fn alt(n: usize, first_max: bool) -> Vec<u64> {
    (0..n).map(|i| if (i % 2 == 0) == first_max { MAX } else { 0 }).collect()
}

/// operands a (n limbs, the receiver) and b (m limbs): the carry / borrow families the property names
fn pair(r: &mut Rng, n: usize, m: usize) -> (Vec<u64>, Vec<u64>) {
    let top = vpow2(64 * n); // 2^BITS of the receiver
    let fitb = |v: Vec<u64>, r: &mut Rng| -> Vec<u64> {
        let v = trim(v);
        if fits(&v, m) { fit(v, m) } else { nat(r, m) }
    };
    let (a, b) = match r.below(20) {
        0 => (vec![MAX; n], fit(vec![1], m)),                       // MAX + 1, ripple through every limb
        1 => (vec![0; n], fit(vec![1], m)),                         // 0 - 1
        2 => (alt(n, false), fitb(alt(n, true), r)),                // alternating 0/MAX: sum = 2^BITS - 1
        3 => (alt(n, true), fitb(vadd(&alt(n, false), &[1]), r)),   // sum = 2^BITS exactly
        4 | 5 => {
            // a + b = 2^BITS exactly
            let a = nat_nonzero(r, n);
            let b = vsub(&top, &a);
            (a, fitb(b, r))
        }
        6 | 7 => {
            // a + b = 2^BITS - 1
            let a = nat(r, n);
            let b = vsub(&vsub(&top, &[1]), &a);
            (a, fitb(b, r))
        }
        8 => {
            // a + b = 2^BITS + 1
            let a = nat_nonzero(r, n);
            let b = vadd(&vsub(&top, &a), &[1]);
            (a, fitb(b, r))
        }
        9 => { let a = nat(r, n); let b = a.clone(); (a, fitb(b, r)) }                      // a - b = 0
        10 => {
            // a = b - 1: borrow out of every limb
            let b = nat_nonzero(r, n.min(m));
            (fit(vsub(&b, &[1]), n), fit(b, m))
        }
        11 => {
            // a = b + 1
            let b = nat(r, n.min(m));
            let a = vadd(&b, &[1]);
            if fits(&a, n) { (fit(a, n), fit(b, m)) } else { (vec![MAX; n], fit(b, m)) }
        }
        12 => {
            // 2^(64 j) - 1: borrow ripples through j limbs
            let j = r.below(n);
            (fit(trim(vpow2(64 * j)), n), fit(vec![1], m))
        }
        13 => {
            // (2^(64 j) - 1) + 1: carry ripples through j limbs
            let j = r.range(1, n);
            (fit(vsub(&vpow2(64 * j), &[1]), n), fit(vec![1], m))
        }
        14 => (vec![MAX; n], vec![MAX; m]),
        15 => (nat(r, n), vec![0; m]),
        16 => (vec![0; n], nat(r, m)),
        _ => (nat(r, n), nat(r, m)),
    };
    let mut b = b;
    if m > n && r.chance(1, 3) {
        // a right-hand side wider than the receiver: value at or just above 2^BITS of the receiver
        match r.below(3) {
            0 => { b = fit(trim(top.clone()), m); }
            1 => { b[n] = 1; }
            _ => { b[m - 1] = limb(r) | 1; }
        }
    }
    (fit(a, n), fit(b, m))
}

fn copt<T>(v: T, none: bool) -> Checked<T> {
    Checked(CtOption::new(v, Choice::from(!none as u8)))
}

// ---------------------------------------------------------------------------------------------
// Limb

fn limb_pair(r: &mut Rng) -> (u64, u64) {
    match r.below(10) {
        0 => (MAX, 1),
        1 => (0, 1),
        2 => { let x = limb(r); (x, MAX - x) }
        3 => { let x = limb(r) | 1; (x, (MAX - x).wrapping_add(1)) }
        4 => { let x = limb(r); (x, x) }
        5 => { let x = limb(r) | 1; (x - 1, x) }
        6 => (MAX, MAX),
        _ => (limb(r), limb(r)),
    }
}

fn limb_forms(cx: &mut Cx, iters: usize) {
    for it in 0..iters {
        let (x, y) = limb_pair(&mut cx.rng);
        let (a, b) = (Limb(x), Limb(y));
        let c = carry_in(&mut cx.rng);
        let bin = borrow_in(&mut cx.rng);
        let e = |op: &str, form: &str, m: &str| ev(op, form, m, "recv", 64, 64, &[x], &[y]);
        cx.call(e("add", "limb.adc", "carry").n("c", &[c]), || { let (r, co) = a.adc(b, Limb(c)); ores(&[r.0]).n("carry", &[co.0]) });
        cx.call(e("add", "limb.overflowing_add", "carry"), || { let (r, co) = a.overflowing_add(b); ores(&[r.0]).n("carry", &[co.0]) });
        cx.call(e("add", "limb.wrapping_add", "wrap"), || ores(&[a.wrapping_add(b).0]));
        cx.call(e("add", "limb.WrappingAdd", "wrap"), || ores(&[WrappingAdd::wrapping_add(&a, &b).0]));
        cx.call(e("add", "limb.saturating_add", "sat"), || ores(&[a.saturating_add(b).0]));
        cx.call(e("add", "limb.CheckedAdd", "checked"), || oopt(Option::<Limb>::from(a.checked_add(&b)).map(|r| vec![r.0])));
        cx.call(e("add", "limb.op_add", "panic"), || ores(&[(a + b).0]));
        cx.call(e("sub", "limb.sbb", "carry").n("bin", &[bin]), || { let (r, bo) = a.sbb(b, Limb(bin)); ores(&[r.0]).n("carry", &[bo.0]) });
        cx.call(e("sub", "limb.wrapping_sub", "wrap"), || ores(&[a.wrapping_sub(b).0]));
        cx.call(e("sub", "limb.WrappingSub", "wrap"), || ores(&[WrappingSub::wrapping_sub(&a, &b).0]));
        cx.call(e("sub", "limb.saturating_sub", "sat"), || ores(&[a.saturating_sub(b).0]));
        cx.call(e("sub", "limb.CheckedSub", "checked"), || oopt(Option::<Limb>::from(a.checked_sub(&b)).map(|r| vec![r.0])));
        cx.call(e("sub", "limb.op_sub", "panic"), || ores(&[(a - b).0]));
        cx.call(e("sub", "limb.op_sub_ref", "panic"), || ores(&[(a - &b).0]));
        cx.call(evn("limb.wrapping_neg", "wrap", 64, &[x]), || ores(&[a.wrapping_neg().0]));
        cx.call(evn("limb.WrappingNeg", "wrap", 64, &[x]), || ores(&[WrappingNeg::wrapping_neg(&a).0]));
        if it % 2 == 0 {
            let (wa, wb_) = (Wrapping(a), Wrapping(b));
            cx.call(e("add", "limb.wrapping.op_add_vv", "wrap"), || ores(&[(wa + wb_).0.0]));
            cx.call(e("add", "limb.wrapping.op_add_vr", "wrap"), || ores(&[(wa + &wb_).0.0]));
            cx.call(e("add", "limb.wrapping.op_add_rv", "wrap"), || ores(&[(&wa + wb_).0.0]));
            cx.call(e("add", "limb.wrapping.op_add_rr", "wrap"), || ores(&[(&wa + &wb_).0.0]));
            cx.call(e("add", "limb.wrapping.add_assign_v", "wrap"), || { let mut t = wa; t += wb_; ores(&[t.0.0]) });
            cx.call(e("add", "limb.wrapping.add_assign_r", "wrap"), || { let mut t = wa; t += &wb_; ores(&[t.0.0]) });
            cx.call(e("sub", "limb.wrapping.op_sub_vv", "wrap"), || ores(&[(wa - wb_).0.0]));
            cx.call(e("sub", "limb.wrapping.op_sub_rr", "wrap"), || ores(&[(&wa - &wb_).0.0]));
            cx.call(e("sub", "limb.wrapping.sub_assign_v", "wrap"), || { let mut t = wa; t -= wb_; ores(&[t.0.0]) });
            cx.call(e("sub", "limb.wrapping.sub_assign_r", "wrap"), || { let mut t = wa; t -= &wb_; ores(&[t.0.0]) });
            cx.call(evn("limb.wrapping.op_neg_v", "wrap", 64, &[x]), || ores(&[(-wa).0.0]));
            cx.call(evn("limb.wrapping.op_neg_r", "wrap", 64, &[x]), || ores(&[(-&wa).0.0]));
        } else {
            let an = cx.rng.chance(1, 6);
            let bn = cx.rng.chance(1, 6);
            let (ca, cb_) = (copt(a, an), copt(b, bn));
            let ec = |op: &str, form: &str| e(op, form, "checked").f("an", an).f("bn", bn);
            let out = |r: Checked<Limb>| oopt(Option::<Limb>::from(r.0).map(|r| vec![r.0]));
            cx.call(ec("add", "limb.checked.op_add_vv"), || out(ca + cb_));
            cx.call(ec("add", "limb.checked.op_add_vr"), || out(ca + &cb_));
            cx.call(ec("add", "limb.checked.op_add_rv"), || out(&ca + cb_));
            cx.call(ec("add", "limb.checked.op_add_rr"), || out(&ca + &cb_));
            cx.call(ec("add", "limb.checked.add_assign_v"), || { let mut t = ca; t += cb_; out(t) });
            cx.call(ec("add", "limb.checked.add_assign_r"), || { let mut t = ca; t += &cb_; out(t) });
            cx.call(ec("sub", "limb.checked.op_sub_vv"), || out(ca - cb_));
            cx.call(ec("sub", "limb.checked.op_sub_rr"), || out(&ca - &cb_));
            cx.call(ec("sub", "limb.checked.sub_assign_v"), || { let mut t = ca; t -= cb_; out(t) });
            cx.call(ec("sub", "limb.checked.sub_assign_r"), || { let mut t = ca; t -= &cb_; out(t) });
        }
    }
}

fn mac_forms(cx: &mut Cx, iters: usize) {
    for _ in 0..iters {
        let mut v = [0u64; 4];
        for x in v.iter_mut() {
            *x = match cx.rng.below(10) { 0..=3 => MAX, 4 => 0, 5 => 1, 6 => MAX - 1, _ => limb(&mut cx.rng) };
        }
        let [a, b, c, k] = v;
        cx.call(Ev::new("mac", "limb.mac").n("a", &[a]).n("b", &[b]).n("c", &[c]).n("cin", &[k]), || {
            let (lo, hi) = Limb(a).mac(Limb(b), Limb(c), Limb(k));
            O::ok().n("lo", &[lo.0]).n("hi", &[hi.0])
        });
    }
}

// ---------------------------------------------------------------------------------------------
// Uint<N>

fn uint_forms<const N: usize>(cx: &mut Cx, iters: usize, full: bool) {
    let bits = 64 * N;
    for it in 0..iters {
        let (av, bv) = pair(&mut cx.rng, N, N);
        let (a, b) = (u::<N>(&av), u::<N>(&bv));
        let c = carry_in(&mut cx.rng);
        let bin = borrow_in(&mut cx.rng);
        let e = |op: &str, form: &str, m: &str| ev(op, form, m, "recv", bits, bits, &av, &bv);
        let en = |form: &str, m: &str| evn(form, m, bits, &av);
        cx.call(e("add", "uint.adc", "carry").n("c", &[c]), || { let (r, co) = a.adc(&b, Limb(c)); ores(&w(&r)).n("carry", &[co.0]) });
        cx.call(e("add", "uint.wrapping_add", "wrap"), || ores(&w(&a.wrapping_add(&b))));
        cx.call(e("add", "uint.saturating_add", "sat"), || ores(&w(&a.saturating_add(&b))));
        cx.call(e("add", "uint.CheckedAdd", "checked"), || oopt(Option::<Uint<N>>::from(a.checked_add(&b)).map(|r| w(&r))));
        cx.call(e("add", "uint.op_add_vv", "panic"), || ores(&w(&(a + b))));
        cx.call(e("sub", "uint.sbb", "carry").n("bin", &[bin]), || { let (r, bo) = a.sbb(&b, Limb(bin)); ores(&w(&r)).n("carry", &[bo.0]) });
        cx.call(e("sub", "uint.wrapping_sub", "wrap"), || ores(&w(&a.wrapping_sub(&b))));
        cx.call(e("sub", "uint.saturating_sub", "sat"), || ores(&w(&a.saturating_sub(&b))));
        cx.call(e("sub", "uint.CheckedSub", "checked"), || oopt(Option::<Uint<N>>::from(a.checked_sub(&b)).map(|r| w(&r))));
        cx.call(e("sub", "uint.op_sub_vv", "panic"), || ores(&w(&(a - b))));
        cx.call(en("uint.wrapping_neg", "wrap"), || ores(&w(&a.wrapping_neg())));
        cx.call(en("uint.carrying_neg", "cneg"), || { let (r, cf) = a.carrying_neg(); ores(&w(&r)).f("cf", cf.into()) });
        let ch = cx.rng.coin();
        cx.call(en("uint.wrapping_neg_if", "negif").f("ch", ch), || ores(&w(&a.wrapping_neg_if(if ch { ConstChoice::TRUE } else { ConstChoice::FALSE }))));
        if !full { continue; }
        cx.call(e("add", "uint.WrappingAdd", "wrap"), || ores(&w(&WrappingAdd::wrapping_add(&a, &b))));
        cx.call(e("add", "uint.op_add_vr", "panic"), || ores(&w(&(a + &b))));
        cx.call(e("add", "uint.add_assign_v", "panic"), || { let mut t = a; t += b; ores(&w(&t)) });
        cx.call(e("add", "uint.add_assign_r", "panic"), || { let mut t = a; t += &b; ores(&w(&t)) });
        cx.call(e("sub", "uint.WrappingSub", "wrap"), || ores(&w(&WrappingSub::wrapping_sub(&a, &b))));
        cx.call(e("sub", "uint.op_sub_vr", "panic"), || ores(&w(&(a - &b))));
        cx.call(e("sub", "uint.sub_assign_v", "panic"), || { let mut t = a; t -= b; ores(&w(&t)) });
        cx.call(e("sub", "uint.sub_assign_r", "panic"), || { let mut t = a; t -= &b; ores(&w(&t)) });
        cx.call(en("uint.WrappingNeg", "wrap"), || ores(&w(&WrappingNeg::wrapping_neg(&a))));
        if it % 2 == 0 {
            let (wa, wb_) = (Wrapping(a), Wrapping(b));
            cx.call(e("add", "uint.wrapping.op_add_vv", "wrap"), || ores(&w(&(wa + wb_).0)));
            cx.call(e("add", "uint.wrapping.op_add_vr", "wrap"), || ores(&w(&(wa + &wb_).0)));
            cx.call(e("add", "uint.wrapping.op_add_rv", "wrap"), || ores(&w(&(&wa + wb_).0)));
            cx.call(e("add", "uint.wrapping.op_add_rr", "wrap"), || ores(&w(&(&wa + &wb_).0)));
            cx.call(e("add", "uint.wrapping.add_assign_v", "wrap"), || { let mut t = wa; t += wb_; ores(&w(&t.0)) });
            cx.call(e("add", "uint.wrapping.add_assign_r", "wrap"), || { let mut t = wa; t += &wb_; ores(&w(&t.0)) });
            cx.call(e("sub", "uint.wrapping.op_sub_vv", "wrap"), || ores(&w(&(wa - wb_).0)));
            cx.call(e("sub", "uint.wrapping.op_sub_vr", "wrap"), || ores(&w(&(wa - &wb_).0)));
            cx.call(e("sub", "uint.wrapping.op_sub_rv", "wrap"), || ores(&w(&(&wa - wb_).0)));
            cx.call(e("sub", "uint.wrapping.op_sub_rr", "wrap"), || ores(&w(&(&wa - &wb_).0)));
            cx.call(e("sub", "uint.wrapping.sub_assign_v", "wrap"), || { let mut t = wa; t -= wb_; ores(&w(&t.0)) });
            cx.call(e("sub", "uint.wrapping.sub_assign_r", "wrap"), || { let mut t = wa; t -= &wb_; ores(&w(&t.0)) });
            cx.call(en("uint.wrapping.op_neg_v", "wrap"), || ores(&w(&(-wa).0)));
            cx.call(en("uint.wrapping.op_neg_r", "wrap"), || ores(&w(&(-&wa).0)));
        } else {
            let an = cx.rng.chance(1, 6);
            let bn = cx.rng.chance(1, 6);
            let (ca, cb_) = (copt(a, an), copt(b, bn));
            let ec = |op: &str, form: &str| e(op, form, "checked").f("an", an).f("bn", bn);
            let out = |r: Checked<Uint<N>>| oopt(Option::<Uint<N>>::from(r.0).map(|r| w(&r)));
            cx.call(ec("add", "uint.checked.op_add_vv"), || out(ca + cb_));
            cx.call(ec("add", "uint.checked.op_add_vr"), || out(ca + &cb_));
            cx.call(ec("add", "uint.checked.op_add_rv"), || out(&ca + cb_));
            cx.call(ec("add", "uint.checked.op_add_rr"), || out(&ca + &cb_));
            cx.call(ec("add", "uint.checked.add_assign_v"), || { let mut t = ca; t += cb_; out(t) });
            cx.call(ec("add", "uint.checked.add_assign_r"), || { let mut t = ca; t += &cb_; out(t) });
            cx.call(ec("sub", "uint.checked.op_sub_vv"), || out(ca - cb_));
            cx.call(ec("sub", "uint.checked.op_sub_vr"), || out(ca - &cb_));
            cx.call(ec("sub", "uint.checked.op_sub_rv"), || out(&ca - cb_));
            cx.call(ec("sub", "uint.checked.op_sub_rr"), || out(&ca - &cb_));
            cx.call(ec("sub", "uint.checked.sub_assign_v"), || { let mut t = ca; t -= cb_; out(t) });
            cx.call(ec("sub", "uint.checked.sub_assign_r"), || { let mut t = ca; t -= &cb_; out(t) });
        }
    }
}

/// `Checked<Uint<N>>` histories: once none, always none
fn chain<const N: usize>(cx: &mut Cx, iters: usize) {
    for _ in 0..iters {
        let len = cx.rng.range(2, 4);
        let mut xs: Vec<Vec<u64>> = Vec::new();
        for i in 0..=len {
            let v = match cx.rng.below(8) {
                0 => vec![MAX; N],
                1 => vec![0; N],
                2 | 3 => fit(vec![1], N),
                4 => fit(vec![2], N),
                5 => { let mut v = vec![MAX; N]; v[0] = MAX - 1; v }
                _ => if i == 0 { nat(&mut cx.rng, N) } else { fit(vec![limb(&mut cx.rng)], N) },
            };
            xs.push(v);
        }
        let os: Vec<u8> = (0..len).map(|_| if cx.rng.coin() { b'+' } else { b'-' }).collect();
        let by_ref = cx.rng.coin();
        cx.call(Ev::new("chain", if by_ref { "uint.checked.chain_ref" } else { "uint.checked.chain_val" }).i("ab", 64 * N as i64).nl("xs", &xs).b("os", &os), || {
            let mut acc = Checked::new(u::<N>(&xs[0]));
            for (i, o) in os.iter().enumerate() {
                let y = Checked::new(u::<N>(&xs[i + 1]));
                acc = match (*o, by_ref) {
                    (b'+', false) => acc + y,
                    (b'+', true) => &acc + &y,
                    (_, false) => acc - y,
                    (_, true) => &acc - &y,
                };
            }
            oopt(Option::<Uint<N>>::from(acc.0).map(|r| w(&r)))
        });
    }
}

// ---------------------------------------------------------------------------------------------
// BoxedUint

fn boxed_len(r: &mut Rng, maxl: usize) -> usize {
    if r.chance(1, 5) { r.pick(&[1usize, 2, 16, 31, 32, 33, 39, 40]).min(maxl) } else if r.chance(1, 4) { r.range(1, maxl) } else { r.range(1, maxl.min(8)) }
}

fn boxed_forms(cx: &mut Cx, iters: usize, maxl: usize) {
    for it in 0..iters {
        let nl = boxed_len(&mut cx.rng, maxl);
        let ml = if cx.rng.chance(1, 2) { nl } else if cx.rng.coin() { cx.rng.range(1, nl) } else { cx.rng.range(nl, (nl + 3).min(maxl)) };
        let (av, bv) = pair(&mut cx.rng, nl, ml);
        let (a, b) = (bx(&av), bx(&bv));
        let c = carry_in(&mut cx.rng);
        let bin = borrow_in(&mut cx.rng);
        let e = |op: &str, form: &str, m: &str, rule: &str| ev(op, form, m, rule, 64 * nl, 64 * ml, &av, &bv);
        let en = |form: &str, m: &str| evn(form, m, 64 * nl, &av);
        // non-assigning forms: result widened to the widest input
        cx.call(e("add", "boxed.adc", "carry", "max").n("c", &[c]), || { let (r, co) = a.adc(&b, Limb(c)); obxc(&r, co) });
        cx.call(e("add", "boxed.wrapping_add", "wrap", "max"), || obx(&a.wrapping_add(&b)));
        cx.call(e("add", "boxed.CheckedAdd", "checked", "max"), || match Option::<BoxedUint>::from(a.checked_add(&b)) { Some(r) => obx(&r), None => O::none() });
        cx.call(e("sub", "boxed.sbb", "carry", "max").n("bin", &[bin]), || { let (r, bo) = a.sbb(&b, Limb(bin)); obxc(&r, bo) });
        cx.call(e("sub", "boxed.wrapping_sub", "wrap", "max"), || obx(&a.wrapping_sub(&b)));
        cx.call(e("sub", "boxed.CheckedSub", "checked", "max"), || match Option::<BoxedUint>::from(a.checked_sub(&b)) { Some(r) => obx(&r), None => O::none() });
        // assigning forms: the receiver's limbs only
        cx.call(e("add", "boxed.adc_assign", "carry", "recv").n("c", &[c]), || { let mut t = a.clone(); let co = t.adc_assign(&b, Limb(c)); obxc(&t, co) });
        cx.call(e("sub", "boxed.sbb_assign", "carry", "recv").n("bin", &[bin]), || { let mut t = a.clone(); let bo = t.sbb_assign(&b, Limb(bin)); obxc(&t, bo) });
        cx.call(e("add", "boxed.add_assign_r", "panic", "recv"), || { let mut t = a.clone(); t += &b; obx(&t) });
        cx.call(e("sub", "boxed.sub_assign_r", "panic", "recv"), || { let mut t = a.clone(); t -= &b; obx(&t) });
        cx.call(e("add", "boxed.op_add_rr", "panic", "max"), || obx(&(&a + &b)));
        cx.call(e("sub", "boxed.op_sub_rr", "panic", "max"), || obx(&(&a - &b)));
        cx.call(en("boxed.wrapping_neg", "wrap"), || obx(&a.wrapping_neg()));
        match it % 3 {
            0 => {
                cx.call(e("add", "boxed.WrappingAdd", "wrap", "max"), || obx(&WrappingAdd::wrapping_add(&a, &b)));
                cx.call(e("sub", "boxed.WrappingSub", "wrap", "max"), || obx(&WrappingSub::wrapping_sub(&a, &b)));
                cx.call(e("add", "boxed.adc_assign_limbs", "carry", "recv").n("c", &[c]), || { let mut t = a.clone(); let co = t.adc_assign(b.as_limbs(), Limb(c)); obxc(&t, co) });
                cx.call(e("sub", "boxed.sbb_assign_limbs", "carry", "recv").n("bin", &[bin]), || { let mut t = a.clone(); let bo = t.sbb_assign(b.as_limbs(), Limb(bin)); obxc(&t, bo) });
                cx.call(e("add", "boxed.op_add_vv", "panic", "max"), || obx(&(a.clone() + b.clone())));
                cx.call(e("add", "boxed.op_add_vr", "panic", "max"), || obx(&(a.clone() + &b)));
                cx.call(e("add", "boxed.op_add_rv", "panic", "max"), || obx(&(&a + b.clone())));
                cx.call(e("add", "boxed.add_assign_v", "panic", "recv"), || { let mut t = a.clone(); t += b.clone(); obx(&t) });
                cx.call(e("sub", "boxed.op_sub_vv", "panic", "max"), || obx(&(a.clone() - b.clone())));
                cx.call(e("sub", "boxed.op_sub_vr", "panic", "max"), || obx(&(a.clone() - &b)));
                cx.call(e("sub", "boxed.op_sub_rv", "panic", "max"), || obx(&(&a - b.clone())));
                cx.call(e("sub", "boxed.sub_assign_v", "panic", "recv"), || { let mut t = a.clone(); t -= b.clone(); obx(&t) });
                cx.call(en("boxed.WrappingNeg", "wrap"), || obx(&WrappingNeg::wrapping_neg(&a)));
            }
            1 => {
                let (wa, wb_) = (Wrapping(a.clone()), Wrapping(b.clone()));
                cx.call(e("add", "boxed.wrapping.op_add_vv", "wrap", "max"), || obx(&(wa.clone() + wb_.clone()).0));
                cx.call(e("add", "boxed.wrapping.op_add_vr", "wrap", "max"), || obx(&(wa.clone() + &wb_).0));
                cx.call(e("add", "boxed.wrapping.op_add_rv", "wrap", "max"), || obx(&(&wa + wb_.clone()).0));
                cx.call(e("add", "boxed.wrapping.op_add_rr", "wrap", "max"), || obx(&(&wa + &wb_).0));
                cx.call(e("add", "boxed.wrapping.add_assign_v", "wrap", "recv"), || { let mut t = wa.clone(); t += wb_.clone(); obx(&t.0) });
                cx.call(e("add", "boxed.wrapping.add_assign_r", "wrap", "recv"), || { let mut t = wa.clone(); t += &wb_; obx(&t.0) });
                cx.call(e("sub", "boxed.wrapping.op_sub_vv", "wrap", "max"), || obx(&(wa.clone() - wb_.clone()).0));
                cx.call(e("sub", "boxed.wrapping.op_sub_vr", "wrap", "max"), || obx(&(wa.clone() - &wb_).0));
                cx.call(e("sub", "boxed.wrapping.op_sub_rv", "wrap", "max"), || obx(&(&wa - wb_.clone()).0));
                cx.call(e("sub", "boxed.wrapping.op_sub_rr", "wrap", "max"), || obx(&(&wa - &wb_).0));
                cx.call(e("sub", "boxed.wrapping.sub_assign_v", "wrap", "recv"), || { let mut t = wa.clone(); t -= wb_.clone(); obx(&t.0) });
                cx.call(e("sub", "boxed.wrapping.sub_assign_r", "wrap", "recv"), || { let mut t = wa.clone(); t -= &wb_; obx(&t.0) });
                cx.call(en("boxed.wrapping.op_neg_v", "wrap"), || obx(&(-wa.clone()).0));
                cx.call(en("boxed.wrapping.op_neg_r", "wrap"), || obx(&(-&wa).0));
            }
            _ => {}
        }
    }
}

/// boxed receiver with a fixed `Uint<N>` right-hand side (narrower, equal and wider than the receiver)
fn boxed_uint<const N: usize>(cx: &mut Cx, iters: usize) {
    for it in 0..iters {
        let nl = match cx.rng.below(4) { 0 => N, 1 => cx.rng.range(1, N), _ => cx.rng.range(N, N + 4) };
        let (av, bv) = pair(&mut cx.rng, nl, N);
        let (a, b) = (bx(&av), u::<N>(&bv));
        let c = carry_in(&mut cx.rng);
        let bin = borrow_in(&mut cx.rng);
        let e = |op: &str, form: &str, m: &str| ev(op, form, m, "recv", 64 * nl, 64 * N, &av, &bv);
        cx.call(e("add", "boxed.op_add_uint_vv", "panic"), || obx(&(a.clone() + b)));
        cx.call(e("sub", "boxed.op_sub_uint_vv", "panic"), || obx(&(a.clone() - b)));
        cx.call(e("add", "boxed.add_assign_uint_r", "panic"), || { let mut t = a.clone(); t += &b; obx(&t) });
        cx.call(e("sub", "boxed.sub_assign_uint_r", "panic"), || { let mut t = a.clone(); t -= &b; obx(&t) });
        cx.call(e("add", "boxed.adc_assign_uint_limbs", "carry").n("c", &[c]), || { let mut t = a.clone(); let co = t.adc_assign(b.as_limbs(), Limb(c)); obxc(&t, co) });
        cx.call(e("sub", "boxed.sbb_assign_uint_limbs", "carry").n("bin", &[bin]), || { let mut t = a.clone(); let bo = t.sbb_assign(b.as_limbs(), Limb(bin)); obxc(&t, bo) });
        if it % 2 == 0 {
            cx.call(e("add", "boxed.op_add_uint_vr", "panic"), || obx(&(a.clone() + &b)));
            cx.call(e("add", "boxed.op_add_uint_rv", "panic"), || obx(&(&a + b)));
            cx.call(e("add", "boxed.op_add_uint_rr", "panic"), || obx(&(&a + &b)));
            cx.call(e("add", "boxed.add_assign_uint_v", "panic"), || { let mut t = a.clone(); t += b; obx(&t) });
            cx.call(e("sub", "boxed.op_sub_uint_vr", "panic"), || obx(&(a.clone() - &b)));
            cx.call(e("sub", "boxed.op_sub_uint_rv", "panic"), || obx(&(&a - b)));
            cx.call(e("sub", "boxed.op_sub_uint_rr", "panic"), || obx(&(&a - &b)));
            cx.call(e("sub", "boxed.sub_assign_uint_v", "panic"), || { let mut t = a.clone(); t -= b; obx(&t) });
        }
    }
}

/// boxed receiver with a primitive right-hand side
macro_rules! boxed_prim {
    ($cx:expr, $t:ty, $name:literal, $iters:expr) => {
        for _ in 0..$iters {
            let pb = <$t>::BITS as usize;
            let nl = if $cx.rng.chance(2, 3) { $cx.rng.range(1, 3) } else { boxed_len(&mut $cx.rng, 40) };
            let top = vpow2(64 * nl);
            let full: u128 = match $cx.rng.below(8) {
                0 => 1,
                1 => <$t>::MAX as u128,
                2 => 0,
                3 => (<$t>::MAX as u128) >> 1,
                4 => 1u128 << ($cx.rng.below(pb)),
                5 => ((1u128 << 64) + 1) & (<$t>::MAX as u128),
                _ => ((limb(&mut $cx.rng) as u128) << 64 | limb(&mut $cx.rng) as u128) & (<$t>::MAX as u128),
            };
            let p = full as $t;
            let pv = [full as u64, (full >> 64) as u64];
            // receiver chosen relative to the primitive: MAX, 2^BITS - p, 2^BITS - p - 1, p, p - 1, 0, structured
            let av: Vec<u64> = match $cx.rng.below(8) {
                0 => vec![MAX; nl],
                1 => if vcmp(&top, &pv).is_gt() && full > 0 { fit(vsub(&top, &pv), nl) } else { vec![0; nl] },
                2 => if vcmp(&top, &pv).is_gt() { fit(vsub(&vsub(&top, &pv), &[1]), nl) } else { vec![MAX; nl] },
                3 => if fits(&pv, nl) { fit(pv.to_vec(), nl) } else { vec![MAX; nl] },
                4 => if fits(&pv, nl) && full > 0 { fit(vsub(&pv, &[1]), nl) } else { vec![0; nl] },
                5 => vec![0; nl],
                _ => nat(&mut $cx.rng, nl),
            };
            let a = bx(&av);
            let e = |op: &str, form: &str| ev(op, &format!("boxed.{}_{}", form, $name), "panic", "recv", 64 * nl, pb, &av, &pv);
            $cx.call(e("add", "op_add_v"), || obx(&(a.clone() + p)));
            $cx.call(e("add", "op_add_r"), || obx(&(&a + p)));
            $cx.call(e("add", "add_assign"), || { let mut t = a.clone(); t += p; obx(&t) });
            $cx.call(e("sub", "op_sub_v"), || obx(&(a.clone() - p)));
            $cx.call(e("sub", "op_sub_r"), || obx(&(&a - p)));
            $cx.call(e("sub", "sub_assign"), || { let mut t = a.clone(); t -= p; obx(&t) });
        }
    };
}

fn main() {
    let mut cx = Cx::from_args("C04");
    let s = cx.scale;
    if cx.want("limb") {
        limb_forms(&mut cx, 250 * s);
        mac_forms(&mut cx, 800 * s);
    }
    if cx.want("uint") {
        uint_forms::<1>(&mut cx, 90 * s, true);
        uint_forms::<2>(&mut cx, 90 * s, true);
        uint_forms::<3>(&mut cx, 60 * s, true);
        uint_forms::<4>(&mut cx, 90 * s, true);
        uint_forms::<6>(&mut cx, 50 * s, true);
        uint_forms::<8>(&mut cx, 50 * s, true);
        uint_forms::<16>(&mut cx, 30 * s, true);
        uint_forms::<5>(&mut cx, 60 * s, false);
        uint_forms::<7>(&mut cx, 60 * s, false);
        uint_forms::<9>(&mut cx, 50 * s, false);
        uint_forms::<10>(&mut cx, 50 * s, false);
        uint_forms::<11>(&mut cx, 50 * s, false);
        uint_forms::<12>(&mut cx, 50 * s, false);
        uint_forms::<32>(&mut cx, 40 * s, false);
    }
    if cx.want("chain") {
        chain::<1>(&mut cx, 300 * s);
        chain::<2>(&mut cx, 200 * s);
        chain::<4>(&mut cx, 200 * s);
    }
    if cx.want("boxed") {
        boxed_forms(&mut cx, 700 * s, 40);
    }
    if cx.want("bxuint") {
        boxed_uint::<1>(&mut cx, 150 * s);
        boxed_uint::<2>(&mut cx, 150 * s);
        boxed_uint::<4>(&mut cx, 120 * s);
        boxed_uint::<8>(&mut cx, 80 * s);
    }
    if cx.want("prim") {
        boxed_prim!(cx, u8, "u8", 80 * s);
        boxed_prim!(cx, u16, "u16", 80 * s);
        boxed_prim!(cx, u32, "u32", 80 * s);
        boxed_prim!(cx, u64, "u64", 150 * s);
        boxed_prim!(cx, u128, "u128", 250 * s);
    }
    cx.finish();
}
