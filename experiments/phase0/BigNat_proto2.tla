---- MODULE BigNat ----
EXTENDS Naturals, Sequences
\* Prototype: reference definitions elided (RefUndefined); TLC evaluates via BigNatOverrides.
Undef == CHOOSE x \in {} : TRUE
Add(a,b) == Undef
Sub(a,b) == Undef
Mul(a,b) == Undef
Div(a,b) == Undef
Mod(a,b) == Undef
Shl(a,s) == Undef
Shr(a,s) == Undef
Mod2k(a,k) == Undef
Lt(a,b) == Undef
Le(a,b) == Undef
FromInt(n) == Undef
BitLen(a) == Undef
Zero == <<>>
One == <<1>>
a \oplus b == Add(a,b)
a \ominus b == Sub(a,b)
a \otimes b == Mul(a,b)
====
