SPECIFICATION Spec
CONSTANTS W = 2
 Mode = "boxed"
 SIZE = 8
 BASE = 1
 MAXRED = 1
INVARIANT NoCarryTwo
CHECK_DEADLOCK FALSE
