#!/usr/bin/env python3
"""Evaluate seeded defects produced by independent sub-agents.

usage: seedeval.py <PROP> [mN ...]     (expects /tmp/mut/<PROP>/OUT/mN/{patch.diff,demo.rs,meta.json})

For each seeded change, in the scratch worktree /tmp/mut/<PROP> (never in /repo):
  1. confirm it applies, builds with --all-features and passes the repository's baseline suite;
  2. confirm its demonstration fails with the change and passes without it;
  3. run this framework's quick check for the property against the changed tree, from a private copy
     of /verif whose recorder crate points at the worktree (so /repo and /verif/work are untouched),
     and record whether a VIOLATION was raised.
Confirmed changes are stored under /verif/seeded/<PROP>-mN/.
"""
import json, os, shutil, subprocess, sys, time

VERIF = os.path.dirname(os.path.dirname(os.path.abspath(__file__)))


def sh(cmd, cwd=None, timeout=3600, env=None):
    p = subprocess.run(cmd, cwd=cwd, shell=True, stdout=subprocess.PIPE, stderr=subprocess.STDOUT, text=True, timeout=timeout, env=env)
    return p.returncode, p.stdout


def main():
    tag = sys.argv[1]                      # "C02" or "R2C02" (second round: worktree /tmp/mut/R2C02)
    prop = tag[-3:]
    rnd = tag[:-3].lower()                 # "" or "r2"
    wt = "/tmp/mut/" + tag
    out = os.path.join(wt, "OUT")
    names = sys.argv[2:] or sorted(d for d in os.listdir(out) if d.startswith("m") and os.path.isdir(os.path.join(out, d)))
    run_root = "/tmp/mutrun/" + tag
    check_props = [prop] + [p for p in os.environ.get("ALSO", "").split(",") if p]
    results = []
    for name in names:
        d = os.path.join(out, name)
        meta = json.load(open(os.path.join(d, "meta.json")))
        feats = (meta.get("features") or "").strip()
        featarg = ("--features " + ",".join(feats.replace("--features", "").replace(",", " ").split())) if feats and feats not in ("none", "-") else ""
        if os.environ.get("DEMO_RELEASE") or "release" in str(meta.get("profiles", "")).lower() and "only" in str(meta.get("profiles", "")).lower():
            featarg = (featarg + " --release").strip()          # a defect of the optimised build only: run its demonstration there
        r = dict(property=prop, name=name, summary=meta.get("summary"), site=meta.get("site"), needs=meta.get("needs"), features=feats)
        sh("git checkout -- . && rm -f tests/seeded_demo.rs examples/seeded_demo.rs", cwd=wt)
        rc, o = sh("git apply --check OUT/%s/patch.diff && git apply OUT/%s/patch.diff" % (name, name), cwd=wt)
        r["applies"] = rc == 0
        if rc != 0:
            r["error"] = o[-500:]
            results.append(r)
            continue
        env = dict(os.environ, CARGO_NET_OFFLINE="true")
        rc, o = sh("cargo build --offline --all-features 2>&1 | tail -3", cwd=wt, env=env)
        r["builds_all_features"] = "error" not in o
        rc, o = sh("cargo test --workspace --no-fail-fast --offline 2>&1 | grep -E '^test result|FAILED|failed' ", cwd=wt, env=env)
        r["baseline_passes"] = ("FAILED" not in o and "failed;" in o and all(" 0 failed" in l for l in o.splitlines() if l.startswith("test result")))
        script = os.path.exists(os.path.join(d, "demo.sh"))
        if script:
            # trace/timing demonstrations (C01): an example program plus a script that exits 1 when the traces differ
            os.makedirs(os.path.join(wt, "examples"), exist_ok=True)
            shutil.copy(os.path.join(d, "demo.rs"), os.path.join(wt, "examples", "seeded_demo.rs"))
            rc1, o1 = sh("sh OUT/%s/demo.sh 2>&1" % name, cwd=wt, env=env)
            r["demo_fails_with_change"] = rc1 == 1
        else:
            shutil.copy(os.path.join(d, "demo.rs"), os.path.join(wt, "tests", "seeded_demo.rs"))
            rc1, o1 = sh("cargo test --offline %s --test seeded_demo 2>&1" % featarg, cwd=wt, env=env)
            o1 = o1[-1500:]
            r["demo_fails_with_change"] = rc1 != 0 and ("FAILED" in o1 or "panicked" in o1 or "failed" in o1)
        # framework check against the changed tree, from a private copy of /verif
        det = {}
        for cp in check_props:
            t0 = time.time()
            os.makedirs(run_root, exist_ok=True)
            sh("rsync -a --delete --exclude work --exclude .git --exclude evidence --exclude seeded --exclude experiments %s/ %s/" % (VERIF, run_root))
            os.makedirs(os.path.join(run_root, "evidence"), exist_ok=True)
            sh("sed -i 's#path = \"/repo\"#path = \"%s\"#' harness/Cargo.toml leak/Cargo.toml" % wt, cwd=run_root)
            rc, o = sh("./check %s quick 2>&1 | cut -c1-400" % cp, cwd=run_root, env=env, timeout=5400)
            viol = [l for l in o.splitlines() if l.startswith("VIOLATION")]
            det[cp] = dict(exit=rc, violations=len(viol), tool_error=("TOOL-ERROR" in o), wall=round(time.time() - t0),
                           first=(o.splitlines()[[i for i, l in enumerate(o.splitlines()) if l.startswith("VIOLATION")][0] + 1][:300] if viol and len(o.splitlines()) > 1 else ""),
                           tail=o[-600:] if not viol else "")
        r["detected_by"] = [cp for cp in det if det[cp]["violations"] > 0]
        r["checks"] = det
        # restore and run the demo on the unchanged tree
        sh("git checkout -- .", cwd=wt)
        if script:
            rc2, o2 = sh("sh OUT/%s/demo.sh 2>&1" % name, cwd=wt, env=env)
        else:
            rc2, o2 = sh("cargo test --offline %s --test seeded_demo 2>&1" % featarg, cwd=wt, env=env)
        r["demo_passes_without_change"] = rc2 == 0
        sh("rm -f tests/seeded_demo.rs examples/seeded_demo.rs", cwd=wt)
        r["confirmed"] = bool(r["applies"] and r["builds_all_features"] and r["baseline_passes"] and r["demo_fails_with_change"] and r["demo_passes_without_change"])
        results.append(r)
        if r["confirmed"]:
            dst = os.path.join(VERIF, "seeded", "%s-%s%s" % (prop, rnd, name))
            os.makedirs(dst, exist_ok=True)
            shutil.copy(os.path.join(d, "patch.diff"), dst)
            shutil.copy(os.path.join(d, "demo.rs"), dst)
            if script:
                shutil.copy(os.path.join(d, "demo.sh"), dst)
            m2 = dict(meta, confirmed=dict(applies=True, builds_all_features=True, baseline_suite_passes=True, demo_fails_with_change=True, demo_passes_without_change=True),
                      framework=dict(checks_run=["./check %s quick" % cp for cp in check_props], detected_by=r["detected_by"],
                                     detail={cp: {k: v for k, v in det[cp].items() if k in ("exit", "violations", "tool_error", "wall", "first")} for cp in det}),
                      ran_by_me=["git apply patch.diff (scratch worktree)", "cargo build --offline --all-features", "cargo test --workspace --no-fail-fast --offline",
                                 "cargo test --offline %s --test seeded_demo (with / without the change)" % featarg] + ["./check %s quick against the changed tree" % cp for cp in check_props])
            json.dump(m2, open(os.path.join(dst, "meta.json"), "w"), indent=1)
        print(json.dumps({k: v for k, v in r.items() if k != "checks"}), flush=True)
    os.makedirs(os.path.join(VERIF, "work", "seedeval"), exist_ok=True)
    json.dump(results, open(os.path.join(VERIF, "work", "seedeval", tag + ".json"), "w"), indent=1)


if __name__ == "__main__":
    main()
