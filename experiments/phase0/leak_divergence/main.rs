use crypto_bigint::*;
use std::sync::atomic::{AtomicBool, Ordering::Relaxed};
static ON: AtomicBool = AtomicBool::new(false);
static mut EV: Vec<(u8, u64, u64)> = Vec::new();
#[inline(always)] fn ev(kind: u8, v: u64, ra: u64) { if ON.load(Relaxed) { ON.store(false, Relaxed); unsafe { (*(&raw mut EV)).push((kind, v, ra)); } ON.store(true, Relaxed); } }
macro_rules! ra { () => {{ let r: u64; unsafe { core::arch::asm!("mov {}, [rbp+8]", out(reg) r); } r }} }
#[unsafe(no_mangle)] pub extern "C" fn __sanitizer_cov_trace_pc_guard_init(start: *mut u32, stop: *mut u32) { let mut p = start; let mut i = 1u32; unsafe { while p < stop { *p = i; i += 1; p = p.add(1); } } }
#[unsafe(no_mangle)] #[inline(never)] pub extern "C" fn __sanitizer_cov_trace_pc_guard(g: *mut u32) { let r = ra!(); ev(1, unsafe{*g} as u64, r); }
macro_rules! ld { ($($n:ident),*) => { $( #[unsafe(no_mangle)] #[inline(never)] pub extern "C" fn $n(a: *const u8) { let r = ra!(); ev(2, a as u64, r); } )* } }
ld!(__sanitizer_cov_load1,__sanitizer_cov_load2,__sanitizer_cov_load4,__sanitizer_cov_load8,__sanitizer_cov_load16);
macro_rules! st { ($($n:ident),*) => { $( #[unsafe(no_mangle)] #[inline(never)] pub extern "C" fn $n(a: *const u8) { let r = ra!(); ev(3, a as u64, r); } )* } }
st!(__sanitizer_cov_store1,__sanitizer_cov_store2,__sanitizer_cov_store4,__sanitizer_cov_store8,__sanitizer_cov_store16);
#[unsafe(no_mangle)] #[inline(never)] pub extern "C" fn __sanitizer_cov_trace_div4(a: u32) { let r = ra!(); ev(4, a as u64, r); }
#[unsafe(no_mangle)] #[inline(never)] pub extern "C" fn __sanitizer_cov_trace_div8(a: u64) { let r = ra!(); ev(4, a, r); }
#[unsafe(no_mangle)] #[inline(never)] pub extern "C" fn __sanitizer_cov_trace_gep(a: usize) { let r = ra!(); ev(5, a as u64, r); }
static mut A: U256 = U256::ZERO; static mut B: U256 = U256::ZERO; static mut OUT: [U256; 2] = [U256::ZERO; 2];
#[inline(never)] fn run(f: fn(&U256, &U256) -> [U256;2], a: U256, b: U256) -> Vec<(u8,u64,u64)> {
    unsafe { A = a; B = b; (*(&raw mut EV)).clear(); (*(&raw mut EV)).reserve(100000); }
    ON.store(true, Relaxed);
    let o = unsafe { f(&*(&raw const A), &*(&raw const B)) };
    ON.store(false, Relaxed);
    unsafe { OUT = o; (*(&raw const EV)).clone() }
}
fn diff(name: &str, f: fn(&U256,&U256)->[U256;2], a1: U256, b1: U256, a2: U256, b2: U256) {
    let t1 = run(f, a1, b1); let t2 = run(f, a2, b2);
    println!("== {} len {} vs {}", name, t1.len(), t2.len());
    for i in 0..t1.len().min(t2.len()) { if (t1[i].0, t1[i].1) != (t2[i].0, t2[i].1) { println!("first divergence at event {}: {:?} vs {:?}  (kind 1=edge 2=load 3=store 4=div 5=gep) RA={:#x} / {:#x}", i, (t1[i].0,t1[i].1), (t2[i].0,t2[i].1), t1[i].2, t2[i].2);
        for j in i.saturating_sub(3)..(i+3).min(t1.len()) { println!("   [{}] {:?} RA={:#x} | {:?} RA={:#x}", j, (t1[j].0,t1[j].1), t1[j].2, (t2[j].0,t2[j].1), t2[j].2); } return; } }
    println!("no divergence");
}
fn main() {
    let p = "ffffffff00000000ffffffffffffffffbce6faada7179e84f3b9cac2fc632551";
    let _ = p;
    diff("neg_mod a=0 vs a=1", |a,_b| [a.neg_mod(&U256::from_be_hex("ffffffff00000000ffffffffffffffffbce6faada7179e84f3b9cac2fc632551")), U256::ZERO], U256::ZERO, U256::ZERO, U256::ONE, U256::ZERO);
    diff("div_rem d=3 vs d=MAX", |a,b| { let (q,r) = a.div_rem(&NonZero::new(b.bitor(&U256::ONE)).unwrap()); [q,r] }, U256::MAX, U256::from_u8(3), U256::MAX, U256::MAX);
    diff("div_rem d=3 vs d=5", |a,b| { let (q,r) = a.div_rem(&NonZero::new(b.bitor(&U256::ONE)).unwrap()); [q,r] }, U256::MAX, U256::from_u8(3), U256::MAX, U256::from_u8(5));
    println!("base {:#x}", main as usize);
}
