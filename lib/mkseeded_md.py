#!/usr/bin/env python3
"""Regenerate the table of seeded changes in DESIGN.md (between the SEEDED markers) from /verif/seeded/*/meta.json."""
import json, os, glob
V = os.path.dirname(os.path.dirname(os.path.abspath(__file__)))
rows = []
for d in sorted(glob.glob(os.path.join(V, "seeded", "*"))):
    m = json.load(open(os.path.join(d, "meta.json")))
    fw = m.get("framework", {})
    det = fw.get("detected_by", [])
    first = ""
    for cp in det:
        first = fw.get("detail", {}).get(cp, {}).get("first", "")
        break
    form = ""
    if "form=" in first:
        form = first.split("form=")[1].split(" ")[0]
    elif "operation=" in first:
        form = first.split("operation=")[1].split(":")[0]
    rows.append((os.path.basename(d), m.get("property"), (m.get("summary") or "").replace("|", "\\|").replace("\n", " ")[:230],
                 (m.get("needs") or "").replace("|", "\\|").replace("\n", " ")[:200], ", ".join("./check %s" % c for c in det) or "**missed**", form))
out = ["| seeded change | property | what was changed | what it needs to manifest | caught by | first rejected form |", "|---|---|---|---|---|---|"]
for r in rows:
    out.append("| `%s` | %s | %s | %s | %s | `%s` |" % r)
txt = "\n".join(out)
p = os.path.join(V, "DESIGN.md")
s = open(p).read()
a, b = "<!-- SEEDED-BEGIN -->", "<!-- SEEDED-END -->"
i, j = s.index(a) + len(a), s.index(b)
s = s[:i] + "\n" + txt + "\n" + s[j:]
open(p, "w").write(s)
print(len(rows), "seeded changes;", sum(1 for r in rows if "missed" in r[4]), "missed")
