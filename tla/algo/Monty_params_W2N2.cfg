SPECIFICATION Spec
CONSTANTS W = 2
 N = 2
 Mode = "params"
INVARIANT ParamsOK
CHECK_DEADLOCK FALSE
