-------------------------------- MODULE JC02 --------------------------------
(* C02 — unsigned division and remainder are exact.                         *)
(* Event class "divrem": n, d naturals; nb, db operand widths in bits;      *)
(*   z = documented zero-divisor behaviour of this form ("none" | "panic" | *)
(*   "na"); pm = "any" when the form asserts equal boxed precisions and the *)
(*   documentation is silent about mismatches (then a panic is tolerated,   *)
(*   a wrong value is not).  Outputs q and/or r; qp/rp boxed precisions.    *)
(* Event class "rem2k": n, kk -> r = n mod 2^kk.                            *)
EXTENDS BigNat

Has(e, f) == f \in DOMAIN e

DivRemOK(e) ==
  /\ e.k = "ok"
  /\ Has(e, "q") => e.q = Div(e.n, e.d)
  /\ Has(e, "r") => /\ e.r = Mod(e.n, e.d)
                    /\ Lt(e.r, e.d)
  /\ (Has(e, "q") /\ Has(e, "r")) => Add(Mul(e.q, e.d), e.r) = e.n
  /\ Has(e, "qp") => e.qp = e.nb                 \* quotient has the dividend's precision
  /\ Has(e, "rp") => e.rp = (IF Has(e, "rpn") THEN e.nb ELSE e.db)

JudgeDivRem(e) ==
  IF Has(e, "pm") /\ e.nb # e.db                \* mismatched precisions: a panic or the exact result
    THEN e.k = "panic" \/ (IF e.d = Zero THEN e.k = e.z ELSE DivRemOK(e))
  ELSE IF e.d = Zero THEN e.k = e.z             \* none / panic exactly as documented
  ELSE DivRemOK(e)

JudgeRem2k(e) ==
  /\ e.k = "ok"
  /\ e.r = (IF Ge(e.kk, FromInt(e.nb)) THEN e.n ELSE Mod2k(e.n, ToInt(e.kk)))

JudgeC02(e) ==
  CASE e.op = "divrem" -> JudgeDivRem(e)
    [] e.op = "rem2k"  -> JudgeRem2k(e)
    [] OTHER -> FALSE
=============================================================================
