SPECIFICATION Spec
CONSTANTS W = 4
 WIN = 4
 EL = 3
 MMAX = 9
 NB = 1
INVARIANT Exact
CHECK_DEADLOCK FALSE
