SPECIFICATION Spec
CONSTANTS W = 6
 LARGE = 2
 N = 3
 Radices = {2,3,4,5,6,7,8,9,10,11,12,13,14,15,16,17,18,19,20,21,22,23,24,25,26,27,28,29,30,31,32,33,34,35,36}
 Mut = 0
INVARIANT EncodeOK
INVARIANT PreOK
INVARIANT LargeShape
CHECK_DEADLOCK FALSE
