SPECIFICATION Spec
CONSTANTS BITS = 2
 MaxLen = 5
 OddDefault = "one"
INVARIANT CheckedExact
INVARIANT WrappingExact
INVARIANT WrappersValid
INVARIANT DivisorsSafe
CHECK_DEADLOCK FALSE
