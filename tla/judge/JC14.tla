-------------------------------- MODULE JC14 --------------------------------
(* C14 — every signed division flavour satisfies n = q*d + r with its sign  *)
(* convention.                                                              *)
(*                                                                          *)
(* Event class "sdiv".  Inputs: n (two's-complement pattern, nb bits); d    *)
(* (db bits: a pattern, or a natural when du = 1); fl = "trunc" | "floor";  *)
(* rb = width of the returned remainder, ru = 1 when it is returned as an   *)
(* unsigned integer; oq / or = 1 when the form yields a quotient /          *)
(* remainder; z = documented zero-divisor class ("none" | "na");            *)
(* mo = class of a quotient outside [MIN, MAX], i.e. MIN / -1:              *)
(*   "none"  documented: the quotient is reported as none                   *)
(*   "report" DivVartime and `/=` on Int return a bare Int: "the quotient   *)
(*           is reported" can only mean the panic of their `expect`; a      *)
(*           value (the wrapped quotient MIN) is not q = trunc(n/d)         *)
(*   "panic" the Wrapping forms `expect` the quotient and say nothing about *)
(*           it: the panic is tolerated, and so is the wrapped quotient     *)
(*           (the advertised meaning of Wrapping) — nothing else            *)
(*   "na"    unsigned divisor: cannot happen.                               *)
(* Outputs: q (nb bits), r (rb bits), qs = is_some of the quotient for the  *)
(* forms returning (ConstCtOption<q>, r) — there the remainder is returned  *)
(* (and judged) even when the quotient is none.                             *)
(*                                                                          *)
(*   truncating: q = trunc(n/d), sign(r) in {0, sign(n)}                    *)
(*   flooring:   q = floor(n/d), sign(r) in {0, sign(d)}  (for an unsigned  *)
(*               divisor this is the normalized remainder in [0, d))        *)
(*   always:     n = q*d + r and |r| < |d|                                  *)
EXTENDS BigNat

LOCAL Has(e, f) == f \in DOMAIN e
LOCAL Flag(b) == IF b THEN 1 ELSE 0

LOCAL Dividend(e) == SVal(e.n, e.nb)
LOCAL Divisor(e)  == IF e.du = 1 THEN [neg |-> FALSE, mag |-> e.d] ELSE SVal(e.d, e.db)

(* the mathematical quotient and remainder of the flavour, as <<Q, R>> of signed values *)
LOCAL TrueQR(e) ==
  LET n  == Dividend(e)
      d  == Divisor(e)
      q0 == Div(n.mag, d.mag)
      r0 == Mod(n.mag, d.mag)
      opp == n.neg # d.neg
  IN IF e.fl = "trunc" THEN << SMk(opp, q0), SMk(n.neg, r0) >>
     ELSE IF opp /\ r0 # Zero THEN << SMk(TRUE, Add(q0, One)), SMk(d.neg, Sub(d.mag, r0)) >>
     ELSE << SMk(opp, q0), SMk(d.neg, r0) >>

(* the observed remainder as a signed value *)
LOCAL ObsR(e) == IF e.ru = 1 THEN [neg |-> FALSE, mag |-> e.r] ELSE SVal(e.r, e.rb)

LOCAL QuotOK(e, Q) == Has(e, "q") => e.q = SEnc(Q, e.nb)
LOCAL RemOK(e, R) ==
  Has(e, "r") => IF e.ru = 1 THEN ~R.neg /\ e.r = R.mag
                 ELSE SFits(R, e.rb) /\ e.r = SEnc(R, e.rb)

(* the property as stated, on the observed outputs *)
LOCAL Identity(e) ==
  (Has(e, "q") /\ Has(e, "r")) =>
     LET n == Dividend(e)
         d == Divisor(e)
         q == SVal(e.q, e.nb)
         r == ObsR(e)
     IN /\ SAdd(SMul(q, d), r) = n
        /\ Lt(r.mag, d.mag)
        /\ r.mag = Zero \/ r.neg = (IF e.fl = "trunc" THEN n.neg ELSE d.neg)

LOCAL JudgeSDiv(e) ==
  IF Divisor(e).mag = Zero THEN e.z # "na" /\ e.k = e.z           \* none exactly as documented
  ELSE
    LET qr    == TrueQR(e)
        Q     == qr[1]
        R     == qr[2]
        qfits == SFits(Q, e.nb)
        full  == /\ e.k = "ok"
                 /\ (e.oq = 1) <=> Has(e, "q")
                 /\ (e.or = 1) <=> Has(e, "r")
                 /\ QuotOK(e, Q) /\ RemOK(e, R) /\ Identity(e)
    IN IF Has(e, "qs")                                   \* (ConstCtOption<q>, r)
         THEN /\ e.k = "ok"
              /\ e.qs = Flag(qfits)
              /\ Has(e, "q") <=> (e.qs = 1)
              /\ Has(e, "r")
              /\ QuotOK(e, Q) /\ RemOK(e, R) /\ Identity(e)
       ELSE IF e.oq = 1 /\ ~qfits                        \* MIN / -1 in a form that yields a quotient
         THEN \/ e.mo = "none" /\ e.k = "none"
              \/ e.mo = "report" /\ e.k = "panic"
              \/ e.mo = "panic" /\ (e.k = "panic" \/ (e.k = "ok" /\ Has(e, "q") /\ QuotOK(e, Q) /\ RemOK(e, R)))
       ELSE full

JudgeC14(e, rg) ==
  CASE e.op = "sdiv" -> JudgeSDiv(e)
    [] OTHER -> FALSE
=============================================================================
