SPECIFICATION Spec
CONSTANTS W = 2
 L = 4
 YC = 3
 Mode = "vartime"
INVARIANT NoTopOnly
CHECK_DEADLOCK FALSE
