------------------------------- MODULE BitScan -------------------------------
(***************************************************************************)
(* Bit queries and bit updates of multi-limb integers (C05), transcribed   *)
(* from src/uint/bits.rs at word size W, N limbs, for ALL values and ALL   *)
(* indices (including indices at and beyond the width):                    *)
(*   bit (8-22): scan of every limb with the `is_right_limb` mask          *)
(*   leading_zeros (24-38), trailing_zeros (63-77), trailing_ones (98-112):*)
(*       counts accumulated while `nonzero_limb_not_encountered` holds     *)
(*   bits_vartime (53-61), bit_vartime (41-50), trailing_*_vartime         *)
(*   set_bit (192-208): constant-time update of the one right limb         *)
(* The reference is the binary expansion of the value.                     *)
(***************************************************************************)
EXTENDS Integers, Sequences, TLC
CONSTANTS W, N, Mut          \* Mut = 1: a deliberately wrong variant (the scan forgets that a non-zero limb was seen); must be refuted
B == 2 ^ W
MAXW == B - 1
BITS == W * N

BitOf(v, i) == (v \div 2 ^ i) % 2                                \* binary expansion of a natural
RECURSIVE ValR(_, _)
ValR(s, i) == IF i = 0 THEN 0 ELSE s[i] * B ^ (i - 1) + ValR(s, i - 1)
Val(s) == ValR(s, N)

(* limb primitives: hardware count instructions by definition *)
RECURSIVE LzW(_, _)
LzW(l, k) == IF k = 0 THEN 0 ELSE IF BitOf(l, k - 1) = 1 THEN 0 ELSE 1 + LzW(l, k - 1)
LimbLz(l) == LzW(l, W)
RECURSIVE TzW(_, _)
TzW(l, k) == IF k = W THEN 0 ELSE IF BitOf(l, k) = 1 THEN 0 ELSE 1 + TzW(l, k + 1)
LimbTz(l) == TzW(l, 0)
RECURSIVE ToW(_, _)
ToW(l, k) == IF k = W THEN 0 ELSE IF BitOf(l, k) = 0 THEN 0 ELSE 1 + ToW(l, k + 1)
LimbTo(l) == ToW(l, 0)

(* bit(limbs, index): every limb is read; result |= mask(i = limb_num) & (limb & index_mask) *)
RECURSIVE BitScanR(_, _, _, _)
BitScanR(s, i, limbnum, inlimb) ==
  IF i > N THEN 0
  ELSE LET b == BitOf(s[i], inlimb) * 2 ^ inlimb                 \* limbs[i] & index_mask
           hit == IF i - 1 = limbnum THEN b ELSE 0               \* is_right_limb.if_true_word(bit)
       IN hit + BitScanR(s, i + 1, limbnum, inlimb)              \* OR of disjoint contributions = sum (at most one hit)
BitCt(s, index) == LET r == BitScanR(s, 1, index \div W, index % W) IN (r \div 2 ^ (index % W)) % 2
BitVt(s, index) == IF index \div W >= N THEN 0 ELSE BitOf(s[index \div W + 1], index % W)

(* leading_zeros: from the top limb down *)
RECURSIVE LzScan(_, _, _, _)
LzScan(s, i, count, notyet) ==
  IF i = 0 THEN count
  ELSE LET z == LimbLz(s[i])
       IN LzScan(s, i - 1, count + (IF notyet THEN z ELSE 0), IF Mut = 1 THEN notyet ELSE notyet /\ s[i] = 0)
LeadingZeros(s) == LzScan(s, N, 0, TRUE)
BitsCt(s) == BITS - LeadingZeros(s)
RECURSIVE TopIdx(_, _)
TopIdx(s, i) == IF i > 1 /\ s[i] = 0 THEN TopIdx(s, i - 1) ELSE i    \* while i > 0 && limbs[i] == 0 (0-based) 
BitsVt(s) == LET i == TopIdx(s, N) IN W * i - LimbLz(s[i])

RECURSIVE TzScan(_, _, _, _)
TzScan(s, i, count, notyet) ==
  IF i > N THEN count
  ELSE TzScan(s, i + 1, count + (IF notyet THEN LimbTz(s[i]) ELSE 0), notyet /\ s[i] = 0)
TrailingZeros(s) == TzScan(s, 1, 0, TRUE)
RECURSIVE TzVt(_, _, _)
TzVt(s, i, count) == IF i > N THEN count ELSE LET z == LimbTz(s[i]) IN IF z # W THEN count + z ELSE TzVt(s, i + 1, count + z)
TrailingZerosVt(s) == TzVt(s, 1, 0)

RECURSIVE ToScan(_, _, _, _)
ToScan(s, i, count, notyet) ==
  IF i > N THEN count
  ELSE ToScan(s, i + 1, count + (IF notyet THEN LimbTo(s[i]) ELSE 0), notyet /\ s[i] = MAXW)
TrailingOnes(s) == ToScan(s, 1, 0, TRUE)
RECURSIVE ToVt(_, _, _)
ToVt(s, i, count) == IF i > N THEN count ELSE LET z == LimbTo(s[i]) IN IF z # W THEN count + z ELSE ToVt(s, i + 1, count + z)
TrailingOnesVt(s) == ToVt(s, 1, 0)

(* set_bit(index, value): every limb rewritten, only the right one changes *)
SetInLimb(l, inlimb, v) == IF v = 1 THEN l + (1 - BitOf(l, inlimb)) * 2 ^ inlimb ELSE l - BitOf(l, inlimb) * 2 ^ inlimb
SetBitCt(s, index, v) == [i \in 1..N |-> IF i - 1 = index \div W THEN SetInLimb(s[i], index % W, v) ELSE s[i]]

(* references on the value *)
RECURSIVE BitLen(_)
BitLen(v) == IF v = 0 THEN 0 ELSE 1 + BitLen(v \div 2)
RECURSIVE Tz(_, _)
Tz(v, k) == IF k = BITS THEN 0 ELSE IF BitOf(v, k) = 1 THEN 0 ELSE 1 + Tz(v, k + 1)
RECURSIVE To(_, _)
To(v, k) == IF k = BITS THEN 0 ELSE IF BitOf(v, k) = 0 THEN 0 ELSE 1 + To(v, k + 1)

VARIABLES s, idx
Word == 0..MAXW
Init == s \in [1..N -> Word] /\ idx \in 0..(BITS + W)
Next == UNCHANGED <<s, idx>>
Spec == Init /\ [][Next]_<<s, idx>>

BitOK == /\ BitCt(s, idx) = (IF idx < BITS THEN BitOf(Val(s), idx) ELSE 0)       \* out-of-range index reads as 0
         /\ BitVt(s, idx) = BitCt(s, idx)
CountOK == /\ BitsCt(s) = BitLen(Val(s)) /\ BitsVt(s) = BitLen(Val(s))
           /\ LeadingZeros(s) = BITS - BitLen(Val(s))
           /\ TrailingZeros(s) = Tz(Val(s), 0) /\ TrailingZerosVt(s) = TrailingZeros(s)      \* BITS for zero
           /\ TrailingOnes(s) = To(Val(s), 0) /\ TrailingOnesVt(s) = TrailingOnes(s)         \* BITS for MAX
SetOK == \A v \in {0, 1} :
           LET t == SetBitCt(s, idx, v)
           IN IF idx < BITS
              THEN /\ \A j \in 0..(BITS - 1) : BitOf(Val(t), j) = (IF j = idx THEN v ELSE BitOf(Val(s), j))
              ELSE t = s                                                              \* no limb is the right limb
=============================================================================
