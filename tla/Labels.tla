------------------------------- MODULE Labels -------------------------------
(***************************************************************************)
(* Input-class labels of trace events.  A contract is only as strong as    *)
(* the inputs it is evaluated on: these predicates name the boundary       *)
(* classes the properties single out (and the ones the seeded changes of   *)
(* DESIGN §15 needed), ApiTrace counts how many recorded events fall into  *)
(* each, the driver reports the counts in the evidence file and fails      *)
(* (tool error) when a class listed as required in lib/props.py is empty   *)
(* - the vacuity guard of the recorders, in the way `-coverage` is the     *)
(* vacuity guard of a model.  Labels read INPUT fields only.                *)
(***************************************************************************)
EXTENDS BigNat, Sequences

LOCAL H(e, f) == f \in DOMAIN e
LOCAL L(c, name) == IF c THEN {name} ELSE {}
LOCAL TopLimbFull(v, bits) == bits >= 64 /\ BitLen(v) = bits               \* most significant bit of the width set

LabelsC02(e) ==
  IF e.op # "divrem" THEN {} ELSE
  L(e.d = Zero, "C02.divisor_zero")
  \cup L(e.d # Zero /\ e.n # Zero /\ Mod(e.n, e.d) = Zero, "C02.exact_multiple")
  \cup L(e.d # Zero /\ Lt(e.n, e.d), "C02.dividend_below_divisor")
  \cup L(e.d # Zero /\ BitLen(e.d) <= 64 /\ e.nb > 64, "C02.one_limb_divisor_in_wide_type")
  \cup L(e.d # Zero /\ BitLen(e.d) % 64 = 0, "C02.divisor_normalised")
  \cup L(e.d # Zero /\ BitLen(e.d) > 128, "C02.divisor_three_or_more_limbs")
  \cup L(e.nb # e.db, "C02.mixed_widths")
  \cup L(e.d # Zero /\ e.n # Zero /\ Mod(Add(e.n, One), e.d) = Zero, "C02.one_below_a_multiple")

LabelsC03(e) ==
  IF e.op \notin {"mul", "sq"} THEN {} ELSE
  L(e.a = Zero \/ (H(e, "b") /\ e.b = Zero), "C03.zero_operand")
  \cup L(e.a = Sub(Pow2(e.ab), One), "C03.all_ones_operand")
  \cup L(H(e, "b") /\ e.ab # e.bb, "C03.unequal_widths")
  \cup L(e.ab >= 1024, "C03.karatsuba_width")
  \cup L(H(e, "b") /\ BitLen(Mul(e.a, e.b)) > e.ab, "C03.product_overflows_lhs_width")
  \cup L(H(e, "b") /\ e.a # Zero /\ e.b # Zero /\ BitLen(Mul(e.a, e.b)) = e.ab, "C03.product_exactly_fills_width")

LabelsC04(e) ==
  IF e.op \notin {"add", "sub"} \/ ~H(e, "b") THEN {} ELSE
  L(e.op = "add" /\ BitLen(Add(e.a, e.b)) > e.ab, "C04.carry_out")
  \cup L(e.op = "add" /\ Add(e.a, e.b) = Sub(Pow2(e.ab), One), "C04.sum_is_max")
  \cup L(e.op = "add" /\ Add(e.a, e.b) = Pow2(e.ab), "C04.sum_is_two_to_the_width")
  \cup L(e.op = "sub" /\ Lt(e.a, e.b), "C04.borrow_out")
  \cup L(e.op = "sub" /\ e.a = e.b, "C04.difference_zero")
  \cup L(H(e, "c") /\ Gt(e.c, One), "C04.carry_in_above_one")
  \cup L(H(e, "bb") /\ e.ab > e.bb, "C04.narrower_rhs")
  \cup L(H(e, "bb") /\ e.ab < e.bb, "C04.wider_rhs")

LabelsC07(e) ==
  IF ~(H(e, "a") /\ (H(e, "m") \/ H(e, "c"))) THEN {} ELSE
  LET p == IF H(e, "c") THEN Sub(Pow2(e.bits), e.c) ELSE e.m IN
  IF p = Zero THEN {} ELSE
  L(e.op = "mulmod" /\ e.a # Zero /\ e.b # Zero /\ Mod(Mul(e.a, e.b), p) = Zero /\ Lt(e.a, p) /\ Lt(e.b, p), "C07.product_multiple_of_modulus_nonzero_operands")
  \cup L(e.op = "addmod" /\ Add(e.a, e.b) = p, "C07.sum_equals_modulus")
  \cup L(e.op = "submod" /\ e.a = e.b, "C07.difference_zero")
  \cup L(e.op = "submod" /\ Lt(e.a, e.b), "C07.difference_negative")
  \cup L(e.op = "mulmod" /\ (Ge(e.a, p) \/ Ge(e.b, p)), "C07.unreduced_multiplicand")
  \cup L(p = One, "C07.modulus_one")
  \cup L(p = Sub(Pow2(e.bits), One), "C07.modulus_all_ones")
  \cup L(H(e, "c") /\ e.c = Sub(Pow2(64), One), "C07.special_c_max")
  \cup L(BitLen(p) <= e.bits - 64, "C07.modulus_with_zero_high_limb")

(* Montgomery reduction of the product of two stored representatives xa, xb (HAC 14.32): the value before the final   *)
(* conditional subtraction is wide = (T + ((T * k) mod R) * m) / R with T = xa * xb, k = -m^-1 mod R; it lies in     *)
(* [0, 2m).  The classes: the subtraction is taken; wide is exactly m (the result is 0 only if the comparison is    *)
(* non-strict); wide >= R (the meta-carry word is set).                                                              *)
LOCAL MontWide(xa, xb, m, bits) ==
  LET R == Pow2(bits)
      inv == ModInv(Mod2k(m, bits), R)
      k == Mod2k(Sub(R, inv[2]), bits)
      T == Mul(xa, xb)
      u == Mod2k(Mul(Mod2k(T, bits), k), bits)
  IN Shr(Add(T, Mul(u, m)), bits)
LOCAL C08Red(e, rg) ==
  IF e.sop \notin {"mul", "mulobj", "square", "squareobj"} \/ e.m = One THEN {} ELSE
  LET R == Pow2(e.bits)
      A == rg[e.a]
      B == IF e.sop \in {"square", "squareobj"} THEN A ELSE rg[e.b]
      wide == MontWide(Mod(Mul(A, R), e.m), Mod(Mul(B, R), e.m), e.m, e.bits)
  IN L(Ge(wide, e.m), "C08.reduction_final_subtraction_taken")
     \cup L(wide = e.m, "C08.reduction_value_exactly_modulus")
     \cup L(Ge(wide, R), "C08.reduction_meta_carry")
     \cup L(A # Zero /\ B # Zero /\ Mod(Mul(A, B), e.m) = Zero, "C08.product_zero_nonzero_operands")

LabelsC08(e, rg0) ==
  IF e.op = "step" THEN
    C08Red(e, IF H(e, "reset") THEN <<>> ELSE rg0) \cup
    L(e.m = One, "C08.modulus_one")
    \cup L(BitLen(e.m) = e.bits, "C08.modulus_top_bit_set")
    \cup L(e.m = Sub(Pow2(e.bits), One), "C08.modulus_all_ones")
    \cup L(BitLen(e.m) <= e.bits - 64, "C08.modulus_with_zero_high_limb")
    \cup L(e.sop = "halve", "C08.halve")
    \cup L(e.sop \in {"mulobj", "squareobj"}, "C08.multiplier_object")
    \cup L(e.sop = "select", "C08.select")
  ELSE IF e.op = "params" THEN
    L(e.bits - BitLen(e.m) = 64, "C08.params_exactly_64_leading_zeros")
    \cup L(e.bits - BitLen(e.m) > 64, "C08.params_more_than_64_leading_zeros")
    \cup L(e.m = One, "C08.params_modulus_one")
  ELSE {}

LabelsC09(e) ==
  IF e.op = "pow" THEN
    L(e.kk = 0, "C09.bound_zero")
    \cup L(e.kk % 4 # 0, "C09.bound_not_multiple_of_window")
    \cup L(e.kk % 64 = 0 /\ e.kk > 0, "C09.bound_at_limb_boundary")
    \cup L(BitLen(e.e) > e.kk, "C09.exponent_has_bits_above_bound")
    \cup L(e.eb # e.bits, "C09.exponent_width_differs_from_base")
    \cup L(Mod(e.b, e.m) = Zero, "C09.base_zero")
    \cup L(e.bits - BitLen(e.m) = 1, "C09.modulus_one_leading_zero")
    \cup L(e.k = "ok" /\ e.rt = Zero /\ Mod(e.b, e.m) # Zero /\ e.m # One, "C09.power_of_nonzero_base_is_zero")
  ELSE IF e.op = "lincomb" THEN
    LET lz == e.bits - BitLen(e.m) IN
    L(lz >= 1 /\ lz < 6 /\ Len(e.xs) > 2 ^ lz, "C09.more_terms_than_one_window")
    \cup L(lz >= 1 /\ lz < 6 /\ Len(e.xs) = 2 ^ lz, "C09.terms_fill_one_window_exactly")
    \cup L(Len(e.xs) = 1, "C09.single_term")
    \cup L(e.k = "ok" /\ e.rt = Zero /\ e.m # One /\ (\E i \in 1..Len(e.xs) : e.xs[i] # Zero /\ e.ys[i] # Zero), "C09.sum_of_nonzero_products_is_zero")
  ELSE IF e.op = "mexp" THEN
    L(Len(e.bs) >= 2 /\ e.kk % 4 # 0, "C09.multi_exp_partial_top_window")
  ELSE {}

LabelsC10(e) ==
  IF e.op = "inv" THEN
    L(Mod2k(e.m, 1) = Zero, "C10.even_modulus")
    \cup L(e.m = One, "C10.modulus_one")
    \cup L(Ge(e.a, e.m) /\ ~(H(e, "sg") /\ e.sg = 1), "C10.operand_not_below_modulus")
    \cup L(e.a = Zero, "C10.operand_zero")
    \cup L(e.m # Zero /\ Mod2k(e.m, 64) = Zero, "C10.modulus_divisible_by_2_to_64")
    \cup L(H(e, "adj"), "C10.adjusted_inverter")
  ELSE IF e.op = "gcd" THEN
    L(e.a = Zero \/ e.b = Zero, "C10.gcd_with_zero")
    \cup L(e.a = e.b, "C10.gcd_equal_operands")
    \cup L((H(e, "sa") /\ e.sa = 1) \/ (H(e, "sb") /\ e.sb = 1), "C10.gcd_signed")
  ELSE IF e.op = "inv2k" THEN
    L(e.kk = 0, "C10.inv2k_k_zero") \cup L(e.kk = e.bits, "C10.inv2k_k_full_width")
  ELSE {}

LabelsC14(e) ==
  IF e.op # "sdiv" THEN {} ELSE
  L(e.n = Pow2(e.nb - 1), "C14.dividend_min")
  \cup L(H(e, "du") /\ e.du = 1, "C14.unsigned_divisor")
  \cup L(e.nb # e.db, "C14.mixed_widths")
  \cup L(e.fl = "floor", "C14.flooring")
  \cup L(e.d = Zero, "C14.divisor_zero")

LabelsC20(e) ==
  IF ~H(e, "x") THEN {} ELSE
  LET s == ISqrt(e.x) IN
  L(Mul(s, s) = e.x /\ e.x # Zero, "C20.perfect_square")
  \cup L(Mul(Add(s, One), Add(s, One)) = Add(e.x, One), "C20.one_below_a_square")
  \cup L(e.x = Zero, "C20.zero")
  \cup L(H(e, "xb") /\ e.x = Sub(Pow2(e.xb), One), "C20.max")

LabelsC05(e) ==
  IF e.op \in {"shl", "shr"} THEN
    LET sv == IF Fits(e.s, 31) THEN ToInt(e.s) ELSE 2147483647 IN
    L(sv = 0, "C05.shift_zero")
    \cup L(sv = e.w, "C05.shift_equals_width")
    \cup L(sv > e.w, "C05.shift_above_width")
    \cup L(sv = e.w - 1, "C05.shift_width_minus_one")
    \cup L(sv > 0 /\ sv < e.w /\ sv % 64 = 0, "C05.shift_whole_limbs")
    \cup L(H(e, "sg") /\ e.sg = 1 /\ BitLen(e.x) = e.w, "C05.negative_signed_operand")
  ELSE IF e.op \in {"and", "or", "xor"} THEN
    L(H(e, "aw"), "C05.bitwise_mixed_precision")
    \cup L(H(e, "aw") /\ BitLen(e.a) > BitLen(e.b) + 64, "C05.bitwise_left_operand_longer_by_a_limb")
  ELSE IF e.op = "bit" THEN L(Ge(e.i, FromInt(e.w)), "C05.bit_index_out_of_range")
  ELSE {}

LabelsC06(e) ==
  IF e.op = "cmp" THEN
    L(e.a = e.b, "C06.equal_operands")
    \cup L(e.ab # e.bb, "C06.different_precisions")
    \cup L(H(e, "sg") /\ e.sg = 1, "C06.signed")
    \cup L(e.ab # e.bb /\ e.a = e.b, "C06.equal_values_of_different_precision")
  ELSE IF e.op = "sel" THEN L(e.ch = 1, "C06.choice_one") \cup L(e.ch = 0, "C06.choice_zero")
  ELSE {}

LabelsC13(e) ==
  IF ~(H(e, "a") /\ H(e, "ab")) THEN {} ELSE
  L(e.a = Pow2(e.ab - 1), "C13.operand_min")
  \cup L(e.a = Sub(Pow2(e.ab - 1), One), "C13.operand_max")
  \cup L(e.a = Sub(Pow2(e.ab), One), "C13.operand_minus_one")
  \cup L(H(e, "bb") /\ e.ab # e.bb, "C13.mixed_widths")
  \cup L(H(e, "bu") /\ e.bu = 1, "C13.unsigned_rhs")

LabelsC17(e) ==
  IF e.op = "parse" THEN
    L(Len(e.s) > 0 /\ e.s[1] = 43, "C17.leading_plus")
    \cup L(\E i \in 1..Len(e.s) : e.s[i] = 95, "C17.has_separator")
    \cup L(Len(e.s) > 1 /\ e.s[1] = 48, "C17.leading_zero")
    \cup L(Len(e.s) = 0, "C17.empty")
    \cup L(e.radix \notin {2, 4, 16}, "C17.generic_radix")
    \cup L(e.radix \in {2, 4, 16}, "C17.limb_aligned_radix")
  ELSE IF e.op = "fmt" THEN L(e.x = Zero, "C17.format_zero") \cup L(e.bits > 2048, "C17.format_above_32_limbs")
  ELSE {}

LabelsC19(e) ==
  IF e.op = "rbits" THEN
    L(e.bl = Zero, "C19.bit_length_zero")
    \cup L(e.bl = FromInt(e.tb), "C19.bit_length_equals_width")
    \cup L(Gt(e.bl, e.prec), "C19.bit_length_above_precision")
    \cup L(e.ty = "fixed" /\ e.prec # FromInt(e.tb), "C19.precision_mismatch")
  ELSE IF e.op = "rmod" THEN
    L(e.m = One, "C19.modulus_one") \cup L(BitLen(e.m) % 64 = 0, "C19.modulus_top_bit_set") \cup L(H(e, "fail"), "C19.exhausted_stream")
  ELSE {}

LabelsC12(e) ==
  L(e.op = "mk" /\ H(e, "x") /\ e.x = Zero, "C12.from_zero")
  \cup L(e.op = "mk" /\ H(e, "x") /\ H(e, "w") /\ e.w = "odd" /\ e.x # Zero /\ Mod2k(e.x, 1) = Zero, "C12.odd_from_even_nonzero")
  \cup L(e.op = "random", "C12.random")
  \cup L(e.op = "decode", "C12.decode")
  \cup L(e.op = "serde", "C12.serde")
  \cup L(e.op = "select", "C12.select")
  \cup L(e.op = "widen", "C12.widen")

LabelsC15(e) ==
  IF e.op # "grp" THEN {} ELSE
  L(e.cls \in {"cadd", "padd"} /\ ~Fits(Add(e.a, e.b), e.bits), "C15.add_overflows")
  \cup L(e.cls \in {"cmul", "pmul"} /\ ~Fits(Mul(e.a, e.b), e.bits), "C15.mul_overflows")
  \cup L(e.cls \in {"shl", "shr", "wshl"} /\ e.s >= e.bits, "C15.shift_at_or_above_width")
  \cup L(e.cls = "invmod" , "C15.inversion_group")
  \cup L(e.cls = "mulmod" /\ H(e, "m") /\ e.a # Zero /\ e.b # Zero /\ Mod(Mul(e.a, e.b), e.m) = Zero, "C15.mulmod_product_multiple_of_modulus")
  \cup L(e.cls = "konst", "C15.constant_group")
  \cup L(e.cls = "same", "C15.const_vs_runtime_group")
  \cup L(e.cls \in {"powmod", "powk"}, "C15.pow_group")

LabelsC16(e) ==
  L(e.op = "bdec" /\ e.prec % 64 # 0, "C16.boxed_decode_unaligned_precision")
  \cup L(e.op = "bdec" /\ Len(e.src) * 8 > e.prec, "C16.boxed_decode_input_longer_than_precision")
  \cup L(e.op = "hexdec" /\ H(e, "bad"), "C16.hex_decode")
  \cup L(e.op = "bresize" /\ e.tb % 64 # 0, "C16.boxed_resize_unaligned_target")
  \cup L(e.op = "sext" /\ e.yb > e.xb /\ BitLen(e.x) = e.xb, "C16.sign_extension_of_negative")
  \cup L(e.op = "trunc" /\ e.yb < e.xb, "C16.truncating_resize")
  \cup L(e.op \in {"concat", "split"}, "C16.concat_split")
  \cup L(e.op \in {"ser", "de"}, "C16.serde")

LabelsC18(e) ==
  L(e.op = "der_dec" /\ Len(e.src) = 0, "C18.der_empty_input")
  \cup L(e.op = "der_dec" /\ Len(e.src) >= 3 /\ e.src[1] = 2 /\ e.src[3] >= 128, "C18.der_negative_content")
  \cup L(e.op = "der_dec" /\ Len(e.src) >= 4 /\ e.src[1] = 2 /\ e.src[3] = 0 /\ e.src[4] < 128, "C18.der_superfluous_leading_zero")
  \cup L(e.op = "der_dec" /\ Len(e.src) >= 2 /\ e.src[1] = 2 /\ e.src[2] = 0, "C18.der_zero_length")
  \cup L(e.op = "der_dec" /\ Len(e.src) >= 2 /\ e.src[1] = 2 /\ e.src[2] > 128, "C18.der_long_form_length")
  \cup L(e.op = "der_dec" /\ Len(e.src) >= 1 /\ e.src[1] # 2, "C18.der_wrong_tag")
  \cup L(e.op = "der_enc" /\ BitLen(e.x) % 8 = 0 /\ e.x # Zero, "C18.der_value_needs_leading_zero_octet")
  \cup L(e.op = "rlp_dec" /\ Len(e.src) = 1 /\ e.src[1] < 128, "C18.rlp_single_octet_item")
  \cup L(e.op = "rlp_dec" /\ Len(e.src) >= 2 /\ e.src[1] > 128 /\ e.src[1] < 184 /\ e.src[2] = 0, "C18.rlp_leading_zero_payload")
  \cup L(e.op = "rlp_dec" /\ Len(e.src) >= 1 /\ e.src[1] >= 184 /\ e.src[1] < 192, "C18.rlp_long_form")
  \cup L(e.op = "rlp_dec" /\ Len(e.src) >= 1 /\ e.src[1] >= 192, "C18.rlp_list")

LabelsOf(e, rg) ==
  CASE e.p = "C02" -> LabelsC02(e)
    [] e.p = "C03" -> LabelsC03(e)
    [] e.p = "C04" -> LabelsC04(e)
    [] e.p = "C05" -> LabelsC05(e)
    [] e.p = "C06" -> LabelsC06(e)
    [] e.p = "C07" -> LabelsC07(e)
    [] e.p = "C08" -> LabelsC08(e, rg)
    [] e.p = "C09" -> LabelsC09(e)
    [] e.p = "C10" -> LabelsC10(e)
    [] e.p = "C12" -> LabelsC12(e)
    [] e.p = "C13" -> LabelsC13(e)
    [] e.p = "C14" -> LabelsC14(e)
    [] e.p = "C15" -> LabelsC15(e)
    [] e.p = "C16" -> LabelsC16(e)
    [] e.p = "C17" -> LabelsC17(e)
    [] e.p = "C18" -> LabelsC18(e)
    [] e.p = "C19" -> LabelsC19(e)
    [] e.p = "C20" -> LabelsC20(e)
    [] OTHER -> {}
=============================================================================
