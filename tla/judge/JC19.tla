-------------------------------- MODULE JC19 --------------------------------
(* C19 — contract of the recorded events of this property (stub).           *)
EXTENDS BigNat

JudgeC19(e, rg) == FALSE
=============================================================================
