SPECIFICATION Spec
CONSTANTS Q = 3
 LB = 2
 MaxLen = 4
 MaxPrec = 14
 Mut = 0
INVARIANT BEOK
INVARIANT LEOK
INVARIANT RoundTripOK
CHECK_DEADLOCK FALSE
