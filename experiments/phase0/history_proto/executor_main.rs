use crypto_bigint::{*, modular::*};
use serde_json::{json, Value};
use std::io::{BufRead, Write};
fn le(b: &[u8]) -> Vec<u8> { let mut v = b.to_vec(); while v.last() == Some(&0) { v.pop(); } v }
trait M: Monty + Clone { fn bytes(x: &Self::Integer) -> Vec<u8>; fn from_bytes(b: &[u8], like: &Self::Integer) -> Self::Integer; }
impl M for MontyForm<4> { fn bytes(x: &U256) -> Vec<u8> { le(&x.to_le_bytes()) } fn from_bytes(b: &[u8], _l: &U256) -> U256 { let mut a = [0u8; 32]; a[..b.len()].copy_from_slice(b); U256::from_le_slice(&a) } }
impl M for BoxedMontyForm { fn bytes(x: &BoxedUint) -> Vec<u8> { le(&x.to_le_bytes()) } fn from_bytes(b: &[u8], l: &BoxedUint) -> BoxedUint { BoxedUint::from_le_slice(b, l.bits_precision()).unwrap() } }
fn role_val(role: &str, m: &[u8], k: usize) -> Vec<u8> {
    // little-endian bytes of the role's value given modulus bytes (computed with u128 for this probe: moduli < 2^120)
    let mut mm = [0u8; 16]; mm[..m.len().min(16)].copy_from_slice(&m[..m.len().min(16)]); let m = u128::from_le_bytes(mm);
    let v = match role { "zero" => 0, "one" => 1 % m, "m-1" => m - 1, "half+" => (m + 1) / 2 % m, "half-" => (m - 1) / 2, _ => (0x9E3779B97F4A7C15F39CC0605CEDC834u128.wrapping_mul(k as u128 + 1)) % m };
    le(&v.to_le_bytes())
}
fn run<T: M>(ty: &str, prog: &Value, modulus: T::Integer, out: &mut impl Write) where T::Integer: Clone {
    let params = T::new_params_vartime(Odd::new(modulus.clone()).unwrap());
    let mb = T::bytes(&modulus);
    let mut regs: Vec<T> = Vec::new();
    for (k, st) in prog.as_array().unwrap().iter().enumerate() {
        let op = st["op"].as_str().unwrap();
        let a = st.get("a").and_then(|x| x.as_u64()).map(|i| regs[i as usize - 1].clone());
        let b = st.get("b").and_then(|x| x.as_u64()).map(|i| regs[i as usize - 1].clone());
        let mut ev = json!({"ty": ty, "op": op, "m": mb, "step": k + 1});
        let r: T = match op {
            "new" => { let v = role_val(st["role"].as_str().unwrap(), &mb, k); ev["val"] = json!(v); T::new(T::from_bytes(&v, &modulus), params.clone()) }
            "neg" => -a.unwrap(), "double" => a.unwrap().double(), "square" => a.unwrap().square(), "halve" => a.unwrap().div_by_2(),
            "add" => a.unwrap() + b.unwrap(), "sub" => a.unwrap() - b.unwrap(), "mul" => a.unwrap() * b.unwrap(), _ => unreachable!() };
        if let Some(i) = st.get("a") { ev["a"] = i.clone(); } if let Some(i) = st.get("b") { ev["b"] = i.clone(); }
        ev["mform"] = json!(T::bytes(r.as_montgomery())); ev["retr"] = json!(T::bytes(&r.retrieve()));
        ev["first"] = json!(k == 0);
        writeln!(out, "{}", ev).unwrap();
        regs.push(r);
    }
}
fn main() {
    let stdin = std::io::stdin(); let mut out = std::io::BufWriter::new(std::io::stdout());
    let moduli: Vec<u128> = vec![1, 3, (1u128 << 64) - 1, (1u128 << 63) + 1, 0xffff_ffff_ffff_ffff_ffff_ffff_ffc5, 1_000_003];
    for (n, line) in stdin.lock().lines().enumerate() {
        let prog: Value = serde_json::from_str(&line.unwrap()).unwrap();
        let m = moduli[n % moduli.len()];
        run::<MontyForm<4>>("MontyForm<4>", &prog, U256::from_u128(m), &mut out);
        run::<BoxedMontyForm>("BoxedMontyForm", &prog, BoxedUint::from(m), &mut out);
    }
}
