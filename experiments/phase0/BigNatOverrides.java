import java.math.BigInteger;
import tlc2.overrides.TLAPlusOperator;
import tlc2.overrides.ITLCOverrides;
import tlc2.value.impl.*;
import tlc2.tool.EvalException;

public class BigNatOverrides implements ITLCOverrides {
  @Override public Class[] get() { return new Class[]{ BigNatOverrides.class }; }
  static BigInteger dec(Value v) {
    TupleValue t = (TupleValue) v.toTuple();
    int n = t.elems.length;
    if (n == 0) return BigInteger.ZERO;
    byte[] be = new byte[n+1];
    for (int i = 0; i < n; i++) be[n - i] = (byte) ((IntValue) t.elems[i]).val;
    return new BigInteger(be);
  }
  static final Value[] BYTES = new Value[256];
  static { for (int i = 0; i < 256; i++) BYTES[i] = IntValue.gen(i); }
  static Value enc(BigInteger x) {
    if (x.signum() < 0) throw new RuntimeException("BigNat: negative result");
    if (x.signum() == 0) return new TupleValue(new Value[0]);
    byte[] be = x.toByteArray();
    int start = 0; while (start < be.length && be[start] == 0) start++;
    int n = be.length - start;
    Value[] el = new Value[n];
    for (int i = 0; i < n; i++) el[i] = BYTES[be[be.length-1-i] & 0xff];
    return new TupleValue(el);
  }
  static int iv(Value v) { return ((IntValue) v).val; }
  @TLAPlusOperator(identifier="Add", module="BigNat", warn=false) public static Value Add(Value a, Value b) { return enc(dec(a).add(dec(b))); }
  @TLAPlusOperator(identifier="Sub", module="BigNat", warn=false) public static Value Sub(Value a, Value b) { return enc(dec(a).subtract(dec(b))); }
  @TLAPlusOperator(identifier="Mul", module="BigNat", warn=false) public static Value Mul(Value a, Value b) { return enc(dec(a).multiply(dec(b))); }
  @TLAPlusOperator(identifier="Div", module="BigNat", warn=false) public static Value Div(Value a, Value b) { return enc(dec(a).divide(dec(b))); }
  @TLAPlusOperator(identifier="Mod", module="BigNat", warn=false) public static Value Mod(Value a, Value b) { return enc(dec(a).mod(dec(b))); }
  @TLAPlusOperator(identifier="Shl", module="BigNat", warn=false) public static Value Shl(Value a, Value s) { return enc(dec(a).shiftLeft(iv(s))); }
  @TLAPlusOperator(identifier="Shr", module="BigNat", warn=false) public static Value Shr(Value a, Value s) { return enc(dec(a).shiftRight(iv(s))); }
  @TLAPlusOperator(identifier="Mod2k", module="BigNat", warn=false) public static Value Mod2k(Value a, Value k) { return enc(dec(a).mod(BigInteger.ONE.shiftLeft(iv(k)))); }
  @TLAPlusOperator(identifier="Lt", module="BigNat", warn=false) public static Value Lt(Value a, Value b) { return dec(a).compareTo(dec(b)) < 0 ? BoolValue.ValTrue : BoolValue.ValFalse; }
  @TLAPlusOperator(identifier="Le", module="BigNat", warn=false) public static Value Le(Value a, Value b) { return dec(a).compareTo(dec(b)) <= 0 ? BoolValue.ValTrue : BoolValue.ValFalse; }
  @TLAPlusOperator(identifier="FromInt", module="BigNat", warn=false) public static Value FromInt(Value a) { return enc(BigInteger.valueOf(iv(a))); }
  @TLAPlusOperator(identifier="BitLen", module="BigNat", warn=false) public static Value BitLen(Value a) { return IntValue.gen(dec(a).bitLength()); }
}
