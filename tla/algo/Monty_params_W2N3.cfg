SPECIFICATION Spec
CONSTANTS W = 2
 N = 3
 Mode = "params"
INVARIANT ParamsOK
CHECK_DEADLOCK FALSE
