SPECIFICATION Spec
CONSTANTS BITS = 8
 ZeroFix = TRUE
INVARIANT Inv2kOK
INVARIANT InvModOK
CHECK_DEADLOCK FALSE
