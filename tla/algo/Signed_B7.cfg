SPECIFICATION Spec
CONSTANTS BITS = 7
 FloorSign = "divisor"
INVARIANT AddOK
INVARIANT SubOK
INVARIANT NegOK
INVARIANT AbsOK
INVARIANT MulOK
INVARIANT TruncOK
INVARIANT FloorOK
CHECK_DEADLOCK FALSE
