SPECIFICATION Spec
CONSTANTS W = 2
 N = 2
 T = 1
INVARIANT Exact
CHECK_DEADLOCK FALSE
