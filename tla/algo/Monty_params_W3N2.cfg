SPECIFICATION Spec
CONSTANTS W = 3
 N = 2
 Mode = "params"
INVARIANT ParamsOK
CHECK_DEADLOCK FALSE
