---- MODULE Amm ----
EXTENDS Naturals, Sequences, TLC
CONSTANTS W, N
B == 2^W
R == B^N
Limbs(v) == [i \in 1..N |-> (v \div B^(i-1)) % B]
RECURSIVE ValR(_,_)
ValR(x,i) == IF i = 0 THEN 0 ELSE x[i]*B^(i-1) + ValR(x,i-1)
Val(x) == ValR(x, N)
\* -m^-1 mod B
NegInv(m0) == CHOOSE k \in 0..B-1 : (k * m0 + 1) % B = 0
\* add_mul_carry(z, x, y): z += x*y, returns carry  (z has N limbs)
RECURSIVE AddMul(_,_,_,_,_)
AddMul(z, x, y, i, c) == IF i > N THEN <<z, c>>
   ELSE LET t == z[i] + x[i]*y + c IN AddMul([z EXCEPT ![i] = t % B], x, y, i+1, t \div B)
\* add_mul_carry_and_shift(z, x, y): z = (z + x*y) / B (dropping lowest limb which is zero), returns carry
RECURSIVE AddMulShift(_,_,_,_,_)
AddMulShift(z, x, y, i, c) == IF i > N THEN <<z, c>>
   ELSE LET t == z[i] + x[i]*y + c
        IN AddMulShift(IF i = 1 THEN z ELSE [z EXCEPT ![i-1] = t % B], x, y, i+1, t \div B)
RECURSIVE Row(_,_,_,_,_,_,_)
Row(z, x, y, m, k, i, ts) ==
  IF i > N THEN <<z, ts>>
  ELSE LET a == AddMul(z, x, y[i], 1, 0)
           s1 == ts + a[2]
           ts0 == s1 % B
           ts1 == s1 \div B
           t == (a[1][1] * k) % B
           b == AddMulShift(a[1], m, t, 1, 0)
           s2 == ts0 + b[2]
           z2 == [b[1] EXCEPT ![N] = s2 % B]
       IN Row(z2, x, y, m, k, i+1, (ts1 + (s2 \div B)) % B)
Amm(xv, yv, mv) ==
  LET m == Limbs(mv)
      r == Row([i \in 1..N |-> 0], Limbs(xv), Limbs(yv), m, NegInv(m[1]), 1, 0)
      zv == Val(r[1])
  IN [z |-> IF r[2] % 2 = 1 THEN (zv + R - mv) % R ELSE zv, ts |-> r[2], raw |-> zv + r[2]*R]
f(v, m) == v \div m
VARIABLES x, y, m, out
Init == /\ m \in {mm \in 1..R-1 : mm % 2 = 1} /\ x \in 0..R-1 /\ y \in 0..R-1 /\ out = <<>>
Next == out = <<>> /\ out' = Amm(x, y, m) /\ UNCHANGED <<x,y,m>>
Spec == Init /\ [][Next]_<<x,y,m,out>>
Done == out # <<>>
\* basic: congruent and below R, ts in {0,1}
Congruent == Done => ((out.z * R) % m = (x * y) % m /\ out.z < R /\ out.ts \in {0,1})
\* raw value < R + m (doc: smaller than 2^(nW) + m)
RawBound == Done => out.raw < R + m
Claim1 == Done => f(out.z, m) <= (IF f(x,m) < f(y,m) THEN f(x,m) ELSE f(y,m)) + 1
Claim2 == (Done /\ y = 1) => f(out.z, m) = 0
Claim3 == (Done /\ x = y) => f(out.z, m) <= 1
\* what mul_assign needs: canonical inputs => one conditional subtraction suffices
CanonOneSub == (Done /\ x < m /\ y < m) => out.z < 2*m
RetrieveCanon == (Done /\ y = 1 /\ x < m) => out.z < m
Claim3Full == (Done /\ x = y /\ m >= R \div 2) => f(out.z, m) <= 1
Claim2NonMult == (Done /\ y = 1 /\ (x % m # 0 \/ x = 0)) => f(out.z, m) = 0
====
