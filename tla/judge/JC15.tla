-------------------------------- MODULE JC15 --------------------------------
(* C15 — contract of the recorded events of this property (stub).           *)
EXTENDS BigNat

JudgeC15(e, rg) == FALSE
=============================================================================
