SPECIFICATION Spec
CONSTANTS W = 3
 L = 3
 YC = 1
 Mode = "limb"
INVARIANT Exact
INVARIANT PreHolds
INVARIANT PreHoldsEverywhere
CHECK_DEADLOCK FALSE
