#!/usr/bin/env python3
"""Regenerate /verif/MANIFEST.json from the table below (kept valid at all times)."""
import json, os, subprocess
V = os.path.dirname(os.path.dirname(os.path.abspath(__file__)))
TECH = "TLA+ contracts (BigNat) evaluated by TLC on every recorded call of the real crate (trace validation, two build profiles) + exhaustive TLC model checking of the transcribed algorithm at small word size"
NOTE = "Trusted: TLC 1.8 + JDK BigInteger behind the BigNat overrides (self-tested against the TLA+ reference definitions in setup), the recorder's generic logging code, x86_64 only. R1 is exhaustive only at word sizes 2-4 bits; at W=64 the contract is checked on the recorded (structured, constructive, exhaustive-small-parameter) inputs, not on all inputs."
CLAIMED = {
    "C02": ("model_checking", "Every recorded division/remainder call (about 90 k per quick run over ~130 forms, fixed 1..64 limbs and boxed 1..70 limbs, structured and constructive q*d+r inputs that take Knuth add-back) is validated by TLC against q = floor(n/d), r = n - q*d, 0 <= r < d, none/panic exactly for d = 0; the transcription of div_rem / div_rem_vartime / limb division is model-checked for ALL inputs at W in {2,3,4} with a vacuity guard that add-back is reachable.", "7 C02"),
}
NA = {}
PENDING = "check not built yet in this session (framework under construction); see DESIGN.md section 13"


def main():
    props = [json.loads(l)["id"] for l in open(os.path.join(V, "properties.jsonl"))]
    commits = []
    try:
        out = subprocess.run(["git", "-C", "/repo", "log", "--format=%H %s"], capture_output=True, text=True).stdout
        commits = [l.split()[0] for l in out.splitlines() if l.split(" ", 1)[1].startswith("verif-hooks:")]
    except Exception:
        pass
    checks = []
    for p in props:
        if p in CLAIMED:
            cat, text, ref = CLAIMED[p]
            checks.append(dict(property_id=p, quick_cmd="./check %s quick" % p, thorough_cmd="./check %s thorough" % p,
                               evidence_file="/verif/evidence/%s.json" % p, replay_cmd_template="./check %s --replay {path}" % p,
                               engine="tlc-trace-validation", level_claimed=dict(category=cat, text=text, design_ref=ref),
                               level_note=NOTE, technique=TECH))
    na = [dict(property_id=p, reason=NA.get(p, PENDING)) for p in props if p not in CLAIMED]
    m = dict(version=1, setup_cmd="./setup.sh",
             hooks=dict(guard="crypto_bigint_verif", enable="harness/.cargo/config.toml passes --cfg crypto_bigint_verif to rustc for /repo and the recorders",
                        baseline_off_cmd="cd /repo && cargo test --workspace --no-fail-fast --offline", source_commits=commits, add_only=True),
             engines=[dict(name="tlc-trace-validation", path="/verif/check", serves_properties=sorted(CLAIMED),
                           kind_free_text="explicit TLA+ specification (tla/*.tla): contracts over BigNat checked by TLC on traces recorded from the real code (tla/ApiTrace.tla), plus exhaustive small-word-size model checking of algorithm transcriptions (tla/algo/*)")],
             checks=checks, notes="See DESIGN.md. known_findings.json lists genuine defects (fixed or open).", not_applicable=na)
    json.dump(m, open(os.path.join(V, "MANIFEST.json"), "w"), indent=1)


if __name__ == "__main__":
    main()
