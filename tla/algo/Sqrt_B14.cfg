SPECIFICATION Spec
CONSTANTS BITS = 14
 ROUNDS_DELTA = 2
INVARIANT CtExact
INVARIANT VartimeExact

CHECK_DEADLOCK FALSE
