----------------------------- MODULE KnuthD_MC -----------------------------
(* Exhaustive design-level check of the division algorithms at small word   *)
(* size: every dividend of L words and every non-zero divisor of L words    *)
(* (ct), every divisor with exactly YC significant words (vartime).         *)
EXTENDS KnuthD, Naturals, TLC
CONSTANTS L, YC, Mode                 \* Mode: "ct" | "vartime" | "limb" | "remwide" (dividend of 2L words, divisor of L words with YC significant)
VARIABLES n, d, out

NatLimbs(k) == [1..k -> 0..(2 ^ W - 1)]
ToBN(x) == [i \in 1..Len(x) |-> FromInt(x[i])]
NonZeroSeq(x) == \E i \in 1..Len(x) : x[i] # 0

Init == /\ n \in NatLimbs(IF Mode = "remwide" THEN 2 * L ELSE L)
        /\ d \in IF Mode = "ct" THEN {dd \in NatLimbs(L) : NonZeroSeq(dd)}
                 ELSE IF Mode \in {"vartime", "remwide"} THEN {dd \in NatLimbs(YC) : dd[YC] # 0}
                 ELSE {dd \in NatLimbs(1) : dd[1] # 0}
        /\ out = <<>>
Run == IF Mode = "ct" THEN DivRemCT(ToBN(n), ToBN(d), L)
       ELSE IF Mode = "vartime" THEN DivRemVartime(ToBN(n), ToBN(d), L, YC)
       ELSE IF Mode = "remwide" THEN LET o == RemWideVartime(ToBN(SubSeq(n, 1, L)), ToBN(SubSeq(n, L + 1, 2 * L)), ToBN(d) \o [i \in 1..(L - YC) |-> Zero], L)
                                     IN [q |-> Div(Val(ToBN(n)), Val(ToBN(d))), r |-> o.r, path |-> o.path]      \* no quotient is produced
       ELSE LET o == DivRemLimb(ToBN(n), FromInt(d[1])) IN [q |-> o.q, r |-> o.r, path |-> <<>>]
Next == out = <<>> /\ out' = Run /\ UNCHANGED <<n, d>>
Spec == Init /\ [][Next]_<<n, d, out>>

nv == Val(ToBN(n))
dv == Val(ToBN(d))
Exact == out # <<>> => /\ out.q = Div(nv, dv)
                       /\ out.r = Mod(nv, dv)
                       /\ Add(Mul(out.q, dv), out.r) = nv /\ Lt(out.r, dv)
(* the quotient estimate is never more than one too large when add-back fires, *)
(* and div2by1's precondition (a debug_assert in the code) holds at every call *)
(* whose result is used                                                        *)
PreHolds == out # <<>> => \A i \in 1..Len(out.path) :
              (Mode = "ct" /\ out.path[i][5]) \/ out.path[i][4]
(* ... and also on discarded calls (a debug_assert there would still fire)     *)
PreHoldsEverywhere == out # <<>> => /\ \A i \in 1..Len(out.path) : out.path[i][4]
                                    /\ (Mode = "ct" => out.tailpre)
(* vacuity: these must be violated (reachable) for the model to be exercising the rare paths *)
NoAddBack == out # <<>> => \A i \in 1..Len(out.path) : ~out.path[i][3]
NoQMaxed  == out # <<>> => \A i \in 1..Len(out.path) : ~out.path[i][1]
NoTopOnly == (Mode = "vartime" /\ out # <<>>) => \A i \in 1..Len(out.path) : ~out.path[i][5]   \* add-back seen in x_hi - carry alone
=============================================================================
