--------------------------------- MODULE Mul ---------------------------------
(***************************************************************************)
(* Transcription of the crate's multiplication algorithms at word size W.  *)
(*  Mode "fixed": UintKaratsubaMul::<SIZE>::multiply                       *)
(*     (src/uint/mul/karatsuba.rs:37-114): |x0-x1|*|y1-y0| with sign mask, *)
(*     ones'-complement trick, the multi-carry recombination; recursion    *)
(*     down to a schoolbook base of BASE limbs.  Integers are numbers; the *)
(*     carry words of the recombination are tracked exactly.               *)
(*  Mode "boxed": karatsuba_mul_limbs on limb sequences                    *)
(*     (karatsuba.rs:176-292) with the thresholds scaled down              *)
(*     (MAXRED limbs instead of 24): even-sized core, trailing limbs of    *)
(*     the left and of the right operand through adc_mul_limbs (392-416),  *)
(*     final carry ripple.  Pinned = TRUE reproduces the pinned tree's     *)
(*     `carry.wrapping_add(carry2)` in adc_mul_limbs (repaired in §11.1):  *)
(*     Exact is then violated — the design-level witness of that defect.   *)
(* TLC explores ALL operands.                                              *)
(***************************************************************************)
EXTENDS Integers, Sequences, TLC
CONSTANTS W, Mode, SIZE, BASE, LL, RL, MAXRED, Pinned
B == 2 ^ W

(* ---- fixed-size Karatsuba on values ------------------------------------ *)
Adc(a, b, c, H) == <<(a + b + c) % H, (a + b + c) \div H>>
Not(a, H) == H - 1 - a
RECURSIVE KMul(_, _, _)
KMul(x, y, size) ==                                         \* <<lo, hi>>, each `size` limbs
  LET F == B ^ size IN
  IF size <= BASE THEN <<(x * y) % F, (x * y) \div F>>
  ELSE
  LET h == size \div 2   H == B ^ h
      x0 == x % H   x1 == x \div H   y0 == y % H   y1 == y \div H
      l0b == x0 < x1   l1b == y1 < y0                        \* borrows of the two subtractions
      l0 == IF l0b THEN x1 - x0 ELSE x0 - x1                 \* select(l0, wrapping_neg(l0), borrow)
      l1 == IF l1b THEN y0 - y1 ELSE y1 - y0
      z1 == KMul(l0, l1, h)
      neg == l0b # l1b
      r0i == IF neg THEN Not(0, H) ELSE 0
      r1i == IF neg THEN Not(z1[1], H) ELSE z1[1]
      r2i == IF neg THEN Not(z1[2], H) ELSE z1[2]
      r3i == IF neg THEN Not(0, H) ELSE 0
      z0 == KMul(x0, y0, h)   z2 == KMul(x1, y1, h)
      a1 == Adc(r0i, z0[1], IF neg THEN 1 ELSE 0, H)          \* res.0 += z0.0 + carry
      a2 == Adc(r1i, z0[2], a1[2], H)                          \* res.1 += z0.1
      a3 == Adc(a2[1], z0[1], 0, H)                            \* res.1 += z0.0           (carry2)
      a4 == Adc(r2i, z0[2], (a2[2] + a3[2]) % B, H)            \* res.2 += z0.1 + carry.wrapping_add(carry2)
      a5 == Adc(a3[1], z2[1], 0, H)                            \* res.1 += z2.0           (carry2)
      a6 == Adc(a4[1], z2[2], a5[2], H)                        \* res.2 += z2.1 + carry2
      c7 == (a4[2] + a6[2]) % B
      a8 == Adc(a6[1], z2[1], 0, H)                            \* res.2 += z2.0           (carry2)
      a9 == Adc(r3i, z2[2], (c7 + a8[2]) % B, H)               \* res.3 += z2.1 + carries; final carry dropped
  IN <<a1[1] + a5[1] * H, a8[1] + a9[1] * H>>
(* the word-sized carry accumulators of the recombination never wrap (they are added with wrapping_add) *)
CarriesSmall(x, y, size) ==
  LET h == size \div 2 H == B ^ h IN size <= BASE \/ B > 2     \* with B = 2 a sum of two carry bits would wrap

(* ---- boxed multiplication with trailing limbs on limb sequences -------- *)
RECURSIVE ValR(_, _)
ValR(s, i) == IF i = 0 THEN 0 ELSE s[i] * B ^ (i - 1) + ValR(s, i - 1)
Val(s) == ValR(s, Len(s))
Limbs(v, n) == [i \in 1..n |-> (v \div B ^ (i - 1)) % B]

RECURSIVE MacRow(_, _, _, _, _, _)
MacRow(out, xi, rhs, off, j, c2) ==                           \* inner loop of adc_mul_limbs: out[off+j] mac
  IF j > Len(rhs) THEN <<out, c2>>
  ELSE LET t == out[off + j] + xi * rhs[j] + c2
       IN MacRow([out EXCEPT ![off + j] = t % B], xi, rhs, off, j + 1, t \div B)
RECURSIVE AdcMulRows(_, _, _, _, _, _)
AdcMulRows(out, lhs, rhs, base, i, carry) ==                  \* adc_mul_limbs(lhs, rhs, out[base..]): returns <<out, carry>>
  IF i > Len(lhs) THEN <<out, carry>>
  ELSE LET r   == MacRow(out, lhs[i], rhs, base + i - 1, 1, 0)
           k   == base + i - 1 + Len(rhs) + 1                 \* out[i + j] after the inner loop (1-based)
           o   == r[1]
           t   == IF Pinned THEN o[k] + ((carry + r[2]) % B)   \* carry = carry.wrapping_add(carry2); adc(ZERO, carry)
                            ELSE o[k] + r[2] + carry          \* adc(carry2, carry)
       IN AdcMulRows([o EXCEPT ![k] = t % B], lhs, rhs, base, i + 1, t \div B)
RECURSIVE Ripple(_, _, _)
Ripple(out, i, carry) == IF i > Len(out) THEN out
                         ELSE LET t == out[i] + carry IN Ripple([out EXCEPT ![i] = t % B], i + 1, t \div B)

BoxedMul(lhs, rhs) ==
  LET overlap == IF Len(lhs) < Len(rhs) THEN Len(lhs) ELSE Len(rhs)
      size == IF overlap % 2 = 1 THEN overlap - 1 ELSE overlap
      n == Len(lhs) + Len(rhs)
      zero == [i \in 1..n |-> 0]
  IN IF size <= MAXRED THEN AdcMulRows(zero, lhs, rhs, 0, 1, 0)[1]
     ELSE
     LET x == SubSeq(lhs, 1, size)   xt == SubSeq(lhs, size + 1, Len(lhs))
         y == SubSeq(rhs, 1, size)   yt == SubSeq(rhs, size + 1, Len(rhs))
         core == KMul(Val(x), Val(y), size)                    \* the even-sized Karatsuba core (same recombination, Mode "fixed")
         out0 == [i \in 1..n |-> IF i <= 2 * size THEN ((core[1] + core[2] * B ^ size) \div B ^ (i - 1)) % B ELSE 0]
         out1 == IF xt = <<>> THEN out0 ELSE AdcMulRows(out0, xt, rhs, size, 1, 0)[1]
         endp == 2 * size + Len(yt)
         r2   == AdcMulRows(out1, yt, x, size, 1, 0)
     IN IF yt = <<>> THEN out1 ELSE Ripple(r2[1], endp + 1, r2[2])

VARIABLES x, y
Word == 0..B - 1
Init == IF Mode = "fixed" THEN x \in 0..B ^ SIZE - 1 /\ y \in 0..B ^ SIZE - 1
        ELSE x \in [1..LL -> Word] /\ y \in [1..RL -> Word]
Next == UNCHANGED <<x, y>>
Spec == Init /\ [][Next]_<<x, y>>

Exact == IF Mode = "fixed" THEN LET r == KMul(x, y, SIZE) IN r[1] + r[2] * B ^ SIZE = x * y
         ELSE Val(BoxedMul(x, y)) = Val(x) * Val(y)
=============================================================================
