//! C11 recorder: the hostile-argument pass.  Every option/result-returning operation is called with
//! argument values "whatsoever" at admissible widths: zero moduli and divisors, oversized shifts and
//! bit counts, empty / oversized / garbage encodings, the numeral "0", degenerate boxed values.
//! Event class `tot`: `exp` is the documented expectation for this call:
//!   "nopanic"  the operation reports failure through its option/result type (or is total): it must return
//!   "panic"    the doc comment says it panics for this argument
//!   "any"      the documentation is silent for this argument
//! Only totality is judged here; values are judged by the other properties' checks.
use vh::cb::modular::{BoxedMontyForm, BoxedMontyParams, MontyForm, MontyParams};
use vh::cb::subtle::CtOption;
use vh::cb::{BoxedUint, CheckedAdd, CheckedDiv, CheckedMul, CheckedSub, Encoding, Gcd, Int, Integer, InvMod, Limb, NonZero, Odd, RandomBits, SquareRoot, Uint, U128, U256, U64};
use vh::*;

fn tot(cx: &mut Cx, form: &str, exp: &str, args: &[(&str, &[u64])], f: impl FnOnce()) {
    let mut ev = Ev::new("tot", form).s("exp", exp);
    for (k, v) in args { ev = ev.n(k, v); }
    cx.call(ev, || { f(); O::ok() });
}
fn totb(cx: &mut Cx, form: &str, exp: &str, bytes: &[u8], extra: i64, f: impl FnOnce()) {
    let ev = Ev::new("tot", form).s("exp", exp).b("bytes", bytes).i("x", extra);
    cx.call(ev, || { f(); O::ok() });
}
fn sink<T>(t: T) { std::hint::black_box(&t); }
struct ZeroRng;
impl vh::cb::rand_core::RngCore for ZeroRng {
    fn next_u32(&mut self) -> u32 { 0 }
    fn next_u64(&mut self) -> u64 { 0 }
    fn fill_bytes(&mut self, dst: &mut [u8]) { dst.fill(0) }
}

fn hostile_values(r: &mut Rng, n: usize) -> Vec<Vec<u64>> {
    let mut v = vec![vec![0; n], fit(vec![1], n), fit(vec![2], n), vec![MAX; n], { let mut t = vec![0; n]; t[n - 1] = TOP; t }, { let mut t = vec![MAX; n]; t[0] = MAX - 1; t }];
    for _ in 0..3 { v.push(nat(r, n)); }
    v
}

macro_rules! uint_ops { ($cx:expr, $N:literal) => {{
    let cx: &mut Cx = $cx;
    const N: usize = $N;
    let vals = hostile_values(&mut cx.rng, N);
    let shifts: [u32; 8] = [0, 1, 63, 64 * N as u32 - 1, 64 * N as u32, 64 * N as u32 + 1, 1 << 31, u32::MAX];
    for a in &vals {
        let x = u::<N>(a);
        for b in &vals {
            let y = u::<N>(b);
            let args: [(&str, &[u64]); 2] = [("a", a), ("b", b)];
            tot(cx, "uint.inv_mod", "nopanic", &args, || sink(Option::<Uint<N>>::from(x.inv_mod(&y))));
            tot(cx, "uint.InvMod", "nopanic", &args, || sink(Option::<Uint<N>>::from(InvMod::inv_mod(&x, &y))));
            tot(cx, "uint.checked_div", "nopanic", &args, || sink(Option::<Uint<N>>::from(x.checked_div(&y))));
            tot(cx, "uint.checked_rem", "nopanic", &args, || sink(Option::<Uint<N>>::from(x.checked_rem(&y))));
            tot(cx, "uint.CheckedDiv", "nopanic", &args, || sink(Option::<Uint<N>>::from(CheckedDiv::checked_div(&x, &y))));
            tot(cx, "uint.checked_add", "nopanic", &args, || sink(Option::<Uint<N>>::from(CheckedAdd::checked_add(&x, &y))));
            tot(cx, "uint.checked_sub", "nopanic", &args, || sink(Option::<Uint<N>>::from(CheckedSub::checked_sub(&x, &y))));
            tot(cx, "uint.checked_mul", "nopanic", &args, || sink(Option::<Uint<N>>::from(CheckedMul::checked_mul(&x, &y))));
            tot(cx, "uint.saturating_add", "nopanic", &args, || sink(x.saturating_add(&y)));
            tot(cx, "uint.saturating_sub", "nopanic", &args, || sink(x.saturating_sub(&y)));
            tot(cx, "uint.saturating_mul", "nopanic", &args, || sink(x.saturating_mul(&y)));
            tot(cx, "uint.wrapping_add", "nopanic", &args, || sink(x.wrapping_add(&y)));
            tot(cx, "uint.wrapping_mul", "nopanic", &args, || sink(x.wrapping_mul(&y)));
            tot(cx, "uint.gcd", "nopanic", &args, || sink(x.gcd(&y)));
            tot(cx, "uint.Gcd.gcd_vartime", "nopanic", &args, || sink(Gcd::gcd_vartime(&x, &y)));
            tot(cx, "uint.add_mod_special", "any", &args, || sink(x.add_mod_special(&y, Limb(MAX))));
            if !is_zero(b) {
                tot(cx, "uint.wrapping_rem_vartime", "nopanic", &args, || sink(x.wrapping_rem_vartime(&y)));
            } else {
                tot(cx, "uint.wrapping_rem_vartime", "panic", &args, || sink(x.wrapping_rem_vartime(&y)));
                tot(cx, "uint.op_div_uint", "panic", &args, || sink(x / y));
                tot(cx, "uint.op_rem_uint", "panic", &args, || sink(x % y));
            }
            // special modulus 2^BITS - c with c = MAX and operands anywhere (inside the domain when < p)
            if b[0] != 0 {
                let c = Limb(b[0]);
                let p = vsub(&vpow2(64 * N), &[b[0]]);
                let inside = N > 1 && vcmp(a, &p).is_lt();
                tot(cx, "uint.mul_mod_special", if inside { "nopanic" } else { "any" }, &[("a", a), ("c", &[b[0]])], || sink(x.mul_mod_special(&x, c)));
            }
        }
        for s in shifts {
            let sv = [s as u64];
            let args: [(&str, &[u64]); 2] = [("a", a), ("s", &sv)];
            tot(cx, "uint.overflowing_shl", "nopanic", &args, || sink(Option::<Uint<N>>::from(x.overflowing_shl(s))));
            tot(cx, "uint.overflowing_shr", "nopanic", &args, || sink(Option::<Uint<N>>::from(x.overflowing_shr(s))));
            tot(cx, "uint.overflowing_shl_vartime", "nopanic", &args, || sink(Option::<Uint<N>>::from(x.overflowing_shl_vartime(s))));
            tot(cx, "uint.overflowing_shr_vartime", "nopanic", &args, || sink(Option::<Uint<N>>::from(x.overflowing_shr_vartime(s))));
            tot(cx, "uint.wrapping_shl", "nopanic", &args, || sink(x.wrapping_shl(s)));
            tot(cx, "uint.wrapping_shr", "nopanic", &args, || sink(x.wrapping_shr(s)));
            tot(cx, "uint.wrapping_shl_vartime", "nopanic", &args, || sink(x.wrapping_shl_vartime(s)));
            tot(cx, "uint.wrapping_shr_vartime", "nopanic", &args, || sink(x.wrapping_shr_vartime(s)));
            tot(cx, "uint.overflowing_shl_vartime_wide", "nopanic", &args, || sink(Option::<(Uint<N>, Uint<N>)>::from(Uint::<N>::overflowing_shl_vartime_wide((x, x), s))));
            tot(cx, "uint.overflowing_shr_vartime_wide", "nopanic", &args, || sink(Option::<(Uint<N>, Uint<N>)>::from(Uint::<N>::overflowing_shr_vartime_wide((x, x), s))));
            tot(cx, "uint.shl", if s < 64 * N as u32 { "nopanic" } else { "panic" }, &args, || sink(x.shl(s)));
            tot(cx, "uint.shr", if s < 64 * N as u32 { "nopanic" } else { "panic" }, &args, || sink(x.shr(s)));
            tot(cx, "uint.rem2k_vartime", "nopanic", &args, || sink(x.rem2k_vartime(s)));
            let kexp = if s <= 64 * N as u32 { "nopanic" } else { "any" };
            tot(cx, "uint.inv_mod2k", kexp, &args, || sink(Option::<Uint<N>>::from(x.inv_mod2k(s))));
            tot(cx, "uint.inv_mod2k_vartime", kexp, &args, || sink(Option::<Uint<N>>::from(x.inv_mod2k_vartime(s))));
            tot(cx, "uint.bit", "nopanic", &args, || sink(x.bit(s)));
            tot(cx, "uint.bit_vartime", "nopanic", &args, || sink(x.bit_vartime(s)));
        }
        let a1: [(&str, &[u64]); 1] = [("a", a)];
        tot(cx, "uint.sqrt", "nopanic", &a1, || sink(x.sqrt()));
        tot(cx, "uint.sqrt_vartime", "nopanic", &a1, || sink(x.sqrt_vartime()));
        tot(cx, "uint.checked_sqrt", "nopanic", &a1, || sink(Option::<Uint<N>>::from(x.checked_sqrt())));
        tot(cx, "uint.checked_sqrt_vartime", "nopanic", &a1, || sink(Option::<Uint<N>>::from(x.checked_sqrt_vartime())));
        tot(cx, "uint.SquareRoot", "nopanic", &a1, || sink(SquareRoot::sqrt(&x)));
        tot(cx, "uint.to_nz", "nopanic", &a1, || sink(Option::<NonZero<Uint<N>>>::from(x.to_nz())));
        tot(cx, "uint.to_odd", "nopanic", &a1, || sink(Option::<Odd<Uint<N>>>::from(x.to_odd())));
        tot(cx, "uint.bits", "nopanic", &a1, || sink((x.bits(), x.bits_vartime(), x.leading_zeros(), x.trailing_zeros(), x.trailing_ones(), x.trailing_zeros_vartime(), x.trailing_ones_vartime(), x.leading_zeros_vartime())));
        tot(cx, "uint.carrying_neg", "nopanic", &a1, || sink(x.carrying_neg()));
        tot(cx, "uint.checked_square", "nopanic", &a1, || sink(Option::<Uint<N>>::from(x.checked_square())));
        tot(cx, "uint.to_string_radix_vartime", "nopanic", &a1, || sink(x.to_string_radix_vartime(10)));
        // Montgomery parameters for any odd modulus, inversion of anything
        if a[0] & 1 == 1 {
            let o = odd::<N>(a).unwrap();
            tot(cx, "MontyParams::new_vartime+inv", "nopanic", &a1, || { let p = MontyParams::<N>::new_vartime(o); for b in hostile_values(&mut Rng::new(1), N) { let f = MontyForm::<N>::new(&u::<N>(&b), p); sink(Option::<MontyForm<N>>::from(f.inv())); sink(Option::<MontyForm<N>>::from(f.inv_vartime())); sink(f.pow_bounded_exp(&x, 0)); sink(f.div_by_2()); } });
        }
        // signed
        let xi = si::<N>(a);
        for b in &vals {
            let yi = si::<N>(b);
            let args: [(&str, &[u64]); 2] = [("a", a), ("b", b)];
            tot(cx, "int.checked_div", "nopanic", &args, || sink(Option::<Int<N>>::from(xi.checked_div(&yi))));
            tot(cx, "int.checked_div_vartime", "nopanic", &args, || sink(Option::<Int<N>>::from(xi.checked_div_vartime(&yi))));
            tot(cx, "int.checked_div_floor", "nopanic", &args, || sink(Option::<Int<N>>::from(xi.checked_div_floor(&yi))));
            tot(cx, "int.checked_add", "nopanic", &args, || sink(Option::<Int<N>>::from(xi.checked_add(&yi))));
            tot(cx, "int.checked_sub", "nopanic", &args, || sink(Option::<Int<N>>::from(xi.checked_sub(&yi))));
            tot(cx, "int.checked_mul", "nopanic", &args, || sink(Option::<Int<N>>::from(xi.checked_mul(&yi))));
            tot(cx, "int.gcd", "nopanic", &args, || sink(Gcd::gcd(&xi, &yi)));
            if !is_zero(b) {
                let nzy = Option::<NonZero<Int<N>>>::from(NonZero::new(yi)).unwrap();
                tot(cx, "int.checked_div_rem", "nopanic", &args, || { let (q, r) = xi.checked_div_rem(&nzy); sink((Option::<Int<N>>::from(q), r)) });
                tot(cx, "int.checked_div_rem_floor", "nopanic", &args, || { let (q, r) = xi.checked_div_rem_floor(&nzy); sink((Option::<Int<N>>::from(q), r)) });
                tot(cx, "int.rem", "nopanic", &args, || sink(xi.rem(&nzy)));
            }
        }
        tot(cx, "int.checked_neg", "nopanic", &a1, || sink(Option::<Int<N>>::from(xi.checked_neg())));
        tot(cx, "int.abs_sign", "nopanic", &a1, || sink(xi.abs_sign()));
        tot(cx, "int.checked_square", "nopanic", &a1, || sink(Option::<Uint<N>>::from(xi.checked_square())));
        for s in shifts {
            let sv = [s as u64];
            let args: [(&str, &[u64]); 2] = [("a", a), ("s", &sv)];
            tot(cx, "int.overflowing_shr", "nopanic", &args, || sink(Option::<Int<N>>::from(xi.overflowing_shr(s))));
            tot(cx, "int.wrapping_shr", "nopanic", &args, || sink(xi.wrapping_shr(s)));
            tot(cx, "int.overflowing_shl", "nopanic", &args, || sink(Option::<Int<N>>::from(xi.overflowing_shl(s))));
            tot(cx, "int.wrapping_shl", "nopanic", &args, || sink(xi.wrapping_shl(s)));
        }
    }
}}; }

fn boxed_ops(cx: &mut Cx) {
    for n in [1usize, 2, 3, 5] {
        let vals = hostile_values(&mut cx.rng, n);
        let bits = 64 * n as u32;
        let shifts: [u32; 7] = [0, 1, bits - 1, bits, bits + 1, 1 << 31, u32::MAX];
        for a in &vals {
            let x = bx(a);
            for b in &vals {
                let y = bx(b);
                let args: [(&str, &[u64]); 2] = [("a", a), ("b", b)];
                tot(cx, "boxed.inv_mod", "nopanic", &args, || sink(Option::<BoxedUint>::from(x.inv_mod(&y))));
                tot(cx, "boxed.checked_div", "nopanic", &args, || sink(Option::<BoxedUint>::from(x.checked_div(&y))));
                tot(cx, "boxed.checked_add", "nopanic", &args, || sink(Option::<BoxedUint>::from(x.checked_add(&y))));
                tot(cx, "boxed.checked_sub", "nopanic", &args, || sink(Option::<BoxedUint>::from(x.checked_sub(&y))));
                tot(cx, "boxed.checked_mul", "nopanic", &args, || sink(Option::<BoxedUint>::from(x.checked_mul(&y))));
                tot(cx, "boxed.gcd", "nopanic", &args, || sink(x.gcd(&y)));
                tot(cx, "boxed.wrapping_mul", "nopanic", &args, || sink(x.wrapping_mul(&y)));
                tot(cx, "boxed.cmp", "nopanic", &args, || sink((x.cmp(&y), x.cmp_vartime(&y), x == y)));
            }
            for s in shifts {
                let sv = [s as u64];
                let args: [(&str, &[u64]); 2] = [("a", a), ("s", &sv)];
                tot(cx, "boxed.overflowing_shl", "nopanic", &args, || sink(x.overflowing_shl(s)));
                tot(cx, "boxed.overflowing_shr", "nopanic", &args, || sink(x.overflowing_shr(s)));
                tot(cx, "boxed.wrapping_shl", "nopanic", &args, || sink(x.wrapping_shl(s)));
                tot(cx, "boxed.wrapping_shr", "nopanic", &args, || sink(x.wrapping_shr(s)));
                tot(cx, "boxed.wrapping_shl_vartime", "nopanic", &args, || sink(x.wrapping_shl_vartime(s)));
                tot(cx, "boxed.wrapping_shr_vartime", "nopanic", &args, || sink(x.wrapping_shr_vartime(s)));
                tot(cx, "boxed.shl_vartime", "nopanic", &args, || sink(x.shl_vartime(s)));
                tot(cx, "boxed.shr_vartime", "nopanic", &args, || sink(x.shr_vartime(s)));
                // k far beyond the precision is undocumented and loops for 2^32 rounds: not generated
                if s <= bits + 64 {
                    let kexp = if s <= bits { "nopanic" } else { "any" };
                    tot(cx, "boxed.inv_mod2k", kexp, &args, || sink(x.inv_mod2k(s)));
                    tot(cx, "boxed.inv_mod2k_vartime", kexp, &args, || sink(x.inv_mod2k_vartime(s)));
                }
                tot(cx, "boxed.try_random_bits", "nopanic", &args, || { let mut r = ZeroRng; sink(BoxedUint::try_random_bits(&mut r, s.min(1 << 20)).is_ok()) });
            }
            let a1: [(&str, &[u64]); 1] = [("a", a)];
            tot(cx, "boxed.sqrt", "nopanic", &a1, || sink((x.sqrt(), x.sqrt_vartime())));
            tot(cx, "boxed.checked_sqrt", "nopanic", &a1, || sink(Option::<BoxedUint>::from(x.checked_sqrt())));
            tot(cx, "boxed.to_odd", "nopanic", &a1, || sink(Option::<Odd<BoxedUint>>::from(x.to_odd())));
            tot(cx, "boxed.bits", "nopanic", &a1, || sink((x.bits(), x.bits_vartime(), x.leading_zeros(), x.trailing_zeros(), x.trailing_ones(), x.is_zero())));
            tot(cx, "boxed.to_string_radix_vartime", "nopanic", &a1, || sink(x.to_string_radix_vartime(7)));
            tot(cx, "boxed.resize", "nopanic", &a1, || sink((x.widen(bits + 64), x.shorten(64))));
            if a[0] & 1 == 1 {
                let o = oddb(a).unwrap();
                tot(cx, "BoxedMontyParams+invert", "nopanic", &a1, || { let p = BoxedMontyParams::new(o.clone()); for b in hostile_values(&mut Rng::new(1), n) { let f = BoxedMontyForm::new(bx(&b), p.clone()); sink(Option::<BoxedMontyForm>::from(f.invert())); sink(f.pow_bounded_exp(&x, 0)); sink(f.div_by_2()); } });
            }
        }
    }
}

/// degenerate boxed values reachable through safe constructors, then every unary operation
fn degenerate(cx: &mut Cx) {
    let routes: Vec<(&str, Box<dyn Fn() -> BoxedUint>)> = vec![
        ("from_words(empty)", Box::new(|| BoxedUint::from_words(Vec::<u64>::new()))),
        ("From<&[Limb]>(empty)", Box::new(|| BoxedUint::from(&[] as &[Limb]))),
        ("From<Vec<Limb>>(empty)", Box::new(|| BoxedUint::from(Vec::<Limb>::new()))),
        ("From<Box<[Limb]>>(empty)", Box::new(|| BoxedUint::from(Vec::<Limb>::new().into_boxed_slice()))),
        ("From<Vec<Word>>(empty)", Box::new(|| BoxedUint::from(Vec::<u64>::new()))),
        ("widen(0).shorten(0)", Box::new(|| BoxedUint::zero().shorten(0))),
        ("from_str_radix_vartime(0)", Box::new(|| BoxedUint::from_str_radix_vartime("0", 10).unwrap())),
        ("from_be_slice(empty,0)", Box::new(|| BoxedUint::from_be_slice(&[], 0).unwrap())),
        ("from_le_slice(empty,0)", Box::new(|| BoxedUint::from_le_slice(&[], 0).unwrap())),
        ("zero_with_precision(0)", Box::new(|| BoxedUint::zero_with_precision(0))),
        ("one_with_precision(0)", Box::new(|| BoxedUint::one_with_precision(0))),
        ("max(0)", Box::new(|| BoxedUint::max(0))),
        ("shorten(0)", Box::new(|| BoxedUint::from(5u64).shorten(0))),
    ];
    for (name, mk) in routes.iter() {
        let mut made: Option<BoxedUint> = None;
        cx.call(Ev::new("tot", &format!("degenerate.{}", name)).s("exp", "nopanic"), || { made = Some(mk()); O::ok() });
        let Some(x) = made else { continue };
        let nl = x.nlimbs() as i64;
        let un: Vec<(&str, Box<dyn Fn(&BoxedUint)>)> = vec![
            ("bits", Box::new(|x| sink(x.bits()))), ("bits_vartime", Box::new(|x| sink(x.bits_vartime()))), ("leading_zeros", Box::new(|x| sink(x.leading_zeros()))),
            ("trailing_zeros", Box::new(|x| sink(x.trailing_zeros()))), ("is_zero", Box::new(|x| sink(x.is_zero()))), ("is_odd", Box::new(|x| sink(x.is_odd()))),
            ("to_string_radix_vartime", Box::new(|x| sink(x.to_string_radix_vartime(10)))), ("to_be_bytes", Box::new(|x| sink(x.to_be_bytes()))),
            ("cmp_vartime", Box::new(|x| sink(x.cmp_vartime(&BoxedUint::one())))), ("cmp", Box::new(|x| sink(x.cmp(&BoxedUint::one())))), ("eq", Box::new(|x| sink(*x == BoxedUint::zero()))),
            ("wrapping_neg", Box::new(|x| sink(x.wrapping_neg()))), ("sqrt", Box::new(|x| sink(x.sqrt()))), ("sqrt_vartime", Box::new(|x| sink(x.sqrt_vartime()))),
            ("wrapping_shl(0)", Box::new(|x| sink(x.wrapping_shl(0)))), ("wrapping_shr(0)", Box::new(|x| sink(x.wrapping_shr(0)))), ("overflowing_shl(1)", Box::new(|x| sink(x.overflowing_shl(1)))),
            ("square", Box::new(|x| sink(x.square()))), ("mul", Box::new(|x| sink(x.mul(x)))), ("wrapping_add", Box::new(|x| sink(x.wrapping_add(x)))),
            ("checked_add(one)", Box::new(|x| sink(Option::<BoxedUint>::from(x.checked_add(&BoxedUint::one()))))), ("to_odd", Box::new(|x| sink(Option::<Odd<BoxedUint>>::from(x.to_odd())))),
            ("display", Box::new(|x| sink(format!("{} {:x} {:?}", x, x, x)))), ("widen(64)", Box::new(|x| sink(x.widen(64)))), ("clone_eq", Box::new(|x| sink(x.clone() == *x))),
            ("gcd(one)", Box::new(|x| sink(x.gcd(&BoxedUint::one())))), ("NonZero::new", Box::new(|x| sink(Option::<NonZero<BoxedUint>>::from(NonZero::new(x.clone()))))),
        ];
        for (uname, f) in un.iter() {
            cx.call(Ev::new("tot", &format!("degenerate.{}.{}", name, uname)).s("exp", "nopanic").i("nl", nl), || { f(&x); O::ok() });
        }
    }
}

fn decoders(cx: &mut Cx, iters: usize) {
    use der::Decode;
    for it in 0..iters {
        let len = cx.rng.below(42);
        let mut bytes: Vec<u8> = (0..len).map(|_| match cx.rng.below(5) { 0 => 0, 1 => 0xff, 2 => 0x80, _ => cx.rng.next() as u8 }).collect();
        if it % 3 == 0 && len >= 2 { bytes[0] = 0x02; bytes[1] = (len - 2) as u8; }
        if it % 7 == 0 && len >= 3 { bytes[0] = 0x02; bytes[1] = 0x81; bytes[2] = (len - 3) as u8; }
        let prec = cx.rng.pick(&[0u32, 1, 8, 63, 64, 65, 128, 200, 256]);
        totb(cx, "boxed.from_be_slice", "nopanic", &bytes, prec as i64, || sink(BoxedUint::from_be_slice(&bytes, prec).is_ok()));
        totb(cx, "boxed.from_le_slice", "nopanic", &bytes, prec as i64, || sink(BoxedUint::from_le_slice(&bytes, prec).is_ok()));
        totb(cx, "der.from_der.U64", "nopanic", &bytes, 64, || sink(U64::from_der(&bytes).is_ok()));
        totb(cx, "der.from_der.U128", "nopanic", &bytes, 128, || sink(U128::from_der(&bytes).is_ok()));
        totb(cx, "der.from_der.U256", "nopanic", &bytes, 256, || sink(U256::from_der(&bytes).is_ok()));
        totb(cx, "rlp.decode.U64", "nopanic", &bytes, 64, || sink(vh::cb::rlp::decode::<U64>(&bytes).is_ok()));
        totb(cx, "rlp.decode.U256", "nopanic", &bytes, 256, || sink(vh::cb::rlp::decode::<U256>(&bytes).is_ok()));
        totb(cx, "serde.json.U64", "nopanic", &bytes, 64, || sink(serde_json::from_slice::<U64>(&bytes).is_ok()));
        totb(cx, "serde.bincode.U128", "nopanic", &bytes, 128, || sink(bincode::deserialize::<U128>(&bytes).is_ok()));
        totb(cx, "serde.bincode.NonZero<U64>", "nopanic", &bytes, 64, || sink(bincode::deserialize::<NonZero<U64>>(&bytes).is_ok()));
        totb(cx, "serde.bincode.Odd<U64>", "nopanic", &bytes, 64, || sink(bincode::deserialize::<Odd<U64>>(&bytes).is_ok()));
        // numerals: anything goes for a supported radix
        let s: String = bytes.iter().map(|b| match b % 16 { 0 => '0', 1 => '_', 2 => '+', 3 => 'z', 4 => 'Z', 5 => '9', 6 => '-', 7 => ' ', 8 => 'f', _ => (b'0' + b % 10) as char }).collect();
        let radix = cx.rng.range(2, 36) as u32;
        totb(cx, "uint.from_str_radix_vartime", "nopanic", s.as_bytes(), radix as i64, || sink(U128::from_str_radix_vartime(&s, radix).is_ok()));
        totb(cx, "boxed.from_str_radix_vartime", "nopanic", s.as_bytes(), radix as i64, || sink(BoxedUint::from_str_radix_vartime(&s, radix).map(|v| v.to_string_radix_vartime(radix)).is_ok()));
        totb(cx, "boxed.from_str_radix_with_precision_vartime", "nopanic", s.as_bytes(), radix as i64, || sink(BoxedUint::from_str_radix_with_precision_vartime(&s, radix, prec).is_ok()));
        // CtOption-returning byte decoders of the wrappers
        if len >= 8 {
            let mut arr = [0u8; 8]; arr.copy_from_slice(&bytes[..8]);
            totb(cx, "NonZero::from_be_bytes", "nopanic", &arr, 64, || sink(Option::<NonZero<U64>>::from(CtOption::from(NonZero::<U64>::new(U64::from_be_bytes(arr))))));
        }
    }
}

fn main() {
    let mut cx = Cx::from_args("C11");
    if cx.want("uint") { uint_ops!(&mut cx, 1); uint_ops!(&mut cx, 2); uint_ops!(&mut cx, 4); }
    if cx.want("boxed") { boxed_ops(&mut cx); }
    if cx.want("degenerate") { degenerate(&mut cx); }
    let s = cx.scale;
    if cx.want("decoders") { decoders(&mut cx, 400 * s); }
    cx.finish();
}
