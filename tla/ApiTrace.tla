------------------------------- MODULE ApiTrace -------------------------------
(***************************************************************************)
(* Trace validation (implementation -> specification).  One line of the    *)
(* ndjson trace is one public call of the real crate: its inputs and its   *)
(* outcome.  Each step consumes one line and judges it against the         *)
(* contract of its property.  A rejected event does not end the run        *)
(* (non-stuck idiom): it is printed as a REJECT line and counted, and the  *)
(* rest of the trace is still examined.                                    *)
(***************************************************************************)
EXTENDS BigNat, TLC, Json, IOUtils, Sequences, Labels,
        JC01, JC02, JC03, JC04, JC05, JC06, JC07, JC08, JC09, JC10, JC11, JC12, JC13, JC14, JC15, JC16, JC17, JC18, JC19, JC20

Rec == ndJsonDeserialize(IOEnv.TRACE)

VARIABLES l,        \* position in the trace
          regs,     \* abstract register file of history events (ghost state)
          nbad      \* number of rejected events so far

Judge(e, rg) ==
  CASE e.p = "C01" -> JudgeC01(e, rg)
    [] e.p = "C02" -> JudgeC02(e)
    [] e.p = "C03" -> JudgeC03(e, rg)
    [] e.p = "C04" -> JudgeC04(e, rg)
    [] e.p = "C05" -> JudgeC05(e, rg)
    [] e.p = "C06" -> JudgeC06(e, rg)
    [] e.p = "C07" -> JudgeC07(e, rg)
    [] e.p = "C08" -> JudgeC08(e, rg)
    [] e.p = "C09" -> JudgeC09(e, rg)
    [] e.p = "C10" -> JudgeC10(e, rg)
    [] e.p = "C11" -> JudgeC11(e, rg)
    [] e.p = "C12" -> JudgeC12(e, rg)
    [] e.p = "C13" -> JudgeC13(e, rg)
    [] e.p = "C14" -> JudgeC14(e, rg)
    [] e.p = "C15" -> JudgeC15(e, rg)
    [] e.p = "C16" -> JudgeC16(e, rg)
    [] e.p = "C17" -> JudgeC17(e, rg)
    [] e.p = "C18" -> JudgeC18(e, rg)
    [] e.p = "C19" -> JudgeC19(e, rg)
    [] e.p = "C20" -> JudgeC20(e, rg)
    [] OTHER -> FALSE

(* Ghost register file: a history event with a "dst" field stores its ghost  *)
(* value (field "g", computed by the judge module's Ghost operator) there;  *)
(* an event with "reset" = 1 starts a new history.                          *)
NextRegs(e, rg) ==
  LET base == IF "reset" \in DOMAIN e THEN <<>> ELSE rg
  IN CASE FALSE -> base
       [] e.p = "C08" -> GhostC08(e, base)
       [] e.p = "C01" -> GhostC01(e, base)
       [] OTHER -> base

(* input-class tally (tla/Labels.tla) in TLC register 77: a function label -> number of events; -workers 1 *)
Tally(S) ==
  IF S = {} THEN TRUE
  ELSE LET old == TLCGet(77)
       IN TLCSet(77, [x \in (DOMAIN old) \cup S |-> (IF x \in DOMAIN old THEN old[x] ELSE 0) + (IF x \in S THEN 1 ELSE 0)])

Init == l = 1 /\ regs = <<>> /\ nbad = 0 /\ TLCSet(77, [x \in {} |-> 0])

Step ==
  /\ l <= Len(Rec)
  /\ LET e  == Rec[l]
         ok == Judge(e, regs)
     IN /\ regs' = NextRegs(e, regs)
        /\ nbad' = IF ok THEN nbad ELSE nbad + 1
        /\ (~ok) => PrintT(<<"REJECT", l>>)
        /\ Tally(LabelsOf(e, regs))
  /\ l' = l + 1

Spec == Init /\ [][Step]_<<l, regs, nbad>>

\* every line consumed: one state per line plus the initial one
Accepted == IF TLCGet("stats").diameter - 1 = Len(Rec) THEN PrintT(<<"LABELS", ToJson(TLCGet(77))>>)
            ELSE PrintT(<<"INCOMPLETE", TLCGet("stats").diameter - 1, Len(Rec)>>) /\ FALSE
=============================================================================
