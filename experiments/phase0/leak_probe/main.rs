use crypto_bigint::*;
use crypto_bigint::modular::*;
use std::sync::atomic::{AtomicBool, AtomicU64, Ordering::Relaxed};
static ON: AtomicBool = AtomicBool::new(false);
static H: AtomicU64 = AtomicU64::new(0xcbf29ce484222325);
static N: AtomicU64 = AtomicU64::new(0);
#[inline(always)] fn ev(kind: u64, v: u64) { if ON.load(Relaxed) { let h = H.load(Relaxed); H.store((h ^ kind.wrapping_mul(0x9E3779B97F4A7C15) ^ v).wrapping_mul(0x100000001b3), Relaxed); N.fetch_add(1, Relaxed); } }
#[unsafe(no_mangle)] pub extern "C" fn __sanitizer_cov_trace_pc_guard_init(start: *mut u32, stop: *mut u32) { let mut p = start; let mut i = 1u32; unsafe { while p < stop { *p = i; i += 1; p = p.add(1); } } }
#[unsafe(no_mangle)] pub extern "C" fn __sanitizer_cov_trace_pc_guard(g: *mut u32) { ev(1, unsafe{*g} as u64); }
macro_rules! ld { ($($n:ident),*) => { $( #[unsafe(no_mangle)] pub extern "C" fn $n(a: *const u8) { ev(2, a as u64); } )* } }
ld!(__sanitizer_cov_load1,__sanitizer_cov_load2,__sanitizer_cov_load4,__sanitizer_cov_load8,__sanitizer_cov_load16);
macro_rules! st { ($($n:ident),*) => { $( #[unsafe(no_mangle)] pub extern "C" fn $n(a: *const u8) { ev(3, a as u64); } )* } }
st!(__sanitizer_cov_store1,__sanitizer_cov_store2,__sanitizer_cov_store4,__sanitizer_cov_store8,__sanitizer_cov_store16);
#[unsafe(no_mangle)] pub extern "C" fn __sanitizer_cov_trace_div4(a: u32) { ev(4, a as u64); }
#[unsafe(no_mangle)] pub extern "C" fn __sanitizer_cov_trace_div8(a: u64) { ev(4, a); }
#[unsafe(no_mangle)] pub extern "C" fn __sanitizer_cov_trace_gep(a: usize) { ev(5, a as u64); }

static mut A: U256 = U256::ZERO; static mut B: U256 = U256::ZERO; static mut OUT: [U256; 2] = [U256::ZERO; 2];
#[inline(never)] fn run(f: fn(&U256, &U256) -> [U256;2], a: U256, b: U256) -> (u64, u64) {
    unsafe { A = a; B = b; }
    H.store(0xcbf29ce484222325, Relaxed); N.store(0, Relaxed);
    ON.store(true, Relaxed);
    let o = unsafe { f(&*(&raw const A), &*(&raw const B)) };
    ON.store(false, Relaxed);
    unsafe { OUT = o; }
    (H.load(Relaxed), N.load(Relaxed))
}
fn pool() -> Vec<U256> { vec![U256::ZERO, U256::ONE, U256::MAX, U256::ONE.shl(255), U256::ONE.shl(64), U256::MAX.shr(1), U256::from_u64(0xdeadbeef), U256::from_be_hex("ffffffff00000000ffffffffffffffffbce6faada7179e84f3b9cac2fc632551"), U256::from_be_hex("ffffffff00000000ffffffffffffffffbce6faada7179e84f3b9cac2fc632550"), U256::from_be_hex("0000000000000000000000000000000100000000000000000000000000000000")] }
fn main() {
    let p256 = U256::from_be_hex("ffffffff00000000ffffffffffffffffbce6faada7179e84f3b9cac2fc632551");
    let ops: Vec<(&str, fn(&U256,&U256)->[U256;2], bool)> = vec![
      ("wrapping_add", |a,b| [a.wrapping_add(b), U256::ZERO], false),
      ("split_mul", |a,b| { let (l,h) = a.split_mul(b); [l,h] }, false),
      ("div_rem(b|1 nz)", |a,b| { let (q,r) = a.div_rem(&NonZero::new(b.bitor(&U256::ONE)).unwrap()); [q,r] }, false),
      ("div_rem_vartime(b|1) [vartime in b]", |a,b| { let (q,r) = a.div_rem_vartime(&NonZero::new(b.bitor(&U256::ONE)).unwrap()); [q,r] }, true),
      ("shl(a, b mod 256)", |a,b| [a.shl((b.as_words()[0] % 256) as u32), U256::ZERO], false),
      ("shl_vartime(a, b mod 256) [vartime]", |a,b| [a.shl_vartime((b.as_words()[0] % 256) as u32), U256::ZERO], true),
      ("ct_lt/conditional_select", |a,b| { use crypto_bigint::subtle::{ConditionallySelectable, ConstantTimeLess}; [U256::conditional_select(a, b, a.ct_lt(b)), U256::ZERO] }, false),
      ("cmp_vartime [vartime]", |a,b| [U256::from_u8(a.cmp_vartime(b) as i8 as u8), U256::ZERO], true),
      ("add_mod p256", |a,b| [a.add_mod(b, &U256::from_be_hex("ffffffff00000000ffffffffffffffffbce6faada7179e84f3b9cac2fc632551")), U256::ZERO], false),
      ("inv_odd_mod p256", |a,_b| [a.inv_odd_mod(&Odd::new(U256::from_be_hex("ffffffff00000000ffffffffffffffffbce6faada7179e84f3b9cac2fc632551")).unwrap()).unwrap_or(U256::ZERO), U256::ZERO], false),
      ("inv_mod2k(a|1, 256)", |a,_b| [a.bitor(&U256::ONE).inv_mod2k(256).unwrap_or(U256::ZERO), U256::ZERO], false),
      ("inv_mod2k(a|1, secret k=b%257)", |a,b| [a.bitor(&U256::ONE).inv_mod2k((b.as_words()[0] % 257) as u32).unwrap_or(U256::ZERO), U256::ZERO], false),
      ("gcd", |a,b| [a.gcd(b), U256::ZERO], false),
      ("sqrt", |a,_b| [a.sqrt(), U256::ZERO], false),
      ("bits", |a,_b| [U256::from_u32(a.bits()), U256::ZERO], false),
      ("monty mul p256", |a,b| { let p = MontyParams::new_vartime(Odd::new(U256::from_be_hex("ffffffff00000000ffffffffffffffffbce6faada7179e84f3b9cac2fc632551")).unwrap()); [(MontyForm::new(a,p) * MontyForm::new(b,p)).retrieve(), U256::ZERO] }, false),
      ("monty pow p256 (secret exp)", |a,b| { let p = MontyParams::new_vartime(Odd::new(U256::from_be_hex("ffffffff00000000ffffffffffffffffbce6faada7179e84f3b9cac2fc632551")).unwrap()); [MontyForm::new(a,p).pow(b).retrieve(), U256::ZERO] }, false),
      ("monty inv p256", |a,_b| { let p = MontyParams::new_vartime(Odd::new(U256::from_be_hex("ffffffff00000000ffffffffffffffffbce6faada7179e84f3b9cac2fc632551")).unwrap()); { let i = MontyForm::new(a,p).inv(); let c: crypto_bigint::subtle::CtOption<MontyForm<4>> = i.into(); [c.unwrap_or(MontyForm::zero(p)).retrieve(), U256::ZERO] } }, false),
      ("rem p256", |a,_b| [a.rem(&NonZero::new(U256::from_be_hex("ffffffff00000000ffffffffffffffffbce6faada7179e84f3b9cac2fc632551")).unwrap()), U256::ZERO], false),
      ("neg_mod p256", |a,_b| [a.neg_mod(&U256::from_be_hex("ffffffff00000000ffffffffffffffffbce6faada7179e84f3b9cac2fc632551")), U256::ZERO], false),
      ("checked_mul", |a,b| [Option::from(CheckedMul::checked_mul(a,b)).unwrap_or(U256::ZERO), U256::ZERO], false),
      ("to_be_bytes", |a,_b| [U256::from_be_bytes(a.to_be_bytes()), U256::ZERO], false),
    ];
    let _ = p256;
    let pool = pool();
    for (name, f, vt) in ops {
        let mut digests = std::collections::BTreeMap::new();
        for a in &pool { for b in &pool { let d = run(f, *a, *b); *digests.entry(d).or_insert(0u32) += 1; } }
        if digests.len() > 1 && digests.len() < 4 && !vt { for (ia,a) in pool.iter().enumerate() { let mut row = String::new(); for b in &pool { let d = run(f, *a, *b); row += &format!("{:04x} ", d.0 & 0xffff); } println!("   a#{} n_events: {}", ia, row); } }
        println!("{:45} distinct_traces={:3} {}", name, digests.len(), if vt {"(documented vartime)"} else if digests.len() > 1 {"<== LEAK"} else {""});
    }
}
