SPECIFICATION Spec
CONSTANTS BITS = 20
 ROUNDS_DELTA = 2
INVARIANT CtExact
INVARIANT VartimeExact

CHECK_DEADLOCK FALSE
