//! C15 recorder: all routes to the same operation, on identical inputs.
//! One event per group: `cls` names the mathematical operation, the inputs are logged once, `rt` lists
//! the routes (comma separated), `outs[i]` is the outcome of route i encoded as the natural 4*v + code
//! (code 0 = ok(v), 1 = none, 2 = panic, 3 = err), `ps[i]` the precision in bits of a boxed result
//! (0 for non-boxed routes).  The judge requires all outcomes of a group to be identical, boxed results to
//! have the documented precision, and (for the classes with a simple closed form) the common value to be
//! the mathematical one.
//! Routes: inherent / trait / operator by value, by reference, assigning / `_vartime` twin / Wrapping /
//! Checked / BoxedUint of the same width / precomputed vs one-shot / const-evaluated vs run time.
use std::panic::{catch_unwind, AssertUnwindSafe};
use vh::cb::modular::{BoxedMontyForm, BoxedMontyParams, MontyForm, MontyParams};
use vh::cb::{BoxedUint, CheckedAdd, CheckedMul, CheckedSub, Gcd, InvMod, Inverter, Limb, NonZero, Odd, PrecomputeInverter, Reciprocal, SquareRoot, Uint, Wrapping, WrappingAdd, WrappingMul, WrappingSub, U128, U256, U64};
use vh::*;

struct Grp { rt: Vec<String>, outs: Vec<Vec<u64>>, ps: Vec<Vec<u64>> }
impl Grp {
    fn new() -> Grp { Grp { rt: vec![], outs: vec![], ps: vec![] } }
    fn push(&mut self, name: &str, enc: Vec<u64>, prec: u32) { self.rt.push(name.to_string()); self.outs.push(enc); self.ps.push(vec![prec as u64]); }
    /// run one route; Some(words) = ok(v), None = none
    fn run(&mut self, name: &str, f: impl FnOnce() -> Option<Vec<u64>>) {
        let r = catch_unwind(AssertUnwindSafe(f));
        let enc = match r { Ok(Some(v)) => vadd(&vshl(&v, 2), &[0]), Ok(None) => vec![1], Err(_) => vec![2] };
        self.push(name, enc, 0);
    }
    fn runb(&mut self, name: &str, f: impl FnOnce() -> Option<BoxedUint>) {
        let r = catch_unwind(AssertUnwindSafe(f));
        let (enc, p) = match r { Ok(Some(v)) => (vadd(&vshl(&wb(&v), 2), &[0]), v.bits_precision()), Ok(None) => (vec![1], 0), Err(_) => (vec![2], 0) };
        self.push(name, enc, p);
    }
    fn emit(self, cx: &mut Cx, cls: &str, bits: usize, fields: &[(&str, &[u64])], extra: &[(&str, i64)]) {
        let mut ev = Ev::new("grp", cls).s("cls", cls).i("bits", bits as i64);
        for (k, v) in fields { ev = ev.n(k, v); }
        for (k, v) in extra { ev = ev.i(k, *v); }
        let ev = ev.s("rt", &self.rt.join(","));
        let (outs, ps) = (self.outs, self.ps);
        cx.call(ev, move || O::ok().nl("outs", &outs).nl("ps", &ps));
    }
}
fn o<const N: usize>(c: vh::cb::subtle::CtOption<Uint<N>>) -> Option<Vec<u64>> { Option::<Uint<N>>::from(c).map(|v| w(&v)) }
fn oc<const N: usize>(c: vh::cb::ConstCtOption<Uint<N>>) -> Option<Vec<u64>> { Option::<Uint<N>>::from(c).map(|v| w(&v)) }
fn ob(c: vh::cb::subtle::CtOption<BoxedUint>) -> Option<BoxedUint> { Option::<BoxedUint>::from(c) }

macro_rules! groups {
    ($cx:expr, $N:literal, $iters:expr) => {{
        const N: usize = $N;
        let bits = 64 * N;
        for it in 0..$iters {
            let cx: &mut Cx = $cx;
            let av = nat(&mut cx.rng, N);
            let bv = if it % 7 == 0 { av.clone() } else { nat(&mut cx.rng, N) };
            let (a, b) = (u::<N>(&av), u::<N>(&bv));
            let (ba, bb) = (bx(&av), bx(&bv));
            let f2: [(&str, &[u64]); 2] = [("a", &av), ("b", &bv)];
            // ---- wrapping add
            let mut g = Grp::new();
            g.run("uint.wrapping_add", || Some(w(&a.wrapping_add(&b))));
            g.run("uint.WrappingAdd", || Some(w(&WrappingAdd::wrapping_add(&a, &b))));
            g.run("uint.adc", || Some(w(&a.adc(&b, Limb::ZERO).0)));
            g.run("Wrapping.add", || Some(w(&(Wrapping(a) + Wrapping(b)).0)));
            g.run("Wrapping.add_ref", || Some(w(&(&Wrapping(a) + &Wrapping(b)).0)));
            g.run("Wrapping.add_assign", || { let mut t = Wrapping(a); t += Wrapping(b); Some(w(&t.0)) });
            g.runb("boxed.wrapping_add", || Some(ba.wrapping_add(&bb)));
            g.runb("boxed.WrappingAdd", || Some(WrappingAdd::wrapping_add(&ba, &bb)));
            g.runb("boxed.adc", || Some(ba.adc(&bb, Limb::ZERO).0));
            g.runb("boxed.adc_assign", || { let mut t = ba.clone(); t.adc_assign(&bb, Limb::ZERO); Some(t) });
            g.runb("boxed.Wrapping.add", || Some((Wrapping(ba.clone()) + Wrapping(bb.clone())).0));
            g.emit(cx, "wadd", bits, &f2, &[("pexp", bits as i64)]);
            // ---- checked add (none on overflow) and the panicking operator
            let mut g = Grp::new();
            g.run("uint.checked_add", || o(a.checked_add(&b)));
            g.run("uint.CheckedAdd", || o(CheckedAdd::checked_add(&a, &b)));
            g.run("Checked.add", || o((vh::cb::Checked::new(a) + vh::cb::Checked::new(b)).0));
            g.runb("boxed.checked_add", || ob(ba.checked_add(&bb)));
            g.emit(cx, "cadd", bits, &f2, &[("pexp", bits as i64)]);
            let mut g = Grp::new();
            g.run("uint.op_add_vv", || Some(w(&(a + b))));
            g.run("uint.op_add_vr", || Some(w(&(a + &b))));
            g.run("uint.op_add_assign", || { let mut t = a; t += b; Some(w(&t)) });
            g.runb("boxed.op_add_rr", || Some(&ba + &bb));
            g.runb("boxed.op_add_vv", || Some(ba.clone() + bb.clone()));
            g.runb("boxed.op_add_assign", || { let mut t = ba.clone(); t += &bb; Some(t) });
            g.emit(cx, "padd", bits, &f2, &[("pexp", bits as i64)]);
            // ---- the same additions/subtractions with a NARROWER right-hand side (one limb): every route must treat it as zero-extended
            if N >= 2 {
                let nv = match it % 4 { 0 => vec![1u64], 1 => vec![u64::MAX], _ => vec![bv[0]] };
                let av2 = if it % 3 == 0 { let mut v = av.clone(); v[0] = u64::MAX; if it % 6 == 0 { for x in v.iter_mut().take(N - 1) { *x = u64::MAX; } } v } else { av.clone() };
                let (a2, ba2) = (u::<N>(&av2), bx(&av2));
                let (bn, bnu, bnp) = (bx(&nv), u::<1>(&nv), nv[0]);
                let wide_b = u::<N>(&nv);
                let fm: [(&str, &[u64]); 2] = [("a", &av2), ("b", &nv)];
                let mut g = Grp::new();
                g.run("uint.wrapping_add", || Some(w(&a2.wrapping_add(&wide_b))));
                g.runb("boxed.wrapping_add(narrow)", || Some(ba2.wrapping_add(&bn)));
                g.runb("boxed.adc(narrow)", || Some(ba2.adc(&bn, Limb::ZERO).0));
                g.runb("boxed.adc_assign(narrow)", || { let mut t = ba2.clone(); t.adc_assign(&bn, Limb::ZERO); Some(t) });
                g.runb("boxed.adc_assign(limbs)", || { let mut t = ba2.clone(); t.adc_assign(bnu.as_limbs(), Limb::ZERO); Some(t) });
                g.runb("boxed.WrappingAdd(narrow)", || Some(WrappingAdd::wrapping_add(&ba2, &bn)));
                g.runb("boxed.Wrapping.add_assign(narrow)", || { let mut t = Wrapping(ba2.clone()); t += &Wrapping(bn.clone()); Some(t.0) });
                g.runb("boxed.Wrapping.add(narrow)", || Some((Wrapping(ba2.clone()) + Wrapping(bn.clone())).0));
                g.emit(cx, "wadd", bits, &fm, &[("pexp", bits as i64)]);
                let mut g = Grp::new();
                g.run("uint.op_add_vv", || Some(w(&(a2 + wide_b))));
                g.runb("boxed.op_add_rr(narrow)", || Some(&ba2 + &bn));
                g.runb("boxed.op_add_assign(narrow)", || { let mut t = ba2.clone(); t += &bn; Some(t) });
                g.runb("boxed.op_add_uint(narrow)", || Some(ba2.clone() + bnu));
                g.runb("boxed.op_add_assign_uint(narrow)", || { let mut t = ba2.clone(); t += &bnu; Some(t) });
                g.runb("boxed.op_add_u64", || Some(ba2.clone() + bnp));
                g.runb("boxed.op_add_assign_u64", || { let mut t = ba2.clone(); t += bnp; Some(t) });
                g.emit(cx, "padd", bits, &fm, &[("pexp", bits as i64)]);
                let mut g = Grp::new();
                g.run("uint.checked_add", || o(a2.checked_add(&wide_b)));
                g.runb("boxed.checked_add(narrow)", || ob(ba2.checked_add(&bn)));
                g.emit(cx, "cadd", bits, &fm, &[("pexp", bits as i64)]);
                let mut g = Grp::new();
                g.run("uint.wrapping_sub", || Some(w(&a.wrapping_sub(&wide_b))));
                g.runb("boxed.wrapping_sub(narrow)", || Some(ba.wrapping_sub(&bn)));
                g.runb("boxed.sbb(narrow)", || Some(ba.sbb(&bn, Limb::ZERO).0));
                g.runb("boxed.sbb_assign(narrow)", || { let mut t = ba.clone(); t.sbb_assign(&bn, Limb::ZERO); Some(t) });
                g.runb("boxed.WrappingSub(narrow)", || Some(WrappingSub::wrapping_sub(&ba, &bn)));
                g.runb("boxed.Wrapping.sub_assign(narrow)", || { let mut t = Wrapping(ba.clone()); t -= &Wrapping(bn.clone()); Some(t.0) });
                let fs: [(&str, &[u64]); 2] = [("a", &av), ("b", &nv)];
                g.emit(cx, "wsub", bits, &fs, &[("pexp", bits as i64)]);
            }
            // ---- wrapping sub
            let mut g = Grp::new();
            g.run("uint.wrapping_sub", || Some(w(&a.wrapping_sub(&b))));
            g.run("uint.WrappingSub", || Some(w(&WrappingSub::wrapping_sub(&a, &b))));
            g.run("uint.sbb", || Some(w(&a.sbb(&b, Limb::ZERO).0)));
            g.run("Wrapping.sub", || Some(w(&(Wrapping(a) - Wrapping(b)).0)));
            g.runb("boxed.wrapping_sub", || Some(ba.wrapping_sub(&bb)));
            g.runb("boxed.sbb", || Some(ba.sbb(&bb, Limb::ZERO).0));
            g.runb("boxed.sbb_assign", || { let mut t = ba.clone(); t.sbb_assign(&bb, Limb::ZERO); Some(t) });
            g.emit(cx, "wsub", bits, &f2, &[("pexp", bits as i64)]);
            let mut g = Grp::new();
            g.run("uint.checked_sub", || o(a.checked_sub(&b)));
            g.run("uint.CheckedSub", || o(CheckedSub::checked_sub(&a, &b)));
            g.runb("boxed.checked_sub", || ob(ba.checked_sub(&bb)));
            g.emit(cx, "csub", bits, &f2, &[("pexp", bits as i64)]);
            // ---- wrapping / checked mul
            let mut g = Grp::new();
            g.run("uint.wrapping_mul", || Some(w(&a.wrapping_mul(&b))));
            g.run("uint.WrappingMul", || Some(w(&WrappingMul::wrapping_mul(&a, &b))));
            g.run("uint.split_mul.lo", || Some(w(&a.split_mul(&b).0)));
            g.run("Wrapping.mul", || Some(w(&(Wrapping(a) * Wrapping(b)).0)));
            g.runb("boxed.wrapping_mul", || Some(ba.wrapping_mul(&bb)));
            g.runb("boxed.mul.lo", || Some(ba.mul(&bb).shorten(bits as u32)));
            g.emit(cx, "wmul", bits, &f2, &[("pexp", bits as i64)]);
            let mut g = Grp::new();
            g.run("uint.checked_mul", || o(a.checked_mul(&b)));
            g.run("uint.CheckedMul", || o(CheckedMul::checked_mul(&a, &b)));
            g.runb("boxed.checked_mul", || ob(ba.checked_mul(&bb)));
            g.emit(cx, "cmul", bits, &f2, &[("pexp", bits as i64)]);
            let mut g = Grp::new();
            g.run("uint.op_mul_vv", || Some(w(&(a * b))));
            g.run("uint.op_mul_rr", || Some(w(&(&a * &b))));
            g.run("uint.op_mul_assign", || { let mut t = a; t *= b; Some(w(&t)) });
            g.runb("boxed.op_mul_rr", || Some(&ba * &bb));
            g.runb("boxed.op_mul_vv", || Some(ba.clone() * bb.clone()));
            g.runb("boxed.op_mul_vr", || Some(ba.clone() * &bb));
            g.runb("boxed.op_mul_assign", || { let mut t = ba.clone(); t *= &bb; Some(t) });
            g.emit(cx, "pmul", bits, &f2, &[("pexp", bits as i64)]);
            let mut g = Grp::new();
            g.run("uint.split_mul.hi", || Some(w(&a.split_mul(&b).1)));
            g.run("uint.square_wide.hi_if_eq", || if av == bv { Some(w(&a.square_wide().1)) } else { Some(w(&a.split_mul(&b).1)) });
            g.runb("boxed.mul.hi", || Some(ba.mul(&bb).shr_vartime(bits as u32).unwrap().shorten(bits as u32)));
            g.emit(cx, "mulhi", bits, &f2, &[("pexp", bits as i64)]);
            // ---- division (b != 0)
            if !is_zero(&bv) {
                let (nzb_, nzbb) = (nz::<N>(&bv).unwrap(), nzb(&bv).unwrap());
                let mut g = Grp::new();
                g.run("uint.div_rem.q", || Some(w(&a.div_rem(&nzb_).0)));
                g.run("uint.div_rem_vartime.q", || Some(w(&a.div_rem_vartime(&nzb_).0)));
                g.run("uint.wrapping_div", || Some(w(&a.wrapping_div(&nzb_))));
                g.run("uint.checked_div", || o(a.checked_div(&b)));
                g.run("uint.op_div", || Some(w(&(a / nzb_))));
                g.run("Wrapping.div", || Some(w(&(Wrapping(a) / nzb_).0)));
                g.runb("boxed.div_rem.q", || Some(ba.div_rem(&nzbb).0));
                g.runb("boxed.div_rem_vartime.q", || Some(ba.div_rem_vartime(&nzbb).0));
                g.runb("boxed.checked_div", || ob(ba.checked_div(&bb)));
                g.runb("boxed.op_div", || Some(&ba / &nzbb));
                g.emit(cx, "divq", bits, &f2, &[("pexp", bits as i64)]);
                let mut g = Grp::new();
                g.run("uint.div_rem.r", || Some(w(&a.div_rem(&nzb_).1)));
                g.run("uint.div_rem_vartime.r", || Some(w(&a.div_rem_vartime(&nzb_).1)));
                g.run("uint.rem", || Some(w(&a.rem(&nzb_))));
                g.run("uint.rem_vartime", || Some(w(&a.rem_vartime(&nzb_))));
                g.run("uint.checked_rem", || o(a.checked_rem(&b)));
                g.run("uint.op_rem", || Some(w(&(a % nzb_))));
                g.run("uint.rem_wide_vartime(lo,0)", || Some(w(&Uint::<N>::rem_wide_vartime((a, Uint::<N>::ZERO), &nzb_))));
                g.runb("boxed.div_rem.r", || Some(ba.div_rem(&nzbb).1));
                g.runb("boxed.rem", || Some(ba.rem(&nzbb)));
                g.runb("boxed.rem_vartime", || Some(ba.rem_vartime(&nzbb)));
                g.runb("boxed.op_rem", || Some(&ba % &nzbb));
                g.emit(cx, "divr", bits, &f2, &[("pexp", bits as i64)]);
                // by a limb: precomputed reciprocal vs one-shot
                let d = bv[0] | 1;
                let nzd = nzl(d).unwrap();
                let rc = Reciprocal::new(nzd);
                let mut g = Grp::new();
                g.run("uint.div_rem_limb.q", || Some(w(&a.div_rem_limb(nzd).0)));
                g.run("uint.div_rem_limb_with_reciprocal.q", || Some(w(&a.div_rem_limb_with_reciprocal(&rc).0)));
                g.run("uint.op_div_limb", || Some(w(&(a / nzd))));
                g.runb("boxed.div_rem_limb.q", || Some(ba.div_rem_limb(nzd).0));
                g.runb("boxed.div_rem_limb_with_reciprocal.q", || Some(ba.div_rem_limb_with_reciprocal(&rc).0));
                g.emit(cx, "divq", bits, &[("a", &av), ("b", &[d])], &[("pexp", bits as i64)]);
                let mut g = Grp::new();
                g.run("uint.div_rem_limb.r", || Some(vec![a.div_rem_limb(nzd).1.0]));
                g.run("uint.rem_limb", || Some(vec![a.rem_limb(nzd).0]));
                g.run("uint.rem_limb_with_reciprocal", || Some(vec![a.rem_limb_with_reciprocal(&rc).0]));
                g.run("uint.op_rem_limb", || Some(vec![(a % nzd).0]));
                g.run("boxed.rem_limb", || Some(vec![ba.rem_limb(nzd).0]));
                g.run("boxed.rem_limb_with_reciprocal", || Some(vec![ba.rem_limb_with_reciprocal(&rc).0]));
                g.emit(cx, "divr", bits, &[("a", &av), ("b", &[d])], &[("pexp", 0)]);
            }
            // ---- shifts
            let s = if it % 3 == 0 { cx.rng.below(2 * bits + 2) as u32 } else { cx.rng.below(bits) as u32 };
            let mut g = Grp::new();
            g.run("uint.overflowing_shl", || oc(a.overflowing_shl(s)));
            g.run("uint.overflowing_shl_vartime", || oc(a.overflowing_shl_vartime(s)));
            g.run("uint.ShlVartime", || o(vh::cb::ShlVartime::overflowing_shl_vartime(&a, s)));
            g.runb("boxed.overflowing_shl", || { let (v, ov) = ba.overflowing_shl(s); if bool::from(ov) { None } else { Some(v) } });
            g.runb("boxed.shl_vartime", || ba.shl_vartime(s));
            g.emit(cx, "shl", bits, &[("a", &av)], &[("s", s as i64), ("pexp", bits as i64)]);
            let mut g = Grp::new();
            g.run("uint.overflowing_shr", || oc(a.overflowing_shr(s)));
            g.run("uint.overflowing_shr_vartime", || oc(a.overflowing_shr_vartime(s)));
            g.run("uint.ShrVartime", || o(vh::cb::ShrVartime::overflowing_shr_vartime(&a, s)));
            g.runb("boxed.overflowing_shr", || { let (v, ov) = ba.overflowing_shr(s); if bool::from(ov) { None } else { Some(v) } });
            g.runb("boxed.shr_vartime", || ba.shr_vartime(s));
            g.emit(cx, "shr", bits, &[("a", &av)], &[("s", s as i64), ("pexp", bits as i64)]);
            let mut g = Grp::new();
            g.run("uint.wrapping_shl", || Some(w(&a.wrapping_shl(s))));
            g.run("uint.wrapping_shl_vartime", || Some(w(&a.wrapping_shl_vartime(s))));
            g.runb("boxed.wrapping_shl", || Some(ba.wrapping_shl(s)));
            g.runb("boxed.wrapping_shl_vartime", || Some(ba.wrapping_shl_vartime(s)));
            g.emit(cx, "wshl", bits, &[("a", &av)], &[("s", s as i64), ("pexp", bits as i64)]);
            // ---- constants "like" an existing value: the value is the constant, the precision is the other's
            {
                use vh::cb::{Integer, Zero, BitOps};
                let c = av[0] | 1;
                let cv = vec![c];
                let mut g = Grp::new();
                g.run("uint.from_limb_like", || Some(w(&<Uint<N> as Integer>::from_limb_like(Limb(c), &b))));
                g.run("uint.from_word", || Some(w(&Uint::<N>::from_word(c))));
                g.runb("boxed.from_limb_like", || Some(<BoxedUint as Integer>::from_limb_like(Limb(c), &bb)));
                g.runb("boxed.from_word+widen", || Some(BoxedUint::from(c).widen(bits as u32)));
                g.emit(cx, "konst", bits, &[("a", &cv)], &[("pexp", bits as i64)]);
                let mut g = Grp::new();
                g.run("uint.ONE", || Some(w(&Uint::<N>::ONE)));
                g.run("uint.one_like", || Some(w(&<Uint<N> as Integer>::one_like(&b))));
                g.run("uint.Integer.one", || Some(w(&<Uint<N> as Integer>::one())));
                g.runb("boxed.one_like", || Some(<BoxedUint as Integer>::one_like(&bb)));
                g.runb("boxed.one_with_precision", || Some(BoxedUint::one_with_precision(bits as u32)));
                g.emit(cx, "konst", bits, &[("a", &[1u64])], &[("pexp", bits as i64)]);
                let mut g = Grp::new();
                g.run("uint.ZERO", || Some(w(&Uint::<N>::ZERO)));
                g.run("uint.zero_like", || Some(w(&<Uint<N> as Zero>::zero_like(&b))));
                g.run("uint.set_zero", || { let mut t = b; Zero::set_zero(&mut t); Some(w(&t)) });
                g.runb("boxed.zero_like", || Some(<BoxedUint as Zero>::zero_like(&bb)));
                g.runb("boxed.zero_with_precision", || Some(BoxedUint::zero_with_precision(bits as u32)));
                g.emit(cx, "konst", bits, &[("a", &[0u64])], &[("pexp", bits as i64)]);
                let maxv = vec![u64::MAX; N];
                let mut g = Grp::new();
                g.run("uint.MAX", || Some(w(&Uint::<N>::MAX)));
                g.run("uint.not(ZERO)", || Some(w(&!Uint::<N>::ZERO)));
                g.run("uint.Constants.MAX", || Some(w(&<Uint<N> as vh::cb::Constants>::MAX)));
                g.run("uint.wrapping_sub(ZERO,ONE)", || Some(w(&Uint::<N>::ZERO.wrapping_sub(&Uint::<N>::ONE))));
                g.runb("boxed.max", || Some(BoxedUint::max(bits as u32)));
                g.runb("boxed.max(bits-1)", || Some(BoxedUint::max(bits as u32 - 1)));          // "at least" precision: rounded up to whole limbs
                g.runb("boxed.not(zero)", || Some(!BoxedUint::zero_with_precision(bits as u32)));
                g.emit(cx, "konst", bits, &[("a", &maxv)], &[("pexp", bits as i64)]);
                let mut g = Grp::new();
                g.run("uint.ConstZero", || Some(w(&<Uint<N> as num_traits::ConstZero>::ZERO)));
                g.run("uint.Default", || Some(w(&Uint::<N>::default())));
                g.runb("boxed.zero+widen", || Some(BoxedUint::zero().widen(bits as u32)));
                g.emit(cx, "konst", bits, &[("a", &[0u64])], &[("pexp", bits as i64)]);
                let mut g = Grp::new();
                g.run("uint.log2_bits", || Some(vec![BitOps::log2_bits(&a) as u64]));
                g.run("boxed.log2_bits", || Some(vec![BitOps::log2_bits(&ba) as u64]));
                g.emit(cx, "log2", bits, &[("a", &[bits as u64])], &[("pexp", 0)]);
            }
            // ---- bit queries
            let mut g = Grp::new();
            g.run("uint.bits", || Some(vec![a.bits() as u64]));
            g.run("uint.bits_vartime", || Some(vec![a.bits_vartime() as u64]));
            g.run("uint.lz", || Some(vec![(bits as u32 - a.leading_zeros()) as u64]));
            g.run("boxed.bits", || Some(vec![ba.bits() as u64]));
            g.run("boxed.bits_vartime", || Some(vec![ba.bits_vartime() as u64]));
            g.emit(cx, "bits", bits, &[("a", &av)], &[("pexp", 0)]);
            let mut g = Grp::new();
            g.run("uint.trailing_zeros", || Some(vec![a.trailing_zeros() as u64]));
            g.run("uint.trailing_zeros_vartime", || Some(vec![a.trailing_zeros_vartime() as u64]));
            g.run("boxed.trailing_zeros", || Some(vec![ba.trailing_zeros() as u64]));
            g.run("boxed.trailing_zeros_vartime", || Some(vec![ba.trailing_zeros_vartime() as u64]));
            g.emit(cx, "tz", bits, &[("a", &av)], &[("pexp", 0)]);
            // ---- sqrt
            let mut g = Grp::new();
            g.run("uint.sqrt", || Some(w(&a.sqrt())));
            g.run("uint.sqrt_vartime", || Some(w(&a.sqrt_vartime())));
            g.run("uint.SquareRoot", || Some(w(&SquareRoot::sqrt(&a))));
            g.run("uint.wrapping_sqrt", || Some(w(&a.wrapping_sqrt())));
            g.runb("boxed.sqrt", || Some(ba.sqrt()));
            g.runb("boxed.sqrt_vartime", || Some(ba.sqrt_vartime()));
            g.emit(cx, "sqrt", bits, &[("a", &av)], &[("pexp", bits as i64)]);
            // ---- gcd
            let mut g = Grp::new();
            g.run("uint.gcd", || Some(w(&a.gcd(&b))));
            g.run("uint.Gcd.gcd", || Some(w(&Gcd::gcd(&a, &b))));
            g.run("uint.Gcd.gcd_vartime", || Some(w(&Gcd::gcd_vartime(&a, &b))));
            g.runb("boxed.gcd", || Some(ba.gcd(&bb)));
            g.runb("boxed.gcd_vartime", || Some(Gcd::gcd_vartime(&ba, &bb)));
            g.emit(cx, "gcd", bits, &f2, &[("pexp", bits as i64)]);
            // ---- modular arithmetic with an odd modulus m, operands reduced
            let mv = { let mut m = nat(&mut cx.rng, N); m[0] |= 1; if it % 5 == 0 { m[N - 1] = 0; m[0] |= 3; } m };
            let (xa, xb) = (below(&mut cx.rng, &mv), below(&mut cx.rng, &mv));
            let (m, x, y) = (u::<N>(&mv), u::<N>(&xa), u::<N>(&xb));
            let (bm, bxx, by) = (bx(&mv), bx(&xa), bx(&xb));
            let f3: [(&str, &[u64]); 3] = [("a", &xa), ("b", &xb), ("m", &mv)];
            let mut g = Grp::new();
            g.run("uint.add_mod", || Some(w(&x.add_mod(&y, &m))));
            g.run("uint.AddMod", || Some(w(&vh::cb::AddMod::add_mod(&x, &y, &m))));
            g.runb("boxed.add_mod", || Some(bxx.add_mod(&by, &bm)));
            g.run("MontyForm.add", || { let p = MontyParams::<N>::new_vartime(odd::<N>(&mv).unwrap()); Some(w(&(MontyForm::new(&x, p) + MontyForm::new(&y, p)).retrieve())) });
            g.emit(cx, "addmod", bits, &f3, &[("pexp", bits as i64)]);
            let mut g = Grp::new();
            g.run("uint.sub_mod", || Some(w(&x.sub_mod(&y, &m))));
            g.run("uint.SubMod", || Some(w(&vh::cb::SubMod::sub_mod(&x, &y, &m))));
            g.runb("boxed.sub_mod", || Some(bxx.sub_mod(&by, &bm)));
            g.emit(cx, "submod", bits, &f3, &[("pexp", bits as i64)]);
            let mut g = Grp::new();
            let om = odd::<N>(&mv).unwrap();
            let obm = oddb(&mv).unwrap();
            g.run("uint.mul_mod", || Some(w(&x.mul_mod(&y, om.as_nz_ref()))));
            g.run("uint.mul_mod_vartime", || Some(w(&x.mul_mod_vartime(&y, om.as_nz_ref()))));
            g.runb("boxed.mul_mod", || Some(bxx.mul_mod(&by, obm.as_nz_ref())));
            g.run("MontyForm.mul", || { let p = MontyParams::<N>::new(om); Some(w(&(MontyForm::new(&x, p) * MontyForm::new(&y, p)).retrieve())) });
            g.run("MontyForm.mul(new_vartime)", || { let p = MontyParams::<N>::new_vartime(om); Some(w(&(MontyForm::new(&x, p) * MontyForm::new(&y, p)).retrieve())) });
            g.runb("BoxedMontyForm.mul", || { let p = BoxedMontyParams::new(obm.clone()); Some((BoxedMontyForm::new(bxx.clone(), p.clone()) * BoxedMontyForm::new(by.clone(), p)).retrieve()) });
            g.emit(cx, "mulmod", bits, &f3, &[("pexp", bits as i64)]);
            // ---- the special-modulus forms p = 2^BITS - c, fixed against boxed, on operands at the reduction boundaries
            {
                let c = match it % 4 { 0 => 189u64, 1 => 1, 2 => u64::MAX, _ => (cx.rng.next() >> (it % 40)) | 1 };
                let pv = vsub(&vpow2(bits), &[c]);
                let (sa, sb) = match it % 5 {
                    0 => (fit(vshr(&vadd(&pv, &[1]), 1), N), fit(vec![2], N)),                 // (p+1)/2 * 2 = p + 1
                    1 => (fit(vsub(&pv, &[1]), N), fit(vsub(&pv, &[1]), N)),                   // (p-1)^2
                    2 => (vec![u64::MAX; N], fit(vec![1], N)),                                 // unreduced operand
                    3 => (fit(vsub(&pv, &[1]), N), fit(vec![2], N)),
                    _ => { let pt = fit(pv.clone(), N); (fit(below(&mut cx.rng, &pt), N), fit(below(&mut cx.rng, &pt), N)) }
                };
                let (ua, ub, ba2, bb2) = (u::<N>(&sa), u::<N>(&sb), bx(&sa), bx(&sb));
                let fs: [(&str, &[u64]); 3] = [("a", &sa), ("b", &sb), ("m", &fit(pv.clone(), N))];
                let mut g = Grp::new();
                g.run("uint.mul_mod_special", || Some(w(&ua.mul_mod_special(&ub, Limb(c)))));
                g.runb("boxed.mul_mod_special", || Some(ba2.mul_mod_special(&bb2, Limb(c))));
                g.emit(cx, "mulmod", bits, &fs, &[("pexp", bits as i64)]);
                if vcmp(&sa, &pv).is_lt() && vcmp(&sb, &pv).is_lt() {
                    let mut g = Grp::new();
                    g.run("uint.add_mod_special", || Some(w(&ua.add_mod_special(&ub, Limb(c)))));
                    g.run("uint.add_mod", || Some(w(&ua.add_mod(&ub, &u::<N>(&pv)))));
                    g.emit(cx, "addmod", bits, &fs, &[("pexp", bits as i64)]);
                    let mut g = Grp::new();
                    g.run("uint.sub_mod_special", || Some(w(&ua.sub_mod_special(&ub, Limb(c)))));
                    g.runb("boxed.sub_mod_special", || Some(ba2.sub_mod_special(&bb2, Limb(c))));
                    g.emit(cx, "submod", bits, &fs, &[("pexp", bits as i64)]);
                }
            }
            // ---- inversion: one-shot vs precomputed, ct vs vartime, fixed vs boxed, Montgomery
            let mut g = Grp::new();
            g.run("uint.inv_odd_mod", || oc(x.inv_odd_mod(&om)));
            g.run("uint.inv_mod", || oc(x.inv_mod(&m)));
            g.run("uint.InvMod", || o(InvMod::inv_mod(&x, &m)));
            g.run("precomputed.invert", || { let inv = om.precompute_inverter(); o(inv.invert(&x)) });
            g.run("precomputed.invert_vartime", || { let inv = om.precompute_inverter(); o(inv.invert_vartime(&x)) });
            g.runb("boxed.inv_odd_mod", || ob(bxx.inv_odd_mod(&obm)));
            g.runb("boxed.inv_mod", || ob(bxx.inv_mod(&bm)));
            g.run("MontyForm.inv", || { let p = MontyParams::<N>::new(om); Option::<MontyForm<N>>::from(MontyForm::new(&x, p).inv()).map(|v| w(&v.retrieve())) });
            g.run("MontyForm.inv_vartime", || { let p = MontyParams::<N>::new(om); Option::<MontyForm<N>>::from(MontyForm::new(&x, p).inv_vartime()).map(|v| w(&v.retrieve())) });
            g.runb("BoxedMontyForm.invert", || { let p = BoxedMontyParams::new(obm.clone()); Option::<BoxedMontyForm>::from(BoxedMontyForm::new(bxx.clone(), p).invert()).map(|v| v.retrieve()) });
            g.emit(cx, "invmod", bits, &[("a", &xa), ("m", &mv)], &[("pexp", bits as i64)]);
            // ---- inversion for a general modulus (zero, one, 2^k, s * 2^k, even, any) and degenerate values: inherent vs trait vs boxed
            {
                let gm = match it % 8 {
                    0 => vec![0; N],
                    1 => fit(vec![1], N),
                    2 => fit(vpow2(cx.rng.below(bits)), N),
                    3 => { let k = cx.rng.below(bits - 1) + 1; let s = nat_odd(&mut cx.rng, N); fit(vmask(&vshl(&s, k), bits), N) }
                    4 => { let mut v = uniform(&mut cx.rng, N); v[0] &= !1; v }
                    _ => nat(&mut cx.rng, N),
                };
                let ga = match (it / 8) % 5 { 0 => vec![0; N], 1 => fit(vec![1], N), 2 => vec![u64::MAX; N], 3 => nat_odd(&mut cx.rng, N), _ => nat(&mut cx.rng, N) };
                let (ua, um, ba_, bm_) = (u::<N>(&ga), u::<N>(&gm), bx(&ga), bx(&gm));
                let mut g = Grp::new();
                g.run("uint.inv_mod", || oc(ua.inv_mod(&um)));
                g.run("uint.InvMod", || o(InvMod::inv_mod(&ua, &um)));
                g.runb("boxed.inv_mod", || ob(ba_.inv_mod(&bm_)));
                g.emit(cx, "invmod", bits, &[("a", &ga), ("m", &gm)], &[("pexp", bits as i64)]);
            }
            // ---- pow: ct constructor vs vartime constructor vs boxed
            let ev_ = nat(&mut cx.rng, N.min(2));
            let e = u::<N>(&ev_);
            let be = bx(&fit(ev_.clone(), N));
            let mut g = Grp::new();
            g.run("MontyForm.pow(new)", || { let p = MontyParams::<N>::new(om); Some(w(&MontyForm::new(&x, p).pow(&e).retrieve())) });
            g.run("MontyForm.pow(new_vartime)", || { let p = MontyParams::<N>::new_vartime(om); Some(w(&MontyForm::new(&x, p).pow(&e).retrieve())) });
            g.run("MontyForm.pow_bounded_exp(full)", || { let p = MontyParams::<N>::new(om); Some(w(&MontyForm::new(&x, p).pow_bounded_exp(&e, bits as u32).retrieve())) });
            g.runb("BoxedMontyForm.pow", || { let p = BoxedMontyParams::new_vartime(obm.clone()); Some(BoxedMontyForm::new(bxx.clone(), p).pow(&be).retrieve()) });
            g.emit(cx, "powmod", bits, &[("a", &xa), ("b", &fit(ev_.clone(), N)), ("m", &mv)], &[("pexp", bits as i64)]);
            // bounded exponent: every window / limb boundary is reachable through the random bound
            let kb = match it % 4 { 0 => cx.rng.below(bits + 1) as u32, 1 => (4 * cx.rng.below(bits / 4 + 1)) as u32, 2 => (cx.rng.below(bits) | 1) as u32, _ => (cx.rng.below(17)) as u32 };
            let efull = nat(&mut cx.rng, N);
            let (e2, be2) = (u::<N>(&efull), bx(&efull));
            let mut g = Grp::new();
            g.run("MontyForm.pow_bounded_exp(new)", || { let p = MontyParams::<N>::new(om); Some(w(&MontyForm::new(&x, p).pow_bounded_exp(&e2, kb).retrieve())) });
            g.run("MontyForm.PowBoundedExp(new_vartime)", || { let p = MontyParams::<N>::new_vartime(om); Some(w(&vh::cb::PowBoundedExp::pow_bounded_exp(&MontyForm::new(&x, p), &e2, kb).retrieve())) });
            g.runb("BoxedMontyForm.pow_bounded_exp", || { let p = BoxedMontyParams::new(obm.clone()); Some(BoxedMontyForm::new(bxx.clone(), p).pow_bounded_exp(&be2, kb).retrieve()) });
            g.runb("BoxedMontyForm.PowBoundedExp", || { let p = BoxedMontyParams::new_vartime(obm.clone()); Some(vh::cb::PowBoundedExp::pow_bounded_exp(&BoxedMontyForm::new(bxx.clone(), p), &be2, kb).retrieve()) });
            g.emit(cx, "powk", bits, &[("a", &xa), ("b", &efull), ("m", &mv)], &[("s", kb as i64), ("pexp", bits as i64)]);
        }
    }};
}

// ---- const-evaluated vs run time ----------------------------------------------------------------
const CA: U256 = U256::from_be_hex("ffffffff00000001000000000000000000000000fffffffffffffffffffffffe");
const CB: U256 = U256::from_be_hex("00000000ffffffffffffffff00000000000000010000000000000000fffffff1");
const CM: U256 = U256::from_be_hex("ffffffff00000000ffffffffffffffffbce6faada7179e84f3b9cac2fc632551");
const CS: U128 = U128::from_be_hex("80000000000000000000000000000001");
macro_rules! cst {
    ($cx:expr, $name:literal, $ty:ty, $cexpr:expr, $rexpr:expr) => {{
        const C: $ty = $cexpr;
        let mut g = Grp::new();
        g.run(concat!("const.", $name), || Some(C.to_words().to_vec()));
        g.run(concat!("runtime.", $name), || { let v: $ty = $rexpr; Some(v.to_words().to_vec()) });
        g.emit($cx, "same", 0, &[], &[("pexp", 0)]);
    }};
}

use vh::cb::impl_modulus;
impl_modulus!(P15a, U128, "0000000000000000ffffffffffffffff");
impl_modulus!(P15b, U128, "0000000000000001ffffffffffffffff");
impl_modulus!(P15c, U128, "00000000000000007fffffffffffffff");
impl_modulus!(P15d, U256, "0000000000000000fffffffffffffffffffffffffffffffeffffffffffffffff");
impl_modulus!(P15e, U256, "ffffffff00000000ffffffffffffffffbce6faada7179e84f3b9cac2fc632551");
impl_modulus!(P15f, U256, "0000000000000000000000000000000000000000000000010000000000000fff");
impl_modulus!(P15g, U64, "0000000000000003");

// parameter sets of one modulus through every constructor (macro / constant-time / vartime / boxed / converted): the
// Debug rendering is the only public view of all fields, and it must be identical character for character
macro_rules! params_routes {
    ($cx:expr, $M:ident, $U:ty, $N:literal) => {{
        use vh::cb::modular::ConstMontyParams;
        let strip = |s: String| -> Option<Vec<u64>> { let body = s[s.find('{').unwrap_or(0)..].replace("Boxed", ""); Some(body.bytes().map(|b| b as u64).collect()) };
        let om = Odd::new(<$M as ConstMontyParams<$N>>::MODULUS.get()).unwrap();
        let mut g = Grp::new();
        g.run("MontyParams::from_const_params", || strip(format!("{:?}", MontyParams::<$N>::from_const_params::<$M>())));
        g.run("MontyParams::new", || strip(format!("{:?}", MontyParams::<$N>::new(om))));
        g.run("MontyParams::new_vartime", || strip(format!("{:?}", MontyParams::<$N>::new_vartime(om))));
        g.emit($cx, "same", 0, &[], &[("pexp", 0)]);
        let lz = |s: String| -> Option<Vec<u64>> { let k = s.find("mod_leading_zeros: ").unwrap() + 19; Some(vec![s[k..].chars().take_while(|c| c.is_ascii_digit()).collect::<String>().parse().unwrap()]) };
        let obm = Odd::new(BoxedUint::from(<$M as ConstMontyParams<$N>>::MODULUS.get())).unwrap();
        let mut g = Grp::new();
        g.run("macro.MOD_LEADING_ZEROS", || Some(vec![<$M as ConstMontyParams<$N>>::MOD_LEADING_ZEROS as u64]));
        g.run("MontyParams::new.lz", || lz(format!("{:?}", MontyParams::<$N>::new(om))));
        g.run("BoxedMontyParams::from_const_params.lz", || lz(format!("{:?}", BoxedMontyParams::from_const_params::<$N, $M>())));
        g.run("BoxedMontyParams::new.lz", || lz(format!("{:?}", BoxedMontyParams::new(obm.clone()))));
        g.run("BoxedMontyParams::new_vartime.lz", || lz(format!("{:?}", BoxedMontyParams::new_vartime(obm.clone()))));
        g.emit($cx, "same", 0, &[], &[("pexp", 0)]);
    }};
}
fn params_groups(cx: &mut Cx) {
    params_routes!(cx, P15a, U128, 2);        // exactly 64 leading zeros
    params_routes!(cx, P15b, U128, 2);        // 63
    params_routes!(cx, P15c, U128, 2);        // 65
    params_routes!(cx, P15d, U256, 4);   // P-192 prime in U256: 64
    params_routes!(cx, P15e, U256, 4);
    params_routes!(cx, P15f, U256, 4);
    params_routes!(cx, P15g, U64, 1);
}
fn consts(cx: &mut Cx) {
    use std::hint::black_box as bb;
    cst!(cx, "wrapping_add", U256, CA.wrapping_add(&CB), bb(CA).wrapping_add(&bb(CB)));
    cst!(cx, "wrapping_sub", U256, CB.wrapping_sub(&CA), bb(CB).wrapping_sub(&bb(CA)));
    cst!(cx, "wrapping_mul", U256, CA.wrapping_mul(&CB), bb(CA).wrapping_mul(&bb(CB)));
    cst!(cx, "split_mul.hi", U256, CA.split_mul(&CB).1, bb(CA).split_mul(&bb(CB)).1);
    cst!(cx, "square_wide.lo", U256, CA.square_wide().0, bb(CA).square_wide().0);
    cst!(cx, "square_wide.hi", U256, CA.square_wide().1, bb(CA).square_wide().1);
    cst!(cx, "div_rem.q", U256, CA.div_rem(&NonZero::<U256>::new_unwrap(CB)).0, bb(CA).div_rem(&NonZero::<U256>::new_unwrap(bb(CB))).0);
    cst!(cx, "div_rem.r", U256, CA.div_rem(&NonZero::<U256>::new_unwrap(CB)).1, bb(CA).div_rem(&NonZero::<U256>::new_unwrap(bb(CB))).1);
    cst!(cx, "div_rem_vartime.r", U256, CA.div_rem_vartime(&NonZero::<U256>::new_unwrap(CB)).1, bb(CA).div_rem_vartime(&NonZero::<U256>::new_unwrap(bb(CB))).1);
    cst!(cx, "rem_wide_vartime", U256, U256::rem_wide_vartime((CA, CB), &NonZero::<U256>::new_unwrap(CM)), U256::rem_wide_vartime((bb(CA), bb(CB)), &NonZero::<U256>::new_unwrap(bb(CM))));
    cst!(cx, "shl", U256, CA.shl(77), bb(CA).shl(bb(77)));
    cst!(cx, "shr", U256, CA.shr(131), bb(CA).shr(bb(131)));
    cst!(cx, "shl_vartime", U256, CA.shl_vartime(64), bb(CA).shl_vartime(bb(64)));
    cst!(cx, "sqrt", U256, CA.sqrt(), bb(CA).sqrt());
    cst!(cx, "sqrt_vartime", U256, CB.sqrt_vartime(), bb(CB).sqrt_vartime());
    cst!(cx, "add_mod", U256, CB.add_mod(&CB, &CM), bb(CB).add_mod(&bb(CB), &bb(CM)));
    cst!(cx, "sub_mod", U256, CB.sub_mod(&CM.wrapping_sub(&U256::ONE), &CM), bb(CB).sub_mod(&bb(CM).wrapping_sub(&U256::ONE), &bb(CM)));
    cst!(cx, "neg_mod", U256, CB.neg_mod(&CM), bb(CB).neg_mod(&bb(CM)));
    cst!(cx, "mul_mod_special", U256, CA.mul_mod_special(&CB, Limb(189)), bb(CA).mul_mod_special(&bb(CB), bb(Limb(189))));
    cst!(cx, "inv_mod2k", U256, CM.inv_mod2k(200).unwrap_or(U256::ZERO), bb(CM).inv_mod2k(bb(200)).unwrap_or(U256::ZERO));
    cst!(cx, "inv_mod2k_vartime", U256, CM.inv_mod2k_vartime(64).unwrap_or(U256::ZERO), bb(CM).inv_mod2k_vartime(bb(64)).unwrap_or(U256::ZERO));
    cst!(cx, "inv_odd_mod", U256, CB.inv_odd_mod(&Odd::<U256>::from_be_hex("ffffffff00000000ffffffffffffffffbce6faada7179e84f3b9cac2fc632551")).unwrap_or(U256::ZERO), bb(CB).inv_odd_mod(&Odd::new(bb(CM)).unwrap()).unwrap_or(U256::ZERO));
    cst!(cx, "inv_mod(even)", U128, CS.inv_mod(&U128::from_be_hex("000000000000000000000000000f0000")).unwrap_or(U128::ZERO), bb(CS).inv_mod(&bb(U128::from_be_hex("000000000000000000000000000f0000"))).unwrap_or(U128::ZERO));
    cst!(cx, "wrapping_neg", U256, CA.wrapping_neg(), bb(CA).wrapping_neg());
    cst!(cx, "bitand_or_xor", U256, CA.bitand(&CB).bitor(&CA.bitxor(&CB)), bb(CA).bitand(&bb(CB)).bitor(&bb(CA).bitxor(&bb(CB))));
    cst!(cx, "rem2k_vartime", U256, CA.rem2k_vartime(100), bb(CA).rem2k_vartime(bb(100)));
    cst!(cx, "concat.split", U256, CS.concat(&CS).split().1.concat(&CS), bb(CS).concat(&bb(CS)).split().1.concat(&bb(CS)));
    cst!(cx, "resize", U256, CS.resize::<4>(), bb(CS).resize::<4>());
    cst!(cx, "from_u128", U256, U256::from_u128(0xffff_0000_ffff_0000_1234_5678_9abc_def0), U256::from_u128(bb(0xffff_0000_ffff_0000_1234_5678_9abc_def0)));
    cst!(cx, "monty.pow", U256, {
        let p = MontyParams::<4>::new(Odd::<U256>::from_be_hex("ffffffff00000000ffffffffffffffffbce6faada7179e84f3b9cac2fc632551"));
        MontyForm::new(&CB, p).pow(&CA).retrieve() }, {
        let p = MontyParams::<4>::new(Odd::new(bb(CM)).unwrap());
        MontyForm::new(&bb(CB), p).pow(&bb(CA)).retrieve() });
    cst!(cx, "monty.new_vartime.mul", U256, {
        let p = MontyParams::<4>::new_vartime(Odd::<U256>::from_be_hex("ffffffff00000000ffffffffffffffffbce6faada7179e84f3b9cac2fc632551"));
        MontyForm::new(&CB, p).mul(&MontyForm::new(&CA, p)).retrieve() }, {
        let p = MontyParams::<4>::new(Odd::new(bb(CM)).unwrap());
        (MontyForm::new(&bb(CB), p) * MontyForm::new(&bb(CA), p)).retrieve() });
    cst!(cx, "u64.gcd", U64, U64::from_u64(3 * 5 * 7 * 1024).gcd(&U64::from_u64(5 * 49 * 64)), bb(U64::from_u64(3 * 5 * 7 * 1024)).gcd(&bb(U64::from_u64(5 * 49 * 64))));
}

fn main() {
    let mut cx = Cx::from_args("C15");
    let s = cx.scale;
    if cx.want("groups") {
        groups!(&mut cx, 1, 150 * s);
        groups!(&mut cx, 2, 150 * s);
        groups!(&mut cx, 3, 100 * s);
        groups!(&mut cx, 4, 150 * s);
        groups!(&mut cx, 8, 60 * s);
        groups!(&mut cx, 16, 20 * s);
        groups!(&mut cx, 32, 6 * s);
    }
    if cx.want("consts") { consts(&mut cx); params_groups(&mut cx); }
    cx.finish();
}
