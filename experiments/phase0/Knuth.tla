---- MODULE Knuth ----
EXTENDS Naturals, Sequences, TLC, FiniteSets
CONSTANTS W, L, YC
B == 2^W
MAXW == B-1
Limbs(n) == [1..n -> 0..MAXW]
RECURSIVE ValR(_,_)
ValR(x,i) == IF i = 0 THEN 0 ELSE x[i]*B^(i-1) + ValR(x,i-1)
Val(x) == ValR(x, Len(x))
\* ---- word primitives (native) ----
Mac(a,b,c,carry) == LET r == a + b*c + carry IN <<r % B, r \div B>>      \* (lo, hi)
Sbb(a,b,borrow) == LET bb == IF borrow = 0 THEN 0 ELSE 1
                        r == a - b - bb IN IF r < 0 THEN <<r + B, MAXW>> ELSE <<r, 0>>
Adc(a,b,c) == LET r == a+b+c IN <<r % B, r \div B>>
\* reciprocal spec (Moeller-Granlund): v = floor((B^2-1)/d) - B
Recip(d) == ((B*B-1) \div d) - B
Div2by1(u1,u0,d,v) ==
  LET q10 == v*u1 + (u1*B + u0)             \* (q1,q0) = v*u1 + <u1,u0>
      q1a == ((q10 \div B) + 1) % B
      q0  == q10 % B
      r0  == (u0 - q1a*d) % B
      gt  == r0 > q0
      q1b == IF gt THEN (q1a - 1) % B ELSE q1a
      r1  == IF gt THEN (r0 + d) % B ELSE r0
      ge  == r1 >= d
  IN <<IF ge THEN (q1b+1) % B ELSE q1b, IF ge THEN r1 - d ELSE r1>>
\* div3by2 as in code; returns <<quo, qmaxed, ncorr>>
Div3by2(u2,u1,u0,v1,v0,rv) ==
  LET qm == (u2 = v1)
      d21 == Div2by1(IF qm THEN 0 ELSE u2, u1, v1, rv)
      quo0 == IF qm THEN MAXW ELSE d21[1]
      rem0 == IF qm THEN u2 + u1 ELSE d21[2]
      Step(qr) == LET quo == qr[1] rem == qr[2]
                      done == (rem \div B # 0) \/ (quo*v0 <= rem*B + u0)
                  IN IF done THEN <<quo, rem, qr[3]>> ELSE <<(quo-1) % B, rem + v1, qr[3]+1>>
      r2 == Step(Step(<<quo0, rem0, 0>>))
  IN <<r2[1], qm, r2[3]>>
\* shl by s<W of an n-limb number, returning limbs and carry-out limb
ShlLimbs(x, s) == [i \in 1..Len(x) |-> ((x[i] * 2^s) % B) + (IF i > 1 THEN x[i-1] \div 2^(W-s) ELSE 0)]
ShlHi(x, s) == x[Len(x)] \div 2^(W-s)
LeadingZeros(w) == CHOOSE k \in 0..W : IF w = 0 THEN k = W ELSE (w * 2^k < B /\ w * 2^k >= B \div 2)
\* one quotient-digit iteration of div_rem_vartime: state <<x, xhi, paths>>
RECURSIVE SubMul(_,_,_,_,_,_,_)
SubMul(x, y, quo, xi, yc, i, cb) == \* cb = <<carry,borrow>> ; returns <<x, carry, borrow>>
  IF i >= yc THEN <<x, cb[1], cb[2]>>
  ELSE LET m == Mac(0, y[i+1], quo, cb[1])
           k == xi + i + 1 - yc + 1
           s == Sbb(x[k], m[1], cb[2])
       IN SubMul([x EXCEPT ![k] = s[1]], y, quo, xi, yc, i+1, <<m[2], s[2]>>)
RECURSIVE AddBack(_,_,_,_,_,_,_)
AddBack(x, y, on, xi, yc, i, carry) ==
  IF i >= yc THEN x
  ELSE LET k == xi + i + 1 - yc + 1
           a == Adc(x[k], IF on THEN y[i+1] ELSE 0, carry)
       IN AddBack([x EXCEPT ![k] = a[1]], y, on, xi, yc, i+1, a[2])
RECURSIVE Loop(_,_,_,_,_,_,_)
\* xi is 0-based index as in code
Loop(x, xhi, y, rv, xi, yc, path) ==
  LET d3 == Div3by2(xhi, x[xi+1], x[xi], y[yc], y[yc-1], rv)
      quo == d3[1]
      sm == SubMul(x, y, quo, xi, yc, 0, <<0,0>>)
      bfin == Sbb(xhi, sm[2], sm[3])[2]
      ab == bfin # 0
      x2 == AddBack(sm[1], y, ab, xi, yc, 0, 0)
      quo2 == IF ab THEN (quo - 1) % B ELSE quo
      xhi2 == x2[xi+1]
      x3 == [x2 EXCEPT ![xi+1] = quo2]
      path2 == Append(path, <<d3[2], d3[3], ab>>)
  IN IF xi = yc - 1 THEN <<x3, xhi2, path2>> ELSE Loop(x3, xhi2, y, rv, xi-1, yc, path2)
\* full div_rem_vartime for divisor with exactly yc significant limbs (yc>=2), returns <<q, r, path>>
DivRemVartime(n, d) ==
  LET yc == YC
      shift == LeadingZeros(d[yc])
      x == ShlLimbs(n, shift)
      xhi == IF shift = 0 THEN 0 ELSE ShlHi(n, shift)
      y == ShlLimbs(d, shift)
      rv == Recip(y[yc])
      lp == Loop(x, xhi, y, rv, L-1, yc, <<>>)
      xs == lp[1]
      remsh == [i \in 1..yc |-> IF i < yc THEN xs[i] ELSE lp[2]]
      rval == Val(remsh) \div 2^shift
      q == [i \in 1..L |-> IF i-1 <= L - yc THEN xs[i + yc - 1] ELSE 0]
  IN <<Val(q), rval, lp[3]>>
VARIABLES n, d, out
Init == /\ n \in Limbs(L) /\ d \in {dd \in Limbs(YC) : dd[YC] # 0} /\ out = <<>>
Next == out = <<>> /\ out' = DivRemVartime(n, d) /\ UNCHANGED <<n,d>>
Spec == Init /\ [][Next]_<<n,d,out>>
Exact == out # <<>> => (out[1] = Val(n) \div Val(d) /\ out[2] = Val(n) % Val(d))
NoAddBack == out # <<>> => \A i \in 1..Len(out[3]) : ~out[3][i][3]
====
