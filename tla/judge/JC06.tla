-------------------------------- MODULE JC06 --------------------------------
(* C06 — comparison, equality, hashing and conditional selection are        *)
(* mutually coherent.                                                       *)
(*                                                                          *)
(* Event classes (field op):                                                *)
(*  "cmp"  a, b, ab, bb, sg, q -> r                                         *)
(*         q in eq ne lt le gt ge: r = 1 iff the relation holds between the *)
(*         represented integers; q = cmp: r = 0 Less / 1 Equal / 2 Greater  *)
(*         (partial_cmp must be Some of that).  sg = 1: a, b are two's-     *)
(*         complement patterns of Int at width ab.  Unsigned values are     *)
(*         compared as numbers whatever their precisions (boxed operands    *)
(*         are zero-padded to the longer one).                              *)
(*  "pred" a, ab, sg, q -> r   is_zero is_nonzero is_one is_odd is_even     *)
(*         is_negative is_positive is_min is_max                            *)
(*  "hash" a, b -> eq, ha, hb  eq = 1 iff a = b, and eq = 1 => ha = hb      *)
(*         (digests of std's DefaultHasher; nothing else is demanded)       *)
(*  "sel"  a, b, ab, bb, ch, q -> r [, r2, rp, rp2]                         *)
(*         select / assign: r = b if ch = 1 else a — exactly, all limbs;    *)
(*         swap: (r, r2) = (b, a) if ch = 1 else (a, b);                    *)
(*         condneg: r = -a mod 2^ab if ch = 1 else a;                       *)
(*         rp / rp2 = precision of the returned boxed values.               *)
(*  "opt"  option-like results: sm = is_some, sn = is_none, r = value of    *)
(*         unwrap_or(def):                                                  *)
(*         nonzero  (to_nz, NonZero::new)   some iff a # 0, value a         *)
(*         odd      (to_odd, Odd::new)      some iff a odd, value a         *)
(*         shift0   (overflowing shift by 0 / by >= BITS: big) some iff     *)
(*                  big = 0, value a                                        *)
(*         abs_sign (Int::new_from_abs_sign(a, ng)) some iff the magnitude  *)
(*                  fits: a <= 2^(ab-1) - 1, or ng and a = 2^(ab-1);        *)
(*                  value = two's complement of -a resp. a                  *)
(* pm = "any": boxed form that asserts equal precisions (debug assertion)   *)
(* while its documentation is silent about different ones: with ab # bb a   *)
(* panic is accepted, or else the exact answer — never a wrong one.         *)
EXTENDS BigNat

C06Has(e, f) == f \in DOMAIN e
C06B(x) == IF x THEN 1 ELSE 0
C06Mixed(e) == C06Has(e, "pm") /\ e.ab # e.bb

C06Ord(e) == IF e.sg = 1 THEN SCmp(SVal(e.a, e.ab), SVal(e.b, e.bb)) ELSE Cmp(e.a, e.b)

C06Cmp(e) ==
  LET c == C06Ord(e)
      x == CASE e.q = "eq"  -> C06B(c = 0)
             [] e.q = "ne"  -> C06B(c # 0)
             [] e.q = "lt"  -> C06B(c < 0)
             [] e.q = "le"  -> C06B(c <= 0)
             [] e.q = "gt"  -> C06B(c > 0)
             [] e.q = "ge"  -> C06B(c >= 0)
             [] e.q = "cmp" -> c + 1
             [] OTHER -> -1
  IN (C06Mixed(e) /\ e.k = "panic") \/ (e.k = "ok" /\ x >= 0 /\ e.r = x)

C06Pred(e) ==
  LET x == CASE e.q = "is_zero"     -> e.a = Zero
             [] e.q = "is_nonzero"  -> e.a # Zero
             [] e.q = "is_one"      -> e.a = One
             [] e.q = "is_odd"      -> IsOdd(e.a)
             [] e.q = "is_even"     -> ~IsOdd(e.a)
             [] e.q = "is_negative" -> e.sg = 1 /\ SNeg(e.a, e.ab)
             [] e.q = "is_positive" -> e.a # Zero /\ ~(e.sg = 1 /\ SNeg(e.a, e.ab))
             [] e.q = "is_min"      -> e.a = (IF e.sg = 1 THEN Pow2(e.ab - 1) ELSE Zero)
             [] e.q = "is_max"      -> e.a = (IF e.sg = 1 THEN Max2k(e.ab - 1) ELSE Max2k(e.ab))
             [] OTHER -> FALSE
  IN /\ e.q \in {"is_zero", "is_nonzero", "is_one", "is_odd", "is_even", "is_negative", "is_positive", "is_min", "is_max"}
     /\ e.k = "ok"
     /\ e.r = C06B(x)

C06Hash(e) ==
  /\ e.k = "ok"
  /\ e.eq = C06B(e.a = e.b)
  /\ (e.a = e.b) => (e.ha = e.hb)

C06Prec(e, f, p) == C06Has(e, f) => (IF C06Mixed(e) THEN e[f] \in {e.ab, e.bb} ELSE e[f] = p)

C06SelOK(e) ==
  LET one == e.ch = 1
  IN /\ e.k = "ok"
     /\ CASE e.q \in {"select", "assign"} ->
               /\ e.r = (IF one THEN e.b ELSE e.a)
               /\ C06Prec(e, "rp", IF one THEN e.bb ELSE e.ab)
          [] e.q = "swap" ->
               /\ e.r  = (IF one THEN e.b ELSE e.a)
               /\ e.r2 = (IF one THEN e.a ELSE e.b)
               /\ C06Prec(e, "rp",  IF one THEN e.bb ELSE e.ab)
               /\ C06Prec(e, "rp2", IF one THEN e.ab ELSE e.bb)
          [] e.q = "condneg" ->
               /\ e.r = (IF one THEN NegMod2k(e.a, e.ab) ELSE e.a)
               /\ C06Has(e, "rp") => e.rp = e.ab
          [] OTHER -> FALSE

C06Sel(e) == (C06Mixed(e) /\ e.k = "panic") \/ C06SelOK(e)

C06Opt(e) ==
  LET half == Pow2(e.ab - 1)
      some == CASE e.q = "nonzero"  -> e.a # Zero
                [] e.q = "odd"      -> IsOdd(e.a)
                [] e.q = "shift0"   -> e.big = 0
                [] e.q = "abs_sign" -> Lt(e.a, half) \/ (e.ng = 1 /\ e.a = half)
                [] OTHER -> FALSE
      val  == IF e.q = "abs_sign" /\ e.ng = 1 THEN NegMod2k(e.a, e.ab) ELSE e.a
  IN /\ e.q \in {"nonzero", "odd", "shift0", "abs_sign"}
     /\ e.k = "ok"
     /\ e.sm = C06B(some)
     /\ C06Has(e, "sn") => e.sn = C06B(~some)
     /\ C06Has(e, "r") => e.r = (IF some THEN val ELSE e.def)

JudgeC06(e, rg) ==
  CASE e.op = "cmp"  -> C06Cmp(e)
    [] e.op = "pred" -> C06Pred(e)
    [] e.op = "hash" -> C06Hash(e)
    [] e.op = "sel"  -> C06Sel(e)
    [] e.op = "opt"  -> C06Opt(e)
    [] OTHER -> FALSE
=============================================================================
