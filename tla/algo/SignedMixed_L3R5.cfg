SPECIFICATION Spec
CONSTANTS LB = 3
 RB = 5
INVARIANT CheckedOK
INVARIANT WideningOK
INVARIANT SplitOK
INVARIANT UintOK
INVARIANT UintRightOK
INVARIANT WideningUintOK
CHECK_DEADLOCK FALSE
