SPECIFICATION Spec
CONSTANTS Moduli = {1, 3, 7, 15}
 RBits = 4
 MaxLen = 4
 Window = 4
 EmitFor = 7
INVARIANT MontyCanonical
INVARIANT MontyTracksZm
INVARIANT HalveIsHalf
INVARIANT Emit
CHECK_DEADLOCK FALSE
