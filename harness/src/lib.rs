//! Recording harness core: drives the real crate and logs every call (inputs and outcome) as one
//! JSON line.  It never judges: every verdict is TLC's, on tla/ApiTrace.tla.
//!
//! Encoding rules (forced by TLC's Json module): every quantity that may exceed 2^31-1 is a
//! little-endian byte array with the most-significant zero bytes stripped (BigNat); only widths,
//! lengths, radices, small shifts and flags are JSON numbers; absent values are omitted, never null.
#![allow(clippy::needless_range_loop)]

pub mod worst_divsteps;
pub mod gens;
pub mod aliases;

use std::fmt::Write as _;
use std::io::Write as _;
use std::panic::{AssertUnwindSafe, catch_unwind};
use std::sync::Mutex;
use std::sync::atomic::{AtomicU64, Ordering};

pub use crypto_bigint as cb;
pub use gens::*;

/// One event under construction: a flat JSON object.
#[derive(Clone)]
pub struct Ev {
    s: String,
}

fn push_bytes_json(s: &mut String, b: &[u8]) {
    s.push('[');
    for (i, x) in b.iter().enumerate() {
        if i > 0 {
            s.push(',');
        }
        let _ = write!(s, "{}", x);
    }
    s.push(']');
}

/// little-endian bytes of a word slice, most-significant zero bytes stripped
pub fn nat_bytes(words: &[u64]) -> Vec<u8> {
    let mut v: Vec<u8> = Vec::with_capacity(words.len() * 8);
    for w in words {
        v.extend_from_slice(&w.to_le_bytes());
    }
    while v.last() == Some(&0) {
        v.pop();
    }
    v
}

pub trait Fields: Sized {
    fn raw(&mut self) -> &mut String;
    /// small integer (|v| < 2^31)
    fn i(mut self, k: &str, v: i64) -> Self {
        assert!(v.abs() < (1 << 31), "field {k} too large for a JSON number: {v}");
        let _ = write!(self.raw(), ",\"{}\":{}", k, v);
        self
    }
    /// string tag
    fn s(mut self, k: &str, v: &str) -> Self {
        let _ = write!(self.raw(), ",\"{}\":\"{}\"", k, v);
        self
    }
    /// natural number given as little-endian words
    fn n(mut self, k: &str, words: &[u64]) -> Self {
        let _ = write!(self.raw(), ",\"{}\":", k);
        let b = nat_bytes(words);
        push_bytes_json(self.raw(), &b);
        self
    }
    /// natural number from a u128 (also used for u32/u64 quantities that may exceed 2^31)
    fn nu(self, k: &str, v: u128) -> Self {
        self.n(k, &[v as u64, (v >> 64) as u64])
    }
    /// raw byte string, kept as is (encodings, numerals)
    fn b(mut self, k: &str, bytes: &[u8]) -> Self {
        let _ = write!(self.raw(), ",\"{}\":", k);
        push_bytes_json(self.raw(), bytes);
        self
    }
    /// boolean as 0/1
    fn f(self, k: &str, v: bool) -> Self {
        self.i(k, v as i64)
    }
    /// list of naturals
    fn nl(mut self, k: &str, items: &[Vec<u64>]) -> Self {
        let _ = write!(self.raw(), ",\"{}\":[", k);
        for (j, it) in items.iter().enumerate() {
            if j > 0 {
                self.raw().push(',');
            }
            let b = nat_bytes(it);
            push_bytes_json(self.raw(), &b);
        }
        self.raw().push(']');
        self
    }
}

impl Ev {
    pub fn new(op: &str, form: &str) -> Ev {
        let mut s = String::with_capacity(256);
        let _ = write!(s, "\"op\":\"{}\",\"form\":\"{}\"", op, form);
        Ev { s }
    }
}
impl Fields for Ev {
    fn raw(&mut self) -> &mut String {
        &mut self.s
    }
}

/// Outcome of a call: ok with output fields, none, err(code), (panic is added by the logger).
pub struct O {
    s: String,
}
impl O {
    pub fn ok() -> O {
        O { s: String::from(",\"k\":\"ok\"") }
    }
    pub fn none() -> O {
        O { s: String::from(",\"k\":\"none\"") }
    }
    pub fn err(code: &str) -> O {
        O { s: format!(",\"k\":\"err\",\"e\":\"{}\"", code) }
    }
}
impl Fields for O {
    fn raw(&mut self) -> &mut String {
        &mut self.s
    }
}

static PROGRESS: AtomicU64 = AtomicU64::new(0);
static PENDING: Mutex<String> = Mutex::new(String::new());
static OUT: Mutex<Option<std::io::BufWriter<std::fs::File>>> = Mutex::new(None);

/// Recording context of one run.
pub struct Cx {
    pub prop: String,
    pub tier: String,
    pub seed: u64,
    pub prof: &'static str,
    pub rng: Rng,
    pub count: u64,
    pub thorough: bool,
    /// volume multiplier: 1 for quick, larger for thorough
    pub scale: usize,
    pub only: Option<String>,
}

impl Cx {
    /// args: --tier quick|thorough --seed N --out FILE [--only SUBSTR]
    pub fn from_args(prop: &str) -> Cx {
        let a: Vec<String> = std::env::args().collect();
        let mut tier = "quick".to_string();
        let mut seed = 1u64;
        let mut out = String::new();
        let mut only = None;
        let mut scale = 0usize;
        let mut i = 1;
        while i < a.len() {
            match a[i].as_str() {
                "--tier" => { tier = a[i + 1].clone(); i += 1; }
                "--seed" => { seed = a[i + 1].parse().expect("seed"); i += 1; }
                "--out" => { out = a[i + 1].clone(); i += 1; }
                "--only" => { only = Some(a[i + 1].clone()); i += 1; }
                "--scale" => { scale = a[i + 1].parse().expect("scale"); i += 1; }
                x => panic!("unknown argument {x}"),
            }
            i += 1;
        }
        assert!(!out.is_empty(), "--out required");
        let f = std::fs::File::create(&out).expect("create trace file");
        *OUT.lock().unwrap() = Some(std::io::BufWriter::with_capacity(1 << 20, f));
        // every panic flushes what has been recorded: if it happens outside a recorded call (preparatory code of a
        // recorder calling into the crate) the process dies, and the driver still judges the events written so far
        let loud = std::env::var("VH_LOUD").is_ok();
        let prev = std::panic::take_hook();
        std::panic::set_hook(Box::new(move |info| {
            if let Ok(mut g) = OUT.try_lock() { if let Some(w) = g.as_mut() { let _ = w.flush(); } }
            if loud { prev(info); }
        }));
        let prof = if cfg!(debug_assertions) { "chk" } else { "rel" };
        let thorough = tier == "thorough";
        if scale == 0 {
            scale = if thorough { 20 } else { 1 };
        }
        // watchdog: a call that makes no progress for 60 s is logged as a hang and the run ends
        std::thread::spawn(|| {
            let mut last = u64::MAX;
            let mut still = 0;
            loop {
                std::thread::sleep(std::time::Duration::from_secs(5));
                let p = PROGRESS.load(Ordering::Relaxed);
                if p == last { still += 1 } else { still = 0; last = p; }
                if still >= 12 {
                    let pend = PENDING.lock().unwrap().clone();
                    if !pend.is_empty() {
                        if let Some(w) = OUT.lock().unwrap().as_mut() {
                            let _ = writeln!(w, "{{{},\"k\":\"hang\"}}", pend);
                            let _ = w.flush();
                        }
                        std::process::exit(0);
                    }
                    still = 0;
                }
            }
        });
        Cx { prop: prop.to_string(), tier, seed, prof, rng: Rng::new(seed ^ 0x9e37_79b9_7f4a_7c15), count: 0, thorough, scale, only }
    }

    /// is this family of events selected (for --only debugging)?
    pub fn want(&self, family: &str) -> bool {
        match &self.only { None => true, Some(s) => family.contains(s.as_str()) }
    }

    /// Log one call.  `f` runs the real code and describes the outcome; a panic is data.
    pub fn call<F: FnOnce() -> O>(&mut self, ev: Ev, f: F) {
        let head = format!("\"p\":\"{}\",\"prof\":\"{}\",{}", self.prop, self.prof, ev.s);
        *PENDING.lock().unwrap() = head;
        let r = catch_unwind(AssertUnwindSafe(f));
        let tail = match r {
            Ok(o) => o.s,
            Err(_) => String::from(",\"k\":\"panic\""),
        };
        let mut p = PENDING.lock().unwrap();
        if let Some(w) = OUT.lock().unwrap().as_mut() {
            let _ = writeln!(w, "{{{}{}}}", *p, tail);
        }
        p.clear();
        self.count += 1;
        PROGRESS.fetch_add(1, Ordering::Relaxed);
    }

    pub fn finish(&mut self) {
        if let Some(w) = OUT.lock().unwrap().as_mut() {
            let _ = w.flush();
        }
        eprintln!("recorded {} events ({} {} seed {})", self.count, self.prop, self.prof, self.seed);
    }
}

// ---------------------------------------------------------------------------------------------
// conversions between word vectors and the crate's types

use cb::{BoxedUint, Int, Limb, NonZero, Odd, Uint};

pub fn u<const N: usize>(v: &[u64]) -> Uint<N> {
    let mut w = [0u64; N];
    for i in 0..N.min(v.len()) {
        w[i] = v[i];
    }
    Uint::<N>::from_words(w)
}
pub fn si<const N: usize>(v: &[u64]) -> Int<N> {
    let mut w = [0u64; N];
    for i in 0..N.min(v.len()) {
        w[i] = v[i];
    }
    Int::<N>::from_words(w)
}
/// boxed value with exactly v.len() limbs (v must not be empty)
pub fn bx(v: &[u64]) -> BoxedUint {
    assert!(!v.is_empty());
    BoxedUint::from_words(v.iter().copied())
}
pub fn w<const N: usize>(x: &Uint<N>) -> Vec<u64> {
    x.to_words().to_vec()
}
pub fn wi<const N: usize>(x: &Int<N>) -> Vec<u64> {
    x.to_words().to_vec()
}
pub fn wb(x: &BoxedUint) -> Vec<u64> {
    x.to_words().to_vec()
}
pub fn nz<const N: usize>(v: &[u64]) -> Option<NonZero<Uint<N>>> {
    Option::from(NonZero::new(u::<N>(v)))
}
pub fn nzb(v: &[u64]) -> Option<NonZero<BoxedUint>> {
    Option::from(NonZero::new(bx(v)))
}
pub fn nzl(x: u64) -> Option<NonZero<Limb>> {
    Option::from(NonZero::new(Limb(x)))
}
pub fn odd<const N: usize>(v: &[u64]) -> Option<Odd<Uint<N>>> {
    Option::from(Odd::new(u::<N>(v)))
}
pub fn oddb(v: &[u64]) -> Option<Odd<BoxedUint>> {
    Option::from(Odd::new(bx(v)))
}
pub fn is_zero(v: &[u64]) -> bool {
    v.iter().all(|x| *x == 0)
}

/// Expand `$f::<N>($($arg),*)` for each listed limb count.
#[macro_export]
macro_rules! for_widths {
    ([$($n:literal),* $(,)?], $f:ident, $($arg:expr),*) => {
        $( $f::<$n>($($arg),*); )*
    };
}
