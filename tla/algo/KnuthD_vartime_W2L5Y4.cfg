SPECIFICATION Spec
CONSTANTS W = 2
 L = 5
 YC = 4
 Mode = "vartime"
INVARIANT Exact
INVARIANT PreHolds
INVARIANT PreHoldsEverywhere
CHECK_DEADLOCK FALSE
