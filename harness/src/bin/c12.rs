//! C12 recorder: every public way of producing a `NonZero<T>` / `Odd<T>` (T = Limb, Uint<N>, Int<N>, BoxedUint).
//!
//! Common input fields: `w` = wrapper ("nz" | "odd"), `bits` = width of T; values of `Int` travel as their
//! two's-complement bit pattern (zero / odd are properties of the pattern).  Event classes:
//!   `mk`      x -> v                      construction / conversion from the value x; `z` = documented outcome for an
//!                                          invalid x ("none" | "panic" | "na" when the argument type rules it out); `vp` =
//!                                          precision of a boxed result
//!   `mapobs`  x, dflt -> v, s             `CtOption<W>::map`: v = what the closure observed, s = is_some of the result;
//!                                          dflt = `W::default()` (subtle documents that a none option feeds `Default`)
//!   `const`   name (one|max|default), sg  -> v
//!   `select`  a, b, c -> v [, v2]         conditional selection / assignment / swap between valid values
//!   `random`  xs (reference samples of plain T drawn from the same scripted stream) -> v; `z` = failure class when the
//!                                          stream ends ("err" | "any")
//!   `decode`  enc, fmt (bytes|array|hex), en (be|le), z -> v
//!   `serde`   enc, codec, [x = what plain T deserialises to] -> v | err
//!   `abs`     x -> v, s                   NonZero<Int>::abs_sign
//!   `widen`   x, p -> v, vp               NonZero<BoxedUint>::widen
use core::num::{NonZeroU8, NonZeroU16, NonZeroU32, NonZeroU64, NonZeroU128};
use vh::cb::modular::{BoxedMontyParams, MontyParams};
use vh::cb::rand_core::{RngCore, TryRngCore};
use vh::cb::subtle::{Choice, ConditionallySelectable, CtOption};
use vh::cb::{BoxedUint, ByteArray, ConstantTimeSelect, Int, Limb, NonZero, Odd, Random, RandomBits, U64, U128, U256, Uint};
use vh::*;

// ---------------------------------------------------------------------------------------------
// scripted random generators

/// infallible: the scripted bytes, then 0xA5 forever
#[derive(Clone)]
struct Script {
    data: Vec<u8>,
    pos: usize,
}
impl Script {
    fn byte(&mut self) -> u8 {
        let b = self.data.get(self.pos).copied().unwrap_or(0xA5);
        self.pos += 1;
        b
    }
}
impl RngCore for Script {
    fn next_u32(&mut self) -> u32 {
        let mut b = [0u8; 4];
        self.fill_bytes(&mut b);
        u32::from_le_bytes(b)
    }
    fn next_u64(&mut self) -> u64 {
        let mut b = [0u8; 8];
        self.fill_bytes(&mut b);
        u64::from_le_bytes(b)
    }
    fn fill_bytes(&mut self, dst: &mut [u8]) {
        for d in dst {
            *d = self.byte();
        }
    }
}

#[derive(Debug)]
struct Exhausted;
impl core::fmt::Display for Exhausted {
    fn fmt(&self, f: &mut core::fmt::Formatter<'_>) -> core::fmt::Result {
        write!(f, "scripted stream exhausted")
    }
}
impl std::error::Error for Exhausted {}

/// fallible: the scripted bytes, then an error
#[derive(Clone)]
struct FScript {
    data: Vec<u8>,
    pos: usize,
}
impl TryRngCore for FScript {
    type Error = Exhausted;
    fn try_next_u32(&mut self) -> Result<u32, Exhausted> {
        let mut b = [0u8; 4];
        self.try_fill_bytes(&mut b)?;
        Ok(u32::from_le_bytes(b))
    }
    fn try_next_u64(&mut self) -> Result<u64, Exhausted> {
        let mut b = [0u8; 8];
        self.try_fill_bytes(&mut b)?;
        Ok(u64::from_le_bytes(b))
    }
    fn try_fill_bytes(&mut self, dst: &mut [u8]) -> Result<(), Exhausted> {
        if self.pos + dst.len() > self.data.len() {
            self.pos = self.data.len();
            return Err(Exhausted);
        }
        dst.copy_from_slice(&self.data[self.pos..self.pos + dst.len()]);
        self.pos += dst.len();
        Ok(())
    }
}

/// a stream for samples of `nl` words: `zeros` all-zero samples first, then structured samples, `total` samples in all
fn stream(r: &mut Rng, nl: usize, zeros: usize, total: usize, cut: usize) -> Vec<u8> {
    let mut words: Vec<u64> = vec![0; nl * zeros];
    for i in zeros..total {
        let mut s = match r.below(6) {
            0 => vec![0u64; nl],
            1 => { let mut v = vec![0u64; nl]; v[0] = 2; v }          // even, low word only
            2 => { let mut v = vec![0u64; nl]; v[nl - 1] = TOP; v }    // only the top bit
            3 => vec![MAX; nl],
            _ => nat(r, nl),
        };
        if i == zeros && zeros > 0 && is_zero(&s) {
            s[0] = 4;
        }
        words.extend(s);
    }
    let mut b: Vec<u8> = words.iter().flat_map(|w| w.to_le_bytes()).collect();
    b.truncate(b.len().saturating_sub(cut));
    b
}

const K: usize = 6;

// ---------------------------------------------------------------------------------------------
// argument values

/// the arguments the quantifier names, for a type of nl words
fn args(r: &mut Rng, nl: usize, extra: usize) -> Vec<Vec<u64>> {
    let mut v: Vec<Vec<u64>> = vec![vec![0; nl], fit(vec![1], nl), fit(vec![2], nl), fit(vec![3], nl), vec![MAX; nl]];
    let mut m1 = vec![MAX; nl];
    m1[0] = MAX - 1;
    v.push(m1);
    let mut top = vec![0u64; nl];
    top[nl - 1] = TOP; // even; only the sign bit of an Int
    v.push(top.clone());
    top[0] |= 1;
    v.push(top);
    // byte-order sensitive: odd in one byte order, even (or zero-looking) in the other
    let mut a = vec![0u64; nl];
    a[nl - 1] = 1 << 56; // most significant byte 01: even, but odd when the bytes are read backwards
    v.push(a.clone());
    a[0] = 2; // low byte 02, high byte 01
    v.push(a);
    let mut b = vec![0u64; nl];
    b[0] = 1;
    b[nl - 1] |= 2 << 56; // low byte 01, high byte 02: odd, even backwards
    v.push(b);
    let mut c = vec![0u64; nl];
    c[0] = 0x100; // second byte only
    v.push(c);
    for _ in 0..extra {
        v.push(nat(r, nl));
        v.push(nat_odd(r, nl));
        let mut e = nat(r, nl);
        e[0] &= !1;
        v.push(e);
    }
    v
}

fn odd_of(v: &[u64]) -> bool {
    v[0] & 1 == 1
}

fn ev(op: &str, form: &str, wr: &str, bits: usize) -> Ev {
    Ev::new(op, form).s("w", wr).i("bits", bits as i64)
}
fn mk(form: &str, wr: &str, bits: usize, x: &[u64], z: &str) -> Ev {
    ev("mk", form, wr, bits).n("x", x).s("z", z)
}
fn out(v: &[u64]) -> O {
    O::ok().n("v", v)
}

// ---------------------------------------------------------------------------------------------
// Limb

fn limb_family(cx: &mut Cx, extra: usize) {
    let xs = args(&mut cx.rng, 1, extra);
    let dflt = [NonZero::<Limb>::default().get().0];
    for x in &xs {
        let l = Limb(x[0]);
        cx.call(mk("NonZero::new<Limb>", "nz", 64, x, "none"), || match Option::from(NonZero::new(l)) { Some(n) => out(&[NonZero::<Limb>::get(n).0]), None => O::none() });
        cx.call(mk("Limb::to_nz->Option", "nz", 64, x, "none"), || match Option::<NonZero<Limb>>::from(l.to_nz()) { Some(n) => out(&[n.get().0]), None => O::none() });
        cx.call(mk("Limb::to_nz->CtOption", "nz", 64, x, "none"), || match Option::<NonZero<Limb>>::from(CtOption::from(l.to_nz())) { Some(n) => out(&[n.get().0]), None => O::none() });
        cx.call(mk("Limb::to_nz.unwrap", "nz", 64, x, "panic"), || out(&[l.to_nz().unwrap().get().0]));
        cx.call(mk("Limb::to_nz.expect", "nz", 64, x, "panic"), || out(&[l.to_nz().expect("zero").get().0]));
        cx.call(mk("NonZero<Limb>::new_unwrap", "nz", 64, x, "panic"), || out(&[NonZero::<Limb>::new_unwrap(l).get().0]));
        cx.call(ev("mapobs", "NonZero::new<Limb>.map", "nz", 64).n("x", x).n("dflt", &dflt), || {
            let mut seen = 0u64;
            let r = NonZero::new(l).map(|n: NonZero<Limb>| { seen = n.get().0; n });
            O::ok().n("v", &[seen]).f("s", bool::from(r.is_some()))
        });
        // decoding
        for (en, be) in [("be", true), ("le", false)] {
            let enc = if be { x[0].to_be_bytes() } else { x[0].to_le_bytes() };
            cx.call(ev("decode", if be { "NonZero<Limb>::from_be_bytes" } else { "NonZero<Limb>::from_le_bytes" }, "nz", 64).s("fmt", "bytes").s("en", en).b("enc", &enc).s("z", "none"), || {
                let r = if be { NonZero::<Limb>::from_be_bytes(enc) } else { NonZero::<Limb>::from_le_bytes(enc) };
                match Option::<NonZero<Limb>>::from(r) { Some(n) => out(&[n.get().0]), None => O::none() }
            });
        }
        serde_case::<Limb, _>(cx, "Limb", "nz", 64, &l, |l| vec![l.0]);
        // primitives that cannot be zero
        if let Some(p) = NonZeroU8::new(x[0] as u8) {
            let px = [p.get() as u64];
            cx.call(mk("NonZero<Limb>::from_u8", "nz", 64, &px, "na"), || out(&[NonZero::<Limb>::from_u8(p).get().0]));
            cx.call(mk("From<NonZeroU8> for NonZero<Limb>", "nz", 64, &px, "na"), || out(&[NonZero::<Limb>::from(p).get().0]));
        }
        if let Some(p) = NonZeroU16::new(x[0] as u16) {
            let px = [p.get() as u64];
            cx.call(mk("NonZero<Limb>::from_u16", "nz", 64, &px, "na"), || out(&[NonZero::<Limb>::from_u16(p).get().0]));
            cx.call(mk("From<NonZeroU16> for NonZero<Limb>", "nz", 64, &px, "na"), || out(&[NonZero::<Limb>::from(p).get().0]));
        }
        if let Some(p) = NonZeroU32::new(x[0] as u32) {
            let px = [p.get() as u64];
            cx.call(mk("NonZero<Limb>::from_u32", "nz", 64, &px, "na"), || out(&[NonZero::<Limb>::from_u32(p).get().0]));
            cx.call(mk("From<NonZeroU32> for NonZero<Limb>", "nz", 64, &px, "na"), || out(&[NonZero::<Limb>::from(p).get().0]));
        }
        if let Some(p) = NonZeroU64::new(x[0]) {
            let px = [p.get()];
            cx.call(mk("NonZero<Limb>::from_u64", "nz", 64, &px, "na"), || out(&[NonZero::<Limb>::from_u64(p).get().0]));
            cx.call(mk("From<NonZeroU64> for NonZero<Limb>", "nz", 64, &px, "na"), || out(&[NonZero::<Limb>::from(p).get().0]));
        }
    }
    cx.call(ev("const", "NonZero<Limb>::ONE", "nz", 64).s("name", "one").f("sg", false), || out(&[NonZero::<Limb>::ONE.get().0]));
    cx.call(ev("const", "NonZero<Limb>::MAX", "nz", 64).s("name", "max").f("sg", false), || out(&[NonZero::<Limb>::MAX.get().0]));
    cx.call(ev("const", "NonZero<Limb>::default", "nz", 64).s("name", "default").f("sg", false), || out(&[NonZero::<Limb>::default().get().0]));
    cx.call(ev("const", "Odd<Limb>::default", "odd", 64).s("name", "default").f("sg", false), || out(&[Odd::<Limb>::default().get().0]));
    // selection between valid values
    let valid: Vec<u64> = xs.iter().map(|x| x[0]).filter(|x| *x != 0).collect();
    for i in 0..valid.len() {
        let (a, b) = (valid[i], valid[(i * 7 + 3) % valid.len()]);
        let (na, nb) = (nzl(a).unwrap(), nzl(b).unwrap());
        for c in [0u8, 1] {
            let e = |form: &str| ev("select", form, "nz", 64).n("a", &[a]).n("b", &[b]).f("c", c == 1);
            cx.call(e("NonZero<Limb>::conditional_select"), || out(&[NonZero::conditional_select(&na, &nb, Choice::from(c)).get().0]));
            cx.call(e("NonZero<Limb>::ct_select"), || out(&[<NonZero<Limb> as ConstantTimeSelect>::ct_select(&na, &nb, Choice::from(c)).get().0]));
            cx.call(e("NonZero<Limb>::conditional_assign"), || { let mut t = na; t.conditional_assign(&nb, Choice::from(c)); out(&[t.get().0]) });
            cx.call(e("NonZero<Limb>::conditional_swap"), || { let (mut s, mut t) = (na, nb); NonZero::conditional_swap(&mut s, &mut t, Choice::from(c)); out(&[s.get().0]).n("v2", &[t.get().0]) });
        }
    }
    // random generation
    for it in 0..(12 + 4 * extra) {
        // long runs of zero draws too: a rejection loop with a bounded number of retries gives up after them
        let zeros = [0usize, 1, 2, 3, 4, 63, 64, 65, 66, 129, 257, 5][it % 12];
        let data = stream(&mut cx.rng, 1, zeros, zeros + 2, 0);
        let mut rf = Script { data: data.clone(), pos: 0 };
        let xs: Vec<Vec<u64>> = (0..K.max(zeros + 2)).map(|_| vec![Limb::random(&mut rf).0]).collect();
        cx.call(ev("random", "NonZero<Limb>::random", "nz", 64).nl("xs", &xs).s("z", "err"), || { let mut g = Script { data: data.clone(), pos: 0 }; out(&[NonZero::<Limb>::random(&mut g).get().0]) });
        let cut = if it % 3 == 0 { 8 * cx.rng.range(1, 2) } else { 0 };
        let data = stream(&mut cx.rng, 1, zeros, zeros + 1, cut);
        let mut rf = FScript { data: data.clone(), pos: 0 };
        let mut xs = vec![];
        while let Ok(l) = Limb::try_random(&mut rf) { xs.push(vec![l.0]); }
        cx.call(ev("random", "NonZero<Limb>::try_random", "nz", 64).nl("xs", &xs).s("z", "err"), || {
            let mut g = FScript { data: data.clone(), pos: 0 };
            match NonZero::<Limb>::try_random(&mut g) { Ok(n) => out(&[n.get().0]), Err(_) => O::err("Rng") }
        });
    }
}

// ---------------------------------------------------------------------------------------------
// serde, generic over the plain type

fn serde_case<T, F>(cx: &mut Cx, tname: &str, wr: &str, bits: usize, plain: &T, words: F)
where
    T: serde::Serialize + serde::de::DeserializeOwned + Clone,
    NonZero<T>: serde::de::DeserializeOwned,
    F: Fn(&T) -> Vec<u64> + Copy,
    SerdeW<T>: WrapDe<T>,
{
    let _ = wr;
    // encodings produced by the crate's own serializer of the plain type, then damaged variants
    let bin = bincode::serialize(plain).expect("bincode");
    let js = serde_json::to_vec(plain).expect("json");
    let mut cases: Vec<(&str, Vec<u8>)> = vec![("bincode", bin.clone()), ("json", js.clone())];
    let pick = cx.rng.below(6);
    match pick {
        0 => { let mut b = bin.clone(); b.pop(); cases.push(("bincode", b)); }
        1 => { let mut b = bin.clone(); if !b.is_empty() { let i = cx.rng.below(b.len()); b[i] ^= 1 << cx.rng.below(8); } cases.push(("bincode", b)); }
        2 => { let mut j = js.clone(); if j.len() > 2 { let i = cx.rng.range(1, j.len() - 2); j[i] = cx.rng.pick(b"0123456789abcdefABCDEFg \"x"); } cases.push(("json", j)); }
        3 => { let mut j = js.clone(); if j.len() > 2 { j.remove(1); } cases.push(("json", j)); }
        4 => cases.push(("json", js.to_ascii_uppercase())),
        _ => cases.push(("json", b"null".to_vec())),
    }
    for (codec, enc) in cases {
        let reference: Option<T> = if codec == "bincode" { bincode::deserialize::<T>(&enc).ok() } else { serde_json::from_slice::<T>(&enc).ok() };
        for wr in <SerdeW<T> as WrapDe<T>>::WRAPPERS {
            let mut e = ev("serde", &format!("{}<{}>::deserialize/{}", if *wr == "nz" { "NonZero" } else { "Odd" }, tname, codec), wr, bits).s("codec", codec).b("enc", &enc);
            if let Some(x) = &reference {
                e = e.n("x", &words(x));
            }
            cx.call(e, || match <SerdeW<T> as WrapDe<T>>::de(wr, codec, &enc) { Some(v) => out(&words(&v)), None => O::err("De") });
        }
    }
}

/// which wrappers of T are deserializable, and how
struct SerdeW<T>(core::marker::PhantomData<T>);
trait WrapDe<T> {
    const WRAPPERS: &'static [&'static str];
    fn de(wr: &str, codec: &str, enc: &[u8]) -> Option<T>;
}
fn de_any<W: serde::de::DeserializeOwned>(codec: &str, enc: &[u8]) -> Option<W> {
    if codec == "bincode" { bincode::deserialize::<W>(enc).ok() } else { serde_json::from_slice::<W>(enc).ok() }
}
impl WrapDe<Limb> for SerdeW<Limb> {
    const WRAPPERS: &'static [&'static str] = &["nz"];
    fn de(_wr: &str, codec: &str, enc: &[u8]) -> Option<Limb> {
        de_any::<NonZero<Limb>>(codec, enc).map(|n| n.get())
    }
}
macro_rules! serde_uint {
    ($($t:ty),*) => {$(
        impl WrapDe<$t> for SerdeW<$t> {
            const WRAPPERS: &'static [&'static str] = &["nz", "odd"];
            fn de(wr: &str, codec: &str, enc: &[u8]) -> Option<$t> {
                if wr == "nz" { de_any::<NonZero<$t>>(codec, enc).map(|n| n.get()) } else { de_any::<Odd<$t>>(codec, enc).map(|n| n.get()) }
            }
        }
    )*};
}
serde_uint!(U64, U128, U256);

// ---------------------------------------------------------------------------------------------
// Uint<N>

fn hexs(b: &[u8]) -> String {
    b.iter().map(|x| format!("{:02x}", x)).collect()
}
fn be_bytes(x: &[u64]) -> Vec<u8> {
    x.iter().rev().flat_map(|w| w.to_be_bytes()).collect()
}
fn le_bytes(x: &[u64]) -> Vec<u8> {
    x.iter().flat_map(|w| w.to_le_bytes()).collect()
}

fn uint_family<const N: usize>(cx: &mut Cx, extra: usize) {
    let bits = 64 * N;
    let xs = args(&mut cx.rng, N, extra);
    let dnz = w(&NonZero::<Uint<N>>::default().get());
    let dodd = w(&Odd::<Uint<N>>::default().get());
    for x in &xs {
        let a = u::<N>(x);
        // NonZero
        cx.call(mk("NonZero::new<Uint>", "nz", bits, x, "none"), || match Option::from(NonZero::new(a)) { Some(n) => out(&w(&NonZero::<Uint<N>>::get(n))), None => O::none() });
        cx.call(mk("Uint::to_nz->Option", "nz", bits, x, "none"), || match Option::<NonZero<Uint<N>>>::from(a.to_nz()) { Some(n) => out(&w(&n.get())), None => O::none() });
        cx.call(mk("Uint::to_nz->CtOption", "nz", bits, x, "none"), || match Option::<NonZero<Uint<N>>>::from(CtOption::from(a.to_nz())) { Some(n) => out(&w(&n.get())), None => O::none() });
        cx.call(mk("Uint::to_nz.unwrap", "nz", bits, x, "panic"), || out(&w(&a.to_nz().unwrap().get())));
        cx.call(mk("Uint::to_nz.unwrap.deref", "nz", bits, x, "panic"), || { let n = a.to_nz().unwrap(); let d: &Uint<N> = &n; out(&w(d)) });
        cx.call(mk("Uint::to_nz.unwrap.as_ref", "nz", bits, x, "panic"), || { let n = a.to_nz().unwrap(); out(&w(n.as_ref())) });
        cx.call(mk("Uint::to_nz.expect", "nz", bits, x, "panic"), || out(&w(&a.to_nz().expect("zero").get())));
        cx.call(mk("NonZero<Uint>::new_unwrap", "nz", bits, x, "panic"), || out(&w(&NonZero::<Uint<N>>::new_unwrap(a).get())));
        cx.call(ev("mapobs", "NonZero::new<Uint>.map", "nz", bits).n("x", x).n("dflt", &dnz), || {
            let mut seen = Uint::<N>::ZERO;
            let r = NonZero::new(a).map(|n: NonZero<Uint<N>>| { seen = n.get(); n });
            O::ok().n("v", &w(&seen)).f("s", bool::from(r.is_some()))
        });
        // Odd
        cx.call(mk("Odd::new<Uint>", "odd", bits, x, "none"), || match Option::from(Odd::new(a)) { Some(n) => out(&w(&Odd::<Uint<N>>::get(n))), None => O::none() });
        cx.call(mk("Uint::to_odd->Option", "odd", bits, x, "none"), || match Option::<Odd<Uint<N>>>::from(a.to_odd()) { Some(n) => out(&w(&n.get())), None => O::none() });
        cx.call(mk("Uint::to_odd->CtOption", "odd", bits, x, "none"), || match Option::<Odd<Uint<N>>>::from(CtOption::from(a.to_odd())) { Some(n) => out(&w(&n.get())), None => O::none() });
        cx.call(mk("Uint::to_odd.unwrap", "odd", bits, x, "panic"), || out(&w(&a.to_odd().unwrap().get())));
        cx.call(mk("Uint::to_odd.unwrap.deref", "odd", bits, x, "panic"), || { let n = a.to_odd().unwrap(); let d: &Uint<N> = &n; out(&w(d)) });
        cx.call(mk("Uint::to_odd.unwrap.as_nz_ref.deref", "odd", bits, x, "panic"), || { let n = a.to_odd().unwrap(); let d: &Uint<N> = n.as_nz_ref(); out(&w(d)) });
        cx.call(mk("Uint::to_odd.expect", "odd", bits, x, "panic"), || out(&w(&a.to_odd().expect("even").get())));
        cx.call(ev("mapobs", "Odd::new<Uint>.map", "odd", bits).n("x", x).n("dflt", &dodd), || {
            let mut seen = Uint::<N>::ZERO;
            let r = Odd::new(a).map(|n: Odd<Uint<N>>| { seen = n.get(); n });
            O::ok().n("v", &w(&seen)).f("s", bool::from(r.is_some()))
        });
        // hex constructors of Odd (documented: panic if malformed, not zero-padded for the size, or even)
        let (hb, hl) = (hexs(&be_bytes(x)), hexs(&le_bytes(x)));
        cx.call(ev("decode", "Odd<Uint>::from_be_hex", "odd", bits).s("fmt", "hex").s("en", "be").b("enc", hb.as_bytes()).s("z", "panic"), || out(&w(&Odd::<Uint<N>>::from_be_hex(&hb).get())));
        cx.call(ev("decode", "Odd<Uint>::from_le_hex", "odd", bits).s("fmt", "hex").s("en", "le").b("enc", hl.as_bytes()).s("z", "panic"), || out(&w(&Odd::<Uint<N>>::from_le_hex(&hl).get())));
        if cx.rng.chance(1, 3) {
            // upper case, and garbage: wrong length, a non-hex character
            let up = hb.to_ascii_uppercase();
            cx.call(ev("decode", "Odd<Uint>::from_be_hex", "odd", bits).s("fmt", "hex").s("en", "be").b("enc", up.as_bytes()).s("z", "panic"), || out(&w(&Odd::<Uint<N>>::from_be_hex(&up).get())));
            let mut g = hl.clone().into_bytes();
            match cx.rng.below(4) {
                0 => { g.pop(); }
                1 => { g.push(b'1'); g.push(b'1'); }
                2 => { let i = cx.rng.below(g.len()); g[i] = cx.rng.pick(b"gG xz-_"); }
                _ => { g.truncate(g.len() - 16); }
            }
            let gs = String::from_utf8(g).unwrap();
            cx.call(ev("decode", "Odd<Uint>::from_le_hex", "odd", bits).s("fmt", "hex").s("en", "le").b("enc", gs.as_bytes()).s("z", "panic"), || out(&w(&Odd::<Uint<N>>::from_le_hex(&gs).get())));
            cx.call(ev("decode", "Odd<Uint>::from_be_hex", "odd", bits).s("fmt", "hex").s("en", "be").b("enc", gs.as_bytes()).s("z", "panic"), || out(&w(&Odd::<Uint<N>>::from_be_hex(&gs).get())));
        }
        // from valid wrappers
        if odd_of(x) {
            let o = odd::<N>(x).unwrap();
            cx.call(mk("Odd<Uint>::as_nz_ref", "nz", bits, x, "na"), || out(&w(&o.as_nz_ref().get())));
            cx.call(mk("AsRef<NonZero<Uint>> for Odd<Uint>", "nz", bits, x, "na"), || { let r: &NonZero<Uint<N>> = AsRef::<NonZero<Uint<N>>>::as_ref(&o); out(&w(&r.get())) });
            cx.call(mk("From<Odd<Uint>> for Odd<BoxedUint>", "odd", bits, x, "na"), || { let b = Odd::<BoxedUint>::from(o); out(&wb(b.as_ref())).i("vp", b.bits_precision() as i64) });
            cx.call(mk("From<&Odd<Uint>> for Odd<BoxedUint>", "odd", bits, x, "na"), || { let b = Odd::<BoxedUint>::from(&o); out(&wb(b.as_ref())).i("vp", b.bits_precision() as i64) });
            cx.call(mk("Odd<Uint>::clone", "odd", bits, x, "na"), || out(&w(&Clone::clone(&o).get())));
        }
        if !is_zero(x) {
            let n = nz::<N>(x).unwrap();
            cx.call(mk("NonZero<Uint>::clone", "nz", bits, x, "na"), || out(&w(&Clone::clone(&n).get())));
        }
        // primitives that cannot be zero
        if let Some(p) = NonZeroU8::new(x[0] as u8) {
            let px = [p.get() as u64];
            cx.call(mk("NonZero<Uint>::from_u8", "nz", bits, &px, "na"), || out(&w(&NonZero::<Uint<N>>::from_u8(p).get())));
            cx.call(mk("From<NonZeroU8> for NonZero<Uint>", "nz", bits, &px, "na"), || out(&w(&NonZero::<Uint<N>>::from(p).get())));
        }
        if let Some(p) = NonZeroU16::new(x[0] as u16) {
            let px = [p.get() as u64];
            cx.call(mk("NonZero<Uint>::from_u16", "nz", bits, &px, "na"), || out(&w(&NonZero::<Uint<N>>::from_u16(p).get())));
            cx.call(mk("From<NonZeroU16> for NonZero<Uint>", "nz", bits, &px, "na"), || out(&w(&NonZero::<Uint<N>>::from(p).get())));
        }
        if let Some(p) = NonZeroU32::new(x[0] as u32) {
            let px = [p.get() as u64];
            cx.call(mk("NonZero<Uint>::from_u32", "nz", bits, &px, "na"), || out(&w(&NonZero::<Uint<N>>::from_u32(p).get())));
            cx.call(mk("From<NonZeroU32> for NonZero<Uint>", "nz", bits, &px, "na"), || out(&w(&NonZero::<Uint<N>>::from(p).get())));
        }
        if let Some(p) = NonZeroU64::new(x[0]) {
            let px = [p.get()];
            cx.call(mk("NonZero<Uint>::from_u64", "nz", bits, &px, "na"), || out(&w(&NonZero::<Uint<N>>::from_u64(p).get())));
            cx.call(mk("From<NonZeroU64> for NonZero<Uint>", "nz", bits, &px, "na"), || out(&w(&NonZero::<Uint<N>>::from(p).get())));
        }
        if N == 1 {
            // a u128 that does not fit the type: the constructor may refuse (panic) but must never wrap an invalid value
            for hi in [1u64, 3, 1 << 63, x[0] | 1] {
                for lo in [0u64, x[0]] {
                    let p = NonZeroU128::new(((hi as u128) << 64) | lo as u128).unwrap();
                    let px = [lo, hi];
                    cx.call(ev("mkfit", "NonZero<Uint>::from_u128(narrow)", "nz", bits).n("x", &px).s("z", "panic"), || out(&w(&NonZero::<Uint<N>>::from_u128(p).get())));
                    cx.call(ev("mkfit", "From<NonZeroU128> for NonZero<Uint>(narrow)", "nz", bits).n("x", &px).s("z", "panic"), || out(&w(&NonZero::<Uint<N>>::from(p).get())));
                }
            }
        }
        if N >= 2 {
            let v128 = (x[0] as u128) | ((x[1 % N] as u128) << 64);
            if let Some(p) = NonZeroU128::new(v128) {
                let px = [x[0], x[1 % N]];
                cx.call(mk("NonZero<Uint>::from_u128", "nz", bits, &px, "na"), || out(&w(&NonZero::<Uint<N>>::from_u128(p).get())));
                cx.call(mk("From<NonZeroU128> for NonZero<Uint>", "nz", bits, &px, "na"), || out(&w(&NonZero::<Uint<N>>::from(p).get())));
            }
        }
    }
    cx.call(ev("const", "NonZero<Uint>::ONE", "nz", bits).s("name", "one").f("sg", false), || out(&w(&NonZero::<Uint<N>>::ONE.get())));
    cx.call(ev("const", "NonZero<Uint>::MAX", "nz", bits).s("name", "max").f("sg", false), || out(&w(&NonZero::<Uint<N>>::MAX.get())));
    cx.call(ev("const", "NonZero<Uint>::default", "nz", bits).s("name", "default").f("sg", false), || out(&w(&NonZero::<Uint<N>>::default().get())));
    cx.call(ev("const", "Odd<Uint>::default", "odd", bits).s("name", "default").f("sg", false), || out(&w(&Odd::<Uint<N>>::default().get())));
    // selection between valid values
    let vnz: Vec<&Vec<u64>> = xs.iter().filter(|x| !is_zero(x)).collect();
    let vodd: Vec<&Vec<u64>> = xs.iter().filter(|x| odd_of(x)).collect();
    for i in 0..vnz.len() {
        let (a, b) = (vnz[i], vnz[(i * 7 + 3) % vnz.len()]);
        let (na, nb) = (nz::<N>(a).unwrap(), nz::<N>(b).unwrap());
        for c in [0u8, 1] {
            let e = |form: &str| ev("select", form, "nz", bits).n("a", a).n("b", b).f("c", c == 1);
            cx.call(e("NonZero<Uint>::conditional_select"), || out(&w(&NonZero::conditional_select(&na, &nb, Choice::from(c)).get())));
            cx.call(e("NonZero<Uint>::ct_select"), || out(&w(&<NonZero<Uint<N>> as ConstantTimeSelect>::ct_select(&na, &nb, Choice::from(c)).get())));
            cx.call(e("NonZero<Uint>::conditional_assign"), || { let mut t = na; t.conditional_assign(&nb, Choice::from(c)); out(&w(&t.get())) });
            cx.call(e("NonZero<Uint>::conditional_swap"), || { let (mut s, mut t) = (na, nb); NonZero::conditional_swap(&mut s, &mut t, Choice::from(c)); out(&w(&s.get())).n("v2", &w(&t.get())) });
        }
    }
    for i in 0..vodd.len() {
        let (a, b) = (vodd[i], vodd[(i * 5 + 2) % vodd.len()]);
        let (oa, ob) = (odd::<N>(a).unwrap(), odd::<N>(b).unwrap());
        for c in [0u8, 1] {
            let e = |form: &str| ev("select", form, "odd", bits).n("a", a).n("b", b).f("c", c == 1);
            cx.call(e("Odd<Uint>::conditional_select"), || out(&w(&Odd::conditional_select(&oa, &ob, Choice::from(c)).get())));
            cx.call(e("Odd<Uint>::ct_select"), || out(&w(&<Odd<Uint<N>> as ConstantTimeSelect>::ct_select(&oa, &ob, Choice::from(c)).get())));
            cx.call(e("Odd<Uint>::conditional_assign"), || { let mut t = oa; t.conditional_assign(&ob, Choice::from(c)); out(&w(&t.get())) });
            cx.call(e("Odd<Uint>::conditional_swap"), || { let (mut s, mut t) = (oa, ob); Odd::conditional_swap(&mut s, &mut t, Choice::from(c)); out(&w(&s.get())).n("v2", &w(&t.get())) });
        }
    }
    // random generation
    for it in 0..(12 + 4 * extra) {
        let zeros = if N <= 4 { [0usize, 1, 2, 3, 4, 63, 64, 65, 66, 129, 5, 6][it % 12] } else { it % 5 };
        let data = stream(&mut cx.rng, N, zeros, zeros + 2, 0);
        let mut rf = Script { data: data.clone(), pos: 0 };
        let xs: Vec<Vec<u64>> = (0..K.max(zeros + 2)).map(|_| w(&Uint::<N>::random(&mut rf))).collect();
        cx.call(ev("random", "NonZero<Uint>::random", "nz", bits).nl("xs", &xs).s("z", "err"), || { let mut g = Script { data: data.clone(), pos: 0 }; out(&w(&NonZero::<Uint<N>>::random(&mut g).get())) });
        cx.call(ev("random", "Odd<Uint>::random", "odd", bits).nl("xs", &xs).s("z", "err"), || { let mut g = Script { data: data.clone(), pos: 0 }; out(&w(&Odd::<Uint<N>>::random(&mut g).get())) });
        let cut = if it % 3 == 0 { cx.rng.range(1, 8 * N) } else { 0 };
        let data = stream(&mut cx.rng, N, zeros, zeros + 1, cut);
        let mut rf = FScript { data: data.clone(), pos: 0 };
        let mut xs = vec![];
        while let Ok(l) = Uint::<N>::try_random(&mut rf) { xs.push(w(&l)); }
        cx.call(ev("random", "NonZero<Uint>::try_random", "nz", bits).nl("xs", &xs).s("z", "err"), || {
            let mut g = FScript { data: data.clone(), pos: 0 };
            match NonZero::<Uint<N>>::try_random(&mut g) { Ok(n) => out(&w(&n.get())), Err(_) => O::err("Rng") }
        });
        cx.call(ev("random", "Odd<Uint>::try_random", "odd", bits).nl("xs", &xs).s("z", "err"), || {
            let mut g = FScript { data: data.clone(), pos: 0 };
            match Odd::<Uint<N>>::try_random(&mut g) { Ok(n) => out(&w(&n.get())), Err(_) => O::err("Rng") }
        });
    }
}

/// what needs `Encoding` / `ArrayEncoding` / the double-width `Concat` (named sizes only)
macro_rules! uint_named_family {
    ($cx:expr, $t:ty, $n:literal, $extra:expr) => {{
        let cx: &mut Cx = $cx;
        let bits = 64 * $n;
        let xs = args(&mut cx.rng, $n, $extra);
        for x in &xs {
            let a = u::<$n>(x);
            for (en, be) in [("be", true), ("le", false)] {
                let enc = if be { be_bytes(x) } else { le_bytes(x) };
                let arr: [u8; 8 * $n] = enc.clone().try_into().unwrap();
                cx.call(ev("decode", if be { "NonZero<Uint>::from_be_bytes" } else { "NonZero<Uint>::from_le_bytes" }, "nz", bits).s("fmt", "bytes").s("en", en).b("enc", &enc).s("z", "none"), || {
                    let r = if be { NonZero::<$t>::from_be_bytes(arr) } else { NonZero::<$t>::from_le_bytes(arr) };
                    match Option::<NonZero<$t>>::from(r) { Some(n) => out(&w(&n.get())), None => O::none() }
                });
                cx.call(ev("decode", if be { "NonZero<Uint>::from_be_byte_array" } else { "NonZero<Uint>::from_le_byte_array" }, "nz", bits).s("fmt", "array").s("en", en).b("enc", &enc).s("z", "none"), || {
                    let ba: ByteArray<$t> = arr.into();
                    let r = if be { NonZero::<$t>::from_be_byte_array(ba) } else { NonZero::<$t>::from_le_byte_array(ba) };
                    match Option::<NonZero<$t>>::from(r) { Some(n) => out(&w(&n.get())), None => O::none() }
                });
            }
            serde_case::<$t, _>(cx, "Uint", "nz", bits, &a, |v| w(v));
            if odd_of(x) {
                let o = odd::<$n>(x).unwrap();
                cx.call(mk("MontyParams::new.modulus", "odd", bits, x, "na"), || out(&w(&MontyParams::new(o).modulus().get())));
                cx.call(mk("MontyParams::new_vartime.modulus", "odd", bits, x, "na"), || out(&w(&MontyParams::new_vartime(o).modulus().get())));
            }
        }
    }};
}

// ---------------------------------------------------------------------------------------------
// Int<N>

fn int_family<const N: usize>(cx: &mut Cx, extra: usize) {
    let bits = 64 * N;
    let xs = args(&mut cx.rng, N, extra);
    let dnz = wi(&NonZero::<Int<N>>::default().get());
    for x in &xs {
        let a = si::<N>(x);
        cx.call(mk("NonZero::new<Int>", "nz", bits, x, "none"), || match Option::from(NonZero::new(a)) { Some(n) => out(&wi(&NonZero::<Int<N>>::get(n))), None => O::none() });
        cx.call(mk("Int::to_nz->Option", "nz", bits, x, "none"), || match Option::<NonZero<Int<N>>>::from(a.to_nz()) { Some(n) => out(&wi(&n.get())), None => O::none() });
        cx.call(mk("Int::to_nz->CtOption", "nz", bits, x, "none"), || match Option::<NonZero<Int<N>>>::from(CtOption::from(a.to_nz())) { Some(n) => out(&wi(&n.get())), None => O::none() });
        cx.call(mk("Int::to_nz.unwrap", "nz", bits, x, "panic"), || out(&wi(&a.to_nz().unwrap().get())));
        cx.call(mk("Int::to_odd->Option", "odd", bits, x, "none"), || match Option::<Odd<Int<N>>>::from(a.to_odd()) { Some(n) => out(&wi(&n.get())), None => O::none() });
        cx.call(mk("Int::to_odd->CtOption", "odd", bits, x, "none"), || match Option::<Odd<Int<N>>>::from(CtOption::from(a.to_odd())) { Some(n) => out(&wi(&n.get())), None => O::none() });
        cx.call(mk("Int::to_odd.unwrap", "odd", bits, x, "panic"), || out(&wi(&a.to_odd().unwrap().get())));
        cx.call(ev("mapobs", "NonZero::new<Int>.map", "nz", bits).n("x", x).n("dflt", &dnz), || {
            let mut seen = Int::<N>::ZERO;
            let r = NonZero::new(a).map(|n: NonZero<Int<N>>| { seen = n.get(); n });
            O::ok().n("v", &wi(&seen)).f("s", bool::from(r.is_some()))
        });
        if !is_zero(x) {
            let n: NonZero<Int<N>> = Option::from(a.to_nz()).unwrap();
            cx.call(ev("abs", "NonZero<Int>::abs_sign", "nz", bits).n("x", x), || { let (m, s) = n.abs_sign(); out(&w(&m.get())).f("s", bool::from(s)) });
        }
        if odd_of(x) {
            let o: Odd<Int<N>> = Option::from(a.to_odd()).unwrap();
            cx.call(mk("Odd<Int>::as_nz_ref", "nz", bits, x, "na"), || out(&wi(&o.as_nz_ref().get())));
        }
    }
    cx.call(ev("const", "NonZero<Int>::ONE", "nz", bits).s("name", "one").f("sg", true), || out(&wi(&NonZero::<Int<N>>::ONE.get())));
    cx.call(ev("const", "NonZero<Int>::MAX", "nz", bits).s("name", "max").f("sg", true), || out(&wi(&NonZero::<Int<N>>::MAX.get())));
    cx.call(ev("const", "NonZero<Int>::default", "nz", bits).s("name", "default").f("sg", true), || out(&wi(&NonZero::<Int<N>>::default().get())));
    cx.call(ev("const", "Odd<Int>::default", "odd", bits).s("name", "default").f("sg", true), || out(&wi(&Odd::<Int<N>>::default().get())));
    let vnz: Vec<&Vec<u64>> = xs.iter().filter(|x| !is_zero(x)).collect();
    let vodd: Vec<&Vec<u64>> = xs.iter().filter(|x| odd_of(x)).collect();
    for i in 0..vnz.len() {
        let (a, b) = (vnz[i], vnz[(i * 7 + 3) % vnz.len()]);
        let na: NonZero<Int<N>> = Option::from(si::<N>(a).to_nz()).unwrap();
        let nb: NonZero<Int<N>> = Option::from(si::<N>(b).to_nz()).unwrap();
        for c in [0u8, 1] {
            let e = |form: &str| ev("select", form, "nz", bits).n("a", a).n("b", b).f("c", c == 1);
            cx.call(e("NonZero<Int>::conditional_select"), || out(&wi(&NonZero::conditional_select(&na, &nb, Choice::from(c)).get())));
            cx.call(e("NonZero<Int>::conditional_swap"), || { let (mut s, mut t) = (na, nb); NonZero::conditional_swap(&mut s, &mut t, Choice::from(c)); out(&wi(&s.get())).n("v2", &wi(&t.get())) });
        }
    }
    for i in 0..vodd.len() {
        let (a, b) = (vodd[i], vodd[(i * 5 + 2) % vodd.len()]);
        let oa: Odd<Int<N>> = Option::from(si::<N>(a).to_odd()).unwrap();
        let ob: Odd<Int<N>> = Option::from(si::<N>(b).to_odd()).unwrap();
        for c in [0u8, 1] {
            let e = |form: &str| ev("select", form, "odd", bits).n("a", a).n("b", b).f("c", c == 1);
            cx.call(e("Odd<Int>::conditional_select"), || out(&wi(&Odd::conditional_select(&oa, &ob, Choice::from(c)).get())));
            cx.call(e("Odd<Int>::conditional_assign"), || { let mut t = oa; t.conditional_assign(&ob, Choice::from(c)); out(&wi(&t.get())) });
        }
    }
    for it in 0..(6 + 2 * extra) {
        let zeros = it % 4;
        let data = stream(&mut cx.rng, N, zeros, zeros + 2, 0);
        let mut rf = Script { data: data.clone(), pos: 0 };
        let xs: Vec<Vec<u64>> = (0..K).map(|_| wi(&Int::<N>::random(&mut rf))).collect();
        cx.call(ev("random", "NonZero<Int>::random", "nz", bits).nl("xs", &xs).s("z", "err"), || { let mut g = Script { data: data.clone(), pos: 0 }; out(&wi(&NonZero::<Int<N>>::random(&mut g).get())) });
        let cut = if it % 2 == 0 { cx.rng.range(1, 8 * N) } else { 0 };
        let data = stream(&mut cx.rng, N, zeros, zeros + 1, cut);
        let mut rf = FScript { data: data.clone(), pos: 0 };
        let mut xs = vec![];
        while let Ok(l) = Int::<N>::try_random(&mut rf) { xs.push(wi(&l)); }
        cx.call(ev("random", "NonZero<Int>::try_random", "nz", bits).nl("xs", &xs).s("z", "err"), || {
            let mut g = FScript { data: data.clone(), pos: 0 };
            match NonZero::<Int<N>>::try_random(&mut g) { Ok(n) => out(&wi(&n.get())), Err(_) => O::err("Rng") }
        });
    }
}

// ---------------------------------------------------------------------------------------------
// BoxedUint

fn boxed_family(cx: &mut Cx, nl: usize, extra: usize) {
    let bits = 64 * nl;
    let xs = args(&mut cx.rng, nl, extra);
    for x in &xs {
        let a = bx(x);
        cx.call(mk("NonZero::new<BoxedUint>", "nz", bits, x, "none"), || match Option::<NonZero<BoxedUint>>::from(NonZero::new(a.clone())) { Some(n) => out(&wb(&n)).i("vp", n.bits_precision() as i64), None => O::none() });
        cx.call(mk("Odd::new<BoxedUint>", "odd", bits, x, "none"), || match Option::<Odd<BoxedUint>>::from(Odd::new(a.clone())) { Some(n) => out(&wb(&n)).i("vp", n.bits_precision() as i64), None => O::none() });
        cx.call(mk("BoxedUint::to_odd", "odd", bits, x, "none"), || match Option::<Odd<BoxedUint>>::from(a.to_odd()) { Some(n) => out(&wb(&n)).i("vp", n.bits_precision() as i64), None => O::none() });
        if odd_of(x) {
            let o = oddb(x).unwrap();
            cx.call(mk("Odd<BoxedUint>::as_nz_ref", "nz", bits, x, "na"), || { let r = o.as_nz_ref(); out(&wb(r)).i("vp", r.bits_precision() as i64) });
            cx.call(mk("AsRef<NonZero<BoxedUint>> for Odd<BoxedUint>", "nz", bits, x, "na"), || { let r: &NonZero<BoxedUint> = AsRef::<NonZero<BoxedUint>>::as_ref(&o); out(&wb(r)).i("vp", r.bits_precision() as i64) });
            cx.call(mk("Odd<BoxedUint>::clone", "odd", bits, x, "na"), || { let r = o.clone(); out(&wb(&r)).i("vp", r.bits_precision() as i64) });
            cx.call(mk("BoxedMontyParams::new.modulus", "odd", bits, x, "na"), || { let p = BoxedMontyParams::new(o.clone()); let r = p.modulus(); out(&wb(r)).i("vp", r.bits_precision() as i64) });
            cx.call(mk("BoxedMontyParams::new_vartime.modulus", "odd", bits, x, "na"), || { let p = BoxedMontyParams::new_vartime(o.clone()); let r = p.modulus(); out(&wb(r)).i("vp", r.bits_precision() as i64) });
        }
        if !is_zero(x) {
            let n = nzb(x).unwrap();
            cx.call(mk("NonZero<BoxedUint>::clone", "nz", bits, x, "na"), || { let r = n.clone(); out(&wb(&r)).i("vp", r.bits_precision() as i64) });
            for p in [bits, bits + 1, bits + 64, bits + 100, bits.saturating_sub(1), bits.saturating_sub(64), 0] {
                cx.call(ev("widen", "NonZero<BoxedUint>::widen", "nz", bits).n("x", x).i("pr", p as i64), || { let r = n.widen(p as u32); out(&wb(&r)).i("vp", r.bits_precision() as i64) });
            }
        }
    }
    cx.call(ev("const", "Odd<BoxedUint>::default", "odd", 64).s("name", "default").f("sg", false), || out(&wb(&Odd::<BoxedUint>::default())));
    // random odd boxed integers of a requested bit length
    for it in 0..(10 + 4 * extra) {
        let bl = match it % 5 { 0 => bits, 1 => bits - 1, 2 => cx.rng.range(1, bits), 3 => 1 + 64 * (nl - 1), _ => cx.rng.pick(&[0usize, 1, 2, 33, 64]) };
        let data = stream(&mut cx.rng, nl, it % 3, it % 3 + 2, 0);
        let mut rf = Script { data: data.clone(), pos: 0 };
        let xs: Vec<Vec<u64>> = (0..2).map(|_| wb(&BoxedUint::random_bits(&mut rf, bl as u32))).collect();
        let mut rf = Script { data: data.clone(), pos: 0 };
        let xp = BoxedUint::random_bits(&mut rf, bl as u32).bits_precision();
        cx.call(ev("random", "Odd<BoxedUint>::random", "odd", bl).nl("xs", &xs).i("xp", xp as i64).s("z", "any"), || {
            let mut g = Script { data: data.clone(), pos: 0 };
            let r = Odd::<BoxedUint>::random(&mut g, bl as u32);
            out(&wb(&r)).i("vp", r.bits_precision() as i64)
        });
        if it % 4 == 0 {
            // a stream that ends before the first sample is complete
            let cutdata: Vec<u8> = data[..data.len().min(bl / 8 / 2)].to_vec();
            let mut rf = FScript { data: cutdata.clone(), pos: 0 };
            let mut xs = vec![];
            if let Ok(s) = BoxedUint::try_random_bits(&mut rf, bl as u32) { xs.push(wb(&s)); }
            cx.call(ev("random", "Odd<BoxedUint>::random", "odd", bl).nl("xs", &xs).i("xp", xp as i64).s("z", "any"), || {
                let mut g = FScript { data: cutdata.clone(), pos: 0 };
                let r = Odd::<BoxedUint>::random(&mut g, bl as u32);
                out(&wb(&r)).i("vp", r.bits_precision() as i64)
            });
        }
    }
}

// const-context producers: evaluated by the compiler, observed at run time
use vh::cb::impl_modulus;
impl_modulus!(ModP256, U256, "ffffffff00000001000000000000000000000000ffffffffffffffffffffffff");
impl_modulus!(ModSmall, U128, "00000000000000000000000000000003");
const NZ_CONST: NonZero<U128> = NonZero::<U128>::new_unwrap(U128::from_u64(0x1_0000_0000));
const NZL_CONST: NonZero<Limb> = NonZero::<Limb>::new_unwrap(Limb(7));
const ODD_CONST: Odd<U128> = U128::from_u64(0xffff_ffff_0000_0001).to_odd().expect("odd");
const ODD_HEX_CONST: Odd<U64> = Odd::<U64>::from_be_hex("00000000000000ff");

fn const_family(cx: &mut Cx) {
    use vh::cb::modular::ConstMontyParams;
    let p256 = "ffffffff00000001000000000000000000000000ffffffffffffffffffffffff";
    cx.call(ev("decode", "impl_modulus!::MODULUS", "odd", 256).s("fmt", "hex").s("en", "be").b("enc", p256.as_bytes()).s("z", "panic"), || out(&w(&<ModP256 as ConstMontyParams<4>>::MODULUS.get())));
    cx.call(ev("decode", "impl_modulus!::MODULUS", "odd", 128).s("fmt", "hex").s("en", "be").b("enc", b"00000000000000000000000000000003").s("z", "panic"), || out(&w(&<ModSmall as ConstMontyParams<2>>::MODULUS.get())));
    cx.call(mk("MontyParams::from_const_params.modulus", "odd", 256, &w(&<ModP256 as ConstMontyParams<4>>::MODULUS.get()), "na"), || out(&w(&MontyParams::<4>::from_const_params::<ModP256>().modulus().get())));
    cx.call(mk("BoxedMontyParams::from_const_params.modulus", "odd", 256, &w(&<ModP256 as ConstMontyParams<4>>::MODULUS.get()), "na"), || { let p = BoxedMontyParams::from_const_params::<4, ModP256>(); let r = p.modulus(); out(&wb(r)).i("vp", r.bits_precision() as i64) });
    cx.call(mk("const NonZero<Uint>::new_unwrap", "nz", 128, &[0x1_0000_0000, 0], "panic"), || out(&w(&NZ_CONST.get())));
    cx.call(mk("const NonZero<Limb>::new_unwrap", "nz", 64, &[7], "panic"), || out(&[NZL_CONST.get().0]));
    cx.call(mk("const Uint::to_odd.expect", "odd", 128, &[0xffff_ffff_0000_0001, 0], "panic"), || out(&w(&ODD_CONST.get())));
    cx.call(ev("decode", "const Odd<Uint>::from_be_hex", "odd", 64).s("fmt", "hex").s("en", "be").b("enc", b"00000000000000ff").s("z", "panic"), || out(&w(&ODD_HEX_CONST.get())));
}

fn main() {
    let mut cx = Cx::from_args("C12");
    let s = cx.scale;
    for round in 0..(3 * s) {
        let extra = if round == 0 { 6 } else { 10 };
        if cx.want("limb") {
            limb_family(&mut cx, extra);
        }
        if cx.want("uint") {
            uint_family::<1>(&mut cx, extra);
            uint_family::<2>(&mut cx, extra);
            uint_family::<3>(&mut cx, extra / 2);
            uint_family::<4>(&mut cx, extra);
            uint_named_family!(&mut cx, U64, 1, extra);
            uint_named_family!(&mut cx, U128, 2, extra);
            uint_named_family!(&mut cx, U256, 4, extra);
        }
        if cx.want("int") {
            int_family::<1>(&mut cx, extra / 2);
            int_family::<2>(&mut cx, extra);
            int_family::<4>(&mut cx, extra / 2);
        }
        if cx.want("boxed") {
            for nl in [1usize, 2, 3, 4, 5] {
                boxed_family(&mut cx, nl, extra / 2);
            }
        }
        if cx.want("const") {
            const_family(&mut cx);
        }
    }
    cx.finish();
}
